(** * Literal typing of the streaming Turtle reader (C07, second half of T4) *)
From Coq Require Import List Ascii String ZArith Bool Lia.
From Shexer Require Import Lib.PyStr Lib.Dict Gen.Consts Spec.Rdf Spec.TtlSyntax Spec.TtlDomain Model.TtlReader
  Proofs.TtlProofs Proofs.TtlExpand.
Import ListNotations.
Local Open Scope Z_scope.

(** ** [rfind] *)

Lemma rfind_aux_shift p : forall s i best,
  rfind_nat_aux p s i best =
  match rfind_nat_aux p s O None with Some k => Some (i + k)%nat | None => best end.
Proof.
  induction s as [|c s IH]; intros i best; cbn [rfind_nat_aux].
  - destruct (prefixb p []); [rewrite Nat.add_0_r|]; reflexivity.
  - rewrite (IH (S i)), (IH 1%nat).
    destruct (rfind_nat_aux p s O None) as [k|].
    + f_equal. lia.
    + destruct (prefixb p (c :: s)); [rewrite Nat.add_0_r|]; reflexivity.
Qed.

Lemma rfind_nat_cons p c s :
  rfind_nat p (c :: s) =
  match rfind_nat p s with
  | Some k => Some (S k)
  | None => if prefixb p (c :: s) then Some O else None
  end.
Proof.
  unfold rfind_nat. cbn [rfind_nat_aux]. rewrite rfind_aux_shift.
  destruct (rfind_nat_aux p s O None); reflexivity.
Qed.

Lemma rfind_nat_nil x : rfind_nat [x] [] = None.
Proof. reflexivity. Qed.

(** last occurrence of a single character *)
Lemma rfind_single_absent x s : Forall (fun c => Ascii.eqb x c = false) s -> rfind_nat [x] s = None.
Proof.
  induction 1 as [|c s Hc Hs IH]; [reflexivity|].
  rewrite rfind_nat_cons, IH. cbn [prefixb]. rewrite Hc. reflexivity.
Qed.

Lemma rfind_single_app x a b :
  Forall (fun c => Ascii.eqb x c = false) b -> rfind_nat [x] (a ++ x :: b) = Some (List.length a).
Proof.
  intros Hb. induction a as [|c a IH]; cbn [app List.length].
  - rewrite rfind_nat_cons, (rfind_single_absent x b Hb). cbn [prefixb]. rewrite Ascii.eqb_refl. reflexivity.
  - rewrite rfind_nat_cons, IH. reflexivity.
Qed.

Lemma rfind_single_app_absent x a b :
  Forall (fun c => Ascii.eqb x c = false) b -> rfind_nat [x] (a ++ b) = rfind_nat [x] a.
Proof.
  intros Hb. induction a as [|c a IH]; cbn [app].
  - rewrite (rfind_single_absent x b Hb). reflexivity.
  - rewrite !rfind_nat_cons, IH. destruct (rfind_nat [x] a); [reflexivity|]. reflexivity.
Qed.

Lemma rfind_single_bound x s k : rfind_nat [x] s = Some k -> (k < List.length s)%nat.
Proof.
  revert k. induction s as [|c s IH]; intros k; [discriminate|].
  rewrite rfind_nat_cons. destruct (rfind_nat [x] s) as [j|].
  - intros H; inversion H; subst. specialize (IH j eq_refl). cbn [List.length]. lia.
  - destruct (prefixb [x] (c :: s)); intros H; inversion H. cbn [List.length]. lia.
Qed.

Definition rfindZ (o : option nat) : Z := match o with Some n => Z.of_nat n | None => -1 end.

Lemma rfind_unfold p s : rfind p s = rfindZ (rfind_nat p s).
Proof. reflexivity. Qed.

(** ** occurrences of a pattern that starts with a given character *)

Lemma prefixb_app_excl p x c y :
  prefixb p (x ++ c :: y) = true -> Forall (fun d => Ascii.eqb d c = false) p -> p <> [] -> prefixb p x = true.
Proof.
  revert x. induction p as [|d p IH]; intros x H Hall Hne; [contradiction|].
  inversion Hall as [|? ? Hd Hall']; subst.
  destruct x as [|z x]; cbn [app prefixb] in H |- *.
  - apply andb_true_iff in H. destruct H as (H & _). rewrite H in Hd. discriminate.
  - apply andb_true_iff in H. destruct H as (H1 & H2). rewrite H1. cbn [andb].
    destruct p as [|d2 p]; [reflexivity|]. apply IH; [exact H2 | exact Hall' | discriminate].
Qed.

(** [P = x :: cc] does not occur in [S] iff no [x] of [S] is followed by [cc] *)
Lemma find_none_decomp x cc S :
  find_nat (x :: cc) S = None <-> (forall A R, S = A ++ x :: R -> prefixb cc R = false).
Proof.
  split.
  - intros H A. revert S H. induction A as [|a A IH]; intros S H R ->.
    + cbn [app] in H. apply find_nat_none_cons in H. destruct H as (H & _). cbn [prefixb] in H.
      rewrite Ascii.eqb_refl in H. exact H.
    + cbn [app] in H. apply find_nat_none_cons in H. destruct H as (_ & H). eapply IH; [exact H | reflexivity].
  - induction S as [|c S IH]; intros H.
    + reflexivity.
    + cbn [find_nat]. assert (E : prefixb (x :: cc) (c :: S) = false).
      { cbn [prefixb]. destruct (Ascii.eqb x c) eqn:Ex; [|reflexivity]. apply Ascii.eqb_eq in Ex. subst c.
        cbn [andb]. apply (H [] S). reflexivity. }
      rewrite E. rewrite IH; [reflexivity|]. intros A R ->. apply (H (c :: A) R). reflexivity.
Qed.

(** first occurrence: [P] occurs right after [A] and no suffix of [A] starts one *)
Lemma find_nat_app_first P R : forall A,
  (forall A1 A2, A = A1 ++ A2 -> A2 <> [] -> prefixb P (A2 ++ R) = false) ->
  prefixb P R = true -> find_nat P (A ++ R) = Some (List.length A).
Proof.
  induction A as [|a A IH]; intros H HR.
  - cbn [app List.length]. apply find_nat_prefix. exact HR.
  - cbn [app find_nat List.length].
    assert (E : prefixb P ((a :: A) ++ R) = false) by (apply (H [] (a :: A) eq_refl); discriminate).
    cbn [app] in E. rewrite E.
    rewrite IH; [reflexivity | | exact HR]. intros A1 A2 -> Hne. apply (H (a :: A1) A2); [reflexivity | exact Hne].
Qed.

(** where a character [q] of [X ++ Y] sits *)
Lemma decomp_app q (Y : str) : forall X A R,
  X ++ Y = A ++ q :: R ->
  (exists R0, X = A ++ q :: R0 /\ R = R0 ++ Y) \/ (exists A2, A = X ++ A2 /\ Y = A2 ++ q :: R).
Proof.
  induction X as [|x X IH]; intros A R H.
  - right. exists A. split; [reflexivity | exact H].
  - destruct A as [|a A]; cbn [app] in H; inversion H; subst.
    + left. eexists. split; reflexivity.
    + match goal with E : X ++ Y = A ++ _ :: R |- _ => destruct (IH A R E) as [(R0 & E1 & E2) | (A2 & E1 & E2)] end; subst.
      * left. eexists. split; reflexivity.
      * right. eexists. split; [reflexivity | (reflexivity || eassumption)].
Qed.

Lemma decomp_head q (Y' : str) A R :
  Forall (fun c => Ascii.eqb q c = false) Y' -> q :: Y' = A ++ q :: R -> A = [] /\ R = Y'.
Proof.
  intros Hno H. destruct A as [|a A]; cbn [app] in H; inversion H; subst; [auto|].
  exfalso. rewrite Forall_forall in Hno.
  match goal with |- _ => specialize (Hno a) end. rewrite Ascii.eqb_refl in Hno.
  apply Bool.diff_true_false. apply Hno. apply in_or_app. right. left. reflexivity.
Qed.

Definition qc : ascii := ttl_quote.
Definition cc : str := [chr "^"; chr "^"].

Lemma typed_marker_eq : ttl_typed_marker = qc :: cc.
Proof. reflexivity. Qed.

(** the marker quote-^^ does not occur in [quote lex quote Y'] when it does not occur in
    [quote lex] and [Y'] neither starts with ^^ nor contains a quote *)
Lemma no_typed_marker lex Y' :
  contains (qc :: cc) (qc :: lex) = false ->
  Forall (fun c => Ascii.eqb qc c = false) Y' -> prefixb cc Y' = false ->
  contains (qc :: cc) ((qc :: lex) ++ qc :: Y') = false.
Proof.
  intros Hrc Hno Hpre. apply contains_false_find in Hrc.
  unfold contains. assert (E : find_nat (qc :: cc) ((qc :: lex) ++ qc :: Y') = None); [|rewrite E; reflexivity].
  apply find_none_decomp. intros A R H.
  destruct (decomp_app qc (qc :: Y') (qc :: lex) A R H) as [(R0 & HX & ->) | (A2 & -> & HY)].
  - pose proof (proj1 (find_none_decomp qc cc (qc :: lex)) Hrc A R0 HX) as H0.
    destruct (prefixb cc (R0 ++ qc :: Y')) eqn:E; [|reflexivity].
    apply prefixb_app_excl in E; [congruence | repeat constructor | discriminate].
  - destruct (decomp_head qc Y' A2 R Hno HY) as (_ & ->). exact Hpre.
Qed.

(** ** [there_is_arroba_after_last_quotes] *)

Lemma arroba_false tok k :
  rfind_nat s_quote tok = Some k ->
  (forall j, rfind_nat c_lang_marker tok = Some j -> (j <= k)%nat) ->
  arroba_after_last_quotes tok = false.
Proof.
  intros Hq Ha. unfold arroba_after_last_quotes. rewrite !rfind_unfold, Hq.
  destruct (rfind_nat c_lang_marker tok) as [j|]; cbn [rfindZ]; apply Z.ltb_ge; [specialize (Ha j eq_refl)|]; lia.
Qed.

(** ** plain and language-tagged literals *)

Lemma string_type_eq : c_STRING_TYPE = xsd_string. Proof. reflexivity. Qed.
Lemma lang_type_eq : c_LANG_STRING_TYPE = rdf_langString. Proof. reflexivity. Qed.
Lemma integer_type_eq : c_INTEGER_TYPE = xsd_integer. Proof. reflexivity. Qed.

Lemma rc_lit_marker e lex sfx :
  rc_free (rc_lit e lex sfx) = true -> contains (qc :: cc) (qc :: lex) = false.
Proof.
  unfold rc_lit. intros H.
  destruct (contains (Str """^^") (Str """" ++ lex)) eqn:E; [cbn in H; discriminate|]. exact E.
Qed.

Lemma plain_type e lex b :
  rc_free (rc_lit e lex LPlain) = true ->
  decide_literal_type (render_obj (OLit lex LPlain)) b = Ok xsd_string.
Proof.
  intros Hrc. pose proof (rc_lit_marker _ _ _ Hrc) as Hm.
  change (render_obj (OLit lex LPlain)) with ((qc :: lex) ++ qc :: []).
  unfold decide_literal_type.
  assert (Hq : rfind_nat s_quote ((qc :: lex) ++ qc :: []) = Some (List.length (qc :: lex))).
  { apply (rfind_single_app qc (qc :: lex) []). constructor. }
  rewrite (arroba_false _ _ Hq).
  2:{ intros j Hj. apply rfind_single_bound in Hj. rewrite app_length in Hj. cbn [List.length] in *. lia. }
  rewrite typed_marker_eq, (no_typed_marker lex [] Hm) by (constructor || reflexivity).
  reflexivity.
Qed.

Lemma tag_chars t : tag_wf t = true ->
  Forall (fun c => Ascii.eqb qc c = false) t /\ Forall (fun c => Ascii.eqb (chr "@") c = false) t.
Proof.
  unfold tag_wf. rewrite !andb_true_iff. intros ((((_ & _) & _) & H) & _).
  split; apply (forallb_Forall_neq _ _ _ H); reflexivity.
Qed.

Lemma lang_type e lex t b :
  rc_free (rc_lit e lex (LLang t)) = true -> tag_wf t = true ->
  decide_literal_type (render_obj (OLit lex (LLang t))) b = Ok rdf_langString.
Proof.
  intros Hrc Ht. destruct (tag_chars t Ht) as (Hnq & Hna).
  change (render_obj (OLit lex (LLang t))) with ((qc :: lex) ++ qc :: chr "@" :: t).
  set (tok := (qc :: lex) ++ qc :: chr "@" :: t).
  assert (Hq : rfind_nat s_quote tok = Some (List.length (qc :: lex))).
  { apply (rfind_single_app qc (qc :: lex) (chr "@" :: t)). constructor; [reflexivity | exact Hnq]. }
  assert (Ha : rfind_nat c_lang_marker tok = Some (List.length ((qc :: lex) ++ [qc]))).
  { unfold tok. replace ((qc :: lex) ++ qc :: chr "@" :: t) with (((qc :: lex) ++ [qc]) ++ chr "@" :: t)
      by (rewrite <- app_assoc; reflexivity).
    apply (rfind_single_app (chr "@") ((qc :: lex) ++ [qc]) t Hna). }
  unfold decide_literal_type, arroba_after_last_quotes. rewrite !rfind_unfold, Hq, Ha. cbn [rfindZ].
  replace (Z.of_nat (List.length (qc :: lex)) <? Z.of_nat (List.length ((qc :: lex) ++ [qc]))) with true.
  - reflexivity.
  - symmetry. apply Z.ltb_lt. rewrite app_length. cbn [List.length]. lia.
Qed.

(** ** typed literals *)

Lemma slice_from_app (A B : str) : slice_from (A ++ B) (len A) = B.
Proof.
  unfold slice_from, norm_idx. pose proof (len_nonneg A). pose proof (len_nonneg B).
  destruct (len A <? 0) eqn:E; [apply Z.ltb_lt in E; lia|].
  rewrite len_app, Z.min_l by lia. apply skipn_len_app.
Qed.

Lemma slice_mid (A B : str) x : slice (A ++ B ++ [x]) (len A) (-1) = B.
Proof.
  unfold slice, norm_idx. pose proof (len_nonneg A). pose proof (len_nonneg B).
  rewrite !len_app. change (len [x]) with 1.
  destruct (len A <? 0) eqn:E; [apply Z.ltb_lt in E; lia|].
  change (-1 <? 0) with true. cbv iota.
  rewrite Z.min_l by lia. rewrite Z.max_r by lia.
  replace (len A + (len B + 1) + -1 - len A) with (len B) by lia.
  rewrite skipn_len_app. unfold len. rewrite Nat2Z.id, firstn_app, firstn_all, Nat.sub_diag. cbn. apply app_nil_r.
Qed.

Lemma suffixb_snoc (X : str) x : suffixb [x] (X ++ [x]) = true.
Proof. unfold suffixb. rewrite rev_app_distr. cbn. rewrite Ascii.eqb_refl. reflexivity. Qed.

Lemma strip_ends c (m : str) d : is_space c = false -> is_space d = false -> strip (c :: m ++ [d]) = c :: m ++ [d].
Proof.
  intros Hc Hd. unfold strip, rstrip. rewrite (lstrip_first c _ Hc).
  change (c :: m ++ [d]) with ((c :: m) ++ [d]). rewrite rev_app_distr. cbn [rev app].
  rewrite (lstrip_first d _ Hd).
  replace (d :: rev m ++ [c]) with (rev ((c :: m) ++ [d])) by (rewrite rev_app_distr; reflexivity).
  apply rev_involutive.
Qed.

Lemma contains_single_false x s : contains [x] s = false -> Forall (fun c => Ascii.eqb x c = false) s.
Proof.
  unfold contains. induction s as [|c s IH]; intros H; [constructor|].
  rewrite find_nat_single_cons in H. unfold chr_eqb in H. destruct (Ascii.eqb x c) eqn:E; [discriminate|].
  constructor; [exact E|]. apply IH. destruct (find_nat [x] s); [discriminate | reflexivity].
Qed.

Lemma Forall_app_intro {A} (P : A -> Prop) a b : Forall P a -> Forall P b -> Forall P (a ++ b).
Proof. intros Ha Hb. apply Forall_app. split; assumption. Qed.

Lemma ref_no_quote r : ref_wf r = true -> Forall (fun c => Ascii.eqb qc c = false) (render_ref r).
Proof.
  destruct r as [i|x|p l]; cbn [ref_wf render_ref]; rewrite ?andb_true_iff.
  - intros (H & _). apply Forall_app_intro; [repeat constructor|]. apply Forall_app_intro; [|repeat constructor].
    apply (forallb_Forall_neq _ _ _ H). reflexivity.
  - intros (H & _). apply Forall_app_intro; [repeat constructor|]. apply Forall_app_intro; [|repeat constructor].
    apply (forallb_Forall_neq _ _ _ H). reflexivity.
  - intros ((((H1 & _) & H2) & _) & _). apply Forall_app_intro; [apply (forallb_Forall_neq _ _ _ H1); reflexivity|].
    apply Forall_app_intro; [repeat constructor|]. apply (forallb_Forall_neq _ _ _ H2). reflexivity.
Qed.

(** the model's prefix table and the spec's list of wired prefixes agree *)
Lemma dt_table_link tok :
  dt_by_prefix ttl_dt_prefix_table tok =
  match first_wired wired tok with
  | Some (q, ns) => Some (ns ++ slice_from tok (find (q ++ Str ":") tok + len (q ++ Str ":")))
  | None => None
  end.
Proof.
  unfold ttl_dt_prefix_table, wired. cbn [dt_by_prefix first_wired].
  change (Str "xsd" ++ Str ":") with (Str "xsd:"). change (Str "rdf" ++ Str ":") with (Str "rdf:").
  change (Str "dt" ++ Str ":") with (Str "dt:"). change (Str "geo" ++ Str ":") with (Str "geo:").
  destruct (contains (Str "xsd:") tok); [reflexivity|].
  destruct (contains (Str "rdf:") tok); [reflexivity|].
  destruct (contains (Str "dt:") tok); [reflexivity|].
  destruct (contains (Str "geo:") tok); reflexivity.
Qed.

Lemma ns_link tok :
  existsb (fun ns => contains ns tok) ttl_dt_namespaces = existsb (fun w => contains (snd w) tok) wired.
Proof. reflexivity. Qed.

(** common part: the token is recognised as typed, the marker is found at the closing quote *)
Section Typed.
  Variables (lex R : str).
  Hypothesis Hm : contains (qc :: cc) (qc :: lex) = false.
  Hypothesis HRq : Forall (fun c => Ascii.eqb qc c = false) R.
  Hypothesis HRa : Forall (fun c => Ascii.eqb (chr "@") c = false) R.

  Definition ttok : str := (qc :: lex) ++ (qc :: cc) ++ R.

  Lemma typed_arroba : arroba_after_last_quotes ttok = false.
  Proof.
    assert (Hq : rfind_nat s_quote ttok = Some (List.length (qc :: lex))).
    { apply (rfind_single_app qc (qc :: lex) (cc ++ R)). apply Forall_app_intro; [repeat constructor | exact HRq]. }
    apply (arroba_false _ _ Hq). intros j Hj.
    unfold ttok in Hj. change c_lang_marker with [chr "@"] in Hj.
    replace ((qc :: lex) ++ (qc :: cc) ++ R) with ((qc :: lex) ++ (qc :: cc ++ R)) in Hj by reflexivity.
    rewrite (rfind_single_app_absent (chr "@") (qc :: lex) (qc :: cc ++ R)) in Hj.
    - apply rfind_single_bound in Hj. lia.
    - constructor; [reflexivity|]. apply Forall_app_intro; [repeat constructor | exact HRa].
  Qed.

  Lemma typed_contains : contains ttl_typed_marker ttok = true.
  Proof. rewrite typed_marker_eq. apply contains_app. Qed.

  Lemma typed_find : find ttl_typed_marker ttok = len (qc :: lex).
  Proof.
    rewrite typed_marker_eq. unfold find, ttok.
    rewrite (find_nat_app_first (qc :: cc) ((qc :: cc) ++ R) (qc :: lex)); [reflexivity| |apply prefixb_app].
    intros A1 A2 HA Hne. destruct A2 as [|a A3]; [contradiction|].
    cbn [app prefixb]. destruct (Ascii.eqb qc a) eqn:Ea; [|reflexivity]. cbn [andb].
    apply Ascii.eqb_eq in Ea. subst a.
    apply contains_false_find in Hm.
    pose proof (proj1 (find_none_decomp qc cc (qc :: lex)) Hm A1 A3 HA) as H0.
    destruct (prefixb cc (A3 ++ qc :: cc ++ R)) eqn:E; [|reflexivity].
    apply prefixb_app_excl in E; [congruence | repeat constructor | discriminate].
  Qed.
End Typed.

Lemma render_typed lex r : render_obj (OLit lex (LTyped r)) = ttok lex (render_ref r).
Proof. reflexivity. Qed.

(** peel the root-cause list of a typed literal: leaves the case analysis on the datatype form *)
Ltac peel_rc_lit Hrc E1 E2 :=
  unfold rc_lit in Hrc;
  match type of Hrc with context [contains (Str """^^") ?x] => destruct (contains (Str """^^") x) eqn:E1; [cbn in Hrc; discriminate|] end;
  match type of Hrc with context [contains [ascii_of_nat 9] ?x || ?y] => destruct (contains [ascii_of_nat 9] x || y); [cbn in Hrc; discriminate|] end;
  cbn [when app] in Hrc;
  match type of Hrc with context [contains (Str "@") ?x] => destruct (contains (Str "@") x) eqn:E2; [cbn in Hrc; discriminate|] end;
  cbn [when app] in Hrc.

Lemma typed_pre e lex p l u b :
  ref_wf (IPre p l) = true -> rc_free (rc_lit e lex (LTyped (IPre p l))) = true ->
  resolve_ref e (IPre p l) = Some u ->
  decide_literal_type (render_obj (OLit lex (LTyped (IPre p l)))) b = Ok u.
Proof.
  intros Hwf Hrc Hu. peel_rc_lit Hrc Hm Hat.
  pose proof (ref_no_quote _ Hwf) as HRq. pose proof (contains_single_false _ _ Hat) as HRa.
  cbn [resolve_ref] in Hu. destruct (lookup p (e_prefixes e)) as [ns'|] eqn:El; [|discriminate]. inversion Hu; subst u.
  set (tok := render_obj (OLit lex (LTyped (IPre p l)))) in *.
  destruct (first_wired wired tok) as [(q, ns)|] eqn:Ew; [|discriminate].
  assert (Hc : str_eqb p q && (find (q ++ Str ":") tok =? len lex + 4) && str_eqb ns ns' = true).
  { destruct (str_eqb p q && (find (q ++ Str ":") tok =? len lex + 4) && str_eqb ns ns'); [reflexivity | discriminate]. }
  rewrite !andb_true_iff in Hc. destruct Hc as ((Hp & Hf) & Hns).
  apply str_eqb_eq in Hp. apply str_eqb_eq in Hns. apply Z.eqb_eq in Hf. subst q ns'.
  unfold decide_literal_type. unfold tok at 1 2. rewrite render_typed.
  rewrite (typed_arroba lex _ HRq HRa), (typed_contains lex _). cbn [negb].
  rewrite dt_table_link, Ew, Hf.
  f_equal. f_equal.
  assert (Et : tok = ((qc :: lex) ++ (qc :: cc) ++ p ++ Str ":") ++ l).
  { unfold tok. rewrite render_typed. unfold ttok. cbn [render_ref]. rewrite <- !app_assoc. reflexivity. }
  rewrite Et.
  replace (len lex + 4 + len (p ++ Str ":")) with (len ((qc :: lex) ++ (qc :: cc) ++ p ++ Str ":")).
  - apply slice_from_app.
  - rewrite !len_app, !len_cons. change (len cc) with 2. lia.
Qed.

(** datatype written [<x>]: the candidate cut out of the token is [x] *)
Lemma typed_cand lex x :
  contains (qc :: cc) (qc :: lex) = false ->
  Forall (fun c => Ascii.eqb qc c = false) (s_lt ++ x ++ s_gt) ->
  let tok := ttok lex (s_lt ++ x ++ s_gt) in
  slice tok (find ttl_typed_marker tok + ttl_dt_iri_offset) ttl_dt_iri_end = x /\
  suffixb ttl_dt_iri_close (strip tok) = true.
Proof.
  intros Hm HRq tok. split.
  - unfold tok. rewrite (typed_find lex _ Hm). change ttl_dt_iri_offset with 4. change ttl_dt_iri_end with (-1).
    assert (Et : ttok lex (s_lt ++ x ++ s_gt) = ((qc :: lex) ++ (qc :: cc) ++ s_lt) ++ x ++ [chr ">"]).
    { unfold ttok. rewrite <- !app_assoc. reflexivity. }
    rewrite Et.
    replace (len (qc :: lex) + 4) with (len ((qc :: lex) ++ (qc :: cc) ++ s_lt)).
    + apply slice_mid.
    + rewrite !len_app, !len_cons. change (len cc) with 2. change (len s_lt) with 1. lia.
  - assert (Et : tok = qc :: (lex ++ (qc :: cc) ++ s_lt ++ x) ++ [chr ">"]).
    { unfold tok, ttok. cbn [app]. f_equal. rewrite <- !app_assoc. reflexivity. }
    rewrite Et, strip_ends by reflexivity.
    change (qc :: (lex ++ (qc :: cc) ++ s_lt ++ x) ++ [chr ">"]) with ((qc :: (lex ++ (qc :: cc) ++ s_lt ++ x)) ++ [chr ">"]).
    change ttl_dt_iri_close with [chr ">"]. apply suffixb_snoc.
Qed.

Lemma typed_abs e s lex i u :
  env_match e s -> ref_wf (IAbs i) = true -> rc_free (rc_lit e lex (LTyped (IAbs i))) = true ->
  resolve_ref e (IAbs i) = Some u ->
  decide_literal_type (render_obj (OLit lex (LTyped (IAbs i)))) (base s) = Ok u.
Proof.
  intros (Hb & _ & _) Hwf Hrc Hu. peel_rc_lit Hrc Hm Hat.
  pose proof (ref_no_quote _ Hwf) as HRq. pose proof (contains_single_false _ _ Hat) as HRa.
  cbn [resolve_ref] in Hu. inversion Hu; subst u.
  set (tok := render_obj (OLit lex (LTyped (IAbs i)))) in *.
  destruct (first_wired wired tok) as [(q, ns)|] eqn:Ew; [discriminate|].
  destruct (typed_cand lex i Hm HRq) as (Hcand & Hsuf).
  unfold decide_literal_type. unfold tok at 1 2. rewrite render_typed.
  rewrite (typed_arroba lex _ HRq HRa), (typed_contains lex _). cbn [negb].
  rewrite dt_table_link, Ew.
  change (ttok lex (s_lt ++ i ++ s_gt)) with tok in Hcand, Hsuf. rewrite Hcand, Hsuf, ns_link.
  destruct (existsb (fun w => contains (snd w) tok) wired) eqn:Ens; [reflexivity|].
  rewrite Hb. destruct (e_base e) as [bs|]; [|reflexivity].
  unfold is_absolute. change ttl_scheme_test_datatypes with true. cbv iota.
  cbn [ref_wf] in Hwf. apply andb_true_iff in Hwf. destruct Hwf as (_ & Hsch).
  rewrite <- (app_nil_r i) at 1. rewrite (has_scheme_model i [] Hsch). reflexivity.
Qed.

Lemma typed_rel e s lex x u :
  env_match e s -> ref_wf (IRel x) = true -> rc_free (rc_lit e lex (LTyped (IRel x))) = true ->
  resolve_ref e (IRel x) = Some u ->
  decide_literal_type (render_obj (OLit lex (LTyped (IRel x)))) (base s) = Ok u.
Proof.
  intros (Hb & _ & _) Hwf Hrc Hu. peel_rc_lit Hrc Hm Hat.
  pose proof (ref_no_quote _ Hwf) as HRq. pose proof (contains_single_false _ _ Hat) as HRa.
  cbn [resolve_ref] in Hu. destruct (e_base e) as [bs|] eqn:Eb; [|discriminate].
  set (tok := render_obj (OLit lex (LTyped (IRel x)))) in *.
  destruct (first_wired wired tok) as [(q, ns)|] eqn:Ew; [discriminate|].
  destruct (existsb (fun w => contains (snd w) tok) wired) eqn:Ens; [cbn in Hrc; discriminate|].
  cbn [when app] in Hrc. rewrite Hu in Hrc.
  destruct (str_eqb u (bs ++ x)) eqn:Eu; [|cbn in Hrc; discriminate]. apply str_eqb_eq in Eu. subst u.
  assert (Eh : starts_with_scheme x = false).
  { apply no_scheme_no_colon. apply contains_colon_false. cbn [ref_wf] in Hwf. apply andb_true_iff in Hwf.
    destruct Hwf as (_ & Hnc). apply negb_true_iff in Hnc. exact Hnc. }
  destruct (typed_cand lex x Hm HRq) as (Hcand & Hsuf).
  unfold decide_literal_type. unfold tok at 1 2. rewrite render_typed.
  rewrite (typed_arroba lex _ HRq HRa), (typed_contains lex _). cbn [negb].
  rewrite dt_table_link, Ew.
  change (ttok lex (s_lt ++ x ++ s_gt)) with tok in Hcand, Hsuf. rewrite Hcand, Hsuf, ns_link, Ens.
  rewrite Hb. unfold is_absolute. change ttl_scheme_test_datatypes with true. cbv iota. rewrite Eh. reflexivity.
Qed.

(** ** string literals as a whole *)

Definition okL (e : env) (lex : str) (sfx : lit_suffix) : bool :=
  obj_wf (OLit lex sfx) && rc_free (rc_lit e lex sfx).

Theorem literal_type e s lex sfx o :
  env_match e s -> okL e lex sfx = true -> sem_obj e (OLit lex sfx) = Some o ->
  exists dt, decide_literal_type (render_obj (OLit lex sfx)) (base s) = Ok dt /\ erase_obj o = OL [] dt.
Proof.
  intros Hm Hok Hsem. unfold okL in Hok. apply andb_true_iff in Hok. destruct Hok as (Hwf & Hrc).
  destruct sfx as [|t|r]; cbn [sem_obj obj_wf] in *.
  - inversion Hsem; subst o. exists xsd_string. split; [apply (plain_type e); exact Hrc | reflexivity].
  - inversion Hsem; subst o. apply andb_true_iff in Hwf. destruct Hwf as (_ & Ht).
    exists rdf_langString. split; [apply (lang_type e); assumption | reflexivity].
  - apply andb_true_iff in Hwf. destruct Hwf as (_ & Hr).
    destruct (resolve_ref e r) as [u|] eqn:Eu; [|discriminate]. cbn in Hsem. inversion Hsem; subst o.
    exists u. split; [|reflexivity].
    destruct r; [eapply typed_abs | eapply typed_rel | eapply typed_pre]; eassumption.
Qed.

(** ** objects *)

Definition okO (e : env) (x : object) : bool := obj_wf x && rc_free (rc_obj e x).

Lemma lit_tok_head lex sfx : exists t, render_obj (OLit lex sfx) = qc :: t.
Proof. destruct sfx; eexists; reflexivity. Qed.

Theorem obj_correct e s0 x o s :
  env_match e s0 -> same_env s s0 -> okO e x = true -> sem_obj e x = Some o ->
  closure_state (tokO s0 x) = None /\
  exists raw o', parse_elem s (tokO s0 x) = Ok (Some raw) /\
                 tune_token (Some raw) (base s) ttl_dflt_allow_untyped_numbers = Ok o' /\
                 erase_obj o' = erase_obj o.
Proof.
  intros Hm Hs Hok Hsem. pose proof (env_match_same _ _ _ Hm Hs) as Hm'.
  unfold tokO. destruct Hs as (_ & Hbase). rewrite <- Hbase.
  unfold okO in Hok. apply andb_true_iff in Hok. destruct Hok as (Hwf & Hrc).
  destruct x as [r|l|lex sfx|d].
  - (* IRI *)
    cbn [sem_obj obj_wf rc_obj render_obj] in *.
    destruct (resolve_ref e r) as [u|] eqn:Eu; [|discriminate]. cbn in Hsem. inversion Hsem; subst o.
    destruct (expansion_correct e s r u Hm' (okR_of e r Hwf Hrc) Eu) as (A & B).
    split; [exact A|]. eexists _, _. split; [exact B|]. split; [apply tune_token_iri | reflexivity].
  - (* blank node *)
    cbn [sem_obj obj_wf render_obj] in *. inversion Hsem; subst o.
    destruct (bnode_parse s l (label_nonempty l Hwf)) as (A & B & C).
    fold (bn_tok l). rewrite A. split; [exact B|]. eexists _, _. split; [exact C|]. split; reflexivity.
  - (* string literal *)
    destruct (literal_type e s lex sfx o Hm') as (dt & Hdt & Her); [unfold okL; rewrite Hwf; exact Hrc | exact Hsem |].
    destruct (lit_tok_head lex sfx) as (t & Et).
    set (tok := render_obj (OLit lex sfx)) in *.
    assert (Hv : vtok (base s) tok = tok) by (apply (vtok_not_lt _ _ qc t Et); reflexivity).
    rewrite Hv. split; [rewrite Et; apply closure_state_first; reflexivity|].
    exists tok. eexists. split; [|split].
    + unfold parse_elem. rewrite Et. rewrite (at_idx_at_pos (qc :: t) 0 qc t) by (exists []; split; reflexivity).
      change (chr_eqb qc ttl_iri_open) with false. cbv iota.
      assert (E : mem_str (qc :: t) ttl_RDF_TYPE_CONTRACTED = false) by reflexivity. rewrite E. reflexivity.
    + unfold tune_token.
      assert (E1 : prefixb s_lt tok = false) by (rewrite Et; reflexivity).
      assert (E2 : prefixb s_quote tok = true) by (rewrite Et; reflexivity).
      rewrite E1, E2. unfold parse_literal. rewrite Hdt. cbn [bind fst snd]. reflexivity.
    + cbn [erase_obj]. symmetry. exact Her.
  - (* untyped integer *)
    cbn [sem_obj obj_wf rc_obj render_obj] in *. inversion Hsem; subst o.
    assert (Hlen : (List.length d <= 300)%nat).
    { destruct (Nat.ltb 300 (List.length d)) eqn:E; [cbn in Hrc; discriminate|]. apply Nat.ltb_ge in E. exact E. }
    destruct (int_correct s (base s) d Hwf Hlen) as (A & B & C & o' & D & F).
    rewrite B. split; [exact A|]. exists d, o'. split; [exact C|]. split; [exact D | exact F].
Qed.

(** ** T1 + T4: statement groups in a fixed environment, any split into lines *)

Definition group_dom (e : env) (g : group) : bool := group_ok (okS e) (okP e) (okO e) g.

Theorem groups_any_split e s0 gs (ls : list (list atok)) tss s :
  env_match e s0 -> same_env s s0 -> state s = WS ->
  forallb (group_dom e) gs = true ->
  seq_opt (map (sem_group e) gs) = Some tss ->
  List.concat ls = flat_map group_tokens gs ->
  exists s' ts', machine_lines (map (map (tok_str s0)) ls) s = (ts', Ok s') /\
                 map erase_lex ts' = map erase_lex (List.concat tss) /\ same_env s' s0 /\ state s' = WS.
Proof.
  intros Hm. apply (state_machine_any_split e s0 (okS e) (okP e) (okO e)).
  - intros x n s1 H1 H2 H3. apply (subj_correct e s0 x n s1 Hm H1 H2 H3).
  - intros x p s1 H1 H2 H3. apply (pred_correct e s0 x p s1 Hm H1 H2 H3).
  - intros x o s1 H1 H2 H3. apply (obj_correct e s0 x o s1 Hm H1 H2 H3).
Qed.
