(** * String lemmas for the literal typing of the streaming Turtle reader (C07) *)
From Coq Require Import List Ascii String ZArith Bool Lia.
From Shexer Require Import Lib.PyStr Lib.Dict Gen.Consts Spec.Rdf Spec.TtlSyntax Spec.TtlDomain Model.TtlReader
  Proofs.TtlProofs Proofs.TtlExpand.
Import ListNotations.
Local Open Scope Z_scope.

(** ** [rfind] *)

Lemma rfind_aux_shift p : forall s i best,
  rfind_nat_aux p s i best =
  match rfind_nat_aux p s O None with Some k => Some (i + k)%nat | None => best end.
Proof.
  induction s as [|c s IH]; intros i best; cbn [rfind_nat_aux].
  - destruct (prefixb p []); [rewrite Nat.add_0_r|]; reflexivity.
  - rewrite (IH (S i)), (IH 1%nat).
    destruct (rfind_nat_aux p s O None) as [k|].
    + f_equal. lia.
    + destruct (prefixb p (c :: s)); [rewrite Nat.add_0_r|]; reflexivity.
Qed.

Lemma rfind_nat_cons p c s :
  rfind_nat p (c :: s) =
  match rfind_nat p s with
  | Some k => Some (S k)
  | None => if prefixb p (c :: s) then Some O else None
  end.
Proof.
  unfold rfind_nat. cbn [rfind_nat_aux]. rewrite rfind_aux_shift.
  destruct (rfind_nat_aux p s O None); reflexivity.
Qed.

Lemma rfind_nat_nil x : rfind_nat [x] [] = None.
Proof. reflexivity. Qed.

(** last occurrence of a single character *)
Lemma rfind_single_absent x s : Forall (fun c => Ascii.eqb x c = false) s -> rfind_nat [x] s = None.
Proof.
  induction 1 as [|c s Hc Hs IH]; [reflexivity|].
  rewrite rfind_nat_cons, IH. cbn [prefixb]. rewrite Hc. reflexivity.
Qed.

Lemma rfind_single_app x a b :
  Forall (fun c => Ascii.eqb x c = false) b -> rfind_nat [x] (a ++ x :: b) = Some (List.length a).
Proof.
  intros Hb. induction a as [|c a IH]; cbn [app List.length].
  - rewrite rfind_nat_cons, (rfind_single_absent x b Hb). cbn [prefixb]. rewrite Ascii.eqb_refl. reflexivity.
  - rewrite rfind_nat_cons, IH. reflexivity.
Qed.

Lemma rfind_single_app_absent x a b :
  Forall (fun c => Ascii.eqb x c = false) b -> rfind_nat [x] (a ++ b) = rfind_nat [x] a.
Proof.
  intros Hb. induction a as [|c a IH]; cbn [app].
  - rewrite (rfind_single_absent x b Hb). reflexivity.
  - rewrite !rfind_nat_cons, IH. destruct (rfind_nat [x] a); [reflexivity|]. reflexivity.
Qed.

Lemma rfind_single_bound x s k : rfind_nat [x] s = Some k -> (k < List.length s)%nat.
Proof.
  revert k. induction s as [|c s IH]; intros k; [discriminate|].
  rewrite rfind_nat_cons. destruct (rfind_nat [x] s) as [j|].
  - intros H; inversion H; subst. specialize (IH j eq_refl). cbn [List.length]. lia.
  - destruct (prefixb [x] (c :: s)); intros H; inversion H. cbn [List.length]. lia.
Qed.

Definition rfindZ (o : option nat) : Z := match o with Some n => Z.of_nat n | None => -1 end.

Lemma rfind_unfold p s : rfind p s = rfindZ (rfind_nat p s).
Proof. reflexivity. Qed.

(** ** occurrences of a pattern that starts with a given character *)

Lemma prefixb_app_excl p x c y :
  prefixb p (x ++ c :: y) = true -> Forall (fun d => Ascii.eqb d c = false) p -> p <> [] -> prefixb p x = true.
Proof.
  revert x. induction p as [|d p IH]; intros x H Hall Hne; [contradiction|].
  inversion Hall as [|? ? Hd Hall']; subst.
  destruct x as [|z x]; cbn [app prefixb] in H |- *.
  - apply andb_true_iff in H. destruct H as (H & _). rewrite H in Hd. discriminate.
  - apply andb_true_iff in H. destruct H as (H1 & H2). rewrite H1. cbn [andb].
    destruct p as [|d2 p]; [reflexivity|]. apply IH; [exact H2 | exact Hall' | discriminate].
Qed.

(** [P = x :: cc] does not occur in [S] iff no [x] of [S] is followed by [cc] *)
Lemma find_none_decomp x cc S :
  find_nat (x :: cc) S = None <-> (forall A R, S = A ++ x :: R -> prefixb cc R = false).
Proof.
  split.
  - intros H A. revert S H. induction A as [|a A IH]; intros S H R ->.
    + cbn [app] in H. apply find_nat_none_cons in H. destruct H as (H & _). cbn [prefixb] in H.
      rewrite Ascii.eqb_refl in H. exact H.
    + cbn [app] in H. apply find_nat_none_cons in H. destruct H as (_ & H). eapply IH; [exact H | reflexivity].
  - induction S as [|c S IH]; intros H.
    + reflexivity.
    + cbn [find_nat]. assert (E : prefixb (x :: cc) (c :: S) = false).
      { cbn [prefixb]. destruct (Ascii.eqb x c) eqn:Ex; [|reflexivity]. apply Ascii.eqb_eq in Ex. subst c.
        cbn [andb]. apply (H [] S). reflexivity. }
      rewrite E. rewrite IH; [reflexivity|]. intros A R ->. apply (H (c :: A) R). reflexivity.
Qed.

(** first occurrence: [P] occurs right after [A] and no suffix of [A] starts one *)
Lemma find_nat_app_first P R : forall A,
  (forall A1 A2, A = A1 ++ A2 -> A2 <> [] -> prefixb P (A2 ++ R) = false) ->
  prefixb P R = true -> find_nat P (A ++ R) = Some (List.length A).
Proof.
  induction A as [|a A IH]; intros H HR.
  - cbn [app List.length]. apply find_nat_prefix. exact HR.
  - cbn [app find_nat List.length].
    assert (E : prefixb P ((a :: A) ++ R) = false) by (apply (H [] (a :: A) eq_refl); discriminate).
    cbn [app] in E. rewrite E.
    rewrite IH; [reflexivity | | exact HR]. intros A1 A2 -> Hne. apply (H (a :: A1) A2); [reflexivity | exact Hne].
Qed.

(** where a character [q] of [X ++ Y] sits *)
Lemma decomp_app q (Y : str) : forall X A R,
  X ++ Y = A ++ q :: R ->
  (exists R0, X = A ++ q :: R0 /\ R = R0 ++ Y) \/ (exists A2, A = X ++ A2 /\ Y = A2 ++ q :: R).
Proof.
  induction X as [|x X IH]; intros A R H.
  - right. exists A. split; [reflexivity | exact H].
  - destruct A as [|a A]; cbn [app] in H; inversion H; subst.
    + left. eexists. split; reflexivity.
    + match goal with E : X ++ Y = A ++ _ :: R |- _ => destruct (IH A R E) as [(R0 & E1 & E2) | (A2 & E1 & E2)] end; subst.
      * left. eexists. split; reflexivity.
      * right. eexists. split; [reflexivity | (reflexivity || eassumption)].
Qed.

Lemma decomp_head q (Y' : str) A R :
  Forall (fun c => Ascii.eqb q c = false) Y' -> q :: Y' = A ++ q :: R -> A = [] /\ R = Y'.
Proof.
  intros Hno H. destruct A as [|a A]; cbn [app] in H; inversion H; subst; [auto|].
  exfalso. rewrite Forall_forall in Hno.
  match goal with |- _ => specialize (Hno a) end. rewrite Ascii.eqb_refl in Hno.
  apply Bool.diff_true_false. apply Hno. apply in_or_app. right. left. reflexivity.
Qed.

Definition qc : ascii := ttl_quote.
Definition cc : str := [chr "^"; chr "^"].

Lemma typed_marker_eq : ttl_typed_marker = qc :: cc.
Proof. reflexivity. Qed.

(** the marker quote-^^ does not occur in [quote lex quote Y'] when it does not occur in
    [quote lex] and [Y'] neither starts with ^^ nor contains a quote *)
Lemma no_typed_marker lex Y' :
  contains (qc :: cc) (qc :: lex) = false ->
  Forall (fun c => Ascii.eqb qc c = false) Y' -> prefixb cc Y' = false ->
  contains (qc :: cc) ((qc :: lex) ++ qc :: Y') = false.
Proof.
  intros Hrc Hno Hpre. apply contains_false_find in Hrc.
  unfold contains. assert (E : find_nat (qc :: cc) ((qc :: lex) ++ qc :: Y') = None); [|rewrite E; reflexivity].
  apply find_none_decomp. intros A R H.
  destruct (decomp_app qc (qc :: Y') (qc :: lex) A R H) as [(R0 & HX & ->) | (A2 & -> & HY)].
  - pose proof (proj1 (find_none_decomp qc cc (qc :: lex)) Hrc A R0 HX) as H0.
    destruct (prefixb cc (R0 ++ qc :: Y')) eqn:E; [|reflexivity].
    apply prefixb_app_excl in E; [congruence | repeat constructor | discriminate].
  - destruct (decomp_head qc Y' A2 R Hno HY) as (_ & ->). exact Hpre.
Qed.

(** ** [there_is_arroba_after_last_quotes] *)

Lemma arroba_false tok k :
  rfind_nat s_quote tok = Some k ->
  (forall j, rfind_nat c_lang_marker tok = Some j -> (j <= k)%nat) ->
  arroba_after_last_quotes tok = false.
Proof.
  intros Hq Ha. unfold arroba_after_last_quotes. rewrite !rfind_unfold, Hq.
  destruct (rfind_nat c_lang_marker tok) as [j|]; cbn [rfindZ]; apply Z.ltb_ge; [specialize (Ha j eq_refl)|]; lia.
Qed.

(** ** plain and language-tagged literals *)

Lemma string_type_eq : c_STRING_TYPE = xsd_string. Proof. reflexivity. Qed.
Lemma lang_type_eq : c_LANG_STRING_TYPE = rdf_langString. Proof. reflexivity. Qed.
Lemma integer_type_eq : c_INTEGER_TYPE = xsd_integer. Proof. reflexivity. Qed.

Lemma tag_chars t : tag_wf t = true ->
  Forall (fun c => Ascii.eqb qc c = false) t /\ Forall (fun c => Ascii.eqb (chr "@") c = false) t.
Proof.
  unfold tag_wf. rewrite !andb_true_iff. intros ((((_ & _) & _) & H) & _).
  split; apply (forallb_Forall_neq _ _ _ H); reflexivity.
Qed.

(** ** typed literals *)

Lemma slice_from_app (A B : str) : slice_from (A ++ B) (len A) = B.
Proof.
  unfold slice_from, norm_idx. pose proof (len_nonneg A). pose proof (len_nonneg B).
  destruct (len A <? 0) eqn:E; [apply Z.ltb_lt in E; lia|].
  rewrite len_app, Z.min_l by lia. apply skipn_len_app.
Qed.

Lemma slice_mid (A B : str) x : slice (A ++ B ++ [x]) (len A) (-1) = B.
Proof.
  unfold slice, norm_idx. pose proof (len_nonneg A). pose proof (len_nonneg B).
  rewrite !len_app. change (len [x]) with 1.
  destruct (len A <? 0) eqn:E; [apply Z.ltb_lt in E; lia|].
  change (-1 <? 0) with true. cbv iota.
  rewrite Z.min_l by lia. rewrite Z.max_r by lia.
  replace (len A + (len B + 1) + -1 - len A) with (len B) by lia.
  rewrite skipn_len_app. unfold len. rewrite Nat2Z.id, firstn_app, firstn_all, Nat.sub_diag. cbn. apply app_nil_r.
Qed.

Lemma suffixb_snoc (X : str) x : suffixb [x] (X ++ [x]) = true.
Proof. unfold suffixb. rewrite rev_app_distr. cbn. rewrite Ascii.eqb_refl. reflexivity. Qed.

Lemma strip_ends c (m : str) d : is_space c = false -> is_space d = false -> strip (c :: m ++ [d]) = c :: m ++ [d].
Proof.
  intros Hc Hd. unfold strip, rstrip. rewrite (lstrip_first c _ Hc).
  change (c :: m ++ [d]) with ((c :: m) ++ [d]). rewrite rev_app_distr. cbn [rev app].
  rewrite (lstrip_first d _ Hd).
  replace (d :: rev m ++ [c]) with (rev ((c :: m) ++ [d])) by (rewrite rev_app_distr; reflexivity).
  apply rev_involutive.
Qed.

Lemma contains_single_false x s : contains [x] s = false -> Forall (fun c => Ascii.eqb x c = false) s.
Proof.
  unfold contains. induction s as [|c s IH]; intros H; [constructor|].
  rewrite find_nat_single_cons in H. unfold chr_eqb in H. destruct (Ascii.eqb x c) eqn:E; [discriminate|].
  constructor; [exact E|]. apply IH. destruct (find_nat [x] s); [discriminate | reflexivity].
Qed.

Lemma Forall_app_intro {A} (P : A -> Prop) a b : Forall P a -> Forall P b -> Forall P (a ++ b).
Proof. intros Ha Hb. apply Forall_app. split; assumption. Qed.

Lemma ref_no_quote r : ref_wf r = true -> Forall (fun c => Ascii.eqb qc c = false) (render_ref r).
Proof.
  destruct r as [i|x|p l]; cbn [ref_wf render_ref]; rewrite ?andb_true_iff.
  - intros (H & _). apply Forall_app_intro; [repeat constructor|]. apply Forall_app_intro; [|repeat constructor].
    apply (forallb_Forall_neq _ _ _ H). reflexivity.
  - intros (H & _). apply Forall_app_intro; [repeat constructor|]. apply Forall_app_intro; [|repeat constructor].
    apply (forallb_Forall_neq _ _ _ H). reflexivity.
  - intros ((((H1 & _) & H2) & _) & _). apply Forall_app_intro; [apply (forallb_Forall_neq _ _ _ H1); reflexivity|].
    apply Forall_app_intro; [repeat constructor|]. apply (forallb_Forall_neq _ _ _ H2). reflexivity.
Qed.

(** the model's prefix table and the spec's list of wired prefixes agree *)
