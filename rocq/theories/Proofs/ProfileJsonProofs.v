(** * Proofs about the profile text ([Model/ProfileJson.v], [Model/RunProfile.v]).

    1. UTF-8: [utf8_step_spec], [utf8_roundtrip] (well-formed bytes decode to scalar
       values that encode back to the same bytes)
    2. string layer: [read_units_escape], [combine_units_of_cps], [parse_json_string]
    3. the JSON fragment: [parse_render] / [parse_dumps] (round trip),
       [render_determines] (the text determines the object up to [stringify_keys])
    4. the profile object: [ckey_str_inj], [leaves_profile_json], [top_keys_profile_json]
    5. the run: [run_profile_json_ok_iff] / [_total] / [_errors], [profile_sinks_agree],
       [profile_json_figures] (composition with P1), [profile_text_figures] *)
From Coq Require Import List Ascii String ZArith NArith Bool Lia.
From Shexer Require Import Lib.PyStr Lib.Dict Gen.Consts Gen.ConstsProfile Spec.Rdf Model.Tracker Model.Profiler
     Model.Run Model.ProfileJson Model.RunProfile Spec.Counts.
From Shexer Require Proofs.ProfileChar Proofs.EndToEnd Proofs.EndToEnd2.
Import ListNotations.
Local Open Scope N_scope.

(** ** 0. bytes and small arithmetic *)

Lemma byte_lt a : byte a < 256.
Proof. apply N_ascii_bounded. Qed.

Lemma chr_byte a : chr (byte a) = a.
Proof. apply ascii_N_embedding. Qed.

Lemma byte_chr n : n < 256 -> byte (chr n) = n.
Proof. apply N_ascii_embedding. Qed.

Lemma divmod_small q r b : r < b -> (q * b + r) / b = q /\ (q * b + r) mod b = r.
Proof.
  intros H. split.
  - symmetry. apply (N.div_unique _ _ q r); lia.
  - symmetry. apply (N.mod_unique _ _ q r); lia.
Qed.

(** turn the boolean comparisons of the goal into hypotheses, pruning *)
Ltac bcases :=
  repeat (match goal with
          | |- context [?a <=? ?b] => destruct (N.leb_spec a b)
          | |- context [?a <? ?b] => destruct (N.ltb_spec a b)
          | |- context [?a =? ?b] => destruct (N.eqb_spec a b)
          end; cbn [andb orb negb]; try lia; try discriminate).

Ltac bcases_in H :=
  repeat (match type of H with
          | context [?a <=? ?b] => destruct (N.leb_spec a b)
          | context [?a <? ?b] => destruct (N.ltb_spec a b)
          | context [?a =? ?b] => destruct (N.eqb_spec a b)
          end; cbn [andb orb negb] in H; try lia; try discriminate).

(** ** 1. UTF-8 *)

Lemma cont_val_spec a y : cont_val a = Some y -> y < 64 /\ byte a = 128 + y.
Proof.
  unfold cont_val. intros H. bcases_in H. injection H as <-. lia.
Qed.

Lemma scalar_small cp : cp < 55296 -> scalar cp = true.
Proof. intros H. unfold scalar, is_surrogate. bcases; try reflexivity. Qed.

Lemma utf8_step_spec s cp r :
  utf8_step s = Some (cp, r) -> s = utf8_enc1 cp ++ r /\ scalar cp = true.
Proof.
  destruct s as [|a s1]; [discriminate|]. unfold utf8_step.
  pose proof (byte_lt a) as Hb. remember (byte a) as b eqn:Eb.
  destruct (N.ltb_spec b 128) as [H1|H1].
  { intros H. injection H as <- <-. split; [|apply scalar_small; lia].
    unfold utf8_enc1. destruct (N.ltb_spec b 128); [|lia]. cbn. now rewrite Eb, chr_byte. }
  destruct (N.ltb_spec b 192) as [H2|H2]; [discriminate|].
  destruct (N.ltb_spec b 224) as [H3|H3].
  { destruct s1 as [|a2 s2]; [discriminate|].
    destruct (cont_val a2) as [y|] eqn:E2; [|discriminate]. apply cont_val_spec in E2 as [Hy E2].
    destruct (N.leb_spec 128 ((b - 192) * 64 + y)) as [H4|H4]; [|discriminate].
    intros H. injection H as <- <-.
    destruct (divmod_small (b - 192) y 64 Hy) as [D M].
    split; [|apply scalar_small; lia].
    unfold utf8_enc1. rewrite D, M.
    destruct (N.ltb_spec ((b - 192) * 64 + y) 128); [lia|].
    destruct (N.ltb_spec ((b - 192) * 64 + y) 2048); [|lia].
    cbn [app]. replace (192 + (b - 192)) with b by lia. rewrite <- E2, Eb, !chr_byte. reflexivity. }
  destruct (N.ltb_spec b 240) as [H4|H4].
  { destruct s1 as [|a2 [|a3 s3]]; try discriminate.
    destruct (cont_val a2) as [y|] eqn:E2; [|discriminate]. apply cont_val_spec in E2 as [Hy E2].
    destruct (cont_val a3) as [z|] eqn:E3; [|discriminate]. apply cont_val_spec in E3 as [Hz E3].
    remember ((b - 224) * 64 + y) as q1 eqn:Eq1.
    destruct (N.leb_spec 2048 (q1 * 64 + z)) as [H5|H5]; [|discriminate].
    destruct (is_surrogate (q1 * 64 + z)) eqn:Es; [discriminate|]. cbn [andb negb].
    intros H. injection H as <- <-.
    destruct (divmod_small q1 z 64 Hz) as [D M].
    assert (Hq : q1 / 64 = b - 224 /\ q1 mod 64 = y) by (subst q1; apply divmod_small; exact Hy).
    destruct Hq as [D1 M1].
    assert (D2 : (q1 * 64 + z) / 4096 = b - 224).
    { change 4096 with (64 * 64). rewrite <- N.div_div by lia. now rewrite D. }
    split.
    - unfold utf8_enc1. rewrite D, M, D2, M1.
      destruct (N.ltb_spec (q1 * 64 + z) 128); [lia|].
      destruct (N.ltb_spec (q1 * 64 + z) 2048); [lia|].
      destruct (N.ltb_spec (q1 * 64 + z) 65536); [|lia].
      cbn [app]. replace (224 + (b - 224)) with b by lia. rewrite <- E2, <- E3, Eb, !chr_byte. reflexivity.
    - unfold scalar. rewrite Es. cbn [negb andb]. apply N.leb_le. lia. }
  destruct (N.ltb_spec b 248) as [H5|H5]; [|discriminate].
  destruct s1 as [|a2 [|a3 [|a4 s4]]]; try discriminate.
  destruct (cont_val a2) as [y|] eqn:E2; [|discriminate]. apply cont_val_spec in E2 as [Hy E2].
  destruct (cont_val a3) as [z|] eqn:E3; [|discriminate]. apply cont_val_spec in E3 as [Hz E3].
  destruct (cont_val a4) as [w|] eqn:E4; [|discriminate]. apply cont_val_spec in E4 as [Hw E4].
  remember ((b - 240) * 64 + y) as q1 eqn:Eq1. remember (q1 * 64 + z) as q2 eqn:Eq2.
  destruct (N.leb_spec 65536 (q2 * 64 + w)) as [H6|H6]; [|discriminate].
  destruct (N.leb_spec (q2 * 64 + w) 1114111) as [H7|H7]; [|discriminate]. cbn [andb].
  intros H. injection H as <- <-.
  destruct (divmod_small q2 w 64 Hw) as [D M].
  assert (Hq2 : q2 / 64 = q1 /\ q2 mod 64 = z) by (subst q2; apply divmod_small; exact Hz).
  assert (Hq1 : q1 / 64 = b - 240 /\ q1 mod 64 = y) by (subst q1; apply divmod_small; exact Hy).
  destruct Hq2 as [D2 M2]. destruct Hq1 as [D1 M1].
  assert (D3 : (q2 * 64 + w) / 4096 = q1).
  { change 4096 with (64 * 64). rewrite <- N.div_div by lia. now rewrite D. }
  assert (D4 : (q2 * 64 + w) / 262144 = b - 240).
  { change 262144 with (4096 * 64). rewrite <- N.div_div by lia. now rewrite D3. }
  split.
  - unfold utf8_enc1. rewrite D, M, D3, D4, M1, M2.
    destruct (N.ltb_spec (q2 * 64 + w) 128); [lia|].
    destruct (N.ltb_spec (q2 * 64 + w) 2048); [lia|].
    destruct (N.ltb_spec (q2 * 64 + w) 65536); [lia|].
    cbn [app]. replace (240 + (b - 240)) with b by lia. rewrite <- E2, <- E3, <- E4, Eb, !chr_byte. reflexivity.
  - unfold scalar, is_surrogate. bcases; try reflexivity.
Qed.

Lemma utf8_enc1_len cp : (1 <= List.length (utf8_enc1 cp))%nat.
Proof. unfold utf8_enc1. destruct (cp <? 128), (cp <? 2048), (cp <? 65536); cbn; lia. Qed.

Lemma escape_byte_not_scalar b : b < 256 -> scalar (56320 + b) = false.
Proof. intros H. unfold scalar, is_surrogate. bcases; try reflexivity. Qed.

Lemma utf8_decode_f_roundtrip fuel : forall s,
  (List.length s <= fuel)%nat ->
  forallb scalar (utf8_decode_f fuel s) = true ->
  utf8_encode (utf8_decode_f fuel s) = s.
Proof.
  induction fuel as [|f IH]; intros s Hl Hs.
  - destruct s; [reflexivity | cbn in Hl; lia].
  - destruct s as [|a s1]; [reflexivity|].
    cbn [utf8_decode_f] in *.
    destruct (utf8_step (a :: s1)) as [[cp r]|] eqn:E.
    + apply utf8_step_spec in E as [E Hc].
      cbn [forallb] in Hs. apply andb_true_iff in Hs as [_ Hs].
      assert (Hr : (List.length r <= f)%nat).
      { apply (f_equal (@List.length ascii)) in E. rewrite app_length in E. cbn [List.length] in E, Hl.
        pose proof (utf8_enc1_len cp). lia. }
      unfold utf8_encode in *. cbn [flat_map]. rewrite (IH r Hr Hs). now rewrite <- E.
    + cbn [forallb] in Hs. rewrite (escape_byte_not_scalar _ (byte_lt a)) in Hs. discriminate.
Qed.

(** the exactly rendered strings: decoding loses nothing *)
Theorem utf8_roundtrip s : utf8_ok s = true -> utf8_encode (utf8_decode s) = s.
Proof. intros H. apply utf8_decode_f_roundtrip; [apply le_n | exact H]. Qed.

(** ** 2. the string layer *)

(** *** hex digits *)
Lemma unhex_hexdigit d : d < 16 -> unhex (hexdigit d) = Some d.
Proof.
  intros H. unfold hexdigit, unhex.
  destruct (N.ltb_spec d 10).
  - rewrite byte_chr by lia. bcases. f_equal. lia.
  - rewrite byte_chr by lia. bcases. f_equal. lia.
Qed.

Lemma hex4_digits u : u < 65536 ->
  u / 4096 < 16 /\ (u / 256) mod 16 < 16 /\ (u / 16) mod 16 < 16 /\ u mod 16 < 16 /\
  ((u / 4096 * 16 + (u / 256) mod 16) * 16 + (u / 16) mod 16) * 16 + u mod 16 = u.
Proof.
  intros H.
  assert (H1 : u / 4096 < 16) by (apply N.div_lt_upper_bound; lia).
  pose proof (N.mod_upper_bound (u / 256) 16 ltac:(lia)).
  pose proof (N.mod_upper_bound (u / 16) 16 ltac:(lia)).
  pose proof (N.mod_upper_bound u 16 ltac:(lia)).
  repeat (split; [assumption|]).
  pose proof (N.div_mod u 16 ltac:(lia)) as E0.
  pose proof (N.div_mod (u / 16) 16 ltac:(lia)) as E1. rewrite N.div_div in E1 by lia. change (16 * 16) with 256 in E1.
  pose proof (N.div_mod (u / 256) 16 ltac:(lia)) as E2. rewrite N.div_div in E2 by lia. change (256 * 16) with 4096 in E2.
  lia.
Qed.

(** *** reading one escaped unit back *)
Lemma read_units_cons c s1 :
  read_units (c :: s1) =
  if byte c =? 34 then Some ([], s1)
  else if byte c =? 92 then
    match s1 with
    | [] => None
    | e :: s2 =>
      if byte e =? 117 then
        match s2 with
        | h1 :: h2 :: h3 :: h4 :: s6 =>
          match unhex h1, unhex h2, unhex h3, unhex h4 with
          | Some x1, Some x2, Some x3, Some x4 =>
            match read_units s6 with
            | Some (us, r) => Some ((((x1 * 16 + x2) * 16 + x3) * 16 + x4) :: us, r)
            | None => None
            end
          | _, _, _, _ => None
          end
        | _ => None
        end
      else
        match unesc e with
        | Some u => match read_units s2 with Some (us, r) => Some (u :: us, r) | None => None end
        | None => None
        end
    end
  else match read_units s1 with Some (us, r) => Some (byte c :: us, r) | None => None end.
Proof. reflexivity. Qed.

Definition push_unit (u : N) (x : option (list N * str)) : option (list N * str) :=
  match x with Some (us, r) => Some (u :: us, r) | None => None end.

Lemma read_named e u t :
  (byte e =? 117) = false -> unesc e = Some u ->
  read_units (bs :: e :: t) = push_unit u (read_units t).
Proof.
  intros H1 H2. rewrite read_units_cons.
  change (byte bs =? 34) with false. change (byte bs =? 92) with true. cbv iota.
  rewrite H1, H2. reflexivity.
Qed.

Lemma read_units_esc u t : u < 65536 ->
  read_units (esc_unit u ++ t) = push_unit u (read_units t).
Proof.
  intros Hu. unfold esc_unit.
  destruct (N.eqb_spec u 34) as [->|N1]; [apply read_named; reflexivity|].
  destruct (N.eqb_spec u 92) as [->|N2]; [apply read_named; reflexivity|].
  destruct (N.eqb_spec u 10) as [->|N3]; [apply read_named; reflexivity|].
  destruct (N.eqb_spec u 13) as [->|N4]; [apply read_named; reflexivity|].
  destruct (N.eqb_spec u 9) as [->|N5]; [apply read_named; reflexivity|].
  destruct (N.eqb_spec u 8) as [->|N6]; [apply read_named; reflexivity|].
  destruct (N.eqb_spec u 12) as [->|N7]; [apply read_named; reflexivity|].
  destruct (N.leb_spec 32 u) as [L1|L1]; [destruct (N.leb_spec u 126) as [L2|L2]|]; cbn [andb].
  - cbn [app]. rewrite read_units_cons. rewrite byte_chr by lia.
    destruct (N.eqb_spec u 34); [contradiction|]. destruct (N.eqb_spec u 92); [contradiction|]. reflexivity.
  - destruct (hex4_digits u Hu) as (D1 & D2 & D3 & D4 & E).
    cbn [app hex4]. rewrite read_units_cons.
    change (byte bs =? 34) with false. change (byte bs =? 92) with true. cbv iota.
    change (byte "u"%char =? 117) with true. cbv iota.
    rewrite !unhex_hexdigit by assumption. rewrite E. reflexivity.
  - destruct (hex4_digits u Hu) as (D1 & D2 & D3 & D4 & E).
    cbn [app hex4]. rewrite read_units_cons.
    change (byte bs =? 34) with false. change (byte bs =? 92) with true. cbv iota.
    change (byte "u"%char =? 117) with true. cbv iota.
    rewrite !unhex_hexdigit by assumption. rewrite E. reflexivity.
Qed.

Lemma read_units_escape us : forall r,
  Forall (fun u => u < 65536) us ->
  read_units (flat_map esc_unit us ++ dq :: r) = Some (us, r).
Proof.
  induction us as [|u us IH]; intros r H.
  - cbn [flat_map app]. rewrite read_units_cons. reflexivity.
  - inversion H; subst. cbn [flat_map]. rewrite <- app_assoc.
    rewrite read_units_esc by assumption. rewrite IH by assumption. reflexivity.
Qed.

(** *** UTF-16 units of scalar values *)
Lemma units_of_cp_small cp : scalar cp = true -> Forall (fun u => u < 65536) (units_of_cp cp).
Proof.
  unfold scalar, is_surrogate, units_of_cp. intros H.
  destruct (N.ltb_spec cp 65536).
  - constructor; [assumption | constructor].
  - pose proof (N.mod_upper_bound ((cp - 65536) / 1024) 1024 ltac:(lia)).
    pose proof (N.mod_upper_bound (cp - 65536) 1024 ltac:(lia)).
    cbv zeta. set (x := ((cp - 65536) / 1024) mod 1024) in *. set (y := (cp - 65536) mod 1024) in *.
    clearbody x y. repeat constructor; lia.
Qed.

Lemma units_small cps : forallb scalar cps = true -> Forall (fun u => u < 65536) (flat_map units_of_cp cps).
Proof.
  induction cps as [|cp cps IH]; intros H; [constructor|].
  cbn [forallb] in H. apply andb_true_iff in H as [H1 H2].
  cbn [flat_map]. apply Forall_app. split; [apply units_of_cp_small; exact H1 | apply IH; exact H2].
Qed.

Lemma combine_units_of_cps cps : forallb scalar cps = true ->
  combine_units (flat_map units_of_cp cps) = cps.
Proof.
  induction cps as [|cp cps IH]; intros H; [reflexivity|].
  cbn [forallb] in H. apply andb_true_iff in H as [H1 H2]. specialize (IH H2).
  cbn [flat_map]. unfold units_of_cp at 1. cbv zeta. unfold scalar, is_surrogate in H1.
  destruct (N.ltb_spec cp 65536) as [L|L].
  - cbn [app combine_units]. unfold is_high.
    destruct (N.leb_spec 55296 cp); [destruct (N.leb_spec cp 56319)|]; cbn [andb].
    + exfalso. bcases_in H1.
    + now rewrite IH.
    + now rewrite IH.
  - assert (Hc : cp <= 1114111) by (bcases_in H1; assumption).
    remember (cp - 65536) as n eqn:En.
    assert (Hn : n / 1024 < 1024) by (apply N.div_lt_upper_bound; lia).
    rewrite (N.mod_small (n / 1024) 1024 Hn).
    pose proof (N.mod_upper_bound n 1024 ltac:(lia)) as Hm.
    pose proof (N.div_mod n 1024 ltac:(lia)) as Ed.
    cbn [app combine_units]. unfold is_high, is_low.
    set (q := n / 1024) in *. set (m := n mod 1024) in *. clearbody q m.
    destruct (N.leb_spec 55296 (55296 + q)); [|lia].
    destruct (N.leb_spec (55296 + q) 56319); [|lia].
    destruct (N.leb_spec 56320 (56320 + m)); [|lia].
    destruct (N.leb_spec (56320 + m) 57343); [|lia].
    cbn [andb]. rewrite IH. f_equal. lia.
Qed.

(** *** a json string literal is read back as the string it was made from *)
Theorem parse_json_string s r : utf8_ok s = true ->
  parse_string (json_string s ++ r) = Some (s, r).
Proof.
  intros H. unfold json_string, json_escape, parse_string. cbn [app].
  change (byte dq =? 34) with true. cbv iota.
  rewrite <- app_assoc. cbn [app].
  rewrite read_units_escape by (apply units_small; exact H).
  rewrite combine_units_of_cps by exact H. now rewrite utf8_roundtrip.
Qed.

(** ** 3. the JSON fragment: the text is read back as the object *)

(** induction over [json] (nested lists) *)
Section JsonInd.
  Variable P : json -> Prop.
  Hypothesis Hint : forall n, P (JInt n).
  Hypothesis Hobj : forall l, Forall (fun kv : jkey * json => P (snd kv)) l -> P (JObj l).
  Hypothesis Harr : forall l, Forall P l -> P (JArr l).
  Fixpoint json_ind' (j : json) : P j :=
    match j with
    | JInt n => Hint n
    | JObj l =>
      Hobj l ((fix go (l : list (jkey * json)) : Forall (fun kv : jkey * json => P (snd kv)) l :=
                 match l with
                 | [] => Forall_nil _
                 | kv :: l' => Forall_cons kv (json_ind' (snd kv)) (go l')
                 end) l)
    | JArr l =>
      Harr l ((fix go (l : list json) : Forall P l :=
                 match l with
                 | [] => Forall_nil _
                 | x :: l' => Forall_cons x (json_ind' x) (go l')
                 end) l)
    end.
End JsonInd.

(** *** decimal numerals (the lemmas of Proofs/ShaclProofs.v, for [is_dig]) *)
Definition pj_dstep (acc : N) (c : ascii) : N := (acc * 10 + N.of_nat (nat_of_ascii c - 48))%N.

Lemma pj_digit_val r : (r < 10)%nat -> (nat_of_ascii (digit_of r) - 48)%nat = r.
Proof. intros H. unfold digit_of. rewrite nat_ascii_embedding by lia. lia. Qed.

Lemma pj_digit_is_dig r : (r < 10)%nat -> is_dig (digit_of r) = true.
Proof.
  intros H. unfold is_dig, digit_of, ascii_of_nat. rewrite byte_chr by lia.
  apply andb_true_iff; split; apply N.leb_le; lia.
Qed.

Lemma pj_dec_fuel_value f : forall n acc, (n < 10 ^ N.of_nat f)%N ->
  fold_left pj_dstep (dec_fuel f n acc) 0%N = fold_left pj_dstep acc n.
Proof.
  induction f as [|f IH]; intros n acc H.
  - cbn in H. assert (n = 0%N) by lia. subst. reflexivity.
  - cbn [dec_fuel].
    assert (Hr : (N.to_nat (n mod 10) < 10)%nat).
    { pose proof (N.mod_upper_bound n 10). lia. }
    destruct (N.eqb (n / 10) 0) eqn:Eq.
    + apply N.eqb_eq in Eq. cbn [fold_left]. unfold pj_dstep at 2. rewrite pj_digit_val by exact Hr.
      f_equal. rewrite N2Nat.id. pose proof (N.div_mod n 10). lia.
    + rewrite IH.
      * cbn [fold_left]. unfold pj_dstep at 2. rewrite pj_digit_val by exact Hr. f_equal.
        rewrite N2Nat.id. pose proof (N.div_mod n 10). lia.
      * rewrite Nnat.Nat2N.inj_succ, N.pow_succ_r' in H.
        apply N.div_lt_upper_bound; lia.
Qed.

Lemma pj_dec_fuel_bound n : (n < 10 ^ N.of_nat (S (N.to_nat (N.log2 n))))%N.
Proof.
  rewrite Nnat.Nat2N.inj_succ, N2Nat.id.
  destruct (N.eq_dec n 0) as [->|Hn]; [cbn; lia|].
  pose proof (N.log2_spec n ltac:(lia)) as [_ H].
  eapply N.lt_le_trans; [exact H|].
  apply N.pow_le_mono_l. lia.
Qed.

Lemma pj_N_of_dec_of_N n : N_of_dec (dec_of_N n) = n.
Proof.
  change (N_of_dec (dec_of_N n)) with (fold_left pj_dstep (dec_of_N n) 0%N).
  unfold dec_of_N. rewrite pj_dec_fuel_value by apply pj_dec_fuel_bound. reflexivity.
Qed.

Lemma pj_dec_fuel_digits f : forall n acc, forallb is_dig acc = true -> forallb is_dig (dec_fuel f n acc) = true.
Proof.
  induction f as [|f IH]; intros n acc H; [exact H|].
  cbn [dec_fuel].
  assert (Hr : (N.to_nat (n mod 10) < 10)%nat).
  { pose proof (N.mod_upper_bound n 10). lia. }
  assert (H' : forallb is_dig (digit_of (N.to_nat (n mod 10)) :: acc) = true).
  { cbn [forallb]. rewrite pj_digit_is_dig by exact Hr. exact H. }
  destruct (N.eqb (n / 10) 0); [exact H' | apply IH; exact H'].
Qed.

Lemma pj_dec_of_N_digits n : forallb is_dig (dec_of_N n) = true.
Proof. apply pj_dec_fuel_digits. reflexivity. Qed.

Lemma pj_dec_fuel_nonempty f : forall n acc, acc <> [] \/ f <> O -> dec_fuel f n acc <> [].
Proof.
  induction f as [|f IH]; intros n acc H.
  - cbn. destruct H; [assumption | contradiction].
  - cbn [dec_fuel]. destruct (N.eqb (n / 10) 0); [discriminate|].
    apply IH. left. discriminate.
Qed.

Lemma pj_dec_of_N_nonempty n : dec_of_N n <> [].
Proof. apply pj_dec_fuel_nonempty. right. discriminate. Qed.

Lemma dec_of_N_inj a b : dec_of_N a = dec_of_N b -> a = b.
Proof. intros H. rewrite <- (pj_N_of_dec_of_N a), <- (pj_N_of_dec_of_N b). now rewrite H. Qed.

(** *** blanks *)
Lemma skip_ws_blanks k X : skip_ws (repeat " "%char k ++ X) = skip_ws X.
Proof. induction k as [|k IH]; [reflexivity|]. cbn [repeat app]. exact IH. Qed.

Lemma skip_ws_nl ind lvl X : skip_ws (nl ind lvl ++ X) = skip_ws X.
Proof. unfold nl. cbn [app]. change (skip_ws (chr 10 :: ?Y)) with (skip_ws Y). apply skip_ws_blanks. Qed.

Lemma skip_ws_id c X : is_ws c = false -> skip_ws (c :: X) = c :: X.
Proof. intros H. cbn [skip_ws]. now rewrite H. Qed.

Lemma skip_ws_json_string k R : skip_ws (json_string k ++ R) = json_string k ++ R.
Proof. reflexivity. Qed.

Definition no_dig_head (r : str) : Prop :=
  match r with c :: _ => is_dig c = false | [] => True end.

Lemma span_digits_app ds : forall r, forallb is_dig ds = true -> no_dig_head r -> span_digits (ds ++ r) = (ds, r).
Proof.
  induction ds as [|d ds IH]; intros r H Hr.
  - cbn [app]. destruct r as [|c r]; [reflexivity|]. cbn in Hr. cbn [span_digits]. now rewrite Hr.
  - cbn [forallb] in H. apply andb_true_iff in H as [H1 H2].
    cbn [app span_digits]. rewrite H1, (IH r H2 Hr). reflexivity.
Qed.

(** *** sizes (fuel) *)
Fixpoint jsize (j : json) : nat :=
  match j with
  | JInt _ => 1
  | JObj l => S (fold_right (fun (kv : jkey * json) acc => S (jsize (snd kv) + acc)) O l)
  | JArr l => S (fold_right (fun (v : json) acc => S (jsize v + acc)) O l)
  end.

Definition msize (l : list (jkey * json)) : nat :=
  fold_right (fun (kv : jkey * json) acc => S (jsize (snd kv) + acc)) O l.
Definition asize (l : list json) : nat :=
  fold_right (fun (v : json) acc => S (jsize v + acc)) O l.

(** *** unfolding equations *)
Definition item (ind L : nat) (kv : jkey * json) : str :=
  json_string (key_str (fst kv)) ++ Str ": " ++ render_json ind L (snd kv).
Definition skv (kv : jkey * json) : jkey * json := (JKs (key_str (fst kv)), stringify_keys (snd kv)).

Lemma render_obj_cons ind lvl kv l :
  render_json ind lvl (JObj (kv :: l)) =
  Str "{" ++ nl ind (S lvl) ++ join (item_sep ind (S lvl)) (map (item ind (S lvl)) (kv :: l)) ++ nl ind lvl ++ Str "}".
Proof. reflexivity. Qed.

Lemma render_arr_cons ind lvl v l :
  render_json ind lvl (JArr (v :: l)) =
  Str "[" ++ nl ind (S lvl) ++ join (item_sep ind (S lvl)) (map (render_json ind (S lvl)) (v :: l)) ++ nl ind lvl ++ Str "]".
Proof. reflexivity. Qed.

Lemma parse_value_S f s :
  parse_value (S f) s =
  match skip_ws s with
  | [] => None
  | c :: s1 =>
    if byte c =? 123 then
      match skip_ws s1 with
      | [] => None
      | c2 :: s2 =>
        if byte c2 =? 125 then Some (JObj [], s2)
        else match parse_members f (c2 :: s2) with Some (l, r) => Some (JObj l, r) | None => None end
      end
    else if byte c =? 91 then
      match skip_ws s1 with
      | [] => None
      | c2 :: s2 =>
        if byte c2 =? 93 then Some (JArr [], s2)
        else match parse_elems f (c2 :: s2) with Some (l, r) => Some (JArr l, r) | None => None end
      end
    else if is_dig c then let (d, r) := span_digits (c :: s1) in Some (JInt (N_of_dec d), r)
    else None
  end.
Proof. reflexivity. Qed.

Lemma parse_members_S f s :
  parse_members (S f) s =
  match parse_string (skip_ws s) with
  | None => None
  | Some (k, r1) =>
    match skip_ws r1 with
    | [] => None
    | c :: r2 =>
      if byte c =? 58 then
        match parse_value f r2 with
        | None => None
        | Some (v, r3) =>
          match skip_ws r3 with
          | [] => None
          | c3 :: r4 =>
            if byte c3 =? 44 then
              match parse_members f r4 with Some (l, r5) => Some ((JKs k, v) :: l, r5) | None => None end
            else if byte c3 =? 125 then Some ([(JKs k, v)], r4)
            else None
          end
        end
      else None
    end
  end.
Proof. reflexivity. Qed.

Lemma parse_elems_S f s :
  parse_elems (S f) s =
  match parse_value f s with
  | None => None
  | Some (v, r3) =>
    match skip_ws r3 with
    | [] => None
    | c3 :: r4 =>
      if byte c3 =? 44 then
        match parse_elems f r4 with Some (l, r5) => Some (v :: l, r5) | None => None end
      else if byte c3 =? 93 then Some ([v], r4)
      else None
    end
  end.
Proof. reflexivity. Qed.

Lemma parse_value_ws fuel c Y : is_ws c = true -> parse_value fuel (c :: Y) = parse_value fuel Y.
Proof. intros H. destruct fuel; [reflexivity|]. rewrite !parse_value_S. cbn [skip_ws]. now rewrite H. Qed.

Lemma parse_value_nl fuel ind lvl Y : parse_value fuel (nl ind lvl ++ Y) = parse_value fuel Y.
Proof. destruct fuel; [reflexivity|]. rewrite !parse_value_S. now rewrite skip_ws_nl. Qed.

Lemma parse_members_nl fuel ind lvl Y : parse_members fuel (nl ind lvl ++ Y) = parse_members fuel Y.
Proof. destruct fuel; [reflexivity|]. rewrite !parse_members_S. now rewrite skip_ws_nl. Qed.

Lemma parse_elems_nl fuel ind lvl Y : parse_elems fuel (nl ind lvl ++ Y) = parse_elems fuel Y.
Proof. destruct fuel; [reflexivity|]. rewrite !parse_elems_S. now rewrite parse_value_nl. Qed.

Lemma join_cons2 sep (a b : str) l : join sep (a :: b :: l) = a ++ sep ++ join sep (b :: l).
Proof. reflexivity. Qed.

(** the first character of a rendering: a digit, '{' or '[' *)
Lemma render_json_head ind lvl j :
  exists c tl, render_json ind lvl j = c :: tl /\ is_ws c = false /\ (byte c =? 93) = false /\ (byte c =? 125) = false.
Proof.
  destruct j as [n|l|l].
  - cbn [render_json]. pose proof (pj_dec_of_N_digits n) as Hd. pose proof (pj_dec_of_N_nonempty n) as Hn.
    destruct (dec_of_N n) as [|d ds]; [contradiction|]. exists d, ds. split; [reflexivity|].
    cbn [forallb] in Hd. apply andb_true_iff in Hd as [Hd _]. unfold is_dig in Hd. unfold is_ws.
    apply andb_true_iff in Hd as [H1 H2]. apply N.leb_le in H1, H2.
    repeat split; bcases; try reflexivity.
  - destruct l as [|kv l]; [exists "{"%char, (Str "}"); repeat split; reflexivity|].
    rewrite render_obj_cons. cbn [Str list_ascii_of_string app]. eexists _, _. repeat split; reflexivity.
  - destruct l as [|v l]; [exists "["%char, (Str "]"); repeat split; reflexivity|].
    rewrite render_arr_cons. cbn [Str list_ascii_of_string app]. eexists _, _. repeat split; reflexivity.
Qed.

Lemma members_head ind L kv l Y :
  exists tl, join (item_sep ind L) (map (item ind L) (kv :: l)) ++ Y = dq :: tl.
Proof.
  destruct l as [|kv2 l]; cbn [map]; [cbn [join] | rewrite join_cons2];
    unfold item at 1, json_string; cbn [app]; eexists; reflexivity.
Qed.

(** *** the round trip *)
Definition RT (j : json) : Prop :=
  keys_ok j = true ->
  forall ind lvl fuel r, (jsize j <= fuel)%nat -> no_dig_head r ->
    parse_value fuel (render_json ind lvl j ++ r) = Some (stringify_keys j, r).

Lemma no_dig_head_nl ind lvl X : no_dig_head (nl ind lvl ++ X).
Proof. reflexivity. Qed.

Lemma no_dig_head_sep ind lvl X : no_dig_head (item_sep ind lvl ++ X).
Proof. reflexivity. Qed.

Lemma members_ok ind L lvl : forall l, l <> [] ->
  Forall (fun kv : jkey * json => RT (snd kv)) l ->
  forallb (fun kv : jkey * json => utf8_ok (key_str (fst kv)) && keys_ok (snd kv)) l = true ->
  forall fuel r, (msize l <= fuel)%nat ->
    parse_members fuel (join (item_sep ind L) (map (item ind L) l) ++ nl ind lvl ++ "}"%char :: r)
    = Some (map skv l, r).
Proof.
  induction l as [|kv l IHl]; [contradiction|]. intros _ HF Hk fuel r Hf.
  inversion HF as [|? ? Hv HF']; subst. cbn [forallb] in Hk. apply andb_true_iff in Hk as [Hk Hk'].
  apply andb_true_iff in Hk as [Hk1 Hk2].
  destruct fuel as [|f]; [cbn in Hf; lia|]. cbn [msize fold_right] in Hf. fold (msize l) in Hf.
  rewrite parse_members_S.
  destruct l as [|kv2 l2].
  - cbn [map join]. unfold item. rewrite <- !app_assoc. rewrite skip_ws_json_string.
    rewrite parse_json_string by exact Hk1.
    cbn [Str list_ascii_of_string app].
    rewrite (skip_ws_id ":"%char) by reflexivity.
    change (byte ":"%char =? 58) with true. cbv iota.
    rewrite (parse_value_ws f " "%char) by reflexivity.
    rewrite (Hv Hk2 ind L f (nl ind lvl ++ "}"%char :: r)) by (try apply no_dig_head_nl; lia).
    rewrite skip_ws_nl. rewrite (skip_ws_id "}"%char) by reflexivity.
    change (byte "}"%char =? 44) with false. change (byte "}"%char =? 125) with true. cbv iota.
    reflexivity.
  - cbn [map]. rewrite join_cons2. unfold item at 1. rewrite <- !app_assoc. rewrite skip_ws_json_string.
    rewrite parse_json_string by exact Hk1.
    cbn [Str list_ascii_of_string app].
    rewrite (skip_ws_id ":"%char) by reflexivity.
    change (byte ":"%char =? 58) with true. cbv iota.
    rewrite (parse_value_ws f " "%char) by reflexivity.
    rewrite (Hv Hk2 ind L f) by (try apply no_dig_head_sep; lia).
    unfold item_sep at 1. cbn [app].
    rewrite (skip_ws_id ","%char) by reflexivity.
    change (byte ","%char =? 44) with true. cbv iota.
    rewrite parse_members_nl.
    change (item ind L kv2 :: map (item ind L) l2) with (map (item ind L) (kv2 :: l2)).
    rewrite (IHl ltac:(discriminate) HF' Hk' f r) by (cbn [msize fold_right] in *; lia).
    reflexivity.
Qed.

Lemma elems_ok ind L lvl : forall l, l <> [] ->
  Forall RT l -> forallb keys_ok l = true ->
  forall fuel r, (asize l <= fuel)%nat ->
    parse_elems fuel (join (item_sep ind L) (map (render_json ind L) l) ++ nl ind lvl ++ "]"%char :: r)
    = Some (map stringify_keys l, r).
Proof.
  induction l as [|v l IHl]; [contradiction|]. intros _ HF Hk fuel r Hf.
  inversion HF as [|? ? Hv HF']; subst. cbn [forallb] in Hk. apply andb_true_iff in Hk as [Hk1 Hk'].
  destruct fuel as [|f]; [cbn in Hf; lia|]. cbn [asize fold_right] in Hf. fold (asize l) in Hf.
  rewrite parse_elems_S.
  destruct l as [|v2 l2].
  - cbn [map join].
    rewrite (Hv Hk1 ind L f (nl ind lvl ++ "]"%char :: r)) by (try apply no_dig_head_nl; lia).
    rewrite skip_ws_nl. rewrite (skip_ws_id "]"%char) by reflexivity.
    change (byte "]"%char =? 44) with false. change (byte "]"%char =? 93) with true. cbv iota.
    reflexivity.
  - cbn [map]. rewrite join_cons2. rewrite <- !app_assoc.
    rewrite (Hv Hk1 ind L f) by (try apply no_dig_head_sep; lia).
    unfold item_sep at 1. cbn [app].
    rewrite (skip_ws_id ","%char) by reflexivity.
    change (byte ","%char =? 44) with true. cbv iota.
    rewrite parse_elems_nl.
    change (render_json ind L v2 :: map (render_json ind L) l2) with (map (render_json ind L) (v2 :: l2)).
    rewrite (IHl ltac:(discriminate) HF' Hk' f r) by (cbn [asize fold_right] in *; lia).
    reflexivity.
Qed.

Theorem parse_render : forall j, RT j.
Proof.
  apply json_ind'.
  - (* int *)
    intros n _ ind lvl fuel r Hf Hr. destruct fuel as [|f]; [cbn in Hf; lia|].
    cbn [render_json stringify_keys]. rewrite parse_value_S.
    pose proof (pj_dec_of_N_digits n) as Hd. pose proof (pj_dec_of_N_nonempty n) as Hn.
    pose proof (pj_N_of_dec_of_N n) as Hv.
    destruct (dec_of_N n) as [|d ds] eqn:E; [contradiction|].
    assert (Hd1 : is_dig d = true) by (cbn [forallb] in Hd; apply andb_true_iff in Hd; tauto).
    assert (Hw : is_ws d = false /\ (byte d =? 123) = false /\ (byte d =? 91) = false).
    { unfold is_dig in Hd1. unfold is_ws. apply andb_true_iff in Hd1 as [H1 H2]. apply N.leb_le in H1, H2.
      repeat split; bcases; try reflexivity. }
    destruct Hw as (W1 & W2 & W3).
    cbn [app]. rewrite (skip_ws_id d) by exact W1. rewrite W2, W3, Hd1.
    change (d :: ds ++ r) with ((d :: ds) ++ r). rewrite (span_digits_app (d :: ds) r Hd Hr). now rewrite Hv.
  - (* object *)
    intros l HF Hk ind lvl fuel r Hf Hr. destruct fuel as [|f]; [cbn in Hf; lia|].
    destruct l as [|kv l].
    + reflexivity.
    + rewrite render_obj_cons. cbn [keys_ok] in Hk. cbn [jsize] in Hf. fold (msize (kv :: l)) in Hf.
      rewrite parse_value_S. rewrite <- !app_assoc. cbn [Str list_ascii_of_string app].
      rewrite (skip_ws_id "{"%char) by reflexivity.
      change (byte "{"%char =? 123) with true. cbv iota.
      rewrite skip_ws_nl.
      destruct (members_head ind (S lvl) kv l (nl ind lvl ++ "}"%char :: r)) as [tl Etl].
      rewrite Etl. rewrite (skip_ws_id dq) by reflexivity.
      change (byte dq =? 125) with false. cbv iota. rewrite <- Etl.
      rewrite (members_ok ind (S lvl) lvl (kv :: l) ltac:(discriminate) HF Hk f r) by lia.
      reflexivity.
  - (* array *)
    intros l HF Hk ind lvl fuel r Hf Hr. destruct fuel as [|f]; [cbn in Hf; lia|].
    destruct l as [|v l].
    + reflexivity.
    + rewrite render_arr_cons. cbn [keys_ok] in Hk. cbn [jsize] in Hf. fold (asize (v :: l)) in Hf.
      rewrite parse_value_S. rewrite <- !app_assoc. cbn [Str list_ascii_of_string app].
      rewrite (skip_ws_id "["%char) by reflexivity.
      change (byte "["%char =? 123) with false. change (byte "["%char =? 91) with true. cbv iota.
      rewrite skip_ws_nl.
      assert (Eh : exists c tl, join (item_sep ind (S lvl)) (map (render_json ind (S lvl)) (v :: l))
                                ++ nl ind lvl ++ "]"%char :: r = c :: tl /\ is_ws c = false /\ (byte c =? 93) = false).
      { destruct (render_json_head ind (S lvl) v) as (c & tl & E & W & B & _).
        destruct l as [|v2 l2]; cbn [map]; [cbn [join] | rewrite join_cons2]; rewrite E; cbn [app];
          eexists _, _; (split; [reflexivity | split; assumption]). }
      destruct Eh as (c & tl & Etl & W & B).
      rewrite Etl. rewrite (skip_ws_id c) by exact W. rewrite B. rewrite <- Etl.
      rewrite (elems_ok ind (S lvl) lvl (v :: l) ltac:(discriminate) HF Hk f r) by lia.
      reflexivity.
Qed.

(** *** the fuel of [parse_profile_json] suffices *)
Definition suml (l : list str) : nat := fold_right (fun x acc => (List.length x + acc)%nat) O l.

Lemma join_length sep (l : list str) : (suml l <= List.length (join sep l))%nat.
Proof.
  induction l as [|a l IH]; [cbn; lia|].
  destruct l as [|b l]; [cbn; lia|].
  rewrite join_cons2. rewrite !app_length. cbn [suml fold_right] in *. lia.
Qed.

Lemma json_string_len s : (2 <= List.length (json_string s))%nat.
Proof. unfold json_string. cbn [List.length]. rewrite app_length. cbn [List.length]. lia. Qed.

Lemma jsize_le_length : forall j ind lvl, (jsize j <= List.length (render_json ind lvl j))%nat.
Proof.
  apply (json_ind' (fun j => forall ind lvl, (jsize j <= List.length (render_json ind lvl j))%nat)).
  - intros n ind lvl. cbn [jsize render_json]. pose proof (pj_dec_of_N_nonempty n).
    destruct (dec_of_N n); [contradiction | cbn; lia].
  - intros l HF ind lvl. destruct l as [|kv l]; [cbn; lia|].
    rewrite render_obj_cons. rewrite !app_length. cbn [jsize]. fold (msize (kv :: l)).
    assert (H : (msize (kv :: l) <= suml (map (item ind (S lvl)) (kv :: l)))%nat).
    { clear -HF. induction HF as [|x l' Hx HF' IH]; [cbn; lia|].
      cbn [msize fold_right map suml] in *. unfold item at 1. rewrite !app_length.
      specialize (Hx ind (S lvl)). pose proof (json_string_len (key_str (fst x))).
      cbn [List.length Str list_ascii_of_string]. unfold msize, suml in *. lia. }
    pose proof (join_length (item_sep ind (S lvl)) (map (item ind (S lvl)) (kv :: l))).
    unfold nl. cbn [List.length Str list_ascii_of_string]. lia.
  - intros l HF ind lvl. destruct l as [|v l]; [cbn; lia|].
    rewrite render_arr_cons. rewrite !app_length. cbn [jsize]. fold (asize (v :: l)).
    assert (H : (asize (v :: l) <= suml (map (render_json ind (S lvl)) (v :: l)) + List.length (v :: l))%nat).
    { clear -HF. induction HF as [|x l' Hx HF' IH]; [cbn; lia|].
      cbn [asize fold_right map suml List.length] in *. specialize (Hx ind (S lvl)). unfold asize, suml in *. lia. }
    assert (H2 : (suml (map (render_json ind (S lvl)) (v :: l)) + List.length (v :: l)
                  <= S (List.length (join (item_sep ind (S lvl)) (map (render_json ind (S lvl)) (v :: l)))))%nat).
    { generalize (v :: l). intros l0. induction l0 as [|a l0 IH]; [cbn; lia|].
      destruct l0 as [|b l0]; [cbn; lia|].
      cbn [map]. rewrite join_cons2. rewrite !app_length. cbn [map] in IH.
      cbn [suml fold_right List.length item_sep] in *. lia. }
    unfold nl. cbn [List.length Str list_ascii_of_string]. lia.
Qed.

(** THE ROUND TRIP.  For every object of the fragment whose string keys are
    well-formed UTF-8, every indent: the printed text is read back as the
    object with its keys turned into strings. *)
Theorem parse_render_text ind j :
  keys_ok j = true -> parse_profile_json (render_json ind 0 j) = Some (stringify_keys j).
Proof.
  intros Hk. unfold parse_profile_json.
  rewrite <- (app_nil_r (render_json ind 0 j)) at 2.
  rewrite (parse_render j Hk ind O _ []); [reflexivity | | exact I].
  pose proof (jsize_le_length j ind O). lia.
Qed.

Theorem parse_dumps c j :
  j_sort_keys c = false -> keys_ok j = true ->
  exists t, dumps c j = Some t /\ parse_profile_json t = Some (stringify_keys j).
Proof.
  intros Hs Hk. unfold dumps. rewrite Hs. eexists. split; [reflexivity|]. now apply parse_render_text.
Qed.

(** the text determines the object (up to the int/str form of the keys) *)
Theorem render_determines ind j1 j2 :
  keys_ok j1 = true -> keys_ok j2 = true ->
  render_json ind 0 j1 = render_json ind 0 j2 -> stringify_keys j1 = stringify_keys j2.
Proof.
  intros H1 H2 E. pose proof (parse_render_text ind j1 H1) as P1. pose proof (parse_render_text ind j2 H2) as P2.
  rewrite E in P1. congruence.
Qed.

(** ** 4. the profile object *)

Definition ckey_str (k : ckey) : str := key_str (ckey_json k).

(** int keys and "+" never meet as strings: a decimal numeral is made of digits *)
Lemma ckey_str_inj a b : ckey_str a = ckey_str b -> a = b.
Proof.
  assert (Hplus : forall n, dec_of_N n <> c_ONE_TO_MANY).
  { intros n E. pose proof (pj_dec_of_N_digits n) as H. rewrite E in H. vm_compute in H. discriminate. }
  destruct a as [x|], b as [y|]; unfold ckey_str; cbn [ckey_json key_str]; intros E.
  - f_equal. now apply dec_of_N_inj.
  - exfalso. exact (Hplus x E).
  - exfalso. exact (Hplus y (eq_sym E)).
  - reflexivity.
Qed.

(** leaves of an object built by [map] *)
Lemma leaves_obj_map {A} (f : A -> str) (g : A -> json) (l : list A) path n :
  In (path, n) (leaves (JObj (map (fun x => (JKs (f x), g x)) l))) <->
  exists x path', In x l /\ path = SKey (f x) :: path' /\ In (path', n) (leaves (g x)).
Proof.
  cbn [leaves]. rewrite in_flat_map. split.
  - intros [kv [Hkv Hin]]. apply in_map_iff in Hkv as [x [<- Hx]]. cbn [fst snd key_str] in Hin.
    apply in_map_iff in Hin as [[p' n'] [E Hin]]. cbn [fst snd] in E. injection E as <- <-.
    exists x, p'. auto.
  - intros (x & p' & Hx & -> & Hin). exists (JKs (f x), g x). split; [apply in_map_iff; eauto|].
    cbn [fst snd key_str]. apply in_map_iff. exists (p', n). auto.
Qed.

Lemma leaves_cdict d path n :
  In (path, n) (leaves (cdict_json d)) <-> exists card, path = [SKey (ckey_str card)] /\ In (card, n) d.
Proof.
  unfold cdict_json. cbn [leaves]. rewrite in_flat_map. split.
  - intros [kv [Hkv Hin]]. apply in_map_iff in Hkv as [[card m] [<- Hx]]. cbn [fst snd leaves map] in Hin.
    destruct Hin as [E|[]]. injection E as <- <-. exists card. auto.
  - intros (card & -> & Hin). exists (ckey_json card, JInt n). split; [apply in_map_iff; exists (card, n); auto|].
    cbn. left. reflexivity.
Qed.

Lemma leaves_tdict m path n :
  In (path, n) (leaves (tdict_json m)) <->
  exists k cd card, path = [SKey k; SKey (ckey_str card)] /\ In (k, cd) m /\ In (card, n) cd.
Proof.
  unfold tdict_json. rewrite (leaves_obj_map (fun kd : str * cdict => fst kd) (fun kd => cdict_json (snd kd))). split.
  - intros ([k cd] & p' & Hx & -> & Hin). apply leaves_cdict in Hin as (card & -> & Hc). exists k, cd, card. auto.
  - intros (k & cd & card & -> & H1 & H2). exists (k, cd), [SKey (ckey_str card)].
    split; [exact H1|]. split; [reflexivity|]. apply leaves_cdict. eauto.
Qed.

Lemma leaves_pdict d path n :
  In (path, n) (leaves (pdict_json d)) <->
  exists p m k cd card, path = [SKey p; SKey k; SKey (ckey_str card)] /\
                        In (p, m) d /\ In (k, cd) m /\ In (card, n) cd.
Proof.
  unfold pdict_json. rewrite (leaves_obj_map (fun pm : str * dict cdict => fst pm) (fun pm => tdict_json (snd pm))). split.
  - intros ([p m] & p' & Hx & -> & Hin). apply leaves_tdict in Hin as (k & cd & card & -> & H1 & H2).
    exists p, m, k, cd, card. auto.
  - intros (p & m & k & cd & card & -> & H0 & H1 & H2). exists (p, m), [SKey k; SKey (ckey_str card)].
    split; [exact H0|]. split; [reflexivity|]. apply leaves_tdict. eauto 6.
Qed.

(** where a figure sits in the text: class, (with inverse paths: 0 = direct,
    1 = inverse), property, type key, cardinality *)
Inductive pdir := PDirect | PInverse.

Definition feats (d : pdir) (e : centry) : pdict :=
  match d with PDirect => c_direct e | PInverse => c_inverse e end.

Definition profile_path (inverse : bool) (cls : str) (d : pdir) (p k : str) (card : ckey) : list jstep :=
  SKey cls :: (if inverse then [SIdx (match d with PDirect => 0 | PInverse => 1 end)] else [])
       ++ [SKey p; SKey k; SKey (ckey_str card)].

Theorem leaves_profile_json inverse P path n :
  In (path, n) (leaves (profile_json inverse P)) <->
  exists cls e d p m k cd card,
    In (cls, e) P /\ path = profile_path inverse cls d p k card /\
    (d = PInverse -> inverse = true) /\
    In (p, m) (feats d e) /\ In (k, cd) m /\ In (card, n) cd.
Proof.
  unfold profile_json.
  rewrite (leaves_obj_map (fun ce : str * centry => fst ce) (fun ce => centry_json inverse (snd ce))). split.
  - intros ([cls e] & p' & Hx & -> & Hin). cbn [fst snd] in *. unfold centry_json in Hin.
    destruct inverse.
    + cbn [leaves] in Hin. rewrite app_nil_r in Hin. apply in_app_iff in Hin as [Hin|Hin];
        apply in_map_iff in Hin as [[q n'] [E Hin]]; cbn [fst snd] in E; injection E as <- <-;
        apply leaves_pdict in Hin as (p & m & k & cd & card & -> & H0 & H1 & H2).
      * exists cls, e, PDirect, p, m, k, cd, card. repeat split; auto; discriminate.
      * exists cls, e, PInverse, p, m, k, cd, card. repeat split; auto.
    + apply leaves_pdict in Hin as (p & m & k & cd & card & -> & H0 & H1 & H2).
      exists cls, e, PDirect, p, m, k, cd, card. repeat split; auto; discriminate.
  - intros (cls & e & d & p & m & k & cd & card & Hx & -> & Hd & H0 & H1 & H2).
    exists (cls, e). cbn [fst snd]. unfold profile_path, centry_json.
    destruct inverse.
    + exists (SIdx (match d with PDirect => 0 | PInverse => 1 end) :: [SKey p; SKey k; SKey (ckey_str card)])%nat.
      split; [exact Hx|]. split; [reflexivity|]. cbn [leaves]. rewrite app_nil_r. apply in_app_iff.
      destruct d; [left | right]; apply in_map_iff; exists ([SKey p; SKey k; SKey (ckey_str card)], n);
        (split; [reflexivity|]); apply leaves_pdict; exists p, m, k, cd, card; auto.
    + exists [SKey p; SKey k; SKey (ckey_str card)]. split; [exact Hx|]. split; [reflexivity|].
      destruct d; [|specialize (Hd eq_refl); discriminate].
      apply leaves_pdict. exists p, m, k, cd, card; auto.
Qed.

(** the top-level keys of the text are the class keys of the profile, in order *)
Definition top_keys (j : json) : list str :=
  match j with JObj l => map (fun kv : jkey * json => key_str (fst kv)) l | _ => [] end.

Lemma top_keys_profile_json inverse P : top_keys (profile_json inverse P) = dkeys P.
Proof. unfold profile_json, top_keys, dkeys. rewrite map_map. reflexivity. Qed.

Lemma top_keys_stringify j : top_keys (stringify_keys j) = top_keys j.
Proof. destruct j as [n|l|l]; try reflexivity. cbn [stringify_keys top_keys]. rewrite map_map. reflexivity. Qed.

(** [stringify_keys] changes no path and no figure *)
Lemma leaves_stringify : forall j, leaves (stringify_keys j) = leaves j.
Proof.
  apply json_ind'.
  - reflexivity.
  - intros l HF. cbn [stringify_keys leaves]. induction HF as [|kv l' Hkv HF' IH]; [reflexivity|].
    cbn [map flat_map fst snd key_str]. rewrite Hkv. f_equal. exact IH.
  - intros l HF. cbn [stringify_keys leaves]. generalize O.
    induction HF as [|x l' Hx HF' IH]; intros i; [reflexivity|].
    cbn [map]. rewrite Hx. f_equal. apply IH.
Qed.

(** the profile's keys are exactly rendered *)
Definition profile_keys_ok (inverse : bool) (P : cprofile) : bool := keys_ok (profile_json inverse P).

(** ** 5. the run: [run_profile_json] *)

Notation tmode_of := EndToEnd.mode_of (only parsing).

(** the code as it is: no [sort_keys] at either call site, one indent *)
Lemma sink_no_sort k : j_sort_keys (sink_cfg k) = false.
Proof. destruct k; reflexivity. Qed.

Lemma sink_indent k : j_indent (sink_cfg k) = c_profile_json_indent.
Proof. destruct k; reflexivity. Qed.

(** rendering never fails *)
Lemma profile_text_render k inverse P :
  profile_text k inverse P = Some (render_json c_profile_json_indent 0 (profile_json inverse P)).
Proof. unfold profile_text, dumps. now rewrite sink_no_sort, sink_indent. Qed.

(** file sink = string sink, for every profile object *)
Theorem profile_sinks_agree inverse P : profile_text PFile inverse P = profile_text PString inverse P.
Proof. now rewrite !profile_text_render. Qed.

Theorem run_sinks_agree c g : run_profile_json PFile c g = run_profile_json PString c g.
Proof.
  unfold run_profile_json. destruct (run_front c g) as [[[P C] ID]|e]; [|reflexivity].
  now rewrite profile_sinks_agree.
Qed.

Lemma run_front_unfold c g :
  run_front c g =
  match track (r_tau c) (tmode_of c) (r_cap c) g with
  | inr _ => inr REAttr
  | inl ins => match profile (pcfg_of c) ins g with
               | inr e => inr (EndToEnd.rerr_of_p e)
               | inl x => inl x
               end
  end.
Proof.
  unfold run_front, tmode_of. destruct (track _ _ _ g) as [ins|e]; [|reflexivity].
  destruct (profile (pcfg_of c) ins g) as [x|[|]]; reflexivity.
Qed.

(** a text comes out exactly when tracker and profiler succeed, and it is the
    rendering of the profiler's object *)
Theorem run_profile_json_ok_iff k c g t :
  run_profile_json k c g = inl t <->
  exists ins P C ID,
    track (r_tau c) (tmode_of c) (r_cap c) g = inl ins /\
    profile (pcfg_of c) ins g = inl (P, C, ID) /\
    t = render_json c_profile_json_indent 0 (profile_json (r_inverse c) P).
Proof.
  unfold run_profile_json. rewrite run_front_unfold. split.
  - destruct (track _ _ _ g) as [ins|e] eqn:Ht; [|discriminate].
    destruct (profile (pcfg_of c) ins g) as [[[P C] ID]|e] eqn:Hp; [|discriminate].
    rewrite profile_text_render. intros H. exists ins, P, C, ID.
    split; [reflexivity|]. split; [exact Hp|]. congruence.
  - intros (ins & P & C & ID & -> & -> & ->). now rewrite profile_text_render.
Qed.

Theorem run_profile_json_total_iff k c g :
  (exists t, run_profile_json k c g = inl t) <->
  (exists ins P C ID, track (r_tau c) (tmode_of c) (r_cap c) g = inl ins /\
                      profile (pcfg_of c) ins g = inl (P, C, ID)).
Proof.
  split.
  - intros [t H]. apply run_profile_json_ok_iff in H as (ins & P & C & ID & H1 & H2 & _). eauto 6.
  - intros (ins & P & C & ID & H1 & H2). eexists. apply run_profile_json_ok_iff. eauto 8.
Qed.

(** on [C04_front_total]'s domain *)
Theorem run_profile_json_total k c g :
  EndToEnd2.typing_ok (r_tau c) g -> exists t, run_profile_json k c g = inl t.
Proof. intros H. apply run_profile_json_total_iff. exact (EndToEnd2.front_total c g H). Qed.

(** the failures are those of the front: always AttributeError, from the
    tracker or from the feature pass ([E2E_profile_error]'s bad triple) *)
Theorem run_profile_json_err_iff k c g e :
  run_profile_json k c g = inr e <->
  e = REAttr /\
  ((exists te, track (r_tau c) (tmode_of c) (r_cap c) g = inr te) \/
   (exists ins t, track (r_tau c) (tmode_of c) (r_cap c) g = inl ins /\ In t g /\ bad_triple (r_tau c) ins t)).
Proof.
  unfold run_profile_json. rewrite run_front_unfold.
  destruct (track _ _ _ g) as [ins|te] eqn:Ht.
  - destruct (profile (pcfg_of c) ins g) as [[[P C] ID]|pe] eqn:Hp.
    + rewrite profile_text_render. split; [discriminate|].
      intros [_ [[te H]|(ins' & t & H & Hin & Hb)]]; [discriminate|]. injection H as <-.
      assert (Hp' : profile (pcfg_of c) ins g = inr PEAttr) by (apply EndToEnd.run_profile_err; eauto).
      congruence.
    + pose proof (proj1 (EndToEnd.run_profile_err c ins g pe) Hp) as [-> [t [Hin Hb]]]. cbn [EndToEnd.rerr_of_p].
      split.
      * intros H. injection H as <-. split; [reflexivity|]. right. exists ins, t. auto.
      * intros [-> _]. reflexivity.
  - split.
    + intros H. injection H as <-. split; [reflexivity|]. left. eauto.
    + intros [-> _]. reflexivity.
Qed.

Corollary run_profile_json_err_triple k c g e :
  run_profile_json k c g = inr e ->
  e = REAttr /\ exists t, In t g /\ tp t = r_tau c /\ is_node (to t) = false.
Proof.
  intros H. apply run_profile_json_err_iff in H as [-> [[te H]|(ins & t & H & Hin & (_ & Hp & Hn))]].
  - split; [reflexivity|]. exact (EndToEnd2.track_err _ _ _ _ _ H).
  - split; [reflexivity|]. exists t. auto.
Qed.

(** *** C01 for the profile text: composition with P1 *)
Definition dir_of_pdir (d : pdir) : direction :=
  match d with PDirect => Direct | PInverse => Inverse end.

Theorem profile_json_figures k c g t :
  run_profile_json k c g = inl t ->
  exists I P,
    track (r_tau c) (tmode_of c) (r_cap c) g = inl I /\
    t = render_json c_profile_json_indent 0 (profile_json (r_inverse c) P) /\
    NoDup (top_keys (profile_json (r_inverse c) P)) /\
    (exists ks, top_keys (profile_json (r_inverse c) P)
                = filter (ProfileChar.not_in ks) (class_keys (ProfileChar.targets_of (pcfg_of c)) I) /\
                (r_remove_empty c = false -> ks = [])) /\
    forall path n, In (path, n) (leaves (profile_json (r_inverse c) P)) ->
      exists cls d p ky card,
        path = profile_path (r_inverse c) cls d p ky card /\
        In cls (top_keys (profile_json (r_inverse c) P)) /\
        (d = PInverse -> r_inverse c = true) /\
        n = occ (dir_of_pdir d) (r_tau c) I g cls p ky card /\ 0 < n.
Proof.
  intros H. apply run_profile_json_ok_iff in H as (I & P & C & ID & Ht & Hp & ->).
  destruct (ProfileChar.track_insts_ok _ _ _ _ _ Ht) as [ND _].
  destruct (ProfileChar.profile_final_char (pcfg_of c) I g P C ID ND Hp) as (_ & NDP & Hks & _ & _ & HE).
  exists I, P. rewrite top_keys_profile_json.
  split; [exact Ht|]. split; [reflexivity|]. split; [exact NDP|]. split; [exact Hks|].
  intros path n Hin. apply leaves_profile_json in Hin as (cls & e & d & p & m & ky & cd & card & Hce & -> & Hd & H0 & H1 & H2).
  destruct (HE cls e Hce) as (_ & HD & HI & _).
  exists cls, d, p, ky, card. split; [reflexivity|]. split; [apply in_map_iff; exists (cls, e); auto|].
  split; [exact Hd|]. destruct d; cbn [feats dir_of_pdir] in *.
  - exact (HD p m ky cd card n H0 H1 H2).
  - exact (HI (Hd eq_refl) p m ky cd card n H0 H1 H2).
Qed.

(** every positive count of a listed class is printed (except under a type key
    that is a class key removed by the cleaning) *)
Theorem profile_json_complete k c g t :
  run_profile_json k c g = inl t ->
  exists I P,
    track (r_tau c) (tmode_of c) (r_cap c) g = inl I /\
    t = render_json c_profile_json_indent 0 (profile_json (r_inverse c) P) /\
    forall cls d p ky card,
      In cls (dkeys P) -> (d = PInverse -> r_inverse c = true) ->
      (In ky (class_keys (ProfileChar.targets_of (pcfg_of c)) I) -> In ky (dkeys P)) ->
      0 < occ (dir_of_pdir d) (r_tau c) I g cls p ky card ->
      In (profile_path (r_inverse c) cls d p ky card, occ (dir_of_pdir d) (r_tau c) I g cls p ky card)
         (leaves (profile_json (r_inverse c) P)).
Proof.
  intros H. apply run_profile_json_ok_iff in H as (I & P & C & ID & Ht & Hp & ->).
  destruct (ProfileChar.track_insts_ok _ _ _ _ _ Ht) as [ND _].
  exists I, P. split; [exact Ht|]. split; [reflexivity|].
  intros cls d p ky card Hcls Hd Hky Hpos.
  apply in_map_iff in Hcls as [[cls' e] [E Hce]]. cbn [fst] in E. subst cls'.
  destruct (ProfileChar.profile_final_complete (pcfg_of c) I g P C ID ND Hp cls e Hce p ky Hky) as [HD HI].
  apply leaves_profile_json.
  destruct d; cbn [dir_of_pdir] in *.
  - destruct (HD card Hpos) as (m & cd & H0 & H1 & H2). exists cls, e, PDirect, p, m, ky, cd, card.
    repeat split; auto.
  - destruct (HI (Hd eq_refl) card Hpos) as (m & cd & H0 & H1 & H2). exists cls, e, PInverse, p, m, ky, cd, card.
    repeat split; auto.
Qed.

(** the same read off the TEXT, when the profile's keys are well-formed UTF-8:
    the text parses, its top-level keys are the class keys, every figure of it
    is the [occ] its path names *)
Theorem profile_text_figures k c g t :
  run_profile_json k c g = inl t ->
  exists I P,
    track (r_tau c) (tmode_of c) (r_cap c) g = inl I /\
    (profile_keys_ok (r_inverse c) P = true ->
     exists j, parse_profile_json t = Some j /\
       j = stringify_keys (profile_json (r_inverse c) P) /\
       top_keys j = dkeys P /\
       forall path n, In (path, n) (leaves j) ->
         exists cls d p ky card,
           path = profile_path (r_inverse c) cls d p ky card /\ In cls (top_keys j) /\
           (d = PInverse -> r_inverse c = true) /\
           n = occ (dir_of_pdir d) (r_tau c) I g cls p ky card /\ 0 < n).
Proof.
  intros H. destruct (profile_json_figures k c g t H) as (I & P & Ht & -> & _ & _ & HL).
  exists I, P. split; [exact Ht|]. intros Hk.
  exists (stringify_keys (profile_json (r_inverse c) P)).
  split; [apply parse_render_text; exact Hk|]. split; [reflexivity|].
  rewrite top_keys_stringify. split; [apply top_keys_profile_json|].
  intros path n Hin. rewrite leaves_stringify in Hin. exact (HL path n Hin).
Qed.
