(** * C05 (closure half) — shape references resolve, labels are distinct.
    Lemmas on [clean_shapes] (R1), on the references [shex_class] can emit
    (R2) and on the labels (R3). *)
From Coq Require Import List Ascii String ZArith NArith Bool Lia Permutation.
From Shexer Require Import Lib.PyStr Lib.Dict Gen.Consts Model.Profiler Model.Tokens Model.Freq Model.Shexing.
From Shexer Require Import Proofs.ShexBasics.
Import ListNotations.

(** every shape-type key used by a statement is the label of a shape *)
Definition refs_closed (l : list shape) : Prop :=
  forall sh st k, In sh l -> In st (sh_stmts sh) -> In k (s_types st) -> is_shape_type k = true ->
                  exists sh', In sh' l /\ sh_name sh' = k.

(** a statement that is not a choice has exactly one type *)
Definition stmt_wf (st : stmt) : Prop := s_choice st = false -> exists k, s_types st = [k].

Definition shapes_wf (l : list shape) : Prop :=
  forall sh st, In sh l -> In st (sh_stmts sh) -> stmt_wf st.

Definition no_choice (l : list shape) : Prop :=
  forall sh, In sh l -> existsb (fun st => s_choice st) (sh_stmts sh) = false.

Definition no_empty (l : list shape) : Prop := forall sh, In sh l -> sh_stmts sh <> [].

(** ** list facts *)
Lemma filter_length_le' {A} (p : A -> bool) (l : list A) : List.length (filter p l) <= List.length l.
Proof. induction l as [|y l IH]; simpl; [lia|]. destruct (p y); simpl; lia. Qed.

Lemma filter_length_lt {A} (p : A -> bool) l x :
  In x l -> p x = false -> List.length (filter p l) < List.length l.
Proof.
  induction l as [|y l IH]; simpl; [contradiction|]. intros [->|H] Hp.
  - rewrite Hp. pose proof (filter_length_le' p l). lia.
  - specialize (IH H Hp). destruct (p y); simpl; lia.
Qed.

Lemma existsb_false_forall {A} (p : A -> bool) l x : existsb p l = false -> In x l -> p x = false.
Proof.
  intros H Hx. destruct (p x) eqn:E; [|reflexivity].
  assert (existsb p l = true) by (apply existsb_exists; exists x; split; assumption). congruence.
Qed.

(** ** one pruning step *)
Lemma prune_shape_inl names sh sh' :
  prune_shape names sh = inl sh' ->
  existsb (fun st => s_choice st) (sh_stmts sh) = false /\
  sh_name sh' = sh_name sh /\ sh_class sh' = sh_class sh /\ sh_n sh' = sh_n sh /\
  (forall st, In st (sh_stmts sh') <-> In st (sh_stmts sh) /\ mem_str (s_type st) names = false).
Proof.
  unfold prune_shape. destruct (existsb _ (sh_stmts sh)) eqn:E; [discriminate|].
  intros H; inversion H; subst; clear H. simpl.
  split; [reflexivity|]. split; [reflexivity|]. split; [reflexivity|]. split; [reflexivity|].
  intros st. rewrite in_app_iff, !filter_In, negb_true_iff. split.
  - intros [[[Hin Hm] _]|[[Hin Hm] _]]; split; assumption.
  - intros [Hin Hm]. destruct (s_inv st) eqn:Ei; [right | left]; repeat split; assumption.
Qed.

Lemma prune_shape_inr names sh e :
  prune_shape names sh = inr e <-> e = SEType /\ existsb (fun st => s_choice st) (sh_stmts sh) = true.
Proof.
  unfold prune_shape. destruct (existsb _ (sh_stmts sh)); split.
  - intros H; inversion H; subst. split; reflexivity.
  - intros [-> _]. reflexivity.
  - discriminate.
  - intros [_ H]; discriminate.
Qed.

Definition clean_step (names : list str) (l : list shape) : list shape + serr :=
  map_err (prune_shape names) (filter (fun s => negb (mem_str (sh_name s) names)) l).

Lemma clean_shapes_S fuel l :
  clean_shapes (S fuel) l =
  match empty_names l with
  | [] => inl l
  | names => match clean_step names l with inr e => inr e | inl l' => clean_shapes fuel l' end
  end.
Proof. reflexivity. Qed.

Lemma clean_step_props names l l' :
  clean_step names l = inl l' ->
  shapes_wf l -> refs_closed l ->
  refs_closed l' /\ shapes_wf l' /\ no_choice l'.
Proof.
  unfold clean_step. intros H Hwf Hrc. apply map_err_Forall2 in H.
  assert (Horig : forall sh', In sh' l' -> exists sh, In sh l /\ mem_str (sh_name sh) names = false /\
                                                 prune_shape names sh = inl sh').
  { intros sh' Hin. destruct (Forall2_In_r _ _ _ _ H Hin) as (sh & Hsh & Hp).
    apply filter_In in Hsh. destruct Hsh as [Hsh Hm]. apply negb_true_iff in Hm.
    exists sh. repeat split; assumption. }
  split; [|split].
  - intros sh' st k Hsh' Hst Hk Hty.
    destruct (Horig sh' Hsh') as (sh & Hsh & Hm & Hp).
    apply prune_shape_inl in Hp. destruct Hp as (Hch & Hn & _ & _ & Hstm).
    apply Hstm in Hst. destruct Hst as [Hst Hnm].
    pose proof (existsb_false_forall _ _ st Hch Hst) as Hc. simpl in Hc.
    destruct (Hwf sh st Hsh Hst Hc) as (k0 & Hk0).
    rewrite Hk0 in Hk. destruct Hk as [<-|[]].
    assert (Hty0 : s_type st = k0) by (unfold s_type; rewrite Hk0; reflexivity).
    destruct (Hrc sh st k0 Hsh Hst) as (sh2 & Hsh2 & Hn2); [rewrite Hk0; left; reflexivity | exact Hty|].
    assert (Hf : In sh2 (filter (fun s => negb (mem_str (sh_name s) names)) l)).
    { apply filter_In. split; [exact Hsh2|]. rewrite Hn2, <- Hty0, Hnm. reflexivity. }
    destruct (Forall2_In_l _ _ _ _ H Hf) as (sh2' & Hsh2' & Hp2).
    apply prune_shape_inl in Hp2. destruct Hp2 as (_ & Hn2' & _).
    exists sh2'. split; [exact Hsh2' | congruence].
  - intros sh' st Hsh' Hst. destruct (Horig sh' Hsh') as (sh & Hsh & Hm & Hp).
    apply prune_shape_inl in Hp. destruct Hp as (_ & _ & _ & _ & Hstm).
    apply Hstm in Hst. eapply Hwf; [exact Hsh | apply Hst].
  - intros sh' Hsh'. destruct (Horig sh' Hsh') as (sh & Hsh & Hm & Hp).
    apply prune_shape_inl in Hp. destruct Hp as (Hch & _ & _ & _ & Hstm).
    destruct (existsb _ (sh_stmts sh')) eqn:E; [|reflexivity].
    apply existsb_exists in E. destruct E as (st & Hst & Hc). apply Hstm in Hst.
    rewrite (existsb_false_forall _ _ st Hch (proj1 Hst)) in Hc. discriminate.
Qed.

Lemma clean_step_length names l l' :
  clean_step names l = inl l' ->
  (exists sh, In sh l /\ mem_str (sh_name sh) names = true) ->
  List.length l' < List.length l.
Proof.
  unfold clean_step. intros H (sh & Hsh & Hm). apply map_err_Forall2 in H.
  apply Forall2_len in H. rewrite <- H.
  apply (filter_length_lt _ l sh Hsh). rewrite Hm. reflexivity.
Qed.

Lemma empty_names_nonempty l nm names :
  empty_names l = nm :: names -> exists sh, In sh l /\ mem_str (sh_name sh) (nm :: names) = true.
Proof.
  unfold empty_names. intros H.
  assert (Hin : In nm (map sh_name (filter (fun s => match sh_stmts s with [] => true | _ => false end) l))).
  { rewrite H. left; reflexivity. }
  apply in_map_iff in Hin. destruct Hin as (sh & Hn & Hsh). apply filter_In in Hsh.
  exists sh. split; [apply Hsh|]. rewrite <- H. apply mem_str_In. apply in_map_iff.
  exists sh. split; [reflexivity|]. apply filter_In. exact Hsh.
Qed.

Lemma empty_names_nil l : empty_names l = [] <-> no_empty l.
Proof.
  unfold empty_names, no_empty. split.
  - intros H sh Hsh Hs.
    assert (Hin : In (sh_name sh) (map sh_name (filter (fun s => match sh_stmts s with [] => true | _ => false end) l))).
    { apply in_map. apply filter_In. split; [exact Hsh|]. rewrite Hs. reflexivity. }
    rewrite H in Hin. contradiction.
  - intros H. destruct (filter _ l) as [|sh r] eqn:E; [reflexivity|].
    assert (Hin : In sh (filter (fun s => match sh_stmts s with [] => true | _ => false end) l)).
    { rewrite E. left; reflexivity. }
    apply filter_In in Hin. destruct Hin as [Hin Hs]. specialize (H sh Hin).
    destruct (sh_stmts sh); [contradiction|discriminate].
Qed.

(** ** R1 *)
Theorem clean_shapes_refs_closed fuel : forall l r,
  shapes_wf l -> refs_closed l -> clean_shapes fuel l = inl r -> refs_closed r /\ shapes_wf r.
Proof.
  induction fuel as [|f IH]; intros l r Hwf Hrc H.
  - simpl in H. inversion H; subst. split; assumption.
  - rewrite clean_shapes_S in H. destruct (empty_names l) as [|nm names] eqn:En.
    + inversion H; subst. split; assumption.
    + destruct (clean_step (nm :: names) l) as [l'|e] eqn:Es; [|discriminate].
      destruct (clean_step_props _ _ _ Es Hwf Hrc) as (Hrc' & Hwf' & _).
      eapply IH; eassumption.
Qed.

Theorem clean_shapes_no_empty fuel : forall l r,
  List.length l < fuel -> clean_shapes fuel l = inl r -> no_empty r.
Proof.
  induction fuel as [|f IH]; intros l r Hlen H; [lia|].
  rewrite clean_shapes_S in H. destruct (empty_names l) as [|nm names] eqn:En.
  - inversion H; subst. apply empty_names_nil. exact En.
  - destruct (clean_step (nm :: names) l) as [l'|e] eqn:Es; [|discriminate].
    pose proof (clean_step_length _ _ _ Es (empty_names_nonempty _ _ _ En)) as Hl.
    eapply IH; [|exact H]. lia.
Qed.

(** without choice statements the cleaning cannot fail *)
Lemma clean_step_no_choice names l : no_choice l -> exists l', clean_step names l = inl l'.
Proof.
  intros Hnc. unfold clean_step. apply map_err_all_inl. intros sh Hsh.
  apply filter_In in Hsh. destruct Hsh as [Hsh _].
  unfold prune_shape. rewrite (Hnc sh Hsh). eexists; reflexivity.
Qed.

Lemma clean_shapes_no_choice fuel : forall l, shapes_wf l -> refs_closed l -> no_choice l ->
  exists r, clean_shapes fuel l = inl r.
Proof.
  induction fuel as [|f IH]; intros l Hwf Hrc Hnc; [eexists; reflexivity|].
  rewrite clean_shapes_S. destruct (empty_names l) as [|nm names]; [eexists; reflexivity|].
  destruct (clean_step_no_choice (nm :: names) l Hnc) as (l' & Hl'). rewrite Hl'.
  destruct (clean_step_props _ _ _ Hl' Hwf Hrc) as (Hrc' & Hwf' & Hnc'). apply IH; assumption.
Qed.

(** the only failure: at the first iteration, an empty shape exists while a
    surviving shape holds a choice statement ([st_type] of a
    FixedPropChoiceStatement raises TypeError) *)
Definition clean_crash (l : list shape) : Prop :=
  empty_names l <> [] /\
  exists sh, In sh l /\ mem_str (sh_name sh) (empty_names l) = false /\
             existsb (fun st => s_choice st) (sh_stmts sh) = true.

Theorem clean_shapes_error fuel l e :
  shapes_wf l -> refs_closed l ->
  (clean_shapes (S fuel) l = inr e <-> e = SEType /\ clean_crash l).
Proof.
  intros Hwf Hrc. rewrite clean_shapes_S. unfold clean_crash. split.
  - destruct (empty_names l) as [|nm names] eqn:En; [discriminate|].
    destruct (clean_step (nm :: names) l) as [l'|e'] eqn:Es.
    + intros H. destruct (clean_step_props _ _ _ Es Hwf Hrc) as (Hrc' & Hwf' & Hnc').
      destruct (clean_shapes_no_choice fuel l' Hwf' Hrc' Hnc') as (r & Hr). congruence.
    + intros H; inversion H; subst; clear H. unfold clean_step in Es.
      apply map_err_inr in Es. destruct Es as (sh & Hsh & Hp).
      apply prune_shape_inr in Hp. destruct Hp as [-> Hc].
      apply filter_In in Hsh. destruct Hsh as [Hsh Hm]. apply negb_true_iff in Hm.
      split; [reflexivity|]. split; [discriminate|]. exists sh. repeat split; assumption.
  - intros (-> & Hne & sh & Hsh & Hm & Hc).
    destruct (empty_names l) as [|nm names] eqn:En; [congruence|].
    destruct (clean_step (nm :: names) l) as [l'|e'] eqn:Es.
    + exfalso. unfold clean_step in Es. apply map_err_Forall2 in Es.
      assert (Hf : In sh (filter (fun s => negb (mem_str (sh_name s) (nm :: names))) l)).
      { apply filter_In. split; [exact Hsh|]. rewrite Hm. reflexivity. }
      destruct (Forall2_In_l _ _ _ _ Es Hf) as (sh' & _ & Hp).
      apply prune_shape_inl in Hp. destruct Hp as (Hc' & _). congruence.
    + unfold clean_step in Es. apply map_err_inr in Es. destruct Es as (sh2 & _ & Hp).
      apply prune_shape_inr in Hp. destruct Hp as [-> _]. reflexivity.
Qed.

(** ** what [shex_class] emits: types, choice flags and directions of the
    tuned statements are those of selected statements *)
Lemma relax_types fa cfg cnt x y :
  relax fa cfg cnt x = inl y -> s_types y = s_types x /\ s_choice y = s_choice x.
Proof.
  unfold relax. destruct (negb _).
  - destruct (comment_of cfg x); [|discriminate]. intros H; inversion H; subst. split; reflexivity.
  - intros H; inversion H; subst. split; reflexivity.
Qed.

Lemma post1_types cfg s : s_types (post1 cfg s) = s_types s /\ s_choice (post1 cfg s) = s_choice s.
Proof.
  unfold post1, generalize_exact, drop_comments.
  destruct (x_disable_exact cfg), (x_disable_comments cfg); simpl; try (split; reflexivity);
    destruct (s_card s) as [k| | |]; simpl; try (split; reflexivity); destruct (N.ltb 1 k); split; reflexivity.
Qed.

Lemma tune_origin fa cfg cnt v st s' :
  tune fa cfg cnt v = inl st -> In s' st ->
  exists s, In s v /\ s_types s' = s_types s /\ s_choice s' = s_choice s.
Proof.
  rewrite tune_eq. destruct (relax_phase fa cfg cnt _) as [l1|e] eqn:E; simpl; [|discriminate].
  intros H Hin; inversion H; subst; clear H. apply in_map_iff in Hin. destruct Hin as (s1 & <- & Hs1).
  destruct (post1_types cfg s1) as [Ht Hc]. rewrite Ht, Hc.
  unfold relax_phase in E. destruct (x_all_compliant cfg).
  - apply map_err_Forall2 in E. destruct (Forall2_In_r _ _ _ _ E Hs1) as (s & Hs & Hr).
    apply relax_types in Hr. destruct Hr as [Ht' Hc']. exists s. rewrite Ht', Hc'.
    split; [apply (sort_desc_In fa cnt); exact Hs | split; reflexivity].
  - inversion E; subst. exists s1. split; [apply (sort_desc_In fa cnt); exact Hs1 | split; reflexivity].
Qed.

(** an invariant of the selected statements of one class, from the base statements *)
Lemma shex_class_stmts_inv fa cfg thr counts ce sh (Q : stmt -> Prop) :
  (forall s k, Q s -> Q (add_comment s k)) ->
  (forall b i, Q b -> Q i -> Q (mg_nonlit b i)) ->
  (forall d tys g, Q d -> Forall Q g -> incl tys (s_type d :: map s_type g) -> Q (mg_choice d tys)) ->
  (forall inv pd, (pd = c_direct (snd ce) \/ pd = c_inverse (snd ce)) ->
                  Forall Q (base_statements fa thr (class_cnt counts ce) inv pd)) ->
  shex_class fa cfg thr counts ce = inl sh ->
  sh_name sh = shape_name (x_shapes_ns cfg) (fst ce) /\
  forall s', In s' (sh_stmts sh) -> exists s, Q s /\ s_types s' = s_types s /\ s_choice s' = s_choice s.
Proof.
  intros Hadd Hnl Hch Hbase. rewrite shex_class_eq.
  assert (Hsorted : Forall Q (class_sorted fa cfg thr counts ce)).
  { unfold class_sorted. apply sort_desc_Forall, Forall_app. split.
    - apply Hbase. left; reflexivity.
    - destruct (x_inverse cfg); [apply Hbase; right; reflexivity | constructor]. }
  destruct (select_valid fa cfg _ (filter (fun s => negb (s_inv s)) _)) as [vd|e] eqn:Ed; simpl; [|discriminate].
  destruct (select_valid fa cfg _ (filter (fun s => s_inv s) _)) as [vi|e] eqn:Ei; simpl; [|discriminate].
  destruct (tune fa cfg _ (vd ++ vi)) as [st|e] eqn:Et; simpl; [|discriminate].
  intros H; inversion H; subst; clear H. simpl. split; [reflexivity|].
  assert (Hv : Forall Q (vd ++ vi)).
  { apply Forall_app. split.
    - eapply (select_valid_inv fa cfg Q Hadd Hnl Hch); [|exact Ed]. apply Forall_filter. exact Hsorted.
    - eapply (select_valid_inv fa cfg Q Hadd Hnl Hch); [|exact Ei]. apply Forall_filter. exact Hsorted. }
  intros s' Hs'. destruct (tune_origin _ _ _ _ _ _ Et Hs') as (s & Hs & Ht & Hc).
  exists s. rewrite Forall_forall in Hv. split; [apply Hv, Hs | split; assumption].
Qed.

(** well-formedness of the emitted statements *)
Lemma shex_class_wf fa cfg thr counts ce sh :
  shex_class fa cfg thr counts ce = inl sh -> forall st, In st (sh_stmts sh) -> stmt_wf st.
Proof.
  intros H st Hst.
  destruct (shex_class_stmts_inv fa cfg thr counts ce sh stmt_wf) as (_ & Hq); [| | | |exact H|].
  - intros s k Hs. exact Hs.
  - intros b i _ _ _. eexists; reflexivity.
  - intros d tys g _ _ _ Hc. discriminate.
  - intros inv pd _. apply base_statements_Forall. intros. intros _. eexists; reflexivity.
  - destruct (Hq st Hst) as (s & Hs & Ht & Hc). intros Hch. rewrite Ht. apply Hs. congruence.
Qed.

(** ** R2: the shape-type keys of the emitted statements are type keys of the
    class's profile entry *)
Definition entry_key (e : centry) (k : str) : Prop :=
  exists p m cd, (In (p, m) (c_direct e) \/ In (p, m) (c_inverse e)) /\ In (k, cd) m.

(** the profiler names the referenced shapes in the default namespace *)
Definition profile_refs_closed (P : cprofile) : Prop :=
  forall c e k, In (c, e) P -> entry_key e k -> is_shape_type k = true ->
                exists c', In c' (dkeys P) /\ k = shape_name c_SHAPES_DEFAULT_NAMESPACE c'.

Lemma nonliteral_not_shape : is_shape_type c_NONLITERAL_ELEM_TYPE = false.
Proof. reflexivity. Qed.

Lemma nil_not_shape : is_shape_type [] = false.
Proof. reflexivity. Qed.

Lemma shex_class_keys fa cfg thr counts ce sh st k :
  shex_class fa cfg thr counts ce = inl sh -> In st (sh_stmts sh) -> In k (s_types st) ->
  is_shape_type k = true -> entry_key (snd ce) k.
Proof.
  intros H Hst Hk Hty.
  set (Q := fun s : stmt => forall k, In k (s_types s) -> is_shape_type k = true -> entry_key (snd ce) k).
  assert (Qtype : forall s, Q s -> is_shape_type (s_type s) = true -> entry_key (snd ce) (s_type s)).
  { intros s Hs Ht. apply Hs; [|exact Ht]. unfold s_type in *. destruct (s_types s) as [|k0 r]; simpl in *.
    - rewrite nil_not_shape in Ht. discriminate.
    - left; reflexivity. }
  destruct (shex_class_stmts_inv fa cfg thr counts ce sh Q) as (_ & Hq); [| | | |exact H|].
  - intros s c Hs. exact Hs.
  - intros b i _ _ k0 [<-|[]] Hk0. rewrite nonliteral_not_shape in Hk0. discriminate.
  - intros d tys g Hd Hg Hincl k0 Hk0 Hty0. simpl in Hk0. apply Hincl in Hk0.
    destruct Hk0 as [<-|Hk0]; [apply Qtype; assumption|].
    apply in_map_iff in Hk0. destruct Hk0 as (s & <- & Hs). rewrite Forall_forall in Hg.
    apply Qtype; [apply Hg, Hs | exact Hty0].
  - intros inv pd Hpd. apply base_statements_Forall. intros p m k0 cd c n Hp Hm Hc k1 [<-|[]] _.
    exists p, m, cd. split; [|exact Hm]. destruct Hpd as [->| ->]; [left | right]; exact Hp.
  - destruct (Hq st Hst) as (s & Hs & Ht & _). apply Hs; [rewrite <- Ht; exact Hk | exact Hty].
Qed.

Lemma map_err_shex_class_names fa cfg thr counts P shapes :
  map_err (shex_class fa cfg thr counts) P = inl shapes ->
  map sh_name shapes = map (shape_name (x_shapes_ns cfg)) (dkeys P).
Proof.
  revert shapes. induction P as [|ce P IH]; simpl; intros shapes H.
  - inversion H; subst. reflexivity.
  - destruct (shex_class fa cfg thr counts ce) as [sh|e] eqn:E; [|discriminate].
    destruct (map_err _ P) as [shs|e]; [|discriminate]. inversion H; subst. simpl.
    rewrite (IH shs eq_refl). f_equal. rewrite shex_class_eq in E.
    destruct (select_valid _ _ _ _) as [vd|?]; simpl in E; [|discriminate].
    destruct (select_valid _ _ _ _) as [vi|?]; simpl in E; [|discriminate].
    destruct (tune _ _ _ _) as [s|?]; simpl in E; [|discriminate]. inversion E; subst. reflexivity.
Qed.

Theorem shex_classes_refs_closed fa cfg thr counts P shapes :
  profile_refs_closed P -> x_shapes_ns cfg = c_SHAPES_DEFAULT_NAMESPACE ->
  map_err (shex_class fa cfg thr counts) P = inl shapes ->
  refs_closed shapes /\ shapes_wf shapes.
Proof.
  intros Hp Hns H. pose proof (map_err_shex_class_names _ _ _ _ _ _ H) as Hnames.
  apply map_err_Forall2 in H. split.
  - intros sh st k Hsh Hst Hk Hty.
    destruct (Forall2_In_r _ _ _ _ H Hsh) as ([c e] & Hce & Hc).
    pose proof (shex_class_keys _ _ _ _ _ _ _ _ Hc Hst Hk Hty) as Hkey. simpl in Hkey.
    destruct (Hp c e k Hce Hkey Hty) as (c' & Hc' & ->).
    assert (Hin : In (shape_name c_SHAPES_DEFAULT_NAMESPACE c') (map sh_name shapes)).
    { rewrite Hnames, Hns. apply in_map. exact Hc'. }
    apply in_map_iff in Hin. destruct Hin as (sh' & Hn & Hsh'). exists sh'. split; assumption.
  - intros sh st Hsh Hst. destruct (Forall2_In_r _ _ _ _ H Hsh) as (ce & _ & Hc).
    eapply shex_class_wf; eassumption.
Qed.

(** R1 + R2: the shapes [shex] returns, cleaned or not *)
Theorem shex_refs_closed fa cfg thr P C shapes :
  profile_refs_closed P -> x_shapes_ns cfg = c_SHAPES_DEFAULT_NAMESPACE ->
  shex fa cfg thr P C = inl shapes -> refs_closed shapes.
Proof.
  intros Hp Hns. unfold shex.
  destruct (map_err (shex_class fa cfg thr C) P) as [l|e] eqn:E; [|discriminate].
  destruct (shex_classes_refs_closed _ _ _ _ _ _ Hp Hns E) as [Hrc Hwf].
  destruct (x_remove_empty cfg).
  - intros H. eapply clean_shapes_refs_closed; eassumption.
  - intros H; inversion H; subst. exact Hrc.
Qed.

Theorem shex_no_empty fa cfg thr P C shapes :
  x_remove_empty cfg = true -> shex fa cfg thr P C = inl shapes -> no_empty shapes.
Proof.
  intros Hr. unfold shex. rewrite Hr.
  destruct (map_err (shex_class fa cfg thr C) P) as [l|e]; [|discriminate].
  apply clean_shapes_no_empty. lia.
Qed.

(** ** R3: labels *)
Lemma NoDup_map_inj_on {A B} (f : A -> B) l :
  (forall x y, In x l -> In y l -> f x = f y -> x = y) -> NoDup l -> NoDup (map f l).
Proof.
  intros Hinj Hnd. induction Hnd as [|x l Hx Hnd IH]; simpl; [constructor|].
  constructor.
  - intros Hin. apply in_map_iff in Hin. destruct Hin as (y & Hxy & Hy).
    assert (y = x) by (apply Hinj; [right; exact Hy | left; reflexivity | exact Hxy]). subst. contradiction.
  - apply IH. intros a b Ha Hb. apply Hinj; right; assumption.
Qed.

Lemma NoDup_map_filter {A B} (f : A -> B) (p : A -> bool) l :
  NoDup (map f l) -> NoDup (map f (filter p l)).
Proof.
  induction l as [|x l IH]; simpl; intros H; [constructor|].
  inversion H as [|? ? Hx Hnd]; subst. destruct (p x); simpl; [|apply IH; exact Hnd].
  constructor; [|apply IH; exact Hnd].
  intros Hin. apply Hx. apply in_map_iff in Hin. destruct Hin as (y & Hy & Hin).
  apply filter_In in Hin. apply in_map_iff. exists y. split; [exact Hy | apply Hin].
Qed.

Lemma clean_step_names names l l' :
  clean_step names l = inl l' ->
  map sh_name l' = map sh_name (filter (fun s => negb (mem_str (sh_name s) names)) l).
Proof.
  unfold clean_step. generalize (filter (fun s => negb (mem_str (sh_name s) names)) l). intros L H.
  apply map_err_Forall2 in H. induction H as [|a b L l' Hab F IH]; simpl; [reflexivity|].
  apply prune_shape_inl in Hab. destruct Hab as (_ & -> & _). rewrite IH. reflexivity.
Qed.

Lemma clean_shapes_NoDup fuel : forall l r,
  NoDup (map sh_name l) -> clean_shapes fuel l = inl r -> NoDup (map sh_name r).
Proof.
  induction fuel as [|f IH]; intros l r Hnd H.
  - simpl in H. inversion H; subst. exact Hnd.
  - rewrite clean_shapes_S in H. destruct (empty_names l) as [|nm names].
    + inversion H; subst. exact Hnd.
    + destruct (clean_step (nm :: names) l) as [l'|e] eqn:Es; [|discriminate].
      eapply IH; [|exact H]. rewrite (clean_step_names _ _ _ Es). apply NoDup_map_filter. exact Hnd.
Qed.

Theorem shex_labels_NoDup fa cfg thr P C shapes :
  NoDup (dkeys P) ->
  (forall c1 c2, In c1 (dkeys P) -> In c2 (dkeys P) ->
                 shape_name (x_shapes_ns cfg) c1 = shape_name (x_shapes_ns cfg) c2 -> c1 = c2) ->
  shex fa cfg thr P C = inl shapes -> NoDup (map sh_name shapes).
Proof.
  intros Hnd Hinj. unfold shex.
  destruct (map_err (shex_class fa cfg thr C) P) as [l|e] eqn:E; [|discriminate].
  assert (Hl : NoDup (map sh_name l)).
  { rewrite (map_err_shex_class_names _ _ _ _ _ _ E). apply NoDup_map_inj_on; assumption. }
  destruct (x_remove_empty cfg).
  - apply clean_shapes_NoDup. exact Hl.
  - intros H; inversion H; subst. exact Hl.
Qed.

(** ** boolean checkers (for the concrete witnesses of Props/C05refs.v) *)
Definition refs_closedb (l : list shape) : bool :=
  forallb (fun sh => forallb (fun st => forallb (fun k => negb (is_shape_type k) || mem_str k (map sh_name l))
                                                (s_types st)) (sh_stmts sh)) l.

Lemma refs_closedb_spec l : refs_closedb l = true <-> refs_closed l.
Proof.
  unfold refs_closedb, refs_closed. rewrite forallb_forall. split.
  - intros H sh st k Hsh Hst Hk Hty. specialize (H sh Hsh). rewrite forallb_forall in H.
    specialize (H st Hst). rewrite forallb_forall in H. specialize (H k Hk).
    rewrite Hty in H. simpl in H. apply mem_str_In in H. apply in_map_iff in H.
    destruct H as (sh' & Hn & Hin). exists sh'. split; assumption.
  - intros H sh Hsh. rewrite forallb_forall. intros st Hst. rewrite forallb_forall. intros k Hk.
    destruct (is_shape_type k) eqn:Hty; [|reflexivity]. simpl.
    destruct (H sh st k Hsh Hst Hk Hty) as (sh' & Hin & Hn). apply mem_str_In.
    apply in_map_iff. exists sh'. split; assumption.
Qed.

Definition pdict_keys_ok (names : list str) (pd : pdict) : bool :=
  forallb (fun pe : str * dict cdict =>
             forallb (fun ke : str * cdict => negb (is_shape_type (fst ke)) || mem_str (fst ke) names) (snd pe)) pd.

Definition profile_refs_closedb (P : cprofile) : bool :=
  let names := map (shape_name c_SHAPES_DEFAULT_NAMESPACE) (dkeys P) in
  forallb (fun ce : str * centry => pdict_keys_ok names (c_direct (snd ce)) && pdict_keys_ok names (c_inverse (snd ce))) P.

Lemma profile_refs_closedb_sound P : profile_refs_closedb P = true -> profile_refs_closed P.
Proof.
  unfold profile_refs_closedb, profile_refs_closed. rewrite forallb_forall.
  intros H c e k Hce (p & m & cd & Hpm & Hk) Hty.
  specialize (H (c, e) Hce). simpl in H. apply andb_true_iff in H. destruct H as [Hd Hi].
  assert (Hok : forall pd, pdict_keys_ok (map (shape_name c_SHAPES_DEFAULT_NAMESPACE) (dkeys P)) pd = true ->
                           In (p, m) pd -> exists c', In c' (dkeys P) /\ k = shape_name c_SHAPES_DEFAULT_NAMESPACE c').
  { intros pd Hpd Hin. unfold pdict_keys_ok in Hpd. rewrite forallb_forall in Hpd.
    specialize (Hpd (p, m) Hin). simpl in Hpd. rewrite forallb_forall in Hpd.
    specialize (Hpd (k, cd) Hk). simpl in Hpd. rewrite Hty in Hpd. simpl in Hpd.
    apply mem_str_In in Hpd. apply in_map_iff in Hpd. destruct Hpd as (c' & Hn & Hc').
    exists c'. split; [exact Hc' | symmetry; exact Hn]. }
  destruct Hpm as [Hpm|Hpm]; [apply (Hok _ Hd Hpm) | apply (Hok _ Hi Hpm)].
Qed.
