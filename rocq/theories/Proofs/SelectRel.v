(** * Relational parametricity of the selection and tuning stages.

    Two runs whose statements agree on everything the code inspects
    (property, types, choice flag, cardinality, figures) — the direction flags
    related by [Ri], the comments by [Rk] — under two configurations that may
    differ in the namespaces only, produce related results and fail together.
    Instances: direction flipped (C14, I2), comment tokens rendered with
    another namespace dictionary (C13, O6). *)
From Coq Require Import List Ascii String ZArith NArith Bool Lia Permutation.
From Shexer Require Import Lib.PyStr Lib.Dict Gen.Consts Model.Profiler Model.Tokens Model.Freq Model.Shexing.
From Shexer Require Import Proofs.ShexBasics.
Import ListNotations.

Definition option_rel {A B} (R : A -> B -> Prop) (x : option A) (y : option B) : Prop :=
  match x, y with
  | Some a, Some b => R a b
  | None, None => True
  | _, _ => False
  end.

Lemma Forall2_rev' {A B} (R : A -> B -> Prop) l1 l2 : Forall2 R l1 l2 -> Forall2 R (rev l1) (rev l2).
Proof.
  intros F. induction F as [|a b l1 l2 Hab F IH]; simpl; [constructor|].
  apply Forall2_app; [exact IH | constructor; [exact Hab | constructor]].
Qed.

Lemma find_rel {A B} (R : A -> B -> Prop) (p : A -> bool) (q : B -> bool) l1 l2 :
  (forall a b, R a b -> p a = q b) -> Forall2 R l1 l2 -> option_rel R (List.find p l1) (List.find q l2).
Proof.
  intros H F. induction F as [|a b l1 l2 Hab F IH]; simpl; [exact I|].
  rewrite (H _ _ Hab). destruct (q b); [exact Hab | exact IH].
Qed.

(** the configuration fields read by selection and tuning, namespaces excepted *)
Definition cfg_agree (c1 c2 : scfg) : Prop :=
  x_tau c1 = x_tau c2 /\ x_discard_useless c1 = x_discard_useless c2 /\
  x_keep_less_specific c1 = x_keep_less_specific c2 /\ x_disable_or c1 = x_disable_or c2 /\
  x_allow_redundant_or c1 = x_allow_redundant_or c2 /\ x_all_compliant c1 = x_all_compliant c2 /\
  x_allow_opt c1 = x_allow_opt c2 /\ x_disable_exact c1 = x_disable_exact c2 /\
  x_disable_comments c1 = x_disable_comments c2.

Section Rel.
  Variable fa : FreqAlg.
  Variables c1 c2 : scfg.
  Variable Ri : bool -> bool -> Prop.
  Variable Rk : comment -> comment -> Prop.

  Record stmt_rel (a b : stmt) : Prop := {
    r_inv : Ri (s_inv a) (s_inv b);
    r_prop : s_prop a = s_prop b;
    r_types : s_types a = s_types b;
    r_choice : s_choice a = s_choice b;
    r_card : s_card a = s_card b;
    r_nocc : s_nocc a = s_nocc b;
    r_prob : s_prob a = s_prob b;
    r_comments : Forall2 Rk (s_comments a) (s_comments b)
  }.

  Hypothesis Hcfg : cfg_agree c1 c2.
  Hypothesis Hcom : forall a b, stmt_rel a b -> res_rel Rk (comment_of c1 a) (comment_of c2 b).

  Notation R := stmt_rel.

  Lemma r_type a b : R a b -> s_type a = s_type b.
  Proof. intros H. unfold s_type. rewrite (r_types _ _ H). reflexivity. Qed.

  Lemma r_pv cnt a b : R a b -> pv fa cnt a = pv fa cnt b.
  Proof. intros H. unfold pv. rewrite (r_prob _ _ H). reflexivity. Qed.

  (** *** sort *)
  Lemma insert_desc_rel cnt x y l1 l2 :
    R x y -> Forall2 R l1 l2 -> Forall2 R (insert_desc fa cnt x l1) (insert_desc fa cnt y l2).
  Proof.
    intros Hxy F. induction F as [|a b l1 l2 Hab F IH]; simpl.
    - constructor; [exact Hxy | constructor].
    - rewrite (r_pv cnt x y Hxy), (r_pv cnt a b Hab).
      destruct (fle fa (pv fa cnt y) (pv fa cnt b)).
      + constructor; assumption.
      + constructor; [exact Hxy|]. constructor; assumption.
  Qed.

  Lemma sort_desc_rel cnt l1 l2 :
    Forall2 R l1 l2 -> Forall2 R (sort_desc fa cnt l1) (sort_desc fa cnt l2).
  Proof.
    unfold sort_desc. intros F.
    assert (H : forall acc1 acc2, Forall2 R acc1 acc2 ->
                Forall2 R (fold_left (fun a x => insert_desc fa cnt x a) l1 acc1)
                          (fold_left (fun a x => insert_desc fa cnt x a) l2 acc2)).
    { induction F as [|a b l1 l2 Hab F IH]; simpl; intros acc1 acc2 Ha; [exact Ha|].
      apply IH. apply insert_desc_rel; assumption. }
    apply H. constructor.
  Qed.

  (** *** comments *)
  Lemma add_comment_rel a b k1 k2 : R a b -> Rk k1 k2 -> R (add_comment a k1) (add_comment b k2).
  Proof.
    intros [Hi Hp Ht Hc Hk Hn Hpr Hcm] Hkk. constructor; simpl; try assumption.
    apply Forall2_app; [exact Hcm | constructor; [exact Hkk | constructor]].
  Qed.

  Lemma add_comments_of_rel l1 l2 : Forall2 R l1 l2 -> forall d1 d2, R d1 d2 ->
    res_rel R (add_comments_of c1 d1 l1) (add_comments_of c2 d2 l2).
  Proof.
    intros F. induction F as [|a b l1 l2 Hab F IH]; simpl; intros d1 d2 Hd; [exact Hd|].
    pose proof (Hcom a b Hab) as Hk.
    destruct (comment_of c1 a) as [k1|e1], (comment_of c2 b) as [k2|e2]; simpl in Hk; try contradiction.
    - apply IH. apply add_comment_rel; assumption.
    - exact Hk.
  Qed.

  (** *** first merge *)
  Lemma count_plus_rel g1 g2 : Forall2 R g1 g2 -> count_plus g1 = count_plus g2.
  Proof.
    intros F. unfold count_plus. apply (Forall2_len R).
    apply Forall2_filter; [|exact F]. intros a b H. rewrite (r_card _ _ H). reflexivity.
  Qed.

  Lemma useless_plus_group_rel cnt g1 g2 :
    Forall2 R g1 g2 -> useless_plus_group fa cnt g1 = useless_plus_group fa cnt g2.
  Proof.
    intros F. pose proof (count_plus_rel g1 g2 F) as Hc. unfold useless_plus_group.
    destruct F as [|a b l1 l2 Hab F]; [reflexivity|].
    destruct F as [|a' b' l1 l2 Hab' F]; [reflexivity|].
    destruct F as [|a'' b'' l1 l2 Hab'' F]; [|reflexivity].
    rewrite (r_pv cnt a b Hab), (r_pv cnt a' b' Hab'), Hc. reflexivity.
  Qed.

  Lemma res_of_option_rel (x : option stmt) (y : option stmt) :
    option_rel R x y ->
    res_rel R (match x with Some s => inl s | None => inr SEValue end)
              (match y with Some s => inl s | None => inr SEValue end).
  Proof. destruct x, y; simpl; intros H; try contradiction; [exact H | reflexivity]. Qed.

  Lemma decide_best_rel cnt g1 g2 :
    Forall2 R g1 g2 -> res_rel R (decide_best fa c1 cnt g1) (decide_best fa c2 cnt g2).
  Proof.
    intros F. unfold decide_best. destruct Hcfg as (_ & Hdu & Hkl & _).
    rewrite Hdu, Hkl, (useless_plus_group_rel cnt g1 g2 F).
    destruct (x_discard_useless c2 && useless_plus_group fa cnt g2).
    - apply res_of_option_rel. unfold first_such. apply find_rel; [|exact F].
      intros a b H. rewrite (r_card _ _ H). reflexivity.
    - pose proof (sort_desc_rel cnt g1 g2 F) as Fs.
      set (gs1 := sort_desc fa cnt g1) in *. set (gs2 := sort_desc fa cnt g2) in *.
      assert (Hpick : option_rel R
                (match (if x_keep_less_specific c2
                        then first_such (fun s => is_plus (s_card s)) gs1
                        else first_such (fun s => negb (is_plus (s_card s))) gs1) with
                 | Some s => Some s | None => hd_error gs1 end)
                (match (if x_keep_less_specific c2
                        then first_such (fun s => is_plus (s_card s)) gs2
                        else first_such (fun s => negb (is_plus (s_card s))) gs2) with
                 | Some s => Some s | None => hd_error gs2 end)).
      { assert (Hhd : option_rel R (hd_error gs1) (hd_error gs2)).
        { destruct Fs; simpl; [exact I | assumption]. }
        unfold first_such. destruct (x_keep_less_specific c2).
        - pose proof (find_rel R (fun s => is_plus (s_card s)) (fun s => is_plus (s_card s)) gs1 gs2
                        (fun a b H => f_equal is_plus (r_card _ _ H)) Fs) as Hf.
          destruct (List.find _ gs1), (List.find _ gs2); simpl in Hf; try contradiction; [exact Hf | exact Hhd].
        - pose proof (find_rel R (fun s => negb (is_plus (s_card s))) (fun s => negb (is_plus (s_card s))) gs1 gs2
                        (fun a b H => f_equal (fun c => negb (is_plus c)) (r_card _ _ H)) Fs) as Hf.
          destruct (List.find _ gs1), (List.find _ gs2); simpl in Hf; try contradiction; [exact Hf | exact Hhd]. }
      destruct (match (if x_keep_less_specific c2 then _ else _) with Some s => Some s | None => hd_error gs1 end) as [r1|];
      destruct (match (if x_keep_less_specific c2 then _ else _) with Some s => Some s | None => hd_error gs2 end) as [r2|];
        simpl in Hpick; try contradiction; [|reflexivity].
      apply add_comments_of_rel; [|exact Hpick].
      apply Forall2_filter; [|exact Fs]. intros a b H.
      rewrite (r_card _ _ H), (r_card _ _ Hpick). reflexivity.
  Qed.

  Lemma same_tokens_rel a1 a2 b1 b2 : R a1 a2 -> R b1 b2 -> same_tokens a1 b1 = same_tokens a2 b2.
  Proof.
    intros Ha Hb. unfold same_tokens.
    rewrite (r_prop _ _ Ha), (r_prop _ _ Hb), (r_type _ _ Ha), (r_type _ _ Hb). reflexivity.
  Qed.

  Lemma group_same_rel cnt fuel : forall l1 l2,
    Forall2 R l1 l2 -> res_rel (Forall2 R) (group_same fa c1 fuel cnt l1) (group_same fa c2 fuel cnt l2).
  Proof.
    induction fuel as [|f IH]; simpl; intros l1 l2 F; [exact F|].
    destruct F as [|a1 a2 r1 r2 Ha F]; [constructor|].
    assert (Fg : Forall2 R (filter (same_tokens a1) r1) (filter (same_tokens a2) r2)).
    { apply Forall2_filter; [|exact F]. intros x y H. apply same_tokens_rel; assumption. }
    assert (Fo : Forall2 R (filter (fun b => negb (same_tokens a1 b)) r1) (filter (fun b => negb (same_tokens a2 b)) r2)).
    { apply Forall2_filter; [|exact F]. intros x y H. rewrite (same_tokens_rel a1 a2 x y Ha H). reflexivity. }
    assert (Hr : res_rel R
              (match filter (same_tokens a1) r1 with [] => inl a1 | _ => decide_best fa c1 cnt (a1 :: filter (same_tokens a1) r1) end)
              (match filter (same_tokens a2) r2 with [] => inl a2 | _ => decide_best fa c2 cnt (a2 :: filter (same_tokens a2) r2) end)).
    { pose proof (decide_best_rel cnt _ _ (Forall2_cons _ _ Ha Fg)) as Hd.
      destruct Fg; [exact Ha | exact Hd]. }
    destruct (match filter (same_tokens a1) r1 with [] => inl a1 | _ => _ end) as [x1|e1];
    destruct (match filter (same_tokens a2) r2 with [] => inl a2 | _ => _ end) as [x2|e2];
      simpl in Hr; try contradiction; [|exact Hr].
    specialize (IH _ _ Fo).
    destruct (group_same fa c1 f cnt _) as [rs1|e1], (group_same fa c2 f cnt _) as [rs2|e2];
      simpl in IH; try contradiction; simpl; [constructor; assumption | exact IH].
  Qed.

  (** *** second merge *)
  Lemma last_such_rel (p q : stmt -> bool) g1 g2 :
    (forall a b, R a b -> p a = q b) -> Forall2 R g1 g2 -> option_rel R (last_such p g1) (last_such q g2).
  Proof. intros H F. unfold last_such. apply find_rel; [exact H | apply Forall2_rev'; exact F]. Qed.

  Lemma mg_shapes_rel cnt g1 g2 : Forall2 R g1 g2 -> Forall2 R (mg_shapes fa cnt g1) (mg_shapes fa cnt g2).
  Proof.
    intros F. unfold mg_shapes. apply sort_desc_rel. apply Forall2_filter; [|exact F].
    intros a b H. rewrite (r_type _ _ H). reflexivity.
  Qed.

  Lemma mg_nonlit_rel b1 b2 i1 i2 : R b1 b2 -> R i1 i2 -> R (mg_nonlit b1 i1) (mg_nonlit b2 i2).
  Proof.
    intros [Hi Hp Ht Hc Hk Hn Hpr Hcm] [Hi' Hp' Ht' Hc' Hk' Hn' Hpr' Hcm'].
    constructor; simpl; try assumption; try reflexivity.
    - rewrite Hk, Hk'. reflexivity.
    - rewrite Hn, Hn'. reflexivity.
    - rewrite Hpr, Hpr', Hn, Hn'. reflexivity.
    - constructor.
  Qed.

  Lemma mg_dominant_rel b1 b2 i1 i2 sh1 sh2 :
    option_rel R b1 b2 -> option_rel R i1 i2 -> Forall2 R sh1 sh2 ->
    res_rel R (mg_dominant b1 i1 sh1) (mg_dominant b2 i2 sh2).
  Proof.
    intros Hb Hi Fs. unfold mg_dominant.
    destruct b1 as [b1|], b2 as [b2|]; simpl in Hb; try contradiction;
    destruct i1 as [i1|], i2 as [i2|]; simpl in Hi; try contradiction.
    - destruct Fs as [|s1 s2 t1 t2 Hs Ft]; [apply mg_nonlit_rel; assumption|].
      destruct Ft as [|? ? ? ? _ _]; [|apply mg_nonlit_rel; assumption].
      rewrite (r_nocc _ _ Hi), (r_nocc _ _ Hb), (r_nocc _ _ Hs).
      destruct (N.eqb _ _); [exact Hs | apply mg_nonlit_rel; assumption].
    - destruct Fs as [|s1 s2 t1 t2 Hs Ft]; [exact Hb|].
      rewrite (r_nocc _ _ Hb), (r_nocc _ _ Hs). destruct (N.eqb _ _); assumption.
    - destruct Fs as [|s1 s2 t1 t2 Hs Ft]; [exact Hi|].
      rewrite (r_nocc _ _ Hi), (r_nocc _ _ Hs). destruct (N.ltb _ _); assumption.
    - destruct Fs as [|s1 s2 t1 t2 Hs Ft]; [reflexivity | exact Hs].
  Qed.

  Lemma same_obj_rel a1 a2 b1 b2 : R a1 a2 -> R b1 b2 -> same_obj a1 b1 = same_obj a2 b2.
  Proof.
    intros Ha Hb. unfold same_obj.
    rewrite (r_choice _ _ Ha), (r_choice _ _ Hb), (r_type _ _ Ha), (r_type _ _ Hb). reflexivity.
  Qed.

  Lemma map_s_type_rel l1 l2 : Forall2 R l1 l2 -> map s_type l1 = map s_type l2.
  Proof.
    intros F. induction F as [|a b l1 l2 Hab F IH]; simpl; [reflexivity|].
    rewrite (r_type _ _ Hab), IH. reflexivity.
  Qed.

  Lemma mg_or_types_rel d1 d2 sh1 sh2 :
    R d1 d2 -> Forall2 R sh1 sh2 -> mg_or_types c1 d1 sh1 = mg_or_types c2 d2 sh2.
  Proof.
    intros Hd Fs. unfold mg_or_types. destruct Hcfg as (_ & _ & _ & _ & Hro & _).
    rewrite Hro, (map_s_type_rel _ _ Fs), (r_type _ _ Hd).
    rewrite (Forall2_existsb R (same_obj d1) (same_obj d2) sh1 sh2
               (fun a b H => same_obj_rel d1 d2 a b Hd H) Fs). reflexivity.
  Qed.

  Lemma mg_choice_rel d1 d2 tys : R d1 d2 -> R (mg_choice d1 tys) (mg_choice d2 tys).
  Proof.
    intros [Hi Hp Ht Hc Hk Hn Hpr Hcm]. constructor; simpl; try assumption; try reflexivity. constructor.
  Qed.

  Lemma mg_dom1_rel d1 d2 sh1 sh2 :
    R d1 d2 -> Forall2 R sh1 sh2 -> R (mg_dom1 c1 d1 sh1) (mg_dom1 c2 d2 sh2).
  Proof.
    intros Hd Fs. unfold mg_dom1. destruct Hcfg as (_ & _ & _ & Hdo & _).
    rewrite Hdo, (mg_or_types_rel d1 d2 sh1 sh2 Hd Fs).
    destruct (x_disable_or c2); [exact Hd|].
    destruct (Nat.ltb 1 _); [apply mg_choice_rel|]; exact Hd.
  Qed.

  Lemma mg_first_rel b1 b2 i1 i2 :
    option_rel R b1 b2 -> option_rel R i1 i2 -> Forall2 R (mg_first b1 i1) (mg_first b2 i2).
  Proof.
    intros Hb Hi. unfold mg_first.
    destruct b1, b2; simpl in Hb; try contradiction; [|constructor].
    destruct i1, i2; simpl in Hi; try contradiction.
    - constructor; [exact Hb|]. constructor; [exact Hi | constructor].
    - constructor; [exact Hb | constructor].
  Qed.

  Lemma merge_group_rel cnt g1 g2 :
    Forall2 R g1 g2 -> res_rel R (merge_group fa c1 cnt g1) (merge_group fa c2 cnt g2).
  Proof.
    intros F. rewrite !merge_group_eq.
    assert (Hb : option_rel R (mg_bnode g1) (mg_bnode g2)).
    { apply last_such_rel; [|exact F]. intros a b H. rewrite (r_type _ _ H). reflexivity. }
    assert (Hi : option_rel R (mg_iri g1) (mg_iri g2)).
    { apply last_such_rel; [|exact F]. intros a b H. rewrite (r_type _ _ H). reflexivity. }
    pose proof (mg_shapes_rel cnt g1 g2 F) as Fs.
    pose proof (mg_dominant_rel _ _ _ _ _ _ Hb Hi Fs) as Hd.
    destruct (mg_dominant (mg_bnode g1) _ _) as [d1|e1], (mg_dominant (mg_bnode g2) _ _) as [d2|e2];
      simpl in Hd; try contradiction; [|exact Hd].
    pose proof (mg_dom1_rel d1 d2 _ _ Hd Fs) as Hd1.
    apply add_comments_of_rel; [|exact Hd1].
    apply Forall2_app; [apply mg_first_rel; assumption|].
    apply Forall2_filter; [|exact Fs]. intros a b H.
    rewrite (same_obj_rel _ _ a b Hd1 H). reflexivity.
  Qed.

  Lemma mergeable_with_rel a1 a2 b1 b2 : R a1 a2 -> R b1 b2 -> mergeable_with a1 b1 = mergeable_with a2 b2.
  Proof.
    intros Ha Hb. unfold mergeable_with.
    rewrite (r_prop _ _ Ha), (r_prop _ _ Hb), (r_type _ _ Hb). reflexivity.
  Qed.

  Lemma group_nodes_rel cnt fuel : forall l1 l2,
    Forall2 R l1 l2 -> res_rel (Forall2 R) (group_nodes fa c1 fuel cnt l1) (group_nodes fa c2 fuel cnt l2).
  Proof.
    induction fuel as [|f IH]; simpl; intros l1 l2 F; [exact F|].
    destruct F as [|a1 a2 r1 r2 Ha F]; [constructor|].
    destruct Hcfg as (Htau & _).
    rewrite Htau, (r_prop _ _ Ha), (r_type _ _ Ha).
    destruct (str_eqb (s_prop a2) (x_tau c2) || negb (is_nonliteral_type (s_type a2))).
    - specialize (IH _ _ F).
      destruct (group_nodes fa c1 f cnt r1) as [rs1|e1], (group_nodes fa c2 f cnt r2) as [rs2|e2];
        simpl in IH; try contradiction; simpl; [constructor; assumption | exact IH].
    - assert (Fg : Forall2 R (filter (mergeable_with a1) r1) (filter (mergeable_with a2) r2)).
      { apply Forall2_filter; [|exact F]. intros x y H. apply mergeable_with_rel; assumption. }
      assert (Fo : Forall2 R (filter (fun b => negb (mergeable_with a1 b)) r1)
                             (filter (fun b => negb (mergeable_with a2 b)) r2)).
      { apply Forall2_filter; [|exact F]. intros x y H. rewrite (mergeable_with_rel a1 a2 x y Ha H). reflexivity. }
      assert (Hr : res_rel R
                (match filter (mergeable_with a1) r1 with [] => inl a1 | _ => merge_group fa c1 cnt (a1 :: filter (mergeable_with a1) r1) end)
                (match filter (mergeable_with a2) r2 with [] => inl a2 | _ => merge_group fa c2 cnt (a2 :: filter (mergeable_with a2) r2) end)).
      { pose proof (merge_group_rel cnt _ _ (Forall2_cons _ _ Ha Fg)) as Hd.
        destruct Fg; [exact Ha | exact Hd]. }
      destruct (match filter (mergeable_with a1) r1 with [] => inl a1 | _ => _ end) as [x1|e1];
      destruct (match filter (mergeable_with a2) r2 with [] => inl a2 | _ => _ end) as [x2|e2];
        simpl in Hr; try contradiction; [|exact Hr].
      specialize (IH _ _ Fo).
      destruct (group_nodes fa c1 f cnt _) as [rs1|e1], (group_nodes fa c2 f cnt _) as [rs2|e2];
        simpl in IH; try contradiction; simpl; [constructor; assumption | exact IH].
  Qed.

  Theorem select_valid_rel cnt l1 l2 :
    Forall2 R l1 l2 -> res_rel (Forall2 R) (select_valid fa c1 cnt l1) (select_valid fa c2 cnt l2).
  Proof.
    intros F. unfold select_valid. rewrite (Forall2_len R l1 l2 F).
    pose proof (group_same_rel cnt (List.length l2) l1 l2 F) as H1.
    destruct F as [|a b l1 l2 Hab F]; [constructor|].
    destruct (group_same fa c1 _ cnt (a :: l1)) as [m1|e1], (group_same fa c2 _ cnt (b :: l2)) as [m2|e2];
      simpl in H1; try contradiction; [|exact H1].
    rewrite (Forall2_len R m1 m2 H1). apply group_nodes_rel. exact H1.
  Qed.

  (** *** tuning *)
  Lemma relax_rel cnt a b : R a b -> res_rel R (relax fa c1 cnt a) (relax fa c2 cnt b).
  Proof.
    intros H. unfold relax. rewrite (r_pv cnt a b H).
    destruct (negb (feqb fa (pv fa cnt b) (fone fa))); [|exact H].
    pose proof (Hcom a b H) as Hk.
    destruct (comment_of c1 a) as [k1|e1], (comment_of c2 b) as [k2|e2]; simpl in Hk; try contradiction; [|exact Hk].
    simpl. destruct Hcfg as (_ & _ & _ & _ & _ & _ & Hao & _).
    destruct H as [Hi Hp Ht Hc Hkd Hn Hpr Hcm]. constructor; simpl; try assumption; try reflexivity.
    - unfold relax_card. rewrite Hao, Hkd. reflexivity.
    - constructor; assumption.
  Qed.

  Lemma map_err_rel {A B} (RR : A -> B -> Prop) (f : A -> A + serr) (g : B -> B + serr) l1 l2 :
    (forall a b, RR a b -> res_rel RR (f a) (g b)) -> Forall2 RR l1 l2 ->
    res_rel (Forall2 RR) (map_err f l1) (map_err g l2).
  Proof.
    intros H F. induction F as [|a b l1 l2 Hab F IH]; simpl; [constructor|].
    pose proof (H a b Hab) as Hfg.
    destruct (f a) as [x|e1], (g b) as [y|e2]; simpl in Hfg; try contradiction; [|exact Hfg].
    destruct (map_err f l1) as [xs|e1], (map_err g l2) as [ys|e2]; simpl in IH; try contradiction; simpl;
      [constructor; assumption | exact IH].
  Qed.

  Lemma generalize_exact_rel a b : R a b -> R (generalize_exact a) (generalize_exact b).
  Proof.
    intros H. unfold generalize_exact. rewrite (r_card _ _ H).
    destruct (s_card b) as [k| | |]; try exact H. destruct (N.ltb 1 k); [|exact H].
    destruct H as [Hi Hp Ht Hc Hkd Hn Hpr Hcm]. constructor; simpl; try assumption; reflexivity.
  Qed.

  Lemma drop_comments_rel a b : R a b -> R (drop_comments a) (drop_comments b).
  Proof.
    intros [Hi Hp Ht Hc Hkd Hn Hpr Hcm]. constructor; simpl; try assumption. constructor.
  Qed.

  Lemma post1_rel a b : R a b -> R (post1 c1 a) (post1 c2 b).
  Proof.
    intros H. unfold post1. destruct Hcfg as (_ & _ & _ & _ & _ & _ & _ & Hde & Hdc).
    rewrite Hde, Hdc. destruct (x_disable_exact c2), (x_disable_comments c2);
      repeat first [apply drop_comments_rel | apply generalize_exact_rel]; exact H.
  Qed.

  Theorem tune_rel cnt v1 v2 :
    Forall2 R v1 v2 -> res_rel (Forall2 R) (tune fa c1 cnt v1) (tune fa c2 cnt v2).
  Proof.
    intros F. rewrite !tune_eq. pose proof (sort_desc_rel cnt v1 v2 F) as Fs.
    assert (Hr : res_rel (Forall2 R) (relax_phase fa c1 cnt (sort_desc fa cnt v1))
                                     (relax_phase fa c2 cnt (sort_desc fa cnt v2))).
    { unfold relax_phase. destruct Hcfg as (_ & _ & _ & _ & _ & Hac & _). rewrite Hac.
      destruct (x_all_compliant c2); [|exact Fs].
      apply map_err_rel; [|exact Fs]. intros a b. apply relax_rel. }
    destruct (relax_phase fa c1 cnt _) as [l1|e1], (relax_phase fa c2 cnt _) as [l2|e2];
      simpl in Hr; try contradiction; simpl; [|exact Hr].
    induction Hr as [|a b l1 l2 Hab Hr IH]; simpl; constructor; [apply post1_rel; exact Hab | exact IH].
  Qed.
End Rel.
