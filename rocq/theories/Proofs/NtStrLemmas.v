(** * Facts about [Lib.PyStr] searches and slices used by the N-Triples proofs. *)
From Coq Require Import List Ascii String ZArith Bool Lia Arith.
From Shexer Require Import Lib.PyStr.
Import ListNotations.
Local Open Scope Z_scope.

Lemma len_app a b : len (a ++ b) = len a + len b.
Proof. unfold len. rewrite app_length. lia. Qed.

Lemma len_cons c a : len (c :: a) = 1 + len a.
Proof. unfold len. cbn [List.length]. lia. Qed.

Lemma len_nil : len [] = 0.
Proof. reflexivity. Qed.

Lemma len_nonneg a : 0 <= len a.
Proof. unfold len. lia. Qed.

Lemma norm_idx_in n i : 0 <= i <= n -> norm_idx n i = i.
Proof. intros H. unfold norm_idx. destruct (i <? 0) eqn:E; [lia | lia]. Qed.

Lemma skipn_app_len {A} (a b : list A) : skipn (List.length a) (a ++ b) = b.
Proof. induction a; cbn; auto. Qed.

Lemma firstn_app_len {A} (a b : list A) : firstn (List.length a) (a ++ b) = a.
Proof. induction a; cbn; [destruct b; reflexivity | f_equal; auto]. Qed.

Lemma slice_from_app a b : slice_from (a ++ b) (len a) = b.
Proof.
  unfold slice_from. rewrite norm_idx_in.
  - unfold len. rewrite Nat2Z.id. apply skipn_app_len.
  - rewrite len_app. pose proof (len_nonneg a). pose proof (len_nonneg b). lia.
Qed.

Lemma slice_from_0 s : slice_from s 0 = s.
Proof. unfold slice_from. rewrite norm_idx_in; [reflexivity | pose proof (len_nonneg s); lia]. Qed.

Lemma slice_app_mid a b c : slice (a ++ b ++ c) (len a) (len a + len b) = b.
Proof.
  unfold slice. pose proof (len_nonneg a). pose proof (len_nonneg b). pose proof (len_nonneg c).
  rewrite !norm_idx_in by (rewrite !len_app; lia).
  replace (len a + len b - len a) with (len b) by lia.
  unfold len. rewrite !Nat2Z.id. rewrite skipn_app_len. apply firstn_app_len.
Qed.

Lemma at_idx_app a c b : at_idx (a ++ c :: b) (len a) = Some c.
Proof.
  unfold at_idx. pose proof (len_nonneg a). pose proof (len_nonneg b).
  destruct (len a <? 0) eqn:E; [lia|].
  rewrite len_app, len_cons.
  destruct ((len a <? 0) || (len a + (1 + len b) <=? len a)) eqn:E2.
  - apply orb_true_iff in E2. destruct E2; lia.
  - unfold len. rewrite Nat2Z.id. rewrite nth_error_app2 by lia. rewrite Nat.sub_diag. reflexivity.
Qed.

(** ** [prefixb], [find_nat] *)
Lemma prefixb_app_l p a b : prefixb p a = true -> prefixb p (a ++ b) = true.
Proof.
  revert a; induction p as [|x p IH]; intros a H; [reflexivity|].
  destruct a as [|y a]; [discriminate|]. cbn in *. apply andb_true_iff in H. destruct H as [H1 H2].
  rewrite H1. cbn. auto.
Qed.

Lemma prefixb_app_short p a b :
  prefixb p (a ++ b) = true -> (List.length p <= List.length a)%nat -> prefixb p a = true.
Proof.
  revert a; induction p as [|x p IH]; intros a H L; [reflexivity|].
  destruct a as [|y a]; [cbn in L; lia|]. cbn in *. apply andb_true_iff in H. destruct H as [H1 H2].
  rewrite H1. cbn. apply IH; [exact H2 | lia].
Qed.

Lemma prefixb_length p s : prefixb p s = true -> (List.length p <= List.length s)%nat.
Proof.
  revert s; induction p as [|x p IH]; intros s H; [cbn; lia|].
  destruct s as [|y s]; [discriminate|]. cbn in *. apply andb_true_iff in H. destruct H as [_ H].
  apply IH in H. lia.
Qed.

Lemma find_nat_bound p s n : find_nat p s = Some n -> (n + List.length p <= List.length s)%nat.
Proof.
  revert n; induction s as [|c s IH]; intros n H; cbn in H.
  - destruct (prefixb p []) eqn:E; [|discriminate]. inversion H; subst. apply prefixb_length in E. lia.
  - destruct (prefixb p (c :: s)) eqn:E.
    + inversion H; subst. apply prefixb_length in E. lia.
    + destruct (find_nat p s) eqn:F; [|discriminate]. inversion H; subst.
      specialize (IH _ eq_refl). cbn. lia.
Qed.

Lemma find_nat_app_found p a b n : find_nat p a = Some n -> find_nat p (a ++ b) = Some n.
Proof.
  revert n; induction a as [|c a IH]; intros n H.
  - cbn in H. destruct (prefixb p []) eqn:E; [|discriminate]. inversion H; subst.
    destruct p; [|discriminate]. destruct b; reflexivity.
  - cbn in H. cbn [app find_nat]. destruct (prefixb p (c :: a)) eqn:E.
    + inversion H; subst. change (c :: a ++ b) with ((c :: a) ++ b). rewrite (prefixb_app_l _ _ _ E). reflexivity.
    + destruct (find_nat p a) eqn:F; [|discriminate]. inversion H; subst.
      destruct (prefixb p (c :: a ++ b)) eqn:E2.
      * exfalso. pose proof (find_nat_bound _ _ _ F) as B.
        change (c :: a ++ b) with ((c :: a) ++ b) in E2.
        apply prefixb_app_short in E2; [congruence | cbn; lia].
      * rewrite (IH _ eq_refl). reflexivity.
Qed.

(** no occurrence can start inside [a] when the pattern's first character does not occur there *)
Lemma find_nat_skip h p a b : ~ In h a ->
  find_nat (h :: p) (a ++ b) = option_map (fun n => (List.length a + n)%nat) (find_nat (h :: p) b).
Proof.
  induction a as [|c a IH]; intros H.
  - cbn [app List.length]. destruct (find_nat (h :: p) b); reflexivity.
  - cbn [app]. cbn [find_nat]. cbn [prefixb].
    assert (Ascii.eqb h c = false) as ->.
    { apply Ascii.eqb_neq. intros ->. apply H. left; reflexivity. }
    cbn [andb]. rewrite IH by (intros I; apply H; right; exact I).
    destruct (find_nat (h :: p) b); reflexivity.
Qed.

Lemma find_nat_none_head h p s : ~ In h s -> find_nat (h :: p) s = None.
Proof.
  intros H. rewrite <- (app_nil_r s). rewrite find_nat_skip by exact H. reflexivity.
Qed.

Lemma prefixb_barrier p u c b : prefixb p (u ++ [c]) = false -> ~ In c p -> prefixb p (u ++ c :: b) = false.
Proof.
  revert u; induction p as [|h p IH]; intros u H N; [discriminate|].
  destruct u as [|y u]; cbn in *.
  - assert (Ascii.eqb h c = false) as ->; [|reflexivity].
    apply Ascii.eqb_neq. intros ->. apply N. left; reflexivity.
  - destruct (Ascii.eqb h y); [|reflexivity]. cbn in *. apply IH; [exact H | tauto].
Qed.

(** a character outside the pattern splits the search *)
Lemma find_nat_barrier p a c b : p <> [] -> ~ In c p -> find_nat p (a ++ [c]) = None ->
  find_nat p (a ++ c :: b) = option_map (fun n => (List.length a + 1 + n)%nat) (find_nat p b).
Proof.
  intros Hp N. induction a as [|x a IH]; intros H.
  - cbn [app List.length]. destruct p as [|h p]; [congruence|]. cbn [find_nat prefixb].
    assert (Ascii.eqb h c = false) as ->.
    { apply Ascii.eqb_neq. intros ->. apply N. left; reflexivity. }
    cbn [andb]. destruct (find_nat (h :: p) b); reflexivity.
  - cbn [app] in *. cbn [find_nat] in *.
    destruct (prefixb p (x :: a ++ [c])) eqn:E; [discriminate|].
    change (x :: a ++ [c]) with ((x :: a) ++ [c]) in E.
    rewrite (prefixb_barrier _ _ _ b E N : prefixb p (x :: a ++ c :: b) = false).
    destruct (find_nat p (a ++ [c])) eqn:F; [discriminate|].
    rewrite IH by reflexivity. cbn [List.length]. destruct (find_nat p b); reflexivity.
Qed.

Lemma find_nat_char_app c a b : ~ In c a -> find_nat [c] (a ++ c :: b) = Some (List.length a).
Proof.
  intros H. rewrite find_nat_skip by exact H. cbn [find_nat prefixb]. rewrite Ascii.eqb_refl. cbn.
  f_equal. lia.
Qed.

Lemma contains_false_find p s : contains p s = false <-> find_nat p s = None.
Proof. unfold contains. destruct (find_nat p s); split; congruence. Qed.

Lemma contains_true_find p s : contains p s = true <-> exists n, find_nat p s = Some n.
Proof. unfold contains. destruct (find_nat p s); split; try congruence; eauto. intros [n H]; discriminate. Qed.

Lemma find_of_nat p s n : find_nat p s = Some n -> find p s = Z.of_nat n.
Proof. unfold find. intros ->. reflexivity. Qed.

Lemma find_of_none p s : find_nat p s = None -> find p s = -1.
Proof. unfold find. intros ->. reflexivity. Qed.

(** ** [rfind] of a single character *)
Lemma rfind_aux_app c a b i best :
  rfind_nat_aux [c] (a ++ b) i best = rfind_nat_aux [c] b (i + List.length a)%nat (rfind_nat_aux [c] a i best).
Proof.
  revert i best; induction a as [|x a IH]; intros i best.
  - cbn [app List.length]. rewrite Nat.add_0_r. cbn. reflexivity.
  - cbn [app rfind_nat_aux List.length]. rewrite IH. f_equal. lia.
Qed.

Lemma rfind_aux_none c s i best : ~ In c s -> rfind_nat_aux [c] s i best = best.
Proof.
  revert i best; induction s as [|x s IH]; intros i best H; [reflexivity|].
  cbn [rfind_nat_aux prefixb].
  assert (Ascii.eqb c x = false) as ->.
  { apply Ascii.eqb_neq. intros ->. apply H. left; reflexivity. }
  cbn. apply IH. intros I; apply H; right; exact I.
Qed.

Lemma rfind_aux_range c s i best m : rfind_nat_aux [c] s i best = Some m ->
  best = Some m \/ (i <= m < i + List.length s)%nat.
Proof.
  revert i best; induction s as [|x s IH]; intros i best H.
  - cbn in H. left; exact H.
  - cbn [rfind_nat_aux prefixb] in H. apply IH in H. cbn [List.length].
    destruct H as [H|H]; [|right; lia].
    destruct (Ascii.eqb c x && true); [inversion H; subst; right; lia | left; exact H].
Qed.

Lemma rfind_nat_drop c a b : ~ In c b -> rfind_nat [c] (a ++ b) = rfind_nat [c] a.
Proof. intros H. unfold rfind_nat. rewrite rfind_aux_app. apply rfind_aux_none. exact H. Qed.

Lemma rfind_nat_last c a b : ~ In c b -> rfind_nat [c] (a ++ c :: b) = Some (List.length a).
Proof.
  intros H. unfold rfind_nat. rewrite rfind_aux_app. cbn [rfind_nat_aux prefixb]. rewrite Ascii.eqb_refl.
  cbn [andb]. rewrite rfind_aux_none by exact H. reflexivity.
Qed.

Lemma rfind_nat_lt c s m : rfind_nat [c] s = Some m -> (m < List.length s)%nat.
Proof. unfold rfind_nat. intros H. apply rfind_aux_range in H. destruct H as [H|H]; [discriminate | lia]. Qed.

Lemma rfind_nat_ge c a b : exists m, rfind_nat [c] (a ++ c :: b) = Some m /\ (List.length a <= m)%nat.
Proof.
  unfold rfind_nat. rewrite rfind_aux_app. cbn [rfind_nat_aux prefixb]. rewrite Ascii.eqb_refl. cbn [andb].
  destruct (rfind_nat_aux [c] b (S (0 + List.length a)) (Some (0 + List.length a)%nat)) eqn:E.
  - exists n. split; [reflexivity|]. apply rfind_aux_range in E. destruct E as [E|E]; [inversion E|]; lia.
  - exfalso. revert E. generalize (S (0 + List.length a)). generalize (0 + List.length a)%nat.
    induction b as [|y b IH]; intros k j; cbn [rfind_nat_aux prefixb]; [discriminate|].
    destruct (Ascii.eqb c y && true); apply IH.
Qed.

Lemma rfind_of_nat p s n : rfind_nat p s = Some n -> rfind p s = Z.of_nat n.
Proof. unfold rfind. intros ->. reflexivity. Qed.

Lemma rfind_ge_m1 p s : -1 <= rfind p s.
Proof. unfold rfind. destruct (rfind_nat p s); lia. Qed.

(** ** [strip] *)
Lemma lstrip_nonspace c s : is_space c = false -> lstrip (c :: s) = c :: s.
Proof. intros H. cbn. rewrite H. reflexivity. Qed.

Lemma strip_id c s d : is_space c = false -> is_space d = false -> strip (c :: s ++ [d]) = c :: s ++ [d].
Proof.
  intros Hc Hd. unfold strip, rstrip. rewrite lstrip_nonspace by exact Hc.
  replace (rev (c :: s ++ [d])) with (d :: rev (c :: s)).
  - rewrite lstrip_nonspace by exact Hd.
    replace (d :: rev (c :: s)) with (rev ((c :: s) ++ [d])); [apply rev_involutive|].
    rewrite rev_app_distr. reflexivity.
  - change (c :: s ++ [d]) with ((c :: s) ++ [d]). rewrite rev_app_distr. reflexivity.
Qed.

Lemma suffixb_app_end p a : suffixb p (a ++ p) = true.
Proof.
  unfold suffixb. rewrite rev_app_distr. apply prefixb_app_l.
  generalize (rev p). intros l. induction l; cbn; [reflexivity|]. rewrite Ascii.eqb_refl. exact IHl.
Qed.

Lemma prefixb_refl_app p b : prefixb p (p ++ b) = true.
Proof. induction p as [|x p IH]; [reflexivity|]. cbn. rewrite Ascii.eqb_refl. exact IH. Qed.

Lemma find_nat_exists p a b : exists n, find_nat p (a ++ p ++ b) = Some n.
Proof.
  induction a as [|x a [n IH]].
  - cbn [app]. exists O. destruct (p ++ b) eqn:E; cbn [find_nat]; rewrite <- E, prefixb_refl_app; reflexivity.
  - cbn [app find_nat]. destruct (prefixb p (x :: a ++ p ++ b)); [exists O; reflexivity|].
    rewrite IH. exists (S n). reflexivity.
Qed.

(** [split] on a separator that does not occur *)
Lemma split_fuel_absent c : forall s fuel acc, ~ In c s -> (List.length s < fuel)%nat ->
  split_fuel fuel [c] s acc = [rev acc ++ s].
Proof.
  induction s as [|x s IH]; intros fuel acc H Hf; destruct fuel as [|f]; try (cbn in Hf; lia).
  - cbn. rewrite app_nil_r. reflexivity.
  - cbn [split_fuel prefixb]. assert (Ascii.eqb c x = false) as ->.
    { apply Ascii.eqb_neq. intros ->. apply H. left; reflexivity. }
    cbn [andb]. rewrite IH.
    + cbn [rev]. rewrite <- app_assoc. reflexivity.
    + intros I; apply H; right; exact I.
    + cbn in Hf. lia.
Qed.

Lemma split_absent c s : ~ In c s -> split [c] s = [s].
Proof. intros H. unfold split. rewrite split_fuel_absent by (auto; lia). reflexivity. Qed.

(** ** more on [strip] *)
Lemma lstrip_app_ns a c b : is_space c = false -> lstrip (a ++ c :: b) = lstrip a ++ c :: b.
Proof.
  intros H. induction a as [|x a IH]; cbn [app lstrip].
  - rewrite H. reflexivity.
  - destruct (is_space x); [exact IH | reflexivity].
Qed.

Lemma rstrip_app_ns x c y : is_space c = false -> rstrip (x ++ c :: y) = x ++ c :: rstrip y.
Proof.
  intros H. unfold rstrip. rewrite rev_app_distr. cbn [rev]. rewrite <- app_assoc. cbn [app].
  rewrite lstrip_app_ns by exact H. rewrite rev_app_distr. cbn [rev]. rewrite rev_involutive.
  rewrite <- app_assoc. reflexivity.
Qed.

Lemma lstrip_suffix s : exists sp, s = sp ++ lstrip s.
Proof.
  induction s as [|x s [sp IH]]; [exists []; reflexivity|]. cbn [lstrip]. destruct (is_space x).
  - exists (x :: sp). cbn [app]. f_equal. exact IH.
  - exists []. reflexivity.
Qed.

Lemma rstrip_prefix s : exists sp, s = rstrip s ++ sp.
Proof.
  unfold rstrip. destruct (lstrip_suffix (rev s)) as [sp E]. exists (rev sp).
  rewrite <- rev_app_distr. rewrite <- E. symmetry. apply rev_involutive.
Qed.

Lemma rstrip_nil : rstrip [] = [].
Proof. reflexivity. Qed.

(** ** [split] of a [join] *)
Lemma join_cons2 sep x y l : join sep (x :: y :: l) = x ++ sep ++ join sep (y :: l).
Proof. reflexivity. Qed.

Lemma split_fuel_join c : forall lines x fuel acc,
  ~ In c x -> Forall (fun y => ~ In c y) lines ->
  (List.length (join [c] (x :: lines)) < fuel)%nat ->
  split_fuel fuel [c] (join [c] (x :: lines)) acc = (rev acc ++ x) :: lines.
Proof.
  induction lines as [|y ls IH]; intros x fuel acc Hx Hl Hf.
  - cbn [join] in *. apply split_fuel_absent; assumption.
  - rewrite join_cons2 in *. inversion Hl as [|? ? Hy Hls]; subst.
    revert fuel acc Hf. induction x as [|d x IHx]; intros fuel acc Hf.
    + destruct fuel as [|f]; [exfalso; clear -Hf; lia|]. cbn [app split_fuel prefixb]. rewrite Ascii.eqb_refl. cbn [andb List.length skipn].
      rewrite IH; try assumption.
      * rewrite app_nil_r. reflexivity.
      * unfold str in *. rewrite !app_length in Hf. cbn [List.length] in Hf. lia.
    + destruct fuel as [|f]; [exfalso; clear -Hf; lia|]. cbn [app split_fuel prefixb].
      assert (Ascii.eqb c d = false) as ->.
      { apply Ascii.eqb_neq. intros ->. apply Hx. left; reflexivity. }
      cbn [andb]. rewrite IHx.
      * cbn [rev]. rewrite <- app_assoc. reflexivity.
      * intros I; apply Hx; right; exact I.
      * unfold str in *. rewrite !app_length in *. cbn [List.length] in *. lia.
Qed.

Lemma split_join c lines : lines <> [] -> Forall (fun y => ~ In c y) lines -> split [c] (join [c] lines) = lines.
Proof.
  intros N H. destruct lines as [|x ls]; [congruence|]. inversion H; subst.
  unfold split. rewrite split_fuel_join; auto.
Qed.
