(** * T4 -- prefix and base expansion of the streaming Turtle reader (C07) *)
From Coq Require Import List Ascii String ZArith Bool Lia.
From Shexer Require Import Lib.PyStr Lib.Dict Gen.Consts Spec.Rdf Spec.TtlSyntax Spec.TtlDomain Model.TtlReader
  Proofs.TtlProofs.
Import ListNotations.
Local Open Scope Z_scope.

(** ** strings *)

Lemma prefixb_app p r : prefixb p (p ++ r) = true.
Proof. induction p as [|c p IH]; cbn; [reflexivity|]. rewrite Ascii.eqb_refl, IH. reflexivity. Qed.

Lemma prefixb_true_app p s : prefixb p s = true -> exists r, s = p ++ r.
Proof. apply prefixb_spec. Qed.

Lemma find_nat_none_cons a c r :
  find_nat a (c :: r) = None -> prefixb a (c :: r) = false /\ find_nat a r = None.
Proof.
  cbn [find_nat]. destruct (prefixb a (c :: r)); [discriminate|].
  destruct (find_nat a r); [discriminate|]. auto.
Qed.

Lemma contains_false_find a r : contains a r = false -> find_nat a r = None.
Proof. unfold contains. destruct (find_nat a r); [discriminate | reflexivity]. Qed.

Lemma replace_all_fuel_absent a b : forall r fuel,
  find_nat a r = None -> (List.length r < fuel)%nat -> replace_all_fuel fuel a b r = r.
Proof.
  induction r as [|c r IH]; intros fuel Hf Hl; (destruct fuel as [|f]; [cbn in Hl; lia|]); cbn [replace_all_fuel]; [reflexivity|].
  apply find_nat_none_cons in Hf. destruct Hf as (Hp & Hf). rewrite Hp.
  rewrite IH; [reflexivity | exact Hf | cbn [List.length] in Hl; lia].
Qed.

Lemma replace_all_fuel_S f a b c s :
  replace_all_fuel (S f) a b (c :: s) =
  if prefixb a (c :: s)
  then match a with [] => c :: s | _ => b ++ replace_all_fuel f a b (skipn (List.length a) (c :: s)) end
  else c :: replace_all_fuel f a b s.
Proof. reflexivity. Qed.

(** [s.replace(a, b)] when [s] starts with [a] and has no other occurrence (old shape) *)
Lemma replace_all_prefix_once a b r :
  a <> [] -> contains a r = false -> replace_all a b (a ++ r) = b ++ r.
Proof.
  intros Ha Hc. destruct a as [|x a]; [contradiction|].
  unfold replace_all. change ((x :: a) ++ r) with (x :: (a ++ r)). cbn [List.length].
  rewrite replace_all_fuel_S. change (x :: a ++ r) with ((x :: a) ++ r). rewrite prefixb_app.
  rewrite skipn_app, skipn_all, Nat.sub_diag. cbn [skipn app].
  rewrite replace_all_fuel_absent; [reflexivity | apply contains_false_find; exact Hc |].
  rewrite app_length. lia.
Qed.

Lemma slice_corners u : slice (s_lt ++ u ++ s_gt) 1 (-1) = u.
Proof.
  unfold slice, norm_idx. rewrite !len_app. change (len s_lt) with 1. change (len s_gt) with 1.
  pose proof (len_nonneg u).
  change (1 <? 0) with false. change (-1 <? 0) with true. cbv iota.
  rewrite (Z.min_l 1) by lia. rewrite Z.max_r by lia.
  replace (1 + (len u + 1) + -1 - 1) with (len u) by lia.
  change (Z.to_nat 1) with 1%nat. cbn [skipn s_lt app].
  unfold len. rewrite Nat2Z.id, firstn_app, firstn_all, Nat.sub_diag. cbn. apply app_nil_r.
Qed.

Lemma suffixb_corners u : suffixb s_gt (s_lt ++ u ++ s_gt) = true.
Proof.
  unfold suffixb. rewrite !rev_app_distr. change (rev s_gt) with s_gt. cbn [app s_gt].
  change s_gt with [chr ">"]. cbn. reflexivity.
Qed.

Lemma remove_corners_ok u raise : remove_corners (s_lt ++ u ++ s_gt) raise = Ok u.
Proof.
  unfold remove_corners. change (prefixb s_lt (s_lt ++ u ++ s_gt)) with true.
  rewrite suffixb_corners, slice_corners. reflexivity.
Qed.

Lemma find_nat_prefix p s : prefixb p s = true -> find_nat p s = Some O.
Proof. intros H. destruct s; cbn [find_nat]; rewrite H; reflexivity. Qed.

(** [s.replace(a, b, 1)] when [s] starts with [a]: whatever follows (repaired shape) *)
Lemma replace_pfx_prefix a b r : replace_pfx a b (a ++ r) = b ++ r.
Proof.
  unfold replace_pfx. change ttl_replace_once with true. cbv iota. unfold replace_first.
  rewrite (find_nat_prefix a (a ++ r) (prefixb_app a r)). cbn [firstn app Nat.add].
  rewrite skipn_app, skipn_all, Nat.sub_diag. reflexivity.
Qed.

Lemma find_nat_some_app a x y : exists k, find_nat a (x ++ a ++ y) = Some k.
Proof.
  induction x as [|c x (k & IH)].
  - exists O. cbn [app]. apply find_nat_prefix. apply prefixb_app.
  - cbn [app find_nat]. destruct (prefixb a (c :: x ++ a ++ y)); [eauto|]. rewrite IH. eauto.
Qed.

Lemma contains_app a x y : contains a (x ++ a ++ y) = true.
Proof. unfold contains. destruct (find_nat_some_app a x y) as (k & ->). reflexivity. Qed.

(** colon-free names *)
Definition colon_free (p : str) : Prop := Forall (fun c => chr_eqb c (chr ":") = false) p.

Lemma prefix_colon q : forall p l, colon_free q -> colon_free p ->
  prefixb (q ++ Str ":") (p ++ Str ":" ++ l) = str_eqb p q.
Proof.
  change (Str ":") with [chr ":"].
  induction q as [|x q IH]; intros p l Hq Hp.
  - destruct p as [|y p]; [cbn [app prefixb str_eqb]; rewrite Ascii.eqb_refl; reflexivity|].
    inversion Hp as [|? ? Hy Hp']; subst. cbn [app prefixb str_eqb]. unfold chr_eqb in Hy.
    rewrite Ascii.eqb_sym, Hy. reflexivity.
  - inversion Hq as [|? ? Hx Hq']; subst. destruct p as [|y p].
    + cbn [app prefixb str_eqb]. unfold chr_eqb in Hx. rewrite Hx. reflexivity.
    + inversion Hp as [|? ? Hy Hp']; subst. cbn [app prefixb str_eqb]. rewrite (Ascii.eqb_sym x y).
      rewrite <- (IH p l) by assumption. reflexivity.
Qed.

(** ** the prefix dictionary *)

Lemma dget_dset {V} (d : dict V) k v k' :
  dget (dset d k v) k' = if str_eqb k' k then Some v else dget d k'.
Proof.
  induction d as [|(q, w) d IH]; cbn [dset dget].
  - destruct (str_eqb k' k); reflexivity.
  - destruct (str_eqb k q) eqn:E; cbn [dget].
    + apply str_eqb_eq in E. subst q. destruct (str_eqb k' k); reflexivity.
    + rewrite IH. destruct (str_eqb k' q) eqn:E2; [|reflexivity].
      apply str_eqb_eq in E2. subst q. destruct (str_eqb k' k) eqn:E3; [|reflexivity].
      apply str_eqb_eq in E3. subst k'. rewrite str_eqb_refl in E. discriminate.
Qed.

Lemma dkeys_dset {V} (d : dict V) k v x : In x (dkeys (dset d k v)) -> x = k \/ In x (dkeys d).
Proof.
  induction d as [|(q, w) d IH]; cbn [dset dkeys map fst In].
  - intros [H|[]]; auto.
  - destruct (str_eqb k q) eqn:E; cbn [map fst In]; [tauto|].
    intros [H|H]; [auto|]. destruct (IH H); auto.
Qed.

(** [unprefixize_uri_mandatory] finds the declared namespace *)
Lemma unprefixize_dget (d : list (str * str)) p l ns :
  Forall colon_free (dkeys d) -> colon_free p -> dget d p = Some ns ->
  unprefixize (p ++ Str ":" ++ l) d = Ok (s_lt ++ replace_pfx (p ++ Str ":") ns (p ++ Str ":" ++ l) ++ s_gt).
Proof.
  intros Hk Hp. induction d as [|(q, w) d IH]; cbn [dget unprefixize]; [discriminate|].
  inversion Hk; subst. change ttl_prefix_sep with (Str ":").
  rewrite (prefix_colon q p l) by assumption.
  destruct (str_eqb p q) eqn:E.
  - apply str_eqb_eq in E. subst q. intros H; inversion H; subst. reflexivity.
  - intros H. apply IH; assumption.
Qed.

(** ** environments *)

(** the reader state [s] carries the environment [e] of the spec *)
Definition env_match (e : env) (s : st) : Prop :=
  base s = e_base e /\
  (forall p, dget (prefixes s) p = lookup p (e_prefixes e)) /\
  Forall colon_free (dkeys (prefixes s)).

Lemma env_match_same e s s' : env_match e s -> same_env s' s -> env_match e s'.
Proof. intros (A & B & C) (P & Q). unfold env_match. rewrite P, Q. auto. Qed.

Lemma env_match0 : env_match env0 st0.
Proof. repeat split; constructor. Qed.

(** ** character classes *)

Lemma pred_neq (f : ascii -> bool) c x : f c = true -> f x = false -> Ascii.eqb c x = false.
Proof. intros H1 H2. destruct (Ascii.eqb_spec c x); [subst; congruence | reflexivity]. Qed.

Lemma forallb_colon_free (f : ascii -> bool) p :
  forallb f p = true -> f (chr ":") = false -> colon_free p.
Proof.
  intros H Hc. unfold colon_free. apply Forall_forall. intros c Hin.
  rewrite forallb_forall in H. apply (pred_neq f c (chr ":") (H c Hin) Hc).
Qed.

Lemma closure_state_first c t :
  Ascii.eqb c (chr ",") = false -> Ascii.eqb c (chr ";") = false -> Ascii.eqb c (chr ".") = false ->
  closure_state (c :: t) = None.
Proof.
  intros H1 H2 H3. unfold closure_state. change (Str ",") with [chr ","]. change (Str ";") with [chr ";"].
  change (Str ".") with [chr "."]. cbn [str_eqb]. rewrite H1, H2, H3. reflexivity.
Qed.

Lemma closure_state_lt t : closure_state (s_lt ++ t) = None.
Proof. apply closure_state_first; reflexivity. Qed.

Lemma prefixb_snoc_excl p x c :
  prefixb p (x ++ [c]) = true -> Forall (fun d => Ascii.eqb d c = false) p -> p <> [] -> prefixb p x = true.
Proof.
  revert x. induction p as [|d p IH]; intros x H Hall Hne; [contradiction|].
  inversion Hall as [|? ? Hd Hall']; subst.
  destruct x as [|y x]; cbn [app prefixb] in H |- *.
  - apply andb_true_iff in H. destruct H as (H & _). rewrite H in Hd. discriminate.
  - apply andb_true_iff in H. destruct H as (H1 & H2). rewrite H1. cbn [andb].
    destruct p as [|d2 p]; [reflexivity|]. apply IH; [exact H2 | exact Hall' | discriminate].
Qed.

(** ** IRI references (T4 proper) *)

Definition okR (e : env) (r : iri_ref) : bool :=
  ref_wf r && match rc_ref e r with [] => true | _ => false end.

Lemma when_nil b x : when b x = [] -> b = false.
Proof. destruct b; [discriminate | reflexivity]. Qed.

Lemma app_nil_inv {A} (a b : list A) : a ++ b = [] -> a = [] /\ b = [].
Proof. apply app_eq_nil. Qed.

Lemma has_scheme_nonempty i : has_scheme i = true -> exists c t, i = c :: t.
Proof. destruct i as [|c t]; [discriminate | eauto]. Qed.

Lemma slice_from_1 c (s : str) : slice_from (c :: s) 1 = s.
Proof.
  unfold slice_from, norm_idx. change (1 <? 0) with false. cbv iota.
  rewrite len_cons. pose proof (len_nonneg s). rewrite Z.min_l by lia. reflexivity.
Qed.

(** the scheme test of the repaired reader against the spec's [has_scheme] *)
Lemma scheme_alpha_eq c : scheme_alpha c = is_alpha c.
Proof. reflexivity. Qed.

Lemma scheme_char_of c : is_alpha c || is_dig c || in_str c "+-." = true -> scheme_char c = true.
Proof. destruct c as [[|] [|] [|] [|] [|] [|] [|] [|]]; vm_compute; intros; first [reflexivity | discriminate]. Qed.

Lemma colon_code c : Nat.eqb (nat_of_ascii c) 58 = Ascii.eqb (chr ":") c.
Proof. destruct c as [[|] [|] [|] [|] [|] [|] [|] [|]]; reflexivity. Qed.

Lemma scheme_rest_found : forall s n X,
  find_nat [chr ":"] s = Some n ->
  forallb (fun c => is_alpha c || is_dig c || in_str c "+-.") (firstn n s) = true ->
  scheme_rest (s ++ X) = true.
Proof.
  induction s as [|c s IH]; intros n X Hf Hall; [discriminate Hf|].
  rewrite find_nat_single_cons in Hf. cbn [app scheme_rest]. rewrite colon_code. unfold chr_eqb in Hf.
  destruct (Ascii.eqb (chr ":") c); [reflexivity|].
  destruct (find_nat [chr ":"] s) as [k|] eqn:Ek; [|discriminate Hf]. cbn [option_map] in Hf. inversion Hf; subst n.
  cbn [firstn forallb] in Hall. apply andb_true_iff in Hall. destruct Hall as (Hc & Hall).
  rewrite (scheme_char_of c Hc). apply (IH k X eq_refl Hall).
Qed.

Lemma has_scheme_model i X : has_scheme i = true -> starts_with_scheme (i ++ X) = true.
Proof.
  unfold has_scheme. change (Str ":") with [chr ":"].
  destruct (find_nat [chr ":"] i) as [[|n]|] eqn:Ef; try discriminate. intros H.
  apply andb_true_iff in H. destruct H as (Hfirst & Hall).
  destruct i as [|c t]; [discriminate Ef|]. cbn [first_ok] in Hfirst.
  cbn [app starts_with_scheme]. rewrite scheme_alpha_eq, Hfirst. cbn [andb].
  rewrite find_nat_single_cons in Ef. destruct (chr_eqb (chr ":") c); [discriminate Ef|].
  destruct (find_nat [chr ":"] t) as [k|] eqn:Ek; [|discriminate Ef]. cbn [option_map] in Ef. inversion Ef; subst k.
  cbn [firstn forallb] in Hall. apply andb_true_iff in Hall. apply (scheme_rest_found t n X Ek (proj2 Hall)).
Qed.

Lemma scheme_rest_no_colon s : Forall (fun c => Ascii.eqb (chr ":") c = false) s -> scheme_rest s = false.
Proof.
  induction 1 as [|c s Hc Hs IH]; [reflexivity|]. cbn [scheme_rest]. rewrite colon_code, Hc, IH.
  destruct (scheme_char c); reflexivity.
Qed.

Lemma no_scheme_no_colon s : Forall (fun c => Ascii.eqb (chr ":") c = false) s -> starts_with_scheme s = false.
Proof.
  intros H. destruct s as [|c t]; [reflexivity|]. inversion H; subst. cbn [starts_with_scheme].
  rewrite scheme_rest_no_colon by assumption. apply andb_false_r.
Qed.

Lemma parse_cornered_abs b i :
  (b = None \/ starts_with_scheme (i ++ s_gt) = true) -> i <> [] ->
  parse_cornered b (s_lt ++ i ++ s_gt) = Ok (s_lt ++ i ++ s_gt).
Proof.
  intros Hb Hne. unfold parse_cornered. destruct b as [bs|]; [|reflexivity].
  destruct Hb as [Hb|Hb]; [discriminate|].
  destruct i as [|c t]; [contradiction|].
  change (at_idx (s_lt ++ (c :: t) ++ s_gt) 1) with (at_idx (ttl_iri_open :: c :: t ++ s_gt) 1).
  rewrite (at_idx_at_pos _ 1 c (t ++ s_gt)) by (exists s_lt; split; reflexivity).
  assert (Hc : mem_str [c] ttl_INI_BASE_URIS = false).
  { cbn [app starts_with_scheme] in Hb. apply andb_true_iff in Hb. destruct Hb as (Ha & _). revert Ha. clear.
    destruct c as [[|] [|] [|] [|] [|] [|] [|] [|]]; vm_compute; intros; first [reflexivity | discriminate]. }
  rewrite Hc.
  change (s_lt ++ (c :: t) ++ s_gt) with (ttl_iri_open :: (c :: t) ++ s_gt). rewrite slice_from_1.
  unfold is_absolute. change ttl_scheme_test_nodes with true. cbv iota. rewrite Hb. reflexivity.
Qed.

Lemma parse_elem_cornered s tok r :
  parse_cornered (base s) (s_lt ++ tok) = Ok r ->
  parse_elem s (s_lt ++ tok) = Ok (Some r).
Proof.
  intros H. unfold parse_elem.
  rewrite (at_idx_at_pos (s_lt ++ tok) 0 ttl_iri_open tok) by (exists []; split; reflexivity).
  rewrite chr_eqb_refl, H. reflexivity.
Qed.

Lemma ref_abs e s i u :
  env_match e s -> okR e (IAbs i) = true -> resolve_ref e (IAbs i) = Some u ->
  closure_state (vtok (base s) (render_ref (IAbs i))) = None /\
  parse_elem s (vtok (base s) (render_ref (IAbs i))) = Ok (Some (s_lt ++ u ++ s_gt)).
Proof.
  intros _ Hok Hu. cbn in Hu. inversion Hu; subst u.
  unfold okR in Hok. apply andb_true_iff in Hok. destruct Hok as (Hwf & _).
  cbn [ref_wf] in Hwf. apply andb_true_iff in Hwf. destruct Hwf as (_ & Hsch).
  destruct (has_scheme_nonempty i Hsch) as (c & t & Hi).
  assert (Hpc : parse_cornered (base s) (s_lt ++ i ++ s_gt) = Ok (s_lt ++ i ++ s_gt)).
  { apply parse_cornered_abs; [right; apply has_scheme_model; exact Hsch | subst i; discriminate]. }
  change (render_ref (IAbs i)) with (s_lt ++ i ++ s_gt). rewrite vtok_id.
  split; [apply closure_state_lt | apply parse_elem_cornered; exact Hpc].
Qed.

Lemma ini_base_char c : in_str c "/" = false -> mem_str [c] ttl_INI_BASE_URIS = false.
Proof.
  unfold in_str. change (Str "/") with [chr "/"]. cbn [existsb].
  change ttl_INI_BASE_URIS with [[chr "/"]]. cbn [mem_str str_eqb].
  destruct (Ascii.eqb c (chr "/")); cbn; intros H; try discriminate; reflexivity.
Qed.

Lemma contains_colon_false x : contains (Str ":") x = false -> Forall (fun c => Ascii.eqb (chr ":") c = false) x.
Proof.
  unfold contains. change (Str ":") with [chr ":"]. induction x as [|c x IH]; intros H; [constructor|].
  rewrite find_nat_single_cons in H. unfold chr_eqb in H. destruct (Ascii.eqb (chr ":") c) eqn:E; [discriminate|].
  constructor; [exact E|]. apply IH. destruct (find_nat [chr ":"] x); [discriminate | reflexivity].
Qed.

Lemma ref_rel e s x u :
  env_match e s -> okR e (IRel x) = true -> resolve_ref e (IRel x) = Some u ->
  closure_state (vtok (base s) (render_ref (IRel x))) = None /\
  parse_elem s (vtok (base s) (render_ref (IRel x))) = Ok (Some (s_lt ++ u ++ s_gt)).
Proof.
  intros (Hb & _ & _) Hok Hu. cbn [resolve_ref] in Hu.
  unfold okR in Hok. apply andb_true_iff in Hok. destruct Hok as (Hwf & Hrc). cbn [rc_ref] in Hrc.
  cbn [ref_wf] in Hwf. apply andb_true_iff in Hwf. destruct Hwf as (_ & Hnc). apply negb_true_iff in Hnc.
  destruct (e_base e) as [bs|] eqn:Eb; [|discriminate].
  rewrite Hu in Hrc.
  destruct (when (first_ok (fun c => in_str c "/") x && negb (Nat.eqb (List.length x) 0)) RC_ini_base ++
            when (negb (str_eqb u (bs ++ x))) RC_concat) eqn:E; [|discriminate].
  apply app_nil_inv in E. destruct E as (C1 & C4).
  apply when_nil in C1. apply when_nil in C4.
  apply negb_false_iff in C4. apply str_eqb_eq in C4. subst u.
  assert (Hns : starts_with_scheme (x ++ s_gt) = false).
  { apply no_scheme_no_colon. apply Forall_app. split; [apply contains_colon_false; exact Hnc | repeat constructor]. }
  assert (Hpc1 : parse_cornered (base s) (s_lt ++ x ++ s_gt) = Ok (s_lt ++ (bs ++ x) ++ s_gt)).
  { rewrite Hb. unfold parse_cornered, is_absolute. change ttl_scheme_test_nodes with true. cbv iota.
    destruct x as [|c t].
    - cbn [app]. change (at_idx (s_lt ++ s_gt) 1) with (Some (chr ">")).
      change (mem_str [chr ">"] ttl_INI_BASE_URIS) with false. cbv iota.
      change (s_lt ++ s_gt) with (ttl_iri_open :: s_gt). rewrite slice_from_1.
      change (starts_with_scheme s_gt) with false. cbv iota. cbn [negb].
      change (ttl_iri_open :: s_gt) with (s_lt ++ [] ++ s_gt). rewrite slice_corners. rewrite app_nil_r. reflexivity.
    - change (s_lt ++ (c :: t) ++ s_gt) with (ttl_iri_open :: c :: t ++ s_gt).
      rewrite (at_idx_at_pos _ 1 c (t ++ s_gt)) by (exists s_lt; split; reflexivity).
      cbn [first_ok List.length Nat.eqb negb] in C1. rewrite andb_true_r in C1.
      rewrite (ini_base_char c C1). rewrite slice_from_1.
      change (c :: t ++ s_gt) with ((c :: t) ++ s_gt). rewrite Hns. cbn [negb].
      change (ttl_iri_open :: (c :: t) ++ s_gt) with (s_lt ++ (c :: t) ++ s_gt). rewrite slice_corners.
      rewrite <- app_assoc. reflexivity. }
  change (render_ref (IRel x)) with (s_lt ++ x ++ s_gt). rewrite vtok_id.
  split; [apply closure_state_lt | apply parse_elem_cornered; exact Hpc1].
Qed.

Lemma str_eqb_single_false (t : str) c : (2 <= List.length t)%nat -> str_eqb t [c] = false.
Proof. destruct t as [|a [|b t]]; cbn [List.length]; try lia. intros _. cbn [str_eqb]. apply andb_false_r. Qed.

Lemma ref_pre e s p l u :
  env_match e s -> okR e (IPre p l) = true -> resolve_ref e (IPre p l) = Some u ->
  closure_state (vtok (base s) (render_ref (IPre p l))) = None /\
  parse_elem s (vtok (base s) (render_ref (IPre p l))) = Ok (Some (s_lt ++ u ++ s_gt)).
Proof.
  intros (Hb & Hd & Hk) Hok Hu. cbn [resolve_ref] in Hu.
  destruct (lookup p (e_prefixes e)) as [ns|] eqn:El; [|discriminate]. inversion Hu; subst u. clear Hu.
  unfold okR in Hok. apply andb_true_iff in Hok. destruct Hok as (Hwf & Hrc).
  cbn [ref_wf] in Hwf. rewrite !andb_true_iff in Hwf. destruct Hwf as ((((W1 & W2) & _) & _) & _).
  assert (Hcf : colon_free p) by (apply (forallb_colon_free _ _ W1); reflexivity).
  cbn [rc_ref] in Hrc. rewrite El in Hrc.
  destruct (when (str_eqb (render_ref (IPre p l)) (Str "rdf:type") && negb (str_eqb ns rdf_ns)) RC_dt_custom_prefix) eqn:C2;
    [|discriminate].
  apply when_nil in C2.
  change (render_ref (IPre p l)) with (p ++ Str ":" ++ l) in *.
  set (tok := p ++ Str ":" ++ l) in *.
  (* the first character of the token *)
  assert (Hc0 : exists c0 t, tok = c0 :: t /\ Ascii.eqb c0 ttl_iri_open = false /\ Ascii.eqb c0 ttl_lit_open = false /\
                Ascii.eqb c0 (chr "_") = false /\ Ascii.eqb c0 (chr ",") = false /\ Ascii.eqb c0 (chr ";") = false /\
                Ascii.eqb c0 (chr ".") = false).
  { unfold tok. destruct p as [|c p'].
    - exists (chr ":"), l. repeat split; reflexivity.
    - exists c, (p' ++ Str ":" ++ l). cbn [first_ok] in W2.
      repeat split; try reflexivity; apply (pred_neq (fun c => is_alpha c || is_utf8 c) c _ W2); reflexivity. }
  destruct Hc0 as (c0 & t & Htok & N1 & N2 & N3 & N4 & N5 & N6).
  assert (Hv : vtok (base s) tok = tok) by (apply (vtok_not_lt _ _ c0 t Htok); exact N1).
  rewrite Hv. split; [rewrite Htok; apply closure_state_first; assumption|].
  unfold parse_elem. rewrite Htok at 1.
  rewrite (at_idx_at_pos (c0 :: t) 0 c0 t) by (exists []; split; reflexivity).
  unfold chr_eqb. rewrite N1.
  destruct (str_eqb tok (Str "rdf:type")) eqn:Ert.
  - (* the token rdf:type is wired to the RDF namespace *)
    cbn [andb] in C2. apply negb_false_iff in C2. apply str_eqb_eq in C2. subst ns.
    apply str_eqb_eq in Ert.
    assert (Hp : p = Str "rdf").
    { pose proof (prefix_colon (Str "rdf") p l) as H. fold tok in H. rewrite Ert in H.
      symmetry in H. apply str_eqb_eq. apply H; [|exact Hcf]. repeat constructor. }
    subst p. unfold tok in Ert. change (Str "rdf:type") with (Str "rdf" ++ Str ":" ++ Str "type") in Ert.
    apply app_inv_head in Ert. apply app_inv_head in Ert. subst l.
    unfold tok. reflexivity.
  - assert (Ea : mem_str tok ttl_RDF_TYPE_CONTRACTED = false).
    { change ttl_RDF_TYPE_CONTRACTED with [[chr "a"]; Str "rdf:type"]. cbn [mem_str]. rewrite Ert.
      assert (Ea0 : str_eqb tok [chr "a"] = false).
      { unfold tok. destruct p as [|c p']; [reflexivity|]. cbn [app str_eqb].
        destruct (p' ++ Str ":" ++ l) eqn:E2; [destruct p'; discriminate|]. apply andb_false_r. }
      rewrite Ea0. reflexivity. }
    rewrite Ea.
    assert (Eq : prefixb s_quote tok = false) by (rewrite Htok; cbn [s_quote prefixb]; rewrite Ascii.eqb_sym, N2; reflexivity).
    rewrite Eq. change ttl_prefix_sep with (Str ":").
    unfold tok at 1. rewrite (contains_app (Str ":") p l).
    assert (Eb : prefixb ttl_bnode_start tok = false).
    { rewrite Htok. change ttl_bnode_start with [chr "_"; chr ":"]. cbn [prefixb]. rewrite Ascii.eqb_sym, N3. reflexivity. }
    rewrite Eb. unfold tok.
    rewrite (unprefixize_dget (prefixes s) p l ns Hk Hcf) by (rewrite Hd; exact El). cbn [bind].
    replace (p ++ Str ":" ++ l) with ((p ++ Str ":") ++ l) by (rewrite <- app_assoc; reflexivity).
    rewrite replace_pfx_prefix. reflexivity.
Qed.

(** T4: a well-formed IRI reference free of root causes is expanded to the
    IRI the spec assigns to it *)
Theorem expansion_correct e s r u :
  env_match e s -> okR e r = true -> resolve_ref e r = Some u ->
  closure_state (vtok (base s) (render_ref r)) = None /\
  parse_elem s (vtok (base s) (render_ref r)) = Ok (Some (s_lt ++ u ++ s_gt)).
Proof. destruct r; [apply ref_abs | apply ref_rel | apply ref_pre]. Qed.

(** ** tuning of expanded IRIs, blank nodes, [a], integers *)

Lemma tune_subj_iri u : tune_subj (Some (s_lt ++ u ++ s_gt)) = Ok (Node KIri u).
Proof. unfold tune_subj. change (prefixb s_lt (s_lt ++ u ++ s_gt)) with true. rewrite remove_corners_ok. reflexivity. Qed.

Lemma tune_prop_iri u : tune_prop (Some (s_lt ++ u ++ s_gt)) = Ok u.
Proof. unfold tune_prop. apply remove_corners_ok. Qed.

Lemma tune_token_iri u b f : tune_token (Some (s_lt ++ u ++ s_gt)) b f = Ok (ON (Node KIri u)).
Proof. unfold tune_token. change (prefixb s_lt (s_lt ++ u ++ s_gt)) with true. rewrite remove_corners_ok. reflexivity. Qed.

Definition bn_tok (l : str) : str := Str "_:" ++ l.

Lemma bnode_parse s l : l <> [] ->
  vtok (base s) (bn_tok l) = bn_tok l /\ closure_state (bn_tok l) = None /\
  parse_elem s (bn_tok l) = Ok (Some (bn_tok l)).
Proof.
  intros Hne. split; [reflexivity|]. split; [reflexivity|].
  unfold parse_elem, bn_tok. change (Str "_:" ++ l) with (chr "_" :: chr ":" :: l).
  rewrite (at_idx_at_pos _ 0 (chr "_") (chr ":" :: l)) by (exists []; split; reflexivity).
  change (chr_eqb (chr "_") ttl_iri_open) with false. cbv iota.
  assert (E : mem_str (chr "_" :: chr ":" :: l) ttl_RDF_TYPE_CONTRACTED = false) by reflexivity.
  rewrite E. change (prefixb s_quote (chr "_" :: chr ":" :: l)) with false. cbv iota.
  change ttl_prefix_sep with (Str ":").
  change (chr "_" :: chr ":" :: l) with ([chr "_"] ++ Str ":" ++ l). rewrite contains_app.
  reflexivity.
Qed.

Lemma tune_subj_bnode l : tune_subj (Some (bn_tok l)) = Ok (Node KBnode (bn_tok l)).
Proof. reflexivity. Qed.

Lemma tune_token_bnode l b f : tune_token (Some (bn_tok l)) b f = Ok (ON (Node KBnode (bn_tok l))).
Proof. reflexivity. Qed.

Lemma label_nonempty l : label_wf l = true -> l <> [].
Proof. destruct l; [discriminate | discriminate]. Qed.

(** *** subjects and predicates *)

Definition rc_free (l : list rc) : bool := match l with [] => true | _ => false end.

Definition okS (e : env) (x : subj) : bool := subj_wf x && rc_free (rc_subj e x).
Definition okP (e : env) (x : pred) : bool := pred_wf x && rc_free (rc_pred e x).

Lemma okR_of e r : ref_wf r = true -> rc_free (rc_ref e r) = true -> okR e r = true.
Proof. intros A B. unfold okR. rewrite A. exact B. Qed.

Theorem subj_correct e s0 x n s :
  env_match e s0 -> same_env s s0 -> okS e x = true -> sem_subj e x = Some n ->
  closure_state (tokS s0 x) = None /\
  exists raw, parse_elem s (tokS s0 x) = Ok (Some raw) /\ tune_subj (Some raw) = Ok n.
Proof.
  intros Hm Hs Hok Hsem. unfold okS in Hok. apply andb_true_iff in Hok. destruct Hok as (Hwf & Hrc).
  pose proof (env_match_same _ _ _ Hm Hs) as Hm'. unfold tokS. destruct Hs as (_ & Hbase). rewrite <- Hbase.
  destruct x as [r|l]; cbn [sem_subj subj_wf rc_subj render_subj] in *.
  - destruct (resolve_ref e r) as [u|] eqn:Eu; [|discriminate]. cbn in Hsem. inversion Hsem; subst n.
    destruct (expansion_correct e s r u Hm' (okR_of e r Hwf Hrc) Eu) as (A & B).
    split; [exact A|]. eexists. split; [exact B | apply tune_subj_iri].
  - inversion Hsem; subst n. destruct (bnode_parse s l (label_nonempty l Hwf)) as (A & B & C).
    fold (bn_tok l). rewrite A. split; [exact B|]. eexists. split; [exact C | reflexivity].
Qed.

Theorem pred_correct e s0 x p s :
  env_match e s0 -> same_env s s0 -> okP e x = true -> sem_pred e x = Some p ->
  closure_state (tokP s0 x) = None /\
  exists raw, parse_elem s (tokP s0 x) = Ok (Some raw) /\ tune_prop (Some raw) = Ok p.
Proof.
  intros Hm Hs Hok Hsem. unfold okP in Hok. apply andb_true_iff in Hok. destruct Hok as (Hwf & Hrc).
  pose proof (env_match_same _ _ _ Hm Hs) as Hm'. unfold tokP. destruct Hs as (_ & Hbase). rewrite <- Hbase.
  destruct x as [|r]; cbn [sem_pred pred_wf rc_pred render_pred] in *.
  - inversion Hsem; subst p. split; [reflexivity|]. exists ttl_RDF_TYPE_URI. split; reflexivity.
  - destruct (expansion_correct e s r p Hm' (okR_of e r Hwf Hrc) Hsem) as (A & B).
    split; [exact A|]. eexists. split; [exact B | apply tune_prop_iri].
Qed.

(** *** untyped integers *)

Lemma split_single_absent c : forall s fuel acc,
  Forall (fun d => Ascii.eqb c d = false) s -> split_fuel fuel [c] s acc = [rev acc ++ s].
Proof.
  induction s as [|d s IH]; intros fuel acc H; destruct fuel as [|f]; cbn [split_fuel]; try reflexivity.
  - rewrite app_nil_r. reflexivity.
  - inversion H as [|? ? Hd Hs]; subst. cbn [prefixb]. rewrite Hd. cbn [andb].
    rewrite IH by exact Hs. cbn [rev]. rewrite <- app_assoc. reflexivity.
Qed.

Lemma lstrip_first c s : is_space c = false -> lstrip (c :: s) = c :: s.
Proof. intros H. cbn [lstrip]. rewrite H. reflexivity. Qed.

Lemma strip_id s : forallb (fun c => negb (is_space c)) s = true -> strip s = s.
Proof.
  intros H. unfold strip, rstrip.
  assert (H1 : lstrip s = s).
  { destruct s as [|c s]; [reflexivity|]. cbn [forallb] in H. apply andb_true_iff in H. destruct H as (H & _).
    apply lstrip_first. apply negb_true_iff. exact H. }
  rewrite H1.
  assert (H2 : lstrip (rev s) = rev s).
  { destruct (rev s) as [|c r] eqn:E; [reflexivity|].
    apply lstrip_first. rewrite forallb_forall in H. apply negb_true_iff. apply H.
    apply in_rev. rewrite E. left. reflexivity. }
  rewrite H2. apply rev_involutive.
Qed.

Lemma forallb_impl {A} (f g : A -> bool) l :
  (forall x, f x = true -> g x = true) -> forallb f l = true -> forallb g l = true.
Proof. intros H. rewrite !forallb_forall. auto. Qed.

Lemma find_nat_single_forall q s : Forall (fun c => chr_eqb q c = false) s -> find_nat [q] s = None.
Proof. apply find_nat_single_none. Qed.

Definition int_char (c : ascii) : bool := is_dig c || in_str c "+-".

Lemma int_chars d : digits_wf d = true -> forallb int_char d = true /\ exists c t, d = c :: t.
Proof.
  unfold digits_wf. destruct d as [|c t]; [discriminate|]. intros H. split; [|eauto].
  destruct (in_str c "+-") eqn:E.
  - apply andb_true_iff in H. destruct H as (_ & H). cbn [forallb]. unfold int_char at 1. rewrite E, orb_true_r. cbn [andb].
    eapply forallb_impl; [|exact H]. intros x Hx. unfold int_char. rewrite Hx. reflexivity.
  - apply andb_true_iff in H. destruct H as (_ & H).
    eapply forallb_impl; [|exact H]. intros x Hx. unfold int_char. rewrite Hx. reflexivity.
Qed.

Lemma forallb_Forall_neq (f : ascii -> bool) s x :
  forallb f s = true -> f x = false -> Forall (fun c => Ascii.eqb x c = false) s.
Proof.
  intros H Hx. apply Forall_forall. intros c Hin. rewrite forallb_forall in H.
  rewrite Ascii.eqb_sym. apply (pred_neq f c x (H c Hin) Hx).
Qed.

Lemma num_class_int d :
  digits_wf d = true -> (List.length d <= 300)%nat -> num_class d = NumInt.
Proof.
  intros Hwf Hlen. destruct (int_chars d Hwf) as (Hall & c & t & Hd).
  unfold num_class.
  assert (E1 : forallb is_ascii_graph d = true).
  { eapply forallb_impl; [|exact Hall]. intros x Hx.
    destruct (is_ascii_graph x) eqn:E; [reflexivity|]. exfalso.
    assert (Ascii.eqb x x = false) by (apply (pred_neq int_char x x Hx); destruct x as [[] [] [] [] [] [] [] []]; try discriminate E; reflexivity).
    rewrite Ascii.eqb_refl in H. discriminate. }
  rewrite E1. cbn [negb].
  assert (E2 : forallb floatish_char d = true).
  { eapply forallb_impl; [|exact Hall]. intros x Hx. unfold floatish_char, int_char, is_digit, is_sign, chr_eqb in *.
    unfold is_dig, nat_in, in_str in Hx. change (Str "+-") with [chr "+"; chr "-"] in Hx. cbn [existsb] in Hx.
    change "+"%char with (chr "+"). change "-"%char with (chr "-").
    destruct (Nat.leb 48 (nat_of_ascii x) && Nat.leb (nat_of_ascii x) 57); [reflexivity|].
    cbn [orb] in Hx |- *. rewrite orb_false_r in Hx. rewrite Hx. reflexivity. }
  rewrite E2. cbn [negb].
  unfold digits_wf in Hwf. subst d. cbv beta iota zeta in Hwf.
  set (body := if is_sign c then t else c :: t).
  assert (Hbody : body = (if in_str c "+-" then t else c :: t)).
  { unfold body, is_sign, in_str, chr_eqb. change (Str "+-") with [chr "+"; chr "-"]. cbn [existsb].
    rewrite orb_false_r. reflexivity. }
  assert (Hwf' : negb (Nat.eqb (List.length body) 0) && forallb is_dig body = true) by (rewrite Hbody; exact Hwf).
  apply andb_true_iff in Hwf'. destruct Hwf' as (Hne & Hdig).
  assert (Hnodot : Forall (fun x => Ascii.eqb (chr ".") x = false) body) by (apply (forallb_Forall_neq is_dig); [exact Hdig | reflexivity]).
  unfold split. change (Str ".") with [chr "."]. rewrite (split_single_absent (chr ".") body _ [] Hnodot). cbn [rev app].
  assert (E3 : forallb is_digit body = true).
  { eapply forallb_impl; [|exact Hdig]. intros x Hx. unfold is_dig, nat_in, is_digit in *. exact Hx. }
  rewrite E3.
  assert (E4 : (1 <=? len body) = true).
  { apply Z.leb_le. unfold len. destruct body; [discriminate Hne | cbn [List.length]; lia]. }
  assert (E5 : (len body <=? 300) = true).
  { apply Z.leb_le. unfold len. assert (List.length body <= List.length (c :: t))%nat by (unfold body; destruct (is_sign c); cbn [List.length]; lia). lia. }
  rewrite E4, E5. reflexivity.
Qed.

Lemma str_eqb_first_false c t d u : Ascii.eqb c d = false -> str_eqb (c :: t) (d :: u) = false.
Proof. intros H. cbn [str_eqb]. rewrite H. reflexivity. Qed.

Lemma int_correct s b d :
  digits_wf d = true -> (List.length d <= 300)%nat ->
  closure_state d = None /\ vtok b d = d /\ parse_elem s d = Ok (Some d) /\
  exists o', tune_token (Some d) b ttl_dflt_allow_untyped_numbers = Ok o' /\ erase_obj o' = OL [] xsd_integer.
Proof.
  intros Hwf Hlen. destruct (int_chars d Hwf) as (Hall & c & t & Hd).
  pose proof (num_class_int d Hwf Hlen) as Hnum. subst d.
  assert (Hc : int_char c = true) by (cbn [forallb] in Hall; apply andb_true_iff in Hall; apply Hall).
  assert (N : forall x, int_char x = false -> Ascii.eqb c x = false) by (intros x Hx; apply (pred_neq int_char c x Hc Hx)).
  split; [apply closure_state_first; apply N; reflexivity|].
  split; [apply (vtok_not_lt b _ c t eq_refl); apply N; reflexivity|].
  assert (Hcolon : contains ttl_prefix_sep (c :: t) = false).
  { unfold contains. change ttl_prefix_sep with [chr ":"]. rewrite find_nat_single_none; [reflexivity|].
    apply (forallb_Forall_neq int_char); [exact Hall | reflexivity]. }
  assert (Hq : prefixb s_quote (c :: t) = false).
  { cbn [s_quote prefixb]. rewrite Ascii.eqb_sym, (N ttl_lit_open); reflexivity. }
  assert (Hl : prefixb s_lt (c :: t) = false).
  { cbn [s_lt prefixb]. rewrite Ascii.eqb_sym, (N ttl_iri_open); reflexivity. }
  split.
  - unfold parse_elem. rewrite (at_idx_at_pos (c :: t) 0 c t) by (exists []; split; reflexivity).
    unfold chr_eqb. rewrite (N ttl_iri_open) by reflexivity.
    assert (E : mem_str (c :: t) ttl_RDF_TYPE_CONTRACTED = false).
    { change ttl_RDF_TYPE_CONTRACTED with [[chr "a"]; chr "r" :: Str "df:type"]. cbn [mem_str].
      rewrite !str_eqb_first_false by (apply N; reflexivity). reflexivity. }
    rewrite E, Hq, Hcolon.
    assert (E2 : mem_str (c :: t) ttl_BOOLEANS = false).
    { change ttl_BOOLEANS with [chr "t" :: Str "rue"; chr "f" :: Str "alse"]. cbn [mem_str].
      rewrite !str_eqb_first_false by (apply N; reflexivity). reflexivity. }
    rewrite E2, Hnum. reflexivity.
  - unfold tune_token. rewrite Hl, Hq.
    assert (Eb : prefixb ttl_bnode_start (c :: t) = false).
    { change ttl_bnode_start with [chr "_"; chr ":"]. cbn [prefixb]. rewrite Ascii.eqb_sym, (N (chr "_")); reflexivity. }
    rewrite Eb.
    assert (Es : strip (c :: t) = c :: t).
    { apply strip_id. eapply forallb_impl; [|exact Hall]. intros x Hx.
      destruct (is_space x) eqn:E; [|reflexivity]. exfalso.
      assert (Ascii.eqb x x = false) by (apply (pred_neq int_char x x Hx); destruct x as [[] [] [] [] [] [] [] []]; try discriminate E; reflexivity).
      rewrite Ascii.eqb_refl in H. discriminate. }
    rewrite Es. change s_brackets with [chr "["; chr "]"].
    rewrite str_eqb_first_false by (apply N; reflexivity).
    change ttl_dflt_allow_untyped_numbers with true. cbv iota. rewrite Hnum.
    eexists. split; reflexivity.
Qed.
