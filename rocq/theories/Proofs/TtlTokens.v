(** * Lexical facts about the tokens of the dialect (C07): what T2 and T3 need *)
From Coq Require Import List Ascii String ZArith Bool Lia.
From Shexer Require Import Lib.PyStr Lib.Dict Gen.Consts Spec.Rdf Spec.TtlSyntax Spec.TtlDomain Model.TtlReader
  Proofs.TtlProofs Proofs.TtlExpand Proofs.TtlLiteral Proofs.TtlClean.
Import ListNotations.
Local Open Scope Z_scope.

(** neither white space nor a quote *)
Definition solid (c : ascii) : bool := negb (is_space c) && negb (Ascii.eqb c ttl_quote).

Ltac char_cases c :=
  destruct c as [[|] [|] [|] [|] [|] [|] [|] [|]]; vm_compute; intros; first [reflexivity | discriminate | assumption].

Lemma iri_char_solid c : iri_char c = true -> solid c = true.
Proof. char_cases c. Qed.
Lemma name_char_solid c : name_char c || in_str c "-.:" = true -> solid c = true.
Proof. char_cases c. Qed.
Lemma int_char_solid c : int_char c = true -> solid c = true.
Proof. char_cases c. Qed.
Lemma tag_char_solid c : is_alpha c || is_dig c || in_str c "-" = true -> solid c = true.
Proof. char_cases c. Qed.
Lemma iri_char_not_gt c : iri_char c = true -> chr_eqb (chr ">") c = false.
Proof. char_cases c. Qed.

Lemma solid_not_blank c : solid c = true -> chr_eqb c ttl_blank = false.
Proof. char_cases c. Qed.
Lemma solid_not_space c : solid c = true -> is_space c = false.
Proof. char_cases c. Qed.
Lemma solid_not_other c : solid c = true -> mem_chr c ttl_other_blanks = false.
Proof. char_cases c. Qed.
Lemma solid_not_quote c : solid c = true -> Ascii.eqb ttl_quote c = false.
Proof. char_cases c. Qed.

Definition all_solid (w : str) : bool := forallb solid w.

Lemma all_solid_app a b : all_solid a = true -> all_solid b = true -> all_solid (a ++ b) = true.
Proof. unfold all_solid. rewrite forallb_app. intros -> ->. reflexivity. Qed.

Lemma forallb_solid f w : (forall c, f c = true -> solid c = true) -> forallb f w = true -> all_solid w = true.
Proof. intros H. apply forallb_impl. exact H. Qed.

Section Solid.
  Variable w : str.
  Hypothesis Hs : all_solid w = true.
  Hypothesis Hne : w <> [].

  Lemma solid_Forall (P : ascii -> Prop) : (forall c, solid c = true -> P c) -> Forall P w.
  Proof. intros H. apply Forall_forall. intros c Hin. apply H. unfold all_solid in Hs. rewrite forallb_forall in Hs. auto. Qed.

  Lemma solid_tail_ok : tail_ok w = true.
  Proof.
    clear Hne. induction w as [|c w' IH]; [reflexivity|].
    unfold all_solid in Hs. cbn [forallb] in Hs. apply andb_true_iff in Hs. destruct Hs as (Hc & Hw).
    cbn [tail_ok]. unfold is_bl. rewrite (solid_not_blank c Hc). destruct w' as [|d w'']; [reflexivity|].
    cbn [andb negb]. apply IH. exact Hw.
  Qed.

  Lemma solid_word_ok : word_ok w = true.
  Proof.
    unfold word_ok. rewrite !andb_true_iff. repeat split.
    - unfold no_other_blanks. eapply forallb_impl; [|exact Hs]. intros c Hc. rewrite (solid_not_other c Hc). reflexivity.
    - apply solid_tail_ok.
    - destruct w as [|c w']; [contradiction|]. unfold all_solid in Hs. cbn [forallb] in Hs. apply andb_true_iff in Hs.
      cbn [first_ok]. rewrite (solid_not_space c (proj1 Hs)). reflexivity.
    - unfold last_ok. destruct (rev w) as [|c r] eqn:E; [reflexivity|].
      unfold all_solid in Hs. rewrite forallb_forall in Hs.
      rewrite (solid_not_space c); [reflexivity|]. apply Hs. apply in_rev. rewrite E. left. reflexivity.
    - destruct w; [contradiction | reflexivity].
  Qed.

  Lemma solid_quote_free : quote_free w.
  Proof. apply solid_Forall. apply solid_not_quote. Qed.

  Lemma solid_not_blank_all : Forall not_blank w.
  Proof. apply solid_Forall. apply solid_not_blank. Qed.

  Lemma solid_no_blank_decomp A R : w <> A ++ ttl_blank :: R.
  Proof.
    intros E. unfold all_solid in Hs. rewrite forallb_forall in Hs.
    assert (Hin : In ttl_blank w) by (rewrite E; apply in_or_app; right; left; reflexivity).
    specialize (Hs _ Hin). discriminate Hs.
  Qed.

  Lemma solid_word_nohash : first_ok (fun c => negb (Ascii.eqb c (chr "#"))) w = true -> word_nohash w.
  Proof.
    intros Hf. unfold word_nohash. repeat split; [| |exact Hf|exact Hne].
    - unfold contains. change hash_pat with (ttl_blank :: [chr "#"]).
      assert (E : find_nat (ttl_blank :: [chr "#"]) w = None); [|rewrite E; reflexivity].
      apply find_none_decomp. intros A R HE. exfalso. exact (solid_no_blank_decomp A R HE).
    - unfold last_ok. destruct (rev w) as [|c r] eqn:E; [reflexivity|].
      unfold all_solid in Hs. rewrite forallb_forall in Hs. unfold is_bl.
      rewrite (solid_not_blank c); [reflexivity|]. apply Hs. apply in_rev. rewrite E. left. reflexivity.
  Qed.
End Solid.

(** ** IRI references *)

Lemma ref_solid r : ref_wf r = true -> all_solid (render_ref r) = true.
Proof.
  destruct r as [i|x|p l]; cbn [ref_wf render_ref]; rewrite ?andb_true_iff.
  - intros (H & _). apply all_solid_app; [reflexivity|]. apply all_solid_app; [|reflexivity].
    apply (forallb_solid _ _ iri_char_solid H).
  - intros (H & _). apply all_solid_app; [reflexivity|]. apply all_solid_app; [|reflexivity].
    apply (forallb_solid _ _ iri_char_solid H).
  - intros ((((H1 & _) & H2) & _) & _). apply all_solid_app; [|apply all_solid_app; [reflexivity|]].
    + eapply forallb_solid; [|exact H1]. intros c Hc. apply name_char_solid.
      apply orb_true_iff in Hc. destruct Hc as [Hc|Hc]; [rewrite Hc; reflexivity|].
      apply orb_true_iff. right. revert Hc. char_cases c.
    + eapply forallb_solid; [|exact H2]. intros c Hc. apply name_char_solid. exact Hc.
Qed.

Lemma ref_nonempty r : render_ref r <> [].
Proof. destruct r as [i|x|p l]; cbn [render_ref]; [discriminate | discriminate | destruct p; discriminate]. Qed.

(** first character of a rendered reference *)
Definition start_char (c : ascii) : bool :=
  is_alpha c || is_utf8 c || Ascii.eqb c (chr "<") || Ascii.eqb c (chr ":").

Lemma ref_first r : ref_wf r = true -> first_ok start_char (render_ref r) = true.
Proof.
  destruct r as [i|x|p l]; cbn [ref_wf render_ref]; [reflexivity | reflexivity |].
  rewrite !andb_true_iff. intros ((((_ & Hf) & _) & _) & _).
  destruct p as [|c p']; [reflexivity|]. cbn [app first_ok] in *. unfold start_char. rewrite Hf. reflexivity.
Qed.

Lemma start_char_not_hash c : start_char c = true -> negb (Ascii.eqb c (chr "#")) = true.
Proof. char_cases c. Qed.

Lemma first_ok_impl (f g : ascii -> bool) w : (forall c, f c = true -> g c = true) -> first_ok f w = true -> first_ok g w = true.
Proof. destruct w; [reflexivity | cbn; auto]. Qed.

Lemma ref_tshape r : ref_wf r = true -> tshape (render_ref r).
Proof.
  intros Hwf. destruct r as [i|x|p l].
  - cbn [render_ref]. apply (sh_iri i). cbn [ref_wf] in Hwf. apply andb_true_iff in Hwf. destruct Hwf as (H & _).
    apply Forall_forall. intros c Hin. rewrite forallb_forall in H. apply iri_char_not_gt. auto.
  - cbn [render_ref]. apply (sh_iri x). cbn [ref_wf] in Hwf. apply andb_true_iff in Hwf. destruct Hwf as (H & _).
    apply Forall_forall. intros c Hin. rewrite forallb_forall in H. apply iri_char_not_gt. auto.
  - pose proof (ref_solid _ Hwf) as Hs. pose proof (ref_first _ Hwf) as Hf.
    destruct (render_ref (IPre p l)) as [|c t] eqn:E; [exfalso; exact (ref_nonempty _ E)|].
    apply sh_other; [|apply (solid_not_blank_all _ Hs)].
    cbn [first_ok] in Hf.
    assert (Hc : is_alpha c || is_utf8 c || Ascii.eqb c (chr ":") = true).
    { cbn [render_ref] in E. destruct p as [|c0 p']; cbn [app] in E; inversion E; subst.
      - reflexivity.
      - cbn [ref_wf] in Hwf. rewrite !andb_true_iff in Hwf. destruct Hwf as ((((_ & Hf0) & _) & _) & _).
        cbn [first_ok] in Hf0. rewrite Hf0. reflexivity. }
    clear - Hc. unfold plain_start, not_blank. revert Hc. destruct c as [[|] [|] [|] [|] [|] [|] [|] [|]]; vm_compute; intros; repeat split; first [reflexivity | discriminate].
Qed.

(** ** blank nodes, [a], integers, punctuation *)

Definition nohash_first (w : str) : bool := first_ok (fun c => negb (Ascii.eqb c (chr "#"))) w.

(** what the proofs need to know about a token without blanks *)
Definition solid_tok (w : str) : Prop :=
  all_solid w = true /\ w <> [] /\ nohash_first w = true /\ tshape w.

Lemma label_solid l : label_wf l = true -> all_solid l = true.
Proof.
  unfold label_wf. rewrite !andb_true_iff. intros (((_ & H) & _) & _).
  eapply forallb_solid; [|exact H]. intros c Hc. apply name_char_solid.
  apply orb_true_iff in Hc. destruct Hc as [Hc|Hc]; [rewrite Hc; reflexivity|]. revert Hc. char_cases c.
Qed.

Lemma plain_start_underscore : plain_start (chr "_").
Proof. repeat split. Qed.

Lemma bnode_solid_tok l : label_wf l = true -> solid_tok (Str "_:" ++ l).
Proof.
  intros H. pose proof (label_solid l H) as Hs.
  assert (Ha : all_solid (Str "_:" ++ l) = true) by (apply all_solid_app; [reflexivity | exact Hs]).
  repeat split; [exact Ha | discriminate |].
  change (Str "_:" ++ l) with (chr "_" :: chr ":" :: l) in *.
  apply sh_other; [apply plain_start_underscore | apply (solid_not_blank_all _ Ha)].
Qed.

Lemma ref_solid_tok r : ref_wf r = true -> solid_tok (render_ref r).
Proof.
  intros H. repeat split; [apply ref_solid; exact H | apply ref_nonempty | | apply ref_tshape; exact H].
  unfold nohash_first. apply (first_ok_impl start_char); [apply start_char_not_hash | apply ref_first; exact H].
Qed.

Lemma a_solid_tok : solid_tok (Str "a").
Proof.
  repeat split; try discriminate. change (Str "a") with [chr "a"]. apply sh_other; [repeat split | repeat constructor].
Qed.

Lemma int_plain_start c : int_char c = true -> plain_start c.
Proof.
  unfold plain_start, not_blank. destruct c as [[|] [|] [|] [|] [|] [|] [|] [|]]; vm_compute; intros; repeat split; first [reflexivity | discriminate].
Qed.

Lemma int_not_hash c : int_char c = true -> negb (Ascii.eqb c (chr "#")) = true.
Proof. char_cases c. Qed.

Lemma int_solid_tok d : digits_wf d = true -> solid_tok d.
Proof.
  intros H. destruct (int_chars d H) as (Hall & c & t & ->).
  assert (Hs : all_solid (c :: t) = true) by (apply (forallb_solid _ _ int_char_solid Hall)).
  assert (Hc : int_char c = true) by (cbn [forallb] in Hall; apply andb_true_iff in Hall; apply Hall).
  repeat split; [exact Hs | discriminate | apply int_not_hash; exact Hc |].
  apply sh_other; [apply int_plain_start; exact Hc | apply (solid_not_blank_all _ Hs)].
Qed.

Lemma punct_solid_tok c : mem_str [c] ttl_CLOSURES = true -> solid_tok [c].
Proof.
  intros H. destruct (closure_chars c H) as [->|[->| ->]]; (repeat split; [discriminate | apply sh_closure; reflexivity]).
Qed.

(** ** string literals *)

Definition not_lfcr (c : ascii) : bool := negb (Ascii.eqb c (ascii_of_nat 10) || Ascii.eqb c (ascii_of_nat 13)).

Lemma hex_plain c : is_hex c = true ->
  chr_eqb c ttl_quote = false /\ chr_eqb c chr_backslash = false /\ not_lfcr c = true.
Proof. destruct c as [[|] [|] [|] [|] [|] [|] [|] [|]]; vm_compute; intros; repeat split; first [reflexivity | discriminate]. Qed.

Lemma Lex_app_plain a b :
  Forall (fun c => chr_eqb c ttl_quote = false /\ chr_eqb c chr_backslash = false) a -> Lex b -> Lex (a ++ b).
Proof. induction 1 as [|c a (H1 & H2) Ha IH]; intros Hb; [exact Hb|]. cbn [app]. apply Lex_plain; auto. Qed.

Lemma firstn_skipn_hex n (s : str) :
  forallb is_hex (firstn n s) = true ->
  Forall (fun c => chr_eqb c ttl_quote = false /\ chr_eqb c chr_backslash = false) (firstn n s) /\
  forallb not_lfcr (firstn n s) = true.
Proof.
  intros H. split.
  - apply Forall_forall. intros c Hin. rewrite forallb_forall in H. destruct (hex_plain c (H c Hin)) as (A & B & _). auto.
  - eapply forallb_impl; [|exact H]. intros c Hc. apply (hex_plain c Hc).
Qed.

Lemma lex_wf_fuel_facts : forall fuel s, lex_wf_fuel fuel s = true -> Lex s /\ forallb not_lfcr s = true.
Proof.
  induction fuel as [|f IH]; intros s H; [discriminate|].
  cbn [lex_wf_fuel] in H. destruct s as [|c s']; [split; [constructor | reflexivity]|].
  destruct (Ascii.eqb c (chr "\")) eqn:Ebs.
  - apply Ascii.eqb_eq in Ebs. subst c. destruct s' as [|e s'']; [discriminate|].
    destruct (in_str e "tbnrf""'\") eqn:Ee.
    + destruct (IH _ H) as (HL & HN). split; [apply Lex_esc; exact HL|].
      cbn [forallb]. rewrite HN, andb_true_r. change (not_lfcr (chr "\")) with true. cbn [andb].
      revert Ee. clear. destruct e as [[|] [|] [|] [|] [|] [|] [|] [|]]; vm_compute; intros; first [reflexivity | discriminate].
    + destruct (Ascii.eqb e (chr "u")) eqn:Eu.
      * apply Ascii.eqb_eq in Eu. subst e. rewrite !andb_true_iff in H. destruct H as ((Hh & _) & Hr).
        destruct (IH _ Hr) as (HL & HN). destruct (firstn_skipn_hex 4 s'' Hh) as (HP & HQ).
        rewrite <- (firstn_skipn 4 s''). split.
        -- apply Lex_esc. apply Lex_app_plain; assumption.
        -- cbn [forallb]. rewrite forallb_app, HQ, HN. reflexivity.
      * destruct (Ascii.eqb e (chr "U")) eqn:EU; [|discriminate].
        apply Ascii.eqb_eq in EU. subst e. rewrite !andb_true_iff in H. destruct H as ((Hh & _) & Hr).
        destruct (IH _ Hr) as (HL & HN). destruct (firstn_skipn_hex 8 s'' Hh) as (HP & HQ).
        rewrite <- (firstn_skipn 8 s''). split.
        -- apply Lex_esc. apply Lex_app_plain; assumption.
        -- cbn [forallb]. rewrite forallb_app, HQ, HN. reflexivity.
  - destruct (in_str c """" || Ascii.eqb c (ascii_of_nat 10) || Ascii.eqb c (ascii_of_nat 13)) eqn:Eq; [discriminate|].
    destruct (IH _ H) as (HL & HN). split.
    + apply Lex_plain; [| |exact HL].
      * apply orb_false_iff in Eq. destruct Eq as (Eq & _). apply orb_false_iff in Eq. destruct Eq as (Eq & _).
        unfold in_str in Eq. change (Str """") with [ttl_quote] in Eq. cbn [existsb] in Eq. rewrite orb_false_r in Eq. exact Eq.
      * exact Ebs.
    + cbn [forallb]. rewrite HN, andb_true_r. unfold not_lfcr.
      apply orb_false_iff in Eq. destruct Eq as (Eq & E13). apply orb_false_iff in Eq. destruct Eq as (_ & E10).
      rewrite E10, E13. reflexivity.
Qed.

Lemma lex_wf_facts s : lex_wf s = true -> Lex s /\ forallb not_lfcr s = true.
Proof. apply lex_wf_fuel_facts. Qed.

Definition bb : str := [ttl_blank; ttl_blank].

Lemma tail_ok_cons_nonblank c w : is_bl c = false -> w <> [] -> tail_ok (c :: w) = tail_ok w.
Proof. intros Hc Hw. destruct w as [|d w']; [contradiction|]. cbn [tail_ok]. rewrite Hc. reflexivity. Qed.

(** no double blank in [lex], then something that starts with a non-blank *)
Lemma tail_ok_lex_then : forall lex r0 rest,
  find_nat bb lex = None -> is_bl r0 = false -> tail_ok (r0 :: rest) = true -> tail_ok (lex ++ r0 :: rest) = true.
Proof.
  induction lex as [|c lex IH]; intros r0 rest Hf Hr Ht; [exact Ht|].
  apply find_nat_none_cons in Hf. destruct Hf as (Hp & Hf).
  change ((c :: lex) ++ r0 :: rest) with (c :: (lex ++ r0 :: rest)).
  destruct lex as [|d lex'].
  - cbn [app]. change (tail_ok (c :: r0 :: rest)) with (negb (is_bl c && is_bl r0) && tail_ok (r0 :: rest)).
    rewrite Hr, andb_false_r, Ht. reflexivity.
  - change ((d :: lex') ++ r0 :: rest) with (d :: (lex' ++ r0 :: rest)).
    change (tail_ok (c :: d :: lex' ++ r0 :: rest)) with (negb (is_bl c && is_bl d) && tail_ok ((d :: lex') ++ r0 :: rest)).
    rewrite (IH r0 rest Hf Hr Ht), andb_true_r.
    unfold bb in Hp. cbn [prefixb] in Hp. unfold is_bl, chr_eqb. rewrite (Ascii.eqb_sym c), (Ascii.eqb_sym d).
    destruct (Ascii.eqb ttl_blank c); [|reflexivity]. destruct (Ascii.eqb ttl_blank d); [discriminate Hp | reflexivity].
Qed.

(** the text after the closing quote *)
Definition sfx_text (sfx : lit_suffix) : str :=
  match sfx with LPlain => [] | LLang t => chr "@" :: t | LTyped r => cc ++ render_ref r end.

Lemma render_lit lex sfx : render_obj (OLit lex sfx) = qc :: lex ++ qc :: sfx_text sfx.
Proof. destruct sfx; reflexivity. Qed.

Lemma tag_solid t : tag_wf t = true -> all_solid t = true.
Proof.
  unfold tag_wf. rewrite !andb_true_iff. intros ((((_ & _) & _) & H) & _).
  apply (forallb_solid _ _ tag_char_solid H).
Qed.

Lemma sfx_solid lex sfx : obj_wf (OLit lex sfx) = true -> all_solid (sfx_text sfx) = true /\ lit_sfx (sfx_text sfx).
Proof.
  destruct sfx as [|t|r]; cbn [obj_wf sfx_text].
  - intros _. split; [reflexivity | left; reflexivity].
  - intros H. apply andb_true_iff in H. destruct H as (_ & Ht). pose proof (tag_solid t Ht) as Hs.
    assert (Ha : all_solid (chr "@" :: t) = true) by (apply (all_solid_app [chr "@"] t eq_refl Hs)).
    split; [exact Ha|]. right. exists (chr "@"), t. repeat split. apply (solid_not_blank_all _ Ha).
  - intros H. apply andb_true_iff in H. destruct H as (_ & Hr). pose proof (ref_solid r Hr) as Hs.
    assert (Ha : all_solid (cc ++ render_ref r) = true) by (apply all_solid_app; [reflexivity | exact Hs]).
    split; [exact Ha|]. right. exists (chr "^"), (chr "^" :: render_ref r). repeat split. apply (solid_not_blank_all _ Ha).
Qed.

Lemma lex_of_wf lex sfx : obj_wf (OLit lex sfx) = true -> lex_wf lex = true.
Proof. destruct sfx; cbn [obj_wf]; rewrite ?andb_true_iff; tauto. Qed.

Lemma last_ok_cons f c (w : str) : w <> [] -> last_ok f (c :: w) = last_ok f w.
Proof. intros H. change (c :: w) with ([c] ++ w). apply last_ok_app. exact H. Qed.

Lemma all_solid_last f (w : str) : all_solid w = true -> (forall c, solid c = true -> f c = true) -> last_ok f w = true.
Proof.
  intros Hs Hf. unfold last_ok. destruct (rev w) as [|c r] eqn:E; [reflexivity|].
  apply Hf. unfold all_solid in Hs. rewrite forallb_forall in Hs. apply Hs. apply in_rev. rewrite E. left. reflexivity.
Qed.

(** the three facts about a string-literal token whose lexical form has
    neither a tab nor two blanks in a row *)
Lemma lit_tok_facts lex sfx :
  obj_wf (OLit lex sfx) = true ->
  contains [ascii_of_nat 9] lex = false -> contains (Str "  ") lex = false ->
  word_ok (render_obj (OLit lex sfx)) = true /\ tshape (render_obj (OLit lex sfx)) /\
  (contains (Str " #") lex = false -> word_nohash (render_obj (OLit lex sfx))).
Proof.
  intros Hwf Htab Hbb. rewrite render_lit.
  destruct (sfx_solid lex sfx Hwf) as (Hss & Hls).
  destruct (lex_wf_facts lex (lex_of_wf lex sfx Hwf)) as (HLex & Hlfcr).
  set (S := sfx_text sfx) in *.
  assert (Hlast : forall f, (forall c, solid c = true -> f c = true) -> f qc = true ->
                  last_ok f (qc :: lex ++ qc :: S) = true).
  { intros f Hf Hq. rewrite last_ok_cons by (destruct lex; discriminate).
    rewrite last_ok_app by discriminate. destruct S as [|s0 S'] eqn:ES.
    - exact Hq.
    - rewrite last_ok_cons by discriminate. rewrite <- ES in *. apply all_solid_last; assumption. }
  split; [|split].
  - unfold word_ok. rewrite !andb_true_iff. repeat split.
    + unfold no_other_blanks. cbn [forallb]. change (negb (mem_chr qc ttl_other_blanks)) with true. cbn [andb].
      rewrite forallb_app. cbn [forallb]. change (negb (mem_chr qc ttl_other_blanks)) with true. cbn [andb].
      apply andb_true_iff. split.
      * apply contains_single_false in Htab. rewrite forallb_forall. intros c Hin.
        rewrite forallb_forall in Hlfcr. specialize (Hlfcr c Hin). rewrite Forall_forall in Htab. specialize (Htab c Hin).
        revert Hlfcr Htab. clear. unfold not_lfcr. destruct c as [[|] [|] [|] [|] [|] [|] [|] [|]]; vm_compute; intros; first [reflexivity | discriminate].
      * eapply forallb_impl; [|exact Hss]. intros c Hc. rewrite (solid_not_other c Hc). reflexivity.
    + rewrite tail_ok_cons_nonblank by (reflexivity || (destruct lex; discriminate)).
      apply tail_ok_lex_then; [apply contains_false_find; exact Hbb | reflexivity |].
      destruct S as [|s0 S'] eqn:ES; [reflexivity|].
      rewrite tail_ok_cons_nonblank by (reflexivity || discriminate). rewrite <- ES. apply solid_tail_ok. rewrite ES. exact Hss.
    + apply Hlast; [intros c Hc; rewrite (solid_not_space c Hc); reflexivity | reflexivity].
  - change (qc :: lex ++ qc :: S) with (s_quote ++ lex ++ s_quote ++ S). apply sh_lit; assumption.
  - intros Hh. unfold word_nohash. repeat split; [| |discriminate].
    + unfold contains. change hash_pat with (ttl_blank :: [chr "#"]).
      assert (E : find_nat (ttl_blank :: [chr "#"]) (qc :: lex ++ qc :: S) = None); [|rewrite E; reflexivity].
      apply find_none_decomp. intros A R HE.
      change (qc :: lex ++ qc :: S) with ((qc :: lex) ++ qc :: S) in HE.
      destruct (decomp_app ttl_blank (qc :: S) (qc :: lex) A R HE) as [(R0 & HX & ->) | (A2 & -> & HY)].
      * destruct A as [|a A']; cbn [app] in HX; [discriminate HX|]. injection HX as _ HX.
        apply contains_false_find in Hh. change (Str " #") with (ttl_blank :: [chr "#"]) in Hh.
        pose proof (proj1 (find_none_decomp ttl_blank [chr "#"] lex) Hh A' R0 HX) as H0.
        destruct R0 as [|r0 R0']; [reflexivity | exact H0].
      * exfalso. destruct A2 as [|a A2']; cbn [app] in HY; [discriminate HY|]. injection HY as _ HY.
        exact (solid_no_blank_decomp _ Hss A2' R HY).
    + apply Hlast; [intros c Hc; unfold is_bl; rewrite (solid_not_blank c Hc); reflexivity | reflexivity].
Qed.
