From Coq Require Import List Ascii String ZArith Bool Lia.
From Shexer Require Import Lib.PyStr Gen.Consts Model.Config Spec.ConfigSpec.
Import ListNotations.

Lemma count_true_app l1 l2 : count_true (l1 ++ l2) = count_true l1 + count_true l2.
Proof. unfold count_true. rewrite filter_app, app_length. reflexivity. Qed.

Lemma count_true_all_false l : Forall (fun b => b = false) l -> count_true l = 0.
Proof.
  induction 1 as [|b l Hb _ IH]; [reflexivity|]. subst b. exact IH.
Qed.

Lemma count_true_zero l : count_true l = 0 -> Forall (fun b => b = false) l.
Proof.
  induction l as [|b l IH]; intros H; [constructor|].
  destruct b; [discriminate|]. constructor; [reflexivity | apply IH; exact H].
Qed.

Lemma just_one_spec l : just_one l = true <-> exactly_one l.
Proof.
  unfold just_one. rewrite Nat.eqb_eq. split.
  - induction l as [|b l IH]; intros H; [discriminate|].
    destruct b.
    + exists [], l. repeat split; [constructor|].
      apply count_true_zero. unfold count_true in *. cbn in H. lia.
    + destruct (IH H) as (l1 & l2 & -> & H1 & H2).
      exists (false :: l1), l2. repeat split; [constructor; auto | exact H2].
  - intros (l1 & l2 & -> & H1 & H2).
    rewrite count_true_app. change (true :: l2) with ([true] ++ l2). rewrite count_true_app.
    rewrite (count_true_all_false _ H1), (count_true_all_false _ H2). reflexivity.
Qed.

Lemma mem_opt_some x l : mem_opt_str (Some x) (map Some l) = mem_str x l.
Proof. induction l as [|y l IH]; [reflexivity|]. cbn. rewrite IH. reflexivity. Qed.

(** The code's membership lists are the documented ones (this is where a
    changed list in shaper.py breaks the proof). *)
Lemma input_formats_documented x : mem_str x shaper_input_formats = true <-> In x documented_input_formats.
Proof.
  rewrite mem_str_In. unfold shaper_input_formats, documented_input_formats. cbn. tauto.
Qed.

Lemma output_formats_documented x : mem_str x shaper_output_formats = true <-> In x documented_output_formats.
Proof.
  rewrite mem_str_In. unfold shaper_output_formats, documented_output_formats. cbn. tauto.
Qed.

Lemma mem_opt_str_In o l : mem_opt_str o l = true <-> In o l.
Proof.
  induction l as [|y l IH]; cbn; [split; [discriminate | tauto]|].
  rewrite orb_true_iff, IH.
  destruct o as [a|], y as [b|]; try rewrite str_eqb_eq;
    split; intros [H|H]; auto; try discriminate; try (inversion H; auto); subst; auto.
Qed.

Lemma compression_documented o :
  mem_opt_str o shaper_compression_modes = true <-> opt_in o documented_compression.
Proof.
  rewrite mem_opt_str_In. unfold shaper_compression_modes, documented_compression.
  destruct o as [s|]; cbn.
  - split; intros H; repeat destruct H as [H|H]; try discriminate; try (inversion H; subst); auto; subst; auto; tauto.
  - tauto.
Qed.

Lemma examples_documented o :
  mem_opt_str o shaper_examples_modes = true <-> opt_in o documented_examples.
Proof.
  rewrite mem_opt_str_In. unfold shaper_examples_modes, documented_examples.
  destruct o as [s|]; cbn.
  - split; intros H; repeat destruct H as [H|H]; try discriminate; try (inversion H; subst); auto; subst; auto; tauto.
  - tauto.
Qed.

(** what the six checks of [__init__] decide: [valid_ctor] without the
    "two shape maps" clause, which the shape-map parser enforces afterwards *)
Definition valid_checks (c : ctor_cfg) : Prop :=
  exactly_one (sources c) /\
  (if all_classes_mode c
   then tgt_target_classes c = false /\ tgt_file_target_classes c = false
   else exactly_one (targets c)) /\
  In (input_format c) documented_input_formats /\
  opt_in (compression_mode c) documented_compression /\
  (compression_mode c <> None -> ~ remote_source c) /\
  opt_in (examples_mode c) documented_examples /\
  ~ (disable_or_statements c = true /\ allow_redundant_or c = true).

Lemma ctor_checks_spec c : ctor_checks c = true <-> valid_checks c.
Proof.
  unfold ctor_checks, valid_checks, check_target_classes, check_or_config, check_input_format,
         check_compression_mode, check_examples_mode, remote_source.
  rewrite !andb_true_iff, just_one_spec, input_formats_documented, examples_documented,
          compression_documented.
  assert (Ht : (if all_classes_mode c
                then negb (tgt_target_classes c || tgt_file_target_classes c)
                else just_one (targets c)) = true <->
               (if all_classes_mode c
                then tgt_target_classes c = false /\ tgt_file_target_classes c = false
                else exactly_one (targets c))).
  { destruct (all_classes_mode c); [rewrite negb_true_iff, orb_false_iff; tauto | apply just_one_spec]. }
  rewrite Ht.
  assert (Hor : negb (disable_or_statements c && allow_redundant_or c) = true <->
                ~ (disable_or_statements c = true /\ allow_redundant_or c = true)).
  { destruct (disable_or_statements c), (allow_redundant_or c); cbn; intuition congruence. }
  rewrite Hor.
  assert (Hc : negb (is_some (compression_mode c) &&
                     (src_url_endpoint c || src_url_graph c || src_list_of_url c)) = true <->
               (compression_mode c <> None ->
                ~ (src_url_endpoint c = true \/ src_url_graph c = true \/ src_list_of_url c = true))).
  { destruct (compression_mode c), (src_url_endpoint c), (src_url_graph c), (src_list_of_url c);
      cbn; intuition congruence. }
  rewrite Hc. tauto.
Qed.

Lemma exactly_one_not_two a b c d : exactly_one [a; b; c; d] -> ~ (c = true /\ d = true).
Proof.
  rewrite <- just_one_spec. destruct a, b, c, d; cbn; intuition congruence.
Qed.

Lemma valid_ctor_split c :
  valid_ctor c <-> valid_checks c /\
                   ~ (all_classes_mode c = true /\ tgt_shape_map_file c = true /\ tgt_shape_map_raw c = true).
Proof.
  unfold valid_ctor, valid_checks.
  destruct (all_classes_mode c) eqn:E; [tauto|].
  split; [intros H; split; [tauto | intros [A _]; discriminate] | tauto].
Qed.

(** Domain on which the constructor is proved to implement the reference
    predicate: no shape map, or a shape map whose graph wrapper can be built. *)
Definition C20_dom (c : ctor_cfg) : bool :=
  negb (has_shape_map c) ||
  match sgraph_stage c with Accept => true | _ => false end.

Lemma ctor_iff c : C20_dom c = true ->
  (ctor c = Accept <-> valid_ctor c) /\ (ctor c = RejectValueError <-> ~ valid_ctor c).
Proof.
  intros Hd.
  assert (Hdec : ctor c = Accept \/ ctor c = RejectValueError).
  { unfold ctor, shape_map_stage. unfold C20_dom in Hd.
    destruct (ctor_checks c); [|auto].
    destruct (has_shape_map c); cbn in *; [|auto].
    destruct (sgraph_stage c); try discriminate.
    destruct (tgt_shape_map_file c && tgt_shape_map_raw c); auto. }
  assert (Hacc : ctor c = Accept <-> valid_ctor c).
  { rewrite valid_ctor_split. unfold ctor, shape_map_stage. unfold C20_dom in Hd.
    pose proof (ctor_checks_spec c) as Hs.
    destruct (ctor_checks c).
    - assert (Hv : valid_checks c) by (apply Hs; reflexivity).
      unfold has_shape_map in *.
      destruct (all_classes_mode c) eqn:Ea.
      + destruct (tgt_shape_map_file c) eqn:Ef, (tgt_shape_map_raw c) eqn:Er; cbn in *;
          try (destruct (sgraph_stage c); try discriminate);
          split; intros H; try discriminate; try reflexivity; try tauto;
          split; try assumption; intros (_ & A & B); discriminate.
      + (* exactly one target: not both shape maps *)
        assert (Hn : ~ (tgt_shape_map_file c = true /\ tgt_shape_map_raw c = true)).
        { unfold valid_checks in Hv. rewrite Ea in Hv. destruct Hv as (_ & Ht & _).
          unfold targets in Ht. eapply exactly_one_not_two; exact Ht. }
        destruct (tgt_shape_map_file c) eqn:Ef, (tgt_shape_map_raw c) eqn:Er; cbn in *;
          try (exfalso; apply Hn; split; reflexivity);
          try (destruct (sgraph_stage c); try discriminate);
          split; intros H; try reflexivity; split; try assumption; intros (A & _); discriminate.
    - split; [discriminate|]. intros [Hv _]. apply Hs in Hv. discriminate.
  }
  split; [exact Hacc|].
  split.
  - intros H Hv. apply Hacc in Hv. congruence.
  - intros Hn. destruct Hdec as [H|H]; [apply Hacc in H; contradiction | exact H].
Qed.

(** outside the domain the constructor never accepts an invalid configuration
    (it can only reject more) *)
Lemma ctor_accept_sound c : ctor c = Accept -> valid_ctor c.
Proof.
  intros H. rewrite valid_ctor_split.
  unfold ctor in H. pose proof (ctor_checks_spec c) as Hs.
  destruct (ctor_checks c); [|discriminate].
  split; [apply Hs; reflexivity|].
  intros (Ha & Hf & Hr). unfold shape_map_stage, has_shape_map in H. rewrite Hf, Hr in H. cbn in H.
  destruct (sgraph_stage c); discriminate.
Qed.

Lemma call_iff k : (0 < thr_den k)%Z ->
  (call k = Accept <-> valid_call k) /\ (call k = RejectValueError <-> ~ valid_call k).
Proof.
  intros Hden.
  assert (Hs : (check_output_params k && check_output_format k && check_threshold k) = true <-> valid_call k).
  { unfold valid_call, check_output_params, check_output_format, check_threshold.
    rewrite !andb_true_iff, output_formats_documented, !negb_true_iff.
    rewrite orb_false_iff, !Z.ltb_ge.
    destruct (string_output k), (has_output_file k), (has_uml_path k); cbn;
      split; intros H; repeat split; try tauto; try lia; try (destruct H as [[? | [?|?]] _]; discriminate);
      destruct H as (? & ? & ?); try tauto; lia. }
  unfold call.
  destruct (check_output_params k && check_output_format k && check_threshold k);
    split; split; intros H; try discriminate; try reflexivity.
  - apply Hs; reflexivity.
  - exfalso. apply H, Hs. reflexivity.
  - apply Hs in H. discriminate.
  - intros Hv. apply Hs in Hv. discriminate.
Qed.
