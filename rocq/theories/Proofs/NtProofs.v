(** * Proofs about the N-Triples reader model (property C06). *)
From Coq Require Import List Ascii String ZArith Bool Lia Arith.
From Shexer Require Import Lib.PyStr Gen.Consts Model.NtReader Spec.NtSyntax Spec.NtDom Proofs.NtStrLemmas.
Import ListNotations.
Local Open Scope Z_scope.

Ltac ascii_cases c := destruct c as [[] [] [] [] [] [] [] []].

(** ** characters *)
Lemma code_inj c n : code c = n -> c = ascii_of_nat n.
Proof. unfold code. intros <-. symmetry. apply ascii_nat_embedding. Qed.

Lemma is_ch_eq n c : is_ch n c = true -> c = ascii_of_nat n.
Proof. unfold is_ch. intros H. apply Nat.eqb_eq in H. apply code_inj. exact H. Qed.

Lemma is_ws_cases c : is_ws c = true -> c = " "%char \/ c = ascii_of_nat 9.
Proof.
  unfold is_ws, one_of. cbn [existsb]. rewrite !orb_true_iff. intros [H | [H | H]]; [| |discriminate].
  - left. apply is_ch_eq in H. exact H.
  - right. apply is_ch_eq in H. exact H.
Qed.

Lemma is_blank_ws c : is_blank c = is_ws c.
Proof. ascii_cases c; reflexivity. Qed.

Lemma forallb_notin {A} (f : A -> bool) s x : forallb f s = true -> f x = false -> ~ In x s.
Proof. intros H F I. rewrite forallb_forall in H. apply H in I. congruence. Qed.

Lemma notin_app {A} (x : A) a b : ~ In x a -> ~ In x b -> ~ In x (a ++ b).
Proof. intros H1 H2 I. apply in_app_or in I. tauto. Qed.

Lemma notin_cons {A} (x y : A) a : x <> y -> ~ In x a -> ~ In x (y :: a).
Proof. intros H1 H2 [I|I]; [congruence | tauto]. Qed.

Lemma has_false n s : (n < 256)%nat -> has n s = false -> ~ In (ascii_of_nat n) s.
Proof.
  unfold has. intros L H I. induction s as [|c s IH]; [exact I|].
  cbn in H. apply orb_false_iff in H. destruct H as [H1 H2]. destruct I as [I|I]; [|auto].
  subst c. unfold is_ch, code in H1. rewrite nat_ascii_embedding in H1 by exact L.
  rewrite Nat.eqb_refl in H1. discriminate.
Qed.

Lemma no_ws_notblank s : no_ws s = true -> forallb (fun c => negb (is_blank c)) s = true.
Proof.
  unfold no_ws. intros H. rewrite forallb_forall in *. intros c I. rewrite is_blank_ws. auto.
Qed.

Lemma all_ws_blank s : all_ws s = true -> forallb is_blank s = true.
Proof.
  unfold all_ws. intros H. rewrite forallb_forall in *. intros c I. rewrite is_blank_ws. auto.
Qed.

(** ** [_index_of_token_end] *)
Lemma first_blank_none s : forallb (fun c => negb (is_blank c)) s = true -> first_blank s = None.
Proof.
  induction s as [|c s IH]; intros H; [reflexivity|]. cbn [forallb first_blank] in *. apply andb_true_iff in H. destruct H as [H1 H2].
  destruct (is_blank c); [discriminate|]. rewrite IH by exact H2. reflexivity.
Qed.

Lemma first_blank_app x c z :
  forallb (fun c => negb (is_blank c)) x = true -> is_blank c = true ->
  first_blank (x ++ c :: z) = Some (List.length x).
Proof.
  intros H Hc. induction x as [|d x IH]; cbn [forallb first_blank app List.length] in *.
  - rewrite Hc. reflexivity.
  - apply andb_true_iff in H. destruct H as [H1 H2]. destruct (is_blank d); [discriminate|].
    rewrite IH by exact H2. reflexivity.
Qed.

(** the token [x] (no blank inside) is ended by a blank, or by the final dot at the end of the line *)
Definition token_follow (z : str) : Prop :=
  (exists c z', z = c :: z' /\ is_blank c = true) \/ z = ["."%char].

Lemma index_of_token_end_spec x z :
  forallb (fun c => negb (is_blank c)) x = true -> token_follow z ->
  index_of_token_end (x ++ z) = len x.
Proof.
  intros H [(c & z' & -> & Hc) | ->]; unfold index_of_token_end.
  - rewrite first_blank_app by assumption. reflexivity.
  - rewrite first_blank_none.
    + change nt_statement_end with ["."%char]. rewrite suffixb_app_end. rewrite len_app. cbn. lia.
    + rewrite forallb_app, H. reflexivity.
Qed.

(** ** [there_is_arroba_after_last_quotes] *)
Definition c_at : ascii := "@"%char.

Lemma arroba_false a b : ~ In c_at b -> arroba_after_last_quotes (a ++ dq :: b) = false.
Proof.
  intros H. unfold arroba_after_last_quotes. change c_lang_marker with [c_at]. change (Str """") with [dq].
  destruct (rfind_nat_ge dq a b) as (m & Hm & Lm). unfold rfind. rewrite Hm.
  rewrite (rfind_nat_drop c_at a (dq :: b)) by (apply notin_cons; [discriminate | exact H]).
  destruct (rfind_nat [c_at] a) eqn:E.
  - apply rfind_nat_lt in E. rewrite Z.gtb_ltb. apply Z.ltb_ge. lia.
  - rewrite Z.gtb_ltb. apply Z.ltb_ge. lia.
Qed.

Lemma arroba_true a b : ~ In c_at b -> ~ In dq b -> arroba_after_last_quotes (a ++ c_at :: b) = true.
Proof.
  intros H1 H2. unfold arroba_after_last_quotes. change c_lang_marker with [c_at]. change (Str """") with [dq].
  unfold rfind. rewrite (rfind_nat_last c_at a b H1).
  rewrite (rfind_nat_drop dq a (c_at :: b)) by (apply notin_cons; [discriminate | exact H2]).
  destruct (rfind_nat [dq] a) eqn:E.
  - apply rfind_nat_lt in E. rewrite Z.gtb_ltb. apply Z.ltb_lt. lia.
  - rewrite Z.gtb_ltb. apply Z.ltb_lt. lia.
Qed.

(** ** [_look_for_tokens]: one step of the loop *)
Lemma neq_len_app pre c post : (len pre =? len (pre ++ c :: post)) = false.
Proof. rewrite len_app, len_cons. pose proof (len_nonneg post). apply Z.eqb_neq. lia. Qed.

Lemma neq_len_app' pre c x post : (len pre =? len (pre ++ (c :: x) ++ post)) = false.
Proof. exact (neq_len_app pre c (x ++ post)). Qed.

Lemma at_idx_app' pre c x post : at_idx (pre ++ (c :: x) ++ post) (len pre) = Some c.
Proof. exact (at_idx_app pre c (x ++ post)). Qed.

Lemma slice_tok pre tok post last :
  last = len pre + len tok - 1 -> slice (pre ++ tok ++ post) (len pre) (last + 1) = tok.
Proof. intros ->. replace (len pre + len tok - 1 + 1) with (len pre + len tok) by lia. apply slice_app_mid. Qed.

Lemma look_skip f pre c post acc : is_ws c = true ->
  look_loop (S f) (pre ++ c :: post) (len pre) acc = look_loop f (pre ++ c :: post) (len pre + 1) acc.
Proof.
  intros H. cbn [look_loop]. rewrite neq_len_app, at_idx_app.
  destruct (is_ws_cases _ H) as [-> | ->]; reflexivity.
Qed.

Lemma look_skips w : forall f pre post acc, all_ws w = true ->
  look_loop (List.length w + f) (pre ++ w ++ post) (len pre) acc
  = look_loop f (pre ++ w ++ post) (len pre + len w) acc.
Proof.
  induction w as [|c w IH]; intros f pre post acc H.
  - cbn [List.length app Nat.add]. rewrite len_nil, Z.add_0_r. reflexivity.
  - cbn [all_ws forallb] in H. apply andb_true_iff in H. destruct H as [Hc Hw].
    cbn [List.length Nat.add app]. rewrite look_skip by exact Hc.
    replace (pre ++ c :: w ++ post) with ((pre ++ [c]) ++ w ++ post) by (rewrite <- app_assoc; reflexivity).
    replace (len pre + 1) with (len (pre ++ [c])) by (rewrite len_app; reflexivity).
    rewrite IH by exact Hw. f_equal. rewrite len_app, !len_cons, len_nil. lia.
Qed.

Lemma look_dot f pre post acc :
  look_loop (S f) (pre ++ "."%char :: post) (len pre) acc = Ok (rev acc).
Proof. cbn [look_loop]. rewrite neq_len_app, at_idx_app. reflexivity. Qed.

Definition lt_c : ascii := "<"%char.
Definition gt_c : ascii := ">"%char.
Definition r_iri (u : str) : str := lt_c :: u ++ [gt_c].

Lemma last_index_uri_spec pre u post : ~ In gt_c u ->
  last_index_uri (pre ++ r_iri u ++ post) (len pre) = len pre + len (r_iri u) - 1.
Proof.
  intros H. unfold last_index_uri. rewrite slice_from_app. unfold r_iri.
  change s_gt with [gt_c].
  replace ((lt_c :: u ++ [gt_c]) ++ post) with ((lt_c :: u) ++ gt_c :: post)
    by (cbn [app]; rewrite <- app_assoc; reflexivity).
  rewrite (find_of_nat _ _ _ (find_nat_char_app gt_c (lt_c :: u) post
             (notin_cons gt_c lt_c u ltac:(discriminate) H))).
  rewrite !len_app, !len_cons, len_app, len_cons, len_nil. unfold len. cbn [List.length]. lia.
Qed.

Lemma look_uri f pre u post acc : ~ In gt_c u ->
  look_loop (S f) (pre ++ r_iri u ++ post) (len pre) acc
  = look_loop f (pre ++ r_iri u ++ post) (len pre + len (r_iri u)) (r_iri u :: acc).
Proof.
  intros H. cbn [look_loop].
  unfold r_iri at 1 2. rewrite neq_len_app', at_idx_app'. fold (r_iri u).
  replace (Ascii.eqb lt_c ch_uri) with true by reflexivity.
  rewrite last_index_uri_spec by exact H.
  rewrite slice_tok by reflexivity. f_equal. lia.
Qed.

Lemma look_bnode f pre x post acc :
  forallb (fun c => negb (is_blank c)) ("_"%char :: x) = true -> token_follow post ->
  look_loop (S f) (pre ++ ("_"%char :: x) ++ post) (len pre) acc
  = look_loop f (pre ++ ("_"%char :: x) ++ post) (len pre + len ("_"%char :: x)) (("_"%char :: x) :: acc).
Proof.
  intros H T. cbn [look_loop].
  rewrite neq_len_app', at_idx_app'.
  replace (Ascii.eqb "_" ch_uri) with false by reflexivity.
  replace (Ascii.eqb "_" ch_lit) with false by reflexivity.
  replace (Ascii.eqb "_" ch_bnode) with true by reflexivity.
  assert (L : last_index_bnode (pre ++ ("_"%char :: x) ++ post) (len pre) = len pre + len ("_"%char :: x) - 1).
  { unfold last_index_bnode. rewrite slice_from_app. rewrite index_of_token_end_spec by assumption.
    rewrite !len_app. lia. }
  rewrite L. rewrite slice_tok by reflexivity. f_equal. lia.
Qed.

Lemma look_lit f pre x post acc :
  last_index_literal (pre ++ (dq :: x) ++ post) (len pre) = Ok (len pre + len (dq :: x) - 1) ->
  look_loop (S f) (pre ++ (dq :: x) ++ post) (len pre) acc
  = look_loop f (pre ++ (dq :: x) ++ post) (len pre + len (dq :: x)) ((dq :: x) :: acc).
Proof.
  intros L. cbn [look_loop].
  rewrite neq_len_app', at_idx_app'.
  replace (Ascii.eqb dq ch_uri) with false by reflexivity.
  replace (Ascii.eqb dq ch_lit) with true by reflexivity.
  rewrite L. rewrite slice_tok by reflexivity. f_equal. lia.
Qed.

(** ** the closing-quote loop of the untyped branch

    [qscan] is the loop seen character by character: the first quote whose
    two predecessors do not make it look escaped (a backslash not itself
    preceded by a backslash). *)
Definition accepts (p2 p1 : ascii) : bool := negb (Ascii.eqb p1 bs) || Ascii.eqb p2 bs.

Fixpoint qscan (p2 p1 : ascii) (s : str) (n : nat) : option nat :=
  match s with
  | [] => None
  | c :: s' => if Ascii.eqb c dq && accepts p2 p1 then Some n else qscan p1 c s' (S n)
  end.

Lemma split_first (c : ascii) s : ~ In c s \/ exists mid s', s = mid ++ c :: s' /\ ~ In c mid.
Proof.
  induction s as [|x s IH]; [left; intros []|].
  destruct (ascii_dec x c) as [->|N].
  - right. exists [], s. split; [reflexivity | intros []].
  - destruct IH as [IH | (mid & s' & -> & Hm)].
    + left. intros [E|I]; [congruence | tauto].
    + right. exists (x :: mid), s'. split; [reflexivity|]. intros [E|I]; [congruence | tauto].
Qed.

Lemma qscan_none p2 p1 s n : ~ In dq s -> qscan p2 p1 s n = None.
Proof.
  revert p2 p1 n; induction s as [|c s IH]; intros p2 p1 n H; [reflexivity|].
  cbn [qscan]. assert (Ascii.eqb c dq = false) as ->.
  { apply Ascii.eqb_neq. intros ->. apply H. left; reflexivity. }
  cbn [andb]. apply IH. intros I; apply H; right; exact I.
Qed.

(** the last two characters after reading [mid] *)
Fixpoint last2 (p2 p1 : ascii) (mid : str) : ascii * ascii :=
  match mid with [] => (p2, p1) | c :: mid' => last2 p1 c mid' end.

Lemma qscan_skip mid : forall p2 p1 s n, ~ In dq mid ->
  qscan p2 p1 (mid ++ s) n = qscan (fst (last2 p2 p1 mid)) (snd (last2 p2 p1 mid)) s (n + List.length mid).
Proof.
  induction mid as [|c mid IH]; intros p2 p1 s n H.
  - cbn. rewrite Nat.add_0_r. reflexivity.
  - cbn [app qscan last2 List.length]. assert (Ascii.eqb c dq = false) as ->.
    { apply Ascii.eqb_neq. intros ->. apply H. left; reflexivity. }
    cbn [andb]. rewrite IH by (intros I; apply H; right; exact I). f_equal. lia.
Qed.

Lemma last2_spec mid : forall P p2 p1, exists U,
  P ++ [p2; p1] ++ mid = U ++ [fst (last2 p2 p1 mid); snd (last2 p2 p1 mid)] /\
  List.length U = (List.length P + List.length mid)%nat.
Proof.
  induction mid as [|c mid IH]; intros P p2 p1.
  - exists P. cbn [app last2 fst snd List.length]. split; [reflexivity | lia].
  - destruct (IH (P ++ [p2]) p1 c) as (U & E & L). exists U. cbn [last2]. split.
    + rewrite <- E. rewrite <- app_assoc. reflexivity.
    + rewrite L, app_length. cbn. lia.
Qed.

Lemma quotes_loop_qscan : forall fuel P p2 p1 s m,
  (List.length s < fuel)%nat ->
  qscan p2 p1 s (List.length P + 2) = Some m ->
  quotes_loop fuel (P ++ [p2; p1] ++ s) (Z.of_nat (List.length P + 1)) = Ok (Z.of_nat m).
Proof.
  induction fuel as [|f IH]; intros P p2 p1 s m Hf Hq; [lia|].
  destruct (split_first dq s) as [N | (mid & s' & -> & Hm)].
  { rewrite qscan_none in Hq by exact N. discriminate. }
  rewrite qscan_skip in Hq by exact Hm.
  destruct (last2_spec mid P p2 p1) as (U & EU & LU).
  set (a := fst (last2 p2 p1 mid)) in *. set (b := snd (last2 p2 p1 mid)) in *.
  assert (EL : P ++ [p2; p1] ++ mid ++ dq :: s' = (U ++ [a]) ++ b :: dq :: s').
  { transitivity ((P ++ [p2; p1] ++ mid) ++ dq :: s').
    - rewrite <- !app_assoc. reflexivity.
    - rewrite EU. rewrite <- !app_assoc. reflexivity. }
  cbn [quotes_loop].
  (* the next quote *)
  assert (Q2 : find s_quote (slice_from (P ++ [p2; p1] ++ mid ++ dq :: s') (Z.of_nat (List.length P + 1) + 1))
               + Z.of_nat (List.length P + 1) + 1 = Z.of_nat (List.length U + 2)).
  { replace (Z.of_nat (List.length P + 1) + 1) with (len (P ++ [p2; p1])) by (unfold len; rewrite app_length; cbn; lia).
    replace (P ++ [p2; p1] ++ mid ++ dq :: s') with ((P ++ [p2; p1]) ++ mid ++ dq :: s') by (rewrite <- app_assoc; reflexivity).
    rewrite slice_from_app. change s_quote with [dq].
    rewrite (find_of_nat _ _ _ (find_nat_char_app dq mid s' Hm)).
    rewrite LU. lia. }
  rewrite Q2. rewrite EL.
  assert (A1 : at_idx ((U ++ [a]) ++ b :: dq :: s') (Z.of_nat (List.length U + 2) - 1) = Some b).
  { replace (Z.of_nat (List.length U + 2) - 1) with (len (U ++ [a])) by (unfold len; rewrite app_length; cbn; lia).
    apply at_idx_app. }
  assert (A2 : at_idx ((U ++ [a]) ++ b :: dq :: s') (Z.of_nat (List.length U + 2) - 2) = Some a).
  { replace (Z.of_nat (List.length U + 2) - 2) with (len U) by (unfold len; lia).
    rewrite <- app_assoc. apply at_idx_app. }
  rewrite A1, A2.
  cbn [qscan] in Hq. rewrite Ascii.eqb_refl in Hq. cbn [andb] in Hq. unfold accepts in Hq.
  change ch_backslash with bs.
  destruct (Ascii.eqb b bs) eqn:Eb; cbn [negb orb] in *.
  - destruct (Ascii.eqb a bs) eqn:Ea.
    + inversion Hq; subst. f_equal. f_equal. lia.
    + (* rejected: go on from this quote *)
      replace ((U ++ [a]) ++ b :: dq :: s') with ((U ++ [a]) ++ [b; dq] ++ s') by reflexivity.
      replace (List.length U + 2)%nat with (List.length (U ++ [a]) + 1)%nat by (rewrite app_length; cbn; lia).
      apply IH.
      * rewrite app_length in Hf. cbn in Hf. lia.
      * rewrite <- Hq. f_equal. rewrite app_length. cbn. lia.
  - inversion Hq; subst. f_equal. f_equal. lia.
Qed.

(** ** the quote scan over a rendered lexical form *)
Lemma hex_not_dq c : is_hex c = true -> Ascii.eqb c dq = false.
Proof. ascii_cases c; cbn; intros H; try reflexivity; discriminate. Qed.

Lemma hex_not_bs c : is_hex c = true -> c <> bs.
Proof. ascii_cases c; cbn; intros H; try discriminate; intros E; discriminate. Qed.

Lemma ichar_not_dq c : valid_item (IChar c) = true -> Ascii.eqb c dq = false.
Proof. ascii_cases c; cbn; intros H; try reflexivity; discriminate. Qed.

Lemma ichar_not_bs c : valid_item (IChar c) = true -> c <> bs.
Proof. ascii_cases c; cbn; intros H; try discriminate; intros E; discriminate. Qed.

Definition st_ok (prev : bool) (p2 p1 : ascii) : Prop :=
  if prev then p2 = bs /\ p1 = bs else p1 <> bs.

Definition first_not_escq (prev : bool) (l : list item) : Prop :=
  prev = true -> match l with IEsc e :: _ => e <> dq | _ => True end.

Lemma r_lex_cons i l : r_lex (i :: l) = r_item i ++ r_lex l.
Proof. reflexivity. Qed.

Lemma accepts_ok prev p2 p1 : st_ok prev p2 p1 -> accepts p2 p1 = true.
Proof.
  unfold st_ok, accepts. destruct prev.
  - intros [-> ->]. rewrite Ascii.eqb_refl. apply orb_true_r.
  - intros H. apply Ascii.eqb_neq in H. rewrite H. reflexivity.
Qed.

Lemma bsq_tail i l : bs_then_quote (i :: l) = false -> bs_then_quote l = false.
Proof. cbn [bs_then_quote]. intros H. apply orb_false_iff in H. tauto. Qed.

Lemma qscan_items items : forall prev p2 p1 n z,
  forallb valid_item items = true -> bs_then_quote items = false ->
  first_not_escq prev items -> st_ok prev p2 p1 ->
  qscan p2 p1 (r_lex items ++ dq :: z) n = Some (n + List.length (r_lex items))%nat.
Proof.
  induction items as [|it items IH]; intros prev p2 p1 n z V B F S.
  - cbn [r_lex flat_map app qscan List.length]. rewrite Ascii.eqb_refl, (accepts_ok _ _ _ S). cbn. f_equal. lia.
  - cbn [forallb] in V. apply andb_true_iff in V. destruct V as [Vi V].
    pose proof (bsq_tail _ _ B) as B'.
    rewrite r_lex_cons, <- app_assoc. destruct it as [c | e | a b c d | a b c d e f g h].
    + (* plain character *)
      cbn [r_item app qscan]. rewrite (ichar_not_dq _ Vi). cbn [andb].
      rewrite (IH false) by (first [assumption | intros X; discriminate | exact (ichar_not_bs _ Vi)]).
      f_equal. cbn [r_item app List.length]. lia.
    + (* escape *)
      cbn [r_item app qscan]. replace (Ascii.eqb bs dq) with false by reflexivity. cbn [andb].
      assert (R : Ascii.eqb e dq && accepts p1 bs = false).
      { destruct (Ascii.eqb e dq) eqn:E; [|reflexivity]. apply Ascii.eqb_eq in E. subst e. cbn [andb].
        unfold accepts. rewrite Ascii.eqb_refl. cbn [negb orb]. apply Ascii.eqb_neq.
        destruct prev; [exfalso; apply (F eq_refl); reflexivity | exact S]. }
      rewrite R.
      rewrite (IH (Ascii.eqb e bs)); try assumption.
      * f_equal. cbn [r_item app List.length]. lia.
      * intros X. apply Ascii.eqb_eq in X. subst e. cbn [bs_then_quote] in B.
        apply orb_false_iff in B. destruct B as [B _]. destruct items as [|[ | q | | ] items']; try exact I.
        intros ->. discriminate.
      * unfold st_ok. destruct (Ascii.eqb e bs) eqn:E.
        -- apply Ascii.eqb_eq in E. auto.
        -- apply Ascii.eqb_neq in E. exact E.
    + cbn [valid_item forallb] in Vi. repeat (apply andb_true_iff in Vi; destruct Vi as [? Vi]).
      cbn [r_item app qscan]. replace (Ascii.eqb bs dq) with false by reflexivity.
      replace (Ascii.eqb "u" dq) with false by reflexivity.
      rewrite !hex_not_dq by assumption. cbn [andb].
      rewrite (IH false) by (first [assumption | intros X; discriminate | apply hex_not_bs; assumption]).
      f_equal. cbn [r_item app List.length]. lia.
    + cbn [valid_item forallb] in Vi. repeat (apply andb_true_iff in Vi; destruct Vi as [? Vi]).
      cbn [r_item app qscan]. replace (Ascii.eqb bs dq) with false by reflexivity.
      replace (Ascii.eqb "U" dq) with false by reflexivity.
      rewrite !hex_not_dq by assumption. cbn [andb].
      rewrite (IH false) by (first [assumption | intros X; discriminate | apply hex_not_bs; assumption]).
      f_equal. cbn [r_item app List.length]. lia.
Qed.

Lemma of_nat_len s : Z.of_nat (List.length s) = len s.
Proof. reflexivity. Qed.

(** the loop started at index 1 of ["lex" z] stops at the closing quote *)
Lemma quotes_loop_lex lex z fuel :
  forallb valid_item lex = true -> bs_then_quote lex = false ->
  (lex = [] -> ~ In dq z) ->
  (List.length (r_lex lex ++ dq :: z) < fuel)%nat ->
  quotes_loop fuel (dq :: r_lex lex ++ dq :: z) 1 = Ok (1 + len (r_lex lex)).
Proof.
  intros V B E Hf. destruct lex as [|it its].
  - destruct fuel as [|f]; [lia|]. cbn [r_lex flat_map app quotes_loop].
    change (dq :: dq :: z) with ([dq; dq] ++ z). replace (1 + 1) with (len [dq; dq]) by reflexivity.
    rewrite slice_from_app. change s_quote with [dq].
    rewrite (find_of_none _ _ (find_nat_none_head dq [] z (E eq_refl))).
    replace (-1 + 1 + 1 - 1) with (len []) by reflexivity.
    change ([dq; dq] ++ z) with ([] ++ dq :: dq :: z). rewrite at_idx_app. reflexivity.
  - cbn [forallb] in V. apply andb_true_iff in V. destruct V as [Vi V].
    pose proof (bsq_tail _ _ B) as B'. rewrite r_lex_cons in *.
    destruct it as [c | e | a b c d | a b c d e f g h].
    + cbn [r_item app] in *.
      change (dq :: c :: r_lex its ++ dq :: z) with ([] ++ [dq; c] ++ (r_lex its ++ dq :: z)).
      change 1 with (Z.of_nat (List.length (@nil ascii) + 1)).
      rewrite (quotes_loop_qscan fuel [] dq c _ (2 + List.length (r_lex its))%nat).
      * f_equal. rewrite !len_cons. unfold len. cbn [List.length]. lia.
      * cbn [List.length] in Hf. lia.
      * apply (qscan_items its false); try assumption; [intros X; discriminate | exact (ichar_not_bs _ Vi)].
    + cbn [r_item app] in *.
      change (dq :: bs :: e :: r_lex its ++ dq :: z) with ([] ++ [dq; bs] ++ (e :: r_lex its ++ dq :: z)).
      change 1 with (Z.of_nat (List.length (@nil ascii) + 1)).
      rewrite (quotes_loop_qscan fuel [] dq bs _ (3 + List.length (r_lex its))%nat).
      * f_equal. rewrite !len_cons. unfold len. cbn [List.length]. lia.
      * cbn [List.length] in Hf. cbn [List.length]. lia.
      * cbn [qscan List.length Nat.add]. replace (accepts dq bs) with false by reflexivity. rewrite andb_false_r.
        apply (qscan_items its (Ascii.eqb e bs)); try assumption.
        -- intros X. apply Ascii.eqb_eq in X. subst e. cbn [bs_then_quote] in B.
           apply orb_false_iff in B. destruct B as [B _]. destruct its as [|[ | q | | ] its']; try exact I.
           intros ->. discriminate.
        -- unfold st_ok. destruct (Ascii.eqb e bs) eqn:Ee.
           ++ apply Ascii.eqb_eq in Ee. auto.
           ++ apply Ascii.eqb_neq in Ee. exact Ee.
    + cbn [valid_item forallb] in Vi. repeat (apply andb_true_iff in Vi; destruct Vi as [? Vi]).
      cbn [r_item app] in *.
      change (dq :: bs :: "u"%char :: a :: b :: c :: d :: r_lex its ++ dq :: z)
        with ([] ++ [dq; bs] ++ ("u"%char :: a :: b :: c :: d :: r_lex its ++ dq :: z)).
      change 1 with (Z.of_nat (List.length (@nil ascii) + 1)).
      rewrite (quotes_loop_qscan fuel [] dq bs _ (7 + List.length (r_lex its))%nat).
      * f_equal. rewrite !len_cons. unfold len. cbn [List.length]. lia.
      * cbn [List.length] in Hf. cbn [List.length]. lia.
      * cbn [qscan List.length Nat.add]. replace (Ascii.eqb "u" dq) with false by reflexivity.
        rewrite !hex_not_dq by assumption. cbn [andb].
        apply (qscan_items its false); try assumption; [intros X; discriminate | apply hex_not_bs; assumption].
    + cbn [valid_item forallb] in Vi. repeat (apply andb_true_iff in Vi; destruct Vi as [? Vi]).
      cbn [r_item app] in *.
      change (dq :: bs :: "U"%char :: a :: b :: c :: d :: e :: f :: g :: h :: r_lex its ++ dq :: z)
        with ([] ++ [dq; bs] ++ ("U"%char :: a :: b :: c :: d :: e :: f :: g :: h :: r_lex its ++ dq :: z)).
      change 1 with (Z.of_nat (List.length (@nil ascii) + 1)).
      rewrite (quotes_loop_qscan fuel [] dq bs _ (11 + List.length (r_lex its))%nat).
      * f_equal. rewrite !len_cons. unfold len. cbn [List.length]. lia.
      * cbn [List.length] in Hf. cbn [List.length]. lia.
      * cbn [qscan List.length Nat.add]. replace (Ascii.eqb "U" dq) with false by reflexivity.
        rewrite !hex_not_dq by assumption. cbn [andb].
        apply (qscan_items its false); try assumption; [intros X; discriminate | apply hex_not_bs; assumption].
Qed.

(** ** [_look_for_last_index_of_literal_token], branch by branch *)
Definition hat : ascii := "^"%char.

Lemma len_sub_line pre sub : len (pre ++ sub) - len sub = len pre.
Proof. rewrite len_app. lia. Qed.

(** untyped branch: plain literal, no ^^ in the rest of the line *)
Lemma lil_plain_nohats pre lex z :
  forallb valid_item lex = true -> bs_then_quote lex = false ->
  (lex = [] -> ~ In dq z) -> ~ In c_at z ->
  find_nat s_hats ((dq :: r_lex lex ++ [dq]) ++ z) = None ->
  last_index_literal (pre ++ (dq :: r_lex lex ++ [dq]) ++ z) (len pre)
  = Ok (len pre + len (dq :: r_lex lex ++ [dq]) - 1).
Proof.
  intros V B E A H. unfold last_index_literal. rewrite slice_from_app.
  assert (S : (dq :: r_lex lex ++ [dq]) ++ z = dq :: r_lex lex ++ dq :: z).
  { cbn [app]. rewrite <- app_assoc. reflexivity. }
  rewrite len_sub_line. rewrite S in *.
  change (dq :: r_lex lex ++ dq :: z) with ((dq :: r_lex lex) ++ dq :: z) at 1.
  rewrite arroba_false by exact A.
  change nt_lit_type_marker with s_hats. unfold contains. rewrite H. cbn [negb].
  rewrite quotes_loop_lex; try assumption.
  - cbn [bind]. f_equal. rewrite !len_cons, len_app, len_cons, len_nil. lia.
  - cbn [List.length]. lia.
Qed.

Lemma skipn_app_le {A} n (a b : list A) : (n <= List.length a)%nat -> skipn n (a ++ b) = skipn n a ++ b.
Proof.
  intros H. rewrite skipn_app. replace (n - List.length a)%nat with O by lia. reflexivity.
Qed.

Lemma pylen_app a b : pylen (a ++ b) = pylen a + pylen b.
Proof. unfold pylen. rewrite filter_app, app_length. lia. Qed.

Lemma index_of_token_end_cp_spec x z :
  forallb (fun c => negb (is_blank c)) x = true -> token_follow z ->
  index_of_token_end_cp (x ++ z) = pylen x.
Proof.
  intros H [(c & z' & -> & Hc) | ->]; unfold index_of_token_end_cp.
  - rewrite first_blank_app by assumption. rewrite firstn_app_len. reflexivity.
  - rewrite first_blank_none.
    + change nt_statement_end with ["."%char]. rewrite suffixb_app_end. rewrite pylen_app.
      change (pylen ["."%char]) with 1. lia.
    + rewrite forallb_app, H. reflexivity.
Qed.

Definition starts_char (z : str) : Prop := match z with [] => True | c :: _ => is_cont c = false end.

Lemma follow_starts z : token_follow z -> starts_char z.
Proof.
  intros [(c & z' & -> & Hc) | ->]; cbn [starts_char]; [|reflexivity].
  rewrite is_blank_ws in Hc. destruct (is_ws_cases _ Hc) as [-> | ->]; reflexivity.
Qed.

Lemma cp_advance_app x z : starts_char z -> cp_advance (x ++ z) (Z.to_nat (pylen x)) = List.length x.
Proof.
  intros Hz. unfold pylen. rewrite Nat2Z.id. induction x as [|c x IH].
  - cbn [app filter List.length]. destruct z as [|d z]; [reflexivity|]. cbn [cp_advance]. cbn in Hz. rewrite Hz. reflexivity.
  - cbn [app filter cp_advance]. destruct (is_cont c); cbn [negb List.length]; rewrite IH; reflexivity.
Qed.

(** typed branch: the first ^^ of the line is in the object token, no blank
    in the token from there on, and the token is followed by a blank or by the last dot *)
Lemma lil_hats pre tok z k :
  arroba_after_last_quotes (tok ++ z) = false ->
  find_nat s_hats tok = Some k ->
  forallb (fun c => negb (is_blank c)) (skipn k tok) = true ->
  token_follow z -> ~ In hat pre ->
  last_index_literal (pre ++ tok ++ z) (len pre) = Ok (len pre + len tok - 1).
Proof.
  intros A F W T P. unfold last_index_literal. rewrite slice_from_app. rewrite A.
  change nt_lit_type_marker with s_hats.
  pose proof (find_nat_app_found _ _ z _ F) as F'.
  unfold contains. rewrite F'. cbn [negb].
  rewrite (find_of_nat _ _ _ F').
  pose proof (find_nat_bound _ _ _ F) as Bk.
  assert (SF : slice_from (tok ++ z) (Z.of_nat k) = skipn k tok ++ z).
  { unfold slice_from. rewrite norm_idx_in.
    - rewrite Nat2Z.id. apply skipn_app_le. lia.
    - rewrite len_app. unfold len. lia. }
  rewrite SF. rewrite index_of_token_end_cp_spec by assumption.
  assert (FL : find s_hats (pre ++ tok ++ z) = len pre + Z.of_nat k).
  { unfold find. change s_hats with (hat :: [hat]). rewrite find_nat_skip by exact P.
    change (hat :: [hat]) with s_hats. rewrite F'. cbn [option_map]. unfold len. lia. }
  rewrite FL.
  assert (SL : slice_from (pre ++ tok ++ z) (len pre + Z.of_nat k) = skipn k tok ++ z).
  { unfold slice_from. rewrite norm_idx_in.
    - replace (Z.to_nat (len pre + Z.of_nat k)) with (List.length pre + k)%nat by (unfold len; lia).
      rewrite skipn_app. rewrite skipn_all2 by lia. cbn [app].
      replace (List.length pre + k - List.length pre)%nat with k by lia. apply skipn_app_le. lia.
    - rewrite !len_app. unfold len. lia. }
  rewrite SL. rewrite cp_advance_app by (apply follow_starts; exact T).
  f_equal. unfold len. rewrite skipn_length. lia.
Qed.

(** language branch *)
Lemma lil_lang pre q tag z :
  ~ In c_at (tag ++ z) -> ~ In dq (tag ++ z) ->
  forallb (fun c => negb (is_blank c)) (c_at :: tag) = true -> token_follow z ->
  last_index_literal (pre ++ (q ++ c_at :: tag) ++ z) (len pre) = Ok (len pre + len (q ++ c_at :: tag) - 1).
Proof.
  intros A Q W T. unfold last_index_literal. rewrite slice_from_app.
  assert (S : (q ++ c_at :: tag) ++ z = q ++ c_at :: (tag ++ z)) by (rewrite <- app_assoc; reflexivity).
  rewrite S. rewrite arroba_true by assumption.
  change nt_lit_lang_marker with [c_at].
  rewrite (rfind_of_nat _ _ _ (rfind_nat_last c_at q (tag ++ z) A)).
  rewrite of_nat_len, slice_from_app.
  change (c_at :: tag ++ z) with ((c_at :: tag) ++ z). rewrite index_of_token_end_spec by assumption.
  replace (pre ++ q ++ (c_at :: tag) ++ z) with ((pre ++ q) ++ c_at :: (tag ++ z)) by (rewrite <- app_assoc; reflexivity).
  rewrite (rfind_of_nat _ _ _ (rfind_nat_last c_at (pre ++ q) (tag ++ z) A)).
  f_equal. rewrite of_nat_len, !len_app, !len_cons. lia.
Qed.

(** ** [tune_token] / [tune_prop] on well-delimited tokens *)
Definition term_k (t : term) : kterm :=
  match t with TIri s => KIri s | TBn s => KBn s | TLit _ dt => KLit dt end.

Lemma slice_inner c u d : slice (c :: u ++ [d]) 1 (-1) = u.
Proof.
  unfold slice. rewrite len_cons, len_app, len_cons, len_nil. pose proof (len_nonneg u).
  unfold norm_idx. cbn [Z.ltb Z.compare]. 
  replace (Z.min 1 (1 + (len u + (1 + 0)))) with 1 by lia.
  replace (Z.max 0 (1 + (len u + (1 + 0)) + -1)) with (1 + len u) by lia.
  replace (1 + len u - 1) with (len u) by lia. cbn [Z.to_nat Pos.to_nat Pos.iter_op Nat.add skipn].
  unfold len. rewrite Nat2Z.id. apply firstn_app_len.
Qed.

Lemma remove_corners_iri u : remove_corners (r_iri u) = Ok u.
Proof.
  unfold remove_corners. unfold r_iri at 1 2. cbn [Str list_ascii_of_string prefixb].
  replace (Ascii.eqb "<" lt_c) with true by reflexivity. cbn [andb].
  change (lt_c :: u ++ [gt_c]) with ((lt_c :: u) ++ [gt_c]). 
  change [">"%char] with [gt_c]. rewrite suffixb_app_end.
  unfold r_iri. rewrite slice_inner. reflexivity.
Qed.

Lemma tune_iri allow u : tune_token allow (r_iri u) = Ok (TIri u).
Proof.
  unfold tune_token. unfold r_iri at 1. cbn [Str list_ascii_of_string prefixb].
  replace (Ascii.eqb "<" lt_c) with true by reflexivity. cbn [andb].
  rewrite remove_corners_iri. reflexivity.
Qed.

Lemma tune_prop_iri u : tune_prop (r_iri u) = Ok u.
Proof. apply remove_corners_iri. Qed.

Lemma tune_bnode allow l : tune_token allow ("_"%char :: ":"%char :: l) = Ok (TBn ("_"%char :: ":"%char :: l)).
Proof. reflexivity. Qed.

Lemma tune_lit_unfold allow x :
  tune_token allow (dq :: x) = parse_literal (dq :: x).
Proof. reflexivity. Qed.

Lemma tune_plain allow rl :
  find_nat s_quote_hats (dq :: rl ++ [dq]) = None ->
  exists content, tune_token allow (dq :: rl ++ [dq]) = Ok (TLit content xsd_string).
Proof.
  intros H. rewrite tune_lit_unfold. unfold parse_literal, decide_literal_type.
  assert (AF : arroba_after_last_quotes (dq :: rl ++ [dq]) = false).
  { change (dq :: rl ++ [dq]) with ((dq :: rl) ++ dq :: []). apply arroba_false. intros []. }
  rewrite AF. change dlt_typed_marker with s_quote_hats. unfold contains. rewrite H. cbn [negb bind].
  eexists. reflexivity.
Qed.

Lemma tune_lang allow q tag :
  ~ In c_at tag -> ~ In dq tag ->
  exists content, tune_token allow ((dq :: q) ++ c_at :: tag) = Ok (TLit content rdf_langString).
Proof.
  intros A Q. change ((dq :: q) ++ c_at :: tag) with (dq :: (q ++ c_at :: tag)).
  rewrite tune_lit_unfold. unfold parse_literal, decide_literal_type.
  assert (AT : arroba_after_last_quotes (dq :: q ++ c_at :: tag) = true).
  { change (dq :: q ++ c_at :: tag) with ((dq :: q) ++ c_at :: tag). apply arroba_true; assumption. }
  rewrite AT. cbn [bind]. eexists. reflexivity.
Qed.

Lemma is_cont_utf8 c : is_cont c = utf8_cont c.
Proof. ascii_cases c; reflexivity. Qed.

Lemma drop_conts_start s : starts_cp s = true -> drop_conts s = s.
Proof.
  destruct s as [|c s]; [reflexivity|]. cbn [starts_cp drop_conts]. intros H.
  pose proof (is_cont_utf8 c) as E. destruct (is_cont c); [|reflexivity].
  rewrite <- E in H. discriminate.
Qed.

Lemma drop_last_cp_gt d : drop_last_cp (d ++ [gt_c]) = d.
Proof.
  unfold drop_last_cp. rewrite rev_app_distr. cbn [rev app drop_conts].
  replace (is_cont gt_c) with false by reflexivity. cbn [tl]. apply rev_involutive.
Qed.

Definition r_typed_suffix (d : str) : str := hat :: hat :: lt_c :: d ++ [gt_c].

Lemma first_prefix_none tbl a :
  forallb (fun p => negb (contains p a)) (map (fun x => fst (fst x)) tbl) = true -> first_prefix tbl a = None.
Proof.
  induction tbl as [|[[p k] ns] tbl IH]; intros H; [reflexivity|].
  cbn [map forallb fst] in H. apply andb_true_iff in H. destruct H as [H1 H2].
  cbn [first_prefix]. destruct (contains p a); [discriminate|]. apply IH. exact H2.
Qed.

Lemma tune_typed allow rl d :
  ~ In c_at d -> starts_cp d = true ->
  find_nat s_quote_hats (dq :: rl ++ dq :: r_typed_suffix d) = Some (S (List.length rl)) ->
  forallb (fun p => negb (contains p (dq :: rl ++ dq :: r_typed_suffix d))) prefix_like = true ->
  exists content, tune_token allow (dq :: rl ++ dq :: r_typed_suffix d) = Ok (TLit content d).
Proof.
  intros A U F P. rewrite tune_lit_unfold. unfold parse_literal, decide_literal_type.
  set (tok := dq :: rl ++ dq :: r_typed_suffix d) in *.
  assert (AF : arroba_after_last_quotes tok = false).
  { unfold tok. change (dq :: rl ++ dq :: r_typed_suffix d) with ((dq :: rl) ++ dq :: r_typed_suffix d).
    apply arroba_false. unfold r_typed_suffix. intros [E|[E|[E|I]]]; try discriminate.
    apply in_app_or in I. destruct I as [I|[E|[]]]; [tauto | discriminate]. }
  rewrite AF. change dlt_typed_marker with s_quote_hats. unfold contains at 1. rewrite F. cbn [negb].
  rewrite first_prefix_none by exact P.
  assert (ST : suffixb dlt_closing (strip tok) = true).
  { unfold tok, r_typed_suffix.
    replace (dq :: rl ++ dq :: hat :: hat :: lt_c :: d ++ [gt_c])
      with (dq :: (rl ++ dq :: hat :: hat :: lt_c :: d) ++ [gt_c])
      by (rewrite <- app_assoc; reflexivity).
    rewrite strip_id by reflexivity. change dlt_closing with [gt_c].
    change (dq :: (rl ++ dq :: hat :: hat :: lt_c :: d) ++ [gt_c])
      with ((dq :: (rl ++ dq :: hat :: hat :: lt_c :: d)) ++ [gt_c]).
    apply suffixb_app_end. }
  rewrite ST.
  assert (X : slice_cp_off tok (find s_quote_hats tok) dlt_type_offset dlt_type_end = d).
  { rewrite (find_of_nat _ _ _ F). unfold slice_cp_off.
    replace (Z.of_nat (S (List.length rl))) with (len (dq :: rl)) by (rewrite len_cons; unfold len; lia).
    unfold tok. change (dq :: rl ++ dq :: r_typed_suffix d) with ((dq :: rl) ++ dq :: r_typed_suffix d).
    rewrite slice_from_app. change dlt_type_offset with 4. change dlt_type_end with (-1).
    change (Z.to_nat 4) with 4%nat. unfold r_typed_suffix.
    assert (DS : starts_cp (d ++ [gt_c]) = true).
    { destruct d; [reflexivity | exact U]. }
    assert (D4 : drop_cps 4 (dq :: hat :: hat :: lt_c :: d ++ [gt_c]) = d ++ [gt_c]).
    { cbn [drop_cps]. rewrite (drop_conts_start (hat :: hat :: lt_c :: d ++ [gt_c])) by reflexivity.
      rewrite (drop_conts_start (hat :: lt_c :: d ++ [gt_c])) by reflexivity.
      rewrite (drop_conts_start (lt_c :: d ++ [gt_c])) by reflexivity.
      rewrite (drop_conts_start _ DS). reflexivity. }
    rewrite D4.
    change (-1 =? -1) with true. cbv iota. apply drop_last_cp_gt. }
  rewrite X. destruct (existsb (fun ns : str => contains ns tok) dlt_namespaces); cbn [bind]; eexists; reflexivity.
Qed.

(** ** the whole loop on a line of three tokens *)
Lemma look_loop_mono : forall f L i acc r, look_loop f L i acc = Ok r ->
  forall f', (f <= f')%nat -> look_loop f' L i acc = Ok r.
Proof.
  induction f as [|f IH]; intros L i acc r H f' Hf; [discriminate|].
  destruct f' as [|f']; [lia|]. cbn [look_loop] in *.
  destruct (i =? len L); [exact H|].
  destruct (at_idx L i) as [c|]; [|exact H].
  destruct (Ascii.eqb c ch_uri); [apply IH with (f' := f') in H; [exact H | lia]|].
  destruct (Ascii.eqb c ch_lit).
  { destruct (last_index_literal L i); try exact H. apply IH with (f' := f') in H; [exact H | lia]. }
  destruct (Ascii.eqb c ch_bnode); [apply IH with (f' := f') in H; [exact H | lia]|].
  destruct (Ascii.eqb c ch_dot); [exact H|].
  destruct (is_ascii_digit c); apply IH with (f' := f') in H; (exact H || lia).
Qed.

Lemma chain L St s1 Pt s2 Ot pd tail fuel :
  L = St ++ s1 ++ Pt ++ s2 ++ Ot ++ pd ++ "."%char :: tail ->
  all_ws s1 = true -> all_ws s2 = true -> all_ws pd = true ->
  (forall f acc, look_loop (S f) L 0 acc = look_loop f L (len St) (St :: acc)) ->
  (forall f acc, look_loop (S f) L (len St + len s1) acc
                 = look_loop f L (len St + len s1 + len Pt) (Pt :: acc)) ->
  (forall f acc, look_loop (S f) L (len St + len s1 + len Pt + len s2) acc
                 = look_loop f L (len St + len s1 + len Pt + len s2 + len Ot) (Ot :: acc)) ->
  (List.length L + 4 <= fuel)%nat ->
  look_loop fuel L 0 [] = Ok [St; Pt; Ot].
Proof.
  intros EL W1 W2 W3 H1 H2 H3 Hf.
  apply look_loop_mono with
    (f := S (List.length s1 + S (List.length s2 + S (List.length pd + 1)))%nat).
  2:{ rewrite EL in Hf. rewrite !app_length in Hf. cbn [List.length] in Hf. lia. }
  rewrite H1.
  (* blanks after the subject *)
  pose proof (fun acc => look_skips s1 (S (List.length s2 + S (List.length pd + 1))) St
                (Pt ++ s2 ++ Ot ++ pd ++ "."%char :: tail) acc W1) as K1.
  rewrite <- EL in K1. rewrite K1. rewrite H2.
  (* blanks after the predicate *)
  assert (E2 : L = (St ++ s1 ++ Pt) ++ s2 ++ Ot ++ pd ++ "."%char :: tail).
  { rewrite EL. rewrite <- !app_assoc. reflexivity. }
  pose proof (fun acc => look_skips s2 (S (List.length pd + 1)) (St ++ s1 ++ Pt)
                (Ot ++ pd ++ "."%char :: tail) acc W2) as K2.
  rewrite <- E2 in K2. rewrite !len_app in K2. rewrite !Z.add_assoc in K2. rewrite K2. rewrite H3.
  (* blanks before the dot *)
  assert (E3 : L = (St ++ s1 ++ Pt ++ s2 ++ Ot) ++ pd ++ "."%char :: tail).
  { rewrite EL. rewrite <- !app_assoc. reflexivity. }
  pose proof (fun acc => look_skips pd 1 (St ++ s1 ++ Pt ++ s2 ++ Ot) ("."%char :: tail) acc W3) as K3.
  rewrite <- E3 in K3. rewrite !len_app in K3. rewrite !Z.add_assoc in K3. rewrite K3.
  assert (E4 : L = (St ++ s1 ++ Pt ++ s2 ++ Ot ++ pd) ++ "."%char :: tail).
  { rewrite EL. rewrite <- !app_assoc. reflexivity. }
  pose proof (fun acc => look_dot 0 (St ++ s1 ++ Pt ++ s2 ++ Ot ++ pd) tail acc) as K4.
  rewrite <- E4 in K4. rewrite !len_app in K4. rewrite !Z.add_assoc in K4. rewrite K4. reflexivity.
Qed.

(** ** what [C06_dom] says, object kind by object kind *)
Lemma dom_bnode s p lab l : C06_dom (STriple s p (ONode (NBn lab))) l = true -> glued l = false.
Proof.
  unfold C06_dom, root_causes, rc_F1, rc_F2, rc_F3, rc_F4, rc_F5, rc_F6, rc_F7, rc_F8,
    is_plain, is_lang, is_typed, is_bnode_obj. cbn [t_o forallb andb orb negb].
  destruct (glued l); cbn; [discriminate | reflexivity].
Qed.

Lemma dom_plain s p lex l :
  let tok := r_obj (OLit lex SufNone) in
  C06_dom (STriple s p (OLit lex SufNone)) l = true ->
  has 64 (ctext l) = false /\ contains s_quote_hats tok = false /\
  (lex_is_empty lex = true -> has 34 (ctext l) = false) /\
  (if contains s_hats tok
   then no_ws (from_first s_hats tok) = true /\ glued l = false
   else contains s_hats (ctext l) = false /\ bs_then_quote lex = false).
Proof.
  intros tok.
  unfold C06_dom, root_causes, rc_F1, rc_F2, rc_F3, rc_F4, rc_F5, rc_F6, rc_F7, rc_F8,
    is_plain, is_lang, is_typed, is_bnode_obj, otext, olex, odt. cbn [t_o forallb andb orb negb].
  fold tok.
  destruct (contains s_hats tok), (bs_then_quote lex), (no_ws (from_first s_hats tok)),
    (contains s_quote_hats tok), (has 64 (ctext l)), (lex_is_empty lex), (has 34 (ctext l)), (glued l),
    (contains s_hats (ctext l)); cbn; intros D; try discriminate; repeat split; auto; discriminate.
Qed.

Lemma dom_lang s p lex tag l :
  C06_dom (STriple s p (OLit lex (SufLang tag))) l = true ->
  has 64 (ctext l) = false /\ has 34 (ctext l) = false /\ glued l = false.
Proof.
  unfold C06_dom, root_causes, rc_F1, rc_F2, rc_F3, rc_F4, rc_F5, rc_F6, rc_F7, rc_F8,
    is_plain, is_lang, is_typed, is_bnode_obj, otext, olex, odt. cbn [t_o forallb andb orb negb].
  destruct (has 64 (ctext l)), (has 34 (ctext l)), (glued l); cbn; intros D; try discriminate; auto.
Qed.

Lemma dom_typed s p lex dt l :
  let tok := r_obj (OLit lex (SufType dt)) in
  C06_dom (STriple s p (OLit lex (SufType dt))) l = true ->
  has 64 dt = false /\ has 64 (ctext l) = false /\
  (contains s_hats tok = true -> no_ws (from_first s_hats tok) = true) /\ glued l = false /\
  find_nat s_quote_hats tok = Some (S (List.length (r_lex lex))) /\
  forallb (fun p => negb (contains p tok)) prefix_like = true.
Proof.
  intros tok.
  unfold C06_dom, root_causes, rc_F1, rc_F2, rc_F3, rc_F4, rc_F5, rc_F6, rc_F7, rc_F8,
    is_plain, is_lang, is_typed, is_bnode_obj, otext, olex, odt. cbn [t_o forallb andb orb negb].
  fold tok.
  assert (EX : forall l0, existsb (fun p0 : str => contains p0 tok) l0 = negb (forallb (fun p0 => negb (contains p0 tok)) l0)).
  { induction l0 as [|x l0 IH]; [reflexivity|]. cbn [existsb forallb]. rewrite IH.
    destruct (contains x tok); reflexivity. }
  rewrite EX.
  destruct (find_nat s_quote_hats tok) as [n|].
  - destruct (Nat.eqb n (S (List.length (r_lex lex)))) eqn:En.
    + apply Nat.eqb_eq in En. subst n.
      destruct (contains s_hats tok), (no_ws (from_first s_hats tok)), (has 64 dt), (has 64 (ctext l)), (glued l),
        (forallb (fun p0 : str => negb (contains p0 tok)) prefix_like); cbn; intros D; try discriminate;
        repeat split; auto; discriminate.
    + destruct (contains s_hats tok), (no_ws (from_first s_hats tok)), (has 64 dt), (has 64 (ctext l)), (glued l),
        (forallb (fun p0 : str => negb (contains p0 tok)) prefix_like); cbn; intros D; discriminate.
  - destruct (contains s_hats tok), (no_ws (from_first s_hats tok)), (has 64 dt), (has 64 (ctext l)), (glued l),
        (forallb (fun p0 : str => negb (contains p0 tok)) prefix_like); cbn; intros D; discriminate.
Qed.

(** ** consequences of validity *)
Lemma valid_iri_chars u : valid_iri u = true -> forallb iri_char u = true.
Proof. unfold valid_iri. intros H. apply andb_true_iff in H. tauto. Qed.

Lemma valid_iri_start u : valid_iri u = true -> starts_cp u = true.
Proof. unfold valid_iri. intros H. apply andb_true_iff in H. tauto. Qed.

Lemma valid_label_chars lab : valid_label lab = true -> forallb label_char lab = true.
Proof.
  unfold valid_label. destruct lab as [|c lab]; [discriminate|]. intros H.
  apply andb_true_iff in H. destruct H as [H _]. apply andb_true_iff in H. tauto.
Qed.

Definition tag_char (c : ascii) : bool := is_alnum c || is_ch 45 c.

Lemma tag_rest_chars s : forall b, tag_rest s b = true -> forallb tag_char s = true.
Proof.
  induction s as [|c s IH]; intros b H; [reflexivity|]. cbn [tag_rest] in H. cbn [forallb]. unfold tag_char at 1.
  destruct (is_ch 45 c).
  - apply andb_true_iff in H. destruct H as [_ H]. rewrite orb_true_r. cbn. eapply IH; eauto.
  - apply andb_true_iff in H. destruct H as [H1 H]. rewrite H1. cbn. eapply IH; eauto.
Qed.

Lemma alpha_alnum c : is_alpha c = true -> is_alnum c = true.
Proof. unfold is_alnum. intros ->. reflexivity. Qed.

Lemma valid_tag_chars s : valid_tag s = true -> forallb tag_char s = true.
Proof.
  unfold valid_tag. generalize false. induction s as [|c s IH]; intros b H; [reflexivity|].
  cbn [tag_first] in H. cbn [forallb]. unfold tag_char at 1. destruct (is_ch 45 c).
  - apply andb_true_iff in H. destruct H as [_ H]. rewrite orb_true_r. cbn. eapply tag_rest_chars; eauto.
  - apply andb_true_iff in H. destruct H as [H1 H]. rewrite (alpha_alnum _ H1). cbn. eapply IH; eauto.
Qed.

Lemma forallb_impl {A} (f g : A -> bool) s : (forall x, f x = true -> g x = true) -> forallb f s = true -> forallb g s = true.
Proof. intros I H. rewrite forallb_forall in *. auto. Qed.

Lemma iri_char_nonblank c : iri_char c = true -> negb (is_blank c) = true.
Proof. ascii_cases c; cbn; intros H; try reflexivity; discriminate. Qed.

Lemma label_char_nonblank c : label_char c = true -> negb (is_blank c) = true.
Proof. ascii_cases c; cbn; intros H; try reflexivity; discriminate. Qed.

Lemma tag_char_nonblank c : tag_char c = true -> negb (is_blank c) = true.
Proof. ascii_cases c; cbn; intros H; try reflexivity; discriminate. Qed.

Lemma ws_notin w c : all_ws w = true -> is_ws c = false -> ~ In c w.
Proof. intros H F. exact (forallb_notin _ _ _ H F). Qed.

Definition r_bn (lab : str) : str := "_"%char :: ":"%char :: lab.

Lemma node_no_hat n : valid_node n = true -> ~ In hat (r_node n).
Proof.
  destruct n as [u|lab]; cbn [valid_node r_node]; intros V.
  - change (Str "<" ++ u ++ Str ">") with (lt_c :: u ++ [gt_c]).
    apply notin_cons; [discriminate|]. apply notin_app.
    + apply (forallb_notin _ _ _ (valid_iri_chars _ V)). reflexivity.
    + intros [E|[]]; discriminate.
  - change (Str "_:" ++ lab) with (r_bn lab). unfold r_bn.
    apply notin_cons; [discriminate|]. apply notin_cons; [discriminate|].
    apply (forallb_notin _ _ _ (valid_label_chars _ V)). reflexivity.
Qed.

Lemma iri_no_gt u : valid_iri u = true -> ~ In gt_c u.
Proof. intros V. apply (forallb_notin _ _ _ (valid_iri_chars _ V)). reflexivity. Qed.

(** what follows the object: blanks, the dot, the comment *)
Definition after_obj (l : layout) : str := predot l ++ "."%char :: r_tail (comment l).

Lemma follow_not_glued l : all_ws (predot l) = true -> glued l = false -> token_follow (after_obj l).
Proof.
  unfold glued, after_obj. intros W G. destruct (predot l) as [|c pd] eqn:E.
  - cbn [str_eqb andb] in G. destruct (comment l); [discriminate|]. right. reflexivity.
  - left. exists c, (pd ++ "."%char :: r_tail (comment l)). split; [reflexivity|].
    cbn [all_ws forallb] in W. apply andb_true_iff in W. rewrite is_blank_ws. tauto.
Qed.

Lemma follow_sep w rest : all_ws w = true -> str_eqb w [] = false -> token_follow (w ++ rest).
Proof.
  intros W N. destruct w as [|c w]; [discriminate|]. left. exists c, (w ++ rest). split; [reflexivity|].
  cbn [all_ws forallb] in W. apply andb_true_iff in W. rewrite is_blank_ws. tauto.
Qed.

Lemma tail_notin c l :
  c <> "#"%char -> is_ws c = false -> ~ In c (ctext l) ->
  (match comment l with Some (w, _) => all_ws w = true | None => True end) ->
  ~ In c (r_tail (comment l)).
Proof.
  unfold ctext, r_tail. intros N W H A. destruct (comment l) as [[w txt]|]; [|intros []].
  apply notin_app; [exact (ws_notin _ _ A W)|]. apply notin_cons; [exact N | exact H].
Qed.

Lemma after_obj_notin c l :
  c <> "#"%char -> c <> "."%char -> is_ws c = false -> ~ In c (ctext l) ->
  all_ws (predot l) = true ->
  (match comment l with Some (w, _) => all_ws w = true | None => True end) ->
  ~ In c (after_obj l).
Proof.
  intros N1 N2 W H P A. unfold after_obj. apply notin_app; [exact (ws_notin _ _ P W)|].
  apply notin_cons; [exact N2|]. apply tail_notin; assumption.
Qed.

Lemma layout_parts l : valid_layout l = true ->
  all_ws (sep1 l) = true /\ str_eqb (sep1 l) [] = false /\ all_ws (sep2 l) = true /\ str_eqb (sep2 l) [] = false /\
  all_ws (predot l) = true /\
  (match comment l with Some (w, _) => all_ws w = true | None => True end) /\
  (match comment l with Some (_, txt) => forallb comment_char txt = true | None => True end).
Proof.
  unfold valid_layout. intros H. repeat (apply andb_true_iff in H; destruct H as [H ?]).
  repeat match goal with X : negb _ = true |- _ => apply negb_true_iff in X end.
  destruct (comment l) as [[w txt]|].
  - apply andb_true_iff in H0. tauto.
  - tauto.
Qed.

Lemma find_hats_after_obj l :
  all_ws (predot l) = true ->
  (match comment l with Some (w, _) => all_ws w = true | None => True end) ->
  contains s_hats (ctext l) = false ->
  find_nat s_hats (after_obj l) = None.
Proof.
  intros P A H. unfold after_obj. change s_hats with (hat :: [hat]).
  rewrite find_nat_skip by (apply (ws_notin _ _ P); reflexivity).
  change ("."%char :: r_tail (comment l)) with (["."%char] ++ r_tail (comment l)).
  rewrite find_nat_skip by (intros [E|[]]; discriminate).
  unfold r_tail, ctext in *. destruct (comment l) as [[w txt]|]; [|reflexivity].
  rewrite find_nat_skip by (apply (ws_notin _ _ A); reflexivity).
  change (Str "#" ++ txt) with (["#"%char] ++ txt).
  rewrite find_nat_skip by (intros [E|[]]; discriminate).
  apply contains_false_find in H. change (hat :: [hat]) with s_hats. rewrite H. reflexivity.
Qed.

(** ** the object token *)
Lemma obj_step s p o l pre :
  valid_obj o = true -> valid_layout l = true -> C06_dom (STriple s p o) l = true -> ~ In hat pre ->
  forall f acc,
    look_loop (S f) (pre ++ r_obj o ++ after_obj l) (len pre) acc
    = look_loop f (pre ++ r_obj o ++ after_obj l) (len pre + len (r_obj o)) (r_obj o :: acc).
Proof.
  intros V VL D P f acc.
  destruct (layout_parts _ VL) as (W1 & N1 & W2 & N2 & W3 & WC & CC).
  destruct o as [[u | lab] | lex [ | tag | dt]].
  - (* IRI *)
    cbn [valid_obj valid_node] in V. cbn [r_obj r_node].
    change (Str "<" ++ u ++ Str ">") with (r_iri u). apply look_uri. apply iri_no_gt. exact V.
  - (* blank node *)
    cbn [valid_obj valid_node] in V. cbn [r_obj r_node]. change (Str "_:" ++ lab) with ("_"%char :: ":"%char :: lab).
    apply look_bnode.
    + cbn [forallb]. replace (negb (is_blank "_")) with true by reflexivity.
      replace (negb (is_blank ":")) with true by reflexivity. cbn [andb].
      apply (forallb_impl label_char); [exact label_char_nonblank | apply valid_label_chars; exact V].
    + apply follow_not_glued; [exact W3 | exact (dom_bnode _ _ _ _ D)].
  - (* plain literal *)
    cbn [valid_obj valid_suffix] in V. rewrite andb_true_r in V.
    destruct (dom_plain _ _ _ _ D) as (A & QH & EQ & HH).
    cbn [r_obj r_suffix] in *. set (tok := dq :: r_lex lex ++ [dq]) in *.
    assert (NA : ~ In c_at (after_obj l)).
    { apply after_obj_notin; try assumption; try discriminate; try reflexivity. exact (has_false 64 _ ltac:(lia) A). }
    apply look_lit. destruct (contains s_hats tok) eqn:CH.
    + destruct HH as [NW G]. apply contains_true_find in CH. destruct CH as [k Fk].
      apply lil_hats with (k := k); try assumption.
      * unfold tok. replace ((dq :: r_lex lex ++ [dq]) ++ after_obj l) with ((dq :: r_lex lex) ++ dq :: after_obj l)
          by (cbn [app]; rewrite <- app_assoc; reflexivity).
        apply arroba_false. exact NA.
      * unfold from_first in NW. rewrite Fk in NW. apply no_ws_notblank. exact NW.
      * apply follow_not_glued; assumption.
    + destruct HH as [CT BQ]. apply lil_plain_nohats; try assumption.
      * intros ->. apply after_obj_notin; try assumption; try discriminate; try reflexivity.
        exact (has_false 34 _ ltac:(lia) (EQ eq_refl)).
      * fold tok. replace (tok ++ after_obj l) with ((dq :: r_lex lex) ++ dq :: after_obj l)
          by (unfold tok; cbn [app]; rewrite <- app_assoc; reflexivity).
        rewrite find_nat_barrier.
        -- rewrite find_hats_after_obj by assumption. reflexivity.
        -- discriminate.
        -- intros [E|[E|[]]]; discriminate.
        -- apply contains_false_find. exact CH.
  - (* language-tagged literal *)
    cbn [valid_obj valid_suffix] in V. apply andb_true_iff in V. destruct V as [V VT].
    destruct (dom_lang _ _ _ _ _ D) as (A & Q & G).
    cbn [r_obj r_suffix]. change (Str "@" ++ tag) with (c_at :: tag).
    pose proof (valid_tag_chars _ VT) as TC.
    assert (NAt : ~ In c_at tag) by (apply (forallb_notin _ _ _ TC); reflexivity).
    assert (NQt : ~ In dq tag) by (apply (forallb_notin _ _ _ TC); reflexivity).
    replace (dq :: r_lex lex ++ dq :: c_at :: tag) with ((dq :: r_lex lex ++ [dq]) ++ c_at :: tag)
      by (cbn [app]; rewrite <- app_assoc; reflexivity).
    change ((dq :: r_lex lex ++ [dq]) ++ c_at :: tag) with (dq :: ((r_lex lex ++ [dq]) ++ c_at :: tag)) at 1 2 3.
    apply look_lit.
    change (dq :: (r_lex lex ++ [dq]) ++ c_at :: tag) with ((dq :: r_lex lex ++ [dq]) ++ c_at :: tag).
    apply lil_lang.
    + apply notin_app; [exact NAt|]. apply after_obj_notin; try assumption; try discriminate; try reflexivity.
      exact (has_false 64 _ ltac:(lia) A).
    + apply notin_app; [exact NQt|]. apply after_obj_notin; try assumption; try discriminate; try reflexivity.
      exact (has_false 34 _ ltac:(lia) Q).
    + cbn [forallb]. replace (negb (is_blank c_at)) with true by reflexivity. cbn [andb].
      apply (forallb_impl tag_char); [exact tag_char_nonblank | exact TC].
    + apply follow_not_glued; assumption.
  - (* typed literal *)
    cbn [valid_obj valid_suffix] in V. apply andb_true_iff in V. destruct V as [V VD].
    destruct (dom_typed _ _ _ _ _ D) as (AD & A & NW & G & FQ & PL).
    cbn [r_obj r_suffix] in *. change (Str "^^<" ++ dt ++ Str ">") with (r_typed_suffix dt) in *.
    set (tok := dq :: r_lex lex ++ dq :: r_typed_suffix dt) in *.
    assert (CH : exists k, find_nat s_hats tok = Some k).
    { unfold tok, r_typed_suffix.
      replace (dq :: r_lex lex ++ dq :: hat :: hat :: lt_c :: dt ++ [gt_c])
        with ((dq :: r_lex lex ++ [dq]) ++ s_hats ++ (lt_c :: dt ++ [gt_c]))
        by (cbn [app]; rewrite <- app_assoc; reflexivity).
      apply find_nat_exists. }
    destruct CH as [k Fk].
    apply look_lit. apply lil_hats with (k := k); try assumption.
    + unfold tok. replace ((dq :: r_lex lex ++ dq :: r_typed_suffix dt) ++ after_obj l)
        with ((dq :: r_lex lex) ++ dq :: (r_typed_suffix dt ++ after_obj l))
        by (cbn [app]; rewrite <- app_assoc; reflexivity).
      apply arroba_false. apply notin_app.
      * unfold r_typed_suffix. intros [E|[E|[E|I]]]; try discriminate.
        apply in_app_or in I. destruct I as [I|[E|[]]]; [|discriminate].
        exact (has_false 64 _ ltac:(lia) AD I).
      * apply after_obj_notin; try assumption; try discriminate; try reflexivity.
        exact (has_false 64 _ ltac:(lia) A).
    + assert (C : contains s_hats tok = true) by (apply contains_true_find; eauto).
      specialize (NW C). unfold from_first in NW. rewrite Fk in NW. apply no_ws_notblank. exact NW.
    + apply follow_not_glued; assumption.
Qed.

(** ** the three tokens of a line *)
Lemma subj_step n rest : valid_node n = true -> token_follow rest ->
  forall f acc, look_loop (S f) (r_node n ++ rest) 0 acc = look_loop f (r_node n ++ rest) (len (r_node n)) (r_node n :: acc).
Proof.
  intros V T f acc. destruct n as [u|lab]; cbn [valid_node r_node] in *.
  - change (Str "<" ++ u ++ Str ">") with (r_iri u).
    pose proof (look_uri f [] u rest acc (iri_no_gt _ V)) as K. cbn [app] in K. rewrite len_nil in K.
    rewrite Z.add_0_l in K. exact K.
  - change (Str "_:" ++ lab) with ("_"%char :: ":"%char :: lab).
    assert (NB : forallb (fun c => negb (is_blank c)) ("_"%char :: ":"%char :: lab) = true).
    { cbn [forallb]. replace (negb (is_blank "_")) with true by reflexivity.
      replace (negb (is_blank ":")) with true by reflexivity. cbn [andb].
      apply (forallb_impl label_char); [exact label_char_nonblank | apply valid_label_chars; exact V]. }
    pose proof (look_bnode f [] (":"%char :: lab) rest acc NB T) as K. cbn [app] in K. rewrite len_nil in K.
    rewrite Z.add_0_l in K. exact K.
Qed.

Lemma nt_line_shape t l :
  nt_line t l = r_node (t_s t) ++ sep1 l ++ r_iri (t_p t) ++ sep2 l ++ r_obj (t_o t) ++ predot l ++ "."%char :: r_tail (comment l).
Proof. reflexivity. Qed.

Lemma tokens_of_line t l :
  valid_triple t = true -> valid_layout l = true -> C06_dom t l = true ->
  look_for_tokens (nt_line t l) = Ok [r_node (t_s t); r_iri (t_p t); r_obj (t_o t)].
Proof.
  intros V VL D. destruct t as [s p o]. cbn [t_s t_p t_o] in *.
  unfold valid_triple in V. cbn [t_s t_p t_o] in V.
  apply andb_true_iff in V. destruct V as [V Vu]. apply andb_true_iff in V. destruct V as [V Vo].
  apply andb_true_iff in V. destruct V as [Vs Vp].
  destruct (layout_parts _ VL) as (W1 & N1 & W2 & N2 & W3 & WC & CC).
  unfold look_for_tokens.
  apply (chain _ (r_node s) (sep1 l) (r_iri p) (sep2 l) (r_obj o) (predot l) (r_tail (comment l))).
  - apply nt_line_shape.
  - exact W1.
  - exact W2.
  - exact W3.
  - rewrite nt_line_shape. cbn [t_s t_p t_o]. apply subj_step; [exact Vs | apply follow_sep; assumption].
  - intros f acc. rewrite nt_line_shape. cbn [t_s t_p t_o].
    replace (r_node s ++ sep1 l ++ r_iri p ++ sep2 l ++ r_obj o ++ predot l ++ "."%char :: r_tail (comment l))
      with ((r_node s ++ sep1 l) ++ r_iri p ++ (sep2 l ++ r_obj o ++ predot l ++ "."%char :: r_tail (comment l)))
      by (rewrite <- !app_assoc; reflexivity).
    replace (len (r_node s) + len (sep1 l)) with (len (r_node s ++ sep1 l)) by (rewrite len_app; reflexivity).
    apply look_uri. apply iri_no_gt. exact Vp.
  - intros f acc. rewrite nt_line_shape. cbn [t_s t_p t_o].
    replace (r_node s ++ sep1 l ++ r_iri p ++ sep2 l ++ r_obj o ++ predot l ++ "."%char :: r_tail (comment l))
      with ((r_node s ++ sep1 l ++ r_iri p ++ sep2 l) ++ r_obj o ++ after_obj l)
      by (unfold after_obj; rewrite <- !app_assoc; reflexivity).
    replace (len (r_node s) + len (sep1 l) + len (r_iri p) + len (sep2 l))
      with (len (r_node s ++ sep1 l ++ r_iri p ++ sep2 l)) by (rewrite !len_app; lia).
    apply (obj_step s p); try assumption.
    apply notin_app; [apply node_no_hat; exact Vs|].
    apply notin_app; [apply (ws_notin _ _ W1); reflexivity|].
    apply notin_app.
    + unfold r_iri. apply notin_cons; [discriminate|]. apply notin_app.
      * apply (forallb_notin _ _ _ (valid_iri_chars _ Vp)). reflexivity.
      * intros [E|[]]; discriminate.
    + apply (ws_notin _ _ W2); reflexivity.
  - unfold line_fuel. lia.
Qed.

(** ** [a_line.strip()]: only the comment's trailing white space goes away *)
Definition norm_layout (l : layout) : layout :=
  Layout (sep1 l) (sep2 l) (predot l)
         (match comment l with Some (w, txt) => Some (w, rstrip txt) | None => None end).

Lemma r_node_first n : exists c x, r_node n = c :: x /\ is_space c = false.
Proof.
  destruct n as [u|lab]; cbn [r_node].
  - exists lt_c, (u ++ [gt_c]). split; reflexivity.
  - exists "_"%char, (":"%char :: lab). split; reflexivity.
Qed.

Lemma strip_line t l : strip (nt_line t l) = nt_line t (norm_layout l).
Proof.
  unfold strip. rewrite nt_line_shape. destruct (r_node_first (t_s t)) as (c & x & E & NS).
  set (body := sep1 l ++ r_iri (t_p t) ++ sep2 l ++ r_obj (t_o t) ++ predot l).
  assert (EL : r_node (t_s t) ++ sep1 l ++ r_iri (t_p t) ++ sep2 l ++ r_obj (t_o t) ++ predot l ++ "."%char :: r_tail (comment l)
               = c :: (x ++ body) ++ "."%char :: r_tail (comment l)).
  { rewrite E. unfold body. cbn [app]. rewrite <- !app_assoc. reflexivity. }
  rewrite EL. rewrite lstrip_nonspace by exact NS.
  change (c :: (x ++ body) ++ "."%char :: r_tail (comment l)) with ((c :: x ++ body) ++ "."%char :: r_tail (comment l)).
  rewrite nt_line_shape. cbn [sep1 sep2 predot comment norm_layout].
  assert (ER : r_node (t_s t) ++ sep1 l ++ r_iri (t_p t) ++ sep2 l ++ r_obj (t_o t) ++ predot l ++
               "."%char :: r_tail (match comment l with Some (w, txt) => Some (w, rstrip txt) | None => None end)
               = (c :: x ++ body) ++ "."%char :: r_tail (match comment l with Some (w, txt) => Some (w, rstrip txt) | None => None end)).
  { rewrite E. unfold body. cbn [app]. rewrite <- !app_assoc. reflexivity. }
  rewrite ER. destruct (comment l) as [[w txt]|]; cbn [r_tail].
  - replace ((c :: x ++ body) ++ "."%char :: w ++ Str "#" ++ txt)
      with (((c :: x ++ body) ++ "."%char :: w) ++ "#"%char :: txt)
      by (rewrite <- app_assoc; reflexivity).
    rewrite rstrip_app_ns by reflexivity. rewrite <- app_assoc. reflexivity.
  - rewrite rstrip_app_ns by reflexivity. rewrite rstrip_nil. reflexivity.
Qed.

Lemma has_prefix n a b : has n a = true -> has n (a ++ b) = true.
Proof. unfold has. rewrite existsb_app. intros ->. reflexivity. Qed.

Lemma contains_prefix p a b : contains p a = true -> contains p (a ++ b) = true.
Proof.
  intros H. apply contains_true_find in H. destruct H as [n H]. apply contains_true_find. exists n.
  apply find_nat_app_found. exact H.
Qed.

Lemma ctext_norm l : exists sp, ctext l = ctext (norm_layout l) ++ sp.
Proof.
  unfold ctext, norm_layout. cbn [comment]. destruct (comment l) as [[w txt]|].
  - apply rstrip_prefix.
  - exists []. reflexivity.
Qed.

Lemma glued_norm l : glued (norm_layout l) = glued l.
Proof. unfold glued, norm_layout. cbn [predot comment]. destruct (comment l) as [[w txt]|]; reflexivity. Qed.

Lemma valid_layout_norm l : valid_layout l = true -> valid_layout (norm_layout l) = true.
Proof.
  unfold valid_layout, norm_layout. cbn [sep1 sep2 predot comment]. intros H.
  destruct (comment l) as [[w txt]|]; [|exact H].
  rewrite !andb_true_iff in *. destruct H as [H [Hw Ht]]. split; [exact H|]. split; [exact Hw|].
  destruct (rstrip_prefix txt) as [sp E]. rewrite E in Ht. rewrite forallb_app in Ht.
  apply andb_true_iff in Ht. tauto.
Qed.

Lemma dom_norm t l : C06_dom t l = true -> C06_dom t (norm_layout l) = true.
Proof.
  destruct (ctext_norm l) as [sp E].
  assert (Hh : forall n, has n (ctext (norm_layout l)) = true -> has n (ctext l) = true).
  { intros n X. rewrite E. apply has_prefix. exact X. }
  assert (Hc : contains s_hats (ctext (norm_layout l)) = true -> contains s_hats (ctext l) = true).
  { intros X. rewrite E. apply contains_prefix. exact X. }
  assert (M6 : rc_F6 t (norm_layout l) = true -> rc_F6 t l = true).
  { unfold rc_F6. rewrite !orb_true_iff, !andb_true_iff.
    pose proof (Hh 64%nat). pose proof (Hh 34%nat). tauto. }
  assert (M7 : rc_F7 t (norm_layout l) = rc_F7 t l).
  { unfold rc_F7. rewrite glued_norm. reflexivity. }
  assert (M8 : rc_F8 t (norm_layout l) = true -> rc_F8 t l = true).
  { unfold rc_F8. rewrite !andb_true_iff. tauto. }
  unfold C06_dom, root_causes. cbn [forallb]. rewrite !andb_true_iff, !negb_true_iff.
  intros (H1 & H2 & H3 & H4 & H5 & H6 & H7 & H8 & _). rewrite M7.
  repeat split; try assumption.
  - destruct (rc_F6 t (norm_layout l)); [rewrite M6 in H6 by reflexivity; discriminate | reflexivity].
  - destruct (rc_F8 t (norm_layout l)); [rewrite M8 in H8 by reflexivity; discriminate | reflexivity].
Qed.

(** ** one line *)
Definition k3 (x : term * str * term) : kterm * str * kterm :=
  let '(s, p, o) := x in (term_k s, p, term_k o).

Lemma process_line_ok allow t l :
  valid_triple t = true -> valid_layout l = true -> C06_dom t l = true ->
  exists s o, process_line allow (nt_line t l) = LYield s (t_p t) o /\ k3 (s, t_p t, o) = kinded t.
Proof.
  intros V VL D. unfold process_line. rewrite strip_line.
  rewrite tokens_of_line
    by first [assumption | apply valid_layout_norm; assumption | apply dom_norm; assumption].
  destruct t as [s p o]. cbn [t_s t_p t_o] in *.
  unfold valid_triple in V. cbn [t_s t_p t_o] in V.
  apply andb_true_iff in V. destruct V as [V Vu]. apply andb_true_iff in V. destruct V as [V Vo].
  apply andb_true_iff in V. destruct V as [Vs Vp].
  assert (TS : exists s', tune_token false (r_node s) = Ok s' /\ term_k s' = k_node s).
  { destruct s as [u|lab]; cbn [r_node k_node].
    - change (Str "<" ++ u ++ Str ">") with (r_iri u). rewrite tune_iri. eexists; split; reflexivity.
    - change (Str "_:" ++ lab) with ("_"%char :: ":"%char :: lab). rewrite tune_bnode. eexists; split; reflexivity. }
  destruct TS as (s' & TS & KS). rewrite TS. rewrite tune_prop_iri.
  assert (TO : exists o', tune_token allow (r_obj o) = Ok o' /\ term_k o' = k_obj o).
  { destruct o as [[u | lab] | lex [ | tag | dt]]; cbn [r_obj r_node k_obj k_node dt_of r_suffix].
    - change (Str "<" ++ u ++ Str ">") with (r_iri u). rewrite tune_iri. eexists; split; reflexivity.
    - change (Str "_:" ++ lab) with ("_"%char :: ":"%char :: lab). rewrite tune_bnode. eexists; split; reflexivity.
    - destruct (dom_plain _ _ _ _ D) as (_ & QH & _). cbn [r_obj r_suffix] in QH.
      apply contains_false_find in QH. destruct (tune_plain allow (r_lex lex) QH) as [c E].
      rewrite E. eexists; split; reflexivity.
    - cbn [valid_obj valid_suffix] in Vo. apply andb_true_iff in Vo. destruct Vo as [_ VT].
      pose proof (valid_tag_chars _ VT) as TC.
      assert (NAt : ~ In c_at tag) by (apply (forallb_notin _ _ _ TC); reflexivity).
      assert (NQt : ~ In dq tag) by (apply (forallb_notin _ _ _ TC); reflexivity).
      change (Str "@" ++ tag) with (c_at :: tag).
      replace (dq :: r_lex lex ++ dq :: c_at :: tag) with ((dq :: r_lex lex ++ [dq]) ++ c_at :: tag)
        by (cbn [app]; rewrite <- app_assoc; reflexivity).
      destruct (tune_lang allow (r_lex lex ++ [dq]) tag NAt NQt) as [c E].
      rewrite E. eexists; split; reflexivity.
    - cbn [valid_obj valid_suffix] in Vo. apply andb_true_iff in Vo. destruct Vo as [_ VD].
      destruct (dom_typed _ _ _ _ _ D) as (AD & _ & _ & _ & FQ & PL).
      cbn [r_obj r_suffix] in *. change (Str "^^<" ++ dt ++ Str ">") with (r_typed_suffix dt) in *.
      destruct (tune_typed allow (r_lex lex) dt (has_false 64 _ ltac:(lia) AD) (valid_iri_start _ VD) FQ PL) as [c E].
      rewrite E. eexists; split; reflexivity. }
  destruct TO as (o' & TO & KO). rewrite TO.
  exists s', o'. split; [reflexivity|]. unfold k3, kinded. cbn [t_s t_p t_o]. rewrite KS, KO. reflexivity.
Qed.

(** ** documents *)
Definition lf : ascii := ascii_of_nat 10.

Lemma item_no_lf it : valid_item it = true -> ~ In lf (r_item it).
Proof.
  destruct it as [c | e | a b c d | a b c d e f g h]; cbn [r_item].
  - intros V [E|[]]. subst c. discriminate.
  - intros V [E|[E|[]]]; [discriminate|]. subst e. discriminate.
  - cbn [valid_item forallb]. intros V. repeat (apply andb_true_iff in V; destruct V as [? V]).
    intros I. repeat (destruct I as [E|I]; [try discriminate; subst; discriminate|]). exact I.
  - cbn [valid_item forallb]. intros V. repeat (apply andb_true_iff in V; destruct V as [? V]).
    intros I. repeat (destruct I as [E|I]; [try discriminate; subst; discriminate|]). exact I.
Qed.

Lemma lex_no_lf lex : forallb valid_item lex = true -> ~ In lf (r_lex lex).
Proof.
  induction lex as [|it lex IH]; intros V; [intros []|].
  cbn [forallb] in V. apply andb_true_iff in V. destruct V as [Vi V].
  rewrite r_lex_cons. apply notin_app; [apply item_no_lf; exact Vi | apply IH; exact V].
Qed.

Lemma node_no_lf n : valid_node n = true -> ~ In lf (r_node n).
Proof.
  destruct n as [u|lab]; cbn [valid_node r_node]; intros V.
  - change (Str "<" ++ u ++ Str ">") with (lt_c :: u ++ [gt_c]).
    apply notin_cons; [discriminate|]. apply notin_app.
    + apply (forallb_notin _ _ _ (valid_iri_chars _ V)). reflexivity.
    + intros [E|[]]; discriminate.
  - change (Str "_:" ++ lab) with (r_bn lab). unfold r_bn.
    apply notin_cons; [discriminate|]. apply notin_cons; [discriminate|].
    apply (forallb_notin _ _ _ (valid_label_chars _ V)). reflexivity.
Qed.

Lemma obj_no_lf o : valid_obj o = true -> ~ In lf (r_obj o).
Proof.
  destruct o as [n | lex suf]; cbn [valid_obj r_obj]; intros V; [apply node_no_lf; exact V|].
  apply andb_true_iff in V. destruct V as [V Vs].
  apply notin_cons; [discriminate|]. apply notin_app; [apply lex_no_lf; exact V|].
  apply notin_cons; [discriminate|].
  destruct suf as [ | tag | dt]; cbn [r_suffix valid_suffix] in *.
  - intros [].
  - change (Str "@" ++ tag) with (c_at :: tag). apply notin_cons; [discriminate|].
    apply (forallb_notin _ _ _ (valid_tag_chars _ Vs)). reflexivity.
  - change (Str "^^<" ++ dt ++ Str ">") with (hat :: hat :: lt_c :: dt ++ [gt_c]).
    repeat (apply notin_cons; [discriminate|]). apply notin_app.
    + apply (forallb_notin _ _ _ (valid_iri_chars _ Vs)). reflexivity.
    + intros [E|[]]; discriminate.
Qed.

Lemma line_no_lf t l : valid_triple t = true -> valid_layout l = true -> ~ In lf (nt_line t l).
Proof.
  intros V VL. destruct t as [s p o]. unfold valid_triple in V. cbn [t_s t_p t_o] in V.
  apply andb_true_iff in V. destruct V as [V Vu]. apply andb_true_iff in V. destruct V as [V Vo].
  apply andb_true_iff in V. destruct V as [Vs Vp].
  destruct (layout_parts _ VL) as (W1 & N1 & W2 & N2 & W3 & WC & CC).
  rewrite nt_line_shape. cbn [t_s t_p t_o].
  apply notin_app; [apply node_no_lf; exact Vs|].
  apply notin_app; [apply (ws_notin _ _ W1); reflexivity|].
  apply notin_app.
  { unfold r_iri. apply notin_cons; [discriminate|]. apply notin_app.
    - apply (forallb_notin _ _ _ (valid_iri_chars _ Vp)). reflexivity.
    - intros [E|[]]; discriminate. }
  apply notin_app; [apply (ws_notin _ _ W2); reflexivity|].
  apply notin_app; [apply obj_no_lf; exact Vo|].
  apply notin_app; [apply (ws_notin _ _ W3); reflexivity|].
  apply notin_cons; [discriminate|].
  unfold r_tail. destruct (comment l) as [[w txt]|]; [|intros []].
  apply notin_app; [apply (ws_notin _ _ WC); reflexivity|].
  change (Str "#" ++ txt) with ("#"%char :: txt). apply notin_cons; [discriminate|].
  apply (forallb_notin _ _ _ CC). reflexivity.
Qed.

Lemma line_not_blank t l : negb (str_eqb (strip (nt_line t l)) []) = true.
Proof.
  rewrite strip_line, nt_line_shape. destruct (r_node_first (t_s t)) as (c & x & E & _). rewrite E. reflexivity.
Qed.

Definition ok_case (x : striple * layout) : Prop :=
  valid_triple (fst x) = true /\ valid_layout (snd x) = true /\ C06_dom (fst x) (snd x) = true.

Lemma run_lines_ok allow : forall ts acc errs, Forall ok_case ts ->
  exists ys, run_lines allow (map (fun x => nt_line (fst x) (snd x)) ts) acc errs = DocDone (rev acc ++ ys) errs /\
             map k3 ys = map (fun x => kinded (fst x)) ts.
Proof.
  induction ts as [|[t l] ts IH]; intros acc errs H.
  - exists []. cbn. rewrite app_nil_r. split; reflexivity.
  - inversion H as [|? ? [V [VL D]] H']; subst. cbn [fst snd] in *. cbn [map run_lines fst snd].
    destruct (process_line_ok allow t l V VL D) as (s & o & E & K). rewrite E.
    destruct (IH ((s, t_p t, o) :: acc) errs H') as (ys & R & M). exists ((s, t_p t, o) :: ys). split.
    + rewrite R. cbn [rev]. rewrite <- app_assoc. reflexivity.
    + cbn [map]. rewrite K, M. reflexivity.
Qed.

Lemma filter_all {A} (f : A -> bool) l : forallb f l = true -> filter f l = l.
Proof.
  induction l as [|x l IH]; intros H; [reflexivity|]. cbn in *. apply andb_true_iff in H. destruct H as [H1 H2].
  rewrite H1. f_equal. auto.
Qed.

Lemma raw_lines_doc ts : Forall ok_case ts ->
  raw_string_lines (nt_doc ts) = map (fun x => nt_line (fst x) (snd x)) ts.
Proof.
  intros H. unfold raw_string_lines, nt_doc. change s_newline with [lf]. change [ascii_of_nat 10] with [lf].
  destruct ts as [|x ts]; [reflexivity|].
  rewrite split_join.
  - apply filter_all. apply forallb_forall. intros ln I. apply in_map_iff in I.
    destruct I as ([t l] & <- & _). apply line_not_blank.
  - discriminate.
  - apply Forall_forall. intros ln I. apply in_map_iff in I. destruct I as ([t l] & <- & I).
    rewrite Forall_forall in H. destruct (H _ I) as (V & VL & _). apply line_no_lf; assumption.
Qed.

Lemma read_doc_ok allow ts : Forall ok_case ts ->
  exists ys, read_raw_string allow (nt_doc ts) = DocDone ys 0 /\ map k3 ys = map (fun x => kinded (fst x)) ts.
Proof.
  intros H. unfold read_raw_string. rewrite raw_lines_doc by exact H.
  destruct (run_lines_ok allow ts [] 0%nat H) as (ys & R & M). exists ys. split; [exact R | exact M].
Qed.

(** ** statements used by [Props/C06.v] *)
Definition kinded_result (d : doc_result) : option (list (kterm * str * kterm) * nat) :=
  match d with DocDone ts e => Some (map k3 ts, e) | _ => None end.

Lemma document_partial allow ts : Forall ok_case ts ->
  kinded_result (read_raw_string allow (nt_doc ts)) = Some (map (fun x => kinded (fst x)) ts, 0%nat).
Proof.
  intros H. destruct (read_doc_ok allow ts H) as (ys & R & M). rewrite R. cbn [kinded_result]. rewrite M. reflexivity.
Qed.

Lemma line_partial allow t l :
  valid_triple t = true -> valid_layout l = true -> C06_dom t l = true ->
  kinded_result (read_raw_string allow (nt_line t l)) = Some ([kinded t], 0%nat).
Proof.
  intros V VL D. apply (document_partial allow [(t, l)]). constructor; [|constructor].
  unfold ok_case. cbn [fst snd]. auto.
Qed.

Lemma line_terminates allow t l :
  valid_triple t = true -> valid_layout l = true -> C06_dom t l = true ->
  forall ys e, read_raw_string allow (nt_line t l) <> DocHang ys e.
Proof.
  intros V VL D ys e H. pose proof (line_partial allow t l V VL D) as K. rewrite H in K. discriminate.
Qed.

(** [C06_dom] is exactly the absence of every root cause *)
Lemma dom_iff_no_root_cause t l : C06_dom t l = true <-> Forall (fun b => b = false) (root_causes t l).
Proof.
  unfold C06_dom. generalize (root_causes t l). intros rs. induction rs as [|b rs IH]; cbn [forallb].
  - split; [constructor | reflexivity].
  - rewrite andb_true_iff, negb_true_iff, IH. split; [intros [? ?]; constructor; auto | intros H; inversion H; auto].
Qed.

(** on lines of the domain the reader consults [isnumeric] on blanks only:
    the digit test of [_look_for_tokens] is never reached on any other character
    (all steps of [chain] are token steps, blank skips and the final dot) *)
