(** * detect_minimal_iri under a renaming of blank-node labels (repair of finding C09-F3).

    With the first test of [_determine_suitable_iri_pattern] (a common prefix that
    starts with the blank-node marker gives no stem: [Gen.Consts.c_min_iri_skips_bnode_prefix
    = true]) the stem of a class does not depend on the labels of its blank-node
    instances:
    - [stem_rename]: at the level of the list of instance ids ([MinIri.stem]);
    - [class_stem_rename]: for the per-class dictionary of the profiler
      ([Examples.shape_stem]) of the tracker's dictionary, composed with
      [EndToEnd3.track_rename];
    - [printed_stem_rename]: for the text put on the shape line of the decorated
      ShExC document ([RunDecor.min_iri_text]).
    Without the test the statement is false: Props/C09.v, [C09_rename_stem_refuted]. *)
From Coq Require Import List Ascii String ZArith Bool Lia.
From Shexer Require Import Lib.PyStr Lib.Dict Gen.Consts Spec.Rdf Model.Tracker Model.MinIri Model.Examples
     Model.Shexing Model.Run Model.RunDecor Spec.MinIriSpec Proofs.MinIriProofs Proofs.ExamplesProofs Proofs.EndToEnd3
     Proofs.DecorProofs.
Import ListNotations.
Local Open Scope Z_scope.

Lemma bn_pref_bnode_id s : bn_pref s = true <-> bnode_id s.
Proof. unfold bn_pref, bnode_id. apply prefixb_prefix. Qed.

(** [rid sg] fixes the identifiers that are not blank-node labels and maps labels to labels *)
Lemma rid_bnode sg s : bn_renaming sg -> (bnode_id (rid sg s) <-> bnode_id s).
Proof.
  intros R. unfold rid. destruct (bn_pref s) eqn:B.
  - split; intros _; apply bn_pref_bnode_id; [exact B | apply (ren_marked sg R), B].
  - reflexivity.
Qed.

Lemma rid_fix sg s : ~ bnode_id s -> rid sg s = s.
Proof.
  intros N. unfold rid. destruct (bn_pref s) eqn:B; [|reflexivity].
  exfalso. apply N. now apply bn_pref_bnode_id.
Qed.

Lemma map_rid_fix sg ids : (forall i, In i ids -> ~ bnode_id i) -> map (rid sg) ids = ids.
Proof.
  induction ids as [|i l IH]; intros H; cbn [map]; [reflexivity|].
  rewrite (rid_fix sg i) by (apply H; now left). rewrite IH; [reflexivity|]. intros j Hj. apply H. now right.
Qed.

Lemma well_formed_map_rid sg ids : bn_renaming sg -> well_formed_ids ids -> well_formed_ids (map (rid sg) ids).
Proof.
  intros R [NE NS]. split.
  - destruct ids; [contradiction | discriminate].
  - intros j Hj P. apply in_map_iff in Hj. destruct Hj as (i & <- & Hi).
    unfold rid in P. destruct (bn_pref i) eqn:B.
    + pose proof (ren_marked sg R i B) as M. apply bn_pref_bnode_id in M. destruct M as [r M].
      destruct P as [r' P]. rewrite M in P. discriminate P.
    + exact (NS i Hi P).
Qed.

(** either no instance is a blank node -- the list is not touched -- or one is, and then
    neither list gets a stem *)
Theorem stem_rename sg ids :
  c_min_iri_skips_bnode_prefix = true -> bn_renaming sg -> well_formed_ids ids ->
  stem (map (rid sg) ids) = stem ids.
Proof.
  intros F R W.
  assert (Dec : (forall i, In i ids -> ~ bnode_id i) \/ exists i, In i ids /\ bnode_id i).
  { clear W. induction ids as [|i l IH]; [left; intros i []|].
    destruct (bn_pref i) eqn:B.
    - right. exists i. split; [now left | now apply bn_pref_bnode_id].
    - destruct IH as [IH | (j & Hj & Bj)].
      + left. intros j [<- | Hj]; [|now apply IH]. intros Bj. apply bn_pref_bnode_id in Bj. congruence.
      + right. exists j. split; [now right | exact Bj]. }
  destruct Dec as [N | (i & Hi & B)].
  - now rewrite map_rid_fix.
  - rewrite (stem_bnode_none ids); [| now apply C17_dom_guarded | exists i; split; assumption].
    apply stem_bnode_none; [apply C17_dom_guarded; [exact F | now apply well_formed_map_rid]|].
    exists (rid sg i). split; [now apply in_map | now apply rid_bnode].
Qed.

(** the instances of a class in the renamed dictionary *)
Lemma instances_of_rename sg (ins : insts) c :
  instances_of (rename_insts sg ins) c = map (rid sg) (instances_of ins c).
Proof.
  unfold instances_of, rename_insts. induction ins as [|[i cs] l IH]; [reflexivity|].
  cbn [map flat_map fst snd]. rewrite map_app, IH. f_equal. rewrite map_map. reflexivity.
Qed.

Lemma is_instance_rename sg (ins : insts) c i :
  is_instance ins c i -> is_instance (rename_insts sg ins) c (rid sg i).
Proof.
  intros H. apply in_instances_of. rewrite instances_of_rename. apply in_map. now apply in_instances_of.
Qed.

(** the per-class dictionary of the profiler, on the tracker's dictionaries of a graph and
    of its renamed copy *)
Theorem class_stem_rename sg tau m cap g ins mode ip d d' c :
  c_min_iri_skips_bnode_prefix = true -> bn_renaming sg -> rename_dom tau g = true ->
  track tau m cap g = inl ins ->
  profile_examples true mode ip ins g = Some d ->
  profile_examples true mode ip (rename_insts sg ins) (rename_graph sg g) = Some d' ->
  (exists i, is_instance ins c i) -> well_formed_ids (instances_of ins c) ->
  track tau m cap (rename_graph sg g) = inl (rename_insts sg ins) /\
  shape_stem d' c = shape_stem d c.
Proof.
  intros F R Hg T E E' [i Hi] W.
  assert (T' : track tau m cap (rename_graph sg g) = inl (rename_insts sg ins)).
  { rewrite (track_rename sg R tau m cap g Hg), T. reflexivity. }
  split; [exact T'|].
  rewrite (shape_stem_is_stem ins g mode ip d c E (ex_intro _ i Hi)).
  rewrite (shape_stem_is_stem _ _ mode ip d' c E' (ex_intro _ _ (is_instance_rename sg ins c i Hi))).
  rewrite instances_of_rename, (stem_rename sg _ F R W). reflexivity.
Qed.

(** the text on the shape line of the decorated document *)
Theorem printed_stem_rename sg c mode g ins d ins' d' sh :
  c_min_iri_skips_bnode_prefix = true -> bn_renaming sg -> rename_dom (r_tau c) g = true ->
  run_decor_data c true mode g = Some (ins, d) ->
  run_decor_data c true mode (rename_graph sg g) = Some (ins', d') ->
  (exists i, is_instance ins (sh_class sh) i) -> well_formed_ids (instances_of ins (sh_class sh)) ->
  ins' = rename_insts sg ins /\
  min_iri_text {| d_dmi := true; d_mode := mode; d_inverse := r_inverse c |} d' sh =
  min_iri_text {| d_dmi := true; d_mode := mode; d_inverse := r_inverse c |} d sh.
Proof.
  intros F R Hg H H' [i Hi] W.
  destruct (run_decor_data_inv _ _ _ _ _ _ H) as (T & _).
  destruct (run_decor_data_inv _ _ _ _ _ _ H') as (T' & _).
  rewrite (track_rename sg R _ _ _ g Hg), T in T'. cbn in T'.
  assert (Ei : ins' = rename_insts sg ins) by congruence. split; [exact Ei|]. subst ins'.
  rewrite (printed_stem_is_class_stem _ _ _ _ _ sh H (ex_intro _ i Hi)).
  rewrite (printed_stem_is_class_stem _ _ _ _ _ sh H' (ex_intro _ _ (is_instance_rename sg ins _ i Hi))).
  rewrite instances_of_rename, (stem_rename sg _ F R W). reflexivity.
Qed.
