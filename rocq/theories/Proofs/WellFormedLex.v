(** * C05 -- lemmas on the lexer and the parser automaton of
    [Spec/ShexcGrammar.v]: compositionality and the tokens of the basic pieces
    (white space, comments, IRIREF, words, punctuation). *)
From Coq Require Import List Ascii String ZArith NArith Bool Arith Lia.
From Shexer Require Import Lib.PyStr Spec.ShexcGrammar.
Import ListNotations.

(** ** running the lexer over a concatenation *)
Definition prepend (toks : list token) (r : option (lstate * list token)) : option (lstate * list token) :=
  match r with Some (st, out) => Some (st, toks ++ out) | None => None end.

Lemma lex_run_app st a b :
  lex_run st (a ++ b) = match lex_run st a with
                        | None => None
                        | Some (st', o1) => prepend o1 (lex_run st' b)
                        end.
Proof.
  revert st; induction a as [|c a IH]; intros st; cbn [app lex_run].
  - destruct (lex_run st b) as [[st' o]|]; reflexivity.
  - destruct (lex_step st c) as [[st1 o1]|]; [|reflexivity]. rewrite IH.
    destruct (lex_run st1 a) as [[st2 o2]|]; [|reflexivity].
    destruct (lex_run st2 b) as [[st3 o3]|]; cbn; [rewrite app_assoc|]; reflexivity.
Qed.

(** [s] is a sequence of complete tokens: read from the default state it
    yields [toks] and comes back to the default state *)
Definition lexes (s : str) (toks : list token) : Prop := lex_run LDef s = Some (LDef, toks).

Lemma lexes_nil : lexes [] [].
Proof. reflexivity. Qed.

Lemma lexes_app a ta b tb : lexes a ta -> lexes b tb -> lexes (a ++ b) (ta ++ tb).
Proof. unfold lexes. intros Ha Hb. rewrite lex_run_app, Ha, Hb. reflexivity. Qed.

Lemma lexes_concat ls tss : Forall2 lexes ls tss -> lexes (List.concat ls) (List.concat tss).
Proof. induction 1; cbn; [apply lexes_nil|apply lexes_app; assumption]. Qed.

Lemma lexes_lex s toks : lexes s toks -> lex s = Some toks.
Proof. unfold lexes, lex. intros ->. cbn. rewrite app_nil_r. reflexivity. Qed.

Lemma lexes_cons_nil c s toks : lex_def c = Some (LDef, []) -> lexes s toks -> lexes (c :: s) toks.
Proof. unfold lexes. intros Hc Hs. cbn [lex_run lex_step]. rewrite Hc, Hs. reflexivity. Qed.

(** ** characters: facts checked on all 256 bytes *)
Ltac all_bytes c :=
  destruct c as [[] [] [] [] [] [] [] []].

Definition word_start (c : ascii) : bool := word_char c && negb (is_dot c).

Lemma lex_def_word_start c : word_start c = true -> lex_def c = Some (LWord [c], []).
Proof. all_bytes c; intros H; first [discriminate H | reflexivity]. Qed.

Lemma lex_def_ws c : is_ws c = true -> lex_def c = Some (LDef, []).
Proof. unfold lex_def. intros ->. reflexivity. Qed.

Lemma iri_char_not_close c : iri_char c = true -> (code c =? 62) = false.
Proof. all_bytes c; intros H; first [discriminate H | reflexivity]. Qed.

Lemma pn_char_word c : pn_char c = true -> word_char c = true.
Proof. unfold word_char. intros ->. reflexivity. Qed.

Lemma pn_char_not_colon c : pn_char c = true -> (code c =? 58) = false.
Proof. all_bytes c; intros H; first [discriminate H | reflexivity]. Qed.

Lemma is_alpha_pn c : is_alpha c = true -> pn_char c = true.
Proof. unfold pn_char. intros ->. reflexivity. Qed.

Lemma is_alpha_start c : is_alpha c = true -> word_start c = true.
Proof. all_bytes c; intros H; first [discriminate H | reflexivity]. Qed.

Lemma local_start c : (is_alpha c || is_digit c || (code c =? 95)) = true -> pn_char c = true.
Proof. all_bytes c; intros H; first [discriminate H | reflexivity]. Qed.

Lemma is_digit_not_close c : is_digit c = true -> (code c =? 125) = false.
Proof. all_bytes c; intros H; first [discriminate H | reflexivity]. Qed.

Lemma ws_not_word c : is_ws c = true -> word_char c = false.
Proof. all_bytes c; intros H; first [discriminate H | reflexivity]. Qed.

(** ** white space and comments *)
Lemma lexes_ws s : forallb is_ws s = true -> lexes s [].
Proof.
  induction s as [|c s IH]; cbn [forallb]; [reflexivity|]. intros H. apply andb_true_iff in H.
  apply lexes_cons_nil; [apply lex_def_ws; tauto|apply IH; tauto].
Qed.

Definition no_nl (s : str) : bool := forallb (fun c => negb (code c =? 10)) s.

Lemma no_nl_app a b : no_nl (a ++ b) = no_nl a && no_nl b.
Proof. apply forallb_app. Qed.

Definition nlc : ascii := ascii_of_nat 10.

Lemma lex_comment_body s : no_nl s = true -> lex_run LComment (s ++ [nlc]) = Some (LDef, []).
Proof.
  induction s as [|c s IH]; cbn [no_nl forallb app]; [reflexivity|]. intros H. apply andb_true_iff in H.
  destruct H as [Hc Hs]. cbn [lex_run lex_step]. apply negb_true_iff in Hc. rewrite Hc. rewrite (IH Hs). reflexivity.
Qed.

(** a comment line: '#', anything without a newline, newline *)
Lemma lexes_comment s : no_nl s = true -> lexes ("#"%char :: s ++ [nlc]) [].
Proof.
  intros H. unfold lexes. change ("#"%char :: s ++ [nlc]) with (["#"%char] ++ (s ++ [nlc])).
  rewrite lex_run_app. change (lex_run LDef ["#"%char]) with (Some (LComment, @nil token)).
  cbv beta iota. rewrite (lex_comment_body s H). reflexivity.
Qed.

(** ** IRIREF *)
Lemma lex_iri_body u : forall acc, forallb iri_char u = true ->
  lex_run (LIri acc) (u ++ [">"%char]) = Some (LDef, [TIri (rev acc ++ u)]).
Proof.
  induction u as [|c u IH]; intros acc H.
  - cbn. rewrite app_nil_r. reflexivity.
  - cbn [forallb] in H. apply andb_true_iff in H. destruct H as [Hc Hu].
    cbn [app lex_run lex_step]. rewrite (iri_char_not_close c Hc), Hc. rewrite (IH (c :: acc) Hu).
    cbn [rev]. rewrite <- app_assoc. reflexivity.
Qed.

Lemma lexes_iri u : forallb iri_char u = true -> lexes ("<"%char :: u ++ [">"%char]) [TIri u].
Proof.
  intros H. unfold lexes. change ("<"%char :: u ++ [">"%char]) with (["<"%char] ++ (u ++ [">"%char])).
  rewrite lex_run_app. change (lex_run LDef ["<"%char]) with (Some (LIri [], @nil token)).
  cbv beta iota. rewrite (lex_iri_body u [] H). reflexivity.
Qed.

(** ** words *)
Lemma lex_word_body w : forall acc rest, forallb word_char w = true ->
  lex_run (LWord acc) (w ++ rest) = lex_run (LWord (rev w ++ acc)) rest.
Proof.
  induction w as [|c w IH]; intros acc rest H; [reflexivity|].
  cbn [forallb] in H. apply andb_true_iff in H. destruct H as [Hc Hw].
  cbn [app lex_run lex_step]. rewrite Hc. rewrite (IH (c :: acc) rest Hw). cbn [rev]. rewrite <- app_assoc.
  cbn [app]. destruct (lex_run _ rest) as [[st o]|]; reflexivity.
Qed.

(** a delimiter: a character that ends a word and is itself a complete token (or white space) *)
Definition delim (d : ascii) (out : list token) : Prop :=
  word_char d = false /\ lex_def d = Some (LDef, out).

Lemma delim_space : delim " "%char []. Proof. split; reflexivity. Qed.
Lemma delim_nl : delim nlc []. Proof. split; reflexivity. Qed.
Lemma delim_rbrack : delim "]"%char [TRBrack]. Proof. split; reflexivity. Qed.

Lemma lexes_delim d out : delim d out -> lexes [d] out.
Proof. intros [_ H]. unfold lexes. cbn [lex_run lex_step]. rewrite H. rewrite app_nil_r. reflexivity. Qed.

Lemma lexes_word c w t d out :
  word_start c = true -> forallb word_char w = true -> classify (c :: w) = Some t -> delim d out ->
  lexes ((c :: w) ++ [d]) (t :: out).
Proof.
  intros Hc Hw Ht [Hd1 Hd2]. unfold lexes. cbn [app lex_run lex_step].
  rewrite (lex_def_word_start c Hc). rewrite (lex_word_body w [c] [d] Hw).
  cbn [lex_run lex_step]. rewrite Hd1. rewrite rev_app_distr, rev_involutive. cbn [rev app].
  rewrite Ht, Hd2. rewrite app_nil_r. reflexivity.
Qed.

(** [s] is a complete token sequence once a delimiter follows *)
Definition tokL (s : str) (toks : list token) : Prop :=
  forall d out, delim d out -> lexes (s ++ [d]) (toks ++ out).

Lemma tokL_closed s toks : lexes s toks -> tokL s toks.
Proof. intros H d out Hd. apply lexes_app; [exact H|apply lexes_delim, Hd]. Qed.

Lemma tokL_app a ta b tb : lexes a ta -> tokL b tb -> tokL (a ++ b) (ta ++ tb).
Proof. intros Ha Hb d out Hd. rewrite <- !app_assoc. apply lexes_app; [exact Ha|apply Hb, Hd]. Qed.

Lemma tokL_word c w t :
  word_start c = true -> forallb word_char w = true -> classify (c :: w) = Some t -> tokL (c :: w) [t].
Proof. intros Hc Hw Ht d out Hd. apply lexes_word; assumption. Qed.

(** ** prefixed names and keywords *)
Lemma split_colon_pn p : forall acc l, forallb pn_char p = true ->
  split_colon acc (p ++ ":"%char :: l) = Some (rev acc ++ p, l).
Proof.
  induction p as [|c p IH]; intros acc l H.
  - cbn. rewrite app_nil_r. reflexivity.
  - cbn [forallb] in H. apply andb_true_iff in H. destruct H as [Hc Hp].
    cbn [app split_colon]. rewrite (pn_char_not_colon c Hc). rewrite (IH (c :: acc) l Hp).
    cbn [rev]. rewrite <- app_assoc. reflexivity.
Qed.

Lemma valid_prefix_pn p : valid_prefix p = true -> forallb pn_char p = true.
Proof.
  destruct p as [|c r]; [reflexivity|]. cbn [valid_prefix forallb]. intros H.
  apply andb_true_iff in H. destruct H as [H _]. apply andb_true_iff in H. destruct H as [Hc Hr].
  rewrite (is_alpha_pn c Hc), Hr. reflexivity.
Qed.

Lemma valid_local_pn l : valid_local l = true -> forallb pn_char l = true.
Proof.
  destruct l as [|c r]; [reflexivity|]. cbn [valid_local forallb]. intros H.
  apply andb_true_iff in H. destruct H as [H _]. apply andb_true_iff in H. destruct H as [Hc Hr].
  rewrite (local_start c Hc), Hr. reflexivity.
Qed.

Lemma forallb_pn_word s : forallb pn_char s = true -> forallb word_char s = true.
Proof.
  intros H. apply forallb_forall. intros x Hx. apply pn_char_word. rewrite forallb_forall in H. auto.
Qed.

Lemma classify_pname p l :
  valid_prefix p = true -> valid_local l = true -> classify (p ++ ":"%char :: l) = Some (TPname p l).
Proof.
  intros Hp Hl. unfold classify. rewrite (split_colon_pn p [] l (valid_prefix_pn p Hp)). cbn [rev app].
  rewrite Hp, Hl. reflexivity.
Qed.

Lemma tokL_pname p l :
  valid_prefix p = true -> valid_local l = true -> tokL (p ++ ":"%char :: l) [TPname p l].
Proof.
  intros Hp Hl. pose proof (classify_pname p l Hp Hl) as Hc.
  assert (Hw : forallb word_char (p ++ ":"%char :: l) = true).
  { rewrite forallb_app. rewrite (forallb_pn_word p (valid_prefix_pn p Hp)). cbn [forallb andb].
    rewrite (forallb_pn_word l (valid_local_pn l Hl)). reflexivity. }
  destruct p as [|c p].
  - cbn [app] in *. apply tokL_word; [reflexivity| |exact Hc]. cbn [forallb] in Hw. apply andb_true_iff in Hw. tauto.
  - cbn [app] in *. apply tokL_word; [| |exact Hc].
    + apply is_alpha_start. cbn [valid_prefix] in Hp. apply andb_true_iff in Hp. destruct Hp as [Hp _].
      apply andb_true_iff in Hp. tauto.
    + cbn [forallb] in Hw. apply andb_true_iff in Hw. tauto.
Qed.

(** ** the automaton over a concatenation *)
Lemma prun_app st a b :
  prun st (a ++ b) = match prun st a with Some st' => prun st' b | None => None end.
Proof.
  revert st; induction a as [|t a IH]; intros st; cbn [app prun]; [reflexivity|].
  destruct (pstep st t); [apply IH|reflexivity].
Qed.

Lemma labels_from_app st a b st' :
  prun st a = Some st' -> labels_from st (a ++ b) = labels_from st a ++ labels_from st' b.
Proof.
  revert st; induction a as [|t a IH]; intros st; cbn [app prun labels_from].
  - intros H; inversion H; reflexivity.
  - destruct (pstep st t) as [st1|]; [|discriminate]. intros H. rewrite (IH st1 H).
    destruct st; try reflexivity. destruct (is_iri_tok t); reflexivity.
Qed.

Lemma refs_from_app st a b st' :
  prun st a = Some st' -> refs_from st (a ++ b) = refs_from st a ++ refs_from st' b.
Proof.
  revert st; induction a as [|t a IH]; intros st; cbn [app prun refs_from].
  - intros H; inversion H; reflexivity.
  - destruct (pstep st t) as [st1|]; [|discriminate]. intros H. rewrite (IH st1 H).
    destruct st; reflexivity.
Qed.
