(** * Shared lemmas on the shexing stage (Model/Shexing.v): result combinators,
    one-field configuration updates, decomposition of [tune], [merge_group]
    and [shex_class], permutation/invariant lemmas for the selection, and the
    relational lemma for [clean_shapes].  Used by OptionLemmas (C13),
    InverseLemmas (C14) and ClosureLemmas (C05). *)
From Coq Require Import List Ascii String ZArith NArith Bool Lia Permutation.
From Shexer Require Import Lib.PyStr Lib.Dict Gen.Consts Model.Profiler Model.Tokens Model.Freq Model.Shexing.
Import ListNotations.

(** ** results *)
Definition map_res {A B E} (f : A -> B) (r : A + E) : B + E :=
  match r with inl x => inl (f x) | inr e => inr e end.

Definition bind_res {A B E} (r : A + E) (f : A -> B + E) : B + E :=
  match r with inl x => f x | inr e => inr e end.

Definition res_rel {A B E} (R : A -> B -> Prop) (r1 : A + E) (r2 : B + E) : Prop :=
  match r1, r2 with
  | inl a, inl b => R a b
  | inr e1, inr e2 => e1 = e2
  | _, _ => False
  end.

Definition map_stmts (f : stmt -> stmt) (sh : shape) : shape :=
  {| sh_name := sh_name sh; sh_class := sh_class sh; sh_n := sh_n sh; sh_stmts := map f (sh_stmts sh) |}.

Definition map_shapes (f : stmt -> stmt) (l : list shape) : list shape := map (map_stmts f) l.

(** ** one-field updates of the shexing configuration *)
Definition with_disable_comments (b : bool) (c : scfg) : scfg :=
  {| x_tau := x_tau c; x_inverse := x_inverse c; x_shapes_ns := x_shapes_ns c; x_ns := x_ns c;
     x_remove_empty := x_remove_empty c; x_discard_useless := x_discard_useless c;
     x_keep_less_specific := x_keep_less_specific c; x_all_compliant := x_all_compliant c;
     x_disable_or := x_disable_or c; x_allow_redundant_or := x_allow_redundant_or c;
     x_allow_opt := x_allow_opt c; x_disable_exact := x_disable_exact c;
     x_disable_comments := b |}.

Definition with_allow_opt (b : bool) (c : scfg) : scfg :=
  {| x_tau := x_tau c; x_inverse := x_inverse c; x_shapes_ns := x_shapes_ns c; x_ns := x_ns c;
     x_remove_empty := x_remove_empty c; x_discard_useless := x_discard_useless c;
     x_keep_less_specific := x_keep_less_specific c; x_all_compliant := x_all_compliant c;
     x_disable_or := x_disable_or c; x_allow_redundant_or := x_allow_redundant_or c;
     x_allow_opt := b; x_disable_exact := x_disable_exact c;
     x_disable_comments := x_disable_comments c |}.

Definition with_disable_exact (b : bool) (c : scfg) : scfg :=
  {| x_tau := x_tau c; x_inverse := x_inverse c; x_shapes_ns := x_shapes_ns c; x_ns := x_ns c;
     x_remove_empty := x_remove_empty c; x_discard_useless := x_discard_useless c;
     x_keep_less_specific := x_keep_less_specific c; x_all_compliant := x_all_compliant c;
     x_disable_or := x_disable_or c; x_allow_redundant_or := x_allow_redundant_or c;
     x_allow_opt := x_allow_opt c; x_disable_exact := b;
     x_disable_comments := x_disable_comments c |}.

Definition with_all_compliant (b : bool) (c : scfg) : scfg :=
  {| x_tau := x_tau c; x_inverse := x_inverse c; x_shapes_ns := x_shapes_ns c; x_ns := x_ns c;
     x_remove_empty := x_remove_empty c; x_discard_useless := x_discard_useless c;
     x_keep_less_specific := x_keep_less_specific c; x_all_compliant := b;
     x_disable_or := x_disable_or c; x_allow_redundant_or := x_allow_redundant_or c;
     x_allow_opt := x_allow_opt c; x_disable_exact := x_disable_exact c;
     x_disable_comments := x_disable_comments c |}.

Definition with_disable_or (b : bool) (c : scfg) : scfg :=
  {| x_tau := x_tau c; x_inverse := x_inverse c; x_shapes_ns := x_shapes_ns c; x_ns := x_ns c;
     x_remove_empty := x_remove_empty c; x_discard_useless := x_discard_useless c;
     x_keep_less_specific := x_keep_less_specific c; x_all_compliant := x_all_compliant c;
     x_disable_or := b; x_allow_redundant_or := x_allow_redundant_or c;
     x_allow_opt := x_allow_opt c; x_disable_exact := x_disable_exact c;
     x_disable_comments := x_disable_comments c |}.

Definition with_inverse (b : bool) (c : scfg) : scfg :=
  {| x_tau := x_tau c; x_inverse := b; x_shapes_ns := x_shapes_ns c; x_ns := x_ns c;
     x_remove_empty := x_remove_empty c; x_discard_useless := x_discard_useless c;
     x_keep_less_specific := x_keep_less_specific c; x_all_compliant := x_all_compliant c;
     x_disable_or := x_disable_or c; x_allow_redundant_or := x_allow_redundant_or c;
     x_allow_opt := x_allow_opt c; x_disable_exact := x_disable_exact c;
     x_disable_comments := x_disable_comments c |}.

Definition with_ns (ns : nsdict) (c : scfg) : scfg :=
  {| x_tau := x_tau c; x_inverse := x_inverse c; x_shapes_ns := x_shapes_ns c; x_ns := ns;
     x_remove_empty := x_remove_empty c; x_discard_useless := x_discard_useless c;
     x_keep_less_specific := x_keep_less_specific c; x_all_compliant := x_all_compliant c;
     x_disable_or := x_disable_or c; x_allow_redundant_or := x_allow_redundant_or c;
     x_allow_opt := x_allow_opt c; x_disable_exact := x_disable_exact c;
     x_disable_comments := x_disable_comments c |}.

(** the fields the selection stage ([select_valid]) reads *)
Definition sel_agree (c1 c2 : scfg) : Prop :=
  x_tau c1 = x_tau c2 /\ x_ns c1 = x_ns c2 /\ x_discard_useless c1 = x_discard_useless c2 /\
  x_keep_less_specific c1 = x_keep_less_specific c2 /\ x_disable_or c1 = x_disable_or c2 /\
  x_allow_redundant_or c1 = x_allow_redundant_or c2.

Lemma select_valid_agree fa c1 c2 cnt l :
  sel_agree c1 c2 -> select_valid fa c1 cnt l = select_valid fa c2 cnt l.
Proof.
  destruct c1, c2; unfold sel_agree; simpl. intros (?&?&?&?&?&?). subst. reflexivity.
Qed.

(** ** generic list facts *)
Lemma filter_map_comm {A B} (f : A -> B) (p : B -> bool) (q : A -> bool) (l : list A) :
  (forall x, p (f x) = q x) -> filter p (map f l) = map f (filter q l).
Proof.
  intros H. induction l as [|x l IH]; simpl; [reflexivity|].
  rewrite H. destruct (q x); simpl; rewrite IH; reflexivity.
Qed.

Lemma existsb_map_comm {A B} (f : A -> B) (p : B -> bool) (q : A -> bool) (l : list A) :
  (forall x, p (f x) = q x) -> existsb p (map f l) = existsb q l.
Proof.
  intros H. induction l as [|x l IH]; simpl; [reflexivity|]. rewrite H, IH. reflexivity.
Qed.

Lemma Forall2_filter {A B} (R : A -> B -> Prop) (p : A -> bool) (q : B -> bool) l1 l2 :
  (forall a b, R a b -> p a = q b) -> Forall2 R l1 l2 -> Forall2 R (filter p l1) (filter q l2).
Proof.
  intros H F. induction F as [|a b l1 l2 Hab F IH]; simpl; [constructor|].
  rewrite (H _ _ Hab). destruct (q b); [constructor|]; assumption.
Qed.

Lemma Forall2_existsb {A B} (R : A -> B -> Prop) (p : A -> bool) (q : B -> bool) l1 l2 :
  (forall a b, R a b -> p a = q b) -> Forall2 R l1 l2 -> existsb p l1 = existsb q l2.
Proof.
  intros H F. induction F as [|a b l1 l2 Hab F IH]; simpl; [reflexivity|].
  rewrite (H _ _ Hab), IH. reflexivity.
Qed.

Lemma Forall2_eq_map {A B} (f : B -> A) l1 l2 :
  Forall2 (fun a b => a = f b) l1 l2 <-> l1 = map f l2.
Proof.
  split.
  - intros F. induction F as [|a b l1 l2 Hab F IH]; simpl; [reflexivity|]. subst. reflexivity.
  - intros ->. induction l2 as [|b l2 IH]; simpl; constructor; auto.
Qed.

Lemma Forall2_In_r {A B} (R : A -> B -> Prop) l1 l2 y :
  Forall2 R l1 l2 -> In y l2 -> exists x, In x l1 /\ R x y.
Proof.
  intros F. induction F as [|a b l1 l2 Hab F IH]; simpl; [contradiction|].
  intros [<-|H]; [exists a; split; [left; reflexivity | exact Hab]|].
  destruct (IH H) as (x & Hx & Hr). exists x. split; [right|]; assumption.
Qed.

Lemma Forall2_In_l {A B} (R : A -> B -> Prop) l1 l2 x :
  Forall2 R l1 l2 -> In x l1 -> exists y, In y l2 /\ R x y.
Proof.
  intros F. induction F as [|a b l1 l2 Hab F IH]; simpl; [contradiction|].
  intros [<-|H]; [exists b; split; [left; reflexivity | exact Hab]|].
  destruct (IH H) as (y & Hy & Hr). exists y. split; [right|]; assumption.
Qed.

Lemma Forall2_len {A B} (R : A -> B -> Prop) l1 l2 : Forall2 R l1 l2 -> List.length l1 = List.length l2.
Proof. intros F. induction F; simpl; [reflexivity | f_equal; assumption]. Qed.

(** ** [map_err] *)
Lemma map_err_Forall2 {A B E} (f : A -> B + E) l r :
  map_err f l = inl r <-> Forall2 (fun x y => f x = inl y) l r.
Proof.
  revert r. induction l as [|x l IH]; simpl; intros r.
  - split; [intros H; inversion H; constructor | intros H; inversion H; reflexivity].
  - destruct (f x) as [y|e] eqn:Ef.
    + destruct (map_err f l) as [ys|e] eqn:Em.
      * split.
        -- intros H; inversion H; subst. constructor; [assumption|]. apply IH. reflexivity.
        -- intros H; inversion H as [|? ? ? ? Hxy F]; subst. rewrite Ef in Hxy. inversion Hxy; subst.
           apply IH in F. inversion F; subst. reflexivity.
      * split; [discriminate|].
        intros H; inversion H as [|? ? ? ? Hxy F]; subst. apply IH in F. discriminate.
    + split; [discriminate|]. intros H; inversion H as [|? ? ? ? Hxy F]; subst.
      rewrite Ef in Hxy. discriminate.
Qed.

Lemma map_err_ext {A B E} (f g : A -> B + E) l :
  (forall x, In x l -> f x = g x) -> map_err f l = map_err g l.
Proof.
  induction l as [|x l IH]; simpl; intros H; [reflexivity|].
  rewrite (H x (or_introl eq_refl)), IH; [reflexivity|]. intros y Hy. apply H. right. exact Hy.
Qed.

Lemma map_err_map_res {A B E} (f : A -> B + E) (g : A -> B + E) (h : B -> B) l :
  (forall x, In x l -> f x = map_res h (g x)) -> map_err f l = map_res (map h) (map_err g l).
Proof.
  induction l as [|x l IH]; simpl; intros H; [reflexivity|].
  rewrite (H x (or_introl eq_refl)).
  destruct (g x) as [y|e]; simpl; [|reflexivity].
  rewrite IH by (intros z Hz; apply H; right; exact Hz).
  destruct (map_err g l); reflexivity.
Qed.

Lemma map_err_map {A A' B E} (f : A -> B + E) (g : A' -> A) l :
  map_err f (map g l) = map_err (fun x => f (g x)) l.
Proof.
  induction l as [|x l IH]; simpl; [reflexivity|]. rewrite IH. reflexivity.
Qed.

Lemma map_err_total {A B E} (f : A -> B) (l : list A) :
  map_err (E := E) (fun x => inl (f x)) l = inl (map f l).
Proof.
  induction l as [|x l IH]; simpl; [reflexivity|]. rewrite IH. reflexivity.
Qed.

(** the first failing element *)
Lemma map_err_inr {A B E} (f : A -> B + E) l e :
  map_err f l = inr e -> exists x, In x l /\ f x = inr e.
Proof.
  induction l as [|x l IH]; simpl; [discriminate|].
  destruct (f x) as [y|e'] eqn:Ef.
  - destruct (map_err f l) as [ys|e'']; [discriminate|].
    intros H; inversion H; subst. destruct (IH eq_refl) as (z & Hz & Hfz).
    exists z. split; [right|]; assumption.
  - intros H; inversion H; subst. exists x. split; [left; reflexivity | assumption].
Qed.

Lemma map_err_all_inl {A B E} (f : A -> B + E) l :
  (forall x, In x l -> exists y, f x = inl y) -> exists r, map_err f l = inl r.
Proof.
  induction l as [|x l IH]; simpl; intros H; [eexists; reflexivity|].
  destruct (H x (or_introl eq_refl)) as (y & ->).
  destruct IH as (r & ->); [intros z Hz; apply H; right; exact Hz|]. eexists; reflexivity.
Qed.

(** ** the stable insertion sort is a permutation *)
Section Sort.
  Variable fa : FreqAlg.
  Variable cnt : N.

  Lemma insert_desc_perm x l : Permutation (x :: l) (insert_desc fa cnt x l).
  Proof.
    induction l as [|y l IH]; simpl; [apply Permutation_refl|].
    destruct (fle fa (pv fa cnt x) (pv fa cnt y)); [|apply Permutation_refl].
    eapply Permutation_trans; [apply perm_swap|]. apply perm_skip. exact IH.
  Qed.

  Lemma fold_insert_perm l acc :
    Permutation (l ++ acc) (fold_left (fun a x => insert_desc fa cnt x a) l acc).
  Proof.
    revert acc. induction l as [|x l IH]; simpl; intros acc; [apply Permutation_refl|].
    eapply Permutation_trans; [|apply IH].
    eapply Permutation_trans; [apply Permutation_middle|].
    apply Permutation_app_head. apply insert_desc_perm.
  Qed.

  Lemma sort_desc_perm l : Permutation l (sort_desc fa cnt l).
  Proof.
    unfold sort_desc. pose proof (fold_insert_perm l []) as H. rewrite app_nil_r in H. exact H.
  Qed.

  Lemma sort_desc_In l x : In x (sort_desc fa cnt l) <-> In x l.
  Proof.
    split; intros H.
    - eapply Permutation_in; [apply Permutation_sym, sort_desc_perm | exact H].
    - eapply Permutation_in; [apply sort_desc_perm | exact H].
  Qed.

  Lemma sort_desc_Forall (Q : stmt -> Prop) l : Forall Q l -> Forall Q (sort_desc fa cnt l).
  Proof.
    rewrite !Forall_forall. intros H x Hx. apply H. apply sort_desc_In. exact Hx.
  Qed.

  Lemma sort_desc_nil : sort_desc fa cnt [] = [].
  Proof. reflexivity. Qed.
End Sort.

(** ** [tune] in two phases: relaxation (may fail), then a statement-wise map *)
Definition relax_phase (fa : FreqAlg) (cfg : scfg) (cnt : N) (l : list stmt) : list stmt + serr :=
  if x_all_compliant cfg then map_err (relax fa cfg cnt) l else inl l.

Definition post1 (cfg : scfg) (s : stmt) : stmt :=
  let s1 := if x_disable_exact cfg then generalize_exact s else s in
  if x_disable_comments cfg then drop_comments s1 else s1.

Lemma tune_eq fa cfg cnt v :
  tune fa cfg cnt v = map_res (map (post1 cfg)) (relax_phase fa cfg cnt (sort_desc fa cnt v)).
Proof.
  unfold tune, relax_phase, post1. destruct v as [|a v].
  - simpl. destruct (x_all_compliant cfg); reflexivity.
  - generalize (sort_desc fa cnt (a :: v)). intros l0.
    destruct (x_all_compliant cfg).
    + destruct (map_err (relax fa cfg cnt) l0) as [l1|e]; simpl; [|reflexivity].
      destruct (x_disable_exact cfg), (x_disable_comments cfg); simpl;
        rewrite ?map_map, ?map_id; reflexivity.
    + simpl. destruct (x_disable_exact cfg), (x_disable_comments cfg); simpl;
        rewrite ?map_map, ?map_id; reflexivity.
Qed.

(** ** [shex_class] as a composition *)
Definition class_cnt (counts : ccounts) (ce : str * centry) : N :=
  match dget counts (fst ce) with Some n => n | None => 0%N end.

Definition class_sorted (fa : FreqAlg) (cfg : scfg) (thr : F fa) (counts : ccounts) (ce : str * centry) : list stmt :=
  let cnt := class_cnt counts ce in
  sort_desc fa cnt (base_statements fa thr cnt false (c_direct (snd ce)) ++
                    (if x_inverse cfg then base_statements fa thr cnt true (c_inverse (snd ce)) else [])).

Definition mk_shape (cfg : scfg) (counts : ccounts) (ce : str * centry) (stmts : list stmt) : shape :=
  {| sh_name := shape_name (x_shapes_ns cfg) (fst ce); sh_class := fst ce; sh_n := class_cnt counts ce;
     sh_stmts := stmts |}.

Lemma shex_class_eq fa cfg thr counts ce :
  shex_class fa cfg thr counts ce =
  bind_res (select_valid fa cfg (class_cnt counts ce)
              (filter (fun s => negb (s_inv s)) (class_sorted fa cfg thr counts ce)))
    (fun vd => bind_res (select_valid fa cfg (class_cnt counts ce)
                           (filter (fun s => s_inv s) (class_sorted fa cfg thr counts ce)))
       (fun vi => map_res (mk_shape cfg counts ce) (tune fa cfg (class_cnt counts ce) (vd ++ vi)))).
Proof.
  unfold shex_class, class_sorted, class_cnt, bind_res, map_res, mk_shape.
  destruct (select_valid fa cfg _ (filter (fun s => negb (s_inv s)) _)) as [vd|e]; [|reflexivity].
  destruct (select_valid fa cfg _ (filter (fun s => s_inv s) _)) as [vi|e]; [|reflexivity].
  destruct (tune fa cfg _ (vd ++ vi)); reflexivity.
Qed.

(** ** [merge_group] in pieces *)
Section Merge.
  Variable fa : FreqAlg.
  Variable cfg : scfg.

  Definition mg_bnode (g : list stmt) := last_such (fun s => str_eqb (s_type s) c_BNODE_ELEM_TYPE) g.
  Definition mg_iri (g : list stmt) := last_such (fun s => str_eqb (s_type s) c_IRI_ELEM_TYPE) g.
  Definition mg_shapes (cnt : N) (g : list stmt) :=
    sort_desc fa cnt (filter (fun s => negb (str_eqb (s_type s) c_BNODE_ELEM_TYPE) &&
                                       negb (str_eqb (s_type s) c_IRI_ELEM_TYPE)) g).

  Definition mg_nonlit (b i : stmt) : stmt :=
    {| s_inv := s_inv b; s_prop := s_prop b; s_types := [c_NONLITERAL_ELEM_TYPE];
       s_choice := false; s_card := most_general_card (s_card b) (s_card i);
       s_nocc := (s_nocc b + s_nocc i)%N;
       s_prob := match s_prob b, s_prob i with
                 | PRatio x, PRatio y => PSum x y
                 | _, _ => PSum (s_nocc b) (s_nocc i)
                 end;
       s_comments := [] |}.

  Definition mg_dominant (bnode iri : option stmt) (shapes : list stmt) : stmt + serr :=
    match bnode with
    | Some b =>
      match iri with
      | Some i =>
        match shapes with
        | [s0] => if N.eqb (s_nocc i + s_nocc b) (s_nocc s0) then inl s0 else inl (mg_nonlit b i)
        | _ => inl (mg_nonlit b i)
        end
      | None =>
        match shapes with
        | s0 :: _ => if N.eqb (s_nocc s0) (s_nocc b) then inl s0 else inl b
        | [] => inl b
        end
      end
    | None =>
      match shapes with
      | [] => match iri with Some i => inl i | None => inr SEValue end
      | s0 :: _ =>
        match iri with
        | None => inl s0
        | Some i => if N.ltb (s_nocc s0) (s_nocc i) then inl i else inl s0
        end
      end
    end.

  Definition mg_choice (dom0 : stmt) (tys : list str) : stmt :=
    {| s_inv := s_inv dom0; s_prop := s_prop dom0; s_types := tys; s_choice := true;
       s_card := s_card dom0; s_nocc := s_nocc dom0; s_prob := s_prob dom0; s_comments := [] |}.

  Definition mg_or_types (dom0 : stmt) (shapes : list stmt) : list str :=
    let dom_in_shapes := existsb (same_obj dom0) shapes in
    if x_allow_redundant_or cfg
    then (if dom_in_shapes then [] else [s_type dom0]) ++ map s_type shapes
    else if dom_in_shapes then map s_type shapes else [].

  Definition mg_dom1 (dom0 : stmt) (shapes : list stmt) : stmt :=
    if x_disable_or cfg then dom0
    else if Nat.ltb 1 (List.length (mg_or_types dom0 shapes))
         then mg_choice dom0 (mg_or_types dom0 shapes) else dom0.

  Definition mg_first (bnode iri : option stmt) : list stmt :=
    match bnode with
    | Some b => b :: match iri with Some i => [i] | None => [] end
    | None => []
    end.

  Lemma merge_group_eq cnt g :
    merge_group fa cfg cnt g =
    match mg_dominant (mg_bnode g) (mg_iri g) (mg_shapes cnt g) with
    | inr e => inr e
    | inl dom0 =>
      add_comments_of cfg (mg_dom1 dom0 (mg_shapes cnt g))
        (mg_first (mg_bnode g) (mg_iri g) ++
         filter (fun s => negb (same_obj (mg_dom1 dom0 (mg_shapes cnt g)) s)) (mg_shapes cnt g))
    end.
  Proof. reflexivity. Qed.
End Merge.

Lemma last_such_some f l x : last_such f l = Some x -> In x l /\ f x = true.
Proof.
  unfold last_such. intros H. apply find_some in H. destruct H as [H1 H2].
  split; [apply in_rev; exact H1 | exact H2].
Qed.

(** ** an invariant of the selection stage.  [Q] must be stable under the
    three ways the selection builds statements: adding a comment, the
    NONLITERAL statement of a BNode+IRI pair, a choice statement over types of
    the group. *)
Section Inv.
  Variable fa : FreqAlg.
  Variable cfg : scfg.
  Variable Q : stmt -> Prop.
  Hypothesis Hadd : forall s k, Q s -> Q (add_comment s k).
  Hypothesis Hnl : forall b i, Q b -> Q i -> Q (mg_nonlit b i).
  Hypothesis Hch : forall d tys g, Q d -> Forall Q g -> incl tys (s_type d :: map s_type g) ->
                                   Q (mg_choice d tys).

  Lemma add_comments_of_inv l : forall dom r,
    Q dom -> add_comments_of cfg dom l = inl r -> Q r.
  Proof.
    induction l as [|x l IH]; simpl; intros dom r Hd H.
    - inversion H; subst; exact Hd.
    - destruct (comment_of cfg x) as [k|e]; [|discriminate].
      eapply IH; [|exact H]. apply Hadd. exact Hd.
  Qed.

  Lemma decide_best_inv cnt g r :
    Forall Q g -> decide_best fa cfg cnt g = inl r -> Q r.
  Proof.
    intros Hg. rewrite Forall_forall in Hg. unfold decide_best.
    destruct (x_discard_useless cfg && useless_plus_group fa cnt g).
    - unfold first_such. destruct (List.find _ g) as [s|] eqn:E; [|discriminate].
      intros H; inversion H; subst. apply Hg. apply find_some in E. apply E.
    - set (gs := sort_desc fa cnt g).
      assert (Hgs : forall x, In x gs -> Q x).
      { intros x Hx. apply Hg. apply (sort_desc_In fa cnt). exact Hx. }
      match goal with |- match ?p with _ => _ end = _ -> _ => destruct p as [res|] eqn:E end; [|discriminate].
      intros H. eapply add_comments_of_inv; [|exact H]. apply Hgs.
      unfold first_such in E.
      destruct (x_keep_less_specific cfg).
      + destruct (List.find _ gs) as [s|] eqn:E1.
        * inversion E; subst. apply find_some in E1. apply E1.
        * destruct gs; simpl in E; [discriminate|]. inversion E; subst. left; reflexivity.
      + destruct (List.find _ gs) as [s|] eqn:E1.
        * inversion E; subst. apply find_some in E1. apply E1.
        * destruct gs; simpl in E; [discriminate|]. inversion E; subst. left; reflexivity.
  Qed.

  Lemma Forall_filter (p : stmt -> bool) l : Forall Q l -> Forall Q (filter p l).
  Proof.
    rewrite !Forall_forall. intros H x Hx. apply filter_In in Hx. apply H, Hx.
  Qed.

  Lemma group_same_inv cnt fuel : forall l r,
    Forall Q l -> group_same fa cfg fuel cnt l = inl r -> Forall Q r.
  Proof.
    induction fuel as [|f IH]; simpl; intros l r Hl H.
    - inversion H; subst; exact Hl.
    - destruct l as [|a rest]; [inversion H; constructor|].
      inversion Hl as [|? ? Ha Hrest]; subst.
      match type of H with match ?p with _ => _ end = _ => destruct p as [r0|e] eqn:E0 end; [|discriminate].
      destruct (group_same fa cfg f cnt _) as [rs|e] eqn:E1; [|discriminate].
      inversion H; subst. constructor.
      + destruct (filter (same_tokens a) rest) as [|b grp] eqn:Eg.
        * inversion E0; subst; exact Ha.
        * eapply decide_best_inv; [|exact E0]. constructor; [exact Ha|].
          rewrite <- Eg. apply Forall_filter. exact Hrest.
      + eapply IH; [|exact E1]. apply Forall_filter. exact Hrest.
  Qed.

  Lemma mg_dominant_inv bnode iri shapes r :
    (forall b, bnode = Some b -> Q b) -> (forall i, iri = Some i -> Q i) -> Forall Q shapes ->
    mg_dominant bnode iri shapes = inl r -> Q r.
  Proof.
    intros Hb Hi Hs. unfold mg_dominant.
    destruct bnode as [b|]; destruct iri as [i|].
    - specialize (Hb b eq_refl). specialize (Hi i eq_refl).
      destruct shapes as [|s0 [|s1 sh]].
      + intros H; inversion H; subst. apply Hnl; assumption.
      + inversion Hs; subst. destruct (N.eqb _ _); intros H; inversion H; subst;
          [assumption | apply Hnl; assumption].
      + intros H; inversion H; subst. apply Hnl; assumption.
    - specialize (Hb b eq_refl). destruct shapes as [|s0 sh].
      + intros H; inversion H; subst; assumption.
      + inversion Hs; subst. destruct (N.eqb _ _); intros H; inversion H; subst; assumption.
    - specialize (Hi i eq_refl). destruct shapes as [|s0 sh].
      + intros H; inversion H; subst; assumption.
      + inversion Hs; subst. destruct (N.ltb _ _); intros H; inversion H; subst; assumption.
    - destruct shapes as [|s0 sh]; [discriminate|].
      inversion Hs; subst. intros H; inversion H; subst; assumption.
  Qed.

  Lemma mg_or_types_incl dom0 shapes :
    incl (mg_or_types cfg dom0 shapes) (s_type dom0 :: map s_type shapes).
  Proof.
    unfold mg_or_types.
    destruct (x_allow_redundant_or cfg), (existsb (same_obj dom0) shapes); simpl;
      intros x Hx; simpl in *; try tauto.
  Qed.

  Lemma mg_dom1_inv dom0 shapes : Q dom0 -> Forall Q shapes -> Q (mg_dom1 cfg dom0 shapes).
  Proof.
    intros Hd Hs. unfold mg_dom1. destruct (x_disable_or cfg); [exact Hd|].
    destruct (Nat.ltb 1 _); [|exact Hd].
    eapply Hch; [exact Hd | exact Hs | apply mg_or_types_incl].
  Qed.

  Lemma mg_shapes_Forall cnt g : Forall Q g -> Forall Q (mg_shapes fa cnt g).
  Proof. intros H. unfold mg_shapes. apply sort_desc_Forall, Forall_filter, H. Qed.

  Lemma merge_group_inv cnt g r :
    Forall Q g -> merge_group fa cfg cnt g = inl r -> Q r.
  Proof.
    intros Hg. rewrite merge_group_eq.
    destruct (mg_dominant _ _ _) as [dom0|e] eqn:E; [|discriminate].
    intros H. eapply add_comments_of_inv; [|exact H].
    assert (Hin : forall f x, last_such f g = Some x -> Q x).
    { intros f x Hx. apply last_such_some in Hx. rewrite Forall_forall in Hg. apply Hg, Hx. }
    apply mg_dom1_inv; [|apply mg_shapes_Forall; exact Hg].
    eapply mg_dominant_inv; [| |apply mg_shapes_Forall; exact Hg|exact E].
    - intros b. apply Hin.
    - intros i. apply Hin.
  Qed.

  Lemma group_nodes_inv cnt fuel : forall l r,
    Forall Q l -> group_nodes fa cfg fuel cnt l = inl r -> Forall Q r.
  Proof.
    induction fuel as [|f IH]; simpl; intros l r Hl H.
    - inversion H; subst; exact Hl.
    - destruct l as [|a rest]; [inversion H; constructor|].
      inversion Hl as [|? ? Ha Hrest]; subst.
      destruct (str_eqb (s_prop a) (x_tau cfg) || negb (is_nonliteral_type (s_type a))).
      + destruct (group_nodes fa cfg f cnt rest) as [rs|e] eqn:E1; [|discriminate].
        inversion H; subst. constructor; [exact Ha|]. eapply IH; [exact Hrest | exact E1].
      + match type of H with match ?p with _ => _ end = _ => destruct p as [r0|e] eqn:E0 end; [|discriminate].
        destruct (group_nodes fa cfg f cnt _) as [rs|e] eqn:E1; [|discriminate].
        inversion H; subst. constructor.
        * destruct (filter (mergeable_with a) rest) as [|b grp] eqn:Eg.
          -- inversion E0; subst; exact Ha.
          -- eapply merge_group_inv; [|exact E0]. constructor; [exact Ha|].
             rewrite <- Eg. apply Forall_filter. exact Hrest.
        * eapply IH; [|exact E1]. apply Forall_filter. exact Hrest.
  Qed.

  Lemma select_valid_inv cnt l r :
    Forall Q l -> select_valid fa cfg cnt l = inl r -> Forall Q r.
  Proof.
    unfold select_valid. intros Hl. destruct l as [|a l]; [intros H; inversion H; constructor|].
    destruct (group_same fa cfg _ cnt (a :: l)) as [l1|e] eqn:E; [|discriminate].
    intros H. eapply group_nodes_inv; [|exact H]. eapply group_same_inv; [exact Hl | exact E].
  Qed.
End Inv.

(** base statements satisfy whatever every (property, type key, cardinality
    key, count) of the profile entry yields *)
Lemma base_statements_Forall fa thr cnt inv pd (Q : stmt -> Prop) :
  (forall p m k cd c n, In (p, m) pd -> In (k, cd) m -> In (c, n) cd ->
     Q {| s_inv := inv; s_prop := p; s_types := [k]; s_choice := false; s_card := card_of_key c;
          s_nocc := n; s_prob := PRatio n; s_comments := [] |}) ->
  Forall Q (base_statements fa thr cnt inv pd).
Proof.
  intros H. rewrite Forall_forall. intros s Hs. unfold base_statements in Hs.
  apply in_flat_map in Hs. destruct Hs as ([p m] & Hpm & Hs).
  apply in_flat_map in Hs. destruct Hs as ([k cd] & Hk & Hs).
  apply in_flat_map in Hs. destruct Hs as ([c n] & Hc & Hs). simpl in *.
  destruct (fle fa thr (ratio fa n cnt)); simpl in Hs; [|contradiction].
  destruct Hs as [<-|[]]. eapply H; eassumption.
Qed.

(** ** cardinalities before tuning are exact or [+] *)
Definition base_card (c : card) : Prop := match c with CExact _ | CPlus => True | _ => False end.

Lemma most_general_card_base a b : base_card a -> base_card (most_general_card a b).
Proof.
  intros H. unfold most_general_card. destruct (is_plus a || is_plus b || negb (card_eqb a b)); [exact I | exact H].
Qed.

Lemma valid_base_card fa cfg thr counts ce p v :
  select_valid fa cfg (class_cnt counts ce) (filter p (class_sorted fa cfg thr counts ce)) = inl v ->
  Forall (fun s => base_card (s_card s)) v.
Proof.
  intros H. eapply select_valid_inv; [| | | |exact H].
  - intros s k Hs. exact Hs.
  - intros b i Hb _. simpl. apply most_general_card_base. exact Hb.
  - intros d tys g Hd _ _. exact Hd.
  - rewrite Forall_forall. intros s Hs. apply filter_In in Hs. destruct Hs as [Hs _].
    unfold class_sorted in Hs. apply sort_desc_In in Hs. apply in_app_or in Hs.
    assert (Hb : forall inv pd, Forall (fun s => base_card (s_card s))
                                       (base_statements fa thr (class_cnt counts ce) inv pd)).
    { intros inv pd. apply base_statements_Forall. intros. simpl. destruct c; exact I. }
    destruct Hs as [Hs|Hs].
    + specialize (Hb false (c_direct (snd ce))). rewrite Forall_forall in Hb. apply Hb, Hs.
    + destruct (x_inverse cfg); [|contradiction].
      specialize (Hb true (c_inverse (snd ce))). rewrite Forall_forall in Hb. apply Hb, Hs.
Qed.

(** ** [clean_shapes] respects any statement relation that preserves what
    the cleaning looks at: direction, types, choice flag.  The relation may
    depend on the shape's instance count. *)
Definition shape_rel (R : N -> stmt -> stmt -> Prop) (a b : shape) : Prop :=
  sh_name a = sh_name b /\ sh_class a = sh_class b /\ sh_n a = sh_n b /\
  Forall2 (R (sh_n b)) (sh_stmts a) (sh_stmts b).

Definition stmt_sim (R : N -> stmt -> stmt -> Prop) : Prop :=
  forall n a b, R n a b -> s_inv a = s_inv b /\ s_types a = s_types b /\ s_choice a = s_choice b.

Section CleanRel.
  Variable R : N -> stmt -> stmt -> Prop.
  Hypothesis Hsim : stmt_sim R.

  Lemma sim_type n a b : R n a b -> s_type a = s_type b.
  Proof. intros H. unfold s_type. destruct (Hsim n a b H) as (_ & -> & _). reflexivity. Qed.

  Lemma empty_names_rel l1 l2 : Forall2 (shape_rel R) l1 l2 -> empty_names l1 = empty_names l2.
  Proof.
    intros F. unfold empty_names. induction F as [|a b l1 l2 Hab F IH]; simpl; [reflexivity|].
    destruct Hab as (Hn & _ & _ & Hs).
    inversion Hs as [E1 E2|? ? ? ? ? ? E1 E2]; simpl; rewrite ?Hn, IH; reflexivity.
  Qed.

  Lemma prune_shape_rel names a b :
    shape_rel R a b -> res_rel (shape_rel R) (prune_shape names a) (prune_shape names b).
  Proof.
    intros (Hn & Hc & Hk & Hs). unfold prune_shape.
    rewrite (Forall2_existsb (R (sh_n b)) (fun st => s_choice st) (fun st => s_choice st) _ _
               (fun x y H => proj2 (proj2 (Hsim _ x y H))) Hs).
    destruct (existsb _ (sh_stmts b)); simpl; [reflexivity|].
    unfold shape_rel; simpl. repeat split; try assumption.
    apply Forall2_app.
    - apply Forall2_filter; [intros x y H; destruct (Hsim _ x y H) as (-> & _); reflexivity|].
      apply Forall2_filter; [intros x y H; rewrite (sim_type _ x y H); reflexivity | exact Hs].
    - apply Forall2_filter; [intros x y H; destruct (Hsim _ x y H) as (-> & _); reflexivity|].
      apply Forall2_filter; [intros x y H; rewrite (sim_type _ x y H); reflexivity | exact Hs].
  Qed.

  Lemma map_err_prune_rel names l1 l2 :
    Forall2 (shape_rel R) l1 l2 ->
    res_rel (Forall2 (shape_rel R)) (map_err (prune_shape names) l1) (map_err (prune_shape names) l2).
  Proof.
    intros F. induction F as [|a b l1 l2 Hab F IH]; simpl; [constructor|].
    pose proof (prune_shape_rel names a b Hab) as Hp.
    destruct (prune_shape names a) as [a'|e1], (prune_shape names b) as [b'|e2]; simpl in Hp; try contradiction.
    - destruct (map_err _ l1) as [r1|e1], (map_err _ l2) as [r2|e2]; simpl in IH; try contradiction; simpl.
      + constructor; assumption.
      + exact IH.
    - exact Hp.
  Qed.

  Lemma clean_shapes_rel fuel : forall l1 l2,
    Forall2 (shape_rel R) l1 l2 ->
    res_rel (Forall2 (shape_rel R)) (clean_shapes fuel l1) (clean_shapes fuel l2).
  Proof.
    induction fuel as [|f IH]; simpl; intros l1 l2 F; [exact F|].
    rewrite (empty_names_rel l1 l2 F).
    destruct (empty_names l2) as [|nm names] eqn:En; [exact F|].
    assert (F' : Forall2 (shape_rel R)
                   (filter (fun s => negb (mem_str (sh_name s) (nm :: names))) l1)
                   (filter (fun s => negb (mem_str (sh_name s) (nm :: names))) l2)).
    { apply Forall2_filter; [|exact F]. intros a b (-> & _). reflexivity. }
    pose proof (map_err_prune_rel (nm :: names) _ _ F') as Hp.
    destruct (map_err _ (filter _ l1)) as [r1|e1], (map_err _ (filter _ l2)) as [r2|e2];
      simpl in Hp; try contradiction.
    - apply IH. exact Hp.
    - exact Hp.
  Qed.
End CleanRel.

(** the functional special case *)
Definition struct_pres (f : stmt -> stmt) : Prop :=
  forall s, s_inv (f s) = s_inv s /\ s_types (f s) = s_types s /\ s_choice (f s) = s_choice s.

Lemma shape_rel_map f l1 l2 :
  Forall2 (shape_rel (fun _ a b => a = f b)) l1 l2 <-> l1 = map_shapes f l2.
Proof.
  unfold map_shapes. rewrite <- Forall2_eq_map. split; intros F.
  - induction F as [|a b l1 l2 Hab F IH]; constructor; [|exact IH].
    destruct Hab as (H1 & H2 & H3 & H4). apply Forall2_eq_map in H4.
    destruct a, b; unfold map_stmts; simpl in *. subst. reflexivity.
  - induction F as [|a b l1 l2 Hab F IH]; constructor; [|exact IH].
    subst a. unfold shape_rel, map_stmts; simpl. repeat split. apply Forall2_eq_map. reflexivity.
Qed.

Lemma clean_shapes_map f fuel l :
  struct_pres f ->
  clean_shapes fuel (map_shapes f l) = map_res (map_shapes f) (clean_shapes fuel l).
Proof.
  intros Hf.
  assert (Hsim : stmt_sim (fun _ a b => a = f b)).
  { intros n a b ->. apply Hf. }
  pose proof (clean_shapes_rel _ Hsim fuel (map_shapes f l) l) as H.
  specialize (H (proj2 (shape_rel_map f _ _) eq_refl)).
  destruct (clean_shapes fuel (map_shapes f l)) as [r1|e1], (clean_shapes fuel l) as [r2|e2];
    simpl in *; try contradiction.
  - apply shape_rel_map in H. subst. reflexivity.
  - subst. reflexivity.
Qed.

(** ** from a per-class statement map to the whole [shex] *)
Lemma shex_map fa c1 c2 thr P C f :
  struct_pres f -> x_remove_empty c1 = x_remove_empty c2 ->
  (forall ce, In ce P -> shex_class fa c1 thr C ce = map_res (map_stmts f) (shex_class fa c2 thr C ce)) ->
  shex fa c1 thr P C = map_res (map_shapes f) (shex fa c2 thr P C).
Proof.
  intros Hf Hr Hc. unfold shex.
  rewrite (map_err_map_res _ (shex_class fa c2 thr C) (map_stmts f) P Hc).
  destruct (map_err (shex_class fa c2 thr C) P) as [shapes|e]; simpl; [|reflexivity].
  rewrite Hr. destruct (x_remove_empty c2); [|reflexivity].
  rewrite map_length. apply (clean_shapes_map f (S (List.length shapes)) shapes Hf).
Qed.
