(** * Proofs about the decorated ShExC text (Model/RunDecor.v):
    - the decorations are added while printing and leave every statement's
      structure alone (D1);
    - removing them line by line ([Spec/DecorSpec.v: strip_decor]) gives the
      lines of the plain run (D2);
    - what is printed comes from [MinIri.stem] / the example dictionary (D3). *)
From Coq Require Import List Ascii String ZArith NArith Bool Lia.
From Shexer Require Import Lib.PyStr Lib.Dict Gen.Consts Spec.Rdf Model.Tracker Model.Profiler
     Model.Tokens Model.Freq Model.Shexing Model.SerialShexc Model.Run Model.MinIri Model.Examples
     Model.RunDecor Model.DecorDom Spec.DecorSpec Spec.MinIriSpec Proofs.ExamplesProofs Proofs.ExamplesComplete.
Import ListNotations.

(** ** strings *)

Lemma prefixb_app_same a p s : prefixb (a ++ p) (a ++ s) = prefixb p s.
Proof. induction a as [|c a IH]; cbn; [reflexivity|]. now rewrite Ascii.eqb_refl. Qed.

Lemma prefixb_self_app p b : prefixb p (p ++ b) = true.
Proof. induction p as [|c p IH]; cbn; [reflexivity|]. now rewrite Ascii.eqb_refl. Qed.

Lemma skipn_length_app {A} (a b : list A) : skipn (List.length a) (a ++ b) = b.
Proof. induction a; cbn; auto. Qed.

Definition nospace (s : str) : bool := forallb (fun c => negb (Ascii.eqb c " "%char)) s.

Lemma span_nospace_app a r :
  nospace a = true -> span_nospace (a ++ r) = (a ++ fst (span_nospace r), snd (span_nospace r)).
Proof.
  induction a as [|c a IH]; cbn [app nospace forallb]; intros H.
  - destruct (span_nospace r); reflexivity.
  - apply andb_true_iff in H. destruct H as [Hc Ha]. cbn [span_nospace].
    apply negb_true_iff in Hc. rewrite Hc, (IH Ha). reflexivity.
Qed.

Lemma span_nospace_space r : span_nospace (" "%char :: r) = ([], " "%char :: r).
Proof. reflexivity. Qed.

Lemma cut_at_cons pat c s :
  cut_at pat (c :: s) =
  if prefixb pat (c :: s) then Some ([], skipn (List.length pat) (c :: s))
  else match cut_at pat s with Some (a, b) => Some (c :: a, b) | None => None end.
Proof. reflexivity. Qed.

Lemma cut_at_first pat p0 p a b :
  pat = p0 :: p ->
  forallb (fun c => negb (Ascii.eqb c p0)) a = true ->
  cut_at pat (a ++ pat ++ b) = Some (a, b).
Proof.
  intros Ep. induction a as [|c a IH]; intros H.
  - cbn [app]. destruct (pat ++ b) as [|x s] eqn:E; [subst pat; discriminate|].
    rewrite cut_at_cons, <- E, prefixb_self_app, skipn_length_app. reflexivity.
  - cbn [forallb] in H. apply andb_true_iff in H. destruct H as [Hc Ha].
    cbn [app]. rewrite cut_at_cons. rewrite Ep at 1. cbn [prefixb].
    apply negb_true_iff in Hc. rewrite Ascii.eqb_sym, Hc. cbn [andb]. rewrite (IH Ha). reflexivity.
Qed.

(** ** the layout constants, as far as the proofs look at them *)
Lemma stem_pre_space : exists r, c17d_stem_pre = " "%char :: r.
Proof. eexists; reflexivity. Qed.

Lemma stem_post_head : exists p0 p, c17d_stem_post = p0 :: p.
Proof. do 2 eexists; reflexivity. Qed.

(** ** header lines *)

Lemma span_stem_pre x : span_nospace (c17d_stem_pre ++ x) = ([], c17d_stem_pre ++ x).
Proof. reflexivity. Qed.

Lemma strip_header_decorated name stem rest :
  nospace name = true -> stem_ok stem = true ->
  strip_header (name ++ c17d_stem_pre ++ stem ++ c17d_stem_post ++ rest) = name ++ rest.
Proof.
  intros Hn Hs. unfold strip_header. rewrite (span_nospace_app _ _ Hn), span_stem_pre. cbn [fst snd].
  rewrite app_nil_r, prefixb_self_app, skipn_length_app.
  destruct stem_post_head as (p0 & p & Ep). unfold stem_ok, stem_char_ok in Hs. rewrite Ep in Hs.
  rewrite (cut_at_first _ p0 p stem rest Ep Hs). reflexivity.
Qed.

Lemma strip_header_plain name rest :
  nospace name = true -> prefixb c17d_stem_pre (snd (span_nospace rest)) = false ->
  strip_header (name ++ rest) = name ++ rest.
Proof.
  intros Hn Hr. unfold strip_header. rewrite (span_nospace_app _ _ Hn), Hr. reflexivity.
Qed.

Lemma instance_count_cases z n :
  instance_count z n = [] \/ exists r, instance_count z n = Str "   # " ++ r.
Proof.
  unfold instance_count. destruct (z_mode z); [left; reflexivity| |];
    (destruct (z_disable_comments z); [left; reflexivity | right; eexists; reflexivity]).
Qed.

Lemma header_tail_plain z n :
  prefixb c17d_stem_pre (snd (span_nospace (instance_count z n ++ nl))) = false.
Proof. destruct (instance_count_cases z n) as [-> | [r ->]]; reflexivity. Qed.

(** ** statement lines: one head line, then one line per comment *)

Definition cline (z : sercfg) (cnt : N) (k : comment) : str := indent 4 ++ comment_text z cnt k ++ nl.

Definition head_line (z : sercfg) (cnt : N) (s : stmt) (is_last : bool) : option str :=
  match statement_lines z cnt (drop_comments s) is_last with
  | Some (h :: _) => Some h
  | _ => None
  end.

Lemma statement_lines_split z cnt s is_last :
  statement_lines z cnt s is_last =
  match head_line z cnt s is_last with
  | Some h => Some (h :: map (cline z cnt) (s_comments s))
  | None => None
  end.
Proof.
  unfold head_line, statement_lines, s_type, cline. cbn [drop_comments s_prop s_choice s_types s_inv s_card s_prob s_nocc s_comments map].
  destruct (tune_token (z_ns z) (s_prop s)); [|reflexivity].
  destruct (s_choice s).
  - destruct (all_some (map (target_element z (s_prop s)) (s_types s))); reflexivity.
  - destruct (target_element z (s_prop s) (hd [] (s_types s))); reflexivity.
Qed.

Definition stmt_core_eq (s s' : stmt) : Prop :=
  s_inv s' = s_inv s /\ s_prop s' = s_prop s /\ s_types s' = s_types s /\ s_choice s' = s_choice s /\
  s_card s' = s_card s /\ s_nocc s' = s_nocc s /\ s_prob s' = s_prob s.

Lemma stmt_core_eq_refl s : stmt_core_eq s s.
Proof. repeat split. Qed.

Lemma head_line_core z cnt s s' is_last : stmt_core_eq s s' -> head_line z cnt s' is_last = head_line z cnt s is_last.
Proof.
  intros (H1 & H2 & H3 & H4 & H5 & H6 & H7). unfold head_line.
  replace (drop_comments s') with (drop_comments s); [reflexivity|].
  unfold drop_comments. now rewrite H1, H2, H3, H4, H5, H6, H7.
Qed.

(** what a head line looks like: one indentation level, then ["^"] (inverse)
    or the printed property *)
Lemma head_line_shape z cnt s is_last h :
  head_line z cnt s is_last = Some h ->
  exists prop r, tune_token (z_ns z) (s_prop s) = Some prop /\
    h = indent 1 ++ ((if s_inv s then Str "^" ++ c_SPACES_GAP_BETWEEN_TOKENS else []) ++ prop ++ r).
Proof.
  unfold head_line, statement_lines, s_type. cbn [drop_comments s_prop s_choice s_types s_inv s_card s_prob s_nocc s_comments map].
  destruct (tune_token (z_ns z) (s_prop s)) as [prop|]; [|discriminate].
  destruct (s_choice s).
  - destruct (all_some (map (target_element z (s_prop s)) (s_types s))) as [targets|]; [|discriminate].
    intros H; injection H as <-. exists prop. eexists. split; [reflexivity|].
    rewrite <- !app_assoc. reflexivity.
  - destruct (target_element z (s_prop s) (hd [] (s_types s))) as [target|]; [|discriminate].
    intros H; injection H as <-. exists prop.
    destruct (s_card s); try destruct (z_disable_comments z); eexists; (split; [reflexivity|]);
      rewrite <- !app_assoc; reflexivity.
Qed.

(** ** how the body lines fare under [strip_decor_from DIn] *)

Definition is_kstmt (k : comment) : bool := match k with KStmt _ _ _ _ _ => true | KRaw _ => false end.
Definition no_raw (s : stmt) : bool := forallb is_kstmt (s_comments s).

Lemma indent1_not_closing y : prefixb (Str "}") (indent 1 ++ y) = false.
Proof. reflexivity. Qed.

Lemma indent4_not_closing y : prefixb (Str "}") (indent 4 ++ y) = false.
Proof. reflexivity. Qed.

Lemma example_line_indent1 y :
  is_example_line (indent 1 ++ y) = prefixb (Str "         " ++ c17d_cons_pre) y.
Proof. reflexivity. Qed.

Lemma example_line_indent4 y : is_example_line (indent 4 ++ y) = prefixb c17d_cons_pre y.
Proof. unfold is_example_line. change d_indent4 with (indent 4). apply prefixb_app_same. Qed.

Lemma head_line_passes z cnt s is_last h rest :
  head_line z cnt s is_last = Some h -> stmt_ok (z_ns z) s = true ->
  strip_decor_from DIn (h :: rest) = h :: strip_decor_from DIn rest.
Proof.
  intros H Hok. destruct (head_line_shape _ _ _ _ _ H) as (prop & r & Hp & ->).
  cbn [strip_decor_from]. rewrite indent1_not_closing, example_line_indent1.
  unfold stmt_ok in Hok. destruct (s_inv s); [reflexivity|].
  cbn [orb] in Hok. rewrite Hp in Hok. destruct prop as [|c prop]; [discriminate|].
  cbn [tok_ok] in Hok. apply negb_true_iff in Hok.
  change (Str "         " ++ c17d_cons_pre) with (" "%char :: Str "        " ++ c17d_cons_pre).
  cbn [app prefixb]. rewrite Ascii.eqb_sym, Hok. reflexivity.
Qed.

Lemma kstmt_line_passes z cnt k rest :
  is_kstmt k = true ->
  strip_decor_from DIn (cline z cnt k :: rest) = cline z cnt k :: strip_decor_from DIn rest.
Proof.
  destruct k as [ch p n tok c|]; [intros _|discriminate].
  unfold cline. cbn [strip_decor_from]. rewrite indent4_not_closing, example_line_indent4.
  destruct ch; reflexivity.
Qed.

Lemma kstmt_lines_pass z cnt ks rest :
  forallb is_kstmt ks = true ->
  strip_decor_from DIn (map (cline z cnt) ks ++ rest) = map (cline z cnt) ks ++ strip_decor_from DIn rest.
Proof.
  induction ks as [|k ks IH]; cbn [map app forallb]; intros H; [reflexivity|].
  apply andb_true_iff in H. destruct H as [Hk Hks]. rewrite (kstmt_line_passes _ _ _ _ Hk), (IH Hks). reflexivity.
Qed.

Lemma example_line_goes z cnt ns cand rest :
  strip_decor_from DIn (cline z cnt (KRaw (example_comment ns cand)) :: rest) = strip_decor_from DIn rest.
Proof.
  unfold cline, example_comment. cbn [strip_decor_from comment_text].
  rewrite indent4_not_closing, example_line_indent4, <- !app_assoc, prefixb_self_app. reflexivity.
Qed.

(** ** the statements as the serialiser leaves them *)

Definition decorated_stmt (ns : nsdict) (s s' : stmt) : Prop :=
  s' = s \/ exists cand, s' = add_comment_first s (KRaw (example_comment ns cand)).

Lemma map_err_F2 {A B E} (f : A -> B + E) l : forall l',
  map_err f l = inl l' -> Forall2 (fun x y => f x = inl y) l l'.
Proof.
  induction l as [|x l IH]; cbn [map_err]; intros l' H.
  - injection H as <-. constructor.
  - destruct (f x) as [y|e] eqn:Ex; [|discriminate].
    destruct (map_err f l) as [ys|e]; [|discriminate]. injection H as <-. constructor; [exact Ex | now apply IH].
Qed.

Lemma decorate_stmt_rel z dc d cls cnt s s' :
  decorate_stmt z dc d cls cnt s = inl s' -> decorated_stmt (z_ns z) s s'.
Proof.
  unfold decorate_stmt. destruct (str_eqb (s_prop s) (z_tau z)); [intros H; injection H as <-; left; reflexivity|].
  destruct (cons_candidate dc (z_ns z) d cls s) as [cand|e]; [|discriminate].
  destruct (existsb _ (s_comments s)); intros H; injection H as <-; [left; reflexivity|].
  right. exists cand. reflexivity.
Qed.

Lemma Forall2_refl_eq {A} (R : A -> A -> Prop) l : (forall x, R x x) -> Forall2 R l l.
Proof. intros H. induction l; constructor; auto. Qed.

Lemma Forall2_imp {A B} (R S : A -> B -> Prop) l l' :
  (forall a b, R a b -> S a b) -> Forall2 R l l' -> Forall2 S l l'.
Proof. intros H. induction 1; constructor; auto. Qed.

Lemma decorate_stmts_rel z dc d sh l :
  decorate_stmts z dc d sh = inl l -> Forall2 (decorated_stmt (z_ns z)) (sh_stmts sh) l.
Proof.
  unfold decorate_stmts. destruct (in_modes (d_mode dc) c17d_modes_cons_example).
  - intros H. apply map_err_F2 in H. eapply Forall2_imp; [|exact H]. intros a b. apply decorate_stmt_rel.
  - intros H; injection H as <-. apply Forall2_refl_eq. intros x; left; reflexivity.
Qed.

Lemma decorated_core ns s s' : decorated_stmt ns s s' -> stmt_core_eq s s'.
Proof. intros [-> | [cand ->]]; [apply stmt_core_eq_refl | repeat split]. Qed.

Lemma stmt_lines_strip z cnt s s' is_last ls' rest :
  decorated_stmt (z_ns z) s s' -> stmt_ok (z_ns z) s = true -> no_raw s = true ->
  statement_lines z cnt s' is_last = Some ls' ->
  exists ls, statement_lines z cnt s is_last = Some ls /\
             strip_decor_from DIn (ls' ++ rest) = ls ++ strip_decor_from DIn rest.
Proof.
  intros Hd Hok Hraw. rewrite !statement_lines_split, (head_line_core _ _ _ _ _ (decorated_core _ _ _ Hd)).
  destruct (head_line z cnt s is_last) as [h|] eqn:Eh; [|discriminate].
  intros H; injection H as <-. eexists. split; [reflexivity|].
  cbn [app]. rewrite (head_line_passes _ _ _ _ _ _ Eh Hok).
  destruct Hd as [-> | [cand ->]].
  - rewrite (kstmt_lines_pass _ _ _ _ Hraw). reflexivity.
  - cbn [add_comment_first s_comments map app]. rewrite example_line_goes, (kstmt_lines_pass _ _ _ _ Hraw). reflexivity.
Qed.

Lemma stmts_lines_strip z cnt l l' :
  Forall2 (decorated_stmt (z_ns z)) l l' ->
  forallb (stmt_ok (z_ns z)) l = true -> forallb no_raw l = true ->
  forall body' rest, statements_lines z cnt l' = Some body' ->
  exists body, statements_lines z cnt l = Some body /\
               strip_decor_from DIn (body' ++ rest) = body ++ strip_decor_from DIn rest.
Proof.
  induction 1 as [|s s' t t' Hs Ht IH]; intros Hok Hraw body' rest H.
  - cbn in H. injection H as <-. exists []. split; reflexivity.
  - cbn [forallb] in Hok, Hraw. apply andb_true_iff in Hok. apply andb_true_iff in Hraw.
    destruct Hok as [Hok1 Hok2]. destruct Hraw as [Hr1 Hr2].
    destruct Ht as [|s2 s2' t2 t2' Hs2 Ht2].
    + cbn [statements_lines] in *. apply (stmt_lines_strip _ _ _ _ _ _ rest Hs Hok1 Hr1 H).
    + assert (F : Forall2 (decorated_stmt (z_ns z)) (s2 :: t2) (s2' :: t2')) by (constructor; assumption).
      change (statements_lines z cnt (s' :: s2' :: t2')) with
        (match statement_lines z cnt s' false, statements_lines z cnt (s2' :: t2') with
         | Some a, Some b => Some (a ++ b) | _, _ => None end) in H.
      change (statements_lines z cnt (s :: s2 :: t2)) with
        (match statement_lines z cnt s false, statements_lines z cnt (s2 :: t2) with
         | Some a, Some b => Some (a ++ b) | _, _ => None end).
      destruct (statement_lines z cnt s' false) as [a'|] eqn:Ea; [|discriminate].
      destruct (statements_lines z cnt (s2' :: t2')) as [b'|] eqn:Eb; [|discriminate].
      injection H as <-.
      destruct (IH Hok2 Hr2 b' rest eq_refl) as (b & Eb0 & Sb).
      destruct (stmt_lines_strip _ _ _ _ _ _ (b' ++ rest) Hs Hok1 Hr1 Ea) as (a & Ea0 & Sa).
      rewrite Ea0, Eb0. exists (a ++ b). split; [reflexivity|].
      rewrite <- !app_assoc, Sa, Sb. reflexivity.
Qed.

(** ** one shape *)

Lemma example_text_shape z dc d sh ex :
  example_text z dc d sh = inl ex -> ex = [] \/ exists v, ex = c17d_inst_pre ++ v.
Proof.
  unfold example_text. destruct (in_modes (d_mode dc) c17d_modes_shape_example); [|intros H; injection H as <-; left; reflexivity].
  destruct (dget d (sh_class sh)) as [e|].
  - destruct (e_example e).
    + intros H; injection H as <-. right. eexists; reflexivity.
    + destruct c_example_none_guard; [intros H; injection H as <-; left; reflexivity|].
      destruct (z_ns z); [|discriminate]. intros H; injection H as <-. right. eexists; reflexivity.
  - destruct (z_ns z); [|discriminate]. intros H; injection H as <-. right. eexists; reflexivity.
Qed.

Lemma closing_strip ex rest :
  ex = [] \/ (exists v, ex = c17d_inst_pre ++ v) ->
  strip_decor_from DIn ((Str "}" ++ ex ++ nl) :: rest) = (Str "}" ++ nl) :: strip_decor_from DOut rest.
Proof.
  intros [-> | [v ->]]; [reflexivity|].
  cbn [strip_decor_from]. change (prefixb (Str "}") (Str "}" ++ (c17d_inst_pre ++ v) ++ nl)) with true. cbv iota.
  unfold strip_closing. rewrite prefixb_app_same, <- app_assoc, prefixb_self_app. reflexivity.
Qed.

Lemma label_ok_nospace name : label_ok name = true -> name <> [] /\ nospace name = true.
Proof. destruct name; [discriminate|]. intros H. split; [discriminate | exact H]. Qed.

Lemma header_not_nl name x y : name <> [] -> str_eqb (name ++ x ++ y ++ nl) d_nl = false.
Proof.
  intros Hn. apply str_eqb_neq. intros E. apply (f_equal (@List.length ascii)) in E.
  rewrite !app_length in E. destruct name; [congruence|]. cbn in E. lia.
Qed.

Lemma header_strip z dc d sh name mi :
  label_ok name = true ->
  (if d_dmi dc then match shape_stem d (sh_class sh) with Some (Some s) => stem_ok s | _ => true end else true) = true ->
  min_iri_text dc d sh = inl mi ->
  strip_header (name ++ mi ++ instance_count z (sh_n sh) ++ nl) = name ++ [] ++ instance_count z (sh_n sh) ++ nl.
Proof.
  intros Hl Hs. destruct (label_ok_nospace _ Hl) as [_ Hn]. unfold min_iri_text.
  assert (P : strip_header (name ++ [] ++ instance_count z (sh_n sh) ++ nl) = name ++ [] ++ instance_count z (sh_n sh) ++ nl).
  { cbn [app]. apply strip_header_plain; [exact Hn | apply header_tail_plain]. }
  destruct (d_dmi dc); [|intros H; injection H as <-; exact P].
  destruct (shape_stem d (sh_class sh)) as [[s|]|]; [| intros H; injection H as <-; exact P | discriminate].
  intros H. assert (E : c17d_stem_pre ++ s ++ c17d_stem_post = mi) by congruence. subst mi.
  rewrite <- !app_assoc. apply strip_header_decorated; assumption.
Qed.

Lemma strip_out_hdr l r :
  str_eqb l d_nl = false -> strip_decor_from DOut (l :: r) = strip_header l :: strip_decor_from DIn r.
Proof. intros H. cbn [strip_decor_from]. rewrite H. reflexivity. Qed.

Lemma strip_in_open r : strip_decor_from DIn ((Str "{" ++ nl) :: r) = (Str "{" ++ nl) :: strip_decor_from DIn r.
Proof. reflexivity. Qed.

Lemma strip_out_nl r : strip_decor_from DOut (nl :: r) = nl :: strip_decor_from DOut r.
Proof. reflexivity. Qed.

Lemma shape_block_strip z dc d sh block rest :
  shape_ok z dc d sh = true -> forallb no_raw (sh_stmts sh) = true ->
  shape_lines_decor z dc d sh = inl block ->
  exists block0, shape_lines z sh [] [] = Some block0 /\
                 strip_decor_from DOut (block ++ rest) = block0 ++ strip_decor_from DOut rest.
Proof.
  unfold shape_ok, shape_lines_decor, shape_lines. intros Hok Hraw.
  apply andb_true_iff in Hok. destruct Hok as [Hok Hst]. apply andb_true_iff in Hok. destruct Hok as [Hl Hs].
  destruct (prefixize_shape_name (z_ns z) (sh_name sh)) as [name|]; [|discriminate].
  destruct (min_iri_text dc d sh) as [mi|e] eqn:Emi; [|discriminate].
  destruct (decorate_stmts z dc d sh) as [stmts|e] eqn:Ed; [|discriminate].
  destruct (statements_lines z (sh_n sh) stmts) as [body'|] eqn:Eb; [|discriminate].
  destruct (example_text z dc d sh) as [ex|e] eqn:Ex; [|discriminate].
  intros H. assert (E : [name ++ mi ++ instance_count z (sh_n sh) ++ nl; Str "{" ++ nl] ++ body' ++
                        [Str "}" ++ ex ++ nl; nl; nl] = block) by congruence. subst block. clear H.
  destruct (stmts_lines_strip z (sh_n sh) _ _ (decorate_stmts_rel _ _ _ _ _ Ed) Hst Hraw body'
              ((Str "}" ++ ex ++ nl) :: nl :: nl :: rest) Eb) as (body & Eb0 & Sb).
  rewrite Eb0. eexists. split; [reflexivity|].
  remember (name ++ mi ++ instance_count z (sh_n sh) ++ nl) as hdr' eqn:Eh.
  remember (Str "}" ++ ex ++ nl) as cl' eqn:Ec in *.
  remember (Str "{" ++ nl) as op eqn:Eo.
  cbn [app]. rewrite <- app_assoc. cbn [app].
  subst hdr' op. rewrite strip_out_hdr by (apply header_not_nl; apply (label_ok_nospace _ Hl)).
  rewrite (header_strip z dc d sh name mi Hl Hs Emi), strip_in_open.
  cbn [app]. do 2 f_equal. etransitivity; [exact Sb|].
  subst cl'. rewrite (closing_strip ex _ (example_text_shape _ _ _ _ _ Ex)), !strip_out_nl.
  rewrite <- app_assoc. reflexivity.
Qed.

(** ** all shapes, the PREFIX block, the document *)

Definition shapes_no_raw (l : list shape) : bool := forallb (fun sh => forallb no_raw (sh_stmts sh)) l.

Lemma shapes_lines_strip z dc d shapes : forall ls',
  decor_domb z dc d shapes = true -> shapes_no_raw shapes = true ->
  shapes_lines_decor z dc d shapes = inl ls' ->
  exists ls, shapes_lines z shapes = Some ls /\
             forall rest, strip_decor_from DOut (ls' ++ rest) = ls ++ strip_decor_from DOut rest.
Proof.
  induction shapes as [|sh shapes IH]; intros ls' Hd Hr H.
  - cbn in H. injection H as <-. exists []. split; reflexivity.
  - cbn [decor_domb shapes_no_raw forallb] in Hd, Hr. apply andb_true_iff in Hd. apply andb_true_iff in Hr.
    destruct Hd as [Hd1 Hd2]. destruct Hr as [Hr1 Hr2]. cbn [shapes_lines_decor] in H.
    destruct (shape_lines_decor z dc d sh) as [a'|e] eqn:Ea; [|discriminate].
    destruct (shapes_lines_decor z dc d shapes) as [b'|e] eqn:Eb; [|discriminate].
    injection H as <-. destruct (IH b' Hd2 Hr2 eq_refl) as (b & Eb0 & Sb).
    cbn [shapes_lines].
    destruct (shape_block_strip z dc d sh a' [] Hd1 Hr1 Ea) as (a & Ea0 & _). rewrite Ea0, Eb0.
    exists (a ++ b). split; [reflexivity|]. intros rest.
    destruct (shape_block_strip z dc d sh a' (b' ++ rest) Hd1 Hr1 Ea) as (a2 & Ea2 & Sa).
    assert (a2 = a) by congruence. subst a2.
    rewrite <- !app_assoc, Sa, Sb. reflexivity.
Qed.

Lemma prefix_line_not_nl x : str_eqb (Str "PREFIX " ++ x) d_nl = false.
Proof. reflexivity. Qed.

Lemma prefix_lines_strip ns rest :
  strip_decor_from DPre (prefix_lines ns ++ rest) = prefix_lines ns ++ strip_decor_from DOut rest.
Proof.
  unfold prefix_lines. induction ns as [|[n p] ns IH].
  - reflexivity.
  - cbn [map app fst snd]. cbn [strip_decor_from]. rewrite prefix_line_not_nl. f_equal. exact IH.
Qed.

Theorem render_lines_strip z dc d shapes ls' :
  decor_domb z dc d shapes = true -> shapes_no_raw shapes = true ->
  render_lines_decor z dc d shapes = inl ls' ->
  render_lines z shapes = Some (strip_decor ls').
Proof.
  intros Hd Hr. unfold render_lines_decor, render_lines.
  destruct (shapes_lines_decor z dc d shapes) as [ls0|e] eqn:E; [|discriminate].
  intros H; injection H as <-. destruct (shapes_lines_strip z dc d shapes ls0 Hd Hr E) as (ls & -> & S).
  unfold strip_decor. rewrite prefix_lines_strip. specialize (S []). rewrite app_nil_r in S. cbn [strip_decor_from] in S.
  rewrite app_nil_r in S. rewrite S. reflexivity.
Qed.

(** with both options off nothing is added: [render_decor] is [render] *)
Theorem render_lines_decor_off z inv d shapes :
  render_lines_decor z {| d_dmi := false; d_mode := None; d_inverse := inv |} d shapes =
  match render_lines z shapes with Some ls => inl ls | None => inr (DE REValue) end.
Proof.
  unfold render_lines_decor, render_lines.
  assert (S : shapes_lines_decor z {| d_dmi := false; d_mode := None; d_inverse := inv |} d shapes =
              match shapes_lines z shapes with Some ls => inl ls | None => inr (DE REValue) end).
  { induction shapes as [|sh shapes IH]; [reflexivity|].
    cbn [shapes_lines_decor shapes_lines]. rewrite IH.
    unfold shape_lines_decor, shape_lines, min_iri_text, decorate_stmts, example_text. cbn [d_dmi d_mode].
    change (in_modes None c17d_modes_cons_example) with false. change (in_modes None c17d_modes_shape_example) with false.
    cbv iota. destruct (prefixize_shape_name (z_ns z) (sh_name sh)); [|reflexivity].
    destruct (statements_lines z (sh_n sh) (sh_stmts sh)); [|reflexivity].
    destruct (shapes_lines z shapes); reflexivity. }
  rewrite S. destruct (shapes_lines z shapes); reflexivity.
Qed.

(** ** the run: no statement of [run_shapes] carries a free-text comment
    (every comment is a snapshot of a statement: Proofs/ShexKeys.v, K3) *)
From Shexer Require Proofs.ShexKeys.

Lemma run_shapes_no_raw fa c thr g ns shapes :
  run_shapes fa c thr g = inl (ns, shapes) -> shapes_no_raw shapes = true.
Proof.
  unfold run_shapes. destruct (full_ns c) as [ns0|]; [|discriminate].
  destruct (track _ _ _ g) as [ins|]; [|discriminate].
  destruct (profile (pcfg_of c) ins g) as [[[P C] ID]|[|]]; [|discriminate|discriminate].
  destruct (shex fa (scfg_of c ns0) thr P C) as [shapes0|e] eqn:E; [|discriminate].
  intros H; injection H as <- <-.
  unfold shapes_no_raw. apply forallb_forall. intros sh Hsh.
  destruct (ShexKeys.K3 fa (scfg_of c ns0) thr P C shapes0 E sh Hsh) as (ce & _ & _ & _ & _ & Hst).
  apply forallb_forall. intros st Hin. specialize (Hst st Hin).
  destruct Hst as (ty & pr0 & c0 & _ & _ & _ & Hc & _).
  unfold no_raw. apply forallb_forall. intros k Hk. rewrite Forall_forall in Hc. specialize (Hc k Hk).
  destruct k; [reflexivity | contradiction].
Qed.

(** D2, run level *)
Theorem run_text_strip_decor fa c dmi mode thr g ls :
  run_decor_domb fa c dmi mode thr g = true ->
  run_shexc_decor_lines fa c dmi mode thr g = inl ls ->
  run_shexc_lines fa c thr g = inl (strip_decor ls).
Proof.
  unfold run_decor_domb, run_shexc_decor_lines, run_shexc_lines.
  destruct (run_shapes fa c thr g) as [[ns shapes]|e] eqn:Er; [|discriminate].
  destruct (run_decor_data c dmi mode g) as [[ins d]|]; [|discriminate].
  intros Hd H. rewrite (render_lines_strip _ _ _ _ _ Hd (run_shapes_no_raw _ _ _ _ _ _ Er) H). reflexivity.
Qed.

Lemma run_shexc_of_lines fa c thr g :
  run_shexc fa c thr g = match run_shexc_lines fa c thr g with inl ls => inl (List.concat ls) | inr e => inr e end.
Proof.
  unfold run_shexc, run_shexc_lines, render. destruct (run_shapes fa c thr g) as [[ns shapes]|e]; [|reflexivity].
  unfold zcfg_of. destruct (render_lines _ shapes); reflexivity.
Qed.

Theorem run_text_strip_decor_text fa c dmi mode thr g ls :
  run_decor_domb fa c dmi mode thr g = true ->
  run_shexc_decor_lines fa c dmi mode thr g = inl ls ->
  run_shexc_decor fa c dmi mode thr g = inl (List.concat ls) /\
  run_shexc fa c thr g = inl (List.concat (strip_decor ls)).
Proof.
  intros Hd H. split.
  - unfold run_shexc_decor. rewrite H. reflexivity.
  - rewrite run_shexc_of_lines, (run_text_strip_decor _ _ _ _ _ _ _ Hd H). reflexivity.
Qed.

(** with both options off the decorated run is the plain run *)
Theorem run_decor_off fa c thr g :
  run_shexc_decor fa c false None thr g =
  match run_shexc fa c thr g with inl t => inl t | inr e => inr (DE e) end.
Proof.
  unfold run_shexc_decor, run_shexc_decor_lines, run_shexc, render.
  destruct (run_shapes fa c thr g) as [[ns shapes]|e] eqn:Er; [|reflexivity].
  assert (exists x, run_decor_data c false None g = Some x) as [[ins d] ->].
  { unfold run_decor_data. unfold run_shapes in Er. destruct (full_ns c); [|discriminate].
    unfold tmode_of. destruct (track _ _ _ g) as [ins|]; [|discriminate].
    destruct (profile (pcfg_of c) ins g) as [[[P C] ID]|[|]]; [|discriminate|discriminate].
    unfold decor_dict, profile_examples. cbn. eauto. }
  rewrite render_lines_decor_off. unfold zcfg_of. destruct (render_lines _ shapes); reflexivity.
Qed.

(** ** D1: the serialiser's decorations leave the structure alone *)

(** [sh'] is [sh] as the serialiser leaves it: same label, class, count and
    statements (direction, property, types, cardinality, figures); the
    ordinary comments are intact, at most one example comment was put first *)
Definition same_structure (ns : nsdict) (sh sh' : shape) : Prop :=
  sh_name sh' = sh_name sh /\ sh_class sh' = sh_class sh /\ sh_n sh' = sh_n sh /\
  Forall2 (fun s s' => stmt_core_eq s s' /\
                       (s_comments s' = s_comments s \/
                        exists cand, s_comments s' = KRaw (example_comment ns cand) :: s_comments s))
          (sh_stmts sh) (sh_stmts sh').

Definition printed_as (z : sercfg) (sh : shape) (block : list str) : Prop :=
  exists sh' mi ex, same_structure (z_ns z) sh sh' /\ shape_lines z sh' mi ex = Some block.

Lemma decorated_structure ns s s' :
  decorated_stmt ns s s' ->
  stmt_core_eq s s' /\ (s_comments s' = s_comments s \/
                        exists cand, s_comments s' = KRaw (example_comment ns cand) :: s_comments s).
Proof.
  intros H. split; [eapply decorated_core; exact H|].
  destruct H as [-> | [cand ->]]; [left; reflexivity | right; exists cand; reflexivity].
Qed.

Lemma shape_lines_decor_printed z dc d sh block :
  shape_lines_decor z dc d sh = inl block -> printed_as z sh block.
Proof.
  unfold shape_lines_decor.
  destruct (prefixize_shape_name (z_ns z) (sh_name sh)) as [name|] eqn:En; [|discriminate].
  destruct (min_iri_text dc d sh) as [mi|e]; [|discriminate].
  destruct (decorate_stmts z dc d sh) as [stmts|e] eqn:Ed; [|discriminate].
  destruct (statements_lines z (sh_n sh) stmts) as [body|] eqn:Eb; [|discriminate].
  destruct (example_text z dc d sh) as [ex|e]; [|discriminate].
  intros H. exists {| sh_name := sh_name sh; sh_class := sh_class sh; sh_n := sh_n sh; sh_stmts := stmts |}, mi, ex.
  split.
  - repeat split. cbn [sh_stmts]. eapply Forall2_imp; [|exact (decorate_stmts_rel _ _ _ _ _ Ed)].
    intros a b. apply decorated_structure.
  - unfold shape_lines. cbn [sh_name sh_n sh_stmts]. rewrite En, Eb. f_equal. injection H as H. exact H.
Qed.

Lemma shapes_lines_decor_blocks z dc d shapes : forall ls,
  shapes_lines_decor z dc d shapes = inl ls ->
  exists blocks, ls = List.concat blocks /\ Forall2 (printed_as z) shapes blocks.
Proof.
  induction shapes as [|sh shapes IH]; intros ls H.
  - cbn in H. injection H as <-. exists []. split; [reflexivity | constructor].
  - cbn [shapes_lines_decor] in H.
    destruct (shape_lines_decor z dc d sh) as [a|e] eqn:Ea; [|discriminate].
    destruct (shapes_lines_decor z dc d shapes) as [b|e]; [|discriminate].
    injection H as <-. destruct (IH b eq_refl) as (blocks & -> & F).
    exists (a :: blocks). split; [reflexivity|]. constructor; [|exact F].
    apply (shape_lines_decor_printed _ _ _ _ _ Ea).
Qed.

Theorem run_structure_unchanged fa c dmi mode thr g ls :
  run_shexc_decor_lines fa c dmi mode thr g = inl ls ->
  exists ns shapes blocks,
    run_shapes fa c thr g = inl (ns, shapes) /\
    ls = prefix_lines ns ++ List.concat blocks /\
    Forall2 (printed_as (zcfg_of c ns)) shapes blocks.
Proof.
  unfold run_shexc_decor_lines.
  destruct (run_shapes fa c thr g) as [[ns shapes]|e]; [|discriminate].
  destruct (run_decor_data c dmi mode g) as [[ins d]|]; [|discriminate].
  unfold render_lines_decor.
  destruct (shapes_lines_decor _ _ d shapes) as [ls0|e] eqn:E; [|discriminate].
  intros H; injection H as <-. destruct (shapes_lines_decor_blocks _ _ _ _ _ E) as (blocks & -> & F).
  exists ns, shapes, blocks. repeat split. exact F.
Qed.

(** ** D3: what is printed comes from the data *)

Definition complete_step (d : exdict) (c : str) : exdict :=
  match dget d c with
  | Some e => match e_min_iri e with
              | Some _ => d
              | None => set_min d c (Some c_MINIMAL_IRI_INIT)
              end
  | None => set_min d c (Some c_MINIMAL_IRI_INIT)
  end.

Lemma complete_features_fold C d : complete_features C d = fold_left complete_step (dkeys C) d.
Proof. reflexivity. Qed.

Lemma set_min_other d k m c : c <> k -> dget (set_min d k m) c = dget d c.
Proof. intros H. unfold set_min. apply dget_dset_other. congruence. Qed.

Lemma set_min_same d k m :
  dget (set_min d k m) k =
  Some (ExEnt m (e_example (ex_get_or_init d k)) (e_direct (ex_get_or_init d k)) (e_inverse (ex_get_or_init d k))).
Proof. unfold set_min. apply dget_dset_same. Qed.

Lemma complete_step_keeps d k c e :
  dget d c = Some e -> e_min_iri e <> None -> dget (complete_step d k) c = Some e.
Proof.
  intros G M. unfold complete_step. destruct (str_eq_dec c k) as [->|N].
  - rewrite G. destruct (e_min_iri e); [exact G | congruence].
  - destruct (dget d k) as [e'|]; [destruct (e_min_iri e'); [exact G|]|]; rewrite set_min_other; auto.
Qed.

Lemma complete_step_example d k c : shape_example (complete_step d k) c = shape_example d c.
Proof.
  unfold complete_step, shape_example. destruct (str_eq_dec c k) as [->|N].
  - destruct (dget d k) as [e|] eqn:G.
    + destruct (e_min_iri e); [rewrite G; reflexivity|]. rewrite set_min_same. unfold ex_get_or_init. rewrite G. reflexivity.
    + rewrite set_min_same. unfold ex_get_or_init. rewrite G. reflexivity.
  - destruct (dget d k) as [e'|]; [destruct (e_min_iri e'); [reflexivity|]|]; rewrite set_min_other; auto.
Qed.

Lemma complete_step_cons d k c p inv : constraint_example (complete_step d k) c p inv = constraint_example d c p inv.
Proof.
  unfold complete_step, constraint_example. destruct (str_eq_dec c k) as [->|N].
  - destruct (dget d k) as [e|] eqn:G.
    + destruct (e_min_iri e); [rewrite G; reflexivity|]. rewrite set_min_same. unfold ex_get_or_init. rewrite G. reflexivity.
    + rewrite set_min_same. unfold ex_get_or_init. rewrite G. destruct inv; reflexivity.
  - destruct (dget d k) as [e'|]; [destruct (e_min_iri e'); [reflexivity|]|]; rewrite set_min_other; auto.
Qed.

Lemma complete_keeps C d c e :
  dget d c = Some e -> e_min_iri e <> None -> dget (complete_features C d) c = Some e.
Proof.
  rewrite complete_features_fold. revert d. induction (dkeys C) as [|k ks IH]; intros d G M; [exact G|].
  cbn [fold_left]. apply IH; [apply complete_step_keeps; assumption | exact M].
Qed.

Lemma complete_example C d c : shape_example (complete_features C d) c = shape_example d c.
Proof.
  rewrite complete_features_fold. revert d. induction (dkeys C) as [|k ks IH]; intros d; [reflexivity|].
  cbn [fold_left]. rewrite IH. apply complete_step_example.
Qed.

Lemma complete_cons C d c p inv : constraint_example (complete_features C d) c p inv = constraint_example d c p inv.
Proof.
  rewrite complete_features_fold. revert d. induction (dkeys C) as [|k ks IH]; intros d; [reflexivity|].
  cbn [fold_left]. rewrite IH. apply complete_step_cons.
Qed.

(** the run's data: the tracker's instance dictionary and [profile_examples]
    of it, completed *)
Lemma run_decor_data_inv c dmi mode g ins d :
  run_decor_data c dmi mode g = Some (ins, d) ->
  track (r_tau c) (tmode_of c) (r_cap c) g = inl ins /\
  exists d0 C, profile_examples dmi mode (r_inverse c) ins g = Some d0 /\
               (d = d0 \/ d = complete_features C d0) /\ (dmi = true -> d = complete_features C d0).
Proof.
  unfold run_decor_data. destruct (track _ _ _ g) as [ins0|]; [|discriminate].
  destruct (profile (pcfg_of c) ins0 g) as [[[P C] ID]|]; [|discriminate].
  unfold decor_dict. destruct (profile_examples dmi mode (r_inverse c) ins0 g) as [d0|] eqn:E; [|discriminate].
  intros H; injection H as <- <-. split; [reflexivity|]. exists d0, C. split; [exact E|].
  destruct dmi; cbn [orb]; [split; auto|]. split; [|discriminate].
  destruct (wants_shape_examples mode); auto.
Qed.

Theorem printed_stem_is_class_stem c mode g ins d sh :
  run_decor_data c true mode g = Some (ins, d) ->
  (exists i, is_instance ins (sh_class sh) i) ->
  min_iri_text {| d_dmi := true; d_mode := mode; d_inverse := r_inverse c |} d sh =
  inl (match stem (instances_of ins (sh_class sh)) with
       | Some s => c17d_stem_pre ++ s ++ c17d_stem_post
       | None => []
       end).
Proof.
  intros H Hi. destruct (run_decor_data_inv _ _ _ _ _ _ H) as (_ & d0 & C & E & _ & Hd). specialize (Hd eq_refl).
  pose proof (shape_stem_is_stem ins g mode (r_inverse c) d0 (sh_class sh) E Hi) as S.
  unfold min_iri_text. cbn [d_dmi]. unfold shape_stem in *.
  destruct (dget d0 (sh_class sh)) as [e|] eqn:G; [|discriminate].
  destruct (e_min_iri e) as [l|] eqn:M; [|discriminate].
  subst d. rewrite (complete_keeps C d0 _ e G) by congruence. rewrite M.
  injection S as ->. destruct (stem (instances_of ins (sh_class sh))); reflexivity.
Qed.

(** the modes for which [_serialize_example] prints are the modes for which the
    profiler records shape examples (two lists of the source, one in
    shex_serializer.py and one in class_profiler.py) *)
Lemma in_modes_shape_wants mode :
  in_modes mode c17d_modes_shape_example = true -> wants_shape_examples mode = true.
Proof.
  destruct mode as [m|]; [|discriminate]. unfold wants_shape_examples.
  change (in_modes (Some m) c17d_modes_shape_example)
    with (str_eqb m c_ALL_EXAMPLES || (str_eqb m c_SHAPE_EXAMPLES || false)).
  intros H. apply orb_true_iff in H. apply orb_true_iff. destruct H as [H | H].
  - now right.
  - left. apply orb_true_iff in H. destruct H as [H | H]; [exact H | discriminate].
Qed.

(** Three cases: the mode prints no shape examples; the example is an instance
    of the class; or -- only with the [candidate is None] guard of
    [_serialize_example] ([c_example_none_guard]; without it this case is the
    AttributeError of C17-F4) -- nothing is printed and the class has no
    instance at all (Proofs/ExamplesComplete.v). *)
Theorem printed_example_from_data c dmi mode g ins d z sh ex :
  run_decor_data c dmi mode g = Some (ins, d) -> z_ns z <> [] ->
  example_text z {| d_dmi := dmi; d_mode := mode; d_inverse := r_inverse c |} d sh = inl ex ->
  (in_modes mode c17d_modes_shape_example = false /\ ex = []) \/
  (c_example_none_guard = true /\ (forall x, ~ is_instance ins (sh_class sh) x) /\ ex = []) \/
  exists x, is_instance ins (sh_class sh) x /\
            ex = c17d_inst_pre ++ iri_or_prefixed (z_ns z) x ++ c17d_inst_post.
Proof.
  intros H Hns. destruct (run_decor_data_inv _ _ _ _ _ _ H) as (_ & d0 & C & E & Hd & _).
  unfold example_text. cbn [d_mode].
  destruct (in_modes mode c17d_modes_shape_example) eqn:M; [|intros X; injection X as <-; left; split; reflexivity].
  assert (S : shape_example d (sh_class sh) = shape_example d0 (sh_class sh)).
  { destruct Hd as [-> | ->]; [reflexivity | apply complete_example]. }
  unfold shape_example in S.
  destruct (dget d (sh_class sh)) as [e|].
  - destruct (e_example e) as [cand|].
    + intros X; injection X as <-. right. right. exists cand. split; [|reflexivity].
      apply (shape_example_sound dmi mode (r_inverse c) ins g d0 _ _ E). unfold shape_example. rewrite <- S. reflexivity.
    + destruct c_example_none_guard.
      * intros X; injection X as <-. right. left. split; [reflexivity|]. split; [|reflexivity].
        apply (shape_example_none_no_instance dmi mode (r_inverse c) ins g d0 _ E (in_modes_shape_wants _ M)).
        unfold shape_example. symmetry. exact S.
      * destruct (z_ns z); [congruence | discriminate].
  - destruct (z_ns z); [congruence | discriminate].
Qed.

(** with the guard, [_serialize_example] cannot raise for a class the
    dictionary knows (every class of [_class_counts] is: [complete_features]) *)
Lemma example_text_total_guard z dc d sh :
  c_example_none_guard = true -> dget d (sh_class sh) <> None ->
  exists ex, example_text z dc d sh = inl ex.
Proof.
  intros G N. unfold example_text. rewrite G.
  destruct (in_modes (d_mode dc) c17d_modes_shape_example); [|eauto].
  destruct (dget d (sh_class sh)) as [e|]; [|congruence].
  destruct (e_example e); eauto.
Qed.

(** the value printed for a constraint: the stored example, passed through
    the getter's guess and [_turn_str_comment_into_proper_rdf] *)
Definition cons_rendered (dc : dcfg) (ns : nsdict) (v : str) : str :=
  example_comment ns
    (if prefixb (if d_inverse dc then c17d_prefixize_if_inverse else c17d_prefixize_if_direct) v
     then prefixize_plain ns v else v).

Lemma kstmt_text_not_example z cnt k ns cand :
  is_kstmt k = true -> str_eqb (comment_text z cnt k) (example_comment ns cand) = false.
Proof. destruct k as [ch p n tok c|]; [intros _|discriminate]. destruct ch; reflexivity. Qed.

Theorem printed_cons_example_from_data c dmi mode g ins d z cls cnt s s' :
  run_decor_data c dmi mode g = Some (ins, d) ->
  decorate_stmt z {| d_dmi := dmi; d_mode := mode; d_inverse := r_inverse c |} d cls cnt s = inl s' ->
  s_prop s <> z_tau z -> no_raw s = true ->
  exists v, constraint_example_ok ins g cls (s_prop s) (r_inverse c && s_inv s) v /\
            s' = add_comment_first s (KRaw (cons_rendered {| d_dmi := dmi; d_mode := mode; d_inverse := r_inverse c |} (z_ns z) v)).
Proof.
  intros H. destruct (run_decor_data_inv _ _ _ _ _ _ H) as (_ & d0 & C & E & Hd & _).
  unfold decorate_stmt, cons_candidate. cbn [d_inverse]. intros X Hp Hr.
  apply str_eqb_neq in Hp. rewrite Hp in X.
  assert (S : constraint_example d cls (s_prop s) (r_inverse c && s_inv s) =
              constraint_example d0 cls (s_prop s) (r_inverse c && s_inv s)).
  { destruct Hd as [-> | ->]; [reflexivity | apply complete_cons]. }
  destruct (constraint_example d cls (s_prop s) (r_inverse c && s_inv s)) as [v|] eqn:G; [|discriminate].
  exists v. split.
  - apply (constraint_example_sound dmi mode (r_inverse c) ins g d0 _ _ _ _ E). rewrite <- S. reflexivity.
  - match type of X with (if existsb ?f ?l then _ else _) = _ => assert (Ex : existsb f l = false) end.
    { apply not_true_is_false. intros T. apply existsb_exists in T. destruct T as (k & Hk & T).
      unfold no_raw in Hr. rewrite forallb_forall in Hr. rewrite kstmt_text_not_example in T by (apply Hr; exact Hk).
      discriminate. }
    rewrite Ex in X. injection X as <-. reflexivity.
Qed.

(** ** sufficient conditions for the domain of the strip theorem: labels and
    properties without blanks, prefix labels without blanks, non-empty
    namespaces, instance ids without ['>'] *)

Definition ns_ok (ns : nsdict) : Prop :=
  Forall (fun np : str * str => fst np <> [] /\ nospace (snd np) = true) ns.

Lemma nospace_app a b : nospace (a ++ b) = nospace a && nospace b.
Proof. apply forallb_app. Qed.

Lemma nospace_skipn n s : nospace s = true -> nospace (skipn n s) = true.
Proof.
  revert s; induction n as [|n IH]; intros s H; [exact H|]. destruct s as [|c s]; [reflexivity|].
  cbn [nospace forallb] in H. apply andb_true_iff in H. cbn [skipn]. apply IH, H.
Qed.

Lemma nospace_firstn n s : nospace s = true -> nospace (firstn n s) = true.
Proof.
  revert s; induction n as [|n IH]; intros s H; [reflexivity|]. destruct s as [|c s]; [reflexivity|].
  cbn [nospace forallb] in H. apply andb_true_iff in H. destruct H as [H1 H2].
  cbn [firstn nospace forallb]. rewrite H1. apply IH, H2.
Qed.

Lemma replace_nospace a b : forall fuel s,
  nospace b = true -> nospace s = true -> nospace (replace_all_fuel fuel a b s) = true.
Proof.
  induction fuel as [|f IH]; intros s Hb Hs; [exact Hs|].
  cbn [replace_all_fuel]. destruct s as [|c s']; [reflexivity|].
  destruct (prefixb a (c :: s')).
  - destruct a as [|a0 a']; [exact Hs|]. rewrite nospace_app, Hb. apply IH; [exact Hb | apply nospace_skipn, Hs].
  - cbn [nospace forallb] in Hs |- *. apply andb_true_iff in Hs. destruct Hs as [H1 H2].
    fold (nospace (replace_all_fuel f a b s')). rewrite H1. apply IH; assumption.
Qed.

Lemma replace_head a b s :
  a <> [] -> s <> [] -> prefixb a s = true -> exists r, replace_all a b s = b ++ r.
Proof.
  intros Ha Hs Hp. unfold replace_all. destruct s as [|c s']; [congruence|].
  cbn [replace_all_fuel]. rewrite Hp. destruct a; [congruence|]. eexists; reflexivity.
Qed.

Lemma best_ns_sound ns u n p : best_ns ns u = Some (n, p) -> In (n, p) ns /\ prefixb n u = true.
Proof.
  induction ns as [|[n0 p0] ns IH]; cbn [best_ns]; [discriminate|].
  destruct (prefixb n0 u) eqn:E; cbn [andb].
  - destruct (negb (contains (Str "/") (skipn (List.length n0) u)) &&
              negb (contains (Str "#") (skipn (List.length n0) u))).
    + intros H; injection H as <- <-. split; [left; reflexivity | exact E].
    + intros H. destruct (IH H). split; [right|]; assumption.
  - intros H. destruct (IH H). split; [right|]; assumption.
Qed.

Lemma tok_ok_app_head b r : tok_ok b = true -> tok_ok (b ++ r) = true.
Proof. destruct b; [discriminate | intros H; exact H]. Qed.

Lemma prefix_colon_tok_ok p : nospace p = true -> tok_ok (p ++ Str ":") = true.
Proof.
  destruct p as [|c p]; [reflexivity|]. cbn [nospace forallb]. intros H. apply andb_true_iff in H. apply H.
Qed.

Lemma tune_token_tok_ok ns p t :
  ns_ok ns -> tok_ok p = true -> tune_token ns p = Some t -> tok_ok t = true.
Proof.
  intros Hns Hp. unfold tune_token.
  destruct (prefixb c_STARTING_CHAR_FOR_SHAPE_NAME p).
  { destruct (prefixize_shape_name ns p); [|discriminate]. intros H; injection H as <-. reflexivity. }
  destruct (mem_str p [c_IRI_ELEM_TYPE; c_BNODE_ELEM_TYPE; c_NONLITERAL_ELEM_TYPE]).
  { intros H; injection H as <-. exact Hp. }
  destruct (negb (contains (Str ":") p)).
  { destruct (contains (Str "<") p); intros H; injection H as <-; reflexivity. }
  unfold prefixize_opt. destruct (best_ns ns p) as [[n pf]|] eqn:E.
  - intros H; injection H as <-. destruct (best_ns_sound _ _ _ _ E) as [Hin Hpre].
    unfold ns_ok in Hns. rewrite Forall_forall in Hns. destruct (Hns _ Hin) as [Hn Hpf]. cbn [fst snd] in Hn, Hpf.
    assert (p <> []) by (destruct p; [discriminate | congruence]).
    unfold py_replace. change [":"%char] with (Str ":"). destruct (replace_head n (pf ++ Str ":") p Hn H Hpre) as [r ->].
    apply tok_ok_app_head, prefix_colon_tok_ok, Hpf.
  - intros H; injection H as <-. reflexivity.
Qed.

Lemma label_ok_intro l : l <> [] -> nospace l = true -> label_ok l = true.
Proof. destruct l; [congruence | intros _ H; exact H]. Qed.

Lemma label_ok_of_nospace ns name l :
  ns_ok ns -> nospace name = true -> prefixize_shape_name ns name = Some l -> label_ok l = true.
Proof.
  intros Hns Hn. unfold prefixize_shape_name, prefixize_cornered, remove_corners_strict.
  set (target := slice_from name 1).
  assert (Ht : nospace target = true) by (apply nospace_skipn, Hn).
  destruct (prefixb (Str "<") target && suffixb (Str ">") target) eqn:Ec; [|discriminate].
  apply andb_true_iff in Ec. destruct Ec as [Ec _].
  assert (Hcand : nospace (slice target 1 (-1)) = true) by (apply nospace_firstn, nospace_skipn, Ht).
  destruct (best_ns ns (slice target 1 (-1))) as [[n pf]|] eqn:E.
  - intros H. assert (El : py_replace n (pf ++ Str ":") (slice target 1 (-1)) = l) by congruence. subst l. clear H.
    destruct (best_ns_sound _ _ _ _ E) as [Hin Hpre].
    unfold ns_ok in Hns. rewrite Forall_forall in Hns. destruct (Hns _ Hin) as [Hn0 Hpf]. cbn [fst snd] in Hn0, Hpf.
    assert (Hne : slice target 1 (-1) <> []).
    { intros Z. rewrite Z in Hpre. destruct n; [congruence | discriminate]. }
    assert (Hb : nospace (pf ++ Str ":") = true) by (rewrite nospace_app, Hpf; reflexivity).
    apply label_ok_intro.
    + unfold py_replace. destruct (replace_head n (pf ++ Str ":") _ Hn0 Hne Hpre) as [r ->]. destruct pf; discriminate.
    + apply (replace_nospace n (pf ++ Str ":") _ _ Hb Hcand).
  - intros H. assert (El : target = l) by congruence. subst l. apply label_ok_intro; [|exact Ht].
    destruct target; [discriminate | congruence].
Qed.

(** a printed stem is a prefix of an instance id *)
Lemma stem_ok_of_prefix s i :
  prefix s i -> forallb stem_char_ok i = true -> stem_ok s = true.
Proof.
  intros [r ->] H. unfold stem_ok. rewrite forallb_app in H. apply andb_true_iff in H. apply H.
Qed.

Theorem decor_domb_sufficient z dc d shapes :
  ns_ok (z_ns z) ->
  Forall (fun sh =>
            nospace (sh_name sh) = true /\
            Forall (fun s => tok_ok (s_prop s) = true) (sh_stmts sh) /\
            (d_dmi dc = true -> forall s, shape_stem d (sh_class sh) = Some (Some s) -> stem_ok s = true)) shapes ->
  decor_domb z dc d shapes = true.
Proof.
  intros Hns H. unfold decor_domb. apply forallb_forall. intros sh Hsh. rewrite Forall_forall in H.
  destruct (H sh Hsh) as (Hn & Hst & Hstem). unfold shape_ok. rewrite !andb_true_iff. repeat split.
  - destruct (prefixize_shape_name (z_ns z) (sh_name sh)) as [l|] eqn:E; [|reflexivity].
    apply (label_ok_of_nospace _ _ _ Hns Hn E).
  - destruct (d_dmi dc); [|reflexivity]. destruct (shape_stem d (sh_class sh)) as [[s|]|] eqn:E; try reflexivity.
    apply (Hstem eq_refl s eq_refl).
  - apply forallb_forall. intros s Hs. rewrite Forall_forall in Hst. unfold stmt_ok.
    destruct (s_inv s); [reflexivity|]. cbn [orb].
    destruct (tune_token (z_ns z) (s_prop s)) as [t|] eqn:E; [|reflexivity].
    apply (tune_token_tok_ok _ _ _ Hns (Hst s Hs) E).
Qed.

(** the stem clause from the data: with well-formed instance ids none of which
    contains the closing marker's first character *)
Theorem stem_ok_of_instances c mode g ins d cls s :
  run_decor_data c true mode g = Some (ins, d) ->
  well_formed_ids (instances_of ins cls) ->
  (forall i, In i (instances_of ins cls) -> forallb stem_char_ok i = true) ->
  shape_stem d cls = Some (Some s) -> stem_ok s = true.
Proof.
  intros H W Hi S. destruct (run_decor_data_inv _ _ _ _ _ _ H) as (_ & d0 & C & E & _ & Hd). specialize (Hd eq_refl).
  assert (Hex : exists i, is_instance ins cls i).
  { destruct W as [Wn _]. destruct (instances_of ins cls) as [|i l] eqn:El; [congruence|].
    exists i. apply in_instances_of. rewrite El. left; reflexivity. }
  pose proof (shape_stem_is_stem ins g mode (r_inverse c) d0 cls E Hex) as S0.
  assert (S1 : shape_stem d cls = shape_stem d0 cls).
  { unfold shape_stem in *. destruct (dget d0 cls) as [e|] eqn:G; [|discriminate].
    destruct (e_min_iri e) as [l|] eqn:M; [|discriminate].
    subst d. rewrite (complete_keeps C d0 _ e G) by congruence. rewrite M. reflexivity. }
  rewrite S1, S0 in S. injection S as S.
  destruct (MinIriProofs.stem_some_prefix_sep _ _ W S) as (CP & _).
  destruct Hex as [i Hi0]. apply in_instances_of in Hi0.
  apply (stem_ok_of_prefix s i (CP i Hi0) (Hi i Hi0)).
Qed.
