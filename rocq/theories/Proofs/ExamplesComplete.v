(** * Completeness of the shape-example slot.

    [Proofs/ExamplesProofs.v] shows that what the example slots hold comes from
    the data (soundness).  This file shows the converse for the shape example:
    with [examples_mode] 'shape' / 'all' ([wants_shape_examples]), after
    [profile_classes] the slot of every class that HAS an instance is filled
    ([_annotate_shape_examples] / [_annotate_shape_examples_and_min_iris] run
    once per (instance, class) pair, "first seen wins", and nothing empties a
    slot).  Consequence used by Props/C17.v: a shape printed without an example
    line (C17-F4 repaired) is the shape of a class without any instance. *)
From Coq Require Import List Ascii String ZArith Bool.
From Shexer Require Import Lib.PyStr Lib.Dict Gen.Consts Spec.Rdf Model.Tracker Model.MinIri Model.Examples
     Spec.MinIriSpec Proofs.MinIriProofs Proofs.ExamplesProofs.
Import ListNotations.

Definition has_ent (d : exdict) (c : str) : Prop := exists e, dget d c = Some e.
Definition has_ex (d : exdict) (c : str) : Prop := exists e x, dget d c = Some e /\ e_example e = Some x.

Lemma has_ex_ent d c : has_ex d c -> has_ent d c.
Proof. intros (e & x & E & _). now exists e. Qed.

Lemma set_min_ent d c' m c : has_ent d c -> has_ent (set_min d c' m) c.
Proof.
  intros (e & E). unfold set_min, has_ent. destruct (str_eq_dec c' c) as [<- | N].
  - rewrite dget_dset_same. eauto.
  - rewrite dget_dset_other by assumption. eauto.
Qed.

Lemma set_min_ex d c' m c : has_ex d c -> has_ex (set_min d c' m) c.
Proof.
  intros (e & x & E & X). unfold set_min, has_ex. destruct (str_eq_dec c' c) as [<- | N].
  - rewrite dget_dset_same. unfold ex_get_or_init. rewrite E. eexists. exists x. split; [reflexivity | exact X].
  - rewrite dget_dset_other by assumption. eauto.
Qed.

Lemma set_example_ent d c' y c : has_ent d c -> has_ent (set_example d c' y) c.
Proof.
  intros (e & E). unfold set_example, has_ent. destruct (str_eq_dec c' c) as [<- | N].
  - rewrite dget_dset_same. eauto.
  - rewrite dget_dset_other by assumption. eauto.
Qed.

Lemma set_example_ex d c' y c : has_ex d c -> has_ex (set_example d c' y) c.
Proof.
  intros (e & x & E & X). unfold set_example, has_ex. destruct (str_eq_dec c' c) as [<- | N].
  - rewrite dget_dset_same. eexists. exists y. split; reflexivity.
  - rewrite dget_dset_other by assumption. eauto.
Qed.

Lemma set_example_same d c y : has_ex (set_example d c y) c.
Proof. unfold set_example, has_ex. rewrite dget_dset_same. eexists. exists y. split; reflexivity. Qed.

(** the min-IRI half of one step, as a relation: either nothing, or one [set_min] *)
Lemma dstep_shape do_min do_ex d i c d' :
  dstep do_min do_ex (Some d) (i, c) = Some d' ->
  exists d1, (d1 = d \/ exists m, d1 = set_min d c m) /\
             (d' = d1 \/ (do_ex = true /\ exists e, dget d1 c = Some e /\ e_example e = None /\ d' = set_example d1 c i)) /\
             (do_ex = true -> has_ent d1 c -> has_ex d' c).
Proof.
  unfold dstep, detect_step. cbn [fst snd].
  assert (exists d1, (d1 = d \/ exists m, d1 = set_min d c m) /\
            forall r, (match (if do_min then
                          match dget d c with
                          | None => None
                          | Some e => match e_min_iri e with
                                      | None => None
                                      | Some curr => Some (set_min d c (Some (update_min_iri curr i)))
                                      end
                          end
                        else Some d) with None => None | Some d1' => r d1' end = Some d' -> r d1 = Some d'))
    as (d1 & H1 & K).
  { destruct do_min.
    - destruct (dget d c) as [e|]; [|exists d; split; [now left | intros r X; discriminate]].
      destruct (e_min_iri e) as [curr|]; [|exists d; split; [now left | intros r X; discriminate]].
      eexists. split; [right; eexists; reflexivity | intros r X; exact X].
    - exists d. split; [now left | intros r X; exact X]. }
  intros E. apply K in E. clear K. exists d1. split; [exact H1|].
  destruct do_ex.
  - destruct (dget d1 c) as [e|] eqn:G.
    + destruct (e_example e) as [x|] eqn:X; inversion E; subst d'.
      * split; [now left|]. intros _ _. exists e, x. split; assumption.
      * split; [right; split; [reflexivity|]; exists e; repeat split; assumption|].
        intros _ _. apply set_example_same.
    + inversion E; subst d'. split; [now left|]. intros _ (e & G'). congruence.
  - inversion E; subst d'. split; [now left | discriminate].
Qed.

Lemma dstep_keeps_ent do_min do_ex d pc d' c :
  dstep do_min do_ex (Some d) pc = Some d' -> has_ent d c -> has_ent d' c.
Proof.
  destruct pc as [i c']. intros E H. destruct (dstep_shape _ _ _ _ _ _ E) as (d1 & H1 & H2 & _).
  assert (has_ent d1 c) as H1' by (destruct H1 as [-> | [m ->]]; [assumption | now apply set_min_ent]).
  destruct H2 as [-> | (_ & e & _ & _ & ->)]; [assumption | now apply set_example_ent].
Qed.

Lemma dstep_keeps_ex do_min do_ex d pc d' c :
  dstep do_min do_ex (Some d) pc = Some d' -> has_ex d c -> has_ex d' c.
Proof.
  destruct pc as [i c']. intros E H. destruct (dstep_shape _ _ _ _ _ _ E) as (d1 & H1 & H2 & _).
  assert (has_ex d1 c) as H1' by (destruct H1 as [-> | [m ->]]; [assumption | now apply set_min_ex]).
  destruct H2 as [-> | (_ & e & _ & _ & ->)]; [assumption | now apply set_example_ex].
Qed.

Lemma dstep_sets_ex do_min d i c d' :
  dstep do_min true (Some d) (i, c) = Some d' -> has_ent d c -> has_ex d' c.
Proof.
  intros E H. destruct (dstep_shape _ _ _ _ _ _ E) as (d1 & H1 & _ & H3).
  apply H3; [reflexivity|]. destruct H1 as [-> | [m ->]]; [assumption | now apply set_min_ent].
Qed.

Lemma detect_fold_ex do_min c ps : forall d d',
  fold_left (dstep do_min true) ps (Some d) = Some d' ->
  has_ex d c \/ (has_ent d c /\ exists i, In (i, c) ps) -> has_ex d' c.
Proof.
  induction ps as [|pc ps IH]; intros d d' E H; cbn [fold_left] in E.
  - inversion E; subst d'. destruct H as [H | (_ & i & [])]. exact H.
  - destruct (dstep do_min true (Some d) pc) as [d1|] eqn:E1; [|rewrite dstep_none in E; discriminate].
    apply (IH d1 d' E). destruct H as [H | (H & i & [-> | Hin])].
    + left. eapply dstep_keeps_ex; eassumption.
    + left. eapply dstep_sets_ex; eassumption.
    + right. split; [eapply dstep_keeps_ent; eassumption | now exists i].
Qed.

Theorem shape_example_complete dmi mode ip ins g d c i :
  profile_examples dmi mode ip ins g = Some d -> wants_shape_examples mode = true ->
  is_instance ins c i -> exists x, shape_example d c = Some x.
Proof.
  unfold profile_examples. intros E W Hi. rewrite W, orb_true_r in E.
  destruct (match mode with None => Some [] | Some _ => cons_examples ip ins g end) as [d0|]; [|discriminate].
  rewrite detect_features_pairs in E.
  assert (has_ex d c) as (e & x & G & X).
  { apply (detect_fold_ex dmi c _ _ _ E). right. split.
    - destruct (init_features_slots ins d0 c (class_keys_In _ _ _ Hi)) as (e & G & _). now exists e.
    - exists i. now apply in_pairs. }
  exists x. unfold shape_example. rewrite G. exact X.
Qed.

(** contrapositive, as the serialiser meets it: an entry whose example slot
    is still [None] belongs to a class without instances *)
Corollary shape_example_none_no_instance dmi mode ip ins g d c :
  profile_examples dmi mode ip ins g = Some d -> wants_shape_examples mode = true ->
  shape_example d c = None -> forall i, ~ is_instance ins c i.
Proof.
  intros E W N i Hi. destruct (shape_example_complete _ _ _ _ _ _ _ _ E W Hi) as [x X]. congruence.
Qed.
