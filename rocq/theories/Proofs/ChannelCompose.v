(** * C08, rdflib channels: composition of the renaming lemmas of
    [Proofs/ChannelProofs.v] with C09's permutation theorems
    ([Proofs/EndToEnd.v]: tracker, counts). *)
From Coq Require Import List Ascii String ZArith NArith Bool Permutation.
From Shexer Require Import Lib.PyStr Lib.Dict Gen.Consts Spec.Rdf Model.Tracker Model.Profiler Model.Run
     Spec.Counts Proofs.EndToEnd Model.Channels Spec.ChannelSpec Proofs.ChannelProofs.
Import ListNotations.

Lemma typing_iri_perm tau g g' : Permutation g g' -> typing_iri tau g -> typing_iri tau g'.
Proof. intros HP H t Hin. apply H. apply (Permutation_in t (Permutation_sym HP)). exact Hin. Qed.

Lemma bnode_ids_perm g g' b : Permutation g g' -> In b (bnode_ids g') -> In b (bnode_ids g).
Proof.
  intros HP H. unfold bnode_ids in *. apply in_flat_map in H. destruct H as (t & Ht & Hb).
  apply in_flat_map. exists t. split; [apply (Permutation_in t (Permutation_sym HP)); exact Ht | exact Hb].
Qed.

(** What an rdflib channel hands to the two passes is [rename f1 G1] and
    [rename f2 G2] with [G1], [G2] permutations of the graph [G].  Without
    instance cap, when no blank node takes part in a typing triple and no
    blank-node label is an instance id: the instance pass yields a dictionary
    equivalent to the one of [G] (same instances, same classes per instance),
    the feature pass is blind to its renaming, and every declarative count
    [occ] / [class_count] over what the passes saw is the count over [G] --
    by P1 these are all the numbers the class profile holds. *)
Theorem rdflib_counts_invariant c (G G1 G2 : graph) (f1 f2 : str -> str) (I : insts) :
  (r_cap c <= 0)%Z -> Permutation G G1 -> Permutation G G2 ->
  typing_iri (r_tau c) G ->
  (forall b, In b (bnode_ids G) -> dmem I b = false /\ dmem I (f2 b) = false) ->
  track (r_tau c) (mode_of c) (r_cap c) G = inl I ->
  exists I1,
    track (r_tau c) (mode_of c) (r_cap c) (rename f1 G1) = inl I1 /\
    insts_equiv I I1 /\
    profile (pcfg_of c) I1 (rename f2 G2) = profile (pcfg_of c) I1 G2 /\
    (forall cls, class_count I1 cls = class_count I cls) /\
    (forall dir cls p k card, occ dir (r_tau c) I1 G2 cls p k card = occ dir (r_tau c) I G cls p k card).
Proof.
  intros Hcap HP1 HP2 Hty Hun Htr.
  destruct (track_perm (r_tau c) (mode_of c) (r_cap c) G G1 I Hcap HP1 Htr) as (I1 & Ht1 & Heq).
  exists I1. split; [|split; [exact Heq|split; [|split]]].
  - rewrite (track_rename f1 (r_tau c) (mode_of c) (r_cap c) G1 (typing_iri_perm _ _ _ HP1 Hty)). exact Ht1.
  - apply profile_rename; [exact (typing_iri_perm _ _ _ HP2 Hty)|].
    intros b Hb. destruct Heq as (_ & _ & Hmem & _). rewrite <- !Hmem. apply Hun. apply (bnode_ids_perm G G2 b HP2 Hb).
  - intros cls. symmetry. apply class_count_insts_equiv. exact Heq.
  - intros dir cls p k card. symmetry. apply occ_perm_equiv; assumption.
Qed.
