(** * Concrete shape-map runs of [Model.RunMap] used as witnesses by the Props
    files: the pinned reproducers of findings C12-F2 / C02-F2 / C04-F1 in
    known_findings.json (the REAL Shaper shows the same outputs on them: they
    are replayed by the checks on every run). *)
From Coq Require Import List Ascii String ZArith NArith Bool.
From Shexer Require Import Lib.PyStr Lib.Dict Lib.Bin64 Gen.Consts Spec.Rdf Model.Tracker Model.Profiler
  Model.Tokens Model.Freq Model.FreqInst Model.Shexing Model.ShexingFix Model.SerialShexc Model.Run Model.RunMap
  Proofs.ShexKeys Proofs.RunWitness.
From Shexer Require Model.Selectors.
Import ListNotations.

Definition m_ns : nsdict := [(Str "http://ex.org/", Str "ex"); (Str "http://sh/", Str "sh")].

(** no blank node, no SPARQL selector: the external code is not consulted *)
Definition m_orc : Selectors.oracles :=
  {| Selectors.o_rid := fun b => b; Selectors.o_wf := fun _ => false; Selectors.o_ans := fun _ => [];
     Selectors.o_dis0 := 0%N; Selectors.o_rand_prefix := [] |}.

(** three nodes labelled S, one node labelled T that has no triple:
    s0 -p-> t0;  s1 -p-> x0, x1;  s0, s1, s2 have a name *)
Definition m_graph : graph :=
  [lit "s0" "name" "a"; lit "s1" "name" "b"; lit "s2" "name" "c";
   lnk "s0" "p" (iri "t0"); lnk "s1" "p" (iri "x0"); lnk "s1" "p" (iri "x1")].

Definition m_map : str :=
  Str "<http://ex.org/s0>@<http://sh/S>" ++ Selectors.nl ++ Str "<http://ex.org/s1>@<http://sh/S>" ++ Selectors.nl ++
  Str "<http://ex.org/s2>@<http://sh/S>" ++ Selectors.nl ++ Str "<http://ex.org/t0>@<http://sh/T>".

Definition m_spec : Selectors.tspec :=
  {| Selectors.sp_ns := m_ns; Selectors.sp_tau := c_RDF_TYPE; Selectors.sp_classes := Selectors.CNone;
     Selectors.sp_all := false; Selectors.sp_smap := Selectors.SMFixed m_map |}.

Definition lab_S : str := Str "<http://sh/S>".
Definition lab_T : str := Str "<http://sh/T>".

Definition with_or (dis red : bool) (c : rcfg) : rcfg :=
  {| r_tau := r_tau c; r_targets := r_targets c; r_ns := r_ns c; r_shapes_ns := r_shapes_ns c; r_cap := r_cap c;
     r_inverse := r_inverse c; r_remove_empty := r_remove_empty c; r_discard_useless := r_discard_useless c;
     r_keep_less_specific := r_keep_less_specific c; r_all_compliant := r_all_compliant c; r_disable_or := dis;
     r_allow_redundant_or := red; r_allow_opt := r_allow_opt c;
     r_disable_exact := r_disable_exact c; r_disable_comments := r_disable_comments c; r_mode := r_mode c |}.

Definition with_remove (b : bool) (c : rcfg) : rcfg :=
  {| r_tau := r_tau c; r_targets := r_targets c; r_ns := r_ns c; r_shapes_ns := r_shapes_ns c; r_cap := r_cap c;
     r_inverse := r_inverse c; r_remove_empty := b; r_discard_useless := r_discard_useless c;
     r_keep_less_specific := r_keep_less_specific c; r_all_compliant := r_all_compliant c; r_disable_or := r_disable_or c;
     r_allow_redundant_or := r_allow_redundant_or c; r_allow_opt := r_allow_opt c;
     r_disable_exact := r_disable_exact c; r_disable_comments := r_disable_comments c; r_mode := r_mode c |}.

(** the keys of every shape of a shape-map run *)
Definition map_keys (c : rcfg) (thr : F BAlg) : option (list (str * list (bool * str * vclass))) :=
  match run_shapes_map BAlg c m_orc m_spec thr m_graph with
  | inl (ns, shapes) => Some (map (fun sh => (sh_class sh, map (skey (scfg_map c m_spec ns)) (sh_stmts sh))) shapes)
  | inr _ => None
  end.

(** the dictionary the run starts from *)
Example m_instances :
  Selectors.run m_orc m_spec m_graph =
  Selectors.OOk [(ex "s0", [lab_S]); (ex "s1", [lab_S]); (ex "s2", [lab_S]); (ex "t0", [lab_T])].
Proof. vm_compute. reflexivity. Qed.

(** Both orders of ClassShexer's stages are covered: a lemma about the old order
    carries the premise [c_clean_before_merge = false], one about the new order
    [= true]; the generated constant decides which of the two is not vacuous.
    [flag_or tac]: the premise is absurd, or [tac] proves the goal by evaluation. *)
Ltac flag_or tac := let E := fresh "E" in intros E; first [ (vm_compute in E; discriminate E) | tac ].

(** C12-F2 / C02-F2 (keep_less_specific off, remove_empty_shapes on), OLD order: at
    1/3 the reference @T wins the node-kind merge of ex:p and is deleted with the
    empty shape T; at 1/2 the plain kind IRI is kept *)
Example m_keys_third :
  c_clean_before_merge = false ->
  map_keys (with_kls false base_rcfg) (b_ratio 1 3) = Some [(lab_S, [(false, ex "name", VLit c_STRING_TYPE)])].
Proof. flag_or ltac:(vm_compute; reflexivity). Qed.

(** NEW order (notes/proposed_fixes/C04-choice-prune.diff): the key is there at 1/3 too *)
Example m_keys_third_fixed :
  c_clean_before_merge = true ->
  map_keys (with_kls false base_rcfg) (b_ratio 1 3) =
  Some [(lab_S, [(false, ex "name", VLit c_STRING_TYPE); (false, ex "p", VNonLit)])].
Proof. flag_or ltac:(vm_compute; reflexivity). Qed.

Example m_keys_half :
  map_keys (with_kls false base_rcfg) (b_ratio 1 2) =
  Some [(lab_S, [(false, ex "name", VLit c_STRING_TYPE); (false, ex "p", VNonLit)])].
Proof. vm_compute. reflexivity. Qed.

(** without remove_empty_shapes the key is there at 1/3, and T has its (empty) shape *)
Example m_keys_third_keep :
  map_keys (with_remove false (with_kls false base_rcfg)) (b_ratio 1 3) =
  Some [(lab_S, [(false, ex "name", VLit c_STRING_TYPE); (false, ex "p", VNonLit)]); (lab_T, [])].
Proof. vm_compute. reflexivity. Qed.

(** C04-F1, OLD order: disjunctions enabled: 'ex:p IRI OR @sh:T' next to the empty shape T *)
Example m_choice_prune :
  c_clean_before_merge = false ->
  run_shapes_map BAlg (with_or false true base_rcfg) m_orc m_spec thr0 m_graph = inr (MERun REType) /\
  run_shexc_map BAlg (with_or false true base_rcfg) m_orc m_spec thr0 m_graph = inr (MERun REType).
Proof. flag_or ltac:(split; vm_compute; reflexivity). Qed.

(** NEW order: the same run succeeds; the candidate @sh:T goes before the merge, 'ex:p IRI' is left *)
Example m_choice_fixed :
  c_clean_before_merge = true ->
  map_keys (with_or false true base_rcfg) thr0 =
  Some [(lab_S, [(false, ex "name", VLit c_STRING_TYPE); (false, ex "p", VNonLit)])] /\
  exists text, run_shexc_map BAlg (with_or false true base_rcfg) m_orc m_spec thr0 m_graph = inl text.
Proof. flag_or ltac:(split; [vm_compute; reflexivity | eexists; vm_compute; reflexivity]). Qed.

(** ... and no crash once empty shapes are kept *)
Example m_choice_keep :
  exists text, run_shexc_map BAlg (with_remove false (with_or false true base_rcfg)) m_orc m_spec thr0 m_graph = inl text.
Proof. eexists. vm_compute. reflexivity. Qed.
