(** * Proofs for C17 (examples, and the per-class dictionary that carries the
    min-IRI fold): invariants of the first-seen bookkeeping. *)
From Coq Require Import List Ascii String ZArith Bool Lia.
From Shexer Require Import Lib.PyStr Lib.Dict Gen.Consts Spec.Rdf Model.Tracker Model.MinIri Model.Examples
     Spec.MinIriSpec Proofs.MinIriProofs.
Import ListNotations.

(** ** dictionaries *)
Lemma dget_dset_same {V} (d : dict V) k v : dget (dset d k v) k = Some v.
Proof.
  induction d as [|[k0 v0] d IH]; cbn.
  - now rewrite str_eqb_refl.
  - destruct (str_eqb k k0) eqn:E; cbn; rewrite E; [reflexivity | apply IH].
Qed.

Lemma dget_dset_other {V} (d : dict V) k k' v : k <> k' -> dget (dset d k v) k' = dget d k'.
Proof.
  intros N. induction d as [|[k0 v0] d IH]; cbn.
  - destruct (str_eqb k' k) eqn:E; [apply str_eqb_eq in E; congruence | reflexivity].
  - destruct (str_eqb k k0) eqn:E; cbn.
    + apply str_eqb_eq in E; subst k0.
      destruct (str_eqb k' k) eqn:E'; [apply str_eqb_eq in E'; congruence | reflexivity].
    + destruct (str_eqb k' k0); [reflexivity | apply IH].
Qed.

Lemma dget_In {V} (d : dict V) k v : dget d k = Some v -> In (k, v) d.
Proof.
  induction d as [|[k0 v0] d IH]; cbn; [discriminate|].
  destruct (str_eqb k k0) eqn:E.
  - apply str_eqb_eq in E; subst. intros H; inversion H; subst. now left.
  - intros H. right. now apply IH.
Qed.

Lemma dmem_dget {V} (d : dict V) k : dmem d k = true -> exists v, dget d k = Some v.
Proof. unfold dmem. destruct (dget d k) as [v|]; [now exists v | discriminate]. Qed.

(** ** the double loop over the instance dictionary as one loop over (instance, class) pairs *)
Definition pairs (ins : insts) : list (str * str) :=
  flat_map (fun ic => map (fun c => (fst ic, c)) (snd ic)) ins.

Lemma fold_pairs {A} (F : str -> A -> str -> A) (ins : insts) : forall a,
  fold_left (fun a ic => fold_left (F (fst ic)) (snd ic) a) ins a =
  fold_left (fun a pc => F (fst pc) a (snd pc)) (pairs ins) a.
Proof.
  induction ins as [|[i cs] ins IH]; intros a; cbn; [reflexivity|].
  rewrite fold_left_app, <- IH. f_equal.
  clear. revert a. induction cs as [|c cs IH]; intros a; cbn; [reflexivity | apply IH].
Qed.

Lemma in_pairs ins i c : In (i, c) (pairs ins) <-> is_instance ins c i.
Proof.
  unfold pairs, is_instance. rewrite in_flat_map. split.
  - intros ([i' cs] & Hin & Hm). apply in_map_iff in Hm. destruct Hm as (c' & E & Hc). cbn in E.
    inversion E; subst. now exists cs.
  - intros (cs & Hin & Hc). exists (i, cs). split; [assumption|]. apply in_map_iff. now exists c.
Qed.

Definition sel (c : str) (ps : list (str * str)) : list str :=
  map fst (filter (fun pc => str_eqb c (snd pc)) ps).

Lemma sel_app c a b : sel c (a ++ b) = sel c a ++ sel c b.
Proof. unfold sel. now rewrite filter_app, map_app. Qed.

Lemma instances_of_pairs ins c : instances_of ins c = sel c (pairs ins).
Proof.
  unfold instances_of, pairs. induction ins as [|[i cs] ins IH]; [reflexivity|].
  cbn [flat_map fst snd]. rewrite sel_app, IH. f_equal. clear. unfold sel.
  induction cs as [|c' cs IH]; cbn; [reflexivity|].
  destruct (str_eqb c c'); cbn; now rewrite IH.
Qed.

Lemma in_instances_of ins c i : In i (instances_of ins c) <-> is_instance ins c i.
Proof.
  rewrite instances_of_pairs, <- in_pairs. unfold sel. rewrite in_map_iff. split.
  - intros ([i' c'] & E & H). apply filter_In in H. destruct H as [H S]. cbn in *.
    apply str_eqb_eq in S. now subst.
  - intros H. exists (i, c). split; [reflexivity|]. apply filter_In. split; [assumption|]. cbn. apply str_eqb_refl.
Qed.

(** [class_keys] holds every class some instance has *)
Lemma class_keys_pairs ins :
  class_keys ins = fold_left (fun acc (pc : str * str) => if mem_str (snd pc) acc then acc else acc ++ [snd pc]) (pairs ins) [].
Proof. unfold class_keys. apply (fold_pairs (fun _ acc c => if mem_str c acc then acc else acc ++ [c])). Qed.

Lemma addkeys_In ps : forall acc c,
  In c acc \/ In c (map snd ps) ->
  In c (fold_left (fun acc (pc : str * str) => if mem_str (snd pc) acc then acc else acc ++ [snd pc]) ps acc).
Proof.
  induction ps as [|[i k] ps IH]; intros acc c H; cbn.
  - destruct H as [H | []]; assumption.
  - apply IH. cbn in H. destruct (mem_str k acc) eqn:M.
    + destruct H as [H | [<- | H]]; auto. left. now apply mem_str_In.
    + destruct H as [H | [<- | H]]; auto; left; apply in_or_app; [now left | right; now left].
Qed.

Lemma class_keys_In ins c i : is_instance ins c i -> In c (class_keys ins).
Proof.
  intros H. rewrite class_keys_pairs. apply addkeys_In. right. apply in_pairs in H.
  apply in_map_iff. now exists (i, c).
Qed.

(** ** soundness invariant of the example slots *)
Section Inv.
  Variable ins : insts.
  Variable g : graph.

  Definition ent_ok (c : str) (e : exent) : Prop :=
    (forall x, e_example e = Some x -> is_instance ins c x) /\
    (forall p v, dget (e_direct e) p = Some v -> constraint_example_ok ins g c p false v) /\
    (forall p v, dget (e_inverse e) p = Some v -> constraint_example_ok ins g c p true v).

  Definition inv (d : exdict) : Prop := forall c e, dget d c = Some e -> ent_ok c e.

  Lemma ent_ok_init c : ent_ok c ex_init.
  Proof. repeat split; cbn; intros; discriminate. Qed.

  Lemma ent_ok_get d c : inv d -> ent_ok c (ex_get_or_init d c).
  Proof. intros H. unfold ex_get_or_init. destruct (dget d c) eqn:E; [now apply H | apply ent_ok_init]. Qed.

  Lemma inv_nil : inv [].
  Proof. intros c e H. discriminate. Qed.

  Lemma inv_dset d c e : inv d -> ent_ok c e -> inv (dset d c e).
  Proof.
    intros H Hc c' e' G. destruct (str_eq_dec c c') as [<- | N].
    - rewrite dget_dset_same in G. inversion G; subst. assumption.
    - rewrite dget_dset_other in G by assumption. now apply H.
  Qed.

  Lemma dget_dset_cases (d : dict str) p v p' v' :
    dget (dset d p v) p' = Some v' -> (p' = p /\ v' = v) \/ dget d p' = Some v'.
  Proof.
    destruct (str_eq_dec p p') as [<- | N].
    - rewrite dget_dset_same. intros H; inversion H. now left.
    - rewrite dget_dset_other by assumption. now right.
  Qed.

  Lemma set_cons_inv d inverse c p v :
    inv d -> constraint_example_ok ins g c p inverse v -> inv (set_cons d inverse c p v).
  Proof.
    intros H W. unfold set_cons. apply inv_dset; [assumption|].
    destruct (ent_ok_get d c H) as (Hx & Hd & Hi).
    destruct inverse; (split; [exact Hx|]); cbn; split; try assumption; intros p' v' G;
      apply dget_dset_cases in G; destruct G as [[-> ->] | G]; auto.
  Qed.

  Lemma set_min_inv d c m : inv d -> inv (set_min d c m).
  Proof.
    intros H. unfold set_min. apply inv_dset; [assumption|].
    destruct (ent_ok_get d c H) as (Hx & Hd & Hi). repeat split; assumption.
  Qed.

  Lemma set_example_inv d c x : inv d -> is_instance ins c x -> inv (set_example d c x).
  Proof.
    intros H W. unfold set_example. apply inv_dset; [assumption|].
    destruct (ent_ok_get d c H) as (Hx & Hd & Hi). split; [|split; assumption].
    cbn. intros y E. inversion E; subst. assumption.
  Qed.

  (** *** triple pass *)
  Lemma annotate_fold_inv inverse inst p v cl : forall d,
    (forall c, In c cl -> is_instance ins c inst) -> value_of g inverse inst p v -> inv d ->
    inv (fold_left (fun d c => if has_cons d inverse c p then d else set_cons d inverse c p v) cl d).
  Proof.
    induction cl as [|c cl IH]; intros d Hc W H; cbn; [assumption|].
    apply IH; [intros c' Hc'; apply Hc; now right | assumption |].
    destruct (has_cons d inverse c p); [assumption|].
    apply set_cons_inv; [assumption|]. exists inst. split; [apply Hc; now left | assumption].
  Qed.

  Lemma annotate_example_inv d inverse inst p v d' :
    inv d -> value_of g inverse inst p v -> annotate_example ins d inverse inst p v = Some d' -> inv d'.
  Proof.
    intros H W. unfold annotate_example. destruct (dget ins inst) as [classes|] eqn:E; [|discriminate].
    intros G; inversion G; subst. apply (annotate_fold_inv inverse inst); try assumption.
    intros c Hc. exists classes. split; [now apply dget_In | assumption].
  Qed.

  Lemma value_of_direct t : In t g -> value_of g false (str_of_node (ts t)) (tp t) (str_of_obj (to t)).
  Proof. intros Hin. exists t. split; [assumption|]. split; [reflexivity|]. split; [reflexivity|]. destruct (to t); reflexivity. Qed.

  Lemma value_of_inverse t : In t g -> relevant_obj ins (to t) = true ->
    value_of g true (str_of_obj (to t)) (tp t) (str_of_node (ts t)).
  Proof.
    intros Hin R. exists t. split; [assumption|]. split; [reflexivity|].
    destruct (to t) as [n|]; [|discriminate]. split; [now exists n | reflexivity].
  Qed.

  Lemma example_step_inv ip d t d' :
    In t g -> inv d -> example_step ip ins (Some d) t = Some d' -> inv d'.
  Proof.
    intros Hin H. unfold example_step. destruct ip; cbn [negb].
    - destruct (relevant_node ins (ts t)).
      + destruct (annotate_example ins d false _ _ _) as [d1|] eqn:E1; [|discriminate].
        pose proof (annotate_example_inv _ _ _ _ _ _ H (value_of_direct t Hin) E1) as H1.
        destruct (relevant_obj ins (to t)) eqn:R.
        * intros E2. exact (annotate_example_inv _ _ _ _ _ _ H1 (value_of_inverse t Hin R) E2).
        * intros E2; inversion E2; subst. assumption.
      + destruct (relevant_obj ins (to t)) eqn:R.
        * intros E2. exact (annotate_example_inv _ _ _ _ _ _ H (value_of_inverse t Hin R) E2).
        * intros E2; inversion E2; subst. assumption.
    - destruct (relevant_node ins (ts t)).
      + intros E1. exact (annotate_example_inv _ _ _ _ _ _ H (value_of_direct t Hin) E1).
      + intros E; inversion E; subst. assumption.
  Qed.

  Lemma example_step_none ip l : fold_left (example_step ip ins) l None = None.
  Proof. induction l; cbn; [reflexivity | assumption]. Qed.

  Lemma cons_fold_inv ip l : forall d d',
    incl l g -> inv d -> fold_left (example_step ip ins) l (Some d) = Some d' -> inv d'.
  Proof.
    induction l as [|t l IH]; intros d d' Hl H E; cbn [fold_left] in E; [inversion E; subst; assumption|].
    destruct (example_step ip ins (Some d) t) as [d1|] eqn:E1.
    - eapply IH; [intros x Hx; apply Hl; now right | | exact E].
      eapply example_step_inv; [apply Hl; now left | exact H | exact E1].
    - rewrite example_step_none in E. discriminate.
  Qed.

  Lemma cons_examples_inv ip d : cons_examples ip ins g = Some d -> inv d.
  Proof. apply cons_fold_inv; [apply incl_refl | apply inv_nil]. Qed.

  (** the triple pass never raises KeyError: only instances are looked up *)
  Lemma annotate_example_total d inverse inst p v :
    dmem ins inst = true -> exists d', annotate_example ins d inverse inst p v = Some d'.
  Proof.
    intros M. apply dmem_dget in M. destruct M as [cs E]. unfold annotate_example. rewrite E. eauto.
  Qed.

  Lemma example_step_total ip d t : exists d', example_step ip ins (Some d) t = Some d'.
  Proof.
    unfold example_step. destruct ip; cbn [negb].
    - assert (exists d1, (if relevant_node ins (ts t)
                          then annotate_example ins d false (str_of_node (ts t)) (tp t) (str_of_obj (to t))
                          else Some d) = Some d1) as [d1 ->].
      { destruct (relevant_node ins (ts t)) eqn:R; [now apply annotate_example_total | eauto]. }
      destruct (relevant_obj ins (to t)) eqn:R; [|eauto].
      apply annotate_example_total. destruct (to t); [exact R | discriminate].
    - destruct (relevant_node ins (ts t)) eqn:R; [now apply annotate_example_total | eauto].
  Qed.

  Lemma cons_fold_total ip l : forall d, exists d', fold_left (example_step ip ins) l (Some d) = Some d'.
  Proof.
    induction l as [|t l IH]; intros d; cbn [fold_left]; [eauto|].
    destruct (example_step_total ip d t) as [d1 E]. rewrite E. apply IH.
  Qed.

  (** *** instance pass *)
  Definition dstep (do_min do_ex : bool) (d : option exdict) (pc : str * str) : option exdict :=
    detect_step do_min do_ex (fst pc) d (snd pc).

  Lemma detect_features_pairs do_min do_ex d :
    detect_features do_min do_ex ins d = fold_left (dstep do_min do_ex) (pairs ins) (Some (init_features ins d)).
  Proof. unfold detect_features. apply (fold_pairs (detect_step do_min do_ex)). Qed.

  Lemma init_features_inv d : inv d -> inv (init_features ins d).
  Proof.
    unfold init_features. generalize (class_keys ins). intros ks. revert d.
    induction ks as [|k ks IH]; intros d H; cbn; [assumption|]. apply IH. now apply set_min_inv.
  Qed.

  Lemma dstep_inv do_min do_ex d pc d' :
    is_instance ins (snd pc) (fst pc) -> inv d -> dstep do_min do_ex (Some d) pc = Some d' -> inv d'.
  Proof.
    destruct pc as [i c]. cbn [fst snd]. intros W H. unfold dstep, detect_step. cbn [fst snd].
    assert (exists d1, inv d1 /\
      forall r, (match (if do_min then
                          match dget d c with
                          | None => None
                          | Some e => match e_min_iri e with
                                      | None => None
                                      | Some curr => Some (set_min d c (Some (update_min_iri curr i)))
                                      end
                          end
                        else Some d) with None => None | Some d1' => r d1' end = Some d' -> r d1 = Some d'))
      as (d1 & H1 & K).
    { destruct do_min.
      - destruct (dget d c) as [e|]; [|exists d; split; [assumption | intros r X; discriminate]].
        destruct (e_min_iri e) as [curr|]; [|exists d; split; [assumption | intros r X; discriminate]].
        eexists. split; [apply set_min_inv; exact H | intros r X; exact X].
      - exists d. split; [assumption | intros r X; exact X]. }
    intros E. apply K in E. clear K.
    destruct do_ex; [|inversion E; subst; assumption].
    destruct (dget d1 c) as [e|]; [|inversion E; subst; assumption].
    destruct (e_example e); inversion E; subst; [assumption|].
    now apply set_example_inv.
  Qed.

  Lemma dstep_none do_min do_ex l : fold_left (dstep do_min do_ex) l None = None.
  Proof. induction l; cbn; [reflexivity | assumption]. Qed.

  Lemma detect_fold_inv do_min do_ex l : forall d d',
    (forall pc, In pc l -> is_instance ins (snd pc) (fst pc)) -> inv d ->
    fold_left (dstep do_min do_ex) l (Some d) = Some d' -> inv d'.
  Proof.
    induction l as [|pc l IH]; intros d d' Hl H E; cbn [fold_left] in E; [inversion E; subst; assumption|].
    destruct (dstep do_min do_ex (Some d) pc) as [d1|] eqn:E1.
    - eapply IH; [intros x Hx; apply Hl; now right | | exact E].
      eapply dstep_inv; [apply Hl; now left | exact H | exact E1].
    - rewrite dstep_none in E. discriminate.
  Qed.

  Lemma detect_features_inv do_min do_ex d d' :
    inv d -> detect_features do_min do_ex ins d = Some d' -> inv d'.
  Proof.
    intros H. rewrite detect_features_pairs. apply detect_fold_inv; [|now apply init_features_inv].
    intros [i c] Hin. now apply in_pairs.
  Qed.

  Theorem profile_examples_inv dmi mode ip d : profile_examples dmi mode ip ins g = Some d -> inv d.
  Proof.
    unfold profile_examples.
    assert (forall d0, match mode with None => Some [] | Some _ => cons_examples ip ins g end = Some d0 -> inv d0) as H0.
    { intros d0. destruct mode; [apply cons_examples_inv | intros E; inversion E; apply inv_nil]. }
    destruct (match mode with None => Some [] | Some _ => cons_examples ip ins g end) as [d0|]; [|discriminate].
    specialize (H0 d0 eq_refl).
    destruct (dmi || wants_shape_examples mode); [now apply detect_features_inv | intros E; inversion E; subst; assumption].
  Qed.

  (** *** the min-IRI slots: after the instance pass the slot of every class
      holds the fold over its instances; the pass does not raise *)
  Definition slot_is (d : exdict) (c : str) (l : list str) : Prop :=
    exists e, dget d c = Some e /\ e_min_iri e = Some (fold_left update_min_iri l c_MINIMAL_IRI_INIT).

  Lemma init_features_slots d c : In c (class_keys ins) -> slot_is (init_features ins d) c [].
  Proof.
    unfold init_features. generalize (class_keys ins). intros ks.
    assert (forall d, slot_is d c [] \/ In c ks ->
            slot_is (fold_left (fun d c => set_min d c (Some c_MINIMAL_IRI_INIT)) ks d) c []) as G.
    { induction ks as [|k ks IH]; intros d0 H; cbn.
      - destruct H as [H | []]. assumption.
      - apply IH. destruct (str_eq_dec k c) as [-> | N].
        + left. unfold slot_is, set_min. rewrite dget_dset_same. eexists. split; reflexivity.
        + destruct H as [H | [H | H]]; [| contradiction | now right].
          left. destruct H as (e & E1 & E2). exists e. unfold set_min. rewrite dget_dset_other by assumption. auto. }
    intros H. apply G. now right.
  Qed.

  Lemma set_example_slot d c' x c l : slot_is d c l -> slot_is (set_example d c' x) c l.
  Proof.
    intros (e & E1 & E2). unfold set_example, slot_is. destruct (str_eq_dec c' c) as [-> | N].
    - rewrite dget_dset_same. unfold ex_get_or_init. rewrite E1. eexists. split; [reflexivity | exact E2].
    - rewrite dget_dset_other by assumption. eauto.
  Qed.

  Lemma dstep_min_slots do_ex d i c' (L : str -> list str) :
    In c' (class_keys ins) ->
    (forall c, In c (class_keys ins) -> slot_is d c (L c)) ->
    exists d', dstep true do_ex (Some d) (i, c') = Some d' /\
               forall c, In c (class_keys ins) -> slot_is d' c (L c ++ sel c [(i, c')]).
  Proof.
    intros K S. unfold dstep, detect_step. cbn [fst snd].
    destruct (S c' K) as (e & E1 & E2). rewrite E1, E2.
    set (d1 := set_min d c' _).
    assert (S1 : forall c, In c (class_keys ins) -> slot_is d1 c (L c ++ sel c [(i, c')])).
    { intros c Kc. unfold sel. cbn. destruct (str_eq_dec c' c) as [<- | N].
      - rewrite str_eqb_refl. cbn. unfold slot_is, d1, set_min. rewrite dget_dset_same.
        eexists. split; [reflexivity|]. cbn. now rewrite fold_left_app.
      - assert (str_eqb c c' = false) as -> by (apply str_eqb_neq; congruence). cbn. rewrite app_nil_r.
        destruct (S c Kc) as (e' & E1' & E2'). exists e'. unfold d1, set_min.
        rewrite dget_dset_other by assumption. auto. }
    destruct do_ex; [|eauto].
    destruct (dget d1 c') as [e1|]; [|eauto].
    destruct (e_example e1); [eauto|].
    eexists. split; [reflexivity|]. intros c Kc. apply set_example_slot. now apply S1.
  Qed.

  Lemma detect_fold_slots do_ex ps : forall d acc,
    (forall pc, In pc ps -> In (snd pc) (class_keys ins)) ->
    (forall c, In c (class_keys ins) -> slot_is d c (sel c acc)) ->
    exists d', fold_left (dstep true do_ex) ps (Some d) = Some d' /\
               forall c, In c (class_keys ins) -> slot_is d' c (sel c (acc ++ ps)).
  Proof.
    induction ps as [|[i c'] ps IH]; intros d acc Hk S; cbn [fold_left].
    - exists d. split; [reflexivity|]. intros c Kc. rewrite app_nil_r. now apply S.
    - destruct (dstep_min_slots do_ex d i c' (fun c => sel c acc)) as (d1 & E1 & S1);
        [apply (Hk (i, c')); now left | exact S |].
      rewrite E1.
      destruct (IH d1 (acc ++ [(i, c')])) as (d' & E' & S').
      + intros pc Hpc. apply Hk. now right.
      + intros c Kc. rewrite sel_app. now apply S1.
      + exists d'. split; [exact E'|]. intros c Kc. rewrite <- app_assoc in S'. now apply S'.
  Qed.

  Lemma detect_features_slots do_ex d :
    exists d', detect_features true do_ex ins d = Some d' /\
               forall c, In c (class_keys ins) -> slot_is d' c (instances_of ins c).
  Proof.
    rewrite detect_features_pairs.
    destruct (detect_fold_slots do_ex (pairs ins) (init_features ins d) []) as (d' & E & S).
    - intros [i c] Hin. cbn. apply in_pairs in Hin. eapply class_keys_In; eassumption.
    - intros c Kc. cbn. now apply init_features_slots.
    - exists d'. split; [exact E|]. intros c Kc. rewrite instances_of_pairs. now apply S.
  Qed.

  (** without min-IRI detection the instance pass cannot raise either *)
  Lemma dstep_nomin_total do_ex d pc : exists d', dstep false do_ex (Some d) pc = Some d'.
  Proof.
    destruct pc as [i c]. unfold dstep, detect_step. cbn [fst snd].
    destruct do_ex; [|eauto]. destruct (dget d c) as [e|]; [|eauto]. destruct (e_example e); eauto.
  Qed.

  Lemma detect_fold_total_nomin do_ex ps : forall d, exists d', fold_left (dstep false do_ex) ps (Some d) = Some d'.
  Proof.
    induction ps as [|pc ps IH]; intros d; cbn [fold_left]; [eauto|].
    destruct (dstep_nomin_total do_ex d pc) as [d1 E]. rewrite E. apply IH.
  Qed.

  Theorem profile_examples_total dmi mode ip : exists d, profile_examples dmi mode ip ins g = Some d.
  Proof.
    unfold profile_examples.
    assert (exists d0, match mode with None => Some [] | Some _ => cons_examples ip ins g end = Some d0) as [d0 ->].
    { destruct mode; [apply cons_fold_total | eauto]. }
    destruct dmi; cbn [orb].
    - destruct (detect_features_slots (wants_shape_examples mode) d0) as (d' & E & _). eauto.
    - destruct (wants_shape_examples mode); [|eauto].
      rewrite detect_features_pairs. apply detect_fold_total_nomin.
  Qed.

  (** with detect_minimal_iri, the stem of a class that has an instance is the
      list-level [stem] of its instances *)
  Theorem shape_stem_is_stem mode ip d c :
    profile_examples true mode ip ins g = Some d -> (exists i, is_instance ins c i) ->
    shape_stem d c = Some (stem (instances_of ins c)).
  Proof.
    unfold profile_examples. cbn [orb]. intros E [i Hi].
    destruct (match mode with None => Some [] | Some _ => cons_examples ip ins g end) as [d0|]; [|discriminate].
    destruct (detect_features_slots (wants_shape_examples mode) d0) as (d' & E' & S).
    rewrite E' in E. inversion E; subst d'.
    destruct (S c (class_keys_In _ _ _ Hi)) as (e & E1 & E2).
    unfold shape_stem. rewrite E1, E2. reflexivity.
  Qed.
End Inv.

(** ** what the serialisers read *)
Theorem shape_example_sound dmi mode ip ins g d c x :
  profile_examples dmi mode ip ins g = Some d -> shape_example d c = Some x -> is_instance ins c x.
Proof.
  intros E. apply profile_examples_inv in E. unfold shape_example.
  destruct (dget d c) as [e|] eqn:G; [|discriminate]. intros X. now apply (E c e G).
Qed.

Theorem constraint_example_sound dmi mode ip ins g d c p inverse v :
  profile_examples dmi mode ip ins g = Some d -> constraint_example d c p inverse = Some v ->
  constraint_example_ok ins g c p inverse v.
Proof.
  intros E. apply profile_examples_inv in E. unfold constraint_example.
  destruct (dget d c) as [e|] eqn:G; [|discriminate]. destruct (E c e G) as (_ & Hd & Hi).
  destruct inverse; intros X; [now apply Hi | now apply Hd].
Qed.
