(** * [Model.ShexingFix]: the stage [shex_cur] (the order of ClassShexer's
    stages being what [c_clean_before_merge] says) has the properties the
    end-to-end theorems need, whichever order the code has.

    [shex_f] is [shex] without cleaning on the threshold-cleaned profile
    [merged_profile], whose entries are entries of the original profile with
    some type keys deleted ([merged_sub]): every figure and every key of the
    result is one of the original profile.

    Index: [drop_names_sub], [clean_thr_sub], [merged_sub], [merged_keys_nodup],
    [clean_thr_nonempty], [stage_K3], [stage_keys_sound], [stage_K1],
    [stage_classes], [stage_total], [stage_mono] *)
From Coq Require Import List Ascii String ZArith NArith Bool Lia.
From Shexer Require Import Lib.PyStr Lib.Dict Gen.Consts Model.Profiler Model.Tokens Model.Freq Model.Shexing
  Model.ShexingFix Proofs.DictLemmas Proofs.ProfileChar Proofs.ShexLemmas Proofs.ShexKeys Proofs.EndToEnd.
Import ListNotations.
Local Open Scope N_scope.

Lemma filter_len_le {A} (f : A -> bool) l : (List.length (filter f l) <= List.length l)%nat.
Proof. induction l as [|x l IH]; cbn; [lia|]. destruct (f x); cbn; lia. Qed.

Lemma filter_len_lt {A} (f : A -> bool) l x : In x l -> f x = false -> (List.length (filter f l) < List.length l)%nat.
Proof.
  induction l as [|y l IH]; intros Hin Hf; [destruct Hin|]. cbn [filter List.length]. destruct Hin as [->|Hin].
  - rewrite Hf. pose proof (filter_len_le f l). lia.
  - specialize (IH Hin Hf). destruct (f y); cbn [List.length]; lia.
Qed.

Section Fix.
  Variable fa : FreqAlg.
  Variable cfg : scfg.

  (** an entry [ce'] is [ce] with some type keys deleted *)
  Definition entry_sub (ce' ce : str * centry) : Prop :=
    fst ce' = fst ce /\
    forall inv p k ck n, pd_entry (class_pd cfg ce' inv) p k ck n -> pd_entry (class_pd cfg ce inv) p k ck n.

  Lemma entry_sub_refl ce : entry_sub ce ce.
  Proof. split; auto. Qed.

  Lemma entry_sub_trans a b c : entry_sub a b -> entry_sub b c -> entry_sub a c.
  Proof. intros [E1 H1] [E2 H2]. split; [congruence|]. intros inv p k ck n H. apply H2, H1, H. Qed.

  Lemma pd_entry_remove_keys names d p k ck n :
    pd_entry (remove_keys_pdict names d) p k ck n -> pd_entry d p k ck n.
  Proof.
    intros (kd & cd & H1 & H2 & H3). destruct (In_remove_keys_pdict _ _ _ _ _ _ H1 H2) as (m1 & A & B & _).
    exists m1, cd. auto.
  Qed.

  Lemma drop_names_sub names P ce' :
    In ce' (drop_names cfg names P) -> exists ce, In ce P /\ entry_sub ce' ce.
  Proof.
    unfold drop_names. intros H. apply in_map_iff in H. destruct H as [ce [<- H]]. apply filter_In in H.
    exists ce. split; [apply H|]. split; [reflexivity|]. intros inv p k ck n He. unfold class_pd in *. cbn [fst snd] in *.
    destruct inv.
    - destruct (x_inverse cfg); [|exact He]. cbn [c_inverse] in He. apply (pd_entry_remove_keys _ _ _ _ _ _ He).
    - cbn [c_direct] in He. apply (pd_entry_remove_keys _ _ _ _ _ _ He).
  Qed.

  Lemma clean_thr_sub fuel thr C : forall P ce',
    In ce' (clean_thr fa cfg fuel thr C P) -> exists ce, In ce P /\ entry_sub ce' ce.
  Proof.
    induction fuel as [|f IH]; intros P ce' H; [exists ce'; split; [exact H | apply entry_sub_refl]|].
    cbn [clean_thr] in H. destruct (gone_names fa cfg thr C P) as [|nm names]; [exists ce'; split; [exact H | apply entry_sub_refl]|].
    destruct (IH _ _ H) as (c1 & H1 & S1). destruct (drop_names_sub _ _ _ H1) as (c0 & H0 & S0).
    exists c0. split; [exact H0 | apply (entry_sub_trans _ _ _ S1 S0)].
  Qed.

  Lemma merged_sub thr C P ce' :
    In ce' (merged_profile fa cfg thr C P) -> exists ce, In ce P /\ entry_sub ce' ce.
  Proof.
    unfold merged_profile. destruct (x_remove_empty cfg); [apply clean_thr_sub|].
    intros H. exists ce'. split; [exact H | apply entry_sub_refl].
  Qed.

  (** keys: a sublist of the original keys *)
  Lemma dkeys_drop_names names P :
    dkeys (drop_names cfg names P) =
    dkeys (filter (fun ce : str * centry => negb (mem_str (shape_name (x_shapes_ns cfg) (fst ce)) names)) P).
  Proof. unfold drop_names, dkeys. rewrite map_map. reflexivity. Qed.

  Lemma NoDup_dkeys_filter (f : str * centry -> bool) (P : cprofile) : NoDup (dkeys P) -> NoDup (dkeys (filter f P)).
  Proof.
    unfold dkeys. induction P as [|x P IH]; intros H; [constructor|]. inversion H as [|? ? Hx Hn]; subst. cbn [filter].
    destruct (f x); [|apply IH; exact Hn]. cbn [map]. constructor; [|apply IH; exact Hn].
    intros Hin. apply Hx. apply in_map_iff in Hin. destruct Hin as [y [Ey Hy]]. apply filter_In in Hy.
    apply in_map_iff. exists y. split; [exact Ey | apply Hy].
  Qed.

  Lemma clean_thr_keys_nodup fuel thr C : forall P, NoDup (dkeys P) -> NoDup (dkeys (clean_thr fa cfg fuel thr C P)).
  Proof.
    induction fuel as [|f IH]; intros P H; [exact H|]. cbn [clean_thr].
    destruct (gone_names fa cfg thr C P) as [|nm names]; [exact H|]. apply IH. rewrite dkeys_drop_names.
    apply NoDup_dkeys_filter. exact H.
  Qed.

  Lemma merged_keys_nodup thr C P : NoDup (dkeys P) -> NoDup (dkeys (merged_profile fa cfg thr C P)).
  Proof. unfold merged_profile. destruct (x_remove_empty cfg); [apply clean_thr_keys_nodup | auto]. Qed.

  Lemma merged_keep thr C P : x_remove_empty cfg = false -> merged_profile fa cfg thr C P = P.
  Proof. unfold merged_profile. intros ->. reflexivity. Qed.

  (** with enough fuel no entry without candidates is left *)
  Lemma gone_names_nil thr C P :
    gone_names fa cfg thr C P = [] -> forall ce, In ce P -> class_empty fa cfg thr C ce = false.
  Proof.
    unfold gone_names. intros H ce Hce. destruct (class_empty fa cfg thr C ce) eqn:E; [|reflexivity]. exfalso.
    assert (Hin : In ce (filter (class_empty fa cfg thr C) P)) by (apply filter_In; auto).
    destruct (filter (class_empty fa cfg thr C) P); [destruct Hin | discriminate H].
  Qed.

  Lemma drop_names_shorter thr C P :
    gone_names fa cfg thr C P <> [] ->
    (List.length (drop_names cfg (gone_names fa cfg thr C P) P) < List.length P)%nat.
  Proof.
    intros Hne. unfold drop_names. rewrite map_length.
    assert (Hex : exists ce, In ce P /\ class_empty fa cfg thr C ce = true).
    { unfold gone_names in Hne. destruct (filter (class_empty fa cfg thr C) P) as [|ce l] eqn:E; [contradiction|].
      exists ce. apply filter_In. rewrite E. left; reflexivity. }
    destruct Hex as (ce & Hce & He).
    set (names := gone_names fa cfg thr C P).
    assert (Hout : negb (mem_str (shape_name (x_shapes_ns cfg) (fst ce)) names) = false).
    { apply negb_false_iff. apply mem_str_In. unfold names, gone_names. apply in_map_iff. exists ce. split; [reflexivity|].
      apply filter_In. auto. }
    apply (filter_len_lt _ P ce Hce Hout).
  Qed.

  Lemma clean_thr_nonempty thr C : forall fuel P, (List.length P < fuel)%nat ->
    forall ce, In ce (clean_thr fa cfg fuel thr C P) -> class_empty fa cfg thr C ce = false.
  Proof.
    induction fuel as [|f IH]; intros P Hl ce Hce; [lia|]. cbn [clean_thr] in Hce.
    destruct (gone_names fa cfg thr C P) as [|nm names] eqn:E; [apply (gone_names_nil thr C P E ce Hce)|].
    apply (IH (drop_names cfg (nm :: names) P)); [|exact Hce].
    assert (Hne : gone_names fa cfg thr C P <> []) by (rewrite E; discriminate).
    pose proof (drop_names_shorter thr C P Hne) as Hs. rewrite E in Hs. lia.
  Qed.
End Fix.

(** ** the interface of the stage, whichever order the code has *)
From Shexer Require Proofs.EndToEnd2.

Lemma fig_src_mono pd pd' p ty n pr c0 :
  (forall k ck m, pd_entry pd p k ck m -> pd_entry pd' p k ck m) ->
  fig_src pd p ty n pr c0 -> fig_src pd' p ty n pr c0.
Proof.
  intros Hs H. destruct H as [k ck m He | ckb nb cki ni Hb Hi]; [apply FS_entry, Hs, He|].
  apply FS_merge; apply Hs; assumption.
Qed.

Lemma comment_okR_impl cfg (R R' : str -> N -> prob -> card -> Prop) k :
  (forall ty n pr c0, R ty n pr c0 -> R' ty n pr c0) -> comment_okR cfg R k -> comment_okR cfg R' k.
Proof. intros HR. destruct k as [ch pr n tk c0|]; cbn; [|auto]. intros (ty & Hf & Ht). exists ty. auto. Qed.

Lemma post_okR_impl cfg (R R' : str -> N -> prob -> card -> Prop) t :
  (forall ty n pr c0, R ty n pr c0 -> R' ty n pr c0) -> post_okR cfg R t -> post_okR cfg R' t.
Proof.
  intros HR (ty & pr0 & c0 & H1 & H2 & H3 & H4 & H5). exists ty, pr0, c0.
  split; [exact H1|]. split; [exact H2|]. split; [apply HR; exact H3|]. split; [|exact H5].
  eapply Forall_impl; [|exact H4]. intros k. apply comment_okR_impl. exact HR.
Qed.

Section Stage.
  Variable fa : FreqAlg.
  Variable cfg : scfg.

  Let cfg0 := keep_cfg cfg.

  Lemma key_passes_sub thr cnt ce' ce inv p vc :
    entry_sub cfg ce' ce -> key_passes fa cfg thr cnt (class_pd cfg ce' inv) p vc ->
    key_passes fa cfg thr cnt (class_pd cfg ce inv) p vc.
  Proof. intros [_ Hs] (k & ck & n & He & Hv & Hf). exists k, ck, n. split; [apply Hs, He | auto]. Qed.

  Lemma pd_no_nl_sub ce' ce inv : entry_sub cfg ce' ce -> pd_no_nl cfg (class_pd cfg ce inv) -> pd_no_nl cfg (class_pd cfg ce' inv).
  Proof. intros [_ Hs] H p k ck n He. apply (H p k ck n). apply Hs, He. Qed.

  (** C01: every figure of the output is a figure of the profile *)
  Theorem stage_K3 thr P C shapes :
    shex_cur fa cfg thr P C = inl shapes -> forall sh, In sh shapes ->
    exists ce, In ce P /\ sh_name sh = shape_name (x_shapes_ns cfg) (fst ce) /\ sh_class sh = fst ce /\
      sh_n sh = cnt_of C (fst ce) /\
      forall st, In st (sh_stmts sh) ->
        post_okR cfg (fig_src (class_pd cfg ce (s_inv st)) (s_prop st)) st.
  Proof.
    unfold shex_cur. destruct c_clean_before_merge; intros H sh Hsh.
    - unfold shex_f in H. destruct (K3 fa cfg0 thr _ C shapes H sh Hsh) as (ce' & Hce' & E1 & E2 & E3 & Hst).
      destruct (merged_sub fa cfg thr C P ce' Hce') as (ce & Hce & Hsub).
      exists ce. split; [exact Hce|]. destruct Hsub as [Ef Hs]. rewrite <- Ef.
      split; [exact E1|]. split; [exact E2|]. split; [exact E3|].
      intros st Hin. specialize (Hst st Hin).
      apply (post_ok_R cfg0 _ (fig_src (class_pd cfg ce (s_inv st)) (s_prop st))) in Hst.
      + exact Hst.
      + intros ty n pr c0 Hf. eapply fig_src_mono; [|exact Hf]. intros k ck m. apply Hs.
    - destruct (K3 fa cfg thr P C shapes H sh Hsh) as (ce & Hce & E1 & E2 & E3 & Hst).
      exists ce. repeat (split; [assumption|]). intros st Hin.
      apply (post_ok_R cfg _ _ st (fun ty n pr c0 Hf => Hf)). apply Hst, Hin.
  Qed.

  (** a class with a candidate keeps a statement *)
  Lemma nonempty_class thr C ce sh :
    class_empty fa cfg thr C ce = false ->
    (forall inv p vc, In (inv, p, vc) (map (skey cfg0) (sh_stmts sh)) <->
                      key_passes fa cfg0 thr (cnt_of C (fst ce)) (class_pd cfg0 ce inv) p vc) ->
    sh_stmts sh <> [].
  Proof.
    intros He Hk Hnil. unfold class_empty, class_candidates in He.
    assert (Hex : exists inv st, In st (base_statements fa thr (cnt_in C (fst ce)) inv (class_pd cfg ce inv))).
    { unfold class_pd. destruct (base_statements fa thr (cnt_in C (fst ce)) false (c_direct (snd ce))) as [|s l] eqn:E1.
      - cbn [app] in He. destruct (x_inverse cfg); [|discriminate].
        destruct (base_statements fa thr (cnt_in C (fst ce)) true (c_inverse (snd ce))) as [|s l] eqn:E2; [discriminate|].
        exists true, s. rewrite E2. left; reflexivity.
      - exists false, s. rewrite E1. left; reflexivity. }
    destruct Hex as (inv & st & Hin). apply base_statements_spec in Hin. destruct Hin as (p & k & ck & n & Hpe & Hf & _).
    assert (Hp : key_passes fa cfg0 thr (cnt_of C (fst ce)) (class_pd cfg0 ce inv) p (value_class (x_tau cfg0) p [k])).
    { exists k, ck, n. split; [exact Hpe|]. split; [reflexivity | exact Hf]. }
    apply Hk in Hp. rewrite Hnil in Hp. destruct Hp.
  Qed.

  (** C02: a key that is present passes (both orders); no key twice *)
  Theorem stage_keys_sound thr P C shapes :
    shex_cur fa cfg thr P C = inl shapes -> forall sh, In sh shapes ->
    exists ce, In ce P /\ sh_class sh = fst ce /\ sh_n sh = cnt_of C (fst ce) /\
      (x_remove_empty cfg = true -> sh_stmts sh <> []) /\
      (forall inv p vc, In (inv, p, vc) (map (skey cfg) (sh_stmts sh)) ->
                        key_passes fa cfg thr (cnt_of C (fst ce)) (class_pd cfg ce inv) p vc) /\
      (pd_no_nl cfg (class_pd cfg ce false) -> pd_no_nl cfg (class_pd cfg ce true) -> NoDup (map (skey cfg) (sh_stmts sh))).
  Proof.
    unfold shex_cur. destruct c_clean_before_merge; intros H sh Hsh.
    - unfold shex_f in H. pose proof (K1 fa cfg0 thr _ C shapes eq_refl H) as F.
      destruct (Forall2_In_r _ _ _ _ F Hsh) as (ce' & Hce' & _ & E2 & E3 & Hk & Hn).
      destruct (merged_sub fa cfg thr C P ce' Hce') as (ce & Hce & Hsub). pose proof Hsub as [Ef Hs].
      exists ce. split; [exact Hce|]. rewrite <- Ef. split; [exact E2|]. split; [exact E3|]. split; [|split].
      + intros Hre. apply (nonempty_class thr C ce' sh); [|exact Hk].
        unfold merged_profile in Hce'. rewrite Hre in Hce'.
        apply (clean_thr_nonempty fa cfg thr C (S (List.length P)) P (Nat.lt_succ_diag_r _) ce' Hce').
      + intros inv p vc Hin. apply (key_passes_sub thr _ ce' ce inv p vc Hsub). apply Hk. exact Hin.
      + intros N1 N2. apply Hn.
        * change (pd_no_nl cfg (class_pd cfg ce' false)). apply (pd_no_nl_sub ce' ce false Hsub N1).
        * change (pd_no_nl cfg (class_pd cfg ce' true)). apply (pd_no_nl_sub ce' ce true Hsub N2).
    - destruct (x_remove_empty cfg) eqn:Hre.
      + destruct (K1_remove fa cfg thr P C shapes Hre H sh Hsh) as (ce & Hce & _ & E2 & E3 & Hne & Hk & Hn).
        exists ce. repeat (split; [assumption|]). split; [intros _; exact Hne|]. split; assumption.
      + pose proof (K1 fa cfg thr P C shapes Hre H) as F.
        destruct (Forall2_In_r _ _ _ _ F Hsh) as (ce & Hce & _ & E2 & E3 & Hk & Hn).
        exists ce. repeat (split; [assumption|]). split; [discriminate|]. split; [intros inv p vc; apply Hk | exact Hn].
  Qed.

  (** C02 without remove_empty_shapes: keys iff threshold (both orders) *)
  Theorem stage_K1 thr P C shapes :
    x_remove_empty cfg = false -> shex_cur fa cfg thr P C = inl shapes ->
    Forall2 (fun ce sh =>
      sh_name sh = shape_name (x_shapes_ns cfg) (fst ce) /\ sh_class sh = fst ce /\
      sh_n sh = cnt_of C (fst ce) /\
      (forall inv p vc, In (inv, p, vc) (map (skey cfg) (sh_stmts sh)) <->
                        key_passes fa cfg thr (cnt_of C (fst ce)) (class_pd cfg ce inv) p vc) /\
      (pd_no_nl cfg (class_pd cfg ce false) -> pd_no_nl cfg (class_pd cfg ce true) -> NoDup (map (skey cfg) (sh_stmts sh))))
      P shapes.
  Proof.
    unfold shex_cur. destruct c_clean_before_merge; intros Hre H.
    - unfold shex_f in H. rewrite (merged_keep fa cfg thr C P Hre) in H.
      exact (K1 fa cfg0 thr P C shapes eq_refl H).
    - exact (K1 fa cfg thr P C shapes Hre H).
  Qed.

  (** the classes of the output shapes *)
  Theorem stage_classes thr P C shapes :
    shex_cur fa cfg thr P C = inl shapes ->
    (NoDup (dkeys P) -> NoDup (map sh_class shapes)) /\
    (x_remove_empty cfg = false -> map sh_class shapes = dkeys P).
  Proof.
    unfold shex_cur. destruct c_clean_before_merge; intros H.
    - unfold shex_f in H. destruct (shex_classes fa cfg0 thr _ C shapes H) as [A B]. split.
      + intros Hn. apply A. apply merged_keys_nodup. exact Hn.
      + intros Hre. rewrite (B eq_refl). rewrite (merged_keep fa cfg thr C P Hre). reflexivity.
    - apply (shex_classes fa cfg thr P C shapes H).
  Qed.

  (** C04: the stage is total on renderable profiles -- in the new order whatever the
      options, in the old one with disjunctions disabled or empty shapes kept *)
  Theorem stage_total thr P C :
    c_clean_before_merge = true \/ x_disable_or cfg = true \/ x_remove_empty cfg = false ->
    (forall ce, In ce P -> tokens_ok cfg ce) ->
    exists shapes, shex_cur fa cfg thr P C = inl shapes.
  Proof.
    unfold shex_cur. destruct c_clean_before_merge; intros Hopt Hok.
    - unfold shex_f. apply (ShexKeys.shex_total fa cfg0 thr _ C eq_refl).
      intros ce' Hce'. destruct (merged_sub fa cfg thr C P ce' Hce') as (ce & Hce & [_ Hs]).
      intros d p k ck n He. apply (Hok ce Hce d p k ck n). apply Hs. exact He.
    - destruct Hopt as [Hf|Hopt]; [discriminate Hf|]. apply (EndToEnd2.shex_total_either fa cfg thr P C Hopt Hok).
  Qed.

  (** C12 without remove_empty_shapes (both orders) *)
  Theorem stage_mono (okF : F fa -> Prop) (okN : N -> Prop) :
    (forall n d, okN d -> okF (ratio fa n d)) ->
    (forall a b c, okF a -> okF b -> okF c -> fle fa a b = true -> fle fa b c = true -> fle fa a c = true) ->
    forall thr1 thr2 P C s1 s2,
    x_remove_empty cfg = false -> okF thr1 -> okF thr2 -> counts_ok cfg okN P C -> fle fa thr1 thr2 = true ->
    shex_cur fa cfg thr1 P C = inl s1 -> shex_cur fa cfg thr2 P C = inl s2 ->
    Forall2 (fun sh1 sh2 =>
      sh_name sh1 = sh_name sh2 /\ sh_class sh1 = sh_class sh2 /\ sh_n sh1 = sh_n sh2 /\
      incl (map (skey cfg) (sh_stmts sh2)) (map (skey cfg) (sh_stmts sh1))) s1 s2.
  Proof.
    intros Hw Ht thr1 thr2 P C s1 s2 Hre W1 W2 Hc Hle. unfold shex_cur. destruct c_clean_before_merge; intros E1 E2.
    - unfold shex_f in E1, E2. rewrite (merged_keep fa cfg thr1 C P Hre) in E1. rewrite (merged_keep fa cfg thr2 C P Hre) in E2.
      exact (K2_keep fa cfg0 okF okN Hw Ht thr1 thr2 P C s1 s2 eq_refl W1 W2 Hc Hle E1 E2).
    - exact (K2_keep fa cfg okF okN Hw Ht thr1 thr2 P C s1 s2 Hre W1 W2 Hc Hle E1 E2).
  Qed.
End Stage.
