(** * The document readers behind the delivery channels.

    [Model/Channels.v] (C08) takes the N-Triples and the streaming Turtle
    document readers as Section variables [read_nt read_ttl : list str -> rd].
    Here the two reader models proved elsewhere -- [Model/NtReader.v] (C06) and
    [Model/TtlReader.v] (C07) -- are plugged in:

    A. [nt_reader allow]: C06's document loop [NtReader.run_lines] seen as a
       C08 reader; it is line-compositional and blank-silent for ALL lines, so
       C08's partition theorems hold for N-Triples with no hypothesis left.
    B. the pipeline depends on a literal only through its datatype
       ([run_shapes_erase_lex]).
    C. from the TEXT of an N-Triples / TSV document to the abstract graph.
    D. [ttl_reader]: C07's [process_lines] + end-of-input check as a C08
       reader; from the TEXT of a Turtle document to the abstract graph; the
       multi-file case is not compositional (prefix state).
    E. N-Triples against Turtle.

    Never imported by [Model/]. *)
From Coq Require Import List Ascii String ZArith NArith Bool Lia Arith Permutation.
From Shexer Require Import Lib.PyStr Lib.Dict Gen.Consts Spec.Rdf Model.Tracker Model.Profiler
     Model.Freq Model.Shexing Model.Run Model.RunCur Model.Channels Spec.ChannelSpec Proofs.ChannelProofs.
From Shexer Require Model.NtReader Spec.NtSyntax Spec.NtDom Proofs.NtProofs.
From Shexer Require Model.TtlReader Spec.TtlSyntax Spec.TtlDomain Proofs.TtlProofs Proofs.TtlCompose.
Import ListNotations.

(** ** A. the N-Triples reader of C06 as a reader of C08 *)

(** conversion of what [NtTriplesYielder] yields (C06's [term]) into C08's model objects *)
Definition nt_mterm (t : NtReader.term) : mterm :=
  match t with
  | NtReader.TIri s => MIri s
  | NtReader.TBn s => MBn s
  | NtReader.TLit c dt => MLit c dt
  end.

Definition nt_mtriple (x : NtReader.term * str * NtReader.term) : mtriple :=
  MT (nt_mterm (fst (fst x))) (snd (fst x)) (nt_mterm (snd x)).

(** abnormal outcomes.  [Channels.cerr] has no constructor for IndexError nor
    for non-termination; the encoding below is injective ([nt_abort_inj]), so
    no two different abnormal outcomes of the N-Triples reader are identified:
    ValueError and RuntimeError keep their names, IndexError is written
    [CEType] and a hang [CESource] (neither arises otherwise on a line
    channel whose dispatch succeeds; same convention for the Turtle reader
    below).  A hang of the real reader means that nothing is ever
    delivered: in [run_over_passes] it is [None], as an exception is. *)
Definition nt_abort (a : option NtReader.exn) : cerr :=
  match a with
  | Some NtReader.EValue => CEValue
  | Some NtReader.ERuntime => CERuntime
  | Some NtReader.EIndex => CEType
  | None => CESource
  end.

Lemma nt_abort_inj a b : nt_abort a = nt_abort b -> a = b.
Proof. destruct a as [[]|], b as [[]|]; cbn; intros H; try reflexivity; discriminate H. Qed.

Definition rd_of_doc (d : NtReader.doc_result) : rd :=
  match d with
  | NtReader.DocDone ys n => inl (Res (map nt_mtriple ys) (List.length ys) n)
  | NtReader.DocRaise _ _ e => inr (nt_abort (Some e))
  | NtReader.DocHang _ _ => inr (nt_abort None)
  end.

(** the reader: C06's document loop over the lines a line reader delivers *)
Definition nt_reader (allow : bool) (ls : list str) : rd :=
  rd_of_doc (NtReader.run_lines allow ls [] 0).

(** one line *)
Definition rd_of_nt_line (r : NtReader.line_result) : rd :=
  match r with
  | NtReader.LYield s p o => inl (Res [nt_mtriple (s, p, o)] 1 0)
  | NtReader.LError => inl (Res [] 0 1)
  | NtReader.LRaise e => inr (nt_abort (Some e))
  | NtReader.LHang => inr (nt_abort None)
  end.

Fixpoint nt_fold (allow : bool) (ls : list str) : rd :=
  match ls with
  | [] => inl res_nil
  | l :: ls' => rd_app (rd_of_nt_line (NtReader.process_line allow l)) (nt_fold allow ls')
  end.

Lemma res_eq a a' (b b' c c' : nat) : a = a' -> b = b' -> c = c' -> Res a b c = Res a' b' c'.
Proof. intros -> -> ->. reflexivity. Qed.

(** the accumulator form of the loop is the fold: the conversion commutes
    with the document loop *)
Lemma run_lines_fold allow ls : forall acc errs,
  rd_of_doc (NtReader.run_lines allow ls acc errs)
  = rd_app (inl (Res (map nt_mtriple (rev acc)) (List.length acc) errs)) (nt_fold allow ls).
Proof.
  induction ls as [|l ls IH]; intros acc errs.
  - cbn [NtReader.run_lines rd_of_doc nt_fold rd_app]. f_equal.
    apply res_eq; cbn; [rewrite app_nil_r; reflexivity | rewrite rev_length; lia | lia].
  - cbn [NtReader.run_lines nt_fold]. destruct (NtReader.process_line allow l) as [s p o| |e|]; cbn [rd_of_nt_line].
    + rewrite IH. destruct (nt_fold allow ls) as [y|e]; [|reflexivity].
      cbn [rd_app]. f_equal. apply res_eq; cbn.
      * rewrite map_app, <- app_assoc. reflexivity.
      * lia.
      * lia.
    + rewrite IH. destruct (nt_fold allow ls) as [y|e]; [|reflexivity].
      cbn [rd_app]. f_equal. apply res_eq; cbn; [reflexivity | lia | lia].
    + reflexivity.
    + reflexivity.
Qed.

Lemma nt_reader_fold allow ls : nt_reader allow ls = nt_fold allow ls.
Proof. unfold nt_reader. rewrite run_lines_fold. cbn [rev map List.length]. apply rd_app_nil_l. Qed.

Lemma nt_fold_app allow a b : nt_fold allow (a ++ b) = rd_app (nt_fold allow a) (nt_fold allow b).
Proof.
  induction a as [|l a IH]; cbn [app nt_fold].
  - rewrite rd_app_nil_l. reflexivity.
  - rewrite IH, rd_app_assoc. reflexivity.
Qed.

(** *** deliverable 1: the hypotheses of C08's partition theorems, for every line *)
Theorem nt_reader_compositional allow : line_compositional (nt_reader allow).
Proof.
  constructor.
  - reflexivity.
  - intros a b. rewrite !nt_reader_fold. apply nt_fold_app.
  - intros l l' H. rewrite !nt_reader_fold. cbn [nt_fold]. unfold NtReader.process_line. rewrite H. reflexivity.
Qed.

(** a blank line is a discarded line: [_look_for_tokens("")] returns no token,
    [len(tokens) != 3], [error_triples += 1]; no triple, no exception.  Hence
    [blanks_harmless] holds for every list of lines, with no side condition. *)
Theorem nt_reader_blank_silent allow : blank_silent (nt_reader allow).
Proof.
  intros l H. exists 1. rewrite nt_reader_fold. cbn [nt_fold]. unfold NtReader.process_line. rewrite H. reflexivity.
Qed.

Lemma nt_reader_blanks_harmless allow ls : blanks_harmless (nt_reader allow) ls.
Proof. left. apply nt_reader_blank_silent. Qed.

(** the raw-string line reader of C08 is the one of C06 *)
Lemma lines_raw_is_raw_string_lines doc : lines_raw doc = NtReader.raw_string_lines doc.
Proof. unfold lines_raw. rewrite raw_sep_is_LF. reflexivity. Qed.

(** ... so the N-Triples channel over a raw string is C06's [read_raw_string] *)
Lemma nt_chan_raw pyfloat read_ttl gunzip unxz unzip rdf_parse allow o doc :
  channel pyfloat (nt_reader allow) read_ttl gunzip unxz unzip rdf_parse o (Str "nt") None (SRaw doc)
  = rd_of_doc (NtReader.read_raw_string allow doc).
Proof.
  rewrite (chan_raw pyfloat (nt_reader allow) read_ttl gunzip unxz unzip rdf_parse o _ _ doc
                    (Fam_nt pyfloat (nt_reader allow))).
  rewrite lines_raw_is_raw_string_lines. reflexivity.
Qed.

(** the pipeline looks at the two streams only *)
Lemma run_over_passes_streams fa c thr (p q : rd * rd) :
  rd_stream (fst p) = rd_stream (fst q) -> rd_stream (snd p) = rd_stream (snd q) ->
  run_over_passes fa c thr p = run_over_passes fa c thr q.
Proof. intros H1 H2. unfold run_over_passes, graphs_of_passes. rewrite H1, H2. reflexivity. Qed.

Section NtChannels.
  Variable pyfloat : str -> option bool.
  Variable allow : bool.
  Variable read_ttl : list str -> rd.
  Variable gunzip unxz : str -> option str.
  Variable unzip : str -> option (list (str * str)).
  Variable rdf_parse : str -> str -> option (list rtriple).
  Variable fa : FreqAlg.

  Notation chan := (channel pyfloat (nt_reader allow) read_ttl gunzip unxz unzip rdf_parse).
  Notation passes1 := (passes pyfloat (nt_reader allow) read_ttl gunzip unxz unzip rdf_parse).
  Notation FAM := (Fam_nt pyfloat (nt_reader allow)).
  Notation LC := (nt_reader_compositional allow).
  Notation NT := (Str "nt").

  Theorem partition_invisible_nt_files o o' cm lss stored :
    cm_plain cm -> Forall (Forall line_ok) lss ->
    Forall2 (stored_as gunzip unxz cm) (map render_lines lss) stored ->
    rd_stream (chan o NT cm (SFiles stored)) = rd_stream (chan o' NT None (SRaw (render_lines (List.concat lss)))).
  Proof.
    intros. eapply partition_invisible_files; eauto using FAM, LC, nt_reader_blanks_harmless.
  Qed.

  Theorem partition_invisible_nt_file o o' cm ls st :
    cm_plain cm -> Forall line_ok ls -> stored_as gunzip unxz cm (render_lines ls) st ->
    rd_stream (chan o NT cm (SFile st)) = rd_stream (chan o' NT None (SRaw (render_lines ls))).
  Proof.
    intros. eapply partition_invisible_file; eauto using FAM, LC, nt_reader_blanks_harmless.
  Qed.

  Theorem partition_invisible_nt_zip o o' archive lss :
    Forall (Forall line_ok) lss -> archive_holds unzip archive lss ->
    rd_stream (chan o NT (Some c_ZIP) (SFile archive)) = rd_stream (chan o' NT None (SRaw (render_lines (List.concat lss)))).
  Proof.
    intros. eapply partition_invisible_zip; eauto using FAM, LC, nt_reader_blanks_harmless.
  Qed.

  Theorem partition_invisible_nt_zips o o' archives lsss :
    Forall (Forall (Forall line_ok)) lsss -> Forall2 (archive_holds unzip) archives lsss ->
    rd_stream (chan o NT (Some c_ZIP) (SFiles archives))
    = rd_stream (chan o' NT None (SRaw (render_lines (List.concat (List.concat lsss))))).
  Proof.
    intros. eapply partition_invisible_zips; eauto using FAM, LC, nt_reader_blanks_harmless.
  Qed.

  (** channel independence of the extraction, N-Triples, from the text: every
      partition of the lines into plain / gz / xz files, the members of a zip
      archive, several zip archives -- same outcome of the pipeline as the
      single raw string (a value, an error of the pipeline, or [None] when the
      reader aborts), whatever the lines are *)
  Theorem channel_independent_nt c thr (o1 o2 o1' o2' : porc) :
    (forall cm lss stored,
        cm_plain cm -> Forall (Forall line_ok) lss ->
        Forall2 (stored_as gunzip unxz cm) (map render_lines lss) stored ->
        run_over_passes fa c thr (passes1 o1 o2 NT cm (SFiles stored))
        = run_over_passes fa c thr (passes1 o1' o2' NT None (SRaw (render_lines (List.concat lss))))) /\
    (forall cm ls st,
        cm_plain cm -> Forall line_ok ls -> stored_as gunzip unxz cm (render_lines ls) st ->
        run_over_passes fa c thr (passes1 o1 o2 NT cm (SFile st))
        = run_over_passes fa c thr (passes1 o1' o2' NT None (SRaw (render_lines ls)))) /\
    (forall archive lss,
        Forall (Forall line_ok) lss -> archive_holds unzip archive lss ->
        run_over_passes fa c thr (passes1 o1 o2 NT (Some c_ZIP) (SFile archive))
        = run_over_passes fa c thr (passes1 o1' o2' NT None (SRaw (render_lines (List.concat lss))))) /\
    (forall archives lsss,
        Forall (Forall (Forall line_ok)) lsss -> Forall2 (archive_holds unzip) archives lsss ->
        run_over_passes fa c thr (passes1 o1 o2 NT (Some c_ZIP) (SFiles archives))
        = run_over_passes fa c thr (passes1 o1' o2' NT None (SRaw (render_lines (List.concat (List.concat lsss)))))).
  Proof.
    split; [|split; [|split]]; intros; apply run_over_passes_streams; unfold passes; cbn [fst snd].
    - apply partition_invisible_nt_files; assumption.
    - apply partition_invisible_nt_files; assumption.
    - apply partition_invisible_nt_file; assumption.
    - apply partition_invisible_nt_file; assumption.
    - apply partition_invisible_nt_zip; assumption.
    - apply partition_invisible_nt_zip; assumption.
    - apply partition_invisible_nt_zips; assumption.
    - apply partition_invisible_nt_zips; assumption.
  Qed.
End NtChannels.

(** ** B. the pipeline depends on a literal only through its datatype *)

Definition erase_lex := TtlSyntax.erase_lex.

Lemma erase_ts t : ts (erase_lex t) = ts t.
Proof. destruct t as [s p [n|c d]]; reflexivity. Qed.
Lemma erase_tp t : tp (erase_lex t) = tp t.
Proof. destruct t as [s p [n|c d]]; reflexivity. Qed.

Lemma relevant_erase tau m t : relevant tau m (erase_lex t) = relevant tau m t.
Proof. destruct t as [s p [n|c d]]; reflexivity. Qed.

Lemma annotate_erase d t : annotate d (erase_lex t) = annotate d t.
Proof. destruct t as [s p [n|c d']]; reflexivity. Qed.

Lemma track_plain_erase tau m g : forall d, track_plain tau m (map erase_lex g) d = track_plain tau m g d.
Proof.
  induction g as [|t g IH]; intros d; [reflexivity|]. cbn [map track_plain].
  rewrite relevant_erase, annotate_erase. destruct (relevant tau m t); [|apply IH].
  destruct (annotate d t); [apply IH | reflexivity].
Qed.

Lemma track_cap_erase tau m cap nt g : forall d st,
  track_cap tau m cap nt (map erase_lex g) d st = track_cap tau m cap nt g d st.
Proof.
  induction g as [|t g IH]; intros d st; [reflexivity|]. cbn [map track_cap].
  rewrite relevant_erase. destruct (relevant tau m t); [|apply IH].
  destruct t as [s p [n|c dt]].
  - change (erase_lex (T s p (ON n))) with (T s p (ON n)).
    destruct (cap_allows tau cap st (T s p (ON n))) as [[|]|]; [|apply IH|reflexivity].
    cbn [to ts]. destruct nt as [k|]; [|apply IH].
    match goal with |- context [if ?b then _ else _] => destruct b end; [reflexivity | apply IH].
  - change (erase_lex (T s p (OL c dt))) with (T s p (OL [] dt)).
    unfold cap_allows. cbn [tp to]. destruct (negb (str_eqb p tau)); reflexivity.
Qed.

Theorem track_erase_lex tau m cap g : track tau m cap (map erase_lex g) = track tau m cap g.
Proof.
  unfold track. destruct (cap <=? 0)%Z; [apply track_plain_erase | apply track_cap_erase].
Qed.

Lemma annotate_triple_erase tau inv I t : annotate_triple tau inv I (erase_lex t) = annotate_triple tau inv I t.
Proof. destruct t as [s p [n|c d]]; reflexivity. Qed.

Lemma annotate_all_erase tau inv g : forall I, annotate_all tau inv (map erase_lex g) I = annotate_all tau inv g I.
Proof.
  induction g as [|t g IH]; intros I; [reflexivity|]. cbn [map annotate_all].
  rewrite annotate_triple_erase. destruct (annotate_triple tau inv I t); [apply IH | reflexivity].
Qed.

Theorem profile_erase_lex c I g : profile c I (map erase_lex g) = profile c I g.
Proof. unfold profile. rewrite annotate_all_erase. reflexivity. Qed.

Section EraseRun.
  Variable fa : FreqAlg.

  Theorem run_shapes2_erase_lex c thr g1 g2 :
    run_shapes2 fa c thr (map erase_lex g1) (map erase_lex g2) = run_shapes2 fa c thr g1 g2.
  Proof.
    unfold run_shapes2. destruct (full_ns c) as [ns|]; [|reflexivity]. rewrite track_erase_lex.
    destruct (track _ _ _ g1) as [ins|e]; [|reflexivity]. rewrite profile_erase_lex. reflexivity.
  Qed.

  (** [run_shapes] -- hence [run_shexc], the whole ShExC text -- is the same
      for two graphs that differ in the lexical forms of their literals only *)
  Theorem run_shapes_erase_lex c thr g : run_shapes fa c thr (map erase_lex g) = run_shapes fa c thr g.
  Proof.
    unfold run_shapes. destruct (full_ns c) as [ns|]; [|reflexivity]. rewrite track_erase_lex.
    destruct (track _ _ _ g) as [ins|e]; [|reflexivity]. rewrite profile_erase_lex. reflexivity.
  Qed.

  (** the same with the shexing stage in the order the code has *)
  Theorem run_shapes_cur_erase_lex c thr g : run_shapes_cur fa c thr (map erase_lex g) = run_shapes_cur fa c thr g.
  Proof. exact (run_shapes2_erase_lex c thr g g). Qed.

  Corollary run_shapes_lex_congruence c thr g g' :
    map erase_lex g = map erase_lex g' -> run_shapes fa c thr g = run_shapes fa c thr g'.
  Proof. intros H. rewrite <- (run_shapes_erase_lex c thr g), H. apply run_shapes_erase_lex. Qed.

  Corollary run_shexc_erase_lex c thr g : run_shexc fa c thr (map erase_lex g) = run_shexc fa c thr g.
  Proof. unfold run_shexc. rewrite run_shapes_erase_lex. reflexivity. Qed.
End EraseRun.

Lemma erase_lex_idem t : erase_lex (erase_lex t) = erase_lex t.
Proof. destruct t as [s p [n|c d]]; reflexivity. Qed.

Lemma map_erase_lex_idem g : map erase_lex (map erase_lex g) = map erase_lex g.
Proof. rewrite map_map. apply map_ext. exact erase_lex_idem. Qed.

(** ** C. from the TEXT of an N-Triples document to the abstract graph *)

(** what an N-Triples statement denotes for the pipeline: C06's [kinded]
    (node kinds, IRIs, blank-node identifiers with their sigil, the datatype of
    a literal) written as a [Spec.Rdf.triple]; the lexical form is erased
    ([run_shapes_erase_lex]: the pipeline never looks at it) *)
Definition nt_node (n : NtSyntax.snode) : node :=
  match n with
  | NtSyntax.NIri s => Node KIri s
  | NtSyntax.NBn l => Node KBnode (Str "_:" ++ l)
  end.

Definition nt_obj (o : NtSyntax.sobj) : obj :=
  match o with
  | NtSyntax.ONode n => ON (nt_node n)
  | NtSyntax.OLit _ suf => OL [] (NtSyntax.dt_of suf)
  end.

Definition nt_triple (t : NtSyntax.striple) : triple :=
  T (nt_node (NtSyntax.t_s t)) (NtSyntax.t_p t) (nt_obj (NtSyntax.t_o t)).

Definition nt_graph (ts : list (NtSyntax.striple * NtSyntax.layout)) : graph :=
  map (fun x => nt_triple (fst x)) ts.

(** C06's observation type read as a triple *)
Definition node_of_k (k : NtSyntax.kterm) : option node :=
  match k with
  | NtSyntax.KIri s => Some (Node KIri s)
  | NtSyntax.KBn s => Some (Node KBnode s)
  | NtSyntax.KLit _ => None
  end.

Definition obj_of_k (k : NtSyntax.kterm) : obj :=
  match k with
  | NtSyntax.KIri s => ON (Node KIri s)
  | NtSyntax.KBn s => ON (Node KBnode s)
  | NtSyntax.KLit dt => OL [] dt
  end.

Definition triple_of_k (x : NtSyntax.kterm * str * NtSyntax.kterm) : option triple :=
  match node_of_k (fst (fst x)) with
  | Some s => Some (T s (snd (fst x)) (obj_of_k (snd x)))
  | None => None
  end.

(** [nt_triple] is [NtSyntax.kinded] *)
Lemma triple_of_kinded t : triple_of_k (NtSyntax.kinded t) = Some (nt_triple t).
Proof. destruct t as [[u|l] p [[u'|l']|lex suf]]; reflexivity. Qed.

(** the two conversions commute up to the lexical form: what C06 observes of a
    yielded triple ([k3]) determines the pipeline's triple up to [erase_lex] *)
Lemma k3_commutes x t :
  triple_of_k (NtProofs.k3 x) = Some t ->
  exists t', triple_of_m (nt_mtriple x) = Some t' /\ erase_lex t' = t.
Proof.
  destruct x as [[s p] o]. unfold NtProofs.k3, triple_of_k, nt_mtriple, triple_of_m. cbn [fst snd m_s m_p m_o].
  destruct s as [u|l|c d]; cbn [NtProofs.term_k node_of_k nt_mterm node_of_mterm]; intros H; try discriminate H;
    injection H as <-; destruct o as [u'|l'|c' d']; eexists; split; reflexivity.
Qed.

Lemma k3_list_commutes ys : forall ts,
  map NtProofs.k3 ys = map (fun x => NtSyntax.kinded (fst x)) ts ->
  exists G, graph_of_m (map nt_mtriple ys) = Some G /\ map erase_lex G = nt_graph ts.
Proof.
  induction ys as [|y ys IH]; intros [|x ts] H; try discriminate H.
  - exists []. split; reflexivity.
  - cbn [map] in H. injection H as Hy Hys.
    destruct (IH ts Hys) as (G & HG & HE).
    destruct (k3_commutes y (nt_triple (fst x))) as (t' & Ht & He).
    { rewrite Hy. apply triple_of_kinded. }
    exists (t' :: G). split.
    + cbn [map graph_of_m]. rewrite Ht, HG. reflexivity.
    + cbn [map nt_graph]. rewrite He. f_equal. exact HE.
Qed.

Definition nt_ok_case (x : NtSyntax.striple * NtSyntax.layout) : Prop :=
  NtSyntax.valid_triple (fst x) = true /\ NtSyntax.valid_layout (snd x) = true /\ NtDom.C06_dom (fst x) (snd x) = true.

(** C06's document theorem read at the channel: the raw-string channel
    delivers a stream denoting [nt_graph ts] up to lexical forms *)
Lemma nt_raw_stream pyfloat read_ttl gunzip unxz unzip rdf_parse allow o ts :
  Forall nt_ok_case ts ->
  exists ms G,
    rd_stream (channel pyfloat (nt_reader allow) read_ttl gunzip unxz unzip rdf_parse o (Str "nt") None
                       (SRaw (NtSyntax.nt_doc ts))) = inl ms /\
    graph_of_m ms = Some G /\ map erase_lex G = nt_graph ts.
Proof.
  intros H. pose proof (NtProofs.document_partial allow ts H) as K.
  rewrite nt_chan_raw. destruct (NtReader.read_raw_string allow (NtSyntax.nt_doc ts)) as [ys e|ys e x|ys e]; try discriminate K.
  cbn [NtProofs.kinded_result] in K. injection K as K _.
  destruct (k3_list_commutes ys ts K) as (G & HG & HE).
  exists (map nt_mtriple ys), G. split; [reflexivity | split; assumption].
Qed.

Lemma Forall_concat_inv {A} (P : A -> Prop) (l : list (list A)) : Forall P (List.concat l) -> Forall (Forall P) l.
Proof.
  induction l as [|x l IH]; intros H; [constructor|]. cbn [List.concat] in H. apply Forall_app in H.
  destruct H. constructor; auto.
Qed.

Lemma Forall_concat_inv2 {A} (P : A -> Prop) (l : list (list (list A))) :
  Forall P (List.concat (List.concat l)) -> Forall (Forall (Forall P)) l.
Proof. intros H. apply Forall_concat_inv in H. induction l as [|x l IH]; [constructor|].
  cbn [List.concat] in H. apply Forall_app in H. destruct H. constructor; [assumption | auto]. Qed.

Section NtText.
  Variable pyfloat : str -> option bool.
  Variable allow : bool.
  Variable read_ttl : list str -> rd.
  Variable gunzip unxz : str -> option str.
  Variable unzip : str -> option (list (str * str)).
  Variable rdf_parse : str -> str -> option (list rtriple).
  Variable fa : FreqAlg.

  Notation chan := (channel pyfloat (nt_reader allow) read_ttl gunzip unxz unzip rdf_parse).
  Notation passes1 := (passes pyfloat (nt_reader allow) read_ttl gunzip unxz unzip rdf_parse).

  (** *** deliverable 2: C06 ; C08 ; pipeline *)
  Theorem nt_text_to_graph c thr (o1 o2 : porc) ts :
    Forall nt_ok_case ts ->
    run_over_passes fa c thr (passes1 o1 o2 (Str "nt") None (SRaw (NtSyntax.nt_doc ts)))
    = Some (run_shapes_cur fa c thr (nt_graph ts)).
  Proof.
    intros H.
    destruct (nt_raw_stream pyfloat read_ttl gunzip unxz unzip rdf_parse allow o1 ts H) as (ms & G & H1 & HG & HE).
    destruct (nt_raw_stream pyfloat read_ttl gunzip unxz unzip rdf_parse allow o2 ts H) as (ms2 & G2 & H2 & HG2 & HE2).
    assert (ms2 = ms) as ->.
    { rewrite !nt_chan_raw in *. rewrite H1 in H2. injection H2 as ->. reflexivity. }
    unfold run_over_passes, graphs_of_passes, passes. cbn [fst snd]. rewrite H1, H2, HG.
    rewrite run_shapes2_same. f_equal. rewrite <- HE. symmetry. apply run_shapes_cur_erase_lex.
  Qed.

  (** the lines of the document, whatever the terminator convention *)
  Definition nt_lines (ts : list (NtSyntax.striple * NtSyntax.layout)) : list str :=
    map (fun x => NtSyntax.nt_line (fst x) (snd x)) ts.

  Lemma nt_lines_nonblank ts : filter nonblank (nt_lines ts) = nt_lines ts.
  Proof.
    apply NtProofs.filter_all. apply forallb_forall. intros ln I. apply in_map_iff in I.
    destruct I as ([t l] & <- & _). apply NtProofs.line_not_blank.
  Qed.

  Lemma nt_raw_lines_same o o' ts :
    Forall nt_ok_case ts -> Forall line_ok (nt_lines ts) ->
    chan o (Str "nt") None (SRaw (render_lines (nt_lines ts))) = chan o' (Str "nt") None (SRaw (NtSyntax.nt_doc ts)).
  Proof.
    intros H Hok.
    rewrite !(chan_raw pyfloat (nt_reader allow) read_ttl gunzip unxz unzip rdf_parse _ _ _ _ (Fam_nt pyfloat (nt_reader allow))).
    rewrite lines_raw_render by exact Hok. rewrite nt_lines_nonblank, lines_raw_is_raw_string_lines.
    rewrite (NtProofs.raw_lines_doc ts H). reflexivity.
  Qed.

  (** ... and over every partition of the document's lines into files /
      compressed files / zip members / zip archives *)
  Theorem nt_text_channel_independent c thr (o1 o2 : porc) ts :
    Forall nt_ok_case ts -> Forall line_ok (nt_lines ts) ->
    (forall cm lss stored,
        List.concat lss = nt_lines ts -> cm_plain cm ->
        Forall2 (stored_as gunzip unxz cm) (map render_lines lss) stored ->
        run_over_passes fa c thr (passes1 o1 o2 (Str "nt") cm (SFiles stored)) = Some (run_shapes_cur fa c thr (nt_graph ts))) /\
    (forall cm st,
        cm_plain cm -> stored_as gunzip unxz cm (render_lines (nt_lines ts)) st ->
        run_over_passes fa c thr (passes1 o1 o2 (Str "nt") cm (SFile st)) = Some (run_shapes_cur fa c thr (nt_graph ts))) /\
    (forall archive lss,
        List.concat lss = nt_lines ts -> archive_holds unzip archive lss ->
        run_over_passes fa c thr (passes1 o1 o2 (Str "nt") (Some c_ZIP) (SFile archive)) = Some (run_shapes_cur fa c thr (nt_graph ts))) /\
    (forall archives lsss,
        List.concat (List.concat lsss) = nt_lines ts -> Forall2 (archive_holds unzip) archives lsss ->
        run_over_passes fa c thr (passes1 o1 o2 (Str "nt") (Some c_ZIP) (SFiles archives)) = Some (run_shapes_cur fa c thr (nt_graph ts))).
  Proof.
    intros H Hok.
    assert (Hraw : run_over_passes fa c thr (passes1 o1 o2 (Str "nt") None (SRaw (render_lines (nt_lines ts))))
                   = Some (run_shapes_cur fa c thr (nt_graph ts))).
    { rewrite <- (nt_text_to_graph c thr o1 o2 ts H). unfold passes.
      rewrite (nt_raw_lines_same o1 o1 ts H Hok), (nt_raw_lines_same o2 o2 ts H Hok). reflexivity. }
    destruct (channel_independent_nt pyfloat allow read_ttl gunzip unxz unzip rdf_parse fa c thr o1 o2 o1 o2)
      as (A & B & C & D).
    split; [|split; [|split]].
    - intros cm lss stored Hc Hcm Hst. rewrite (A cm lss stored Hcm); [rewrite Hc; exact Hraw | | exact Hst].
      apply Forall_concat_inv. rewrite Hc. exact Hok.
    - intros cm st Hcm Hst. rewrite (B cm _ st Hcm Hok Hst). exact Hraw.
    - intros archive lss Hc Ha. rewrite (C archive lss); [rewrite Hc; exact Hraw | | exact Ha].
      apply Forall_concat_inv. rewrite Hc. exact Hok.
    - intros archives lsss Hc Ha. rewrite (D archives lsss); [rewrite Hc; exact Hraw | | exact Ha].
      apply Forall_concat_inv2. rewrite Hc. exact Hok.
  Qed.

  (** the same from the text of a TSV_SPO document (reader modelled in C08):
      raw string and single file; the multi-file form is
      [ChannelProofs.tsv_channel_independent] *)
  Theorem tsv_text_to_graph read_nt c thr (o1 o2 : porc) g :
    tsv_dom g = true -> Forall line_ok (map tsv_line_of g) ->
    run_over_passes fa c thr (passes pyfloat read_nt read_ttl gunzip unxz unzip rdf_parse o1 o2 (Str "tsv_spo") None (SRaw (tsv_doc g)))
    = Some (run_shapes_cur fa c thr (kinded g)).
  Proof.
    intros Hd Hok.
    destruct (tsv_channel_kinded pyfloat read_nt read_ttl gunzip unxz unzip rdf_parse o1 g Hd Hok) as [H1 HG].
    destruct (tsv_channel_kinded pyfloat read_nt read_ttl gunzip unxz unzip rdf_parse o2 g Hd Hok) as [H2 _].
    unfold run_over_passes, graphs_of_passes, passes. cbn [fst snd]. rewrite H1, H2, HG. reflexivity.
  Qed.

  Theorem tsv_file_to_graph read_nt c thr (o1 o2 : porc) cm g st :
    tsv_dom g = true -> Forall line_ok (map tsv_line_of g) -> cm_plain cm ->
    stored_as gunzip unxz cm (tsv_doc g) st ->
    run_over_passes fa c thr (passes pyfloat read_nt read_ttl gunzip unxz unzip rdf_parse o1 o2 (Str "tsv_spo") cm (SFile st))
    = Some (run_shapes_cur fa c thr (kinded g)).
  Proof.
    intros Hd Hok Hcm Hst. rewrite <- (tsv_text_to_graph read_nt c thr o1 o2 g Hd Hok).
    apply run_over_passes_streams; unfold passes; cbn [fst snd];
      apply (partition_invisible_file pyfloat read_nt read_ttl gunzip unxz unzip rdf_parse _ _ _ _ cm _ st
               (Fam_tsv pyfloat read_nt) (read_tsv_compositional pyfloat) (or_introl (read_tsv_blank_silent pyfloat)) Hcm Hok Hst).
  Qed.
End NtText.

(** ** D. the streaming Turtle reader of C07 as a reader of C08 *)

Definition ttl_mnode (n : node) : mterm :=
  match nk n with KIri => MIri (nid n) | KBnode => MBn (nid n) end.

Definition ttl_mobj (o : obj) : mterm :=
  match o with ON n => ttl_mnode n | OL c dt => MLit c dt end.

Definition ttl_mtriple (t : triple) : mtriple := MT (ttl_mnode (ts t)) (tp t) (ttl_mobj (to t)).

(** injective encoding of the reader's abnormal outcomes (see [nt_abort]) *)
Definition ttl_abort (e : TtlReader.terr) : cerr :=
  match e with
  | TtlReader.TEValue => CEValue
  | TtlReader.TEIndex => CEType
  | TtlReader.TEAttr => CEAttr
  | TtlReader.TERuntime => CERuntime
  | TtlReader.TEHang => CESource
  | TtlReader.TEUnmodelled => CECodec
  end.

Lemma ttl_abort_inj a b : ttl_abort a = ttl_abort b -> a = b.
Proof. destruct a, b; cbn; intros H; try reflexivity; discriminate H. Qed.

(** [error_triples] stays 0 in [BigTtlTriplesYielder] ([_process_unknown_line] is never reached) *)
Definition rd_of_ttl (r : list triple * TtlReader.res TtlReader.st) : rd :=
  match r with
  | (ts, TtlReader.Ok _) => inl (Res (map ttl_mtriple ts) (List.length ts) 0)
  | (_, TtlReader.Err e) => inr (ttl_abort e)
  end.

(** the reader over the lines a line reader delivers: C07's line loop from the
    initial state, then the end-of-input check.  One yielder = one fresh state. *)
Definition ttl_reader (ls : list str) : rd :=
  rd_of_ttl (TtlReader.end_check (TtlReader.process_lines ls TtlReader.st0)).

Lemma triple_of_ttl_m t : triple_of_m (ttl_mtriple t) = Some t.
Proof. destruct t as [[[] i] p [[[] i']|c d]]; reflexivity. Qed.

Lemma graph_of_ttl_m ts : graph_of_m (map ttl_mtriple ts) = Some ts.
Proof. induction ts as [|t ts IH]; [reflexivity|]. cbn [map graph_of_m]. rewrite triple_of_ttl_m, IH. reflexivity. Qed.

(** the raw-string line reader of C08 is the one of C07 *)
Lemma lines_raw_is_doc_lines doc : lines_raw doc = TtlReader.doc_lines doc.
Proof.
  unfold lines_raw, TtlReader.doc_lines. rewrite raw_sep_is_LF. apply filter_ext.
  intros l. unfold nonblank. destruct (strip l); reflexivity.
Qed.

Definition TTL : str := Str "turtle_iter".

Lemma ttl_chan_raw pyfloat read_nt gunzip unxz unzip rdf_parse o doc :
  channel pyfloat read_nt ttl_reader gunzip unxz unzip rdf_parse o TTL None (SRaw doc)
  = rd_of_ttl (TtlReader.read_ttl doc).
Proof.
  unfold channel. cbn [kind_of].
  change (dispatch TTL None KRaw) with (@inl ydesc cerr (YPlain (Str "BigTtlTriplesYielder"))). cbv beta iota.
  change (run_yielder pyfloat read_nt ttl_reader gunzip unxz unzip rdf_parse o TTL None (SRaw doc)
                      (YPlain (Str "BigTtlTriplesYielder")))
    with (ttl_reader (lines_raw doc)).
  rewrite lines_raw_is_doc_lines. reflexivity.
Qed.

(** *** a line terminator does not show: [_clean_line] turns it into a blank and strips *)

Lemma sub_other_blanks_nl l : TtlReader.sub_other_blanks (nl l) = TtlReader.sub_other_blanks l ++ [ttl_blank].
Proof. unfold nl, TtlReader.sub_other_blanks. rewrite map_app. reflexivity. Qed.

Lemma collapse_snoc x :
  TtlReader.collapse_blanks (x ++ [ttl_blank]) = TtlReader.collapse_blanks x \/
  TtlReader.collapse_blanks (x ++ [ttl_blank]) = TtlReader.collapse_blanks x ++ [ttl_blank].
Proof.
  induction x as [|c x IH]; [right; reflexivity|].
  cbn [app TtlReader.collapse_blanks]. destruct (TtlReader.chr_eqb c ttl_blank) eqn:E.
  - destruct x as [|d x'].
    + left. cbn [app]. change (TtlReader.chr_eqb ttl_blank ttl_blank) with true. cbv iota.
      apply Ascii.eqb_eq in E. subst c. reflexivity.
    + cbn [app] in IH |- *. destruct (TtlReader.chr_eqb d ttl_blank).
      * exact IH.
      * destruct IH as [-> | ->]; [left | right]; reflexivity.
  - destruct IH as [-> | ->]; [left | right]; reflexivity.
Qed.

Lemma clean_line_nl l : TtlReader.clean_line (nl l) = TtlReader.clean_line l.
Proof.
  unfold TtlReader.clean_line. rewrite sub_other_blanks_nl.
  assert (strip (TtlReader.collapse_blanks (TtlReader.sub_other_blanks l ++ [ttl_blank]))
          = strip (TtlReader.collapse_blanks (TtlReader.sub_other_blanks l))) as ->; [|reflexivity].
  destruct (collapse_snoc (TtlReader.sub_other_blanks l)) as [-> | ->]; [reflexivity|].
  apply strip_snoc_space. reflexivity.
Qed.

Lemma ttl_process_line_nl l s : TtlReader.process_line (nl l) s = TtlReader.process_line l s.
Proof. unfold TtlReader.process_line. rewrite clean_line_nl. reflexivity. Qed.

Lemma ttl_process_lines_nl ls : forall s,
  TtlReader.process_lines (map nl ls) s = TtlReader.process_lines ls s.
Proof.
  induction ls as [|l ls IH]; intros s; [reflexivity|]. cbn [map TtlReader.process_lines].
  rewrite ttl_process_line_nl. destruct (TtlReader.process_line l s) as [ts [s'|e]]; [|reflexivity].
  rewrite IH. reflexivity.
Qed.

(** blank lines are skipped without touching the state ([TtlCompose.blank_raw_line]) *)
Lemma ttl_process_lines_nonblank ls s :
  TtlReader.process_lines (filter nonblank ls) s = TtlReader.process_lines ls s.
Proof.
  rewrite <- (TtlCompose.process_lines_filter ls s). f_equal. apply filter_ext.
  intros l. unfold nonblank, TtlCompose.keep_line. destruct (strip l); reflexivity.
Qed.

Lemma ttl_reader_nl_filter ls : ttl_reader (map nl ls) = ttl_reader (filter nonblank ls).
Proof. unfold ttl_reader. rewrite ttl_process_lines_nl, ttl_process_lines_nonblank. reflexivity. Qed.

Section TtlChannels.
  Variable pyfloat : str -> option bool.
  Variable read_nt : list str -> rd.
  Variable gunzip unxz : str -> option str.
  Variable unzip : str -> option (list (str * str)).
  Variable rdf_parse : str -> str -> option (list rtriple).
  Variable fa : FreqAlg.

  Notation chan := (channel pyfloat read_nt ttl_reader gunzip unxz unzip rdf_parse).
  Notation passes1 := (passes pyfloat read_nt ttl_reader gunzip unxz unzip rdf_parse).

  Lemma ttl_chan_file o cm st :
    cm_plain cm -> chan o TTL cm (SFile st) = with_lines ttl_reader (lines_of gunzip unxz false cm st).
  Proof. intros [-> | [-> | ->]]; reflexivity. Qed.

  (** a single file, plain or gz / xz compressed, holding complete lines, is
      read as the raw string (triples AND counters) *)
  Theorem ttl_file_is_raw o o' cm ls st :
    cm_plain cm -> Forall line_ok ls -> stored_as gunzip unxz cm (render_lines ls) st ->
    chan o TTL cm (SFile st) = chan o' TTL None (SRaw (render_lines ls)).
  Proof.
    intros Hcm Hok Hst. rewrite (ttl_chan_file o cm st Hcm), (lines_of_stored gunzip unxz cm ls st Hok Hst).
    cbn [with_lines]. rewrite ttl_reader_nl_filter.
    unfold channel. cbn [kind_of].
    change (dispatch TTL None KRaw) with (@inl ydesc cerr (YPlain (Str "BigTtlTriplesYielder"))). cbv beta iota.
    change (run_yielder pyfloat read_nt ttl_reader gunzip unxz unzip rdf_parse o' TTL None (SRaw (render_lines ls))
                        (YPlain (Str "BigTtlTriplesYielder")))
      with (ttl_reader (lines_raw (render_lines ls))).
    rewrite lines_raw_render by exact Hok. reflexivity.
  Qed.

  (** C07 read at the channel: the raw-string channel over the text of a
      laid-out document of [C07_dom] delivers its triples up to lexical forms *)
  Lemma ttl_raw_stream o ls d ts :
    TtlSyntax.lays_out ls d -> TtlDomain.C07_dom ls d = true -> TtlSyntax.sem d = Some ts ->
    exists ts', chan o TTL None (SRaw (TtlSyntax.render_doc ls)) = inl (Res (map ttl_mtriple ts') (List.length ts') 0) /\
                map erase_lex ts' = map erase_lex ts.
  Proof.
    intros Hl Hd Hs. destruct (TtlCompose.reader_correct ls d ts Hl Hd Hs) as (s' & ts' & HR & HE & _).
    exists ts'. split; [|exact HE]. rewrite ttl_chan_raw, HR. reflexivity.
  Qed.

  (** *** deliverable 3: C07 ; C08 ; pipeline, single raw string *)
  Theorem turtle_iter_text_to_graph c thr (o1 o2 : porc) ls d ts :
    TtlSyntax.lays_out ls d -> TtlDomain.C07_dom ls d = true -> TtlSyntax.sem d = Some ts ->
    run_over_passes fa c thr (passes1 o1 o2 TTL None (SRaw (TtlSyntax.render_doc ls)))
    = Some (run_shapes_cur fa c thr ts).
  Proof.
    intros Hl Hd Hs.
    destruct (ttl_raw_stream o1 ls d ts Hl Hd Hs) as (t1 & H1 & E1).
    destruct (ttl_raw_stream o2 ls d ts Hl Hd Hs) as (t2 & H2 & E2).
    unfold run_over_passes, graphs_of_passes, passes. cbn [fst snd]. rewrite H1, H2. cbn [rd_stream r_triples].
    rewrite !graph_of_ttl_m.
    rewrite <- (run_shapes2_erase_lex fa c thr t1 t2), E1, E2, run_shapes2_erase_lex. reflexivity.
  Qed.

  (** the text of the document with every physical line terminated *)
  Definition ttl_text_lines (ls : list TtlSyntax.line) : list str := map TtlSyntax.render_line ls.

  Lemma ttl_raw_terminated o o' ls d :
    TtlSyntax.lays_out ls d -> Forall line_ok (ttl_text_lines ls) ->
    chan o TTL None (SRaw (render_lines (ttl_text_lines ls))) = chan o' TTL None (SRaw (TtlSyntax.render_doc ls)).
  Proof.
    intros Hl Hok. rewrite (ttl_chan_raw pyfloat read_nt gunzip unxz unzip rdf_parse o' (TtlSyntax.render_doc ls)).
    unfold TtlReader.read_ttl. rewrite (TtlCompose.doc_lines_render ls d _ Hl).
    unfold channel. cbn [kind_of].
    change (dispatch TTL None KRaw) with (@inl ydesc cerr (YPlain (Str "BigTtlTriplesYielder"))). cbv beta iota.
    change (run_yielder pyfloat read_nt ttl_reader gunzip unxz unzip rdf_parse o TTL None (SRaw (render_lines (ttl_text_lines ls)))
                        (YPlain (Str "BigTtlTriplesYielder")))
      with (ttl_reader (lines_raw (render_lines (ttl_text_lines ls)))).
    rewrite lines_raw_render by exact Hok. unfold ttl_reader. rewrite ttl_process_lines_nonblank. reflexivity.
  Qed.

  (** ... and a single file, plain or gz / xz compressed *)
  Theorem turtle_iter_file_to_graph c thr (o1 o2 : porc) cm ls d ts st :
    TtlSyntax.lays_out ls d -> TtlDomain.C07_dom ls d = true -> TtlSyntax.sem d = Some ts ->
    cm_plain cm -> Forall line_ok (ttl_text_lines ls) ->
    stored_as gunzip unxz cm (render_lines (ttl_text_lines ls)) st ->
    run_over_passes fa c thr (passes1 o1 o2 TTL cm (SFile st)) = Some (run_shapes_cur fa c thr ts).
  Proof.
    intros Hl Hd Hs Hcm Hok Hst. rewrite <- (turtle_iter_text_to_graph c thr o1 o2 ls d ts Hl Hd Hs).
    unfold passes.
    rewrite (ttl_file_is_raw o1 o1 cm _ st Hcm Hok Hst), (ttl_file_is_raw o2 o2 cm _ st Hcm Hok Hst).
    rewrite (ttl_raw_terminated o1 o1 ls d Hl Hok), (ttl_raw_terminated o2 o2 ls d Hl Hok). reflexivity.
  Qed.
End TtlChannels.

(** *** several Turtle files: NOT a partition of one document.

    [MultiBigTtlTriplesYielder] builds one fresh [BigTtlTriplesYielder] per
    file: prefixes, base and an open statement do not carry over, and the
    end-of-input check applies to every file.  What the multi-file channel
    delivers is the concatenation of the files read as documents of their own
    ([ttl_files_stream]); it differs from the single raw string as soon as a
    file relies on a directive of an earlier one ([ttl_partition_refuted]). *)
Section TtlFiles.
  Variable pyfloat : str -> option bool.
  Variable read_nt : list str -> rd.
  Variable gunzip unxz : str -> option str.
  Variable unzip : str -> option (list (str * str)).
  Variable rdf_parse : str -> str -> option (list rtriple).

  Notation chan := (channel pyfloat read_nt ttl_reader gunzip unxz unzip rdf_parse).

  Lemma ttl_chan_files o cm stored :
    cm_plain cm ->
    chan o TTL cm (SFiles stored)
    = multi_from pyfloat read_nt ttl_reader gunzip unxz rdf_parse 0 (o 0) TTL (Str "BigTtlTriplesYielder") cm stored.
  Proof. intros [-> | [-> | ->]]; reflexivity. Qed.

  Lemma ttl_multi_from_stream i orcs cm files :
    rd_stream (multi_from pyfloat read_nt ttl_reader gunzip unxz rdf_parse i orcs TTL (Str "BigTtlTriplesYielder") cm files)
    = sconcat (map (fun st => rd_stream (with_lines ttl_reader (lines_of gunzip unxz false cm st))) files).
  Proof.
    revert i. induction files as [|f fs IH]; intros i; [reflexivity|].
    cbn [multi_from map sconcat fold_right]. rewrite rd_stream_app, IH. reflexivity.
  Qed.

  Theorem ttl_files_stream o cm lss stored :
    cm_plain cm -> Forall (Forall line_ok) lss ->
    Forall2 (stored_as gunzip unxz cm) (map render_lines lss) stored ->
    rd_stream (chan o TTL cm (SFiles stored))
    = sconcat (map (fun ls => rd_stream (ttl_reader (filter nonblank ls))) lss).
  Proof.
    intros Hcm Hok Hst. rewrite (ttl_chan_files o cm stored Hcm), ttl_multi_from_stream.
    revert stored Hst. induction Hok as [|ls lss Hls _ IH]; intros stored H2; inversion H2; subst; [reflexivity|].
    cbn [map sconcat fold_right]. rewrite (lines_of_stored gunzip unxz cm ls _ Hls H1). cbn [with_lines].
    rewrite ttl_reader_nl_filter. f_equal. apply IH. assumption.
  Qed.
End TtlFiles.

(** ** E. N-Triples against Turtle, both readers plugged in *)

From Shexer Require Import Model.SerialShexc Proofs.ShexKeys Proofs.EndToEnd Proofs.EndToEnd2 Proofs.EndToEnd3
     Model.FreqInst Proofs.Bin64Round Proofs.OrderIrrelevant.

Section CrossFormat.
  Variable pyfloat : str -> option bool.
  Variable allow : bool.
  Variable gunzip unxz : str -> option str.
  Variable unzip : str -> option (list (str * str)).
  Variable rdf_parse : str -> str -> option (list rtriple).

  (** the channel model with the two proved readers: nothing is left abstract
      on the N-Triples, TSV and TURTLE_ITER channels but the codecs *)
  Definition closed_passes :=
    passes pyfloat (nt_reader allow) ttl_reader gunzip unxz unzip rdf_parse.

  Definition nt_run (fa : FreqAlg) c thr (o1 o2 : porc) ts :=
    run_over_passes fa c thr (closed_passes o1 o2 (Str "nt") None (SRaw (NtSyntax.nt_doc ts))).

  Definition ttl_run (fa : FreqAlg) c thr (o1 o2 : porc) ls :=
    run_over_passes fa c thr (closed_passes o1 o2 TTL None (SRaw (TtlSyntax.render_doc ls))).

  (** same triples up to lexical forms, same order: same shapes (same
      outcome of the pipeline, errors included) *)
  Theorem nt_vs_turtle_iter fa c thr (o1 o2 o1' o2' : porc) ts ls d G :
    Forall nt_ok_case ts ->
    TtlSyntax.lays_out ls d -> TtlDomain.C07_dom ls d = true -> TtlSyntax.sem d = Some G ->
    map erase_lex G = nt_graph ts ->
    nt_run fa c thr o1 o2 ts = ttl_run fa c thr o1' o2' ls.
  Proof.
    intros Hnt Hl Hd Hs HE. unfold nt_run, ttl_run, closed_passes.
    rewrite (nt_text_to_graph pyfloat allow ttl_reader gunzip unxz unzip rdf_parse fa c thr o1 o2 ts Hnt).
    rewrite (turtle_iter_text_to_graph pyfloat (nt_reader allow) gunzip unxz unzip rdf_parse fa c thr o1' o2' ls d G Hl Hd Hs).
    f_equal. rewrite <- HE. apply run_shapes_cur_erase_lex.
  Qed.

  (** same triples in a different order: with C09 (no instance cap, empty
      shapes kept, valid input) both extractions succeed and yield the same
      classes, shape names, instance counts and key sets *)
  Theorem nt_vs_turtle_iter_permuted fa c thr (o1 o2 o1' o2' : porc) ts ls d G :
    Forall nt_ok_case ts ->
    TtlSyntax.lays_out ls d -> TtlDomain.C07_dom ls d = true -> TtlSyntax.sem d = Some G ->
    Permutation (nt_graph ts) (map erase_lex G) ->
    (r_cap c <= 0)%Z -> r_remove_empty c = false -> valid_input c (nt_graph ts) = true ->
    exists ns shapes shapes',
      nt_run fa c thr o1 o2 ts = Some (inl (ns, shapes)) /\
      ttl_run fa c thr o1' o2' ls = Some (inl (ns, shapes')) /\
      (forall cls, In cls (map sh_class shapes) <-> In cls (map sh_class shapes')) /\
      forall sh sh', In sh shapes -> In sh' shapes' -> sh_class sh = sh_class sh' ->
        sh_name sh = sh_name sh' /\ sh_n sh = sh_n sh' /\
        forall key, In key (map (skey (scfg_of c ns)) (sh_stmts sh)) <->
                    In key (map (skey (scfg_of c ns)) (sh_stmts sh')).
  Proof.
    intros Hnt Hl Hd Hs HP Hcap Hre Hv.
    destruct (e2e_keys_perm_valid fa c thr _ _ Hcap Hre HP Hv) as (ns & shapes & shapes' & R1 & R2 & A & B).
    exists ns, shapes, shapes'. split; [|split; [|split; [exact A | exact B]]].
    - unfold nt_run, closed_passes.
      rewrite (nt_text_to_graph pyfloat allow ttl_reader gunzip unxz unzip rdf_parse fa c thr o1 o2 ts Hnt).
      rewrite (run_shapes_cur_eq_keep fa c thr _ Hre), R1. reflexivity.
    - unfold ttl_run, closed_passes.
      rewrite (turtle_iter_text_to_graph pyfloat (nt_reader allow) gunzip unxz unzip rdf_parse fa c thr o1' o2' ls d G Hl Hd Hs).
      rewrite (run_shapes_cur_eq_keep fa c thr _ Hre).
      rewrite <- (run_shapes_erase_lex fa c thr G), R2. reflexivity.
  Qed.

  (** binary64 frequencies, ANY setting of remove_empty_shapes, thresholds in
      [0, 1], fewer than 2^53 statements *)
  Theorem nt_vs_turtle_iter_permuted_any c thr (o1 o2 o1' o2' : porc) ts ls d G :
    Forall nt_ok_case ts ->
    TtlSyntax.lays_out ls d -> TtlDomain.C07_dom ls d = true -> TtlSyntax.sem d = Some G ->
    Permutation (nt_graph ts) (map erase_lex G) ->
    (r_cap c <= 0)%Z -> valid_input_le1 c (nt_graph ts) = true ->
    wf_frac thr -> fle BAlg thr (fone BAlg) = true -> (N.of_nat (List.length ts) < 2 ^ 53)%N ->
    exists ns shapes shapes',
      nt_run BAlg c thr o1 o2 ts = Some (inl (ns, shapes)) /\
      ttl_run BAlg c thr o1' o2' ls = Some (inl (ns, shapes')) /\
      (forall cls, In cls (map sh_class shapes) <-> In cls (map sh_class shapes')) /\
      forall sh sh', In sh shapes -> In sh' shapes' -> sh_class sh = sh_class sh' ->
        sh_name sh = sh_name sh' /\ sh_n sh = sh_n sh' /\
        forall key, In key (map (skey (scfg_of c ns)) (sh_stmts sh)) <->
                    In key (map (skey (scfg_of c ns)) (sh_stmts sh')).
  Proof.
    intros Hnt Hl Hd Hs HP Hcap Hv Hw Hle Hn.
    assert (Hn' : (N.of_nat (List.length (nt_graph ts)) < 2 ^ 53)%N) by (unfold nt_graph; rewrite map_length; exact Hn).
    assert (Hc1 : class_iris_ok c (nt_graph ts) = true).
    { unfold valid_input_le1 in Hv. apply andb_true_iff in Hv. apply Hv. }
    assert (Hc2 : class_iris_ok c (map erase_lex G) = true).
    { pose proof (valid_input_le1_perm c _ _ HP) as E. rewrite Hv in E. unfold valid_input_le1 in E.
      apply andb_true_iff in E. apply E. }
    assert (Hn2 : (N.of_nat (List.length (map erase_lex G)) < 2 ^ 53)%N).
    { rewrite <- (Permutation_length HP). exact Hn'. }
    destruct (e2e_keys_perm_valid_any c thr _ _ Hcap HP Hv Hw Hle Hn') as (ns & shapes & shapes' & R1 & R2 & A & B).
    exists ns, shapes, shapes'. split; [|split; [|split; [exact A | exact B]]].
    - unfold nt_run, closed_passes.
      rewrite (nt_text_to_graph pyfloat allow ttl_reader gunzip unxz unzip rdf_parse BAlg c thr o1 o2 ts Hnt).
      rewrite (run_shapes_cur_eq_valid c thr _ Hc1 Hw Hle Hn'), R1. reflexivity.
    - unfold ttl_run, closed_passes.
      rewrite (turtle_iter_text_to_graph pyfloat (nt_reader allow) gunzip unxz unzip rdf_parse BAlg c thr o1' o2' ls d G Hl Hd Hs).
      rewrite <- (run_shapes_cur_erase_lex BAlg c thr G).
      rewrite (run_shapes_cur_eq_valid c thr _ Hc2 Hw Hle Hn2), R2. reflexivity.
  Qed.
End CrossFormat.
