(** * profile_graph inside call histories: the API state machine of
    [Model/ShaperApi.v] with the CONCRETE tracker, profiler and profile text.

    [Proofs/ApiPipeline.v] instantiates the machine for the ShExC calls and leaves
    the profile text abstract (its profile slot does not record whether the entries
    are pairs, i.e. [inverse_paths]).  Here the front is concrete -- tracker :=
    [Tracker.track], profiler := [Profiler.profile], profile text :=
    [ProfileJson.profile_text] -- and everything AFTER the profile (shexing,
    example annotation, ShExC lines, SHACL text, the random oracle, the threshold
    test, even the types of shapes and thresholds) is universally quantified.

    [profile_calls_are_run_profile_json]: in every well-formed history -- any
    length, any number of Shapers, shex_graph calls of any format / threshold
    anywhere before or in between -- every [profile_graph] call returns (string
    sink) / leaves in its file (file sink) [RunProfile.run_profile_json] of the
    constructor arguments of ITS Shaper: the memoised profile is never changed
    by another call, and both channels carry the same text.  An exception of
    the front is the reserved error line of [ApiPipeline.err_text]. *)
From Coq Require Import List Ascii String ZArith NArith Bool Arith Lia.
From Shexer Require Import Lib.PyStr Lib.Dict Gen.Consts Gen.ConstsProfile Spec.Rdf Model.Config Model.Determinism
     Model.Tracker Model.Profiler Model.Run Model.ShaperApi Spec.ApiSpec Proofs.ApiProofs Proofs.ApiPipeline
     Model.ProfileJson Model.RunProfile Proofs.ProfileJsonProofs.
Import ListNotations.

(** the profile slot: the object together with the shape of its entries *)
Definition pprof := ((bool * cprofile) + rerr)%type.

Definition ps_profile (a : cargs) (_ : nsd) (tc : ctcd) : pprof :=
  match tc with
  | inr _ => inr REAttr
  | inl ins =>
    match Profiler.profile (pcfg_of (ca_cfg a)) ins (ca_graph a) with
    | inr PEAttr => inr REAttr
    | inr PEType => inr REType
    | inl (P, _, _) => inl (r_inverse (ca_cfg a), P)
    end
  end.

Definition ps_profile_text (pr : pprof) : str :=
  match pr with
  | inr e => err_text e
  | inl (inverse, P) =>
    match profile_text PString inverse P with Some t => t | None => err_text REType end
  end.

Definition psink_of (k : sink_kind) : psink := match k with SString => PString | SFile => PFile end.

Lemma front_profile_text a d d1 :
  ps_profile_text (ps_profile a d1 (cs_track a d1)) = encode (run_profile_json PString (cfg_of a d) (ca_graph a)).
Proof.
  unfold ps_profile_text, ps_profile, cs_track, run_profile_json, run_front.
  change (r_tau (cfg_of a d)) with (r_tau (ca_cfg a)).
  change (r_targets (cfg_of a d)) with (r_targets (ca_cfg a)).
  change (r_cap (cfg_of a d)) with (r_cap (ca_cfg a)).
  change (pcfg_of (cfg_of a d)) with (pcfg_of (ca_cfg a)).
  change (r_inverse (cfg_of a d)) with (r_inverse (ca_cfg a)).
  destruct (Tracker.track _ _ _ _) as [ins|e]; [|reflexivity].
  destruct (Profiler.profile _ ins _) as [[[P C] ID]|[|]]; try reflexivity.
  all: rewrite profile_text_render; reflexivity.
Qed.

Section ProfileApi.
  Variables shapes thr : Type.
  Variable a_examples : cargs -> option str.
  Variable st_shex : cargs -> nsd -> pprof -> thr -> shapes.
  Variable st_add_examples : cargs -> nsd -> shapes -> shapes.
  Variable st_shexc_lines : cargs -> nsd -> shapes -> list str.
  Variable st_shacl_text : cargs -> nsd -> shapes -> str.
  Variable rand : nat -> str.
  Variable fuel : nat.
  Variable thr_eqb : thr -> thr -> bool.
  Hypothesis thr_eqb_eq : forall x y, thr_eqb x y = true -> x = y.
  Hypothesis shacl_ignores_examples :
    forall a d d' s, st_shacl_text a d (st_add_examples a d' s) = st_shacl_text a d s.

  Notation opP := (op cargs thr).
  Notation runP := (run cargs ctcd pprof shapes thr a_ns a_examples cs_track cs_reader_ns ps_profile st_shex
                        st_add_examples st_shexc_lines st_shacl_text ps_profile_text rand fuel thr_eqb).
  Notation spec_fromP := (spec_from cargs ctcd pprof shapes thr a_ns a_examples cs_track cs_reader_ns ps_profile
                                    st_shex st_add_examples st_shexc_lines st_shacl_text ps_profile_text rand fuel).
  Notation pure_profileP := (pure_profile cargs ctcd pprof a_ns cs_track cs_reader_ns ps_profile ps_profile_text rand fuel).

  Definition run_prof (h : list opP) : list outcome := runP h.

  (** one fresh call = [run_profile_json], on either channel *)
  Lemma pure_profile_is_run_profile_json a d k :
    prio_free d = true ->
    on_channel k (pure_profileP a d)
    = on_channel k (Some (encode (run_profile_json (psink_of k) (cfg_of a d) (ca_graph a)))).
  Proof.
    intros Hp. unfold pure_profile, pure_stages.
    unfold ctor_dict. unfold prio_free in Hp. unfold find_prefix.
    destruct (first_free c_PRIORITY_PREFIXES_FOR_SHAPES (values d)) as [p|]; [|discriminate].
    unfold cs_reader_ns. rewrite (front_profile_text a d).
    destruct k; cbn [psink_of]; [reflexivity | now rewrite run_sinks_agree].
  Qed.

  Fixpoint pctors_from (origs : list nsd) (h : list opP) : list (cargs * nsd) :=
    match h with
    | [] => []
    | New a da :: h' =>
      match dict_value origs da with
      | Some d => (a, d) :: pctors_from (match da with DShared _ => origs | _ => origs ++ [d] end) h'
      | None => pctors_from origs h'
      end
    | _ :: h' => pctors_from origs h'
    end.

  Definition pshapers_of (h : list opP) : list (cargs * nsd) := pctors_from [] h.

  Lemma spec_from_profile h : forall origs ctors,
    wf_from cargs thr origs (List.length ctors) h = true ->
    Forall (fun ad : cargs * nsd => prio_free (snd ad) = true) ctors ->
    forall n i k, nth_error h n = Some (Profile i k) ->
    exists a d, nth_error (ctors ++ pctors_from origs h) i = Some (a, d) /\
                nth_error (spec_fromP origs ctors h) n
                = Some (on_channel k (Some (encode (run_profile_json (psink_of k) (cfg_of a d) (ca_graph a))))).
  Proof.
    induction h as [|o h IH]; intros origs ctors Hwf Hall n i k Hn; [destruct n; discriminate|].
    destruct n as [|n].
    - cbn in Hn. inversion Hn; subst o; clear Hn.
      cbn [wf_from] in Hwf. apply andb_true_iff in Hwf as [Hi _]. apply Nat.ltb_lt in Hi.
      destruct (nth_error ctors i) as [[a d]|] eqn:Hc; [|apply nth_error_None in Hc; lia].
      exists a, d. split; [rewrite nth_error_app1 by lia; exact Hc|].
      cbn [spec_from nth_error]. rewrite Hc. f_equal.
      apply pure_profile_is_run_profile_json.
      rewrite Forall_forall in Hall. exact (Hall (a, d) (nth_error_In _ _ Hc)).
    - cbn [nth_error] in Hn.
      destruct o as [a da | j f k' t' | j k']; cbn [wf_from] in Hwf.
      + cbn [spec_from pctors_from].
        destruct da as [|d|j].
        * cbn [dict_value]. apply andb_true_iff in Hwf as [Hp Hwf].
          rewrite <- (length_snoc ctors (a, @nil (str * str))) in Hwf.
          destruct (IH _ _ Hwf (Forall_snoc _ ctors (a, _) Hall Hp) n i k Hn) as (a' & d' & H1 & H2).
          exists a', d'. rewrite <- app_assoc in H1. split; [exact H1 | exact H2].
        * cbn [dict_value]. apply andb_true_iff in Hwf as [Hp Hwf].
          rewrite <- (length_snoc ctors (a, d)) in Hwf.
          destruct (IH _ _ Hwf (Forall_snoc _ ctors (a, _) Hall Hp) n i k Hn) as (a' & d' & H1 & H2).
          exists a', d'. rewrite <- app_assoc in H1. split; [exact H1 | exact H2].
        * cbn [dict_value]. destruct (nth_error origs j) as [d|]; [|discriminate].
          apply andb_true_iff in Hwf as [Hp Hwf].
          rewrite <- (length_snoc ctors (a, d)) in Hwf.
          destruct (IH _ _ Hwf (Forall_snoc _ ctors (a, _) Hall Hp) n i k Hn) as (a' & d' & H1 & H2).
          exists a', d'. rewrite <- app_assoc in H1. split; [exact H1 | exact H2].
      + apply andb_true_iff in Hwf as [_ Hwf]. cbn [spec_from pctors_from nth_error].
        exact (IH _ _ Hwf Hall n i k Hn).
      + apply andb_true_iff in Hwf as [_ Hwf]. cbn [spec_from pctors_from nth_error].
        exact (IH _ _ Hwf Hall n i k Hn).
  Qed.

  Theorem profile_calls_are_run_profile_json h :
    C18_dom cargs thr h = true ->
    forall n i k, nth_error h n = Some (Profile i k) ->
    exists a d, nth_error (pshapers_of h) i = Some (a, d) /\
                nth_error (run_prof h) n
                = Some (on_channel k (Some (encode (run_profile_json (psink_of k) (cfg_of a d) (ca_graph a))))).
  Proof.
    intros Hd n i k Hn. unfold run_prof.
    rewrite (history_pure cargs ctcd pprof shapes thr a_ns a_examples cs_track cs_reader_ns ps_profile st_shex
                          st_add_examples st_shexc_lines st_shacl_text ps_profile_text rand fuel thr_eqb thr_eqb_eq
                          shacl_ignores_examples h Hd).
    exact (spec_from_profile h [] [] Hd (Forall_nil _) n i k Hn).
  Qed.

  (** two profile calls on one Shaper, either channel each, whatever happened in between: one text *)
  Corollary profile_repeat_same_text h :
    C18_dom cargs thr h = true ->
    forall n1 n2 i k1 k2, nth_error h n1 = Some (Profile i k1) -> nth_error h n2 = Some (Profile i k2) ->
    exists o1 o2, nth_error (run_prof h) n1 = Some o1 /\ nth_error (run_prof h) n2 = Some o2 /\
                  outcome_text o1 = outcome_text o2.
  Proof.
    intros Hd n1 n2 i k1 k2 H1 H2.
    destruct (profile_calls_are_run_profile_json h Hd n1 i k1 H1) as (a & d & Ha & Ho1).
    destruct (profile_calls_are_run_profile_json h Hd n2 i k2 H2) as (a' & d' & Ha' & Ho2).
    rewrite Ha in Ha'. inversion Ha'; subst a' d'.
    eexists _, _. split; [exact Ho1|]. split; [exact Ho2|].
    assert (E : forall k, run_profile_json (psink_of k) (cfg_of a d) (ca_graph a)
                          = run_profile_json PString (cfg_of a d) (ca_graph a)).
    { intros [|]; [reflexivity | apply run_sinks_agree]. }
    rewrite (E k1), (E k2). destruct k1, k2; reflexivity.
  Qed.
End ProfileApi.

(** the reserved error line is not a profile text: the text starts with '{' *)
Lemma profile_result_read_back k c g :
  decode (encode (run_profile_json k c g)) = run_profile_json k c g.
Proof.
  destruct (run_profile_json k c g) as [t|e] eqn:E; [|apply decode_err].
  apply run_profile_json_ok_iff in E as (ins & P & C & ID & _ & _ & ->).
  cbn [encode]. unfold profile_json. destruct P as [|ce P]; [reflexivity|].
  cbn [map]. rewrite render_obj_cons. cbn [Str list_ascii_of_string app]. apply decode_text. intros H. discriminate H.
Qed.
