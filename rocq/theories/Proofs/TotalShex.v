(** * Totality of the shexing stage (towards C04).

    With disjunctions disabled (the default) and every type key of the class
    profile renderable by [tune_token], [shex] never returns an error: none of
    the unguarded dereferences of the modelled Python code is reachable. *)
From Coq Require Import List Ascii String ZArith NArith Bool Lia.
From Shexer Require Import Lib.PyStr Lib.Dict Gen.Consts Model.Profiler Model.Tokens Model.Freq Model.Shexing.
Import ListNotations.

Section Total.
  Variable fa : FreqAlg.
  Variable cfg : scfg.
  Hypothesis Hor : x_disable_or cfg = true.

  Definition tok_ok (k : str) : Prop := exists t, tune_token (x_ns cfg) k = Some t.

  Definition good (s : stmt) : Prop := s_choice s = false /\ tok_ok (s_type s).

  Lemma comment_of_good s : good s -> exists k, comment_of cfg s = inl k.
  Proof.
    intros [Hc [t Ht]]. unfold comment_of. rewrite Hc, Ht. eauto.
  Qed.

  Lemma good_add_comment s k : good s -> good (add_comment s k).
  Proof. intros [H1 H2]; split; assumption. Qed.

  Lemma add_comments_of_good dom l :
    good dom -> Forall good l -> exists r, add_comments_of cfg dom l = inl r /\ good r.
  Proof.
    revert dom; induction l as [|x l IH]; intros dom Hd Hl; cbn [add_comments_of].
    - eauto.
    - inversion Hl as [|? ? Hx Hl']; subst.
      destruct (comment_of_good x Hx) as [k Hk]. rewrite Hk.
      apply IH; [apply good_add_comment; assumption | assumption].
  Qed.

  (** ** sorting keeps the elements *)
  Lemma In_insert_desc cnt x l y : In y (insert_desc fa cnt x l) <-> y = x \/ In y l.
  Proof.
    induction l as [|z l IH]; cbn [insert_desc].
    - cbn. intuition congruence.
    - destruct (fle fa (pv fa cnt x) (pv fa cnt z)); cbn [In]; [rewrite IH|]; intuition congruence.
  Qed.

  Lemma In_sort_desc_acc cnt l acc y :
    In y (fold_left (fun a x => insert_desc fa cnt x a) l acc) <-> In y l \/ In y acc.
  Proof.
    revert acc; induction l as [|x l IH]; intros acc; cbn [fold_left].
    - cbn; tauto.
    - rewrite IH, In_insert_desc. cbn [In]. intuition (subst; auto).
  Qed.

  Lemma In_sort_desc cnt l y : In y (sort_desc fa cnt l) <-> In y l.
  Proof. unfold sort_desc. rewrite In_sort_desc_acc. cbn; tauto. Qed.

  Lemma Forall_sort_desc (Q : stmt -> Prop) cnt l : Forall Q l -> Forall Q (sort_desc fa cnt l).
  Proof.
    rewrite !Forall_forall. intros H y Hy. apply H. apply In_sort_desc in Hy. exact Hy.
  Qed.

  Lemma sort_desc_nonempty cnt l : l <> [] -> sort_desc fa cnt l <> [].
  Proof.
    destruct l as [|x l]; [congruence|]. intros _ E.
    assert (In x (sort_desc fa cnt (x :: l))) as H by (apply In_sort_desc; left; reflexivity).
    rewrite E in H. exact H.
  Qed.

  Lemma Forall_filter {A} (Q : A -> Prop) f (l : list A) : Forall Q l -> Forall Q (filter f l).
  Proof.
    rewrite !Forall_forall. intros H y Hy. apply filter_In in Hy. apply H, Hy.
  Qed.

  Lemma find_some_good f (l : list stmt) s : Forall good l -> List.find f l = Some s -> good s.
  Proof.
    intros H E. apply find_some in E. rewrite Forall_forall in H. apply H, E.
  Qed.

  (** ** first merge *)
  Lemma decide_best_good cnt g :
    g <> [] -> Forall good g -> exists r, decide_best fa cfg cnt g = inl r /\ good r.
  Proof.
    intros Hne Hg. unfold decide_best.
    destruct (x_discard_useless cfg && useless_plus_group fa cnt g) eqn:Hu.
    - apply andb_true_iff in Hu as [_ Hu]. unfold useless_plus_group in Hu.
      destruct g as [|a [|b [|c g]]]; try discriminate.
      apply andb_true_iff in Hu as [_ Hodd].
      unfold first_such. cbn [List.find].
      unfold count_plus in Hodd. cbn [filter] in Hodd.
      inversion Hg as [|? ? Ha Hg']; subst. inversion Hg' as [|? ? Hb _]; subst.
      destruct (is_plus (s_card a)) eqn:Ea; cbn [negb].
      + destruct (is_plus (s_card b)) eqn:Eb; cbn [negb].
        * cbn in Hodd. discriminate.
        * eauto.
      + eauto.
    - clear Hu.
      pose proof (sort_desc_nonempty cnt g Hne) as Hs.
      pose proof (Forall_sort_desc good cnt g Hg) as Hgs.
      set (gs := sort_desc fa cnt g) in *.
      set (pick := if x_keep_less_specific cfg
                   then first_such (fun s => is_plus (s_card s)) gs
                   else first_such (fun s => negb (is_plus (s_card s))) gs).
      assert (exists res, match pick with Some s => Some s | None => hd_error gs end = Some res /\ good res)
        as [res [Eres Hres]].
      { destruct pick as [s|] eqn:Ep.
        - exists s; split; [reflexivity|].
          unfold pick, first_such in Ep.
          destruct (x_keep_less_specific cfg); eapply find_some_good; eauto.
        - destruct gs as [|s gs']; [congruence|]. exists s; split; [reflexivity|].
          inversion Hgs; assumption. }
      rewrite Eres. apply add_comments_of_good; [assumption | apply Forall_filter; assumption].
  Qed.

  Lemma group_same_good fuel cnt l :
    Forall good l -> exists r, group_same fa cfg fuel cnt l = inl r /\ Forall good r.
  Proof.
    revert l; induction fuel as [|f IH]; intros l Hl; cbn [group_same].
    - eauto.
    - destruct l as [|a rest]; [eauto|].
      inversion Hl as [|? ? Ha Hrest]; subst.
      set (grp := filter (same_tokens a) rest).
      set (others := filter (fun b => negb (same_tokens a b)) rest).
      assert (exists r, match grp with [] => inl a | _ => decide_best fa cfg cnt (a :: grp) end = inl r /\ good r)
        as [r [Er Hr]].
      { destruct grp as [|g0 grp'] eqn:Eg; [eauto|].
        apply decide_best_good; [congruence|].
        constructor; [assumption|]. rewrite <- Eg. apply Forall_filter; assumption. }
      rewrite Er.
      destruct (IH others) as [rs [Ers Hrs]]; [apply Forall_filter; assumption|].
      rewrite Ers. eauto.
  Qed.

  (** ** second merge *)
  Lemma nonliteral_tok_ok : tok_ok c_NONLITERAL_ELEM_TYPE.
  Proof. unfold tok_ok, tune_token. cbn. eauto. Qed.

  Lemma last_such_good f l s : Forall good l -> last_such f l = Some s -> good s.
  Proof.
    intros H E. unfold last_such in E. eapply find_some_good; [|exact E].
    rewrite Forall_forall in *. intros x Hx. apply H. apply in_rev. exact Hx.
  Qed.

  Lemma last_such_exists f (l : list stmt) x : In x l -> f x = true -> exists s, last_such f l = Some s.
  Proof.
    intros Hin Hf. unfold last_such.
    destruct (List.find f (rev l)) as [s|] eqn:E; [eauto|].
    exfalso. pose proof (find_none _ _ E x) as Hn. rewrite <- in_rev in Hn. specialize (Hn Hin). congruence.
  Qed.

  Definition nonlit (s : stmt) : Prop := is_nonliteral_type (s_type s) = true.

  Lemma merge_group_good cnt g :
    g <> [] -> Forall good g -> Forall nonlit g -> exists r, merge_group fa cfg cnt g = inl r /\ good r.
  Proof.
    intros Hne Hg Hnl. unfold merge_group.
    set (bnode := last_such (fun s => str_eqb (s_type s) c_BNODE_ELEM_TYPE) g).
    set (iri := last_such (fun s => str_eqb (s_type s) c_IRI_ELEM_TYPE) g).
    set (shapes := sort_desc fa cnt (filter (fun s => negb (str_eqb (s_type s) c_BNODE_ELEM_TYPE) &&
                                                      negb (str_eqb (s_type s) c_IRI_ELEM_TYPE)) g)).
    assert (Hshapes : Forall good shapes).
    { unfold shapes. apply Forall_sort_desc. apply Forall_filter. exact Hg. }
    assert (Hb : forall b, bnode = Some b -> good b) by (intros b E; exact (last_such_good _ g b Hg E)).
    assert (Hi : forall i, iri = Some i -> good i) by (intros i E; exact (last_such_good _ g i Hg E)).
    assert (Hnlgood : forall (b i : stmt) c n p, good {| s_inv := s_inv b; s_prop := s_prop b; s_types := [c_NONLITERAL_ELEM_TYPE];
                                               s_choice := false; s_card := c; s_nocc := n; s_prob := p; s_comments := [] |}).
    { intros; split; [reflexivity | exact nonliteral_tok_ok]. }
    (* the dominant statement exists and is good *)
    match goal with |- exists r, match ?D with inr e => _ | inl dom0 => _ end = _ /\ _ => set (dominant := D) end.
    assert (exists dom0, dominant = inl dom0 /\ good dom0) as [dom0 [Ed Hd]].
    { unfold dominant. destruct bnode as [b|] eqn:Eb.
      - specialize (Hb b eq_refl). destruct iri as [i|] eqn:Ei.
        + specialize (Hi i eq_refl).
          destruct shapes as [|s0 [|s1 sh]] eqn:Es.
          * eexists; split; [reflexivity | apply (Hnlgood b i)].
          * destruct (N.eqb (s_nocc i + s_nocc b) (s_nocc s0)).
            -- eexists; split; [reflexivity | inversion Hshapes; assumption].
            -- eexists; split; [reflexivity | apply (Hnlgood b i)].
          * eexists; split; [reflexivity | apply (Hnlgood b i)].
        + destruct shapes as [|s0 sh] eqn:Es.
          * eauto.
          * destruct (N.eqb (s_nocc s0) (s_nocc b)); eexists; split; try reflexivity;
              [inversion Hshapes; assumption | assumption].
      - destruct shapes as [|s0 sh] eqn:Es.
        + destruct iri as [i|] eqn:Ei; [eauto|].
          exfalso.
          destruct g as [|a g']; [congruence|].
          inversion Hnl as [|? ? Ha _]; subst. unfold nonlit, is_nonliteral_type in Ha.
          destruct (str_eqb (s_type a) c_BNODE_ELEM_TYPE) eqn:E1.
          { destruct (last_such_exists (fun s => str_eqb (s_type s) c_BNODE_ELEM_TYPE) (a :: g') a) as [s Hs];
              [left; reflexivity | assumption | ]. unfold bnode in Eb. congruence. }
          destruct (str_eqb (s_type a) c_IRI_ELEM_TYPE) eqn:E2.
          { destruct (last_such_exists (fun s => str_eqb (s_type s) c_IRI_ELEM_TYPE) (a :: g') a) as [s Hs];
              [left; reflexivity | assumption | ]. unfold iri in Ei. congruence. }
          assert (In a shapes) as Hin.
          { unfold shapes. apply In_sort_desc. apply filter_In. split; [left; reflexivity|]. rewrite E1, E2. reflexivity. }
          rewrite Es in Hin. exact Hin.
        + destruct iri as [i|] eqn:Ei.
          * specialize (Hi i eq_refl).
            destruct (N.ltb (s_nocc s0) (s_nocc i)); eexists; split; try reflexivity;
              [assumption | inversion Hshapes; assumption].
          * eexists; split; [reflexivity | inversion Hshapes; assumption]. }
    rewrite Ed. rewrite Hor.
    apply add_comments_of_good; [assumption|].
    apply Forall_app; split.
    - destruct bnode as [b|]; [|constructor].
      constructor; [apply Hb; reflexivity|].
      destruct iri as [i|]; [constructor; [apply Hi; reflexivity | constructor] | constructor].
    - apply Forall_filter; assumption.
  Qed.

  Lemma group_nodes_good fuel cnt l :
    Forall good l -> exists r, group_nodes fa cfg fuel cnt l = inl r /\ Forall good r.
  Proof.
    revert l; induction fuel as [|f IH]; intros l Hl; cbn [group_nodes].
    - eauto.
    - destruct l as [|a rest]; [eauto|].
      inversion Hl as [|? ? Ha Hrest]; subst.
      destruct (str_eqb (s_prop a) (x_tau cfg) || negb (is_nonliteral_type (s_type a))) eqn:Eskip.
      + destruct (IH rest Hrest) as [rs [Ers Hrs]]. rewrite Ers. eauto.
      + apply orb_false_iff in Eskip as [_ Hnl]. apply negb_false_iff in Hnl.
        set (grp := filter (mergeable_with a) rest).
        set (others := filter (fun b => negb (mergeable_with a b)) rest).
        assert (exists r, match grp with [] => inl a | _ => merge_group fa cfg cnt (a :: grp) end = inl r /\ good r)
          as [r [Er Hr]].
        { destruct grp as [|g0 grp'] eqn:Eg; [eauto|].
          apply merge_group_good; [congruence | |].
          - constructor; [assumption|]. rewrite <- Eg. apply Forall_filter; assumption.
          - constructor; [exact Hnl|]. rewrite <- Eg. unfold grp.
            apply Forall_forall. intros x Hx. apply filter_In in Hx as [_ Hx].
            unfold mergeable_with in Hx. apply andb_true_iff in Hx as [Hx _]. exact Hx. }
        rewrite Er.
        destruct (IH others) as [rs [Ers Hrs]]; [apply Forall_filter; assumption|].
        rewrite Ers. eauto.
  Qed.

  Lemma select_valid_good cnt l :
    Forall good l -> exists r, select_valid fa cfg cnt l = inl r /\ Forall good r.
  Proof.
    intros Hl. unfold select_valid. destruct l as [|a l']; [eauto|].
    destruct (group_same_good (List.length (a :: l')) cnt (a :: l') Hl) as [l1 [E1 H1]]. rewrite E1.
    apply group_nodes_good. exact H1.
  Qed.

  (** ** tuning *)
  Lemma map_err_total {A B E} (Q : A -> Prop) (R : B -> Prop) (f : A -> B + E) l :
    (forall x, Q x -> exists y, f x = inl y /\ R y) -> Forall Q l ->
    exists r, map_err f l = inl r /\ Forall R r.
  Proof.
    intros Hf. induction l as [|x l IH]; intros Hl; cbn [map_err]; [eauto|].
    inversion Hl as [|? ? Hx Hl']; subst.
    destruct (Hf x Hx) as [y [Ey Hy]]. rewrite Ey.
    destruct (IH Hl') as [ys [Eys Hys]]. rewrite Eys. eauto.
  Qed.

  Lemma relax_good cnt s : good s -> exists r, relax fa cfg cnt s = inl r /\ good r.
  Proof.
    intros Hs. unfold relax. destruct (negb (feqb fa (pv fa cnt s) (fone fa))); [|eauto].
    destruct (comment_of_good s Hs) as [k Hk]. rewrite Hk.
    eexists; split; [reflexivity|]. destruct Hs; split; assumption.
  Qed.

  Lemma generalize_exact_good s : good s -> good (generalize_exact s).
  Proof.
    intros [H1 H2]. unfold generalize_exact. destruct (s_card s) as [k| | |]; try (split; assumption).
    destruct (N.ltb 1 k); split; assumption.
  Qed.

  Lemma drop_comments_good s : good s -> good (drop_comments s).
  Proof. intros [H1 H2]; split; assumption. Qed.

  Lemma Forall_map {A B} (Q : A -> Prop) (R : B -> Prop) (f : A -> B) l :
    (forall x, Q x -> R (f x)) -> Forall Q l -> Forall R (map f l).
  Proof. intros Hf H. induction H; cbn; constructor; auto. Qed.

  Lemma tune_good cnt l : Forall good l -> exists r, tune fa cfg cnt l = inl r /\ Forall good r.
  Proof.
    intros Hl. unfold tune. destruct l as [|a l']; [eauto|].
    pose proof (Forall_sort_desc good cnt (a :: l') Hl) as Hs.
    set (l0 := sort_desc fa cnt (a :: l')) in *.
    assert (exists l1, (if x_all_compliant cfg then map_err (relax fa cfg cnt) l0 else inl l0) = inl l1 /\ Forall good l1)
      as [l1 [E1 H1]].
    { destruct (x_all_compliant cfg); [|eauto].
      apply (map_err_total good good); [apply relax_good | assumption]. }
    rewrite E1. eexists; split; [reflexivity|].
    assert (Forall good (if x_disable_exact cfg then map generalize_exact l1 else l1)) as H2.
    { destruct (x_disable_exact cfg); [|assumption].
      eapply Forall_map; [|exact H1]. apply generalize_exact_good. }
    destruct (x_disable_comments cfg); [|assumption].
    eapply Forall_map; [|exact H2]. apply drop_comments_good.
  Qed.

  (** ** base statements, one shape, all shapes *)
  Definition pdict_ok (pd : pdict) : Prop :=
    forall p m k cd, In (p, m) pd -> In (k, cd) m -> tok_ok k.

  Lemma base_statements_good thr cnt inv pd : pdict_ok pd -> Forall good (base_statements fa thr cnt inv pd).
  Proof.
    intros Hpd. apply Forall_forall. intros s Hs. unfold base_statements in Hs.
    apply in_flat_map in Hs as [[p m] [Hpm Hs]].
    apply in_flat_map in Hs as [[k cd] [Hk Hs]].
    apply in_flat_map in Hs as [[ck n] [_ Hs]].
    cbn [fst snd] in Hs. destruct (fle fa thr (ratio fa n cnt)); [|contradiction].
    destruct Hs as [<-|[]]. split; [reflexivity|]. cbn. eapply Hpd; eauto.
  Qed.

  Definition centry_ok (ce : str * centry) : Prop := pdict_ok (c_direct (snd ce)) /\ pdict_ok (c_inverse (snd ce)).

  Definition shape_good (sh : shape) : Prop := Forall good (sh_stmts sh).

  Lemma shex_class_good thr counts ce :
    centry_ok ce -> exists sh, shex_class fa cfg thr counts ce = inl sh /\ shape_good sh.
  Proof.
    intros [Hd Hi]. unfold shex_class.
    set (cnt := match dget counts (fst ce) with Some n => n | None => 0%N end).
    set (direct := base_statements fa thr cnt false (c_direct (snd ce))).
    set (inverse := if x_inverse cfg then base_statements fa thr cnt true (c_inverse (snd ce)) else []).
    assert (Forall good (sort_desc fa cnt (direct ++ inverse))) as Hs.
    { apply Forall_sort_desc, Forall_app; split; [apply base_statements_good; assumption|].
      unfold inverse. destruct (x_inverse cfg); [apply base_statements_good; assumption | constructor]. }
    destruct (select_valid_good cnt _ (Forall_filter good (fun s => negb (s_inv s)) _ Hs)) as [vd [Evd Hvd]].
    rewrite Evd.
    destruct (select_valid_good cnt _ (Forall_filter good (fun s => s_inv s) _ Hs)) as [vi [Evi Hvi]].
    rewrite Evi.
    destruct (tune_good cnt (vd ++ vi)) as [st [Est Hst]]; [apply Forall_app; split; assumption|].
    rewrite Est. eexists; split; [reflexivity | exact Hst].
  Qed.

  Lemma prune_shape_good names sh :
    shape_good sh -> exists sh', prune_shape names sh = inl sh' /\ shape_good sh'.
  Proof.
    intros Hs. unfold prune_shape.
    assert (existsb (fun st => s_choice st) (sh_stmts sh) = false) as E.
    { apply not_true_is_false. intros H. apply existsb_exists in H as [st [Hin Hc]].
      unfold shape_good in Hs. rewrite Forall_forall in Hs. destruct (Hs st Hin) as [Hc' _]. congruence. }
    rewrite E. eexists; split; [reflexivity|]. unfold shape_good; cbn [sh_stmts].
    apply Forall_app; split; apply Forall_filter, Forall_filter; exact Hs.
  Qed.

  Lemma clean_shapes_good fuel l :
    Forall shape_good l -> exists r, clean_shapes fuel l = inl r /\ Forall shape_good r.
  Proof.
    revert l; induction fuel as [|f IH]; intros l Hl; cbn [clean_shapes]; [eauto|].
    destruct (empty_names l) as [|n ns] eqn:En; [eauto|].
    destruct (map_err_total shape_good shape_good (prune_shape (n :: ns))
                            (filter (fun s => negb (mem_str (sh_name s) (n :: ns))) l)) as [l' [El' Hl']].
    - intros x Hx. apply prune_shape_good; exact Hx.
    - apply Forall_filter; exact Hl.
    - rewrite El'. apply IH; exact Hl'.
  Qed.

  Theorem shex_total thr (P : cprofile) (C : ccounts) :
    Forall centry_ok P -> exists shapes, shex fa cfg thr P C = inl shapes /\ Forall shape_good shapes.
  Proof.
    intros HP. unfold shex.
    destruct (map_err_total centry_ok shape_good (shex_class fa cfg thr C) P) as [shapes [Es Hs]].
    - intros ce Hce. apply shex_class_good; exact Hce.
    - exact HP.
    - rewrite Es. destruct (x_remove_empty cfg); [apply clean_shapes_good; exact Hs | eauto].
  Qed.
End Total.
