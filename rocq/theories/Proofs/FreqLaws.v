(** * Laws of the frequency algebras ([Model/Freq.v], [Model/FreqInst.v]).

    [FreqLaws fa okN okF] collects what the pipeline proofs need of a
    frequency algebra: [fle] is a total preorder on well-formed values, [feqb]
    is its equivalence, [ratio] is monotone and strictly monotone in the
    numerator, [ratio n d == 1 <-> n = d], closure of [okF], and monotony of
    [fadd].  [okN] is the predicate on denominators (class sizes, threshold
    denominators), [okF] the predicate on values.

    - [QAlg_laws] : exact rationals, [okN d := 0 < d] (unbounded).
    - [BAlg_laws] : IEEE binary64 ([Lib/Bin64]), [okN d := 0 < d < 2^53]
      (the range on which [float(n)] is exact in CPython). *)
From Coq Require Import ZArith NArith Bool Lia.
From Shexer Require Import Lib.Bin64 Model.Freq Model.FreqInst Proofs.Bin64Round.
Local Open Scope Z_scope.

Record FreqLaws (fa : FreqAlg) (okN : N -> Prop) (okF : F fa -> Prop) : Prop := {
  (* fle is a total preorder on ok values, feqb its equivalence *)
  fle_refl  : forall x, okF x -> fle fa x x = true;
  fle_trans : forall x y z, okF x -> okF y -> okF z ->
              fle fa x y = true -> fle fa y z = true -> fle fa x z = true;
  fle_total : forall x y, okF x -> okF y -> fle fa x y = true \/ fle fa y x = true;
  feqb_fle  : forall x y, okF x -> okF y ->
              (feqb fa x y = true <-> fle fa x y = true /\ fle fa y x = true);
  (* closure *)
  fone_ok   : okF (fone fa);
  ratio_ok  : forall n d, okN d -> (n <= d)%N -> okF (ratio fa n d);
  ratio_wf  : forall n d, okN d -> okF (ratio fa n d);
  fadd_ok   : forall x y, okF x -> okF y -> okF (fadd fa x y);
  (* ratio *)
  ratio_mono   : forall n1 n2 d, okN d -> (n1 <= n2)%N ->
                 fle fa (ratio fa n1 d) (ratio fa n2 d) = true;
  ratio_strict : forall n1 n2 d, okN d -> (n1 < n2)%N -> (n2 <= d)%N ->
                 fle fa (ratio fa n2 d) (ratio fa n1 d) = false;
  ratio_one    : forall n d, okN d -> (n <= d)%N ->
                 (feqb fa (ratio fa n d) (fone fa) = true <-> n = d);
  ratio_le_one : forall n d, okN d -> (n <= d)%N ->
                 fle fa (ratio fa n d) (fone fa) = true;
  ratio_zero_le : forall d x, okN d -> okF x -> fle fa (ratio fa 0 d) x = true;
  (* fadd *)
  fadd_mono : forall x x' y y', okF x -> okF x' -> okF y -> okF y' ->
              fle fa x x' = true -> fle fa y y' = true ->
              fle fa (fadd fa x y) (fadd fa x' y') = true;
  fadd_ge_l : forall a b d, okN d ->
              fle fa (ratio fa a d) (fadd fa (ratio fa a d) (ratio fa b d)) = true;
  fadd_ge_r : forall a b d, okN d ->
              fle fa (ratio fa b d) (fadd fa (ratio fa a d) (ratio fa b d)) = true
}.

(** derived: thresholds [thr_val fa k m = ratio fa k m] are ok values *)
Lemma thr_ok fa okN okF (L : FreqLaws fa okN okF) k m : okN m -> okF (thr_val fa k m).
Proof. intros Hm. unfold thr_val. apply (ratio_wf _ _ _ L); exact Hm. Qed.

(** derived: strict monotony as an equivalence on [n1, n2 <= d] *)
Lemma ratio_fle_iff fa okN okF (L : FreqLaws fa okN okF) n1 n2 d :
  okN d -> (n1 <= d)%N -> (n2 <= d)%N ->
  (fle fa (ratio fa n1 d) (ratio fa n2 d) = true <-> (n1 <= n2)%N).
Proof.
  intros Hd H1 H2. split.
  - intros Hle. destruct (N.le_gt_cases n1 n2) as [H | H]; [exact H | exfalso].
    rewrite (ratio_strict _ _ _ L n2 n1 d Hd H H1) in Hle. discriminate.
  - intros H. apply (ratio_mono _ _ _ L); assumption.
Qed.

Lemma ratio_feqb_iff fa okN okF (L : FreqLaws fa okN okF) n1 n2 d :
  okN d -> (n1 <= d)%N -> (n2 <= d)%N ->
  (feqb fa (ratio fa n1 d) (ratio fa n2 d) = true <-> n1 = n2).
Proof.
  intros Hd H1 H2.
  rewrite (feqb_fle _ _ _ L) by (apply (ratio_wf _ _ _ L); exact Hd).
  rewrite !(ratio_fle_iff fa okN okF L) by assumption. lia.
Qed.

(** ** order facts on fractions *)

Lemma qle_refl x : qle x x.
Proof. unfold qle. lia. Qed.

Lemma qle_trans x y z : wf_frac x -> wf_frac y -> wf_frac z -> qle x y -> qle y z -> qle x z.
Proof.
  destruct x as [a b], y as [c d], z as [e f]. unfold wf_frac, qle. cbn [fst snd].
  intros [Ha Hb] [Hc Hd] [He Hf] H1 H2.
  assert (E1 : (a * d) * f <= (c * b) * f) by (apply Z.mul_le_mono_nonneg_r; lia).
  assert (E2 : (c * f) * b <= (e * d) * b) by (apply Z.mul_le_mono_nonneg_r; lia).
  assert (E3 : d * (a * f) <= d * (e * b)) by lia.
  apply Z.mul_le_mono_pos_l in E3; lia.
Qed.

Lemma qle_total x y : qle x y \/ qle y x.
Proof. unfold qle. lia. Qed.

Lemma qeq_qle x y : qeq x y <-> qle x y /\ qle y x.
Proof. unfold qeq, qle. lia. Qed.

Lemma qle_of_qeq x y : qeq x y -> qle x y /\ qle y x.
Proof. apply qeq_qle. Qed.

(** exact sum of two fractions *)
Lemma q_add_wf x y : wf_frac x -> wf_frac y -> wf_frac (q_add x y).
Proof.
  destruct x as [a b], y as [c d]. unfold wf_frac, q_add. cbn [fst snd].
  intros [Ha Hb] [Hc Hd]. split; nia.
Qed.

Lemma q_add_mono x x' y y' :
  wf_frac x -> wf_frac x' -> wf_frac y -> wf_frac y' ->
  qle x x' -> qle y y' -> qle (q_add x y) (q_add x' y').
Proof.
  destruct x as [a b], x' as [a' b'], y as [c d], y' as [c' d'].
  unfold wf_frac, qle, q_add. cbn [fst snd].
  intros [Ha Hb] [Ha' Hb'] [Hc Hd] [Hc' Hd'] H1 H2.
  assert (E1 : (a * b') * (d * d') <= (a' * b) * (d * d')) by (apply Z.mul_le_mono_nonneg_r; nia).
  assert (E2 : (c * d') * (b * b') <= (c' * d) * (b * b')) by (apply Z.mul_le_mono_nonneg_r; nia).
  lia.
Qed.

Lemma q_add_ge_l x y : wf_frac x -> wf_frac y -> qle x (q_add x y).
Proof.
  destruct x as [a b], y as [c d]. unfold wf_frac, qle, q_add. cbn [fst snd].
  intros [Ha Hb] [Hc Hd].
  assert (0 <= c * b * b) by nia. lia.
Qed.

Lemma q_add_ge_r x y : wf_frac x -> wf_frac y -> qle y (q_add x y).
Proof.
  destruct x as [a b], y as [c d]. unfold wf_frac, qle, q_add. cbn [fst snd].
  intros [Ha Hb] [Hc Hd].
  assert (0 <= a * d * d) by nia. lia.
Qed.

Lemma add64_q_add x y : add64 x y = round64 (q_add x y).
Proof. destruct x, y. reflexivity. Qed.

(** the comparison laws shared by both instances ([fle64], [feq64]) *)
Lemma fle64_refl x : fle64 x x = true.
Proof. apply fle64_qle, qle_refl. Qed.

Lemma fle64_trans x y z :
  wf_frac x -> wf_frac y -> wf_frac z ->
  fle64 x y = true -> fle64 y z = true -> fle64 x z = true.
Proof.
  intros Wx Wy Wz H1 H2. apply fle64_qle. apply fle64_qle in H1, H2.
  apply (qle_trans x y z); assumption.
Qed.

Lemma fle64_total x y : fle64 x y = true \/ fle64 y x = true.
Proof. rewrite !fle64_qle. apply qle_total. Qed.

Lemma feq64_fle64 x y : feq64 x y = true <-> fle64 x y = true /\ fle64 y x = true.
Proof. rewrite feq64_qeq, !fle64_qle. apply qeq_qle. Qed.

(** ** exact rationals *)

Theorem QAlg_laws : FreqLaws QAlg (fun d => 0 < d)%N wf_frac.
Proof.
  constructor; cbn [F ratio fadd fle feqb fone QAlg].
  - intros x _. apply fle64_refl.
  - apply fle64_trans.
  - intros x y _ _. apply fle64_total.
  - intros x y _ _. apply feq64_fle64.
  - unfold wf_frac. cbn [fst snd]. lia.
  - intros n d Hd _. unfold wf_frac, q_ratio. cbn [fst snd]. lia.
  - intros n d Hd. unfold wf_frac, q_ratio. cbn [fst snd]. lia.
  - apply q_add_wf.
  - intros n1 n2 d Hd Hle. apply fle64_qle. unfold qle, q_ratio. cbn [fst snd].
    apply Z.mul_le_mono_nonneg_r; lia.
  - intros n1 n2 d Hd Hlt Hle. apply fle64_false_qlt. unfold qlt, q_ratio. cbn [fst snd].
    apply Z.mul_lt_mono_pos_r; lia.
  - intros n d Hd Hle. rewrite feq64_qeq. unfold qeq, q_ratio. cbn [fst snd]. lia.
  - intros n d Hd Hle. apply fle64_qle. unfold qle, q_ratio. cbn [fst snd]. lia.
  - intros d x Hd [Hx1 Hx2]. apply fle64_qle. destruct x as [a b].
    unfold qle, q_ratio. cbn [fst snd] in *. nia.
  - intros x x' y y' Wx Wx' Wy Wy' H1 H2. apply fle64_qle. apply fle64_qle in H1, H2.
    apply q_add_mono; assumption.
  - intros a b d Hd. apply fle64_qle. apply q_add_ge_l; unfold wf_frac, q_ratio; cbn [fst snd]; lia.
  - intros a b d Hd. apply fle64_qle. apply q_add_ge_r; unfold wf_frac, q_ratio; cbn [fst snd]; lia.
Qed.

(** ** binary64 *)

Definition okN53 (d : N) : Prop := (0 < d < 2 ^ 53)%N.

Lemma okN53_Z d : okN53 d -> 0 < Z.of_N d < 2 ^ 53.
Proof.
  unfold okN53. change (2 ^ 53)%N with 9007199254740992%N.
  change (2 ^ 53) with 9007199254740992. lia.
Qed.

Lemma b_ratio_wf n d : (0 < d)%N -> wf_frac (b_ratio n d).
Proof. intros Hd. unfold b_ratio, div64. apply round64_wf. cbn [snd]. lia. Qed.

Lemma b_ratio_mono n1 n2 d :
  (0 < d)%N -> (n1 <= n2)%N -> qle (b_ratio n1 d) (b_ratio n2 d).
Proof.
  intros Hd Hle. unfold b_ratio, div64.
  apply round64_mono; unfold wf_frac, qle; cbn [fst snd]; try lia.
  apply Z.mul_le_mono_nonneg_r; lia.
Qed.

Lemma b_ratio_one d : (0 < d)%N -> b_ratio d d = (2 ^ 52, 2 ^ 52).
Proof. intros Hd. unfold b_ratio, div64. apply round64_one. lia. Qed.

Lemma add64_wf x y : wf_frac x -> wf_frac y -> wf_frac (add64 x y).
Proof.
  intros Wx Wy. rewrite add64_q_add. apply round64_wf. apply (q_add_wf x y Wx Wy).
Qed.

Lemma add64_mono x x' y y' :
  wf_frac x -> wf_frac x' -> wf_frac y -> wf_frac y' ->
  qle x x' -> qle y y' -> qle (add64 x y) (add64 x' y').
Proof.
  intros Wx Wx' Wy Wy' H1 H2. rewrite !add64_q_add.
  apply round64_mono; [apply q_add_wf | apply q_add_wf | apply q_add_mono]; assumption.
Qed.

(** [x <= x (+) y] when [x] is a binary64 value (a fixed point of [round64]) *)
Lemma add64_ge_l x y :
  wf_frac x -> wf_frac y -> qeq (round64 x) x -> qle x (add64 x y).
Proof.
  intros Wx Wy Hfix. rewrite add64_q_add.
  pose proof (round64_mono x (q_add x y) Wx (q_add_wf x y Wx Wy) (q_add_ge_l x y Wx Wy)) as Hm.
  apply qle_of_qeq in Hfix. destruct Hfix as [_ Hge].
  apply (qle_trans x (round64 x) _); try assumption.
  - apply round64_wf. apply Wx.
  - apply round64_wf. apply (q_add_wf x y Wx Wy).
Qed.

Lemma add64_ge_r x y :
  wf_frac x -> wf_frac y -> qeq (round64 y) y -> qle y (add64 x y).
Proof.
  intros Wx Wy Hfix. rewrite add64_q_add.
  pose proof (round64_mono y (q_add x y) Wy (q_add_wf x y Wx Wy) (q_add_ge_r x y Wx Wy)) as Hm.
  apply qle_of_qeq in Hfix. destruct Hfix as [_ Hge].
  apply (qle_trans y (round64 y) _); try assumption.
  - apply round64_wf. apply Wy.
  - apply round64_wf. apply (q_add_wf x y Wx Wy).
Qed.

Lemma b_ratio_fix n d : (0 < d)%N -> qeq (round64 (b_ratio n d)) (b_ratio n d).
Proof. intros Hd. unfold b_ratio, div64. apply round64_idem. cbn [snd]. lia. Qed.

Theorem BAlg_laws : FreqLaws BAlg okN53 wf_frac.
Proof.
  constructor; cbn [F ratio fadd fle feqb fone BAlg].
  - intros x _. apply fle64_refl.
  - apply fle64_trans.
  - intros x y _ _. apply fle64_total.
  - intros x y _ _. apply feq64_fle64.
  - unfold wf_frac. cbn [fst snd]. lia.
  - intros n d Hd _. apply b_ratio_wf. apply Hd.
  - intros n d Hd. apply b_ratio_wf. apply Hd.
  - apply add64_wf.
  - intros n1 n2 d Hd Hle. apply fle64_qle. apply b_ratio_mono; [apply Hd | exact Hle].
  - intros n1 n2 d Hd Hlt Hle. apply fle64_false_qlt. unfold b_ratio.
    pose proof (okN53_Z d Hd). apply div64_strict; lia.
  - intros n d Hd Hle. rewrite feq64_qeq. unfold b_ratio.
    pose proof (okN53_Z d Hd).
    rewrite (div64_one_iff (Z.of_N n) (Z.of_N d)) by lia. lia.
  - intros n d Hd Hle. apply fle64_qle.
    pose proof (b_ratio_mono n d d (proj1 Hd) Hle) as Hm.
    rewrite b_ratio_one in Hm by apply Hd.
    destruct (b_ratio n d) as [a b]. unfold qle in *. cbn [fst snd] in *. lia.
  - intros d x Hd [Hx1 Hx2]. apply fle64_qle. unfold b_ratio, div64.
    rewrite round64_zero by lia. destruct x as [a b]. unfold qle. cbn [fst snd] in *. lia.
  - intros x x' y y' Wx Wx' Wy Wy' H1 H2. apply fle64_qle. apply fle64_qle in H1, H2.
    apply add64_mono; assumption.
  - intros a b d Hd. apply fle64_qle.
    apply add64_ge_l; [apply b_ratio_wf, Hd | apply b_ratio_wf, Hd | apply b_ratio_fix, Hd].
  - intros a b d Hd. apply fle64_qle.
    apply add64_ge_r; [apply b_ratio_wf, Hd | apply b_ratio_wf, Hd | apply b_ratio_fix, Hd].
Qed.
