(** * Properties of the software binary64 model [Lib/Bin64.v].

    [round64 (n, d)] (for [0 < n], [0 < d]) is characterised as
    [m * 2^e] where [e = expo n d] is the unique integer with
    [2^52 <= (n/d) / 2^e < 2^53] and [m = rnd_m ..] is the integer nearest to
    [(n/d) / 2^e] (ties to even).  Powers of two with a possibly negative
    exponent are handled through the pair [PP e = 2^max(e,0)],
    [QQ e = 2^max(-e,0)] ([2^e = PP e / QQ e]).

    Main results (all closed, no axioms):
    - [round64_wf]      the result is a well-formed fraction;
    - [round64_mono]    monotony (as rationals);
    - [round64_near]    the result is within half a grid step of the argument;
    - [round64_repr]    exactly representable values are fixed points;
    - [round64_idem]    idempotence;
    - [div64_strict]    [n1 < n2 <= d < 2^53 -> div64 n1 d < div64 n2 d];
    - [div64_one_iff]   [n <= d < 2^53 -> (div64 n d == 1 <-> n = d)]. *)
From Coq Require Import ZArith Bool Lia.
From Shexer Require Import Lib.Bin64.
Local Open Scope Z_scope.

(** ** fractions as rationals *)

Definition wf_frac (x : frac) : Prop := 0 <= fst x /\ 0 < snd x.
Definition qle (x y : frac) : Prop := fst x * snd y <= fst y * snd x.
Definition qlt (x y : frac) : Prop := fst x * snd y < fst y * snd x.
Definition qeq (x y : frac) : Prop := fst x * snd y = fst y * snd x.

Lemma fle64_qle x y : fle64 x y = true <-> qle x y.
Proof. destruct x, y; unfold fle64, qle; simpl. apply Z.leb_le. Qed.

Lemma fle64_false_qlt x y : fle64 x y = false <-> qlt y x.
Proof. destruct x, y; unfold fle64, qlt; simpl. rewrite Z.leb_gt. reflexivity. Qed.

Lemma feq64_qeq x y : feq64 x y = true <-> qeq x y.
Proof. destruct x, y; unfold feq64, qeq; simpl. apply Z.eqb_eq. Qed.

(** ** powers of two with a signed exponent *)

Definition PP (e : Z) : Z := 2 ^ Z.max e 0.
Definition QQ (e : Z) : Z := 2 ^ Z.max (- e) 0.

Lemma PP_pos e : 0 < PP e.
Proof. unfold PP. apply Z.pow_pos_nonneg; lia. Qed.

Lemma QQ_pos e : 0 < QQ e.
Proof. unfold QQ. apply Z.pow_pos_nonneg; lia. Qed.

Lemma PQ_shift e k j : 0 <= k -> 0 <= j -> e + k = j -> PP e * 2 ^ k = QQ e * 2 ^ j.
Proof.
  intros Hk Hj He. unfold PP, QQ. rewrite <- !Z.pow_add_r by lia. f_equal. lia.
Qed.

Lemma PQ_rel e1 e2 : e1 <= e2 -> PP e1 * QQ e2 * 2 ^ (e2 - e1) = PP e2 * QQ e1.
Proof.
  intros He. unfold PP, QQ. rewrite <- !Z.pow_add_r by lia. f_equal. lia.
Qed.

Lemma PP_nonneg_exp e : 0 <= e -> PP e = 2 ^ e /\ QQ e = 1.
Proof.
  intros He. unfold PP, QQ. rewrite Z.max_l by lia. rewrite Z.max_r by lia. split; reflexivity.
Qed.

Lemma PP_neg_exp e : e <= 0 -> PP e = 1 /\ QQ e = 2 ^ (- e).
Proof.
  intros He. unfold PP, QQ. rewrite Z.max_r by lia. rewrite Z.max_l by lia. split; reflexivity.
Qed.

Lemma pow2_ge_2 k : 1 <= k -> 2 <= 2 ^ k.
Proof.
  intros Hk. change 2 with (2 ^ 1) at 1. apply Z.pow_le_mono_r; lia.
Qed.

Lemma pow2_ge_1 k : 0 <= k -> 1 <= 2 ^ k.
Proof.
  intros Hk. change 1 with (2 ^ 0) at 1. apply Z.pow_le_mono_r; lia.
Qed.

(** ** the rounded significand *)

Definition rnd_m (a b : Z) : Z :=
  let m0 := a / b in
  let r := a mod b in
  if (b <? 2 * r) || ((b =? 2 * r) && Z.odd m0) then m0 + 1 else m0.

Lemma rnd_m_bounds a b : 0 < b -> a / b <= rnd_m a b <= a / b + 1.
Proof. intros Hb. unfold rnd_m. destruct (_ || _); lia. Qed.

(** nearest: [|m*b - a| <= b/2] *)
Lemma rnd_m_near a b : 0 < b -> - b <= 2 * (rnd_m a b * b - a) <= b.
Proof.
  intros Hb. unfold rnd_m.
  pose proof (Z.div_mod a b ltac:(lia)) as Hdm.
  pose proof (Z.mod_pos_bound a b Hb) as Hr.
  destruct (b <? 2 * (a mod b)) eqn:E1; cbn [orb andb].
  - apply Z.ltb_lt in E1. nia.
  - apply Z.ltb_ge in E1.
    destruct (b =? 2 * (a mod b)) eqn:E2; cbn [orb andb].
    + apply Z.eqb_eq in E2. destruct (Z.odd (a / b)); nia.
    + nia.
Qed.

Lemma rnd_m_exact k b : 0 < b -> rnd_m (k * b) b = k.
Proof.
  intros Hb. unfold rnd_m. rewrite Z.div_mul by lia. rewrite Z.mod_mul by lia.
  replace (b <? 2 * 0) with false by (symmetry; apply Z.ltb_ge; lia).
  replace (b =? 2 * 0) with false by (symmetry; apply Z.eqb_neq; lia).
  reflexivity.
Qed.

Lemma div_le_cross a b a' b' : 0 < b -> 0 < b' -> a * b' <= a' * b -> a / b <= a' / b'.
Proof.
  intros Hb Hb' Hc.
  pose proof (Z.div_mod a b ltac:(lia)) as H1.
  pose proof (Z.mod_pos_bound a b Hb) as H2.
  pose proof (Z.div_mod a' b' ltac:(lia)) as H3.
  pose proof (Z.mod_pos_bound a' b' Hb') as H4.
  destruct (Z_le_gt_dec (a / b) (a' / b')) as [Hle | Hgt]; [exact Hle | exfalso].
  set (m := a / b) in *. set (m' := a' / b') in *.
  set (r := a mod b) in *. set (r' := a' mod b') in *.
  assert (Hm : m' + 1 <= m) by lia.
  assert (E1 : (m' + 1) * (b * b') <= m * (b * b')) by (apply Z.mul_le_mono_nonneg_r; nia).
  nia.
Qed.

Lemma rnd_m_mono a b a' b' :
  0 < b -> 0 < b' -> a * b' <= a' * b -> rnd_m a b <= rnd_m a' b'.
Proof.
  intros Hb Hb' Hc.
  pose proof (div_le_cross a b a' b' Hb Hb' Hc) as Hm.
  pose proof (rnd_m_bounds a b Hb) as B1.
  pose proof (rnd_m_bounds a' b' Hb') as B2.
  destruct (Z.eq_dec (a / b) (a' / b')) as [Heq | Hne]; [| lia].
  unfold rnd_m. rewrite <- Heq.
  pose proof (Z.div_mod a b ltac:(lia)) as H1.
  pose proof (Z.mod_pos_bound a b Hb) as H2.
  pose proof (Z.div_mod a' b' ltac:(lia)) as H3.
  pose proof (Z.mod_pos_bound a' b' Hb') as H4.
  rewrite <- Heq in H3.
  set (m := a / b) in *. set (r := a mod b) in *. set (r' := a' mod b') in *.
  assert (Hr : r * b' <= r' * b) by nia.
  destruct (b <? 2 * r) eqn:E1; cbn [orb andb].
  - apply Z.ltb_lt in E1.
    assert (E1' : b' < 2 * r') by nia.
    apply Z.ltb_lt in E1'. rewrite E1'. cbn [orb andb]. lia.
  - destruct (b =? 2 * r) eqn:E2; cbn [orb andb].
    + apply Z.eqb_eq in E2.
      assert (E2' : b' <= 2 * r') by nia.
      destruct (Z.odd m) eqn:Eo.
      * destruct (Z.eq_dec b' (2 * r')) as [E3 | E3].
        -- apply Z.eqb_eq in E3. rewrite E3. cbn [orb andb]. rewrite orb_true_r. lia.
        -- assert (E4 : b' < 2 * r') by lia. apply Z.ltb_lt in E4. rewrite E4. cbn [orb andb]. lia.
      * destruct (_ || _); lia.
    + destruct (_ || _); lia.
Qed.

(** ** the binade *)

Definition expo (n d : Z) : Z :=
  let e0 := Z.log2 n - Z.log2 d - 52 in
  if (n * QQ e0) / (d * PP e0) <? 2 ^ 52 then e0 - 1 else e0.

Definition in_binade (n d e : Z) : Prop :=
  2 ^ 52 * (d * PP e) <= n * QQ e < 2 ^ 53 * (d * PP e).

Lemma scaled_eq n d e :
  (if 0 <=? e then (n, d * 2 ^ e) else (n * 2 ^ (- e), d)) = (n * QQ e, d * PP e).
Proof.
  destruct (0 <=? e) eqn:E.
  - apply Z.leb_le in E. destruct (PP_nonneg_exp e E) as [-> ->]. f_equal; lia.
  - apply Z.leb_gt in E. destruct (PP_neg_exp e ltac:(lia)) as [-> ->]. f_equal; lia.
Qed.

Lemma out_eq m e :
  (if 0 <=? e then (m * 2 ^ e, 1) else (m, 2 ^ (- e))) = (m * PP e, QQ e).
Proof.
  destruct (0 <=? e) eqn:E.
  - apply Z.leb_le in E. destruct (PP_nonneg_exp e E) as [-> ->]. reflexivity.
  - apply Z.leb_gt in E. destruct (PP_neg_exp e ltac:(lia)) as [-> ->]. f_equal; lia.
Qed.

Lemma round64_eq n d :
  0 < n ->
  round64 (n, d) =
  (rnd_m (n * QQ (expo n d)) (d * PP (expo n d)) * PP (expo n d), QQ (expo n d)).
Proof.
  intros Hn. unfold round64.
  replace (n <=? 0) with false by (symmetry; apply Z.leb_gt; lia).
  cbv zeta. rewrite !scaled_eq.
  fold (expo n d). rewrite out_eq. reflexivity.
Qed.

Lemma round64_zero n d : n <= 0 -> round64 (n, d) = (0, 1).
Proof.
  intros Hn. unfold round64.
  replace (n <=? 0) with true by (symmetry; apply Z.leb_le; lia). reflexivity.
Qed.

(** abstract arithmetic used for the binade bounds ([T] stands for [2^51]) *)
Lemma binade0_aux T d n p q A B :
  0 < T -> 0 < p -> 0 < q -> 0 < A -> 0 < B ->
  A <= d < 2 * A -> B <= n < 2 * B ->
  p * (A * (2 * T)) = q * B ->
  T * (d * p) <= n * q < 4 * T * (d * p).
Proof.
  intros HT Hp Hq HA HB Hd Hn He. split.
  - assert (E1 : T * (d * p) <= T * (2 * A * p)) by (apply Z.mul_le_mono_nonneg_l; nia).
    assert (E2 : q * B <= q * n) by (apply Z.mul_le_mono_nonneg_l; lia).
    lia.
  - assert (E1 : n * q < 2 * B * q) by (apply Z.mul_lt_mono_pos_r; lia).
    assert (E2 : 4 * T * (A * p) <= 4 * T * (d * p)) by (apply Z.mul_le_mono_nonneg_l; nia).
    lia.
Qed.

Lemma expo_spec n d : 0 < n -> 0 < d -> in_binade n d (expo n d).
Proof.
  intros Hn Hd. unfold in_binade, expo.
  set (ln := Z.log2 n). set (ld := Z.log2 d). set (e0 := ln - ld - 52).
  pose proof (Z.log2_spec n Hn) as Sn. pose proof (Z.log2_spec d Hd) as Sd.
  pose proof (Z.log2_nonneg n) as Nn. pose proof (Z.log2_nonneg d) as Nd.
  fold ln in Sn, Nn. fold ld in Sd, Nd.
  rewrite Z.pow_succ_r in Sn, Sd by lia.
  pose proof (PP_pos e0) as Hp. pose proof (QQ_pos e0) as Hq.
  assert (Hs : PP e0 * 2 ^ (ld + 52) = QQ e0 * 2 ^ ln) by (apply PQ_shift; unfold e0; lia).
  rewrite Z.pow_add_r in Hs by lia.
  assert (HA : 0 < 2 ^ ld) by (apply Z.pow_pos_nonneg; lia).
  assert (HB : 0 < 2 ^ ln) by (apply Z.pow_pos_nonneg; lia).
  change (2 ^ 52) with (2 * 2 ^ 51) in Hs.
  pose proof (binade0_aux (2 ^ 51) d n (PP e0) (QQ e0) (2 ^ ld) (2 ^ ln)
                ltac:(reflexivity) Hp Hq HA HB Sd Sn Hs) as [L0 U0].
  change (4 * 2 ^ 51) with (2 ^ 53) in U0.
  assert (Hb : 0 < d * PP e0) by nia.
  destruct (n * QQ e0 / (d * PP e0) <? 2 ^ 52) eqn:E.
  - apply Z.ltb_lt in E.
    assert (U1 : n * QQ e0 < 2 ^ 52 * (d * PP e0)).
    { pose proof (Z.div_mod (n * QQ e0) (d * PP e0) ltac:(lia)) as H1.
      pose proof (Z.mod_pos_bound (n * QQ e0) (d * PP e0) Hb) as H2.
      set (mm := n * QQ e0 / (d * PP e0)) in *.
      assert (E1 : (d * PP e0) * (mm + 1) <= (d * PP e0) * 2 ^ 52)
        by (apply Z.mul_le_mono_nonneg_l; lia).
      lia. }
    pose proof (PQ_rel (e0 - 1) e0 ltac:(lia)) as Hr.
    replace (e0 - (e0 - 1)) with 1 in Hr by lia. change (2 ^ 1) with 2 in Hr.
    pose proof (PP_pos (e0 - 1)) as Hp'. pose proof (QQ_pos (e0 - 1)) as Hq'.
    set (p := PP e0) in *. set (q := QQ e0) in *.
    set (p' := PP (e0 - 1)) in *. set (q' := QQ (e0 - 1)) in *.
    (* 2 p' q = p q' *)
    change (2 ^ 52) with (2 * 2 ^ 51). change (2 ^ 53) with (2 * (2 * 2 ^ 51)).
    change (2 ^ 52) with (2 * 2 ^ 51) in U1.
    set (T := 2 ^ 51) in *. assert (HT : 0 < T) by reflexivity.
    split.
    + (* 2T d p' <= n q'  <-  T d p <= n q, times q', cancel q *)
      assert (E1 : (T * (d * p)) * q' <= (n * q) * q') by (apply Z.mul_le_mono_nonneg_r; lia).
      assert (E2 : q * (2 * T * (d * p')) <= q * (n * q')).
      { replace (q * (2 * T * (d * p'))) with (T * d * (p' * q * 2)) by ring.
        rewrite Hr. lia. }
      apply Z.mul_le_mono_pos_l in E2; lia.
    + assert (E1 : (n * q) * q' < (2 * T * (d * p)) * q') by (apply Z.mul_lt_mono_pos_r; lia).
      assert (E2 : q * (n * q') < q * (2 * (2 * T) * (d * p'))).
      { replace (q * (2 * (2 * T) * (d * p'))) with (2 * T * d * (p' * q * 2)) by ring.
        rewrite Hr. lia. }
      apply Z.mul_lt_mono_pos_l in E2; lia.
  - apply Z.ltb_ge in E. split; [| exact U0].
    pose proof (Z.div_mod (n * QQ e0) (d * PP e0) ltac:(lia)) as H1.
    pose proof (Z.mod_pos_bound (n * QQ e0) (d * PP e0) Hb) as H2.
    set (mm := n * QQ e0 / (d * PP e0)) in *.
    assert (E1 : (d * PP e0) * 2 ^ 52 <= (d * PP e0) * mm)
      by (apply Z.mul_le_mono_nonneg_l; lia).
    lia.
Qed.

(** significand bounds inside the binade *)
Lemma binade_m n d e :
  0 < d -> in_binade n d e ->
  2 ^ 52 <= (n * QQ e) / (d * PP e) < 2 ^ 53.
Proof.
  intros Hd [L U]. pose proof (PP_pos e) as Hp.
  assert (Hb : 0 < d * PP e) by nia. split.
  - apply Z.div_le_lower_bound; lia.
  - apply Z.div_lt_upper_bound; lia.
Qed.

Lemma binade_rnd n d e :
  0 < d -> in_binade n d e ->
  2 ^ 52 <= rnd_m (n * QQ e) (d * PP e) <= 2 ^ 53.
Proof.
  intros Hd Hb. pose proof (binade_m n d e Hd Hb) as Hm. pose proof (PP_pos e) as Hp.
  pose proof (rnd_m_bounds (n * QQ e) (d * PP e) ltac:(nia)). lia.
Qed.

(** two binades of ordered values are ordered *)
Lemma binade_order_aux T d p n q d' p' n' q' :
  0 < T -> 0 < d -> 0 < p -> 0 < q -> 0 < d' -> 0 < p' -> 0 < q' ->
  T * (d * p) <= n * q -> n' * q' < 2 * T * (d' * p') -> n * d' <= n' * d ->
  p * q' < 2 * (p' * q).
Proof.
  intros HT Hd Hp Hq Hd' Hp' Hq' H1 H2 H3.
  assert (E1 : (T * (d * p)) * (d' * q') <= (n * q) * (d' * q'))
    by (apply Z.mul_le_mono_nonneg_r; nia).
  assert (E2 : (n * d') * (q * q') <= (n' * d) * (q * q'))
    by (apply Z.mul_le_mono_nonneg_r; nia).
  assert (E3 : (n' * q') * (d * q) < (2 * T * (d' * p')) * (d * q))
    by (apply Z.mul_lt_mono_pos_r; nia).
  assert (E4 : (T * d * d') * (p * q') < (T * d * d') * (2 * (p' * q))) by lia.
  apply Z.mul_lt_mono_pos_l in E4; nia.
Qed.

Lemma binade_order n d e n' d' e' :
  0 < d -> 0 < d' -> in_binade n d e -> in_binade n' d' e' ->
  n * d' <= n' * d -> e <= e'.
Proof.
  intros Hd Hd' [L _] [_ U'] Hle.
  destruct (Z_le_gt_dec e e') as [H | H]; [exact H | exfalso].
  pose proof (PQ_rel e' e ltac:(lia)) as Hr.
  pose proof (pow2_ge_2 (e - e') ltac:(lia)) as Ht.
  pose proof (PP_pos e) as Hp. pose proof (QQ_pos e) as Hq.
  pose proof (PP_pos e') as Hp'. pose proof (QQ_pos e') as Hq'.
  change (2 ^ 53) with (2 * 2 ^ 52) in U'.
  pose proof (binade_order_aux (2 ^ 52) d (PP e) n (QQ e) d' (PP e') n' (QQ e')
                ltac:(reflexivity) Hd Hp Hq Hd' Hp' Hq' L U' Hle) as Hc.
  set (t := 2 ^ (e - e')) in *.
  assert (E : (PP e' * QQ e) * 2 <= (PP e' * QQ e) * t) by (apply Z.mul_le_mono_nonneg_l; nia).
  lia.
Qed.

Lemma binade_unique n d e e' :
  0 < d -> in_binade n d e -> in_binade n d e' -> e = e'.
Proof.
  intros Hd H1 H2.
  pose proof (binade_order n d e n d e' Hd Hd H1 H2 ltac:(lia)).
  pose proof (binade_order n d e' n d e Hd Hd H2 H1 ltac:(lia)). lia.
Qed.

Lemma expo_unique n d e : 0 < n -> 0 < d -> in_binade n d e -> expo n d = e.
Proof.
  intros Hn Hd H. apply (binade_unique n d); auto. apply expo_spec; auto.
Qed.

(** ** well-formedness *)

Lemma round64_wf x : 0 < snd x -> wf_frac (round64 x).
Proof.
  destruct x as [n d]. cbn [fst snd]. intros Hd.
  destruct (Z_le_gt_dec n 0) as [Hn | Hn].
  - rewrite round64_zero by lia. split; cbn [fst snd]; lia.
  - rewrite round64_eq by lia.
    pose proof (binade_rnd n d _ Hd (expo_spec n d ltac:(lia) Hd)) as Hm.
    pose proof (PP_pos (expo n d)). pose proof (QQ_pos (expo n d)).
    split; cbn [fst snd]; [nia | lia].
Qed.

Lemma round64_pos n d : 0 < n -> 0 < d -> 0 < fst (round64 (n, d)).
Proof.
  intros Hn Hd. rewrite round64_eq by lia.
  pose proof (binade_rnd n d _ Hd (expo_spec n d ltac:(lia) Hd)) as Hm.
  pose proof (PP_pos (expo n d)). cbn [fst snd]. nia.
Qed.

(** ** monotony *)

Lemma round64_mono_pos n d n' d' :
  0 < n -> 0 < d -> 0 < n' -> 0 < d' -> n * d' <= n' * d ->
  qle (round64 (n, d)) (round64 (n', d')).
Proof.
  intros Hn Hd Hn' Hd' Hle.
  rewrite !round64_eq by lia.
  pose proof (expo_spec n d Hn Hd) as B. pose proof (expo_spec n' d' Hn' Hd') as B'.
  set (e := expo n d) in *. set (e' := expo n' d') in *.
  pose proof (binade_order n d e n' d' e' Hd Hd' B B' Hle) as Hee.
  pose proof (binade_rnd n d e Hd B) as M. pose proof (binade_rnd n' d' e' Hd' B') as M'.
  pose proof (PP_pos e) as Hp. pose proof (QQ_pos e) as Hq.
  pose proof (PP_pos e') as Hp'. pose proof (QQ_pos e') as Hq'.
  unfold qle; cbn [fst snd].
  destruct (Z.eq_dec e e') as [Heq | Hne].
  - rewrite <- Heq.
    assert (Hm : rnd_m (n * QQ e) (d * PP e) <= rnd_m (n' * QQ e) (d' * PP e)).
    { apply rnd_m_mono; [nia | nia |].
      replace (n * QQ e * (d' * PP e)) with ((n * d') * (QQ e * PP e)) by ring.
      replace (n' * QQ e * (d * PP e)) with ((n' * d) * (QQ e * PP e)) by ring.
      apply Z.mul_le_mono_nonneg_r; nia. }
    rewrite <- Heq in M'.
    set (m := rnd_m (n * QQ e) (d * PP e)) in *.
    set (m' := rnd_m (n' * QQ e) (d' * PP e)) in *.
    replace (m * PP e * QQ e) with (m * (PP e * QQ e)) by ring.
    replace (m' * PP e * QQ e) with (m' * (PP e * QQ e)) by ring.
    apply Z.mul_le_mono_nonneg_r; nia.
  - pose proof (PQ_rel e e' Hee) as Hr.
    pose proof (pow2_ge_2 (e' - e) ltac:(lia)) as Ht.
    set (m := rnd_m (n * QQ e) (d * PP e)) in *.
    set (m' := rnd_m (n' * QQ e') (d' * PP e')) in *.
    set (t := 2 ^ (e' - e)) in *.
    set (K := PP e * QQ e') in *.
    assert (HK : 0 < K) by (unfold K; nia).
    change (2 ^ 53) with (2 * 2 ^ 52) in M.
    set (T := 2 ^ 52) in *. assert (HT : 0 < T) by reflexivity.
    replace (m * PP e * QQ e') with (m * K) by (unfold K; ring).
    replace (m' * PP e' * QQ e) with (m' * (K * t)) by (rewrite Hr; ring).
    assert (E1 : m * K <= (2 * T) * K) by (apply Z.mul_le_mono_nonneg_r; lia).
    assert (E2 : T * (K * t) <= m' * (K * t)) by (apply Z.mul_le_mono_nonneg_r; nia).
    assert (E3 : (T * K) * 2 <= (T * K) * t) by (apply Z.mul_le_mono_nonneg_l; nia).
    lia.
Qed.

Theorem round64_mono x y :
  wf_frac x -> wf_frac y -> qle x y -> qle (round64 x) (round64 y).
Proof.
  destruct x as [n d], y as [n' d']. unfold wf_frac, qle at 1. cbn [fst snd].
  intros [Hn Hd] [Hn' Hd'] Hle.
  destruct (Z.eq_dec n 0) as [-> | Hnz].
  - rewrite (round64_zero 0 d) by lia.
    pose proof (round64_wf (n', d') Hd') as [W1 W2].
    unfold qle. cbn [fst snd]. lia.
  - assert (0 < n') by nia.
    apply round64_mono_pos; lia.
Qed.

(** ** nearest *)

(** [round64 (n,d) = (m * PP e, QQ e)] with [|m * (d PP e) - n QQ e| <= (d PP e)/2] *)
Lemma round64_near n d :
  0 < n -> 0 < d ->
  exists m e, round64 (n, d) = (m * PP e, QQ e) /\ in_binade n d e /\
              2 ^ 52 <= m <= 2 ^ 53 /\
              - (d * PP e) <= 2 * (m * (d * PP e) - n * QQ e) <= d * PP e.
Proof.
  intros Hn Hd. exists (rnd_m (n * QQ (expo n d)) (d * PP (expo n d))), (expo n d).
  pose proof (expo_spec n d Hn Hd) as B. pose proof (PP_pos (expo n d)) as Hp.
  split; [apply round64_eq; lia |]. split; [exact B |]. split.
  - apply binade_rnd; auto.
  - apply rnd_m_near. nia.
Qed.

(** ** representable values are fixed points *)

Theorem round64_repr n d M e :
  0 < d -> 2 ^ 52 <= M < 2 ^ 53 -> n * QQ e = M * (d * PP e) ->
  round64 (n, d) = (M * PP e, QQ e).
Proof.
  intros Hd HM Heq.
  pose proof (PP_pos e) as Hp. pose proof (QQ_pos e) as Hq.
  assert (Hn : 0 < n) by nia.
  assert (B : in_binade n d e).
  { unfold in_binade. rewrite Heq. split.
    - apply Z.mul_le_mono_nonneg_r; nia.
    - apply Z.mul_lt_mono_pos_r; nia. }
  rewrite round64_eq by lia. rewrite (expo_unique n d e Hn Hd B).
  rewrite Heq. rewrite rnd_m_exact by nia. reflexivity.
Qed.

Corollary round64_repr_qeq n d M e :
  0 < d -> 2 ^ 52 <= M < 2 ^ 53 -> n * QQ e = M * (d * PP e) ->
  qeq (round64 (n, d)) (n, d).
Proof.
  intros Hd HM Heq. rewrite (round64_repr n d M e Hd HM Heq).
  unfold qeq. cbn [fst snd]. rewrite Heq. ring.
Qed.

Lemma round64_one d : 0 < d -> round64 (d, d) = (2 ^ 52, 2 ^ 52).
Proof.
  intros Hd. apply (round64_repr d d (2 ^ 52) (-52)); [lia | split; [lia | reflexivity] |].
  change (QQ (-52)) with (2 ^ 52). change (PP (-52)) with 1. ring.
Qed.

Theorem round64_idem x : 0 < snd x -> qeq (round64 (round64 x)) (round64 x).
Proof.
  destruct x as [n d]. cbn [fst snd]. intros Hd.
  destruct (Z_le_gt_dec n 0) as [Hn | Hn].
  - rewrite round64_zero by lia. rewrite round64_zero by lia. reflexivity.
  - destruct (round64_near n d ltac:(lia) Hd) as (m & e & Er & B & Hm & _).
    rewrite Er.
    pose proof (PP_pos e) as Hp. pose proof (QQ_pos e) as Hq.
    destruct (Z.eq_dec m (2 ^ 53)) as [-> | Hne].
    + apply (round64_repr_qeq _ _ (2 ^ 52) (e + 1)); [lia | split; [lia | reflexivity] |].
      pose proof (PQ_rel e (e + 1) ltac:(lia)) as Hr.
      replace (e + 1 - e) with 1 in Hr by lia. change (2 ^ 1) with 2 in Hr.
      change (2 ^ 53) with (2 ^ 52 * 2).
      replace (2 ^ 52 * 2 * PP e * QQ (e + 1)) with (2 ^ 52 * (PP e * QQ (e + 1) * 2)) by ring.
      rewrite Hr. ring.
    + apply (round64_repr_qeq _ _ m e); [lia | lia | ring].
Qed.

(** ** strictness for ratios with a common denominator below 2^53 *)

Lemma strict_aux_lt n1 n2 d m1 m2 t Q2 :
  0 < d -> 0 < t -> 0 < Q2 -> n1 < n2 -> d < Q2 ->
  2 * (m1 * d - n1 * (Q2 * t)) <= d ->
  - d <= 2 * (m2 * d - n2 * Q2) ->
  m2 * t <= m1 -> False.
Proof.
  intros Hd Ht HQ Hn HdQ H1 H2 Hm.
  assert (E1 : (m2 * t) * d <= m1 * d) by (apply Z.mul_le_mono_nonneg_r; lia).
  assert (E2 : (- d) * t <= (2 * (m2 * d - n2 * Q2)) * t) by (apply Z.mul_le_mono_nonneg_r; lia).
  assert (E3 : (n1 + 1) * (Q2 * t) <= n2 * (Q2 * t)) by (apply Z.mul_le_mono_nonneg_r; nia).
  assert (E4 : d * 1 <= d * t) by (apply Z.mul_le_mono_nonneg_l; lia).
  assert (E5 : (d + 1) * t <= Q2 * t) by (apply Z.mul_le_mono_nonneg_r; lia).
  nia.
Qed.

(** a value below one lies in a binade with exponent at most -53 *)
Lemma below_one_expo n d e : 0 < d -> n < d -> in_binade n d e -> e <= -53.
Proof.
  intros Hd Hlt [L _].
  pose proof (PP_pos e) as Hp. pose proof (QQ_pos e) as Hq.
  destruct (Z_le_gt_dec e (-53)) as [H | H]; [exact H | exfalso].
  pose proof (PQ_shift e 52 (e + 52) ltac:(lia) ltac:(lia) eq_refl) as Hs.
  pose proof (pow2_ge_1 (e + 52) ltac:(lia)) as Ht.
  set (t := 2 ^ (e + 52)) in *.
  assert (E1 : QQ e * 1 <= QQ e * t) by (apply Z.mul_le_mono_nonneg_l; lia).
  assert (E2 : n * QQ e < d * QQ e) by (apply Z.mul_lt_mono_pos_r; lia).
  assert (E3 : d * (QQ e * t) <= d * (PP e * 2 ^ 52)) by lia.
  nia.
Qed.

Theorem div64_strict n1 n2 d :
  0 <= n1 -> n1 < n2 -> n2 <= d -> d < 2 ^ 53 ->
  qlt (div64 n1 d) (div64 n2 d).
Proof.
  intros Hn1 Hlt Hle Hd53. unfold div64.
  assert (Hd : 0 < d) by lia.
  destruct (Z.eq_dec n1 0) as [-> | Hnz].
  - rewrite (round64_zero 0 d) by lia.
    pose proof (round64_pos n2 d ltac:(lia) Hd) as Hp.
    destruct (round64 (n2, d)) as [a b]. unfold qlt. cbn [fst snd] in *. lia.
  - assert (Hn1p : 0 < n1) by lia.
    destruct (round64_near n1 d Hn1p Hd) as (m1 & e1 & Er1 & B1 & Hm1 & [_ N1]).
    pose proof (PP_pos e1) as Hp1. pose proof (QQ_pos e1) as Hq1.
    (* x1 < 1 hence e1 <= -53 *)
    assert (He1 : e1 <= -53) by (apply (below_one_expo n1 d); auto; lia).
    destruct (PP_neg_exp e1 ltac:(lia)) as [P1 Q1].
    assert (N1' : 2 * (m1 * d - n1 * QQ e1) <= d) by (rewrite P1 in N1; lia).
    assert (Er1' : round64 (n1, d) = (m1, QQ e1)) by (rewrite Er1, P1; f_equal; lia).
    clear N1 Er1. rewrite Er1'.
    destruct (Z.eq_dec n2 d) as [-> | Hne].
    + rewrite round64_one by lia. unfold qlt. cbn [fst snd].
      (* m1 < QQ e1 *)
      assert (E0 : 2 ^ 53 <= QQ e1).
      { rewrite Q1. apply Z.pow_le_mono_r; lia. }
      assert (E1 : (n1 + 1) * QQ e1 <= d * QQ e1) by (apply Z.mul_le_mono_nonneg_r; lia).
      assert (E2 : m1 * d < QQ e1 * d) by lia.
      apply Z.mul_lt_mono_pos_r in E2; lia.
    + assert (Hn2p : 0 < n2) by lia.
      destruct (round64_near n2 d Hn2p Hd) as (m2 & e2 & Er2 & B2 & Hm2 & [N2 _]).
      pose proof (PP_pos e2) as Hp2. pose proof (QQ_pos e2) as Hq2.
      assert (He2 : e2 <= -53) by (apply (below_one_expo n2 d); auto; lia).
      pose proof (binade_order n1 d e1 n2 d e2 Hd Hd B1 B2 ltac:(nia)) as He12.
      destruct (PP_neg_exp e2 ltac:(lia)) as [P2 Q2].
      assert (N2' : - d <= 2 * (m2 * d - n2 * QQ e2)) by (rewrite P2 in N2; lia).
      assert (Er2' : round64 (n2, d) = (m2, QQ e2)) by (rewrite Er2, P2; f_equal; lia).
      clear N2 Er2. rewrite Er2'. unfold qlt. cbn [fst snd].
      pose proof (PQ_rel e1 e2 He12) as Hr. rewrite P1, P2 in Hr.
      rewrite !Z.mul_1_l in Hr.
      pose proof (pow2_ge_1 (e2 - e1) ltac:(lia)) as Ht.
      set (t := 2 ^ (e2 - e1)) in *.
      assert (E0 : 2 ^ 53 <= QQ e2).
      { rewrite Q2. apply Z.pow_le_mono_r; lia. }
      destruct (Z_lt_ge_dec (m1 * QQ e2) (m2 * QQ e1)) as [Hok | Hbad]; [exact Hok | exfalso].
      rewrite <- Hr in Hbad, N1'.
      assert (Hm : m2 * t <= m1).
      { assert (E : QQ e2 * (m2 * t) <= QQ e2 * m1) by lia.
        apply Z.mul_le_mono_pos_l in E; lia. }
      apply (strict_aux_lt n1 n2 d m1 m2 t (QQ e2)); lia.
Qed.

Theorem div64_one_iff n d :
  0 <= n -> n <= d -> 0 < d -> d < 2 ^ 53 ->
  (qeq (div64 n d) (1, 1) <-> n = d).
Proof.
  intros Hn Hle Hd Hd53. split.
  - intros Heq. destruct (Z.eq_dec n d) as [E | E]; [exact E | exfalso].
    pose proof (div64_strict n d d Hn ltac:(lia) ltac:(lia) Hd53) as Hs.
    unfold div64 in *. rewrite round64_one in Hs by lia.
    destruct (round64 (n, d)) as [a b]. unfold qeq, qlt in *. cbn [fst snd] in *. lia.
  - intros ->. unfold div64. rewrite round64_one by lia. reflexivity.
Qed.
