(** * Sums of two binary64 ratios with a common denominator.

    [sum_eq_one]  : [a + b = d -> div64 a d (+) div64 b d == 1]   (any [0 < d])
    [sum_lt_one]  : [a + b < d <= 2^52 -> div64 a d (+) div64 b d < 1]
    The second statement is false for denominators between [2^52] and [2^53]
    (see [Props/FreqLawsProps.v], [sum_lt_one_needs_bound]). *)
From Coq Require Import ZArith Bool Lia.
From Shexer Require Import Lib.Bin64 Model.Freq Model.FreqInst Proofs.Bin64Round Proofs.FreqLaws.
Local Open Scope Z_scope.

Lemma add64_comm x y : add64 x y = add64 y x.
Proof. destruct x as [a b], y as [c d]. unfold add64. f_equal. f_equal; ring. Qed.

(** values within half an ulp of one round to one (squeeze by monotony) *)
Lemma round64_near_one N D :
  0 < D -> (2 ^ 54 - 1) * D <= 2 ^ 54 * N -> 2 ^ 54 * N <= (2 ^ 54 + 1) * D ->
  qeq (round64 (N, D)) (1, 1).
Proof.
  intros HD Hlo Hhi.
  assert (HN : 0 <= N) by nia.
  assert (Elo : round64 (2 ^ 54 - 1, 2 ^ 54) = (2 ^ 53, 2 ^ 53)) by (vm_compute; reflexivity).
  assert (Ehi : round64 (2 ^ 54 + 1, 2 ^ 54) = (2 ^ 52, 2 ^ 52)) by (vm_compute; reflexivity).
  pose proof (round64_mono (2 ^ 54 - 1, 2 ^ 54) (N, D)) as M1.
  pose proof (round64_mono (N, D) (2 ^ 54 + 1, 2 ^ 54)) as M2.
  pose proof (round64_wf (N, D) HD) as [W1 W2].
  rewrite Elo in M1. rewrite Ehi in M2.
  destruct (round64 (N, D)) as [p q]. unfold wf_frac, qle, qeq in *. cbn [fst snd] in *.
  assert (E1 : 2 ^ 53 * q <= p * 2 ^ 53) by (apply M1; lia).
  assert (E2 : p * 2 ^ 52 <= 2 ^ 52 * q) by (apply M2; lia).
  lia.
Qed.

(** the half-and-half case *)
Lemma div64_half a : 0 < a -> div64 a (2 * a) = (2 ^ 52, 2 ^ 53).
Proof.
  intros Ha. unfold div64.
  rewrite (round64_repr a (2 * a) (2 ^ 52) (-53)); [reflexivity | lia | split; [lia | reflexivity] |].
  change (QQ (-53)) with (2 * 2 ^ 52). change (PP (-53)) with 1. ring.
Qed.

Lemma sum_eq_one_ordered a b d :
  0 < a -> 0 < b -> a + b = d -> 2 * a <= d ->
  qeq (add64 (div64 a d) (div64 b d)) (1, 1).
Proof.
  intros Ha Hb Hsum Hhalf. assert (Hd : 0 < d) by lia.
  destruct (Z.eq_dec (2 * a) d) as [E | E].
  - assert (b = a) by lia. subst b. rewrite <- E. rewrite div64_half by lia.
    vm_compute. reflexivity.
  - unfold div64.
    destruct (round64_near b d Hb Hd) as (m2 & e2 & Er2 & B2 & Hm2 & N2).
    assert (B2' : in_binade b d (-53)).
    { unfold in_binade. change (QQ (-53)) with (2 * 2 ^ 52). change (PP (-53)) with 1.
      change (2 ^ 53) with (2 * 2 ^ 52). lia. }
    pose proof (binade_unique b d e2 (-53) Hd B2 B2') as ->.
    change (PP (-53)) with 1 in *. change (QQ (-53)) with (2 ^ 53) in *.
    destruct (round64_near a d Ha Hd) as (m1 & e1 & Er1 & B1 & Hm1 & N1).
    assert (He1 : e1 <= -53) by (apply (below_one_expo a d); auto; lia).
    assert (He1' : e1 <> -53).
    { intros ->. destruct B1 as [L _].
      change (QQ (-53)) with (2 * 2 ^ 52) in L. change (PP (-53)) with 1 in L. lia. }
    destruct (PP_neg_exp e1 ltac:(lia)) as [P1 Q1]. rewrite P1 in *.
    pose proof (PQ_rel e1 (-53) He1) as Hr. rewrite P1 in Hr.
    change (PP (-53)) with 1 in Hr. change (QQ (-53)) with (2 ^ 53) in Hr.
    replace (-53 - e1) with (Z.succ (-54 - e1)) in Hr by lia.
    rewrite Z.pow_succ_r in Hr by lia.
    pose proof (pow2_ge_1 (-54 - e1) ltac:(lia)) as Ht.
    set (t' := 2 ^ (-54 - e1)) in *.
    pose proof (QQ_pos e1) as Hq1.
    set (q1 := QQ e1) in *.
    (* q1 = 2^53 * (2 t') *)
    assert (Hq : q1 = 2 ^ 53 * (2 * t')) by lia.
    rewrite Er1, Er2. rewrite add64_q_add.
    unfold q_add. rewrite !Z.mul_1_r.
    set (X := m1 + m2 * (2 * t') - q1).
    assert (HX : - t' <= X <= t').
    { assert (EX : 2 * (X * d) =
                   2 * (m1 * (d * 1) - a * q1) + (2 * (m2 * (d * 1) - b * 2 ^ 53)) * (2 * t')).
      { unfold X. rewrite Hq. replace a with (d - b) by lia. ring. }
      destruct N1 as [N1a N1b]. destruct N2 as [N2a N2b].
      assert (F1 : (- (d * 1)) * (2 * t') <= (2 * (m2 * (d * 1) - b * 2 ^ 53)) * (2 * t'))
        by (apply Z.mul_le_mono_nonneg_r; lia).
      assert (F2 : (2 * (m2 * (d * 1) - b * 2 ^ 53)) * (2 * t') <= (d * 1) * (2 * t'))
        by (apply Z.mul_le_mono_nonneg_r; lia).
      assert (G1 : d * (- (1 + 2 * t')) <= d * (2 * X)) by lia.
      assert (G2 : d * (2 * X) <= d * (1 + 2 * t')) by lia.
      apply Z.mul_le_mono_pos_l in G1; [| lia].
      apply Z.mul_le_mono_pos_l in G2; [| lia].
      lia. }
    apply round64_near_one.
    + nia.
    + replace (m1 * 2 ^ 53 + m2 * q1) with (2 ^ 53 * (X + q1)) by (unfold X; rewrite Hq; ring).
      replace (q1 * 2 ^ 53) with (2 ^ 53 * q1) by ring.
      rewrite Hq. change (2 ^ 54) with (2 * 2 ^ 53).
      set (T := 2 ^ 53) in *. assert (HT : 0 < T) by reflexivity.
      assert (G : T * (T * (- (2 * t'))) <= T * (T * (2 * X))).
      { apply Z.mul_le_mono_nonneg_l; [lia |]. apply Z.mul_le_mono_nonneg_l; lia. }
      nia.
    + replace (m1 * 2 ^ 53 + m2 * q1) with (2 ^ 53 * (X + q1)) by (unfold X; rewrite Hq; ring).
      replace (q1 * 2 ^ 53) with (2 ^ 53 * q1) by ring.
      rewrite Hq. change (2 ^ 54) with (2 * 2 ^ 53).
      set (T := 2 ^ 53) in *. assert (HT : 0 < T) by reflexivity.
      assert (G : T * (T * (2 * X)) <= T * (T * (2 * t'))).
      { apply Z.mul_le_mono_nonneg_l; [lia |]. apply Z.mul_le_mono_nonneg_l; lia. }
      nia.
Qed.

Theorem sum_eq_one a b d :
  0 <= a -> 0 <= b -> 0 < d -> a + b = d ->
  qeq (add64 (div64 a d) (div64 b d)) (1, 1).
Proof.
  intros Ha Hb Hd Hsum.
  destruct (Z.eq_dec a 0) as [-> | Ha0].
  - replace b with d by lia. unfold div64. rewrite (round64_zero 0 d) by lia.
    rewrite round64_one by lia. vm_compute. reflexivity.
  - destruct (Z.eq_dec b 0) as [-> | Hb0].
    + replace a with d by lia. unfold div64. rewrite (round64_zero 0 d) by lia.
      rewrite round64_one by lia. vm_compute. reflexivity.
    + destruct (Z_le_gt_dec (2 * a) d) as [H | H].
      * apply sum_eq_one_ordered; lia.
      * rewrite add64_comm. apply sum_eq_one_ordered; lia.
Qed.

(** a quotient below one exceeds the exact value by at most 2^-54 *)
Lemma div64_upper n d :
  0 <= n -> n < d ->
  exists p q, div64 n d = (p, q) /\ 0 <= p /\ 0 < q /\ 2 ^ 54 * (p * d - n * q) <= d * q.
Proof.
  intros Hn Hlt. assert (Hd : 0 < d) by lia. unfold div64.
  destruct (Z.eq_dec n 0) as [-> | Hn0].
  - exists 0, 1. rewrite round64_zero by lia. repeat split; lia.
  - destruct (round64_near n d ltac:(lia) Hd) as (m & e & Er & B & Hm & [_ Nu]).
    assert (He : e <= -53) by (apply (below_one_expo n d); auto).
    destruct (PP_neg_exp e ltac:(lia)) as [P1 Q1].
    exists m, (QQ e). pose proof (QQ_pos e) as Hq.
    rewrite Er, P1. rewrite Z.mul_1_r. rewrite P1 in Nu.
    assert (E0 : 2 ^ 53 <= QQ e) by (rewrite Q1; apply Z.pow_le_mono_r; lia).
    repeat split; try lia.
    change (2 ^ 54) with (2 ^ 53 * 2).
    assert (E1 : d * 2 ^ 53 <= d * QQ e) by (apply Z.mul_le_mono_nonneg_l; lia).
    lia.
Qed.

Theorem sum_lt_one a b d :
  0 <= a -> 0 <= b -> a + b < d -> d <= 2 ^ 52 ->
  qlt (add64 (div64 a d) (div64 b d)) (1, 1).
Proof.
  intros Ha Hb Hsum Hd52. assert (Hd : 0 < d) by lia.
  destruct (div64_upper a d Ha ltac:(lia)) as (p1 & q1 & E1 & Hp1 & Hq1 & U1).
  destruct (div64_upper b d Hb ltac:(lia)) as (p2 & q2 & E2 & Hp2 & Hq2 & U2).
  rewrite E1, E2, add64_q_add. unfold q_add.
  set (Nn := p1 * q2 + p2 * q1). set (D := q1 * q2).
  assert (HD : 0 < D) by (unfold D; nia).
  assert (HN : 0 <= Nn) by (unfold Nn; nia).
  (* Nn / D <= 1 - 2^-53 *)
  assert (Hle : qle (Nn, D) (2 ^ 53 - 1, 2 ^ 53)).
  { unfold qle. cbn [fst snd].
    assert (F1 : (2 ^ 54 * (p1 * d - a * q1)) * q2 <= (d * q1) * q2)
      by (apply Z.mul_le_mono_nonneg_r; lia).
    assert (F2 : (2 ^ 54 * (p2 * d - b * q2)) * q1 <= (d * q2) * q1)
      by (apply Z.mul_le_mono_nonneg_r; lia).
    assert (F3 : 2 ^ 54 * d * Nn <= (2 ^ 54 * (a + b) + 2 * d) * D).
    { unfold Nn, D.
      replace (2 ^ 54 * d * (p1 * q2 + p2 * q1)) with
          ((2 ^ 54 * (p1 * d - a * q1)) * q2 + (2 ^ 54 * (p2 * d - b * q2)) * q1
           + 2 ^ 54 * (a + b) * (q1 * q2)) by ring.
      lia. }
    assert (F4 : (2 ^ 54 * (a + b) + 2 * d) * D <= (2 ^ 54 * d - 2 * d) * D).
    { apply Z.mul_le_mono_nonneg_r; [lia |].
      change (2 ^ 54) with (4 * 2 ^ 52). nia. }
    assert (F5 : (2 * d) * (Nn * 2 ^ 53) <= (2 * d) * ((2 ^ 53 - 1) * D)).
    { change (2 ^ 54) with (2 * 2 ^ 53) in F3, F4. lia. }
    apply Z.mul_le_mono_pos_l in F5; lia. }
  pose proof (round64_mono (Nn, D) (2 ^ 53 - 1, 2 ^ 53)) as M.
  assert (Efix : round64 (2 ^ 53 - 1, 2 ^ 53) = (2 ^ 53 - 1, 2 ^ 53)) by (vm_compute; reflexivity).
  rewrite Efix in M.
  pose proof (round64_wf (Nn, D) HD) as [W1 W2].
  destruct (round64 (Nn, D)) as [p q]. unfold wf_frac, qle, qlt in *. cbn [fst snd] in *.
  assert (E : p * 2 ^ 53 <= (2 ^ 53 - 1) * q) by (apply M; lia).
  lia.
Qed.

(** ** the sum laws of a frequency algebra *)

Record FreqSumLaws (fa : FreqAlg) (okN : N -> Prop) : Prop := {
  sum_one : forall a b d, okN d -> (a + b <= d)%N ->
            (feqb fa (fadd fa (ratio fa a d) (ratio fa b d)) (fone fa) = true <-> (a + b = d)%N);
  sum_le_one : forall a b d, okN d -> (a + b <= d)%N ->
            fle fa (fadd fa (ratio fa a d) (ratio fa b d)) (fone fa) = true
}.

Theorem QAlg_sum_laws : FreqSumLaws QAlg (fun d => 0 < d)%N.
Proof.
  constructor; cbn [F ratio fadd fle feqb fone QAlg]; intros a b d Hd Hle.
  - rewrite feq64_qeq. unfold qeq, q_add, q_ratio. cbn [fst snd]. split.
    + intros H. assert (E : Z.of_N d * (Z.of_N a + Z.of_N b) = Z.of_N d * Z.of_N d) by lia.
      apply Z.mul_cancel_l in E; lia.
    + intros H. replace (Z.of_N d) with (Z.of_N a + Z.of_N b) by lia. ring.
  - apply fle64_qle. unfold qle, q_add, q_ratio. cbn [fst snd].
    assert (E : (Z.of_N a + Z.of_N b) * Z.of_N d <= Z.of_N d * Z.of_N d)
      by (apply Z.mul_le_mono_nonneg_r; lia).
    lia.
Qed.

Definition okN52 (d : N) : Prop := (0 < d <= 2 ^ 52)%N.

Lemma okN52_Z d : okN52 d -> 0 < Z.of_N d <= 2 ^ 52.
Proof.
  unfold okN52. change (2 ^ 52)%N with 4503599627370496%N.
  change (2 ^ 52) with 4503599627370496. lia.
Qed.

Lemma okN52_53 d : okN52 d -> okN53 d.
Proof.
  unfold okN52, okN53. change (2 ^ 52)%N with 4503599627370496%N.
  change (2 ^ 53)%N with 9007199254740992%N. lia.
Qed.

Theorem BAlg_sum_laws : FreqSumLaws BAlg okN52.
Proof.
  constructor; cbn [F ratio fadd fle feqb fone BAlg]; intros a b d Hd Hle;
    pose proof (okN52_Z d Hd) as Hd'; unfold b_ratio.
  - rewrite feq64_qeq. split.
    + intros H. destruct (N.eq_dec (a + b) d) as [E | E]; [exact E | exfalso].
      pose proof (sum_lt_one (Z.of_N a) (Z.of_N b) (Z.of_N d)
                    ltac:(lia) ltac:(lia) ltac:(lia) ltac:(lia)) as Hlt.
      unfold qeq, qlt in *. lia.
    + intros H. apply sum_eq_one; lia.
  - apply fle64_qle.
    destruct (N.eq_dec (a + b) d) as [E | E].
    + pose proof (sum_eq_one (Z.of_N a) (Z.of_N b) (Z.of_N d)
                    ltac:(lia) ltac:(lia) ltac:(lia) ltac:(lia)) as H.
      unfold qeq, qle in *. lia.
    + pose proof (sum_lt_one (Z.of_N a) (Z.of_N b) (Z.of_N d)
                    ltac:(lia) ltac:(lia) ltac:(lia) ltac:(lia)) as H.
      unfold qlt, qle in *. lia.
Qed.
