(** * Lemmas about [Model/Endpoint.v] (property C15). *)
From Coq Require Import List Ascii String ZArith Bool Lia Permutation.
From Shexer Require Import Lib.PyStr Lib.Dict Gen.Consts Gen.ConstsC15 Spec.Rdf Spec.EndpointSpec
     Model.Tracker Model.Endpoint.
Import ListNotations.

(** ** the class pass on the names domain ([C15_names_dom]): the classes query
    asks for the instantiation property and the keyword removal changes no
    name.  [class_pass] equals it there ([class_pass_names], Proofs/EndpointMain.v);
    the lemmas of this file are about [class_pass0]. *)
Definition class_pass0 (c : cfg) (G : sgraph) (O : oracles) (pass : nat) (st : lst)
           (all_mode : bool) (classes : list str) (reader : list triple -> consume) : passout :=
  let head := if all_mode then [EQ (classes_query (c_tau c))] else [] in
  let cls := if all_mode then all_classes G O pass (c_tau c) else classes in
  let items := class_items cls in
  let sel := sel_events (eff_limit c) items in
  let targets := collect G O pass pass (c_tau c) (eff_limit c) items in
  let bs := yielder_blocks c G O pass st targets in
  let evs := match items with
             | [] => if y_empty_shape_map_guard then [] else [EX XAttr]
             | _ => cut_at_err (events_of bs)
             end in
  let failed := existsb is_EX evs in
  match reader (yields evs) with
  | CAll => {| po_events := head ++ sel ++ evs; po_st := last_st st bs; po_ok := negb failed |}
  | CStop n => {| po_events := head ++ sel ++ cut_after_yields n evs; po_st := state_after n st bs; po_ok := true |}
  | CErr n => {| po_events := head ++ sel ++ cut_after_yields n evs ++ [EX XAttr]; po_st := state_after n st bs; po_ok := false |}
  end.

(** ** generic list facts *)

Lemma filter_or_disjoint {A} (f g : A -> bool) (l : list A) :
  (forall x, In x l -> f x = true -> g x = false) ->
  Permutation (filter (fun x => f x || g x) l) (filter f l ++ filter g l).
Proof.
  induction l as [|x l IH]; intros H; cbn; [constructor|].
  assert (IH' := IH (fun y Hy => H y (or_intror Hy))).
  destruct (f x) eqn:Ef; cbn.
  - rewrite (H x (or_introl eq_refl) Ef). constructor. exact IH'.
  - destruct (g x); cbn; [|exact IH'].
    eapply perm_trans; [constructor; exact IH'|]. apply Permutation_middle.
Qed.

Lemma flat_map_filter_perm {A B} (P : B -> A -> bool) (l : list A) (ks : list B) :
  (forall x k1 k2, In x l -> In k1 ks -> In k2 ks -> P k1 x = true -> P k2 x = true -> k1 = k2) ->
  NoDup ks ->
  Permutation (flat_map (fun k => filter (P k) l) ks) (filter (fun x => existsb (fun k => P k x) ks) l).
Proof.
  induction ks as [|k ks IH]; intros Hu Hnd; cbn.
  - clear. induction l; cbn; auto.
  - inversion Hnd as [|? ? Hnin Hnd']; subst.
    eapply perm_trans; [apply Permutation_app_head; apply IH; auto|].
    + intros x k1 k2 Hx H1 H2. apply Hu; cbn; auto.
    + apply Permutation_sym. apply filter_or_disjoint.
      intros x Hx Hk. destruct (existsb (fun k0 => P k0 x) ks) eqn:E; [|reflexivity].
      apply existsb_exists in E. destruct E as [k' [Hin Hk']].
      assert (k = k') by (apply (Hu x); cbn; auto). subst. contradiction.
Qed.

Lemma filter_all {A} (f : A -> bool) (l : list A) : (forall x, In x l -> f x = true) -> filter f l = l.
Proof.
  induction l as [|x l IH]; intros H; cbn; [reflexivity|].
  rewrite (H x (or_introl eq_refl)). f_equal. apply IH. intros; apply H; cbn; auto.
Qed.

Lemma filter_none {A} (f : A -> bool) (l : list A) : (forall x, In x l -> f x = false) -> filter f l = [].
Proof.
  induction l as [|x l IH]; intros H; cbn; [reflexivity|].
  rewrite (H x (or_introl eq_refl)). apply IH. intros; apply H; cbn; auto.
Qed.

Lemma NoDup_filter {A} (f : A -> bool) (l : list A) : NoDup l -> NoDup (filter f l).
Proof.
  induction 1 as [|x l Hn Hnd IH]; cbn; [constructor|].
  destruct (f x); [constructor; [rewrite filter_In; tauto | exact IH] | exact IH].
Qed.

Lemma NoDup_map_inv_in {A B} (f : A -> B) (l : list A) :
  NoDup (map f l) -> forall x y, In x l -> In y l -> f x = f y -> x = y.
Proof.
  induction l as [|a l IH]; cbn; intros Hnd x y Hx Hy E; [contradiction|].
  inversion Hnd as [|? ? Hn Hnd']; subst.
  destruct Hx as [<-|Hx], Hy as [<-|Hy]; auto.
  - exfalso. apply Hn. rewrite E. apply in_map. exact Hy.
  - exfalso. apply Hn. rewrite <- E. apply in_map. exact Hx.
Qed.

Lemma NoDup_map_of_inj {A B} (f : A -> B) (l : list A) :
  NoDup l -> (forall x y, In x l -> In y l -> f x = f y -> x = y) -> NoDup (map f l).
Proof.
  induction 1 as [|a l Hn Hnd IH]; cbn; intros Hinj; [constructor|].
  constructor.
  - intros Hin. apply in_map_iff in Hin. destruct Hin as [y [E Hy]].
    assert (y = a) by (apply Hinj; cbn; auto). subst. contradiction.
  - apply IH. intros; apply Hinj; cbn; auto.
Qed.

(** ** [dedup] and [group_by] *)

Section Dedup.
  Context {K : Type} (eqb : K -> K -> bool).
  Hypothesis eqb_ok : forall a b, eqb a b = true <-> a = b.

  Lemma dedup_In l x : In x (dedup eqb l) <-> In x l.
  Proof.
    induction l as [|y l IH]; cbn; [tauto|].
    rewrite filter_In, IH. split.
    - intros [H|[H _]]; auto.
    - intros [H|H]; auto. destruct (eqb x y) eqn:E.
      + apply eqb_ok in E. auto.
      + right. split; auto.
  Qed.

  Lemma dedup_NoDup l : NoDup (dedup eqb l).
  Proof.
    induction l as [|y l IH]; cbn; constructor.
    - rewrite filter_In. intros [_ H]. assert (eqb y y = true) by (apply eqb_ok; reflexivity).
      rewrite H0 in H. discriminate.
    - apply NoDup_filter. exact IH.
  Qed.

  Lemma dedup_id l : NoDup l -> dedup eqb l = l.
  Proof.
    induction 1 as [|x l Hn Hnd IH]; cbn; [reflexivity|].
    rewrite IH. f_equal. apply filter_all. intros y Hy.
    destruct (eqb y x) eqn:E; [apply eqb_ok in E; subst; contradiction | reflexivity].
  Qed.

  Lemma group_by_perm {A} (key : A -> K) (l : list A) : Permutation (group_by eqb key l) l.
  Proof.
    unfold group_by.
    eapply perm_trans.
    - apply (flat_map_filter_perm (fun k x => eqb (key x) k)).
      + intros x k1 k2 _ _ _ H1 H2. apply eqb_ok in H1, H2. congruence.
      + apply dedup_NoDup.
    - rewrite filter_all; [reflexivity|].
      intros x Hx. apply existsb_exists. exists (key x). split.
      + apply dedup_In. apply in_map. exact Hx.
      + apply eqb_ok. reflexivity.
  Qed.
End Dedup.

(** ** equality tests *)

Lemma opt_str_eqb_eq a b : opt_str_eqb a b = true <-> a = b.
Proof.
  destruct a, b; cbn; try (split; congruence).
  rewrite str_eqb_eq. split; congruence.
Qed.

Lemma snode_eqb_eq a b : snode_eqb a b = true <-> a = b.
Proof.
  destruct a, b; cbn; try (split; congruence); rewrite str_eqb_eq; split; congruence.
Qed.

Lemma sterm_eqb_eq a b : sterm_eqb a b = true <-> a = b.
Proof.
  destruct a, b; cbn; try (split; congruence).
  - rewrite snode_eqb_eq. split; congruence.
  - rewrite !andb_true_iff, str_eqb_eq, !opt_str_eqb_eq. split; [intros [[-> ->] ->]; reflexivity | intros H; inversion H; auto].
Qed.

Lemma lterm_eqb_eq a b : lterm_eqb a b = true <-> a = b.
Proof.
  destruct a, b; cbn; try (split; congruence).
  - rewrite str_eqb_eq. split; congruence.
  - rewrite !andb_true_iff, !str_eqb_eq, opt_str_eqb_eq. split; [intros [[-> ->] ->]; reflexivity | intros H; inversion H; auto].
  - rewrite str_eqb_eq. split; congruence.
Qed.

Lemma ltriple_eqb_eq a b : ltriple_eqb a b = true <-> a = b.
Proof.
  destruct a as [[s1 p1] o1], b as [[s2 p2] o2]. unfold ltriple_eqb, l_s, l_p, l_o; cbn.
  rewrite !andb_true_iff, !lterm_eqb_eq. split; [intros [[-> ->] ->]; reflexivity | intros H; inversion H; auto].
Qed.

Lemma mem_l_In x l : mem_l x l = true <-> In x l.
Proof.
  unfold mem_l. rewrite existsb_exists. split.
  - intros [y [Hy E]]. apply ltriple_eqb_eq in E. subst. exact Hy.
  - intros H. exists x. split; [exact H | apply ltriple_eqb_eq; reflexivity].
Qed.

Lemma add_l_In l x y : In y (add_l l x) <-> In y l \/ y = x.
Proof.
  unfold add_l. destruct (mem_l x l) eqn:E.
  - apply mem_l_In in E. split; [auto | intros [H| ->]; auto].
  - rewrite in_app_iff. cbn. split.
    + intros [H|[H|H]]; auto. contradiction.
    + intros [H|H]; auto.
Qed.

Lemma add_l_NoDup l x : NoDup l -> NoDup (add_l l x).
Proof.
  unfold add_l. destruct (mem_l x l) eqn:E; auto.
  intros H. apply (Permutation_NoDup (Permutation_cons_append l x)).
  constructor; auto. intros Hin. apply mem_l_In in Hin. congruence.
Qed.

(** ** the per-statement domain *)

Lemma triple_res_eqb_true r t : triple_res_eqb r t = true -> r = inl t.
Proof. destruct r; cbn; [rewrite triple_eqb_eq; congruence | discriminate]. Qed.

Lemma dir_ok_inv allow t s x lt : dir_ok allow t s x = Some lt ->
  store3 x = inl lt /\ stored_shape_ok t s lt = true /\ tune3 allow x = inl (local_of t) /\
  tune3 allow (tok3_of_l lt) = inl (local_of t) /\ no_new_target x = true /\ no_new_target (tok3_of_l lt) = true.
Proof.
  unfold dir_ok. destruct (store3 x) as [lt'|e]; [|discriminate].
  destruct (stored_shape_ok t s lt' && triple_res_eqb (tune3 allow x) (local_of t) &&
            triple_res_eqb (tune3 allow (tok3_of_l lt')) (local_of t) && no_new_target x &&
            no_new_target (tok3_of_l lt')) eqn:E; [|discriminate].
  intros H; inversion H; subst lt'. rewrite !andb_true_iff in E.
  destruct E as [[[[E1 E2] E3] E4] E5].
  repeat split; auto using triple_res_eqb_true.
Qed.

Definition plain (a : str) : bool := negb (prefixb (Str "<") a).

Lemma rc_false_plain a : plain a = true -> rc_false a = a.
Proof.
  unfold plain, rc_false, remove_corners. intros H. apply negb_true_iff in H. rewrite H. reflexivity.
Qed.

Definition ldummy : ltriple := (LB [], LB [], LB []).

Definition img (allow : bool) (t : striple) : ltriple :=
  match ss t with
  | NI s => match dir_ok allow t s (po_tok t s) with Some lt => lt | None => ldummy end
  | NB _ => ldummy
  end.

Record stmt_facts (allow : bool) (t : striple) (s : str) : Prop := {
  sf_subj : ss t = NI s;
  sf_plain : plain s = true;
  sf_store : store3 (po_tok t s) = inl (img allow t);
  sf_tune : tune3 allow (po_tok t s) = inl (local_of t);
  sf_back : tune3 allow (tok3_of_l (img allow t)) = inl (local_of t);
  sf_ls : l_s (img allow t) = LU s;
  sf_lo : forall o, l_o (img allow t) = LU o <-> so t = SN (NI o);
  sf_new : no_new_target (po_tok t s) = true;
  sf_new_l : no_new_target (tok3_of_l (img allow t)) = true;
  sf_inv : forall o, so t = SN (NI o) ->
           plain o = true /\ store3 (sp_tok t o) = inl (img allow t) /\
           tune3 allow (sp_tok t o) = inl (local_of t) /\ no_new_target (sp_tok t o) = true
}.

Lemma stmt_ok_facts allow t : stmt_ok allow t = true -> exists s, stmt_facts allow t s.
Proof.
  unfold stmt_ok. destruct (ss t) as [s|b] eqn:Es; [|discriminate].
  rewrite !andb_true_iff. intros [[Hp Hsfx] H].
  destruct (dir_ok allow t s (po_tok t s)) as [lt|] eqn:Ed; [|discriminate].
  assert (Himg : img allow t = lt) by (unfold img; rewrite Es, Ed; reflexivity).
  destruct (dir_ok_inv _ _ _ _ _ Ed) as [D1 [D2 [D3 [D4 [D5 D6]]]]].
  unfold stored_shape_ok in D2. rewrite !andb_true_iff in D2. destruct D2 as [[S1 S2] S3].
  apply lterm_eqb_eq in S1, S2.
  exists s. split; try (rewrite Himg); auto.
  - intros o. destruct (so t) as [[o'|b]|lex dt lg] eqn:Eo; destruct (l_o lt) eqn:El; try discriminate.
    + apply str_eqb_eq in S3. subst. split; congruence.
    + split; congruence.
  - intros o Eo. rewrite Eo in H. rewrite !andb_true_iff in H. destruct H as [[Ho _] H].
    destruct (dir_ok allow t s (sp_tok t o)) as [lt'|] eqn:Ed'; [|discriminate].
    apply ltriple_eqb_eq in H. subst lt'.
    destruct (dir_ok_inv _ _ _ _ _ Ed') as [D1' [_ [D3' [_ [D5' _]]]]].
    repeat split; auto.
Qed.

Lemma stmt_ok_no_bnode_obj allow t b : stmt_ok allow t = true -> so t <> SN (NB b).
Proof.
  unfold stmt_ok. destruct (ss t); [|discriminate]. intros H E. rewrite E in H.
  rewrite !andb_true_iff in H. destruct H as [_ H].
  destruct (dir_ok allow t iri (po_tok t iri)); discriminate.
Qed.

Section Dom.
  Variable allow : bool.
  Variable tau : str.
  Variable G : sgraph.
  Hypothesis Hdom : C15_dom allow tau G = true.
  Hypothesis Hnd : NoDup (local_graph G).

  Lemma dom_in t : In t G -> stmt_ok allow t = true /\ tau_ok tau t = true.
  Proof.
    intros Hin. unfold C15_dom in Hdom. rewrite forallb_forall in Hdom.
    apply andb_true_iff. apply Hdom. exact Hin.
  Qed.

  Lemma dom_facts t : In t G -> exists s, stmt_facts allow t s.
  Proof. intros H. apply stmt_ok_facts. apply dom_in. exact H. Qed.

  Lemma G_NoDup : NoDup G.
  Proof. unfold local_graph in Hnd. eapply NoDup_map_inv. exact Hnd. Qed.

  Lemma local_inj t1 t2 : In t1 G -> In t2 G -> local_of t1 = local_of t2 -> t1 = t2.
  Proof. apply NoDup_map_inv_in. exact Hnd. Qed.

  Lemma img_inj t1 t2 : In t1 G -> In t2 G -> img allow t1 = img allow t2 -> t1 = t2.
  Proof.
    intros H1 H2 E. apply local_inj; auto.
    destruct (dom_facts _ H1) as [s1 F1], (dom_facts _ H2) as [s2 F2].
    pose proof (sf_back _ _ _ F1) as B1. pose proof (sf_back _ _ _ F2) as B2.
    rewrite E in B1. congruence.
  Qed.

  (** *** the cache invariant *)
  Record Inv (st : lst) : Prop := {
    inv_img : forall lt, In lt (loc st) -> exists t, In t G /\ img allow t = lt;
    inv_nd : NoDup (loc st);
    inv_s : forall a t, In a (trs st) -> In t G -> ss t = NI a -> In (img allow t) (loc st);
    inv_o : forall a t, In a (tro st) -> In t G -> so t = SN (NI a) -> In (img allow t) (loc st)
  }.

  Lemma Inv0 : Inv lst0.
  Proof. split; cbn; try tauto. constructor. Qed.

  Lemma po_match_In a t : In t (po_match G a) <-> In t G /\ ss t = NI a.
  Proof. unfold po_match. rewrite filter_In, snode_eqb_eq. tauto. Qed.

  Lemma sp_match_In a t : In t (sp_match G a) <-> In t G /\ so t = SN (NI a).
  Proof. unfold sp_match. rewrite filter_In, sterm_eqb_eq. tauto. Qed.

  Lemma map_img_NoDup (l : list striple) : NoDup l -> incl l G -> NoDup (map (img allow) l).
  Proof.
    intros Hl Hi. apply NoDup_map_of_inj; auto. intros x y Hx Hy. apply img_inj; auto.
  Qed.

  Lemma lookup_s_perm st a : Inv st -> In a (trs st) ->
    Permutation (lookup_s (loc st) a) (map (img allow) (po_match G a)).
  Proof.
    intros I Ha. unfold lookup_s.
    eapply perm_trans; [apply group_by_perm; apply lterm_eqb_eq|].
    apply NoDup_Permutation.
    - apply NoDup_filter. apply (inv_nd _ I).
    - apply map_img_NoDup; [apply NoDup_filter, G_NoDup | intros t Ht; apply po_match_In in Ht; tauto].
    - intros lt. rewrite filter_In, lterm_eqb_eq, in_map_iff. split.
      + intros [Hin Hs]. destruct (inv_img _ I lt Hin) as [t [Ht E]]. exists t. split; auto.
        apply po_match_In. split; auto. destruct (dom_facts _ Ht) as [s F].
        rewrite <- E, (sf_ls _ _ _ F) in Hs. inversion Hs; subst. apply (sf_subj _ _ _ F).
      + intros [t [E Ht]]. apply po_match_In in Ht. destruct Ht as [Ht Hs]. subst lt. split.
        * apply (inv_s _ I a); auto.
        * destruct (dom_facts _ Ht) as [s F]. rewrite (sf_ls _ _ _ F). rewrite (sf_subj _ _ _ F) in Hs. congruence.
  Qed.

  Lemma lookup_o_perm st a : Inv st -> In a (tro st) ->
    Permutation (lookup_o (loc st) a) (map (img allow) (sp_match G a)).
  Proof.
    intros I Ha. unfold lookup_o.
    eapply perm_trans; [apply group_by_perm; apply lterm_eqb_eq|].
    apply NoDup_Permutation.
    - apply NoDup_filter. apply (inv_nd _ I).
    - apply map_img_NoDup; [apply NoDup_filter, G_NoDup | intros t Ht; apply sp_match_In in Ht; tauto].
    - intros lt. rewrite filter_In, lterm_eqb_eq, in_map_iff. split.
      + intros [Hin Hs]. destruct (inv_img _ I lt Hin) as [t [Ht E]]. exists t. split; auto.
        apply sp_match_In. split; auto. destruct (dom_facts _ Ht) as [s F].
        apply (sf_lo _ _ _ F). congruence.
      + intros [t [E Ht]]. apply sp_match_In in Ht. destruct Ht as [Ht Hs]. subst lt. split.
        * apply (inv_o _ I a); auto.
        * destruct (dom_facts _ Ht) as [s F]. apply (sf_lo _ _ _ F). exact Hs.
  Qed.

  (** storing the answers of a fetch *)
  Lemma store_all_ok (tok : striple -> stok3) (ts : list striple) l0 :
    (forall t, In t ts -> store3 (tok t) = inl (img allow t)) ->
    store_all l0 (map tok ts) = inl (fold_left add_l (map (img allow) ts) l0).
  Proof.
    revert l0. induction ts as [|t ts IH]; intros l0 H; cbn; [reflexivity|].
    rewrite (H t (or_introl eq_refl)). apply IH. intros; apply H; cbn; auto.
  Qed.

  Lemma fold_add_In (xs : list ltriple) l0 y : In y (fold_left add_l xs l0) <-> In y l0 \/ In y xs.
  Proof.
    revert l0. induction xs as [|x xs IH]; intros l0; cbn; [tauto|].
    rewrite IH, add_l_In. split; intros H; intuition auto.
  Qed.

  Lemma fold_add_NoDup (xs : list ltriple) l0 : NoDup l0 -> NoDup (fold_left add_l xs l0).
  Proof. revert l0. induction xs; intros l0 H; cbn; auto using add_l_NoDup. Qed.

  (** *** one fetch *)
  Definition ord_ok (O : oracles) : Prop :=
    (forall pass q l, Permutation (o_ord O pass q l) l) /\ (forall pass l, Permutation (o_set O pass l) l).

  Definition qk (k : fkind) : qkind := match k with FPO => QPO | FSP => QSP | FTypes => QTypes end.
  Definition matches (k : fkind) (a : str) : list striple :=
    match k with FPO => po_match G a | FSP => sp_match G a | FTypes => [] end.
  Definition tokk (k : fkind) (a : str) (t : striple) : stok3 :=
    match k with FPO => po_tok t a | _ => sp_tok t a end.

  Lemma matches_incl k a : incl (matches k a) G.
  Proof.
    intros t. destruct k; cbn; [rewrite po_match_In | rewrite sp_match_In | ]; tauto.
  Qed.

  Lemma remote_of_eq O pass tau' k a : k <> FTypes -> plain a = true ->
    remote_of G O pass tau' k a = ((qk k, a), map (tokk k a) (o_ord O pass (qk k, a) (matches k a))).
  Proof.
    intros Hk Hp. destruct k; cbn; try congruence.
    - unfold remote_po. rewrite (rc_false_plain _ Hp). reflexivity.
    - unfold remote_sp. rewrite (rc_false_plain _ Hp). reflexivity.
  Qed.

  Lemma tokk_facts k a t : k <> FTypes -> In t (matches k a) ->
    store3 (tokk k a t) = inl (img allow t) /\ tune3 allow (tokk k a t) = inl (local_of t) /\
    no_new_target (tokk k a t) = true.
  Proof.
    intros Hk Hin. destruct k; cbn in *; try congruence.
    - apply po_match_In in Hin. destruct Hin as [Hin Hs]. destruct (dom_facts _ Hin) as [s F].
      pose proof (sf_subj _ _ _ F) as E. rewrite Hs in E. inversion E; subst s.
      repeat split; [apply (sf_store _ _ _ F) | apply (sf_tune _ _ _ F) | apply (sf_new _ _ _ F)].
    - apply sp_match_In in Hin. destruct Hin as [Hin Hs]. destruct (dom_facts _ Hin) as [s F].
      destruct (sf_inv _ _ _ F a Hs) as [_ [A [B C]]]. auto.
  Qed.

  Definition tr_of (r : triple + eerr) : triple :=
    match r with inl t => t | inr _ => {| ts := Node KIri []; tp := []; to := OL [] [] |} end.

  Lemma yields_of_inl raw : (forall x, In x raw -> exists t, tune3 allow x = inl t) ->
    yields_of allow raw = map EY (map (fun x => tr_of (tune3 allow x)) raw).
  Proof.
    intros H. unfold yields_of. rewrite map_map. apply map_ext_in. intros x Hx.
    destruct (H x Hx) as [t E]. rewrite E. reflexivity.
  Qed.

  Lemma yields_of_img lts ts : Permutation lts (map (img allow) ts) -> incl ts G ->
    exists l, Permutation l (map local_of ts) /\ yields_of allow (map tok3_of_l lts) = map EY l /\
              (forall x, In x (map tok3_of_l lts) -> no_new_target x = true).
  Proof.
    intros Hp Hi.
    assert (Hall : forall lt, In lt lts -> exists t, In t G /\ img allow t = lt).
    { intros lt Hlt. apply (Permutation_in _ Hp) in Hlt. apply in_map_iff in Hlt.
      destruct Hlt as [t [E Ht]]. exists t. auto. }
    exists (map (fun x => tr_of (tune3 allow x)) (map tok3_of_l lts)). repeat split.
    - rewrite map_map. eapply perm_trans; [apply Permutation_map; exact Hp|].
      rewrite map_map. apply Permutation_refl'. apply map_ext_in. intros t Ht.
      destruct (dom_facts _ (Hi _ Ht)) as [s F]. rewrite (sf_back _ _ _ F). reflexivity.
    - apply yields_of_inl. intros x Hx. apply in_map_iff in Hx. destruct Hx as [lt [<- Hlt]].
      destruct (Hall _ Hlt) as [t [Ht <-]]. destruct (dom_facts _ Ht) as [s F].
      exists (local_of t). apply (sf_back _ _ _ F).
    - intros x Hx. apply in_map_iff in Hx. destruct Hx as [lt [<- Hlt]].
      destruct (Hall _ Hlt) as [t [Ht <-]]. destruct (dom_facts _ Ht) as [s F]. apply (sf_new_l _ _ _ F).
  Qed.

  Lemma Inv_mark k st a l' :
    Inv st -> (forall y, In y l' <-> In y (loc st) \/ In y (map (img allow) (matches k a))) -> NoDup l' ->
    k <> FTypes -> Inv (mark k st a l').
  Proof.
    intros I Hl Hn Hk. destruct k; try congruence; split; cbn; auto.
    - intros lt Hlt. apply Hl in Hlt. destruct Hlt as [Hlt|Hlt]; [apply (inv_img _ I); auto|].
      apply in_map_iff in Hlt. destruct Hlt as [t [E Ht]]. exists t. split; auto. apply po_match_In in Ht. tauto.
    - intros b t [<-|Hb] Ht Hs; apply Hl.
      + right. apply in_map. apply po_match_In. auto.
      + left. apply (inv_s _ I b); auto.
    - intros b t Hb Ht Hs. apply Hl. left. apply (inv_o _ I b); auto.
    - intros lt Hlt. apply Hl in Hlt. destruct Hlt as [Hlt|Hlt]; [apply (inv_img _ I); auto|].
      apply in_map_iff in Hlt. destruct Hlt as [t [E Ht]]. exists t. split; auto. apply sp_match_In in Ht. tauto.
    - intros b t Hb Ht Hs. apply Hl. left. apply (inv_s _ I b); auto.
    - intros b t [<-|Hb] Ht Hs; apply Hl.
      + right. apply in_map. apply sp_match_In. auto.
      + left. apply (inv_o _ I b); auto.
  Qed.

  Lemma tracked_mark_self k st a l' : k <> FTypes -> tracked k (mark k st a l') a = true.
  Proof. destruct k; cbn; try congruence; intros _; rewrite str_eqb_refl; reflexivity. Qed.

  Lemma local_of_kind_perm tau' k st a : k <> FTypes -> plain a = true -> Inv st -> tracked k st a = true ->
    exists lts, local_of_kind tau' k (loc st) a = map tok3_of_l lts /\ Permutation lts (map (img allow) (matches k a)).
  Proof.
    intros Hk Hp I Ht. destruct k; try congruence; cbn in *; rewrite (rc_false_plain _ Hp).
    - exists (lookup_s (loc st) a). split; auto. apply lookup_s_perm; auto. apply mem_str_In. exact Ht.
    - exists (lookup_o (loc st) a). split; auto. apply lookup_o_perm; auto. apply mem_str_In. exact Ht.
  Qed.

  Lemma fetch_spec c O pass k st a :
    k <> FTypes -> c_allow_num c = allow -> ord_ok O -> plain a = true -> Inv st ->
    exists l l',
      Permutation l (map local_of (matches k a)) /\
      k_events (fetch c G O pass k st a) =
        (if c_cache c && tracked k st a then [] else [EQ (qk k, a)]) ++ map EY l /\
      k_st (fetch c G O pass k st a) =
        (if c_cache c then if tracked k st a then st else mark k st a l' else st) /\
      Inv (k_st (fetch c G O pass k st a)) /\
      (forall x, In x (k_raw (fetch c G O pass k st a)) -> no_new_target x = true).
  Proof.
    intros Hk Hal [Hord _] Hp I. unfold fetch. rewrite (remote_of_eq _ _ _ _ _ Hk Hp), Hal.
    set (ans := o_ord O pass (qk k, a) (matches k a)).
    assert (Hans : Permutation ans (matches k a)) by apply Hord.
    assert (Hai : incl ans G).
    { intros t Ht. apply (matches_incl k a). apply (Permutation_in _ Hans). exact Ht. }
    destruct (c_cache c) eqn:Ec; cbn [andb].
    - destruct (tracked k st a) eqn:Et.
      + destruct (local_of_kind_perm (c_tau c) k st a Hk Hp I Et) as [lts [E P]].
        destruct (yields_of_img lts (matches k a) P (matches_incl k a)) as [l [P1 [P2 P3]]].
        exists l, []. cbn. rewrite E. split; [|split; [|split; [|split]]]; auto.
      + rewrite (store_all_ok (tokk k a) ans (loc st)).
        2:{ intros t Ht. apply (tokk_facts k a t Hk). apply (Permutation_in _ Hans). exact Ht. }
        set (l' := fold_left add_l (map (img allow) ans) (loc st)).
        assert (I' : Inv (mark k st a l')).
        { apply Inv_mark; auto.
          - intros y. unfold l'. rewrite fold_add_In. split; intros [H|H]; auto; right.
            + eapply Permutation_in; [apply Permutation_map; exact Hans | exact H].
            + eapply Permutation_in; [apply Permutation_map; apply Permutation_sym; exact Hans | exact H].
          - apply fold_add_NoDup. apply (inv_nd _ I). }
        destruct (local_of_kind_perm (c_tau c) k (mark k st a l') a Hk Hp I' (tracked_mark_self k st a l' Hk))
          as [lts [E P]].
        assert (El : loc (mark k st a l') = l') by (destruct k; reflexivity).
        rewrite El in E.
        destruct (yields_of_img lts (matches k a) P (matches_incl k a)) as [l [P1 [P2 P3]]].
        exists l, l'. cbn. rewrite E. split; [|split; [|split; [|split]]]; auto. rewrite P2. reflexivity.
    - exists (map local_of ans), []. cbn. split; [|split; [|split; [|split]]]; auto.
      + apply Permutation_map. exact Hans.
      + f_equal. rewrite yields_of_inl.
        * f_equal. rewrite map_map. apply map_ext_in. intros t Ht.
          destruct (tokk_facts k a t Hk (Permutation_in _ Hans Ht)) as [_ [B _]]. rewrite B. reflexivity.
        * intros x Hx. apply in_map_iff in Hx. destruct Hx as [t [<- Ht]].
          destruct (tokk_facts k a t Hk (Permutation_in _ Hans Ht)) as [_ [B _]]. eauto.
      + intros x Hx. apply in_map_iff in Hx. destruct Hx as [t [<- Ht]].
        apply (tokk_facts k a t Hk (Permutation_in _ Hans Ht)).
  Qed.

  (** *** events *)
  Lemma yields_app a b : yields (a ++ b) = yields a ++ yields b.
  Proof. induction a as [|[q|t|e] a IH]; cbn; auto. rewrite IH. reflexivity. Qed.
  Lemma queries_app a b : queries (a ++ b) = queries a ++ queries b.
  Proof. induction a as [|[q|t|e] a IH]; cbn; auto. rewrite IH. reflexivity. Qed.
  Lemma yields_EY l : yields (map EY l) = l.
  Proof. induction l; cbn; congruence. Qed.
  Lemma queries_EY l : queries (map EY l) = [].
  Proof. induction l; cbn; auto. Qed.
  Lemma noEX_EY l : existsb is_EX (map EY l) = false.
  Proof. induction l; cbn; auto. Qed.
  Lemma noEX_app a b : existsb is_EX (a ++ b) = existsb is_EX a || existsb is_EX b.
  Proof. apply existsb_app. Qed.

  Definition fk_eqb (a b : fkind) : bool :=
    match a, b with FPO, FPO | FSP, FSP | FTypes, FTypes => true | _, _ => false end.

  Lemma tracked_mark k k' st a l' x : k <> FTypes -> k' <> FTypes ->
    tracked k' (mark k st a l') x = tracked k' st x || (fk_eqb k k' && str_eqb x a).
  Proof.
    intros Hk Hk'. destruct k, k'; try congruence; cbn;
      rewrite ?andb_false_l, ?orb_false_r, ?andb_true_l; auto using orb_comm.
  Qed.

  Lemma str_eqb_sym a b : str_eqb a b = str_eqb b a.
  Proof.
    destruct (str_eqb a b) eqn:E1, (str_eqb b a) eqn:E2; auto.
    - apply str_eqb_eq in E1. subst. rewrite str_eqb_refl in E2. discriminate.
    - apply str_eqb_eq in E2. subst. rewrite str_eqb_refl in E1. discriminate.
  Qed.

  (** *** the depth-1 traversal over distinct plain targets *)
  Lemma trav_spec c O pass k :
    k <> FTypes -> c_allow_num c = allow -> ord_ok O ->
    forall targets visited st,
      NoDup targets -> (forall a, In a targets -> ~ In a visited) ->
      (forall a, In a targets -> plain a = true) -> Inv st ->
      let bs := trav (fetch c G O pass k) visited st targets in
      Permutation (yields (events_of bs)) (flat_map (fun a => map local_of (matches k a)) targets) /\
      existsb is_EX (events_of bs) = false /\
      queries (events_of bs) =
        map (fun a => (qk k, a)) (filter (fun a => negb (c_cache c && tracked k st a)) targets) /\
      Inv (last_st st bs) /\
      Forall (fun b => Inv (k_st b)) bs /\
      (forall b x, In b bs -> In x (k_raw b) -> no_new_target x = true) /\
      (forall k' x, k' <> FTypes ->
         tracked k' (last_st st bs) x = tracked k' st x || (c_cache c && fk_eqb k k' && mem_str x targets)).
  Proof.
    intros Hk Hal Hord. induction targets as [|a r IH]; intros visited st Hnd' Hvis Hpl I; cbn.
    - split; [constructor|]. split; [reflexivity|]. split; [reflexivity|]. split; [exact I|].
      split; [constructor|]. split; [intros b x []|].
      intros k' x _. rewrite !andb_false_r, orb_false_r. reflexivity.
    - assert (Hm : mem_str a visited = false).
      { destruct (mem_str a visited) eqn:E; auto. apply mem_str_In in E. exfalso. apply (Hvis a); cbn; auto. }
      rewrite Hm. inversion Hnd' as [|? ? Hna Hnr]; subst.
      destruct (fetch_spec c O pass k st a Hk Hal Hord (Hpl a (or_introl eq_refl)) I)
        as [l [l' [P [Ev [Est [I' Hraw]]]]]].
      set (b := fetch c G O pass k st a) in *.
      destruct (IH (a :: visited) (k_st b) Hnr) as [A1 [A2 [A3 [A4 [A5 [A6 A7]]]]]]; auto.
      { intros x Hx [<-|Hv]; [contradiction | apply (Hvis x); cbn; auto]. }
      { intros x Hx. apply Hpl. cbn; auto. }
      assert (Htr : forall k' x, k' <> FTypes ->
                 tracked k' (k_st b) x = tracked k' st x || (c_cache c && fk_eqb k k' && str_eqb x a)).
      { intros k' x Hk'. rewrite Est. destruct (c_cache c); cbn [andb]; [|rewrite orb_false_r; reflexivity].
        destruct (tracked k st a) eqn:Et.
        - destruct (fk_eqb k k' && str_eqb x a) eqn:E; [|rewrite orb_false_r; reflexivity].
          apply andb_true_iff in E. destruct E as [E1 E2]. apply str_eqb_eq in E2. subst x.
          assert (k = k') by (destruct k, k'; cbn in E1; congruence). subst k'. rewrite Et. reflexivity.
        - apply tracked_mark; auto. }
      cbn [events_of flat_map]. fold (events_of (trav (fetch c G O pass k) (a :: visited) (k_st b) r)).
      rewrite Ev. split; [|split; [|split; [|split; [|split; [|split]]]]].
      + rewrite !yields_app, yields_EY.
        replace (yields (if c_cache c && tracked k st a then [] else [EQ (qk k, a)])) with (@nil triple)
          by (destruct (c_cache c && tracked k st a); reflexivity).
        cbn [app]. apply Permutation_app; auto.
      + rewrite !noEX_app, noEX_EY, A2. destruct (c_cache c && tracked k st a); reflexivity.
      + rewrite !queries_app, queries_EY, A3. cbn [app].
        rewrite app_nil_r.
        assert (Hf : filter (fun a0 => negb (c_cache c && tracked k (k_st b) a0)) r =
                     filter (fun a0 => negb (c_cache c && tracked k st a0)) r).
        { apply filter_ext_in. intros x Hx. rewrite (Htr k x Hk).
          assert (str_eqb x a = false).
          { apply str_eqb_neq. intros ->. contradiction. }
          rewrite H, andb_false_r, orb_false_r. reflexivity. }
        rewrite Hf. destruct (c_cache c && tracked k st a); reflexivity.
      + exact A4.
      + constructor; auto.
      + intros b0 x [<-|Hb0] Hx; [apply Hraw; auto | eapply A6; eauto].
      + intros k' x Hk'. change (last_st st (b :: trav (fetch c G O pass k) (a :: visited) (k_st b) r))
          with (last_st (k_st b) (trav (fetch c G O pass k) (a :: visited) (k_st b) r)).
        rewrite (A7 k' x Hk'), (Htr k' x Hk').
        destruct (c_cache c); cbn [andb]; [|rewrite !orb_false_r; reflexivity].
        destruct (fk_eqb k k'); cbn [andb]; [|rewrite !orb_false_r; reflexivity].
        rewrite <- orb_assoc. reflexivity.
  Qed.

  Lemma map_flat_map {A B C} (f : B -> C) (g : A -> list B) (l : list A) :
    map f (flat_map g l) = flat_map (fun x => map f (g x)) l.
  Proof. induction l; cbn; auto. rewrite map_app, IHl. reflexivity. Qed.

  Lemma subj_in_existsb T t : existsb (fun a => snode_eqb (ss t) (NI a)) T = subj_in T t.
  Proof.
    unfold subj_in. induction T as [|a T IH]; cbn; [destruct (ss t); reflexivity|].
    rewrite IH. destruct (ss t); cbn; reflexivity.
  Qed.

  Lemma obj_in_existsb T t : existsb (fun a => sterm_eqb (so t) (SN (NI a))) T = obj_in T t.
  Proof.
    unfold obj_in. induction T as [|a T IH]; cbn; [destruct (so t) as [[|]|]; reflexivity|].
    rewrite IH. destruct (so t) as [[|]|]; cbn; reflexivity.
  Qed.

  Lemma out_of_perm T : NoDup T -> Permutation (flat_map (po_match G) T) (out_of T G).
  Proof.
    intros HT. unfold out_of, po_match.
    eapply perm_trans.
    - apply (flat_map_filter_perm (fun a t => snode_eqb (ss t) (NI a))); auto.
      intros x k1 k2 _ _ _ H1 H2. apply snode_eqb_eq in H1, H2. congruence.
    - apply Permutation_refl'. apply filter_ext. intros t. apply subj_in_existsb.
  Qed.

  Lemma into_perm T : NoDup T -> Permutation (flat_map (sp_match G) T) (into T G).
  Proof.
    intros HT. unfold into, sp_match.
    eapply perm_trans.
    - apply (flat_map_filter_perm (fun a t => sterm_eqb (so t) (SN (NI a)))); auto.
      intros x k1 k2 _ _ _ H1 H2. apply sterm_eqb_eq in H1, H2. congruence.
    - apply Permutation_refl'. apply filter_ext. intros t. apply obj_in_existsb.
  Qed.

  Lemma events_of_app a b : events_of (a ++ b) = events_of a ++ events_of b.
  Proof. apply flat_map_app. Qed.

  Lemma last_st_app st a b : last_st st (a ++ b) = last_st (last_st st a) b.
  Proof. revert st. induction a; intros st; cbn; auto. Qed.

  Lemma new_targets_nil proj bs :
    (proj = tk_o \/ proj = tk_s) ->
    (forall b x, In b bs -> In x (k_raw b) -> no_new_target x = true) -> new_targets proj bs = [].
  Proof.
    intros Hproj H. unfold new_targets. induction bs as [|b bs IH]; cbn [flat_map]; [reflexivity|].
    rewrite IH by (intros; eapply H; cbn; eauto). rewrite app_nil_r.
    apply filter_none. intros y Hy. apply in_map_iff in Hy. destruct Hy as [x [<- Hx]].
    pose proof (H b x (or_introl eq_refl) Hx) as N. unfold no_new_target in N.
    apply andb_true_iff in N. destruct N as [N1 N2]. apply negb_true_iff in N1, N2.
    destruct Hproj as [-> | ->]; assumption.
  Qed.

  Lemma traverse_eq c O pass inv st targets :
    c_allow_num c = allow -> ord_ok O -> NoDup targets -> (forall a, In a targets -> plain a = true) -> Inv st ->
    traverse c G O pass inv st targets = trav (fetch c G O pass (if inv then FSP else FPO)) [] st targets.
  Proof.
    intros Hal Hord HT Hpl I. unfold traverse.
    assert (Hk : (if inv then FSP else FPO) <> FTypes) by (destruct inv; discriminate).
    destruct (trav_spec c O pass _ Hk Hal Hord targets [] st HT (fun _ _ H => H) Hpl I)
      as [_ [_ [_ [_ [_ [A6 _]]]]]].
    rewrite new_targets_nil; [|destruct inv; auto | exact A6].
    destruct (c_last_level c); cbn; apply app_nil_r.
  Qed.

  Definition fetch_log (c : cfg) (k : fkind) (st : lst) (targets : list str) : list query :=
    map (fun a => (qk k, a)) (filter (fun a => negb (c_cache c && tracked k st a)) targets).

  (** the inverse part skips what the direct part has yielded *)
  Lemma events_skip T bs : events_of (map (skip_direct T) bs) = filter (keep_inverse T) (events_of bs).
  Proof.
    unfold events_of. induction bs as [|b bs IH]; cbn; auto. rewrite filter_app, IH. reflexivity.
  Qed.

  Lemma yields_keep T evs :
    yields (filter (keep_inverse T) evs) = filter (fun t => negb (mem_str (nid (ts t)) T)) (yields evs).
  Proof.
    induction evs as [|[q|t|e] evs IH]; cbn; auto.
    destruct (negb (mem_str (nid (ts t)) T)); cbn; rewrite IH; reflexivity.
  Qed.

  Lemma queries_keep T evs : queries (filter (keep_inverse T) evs) = queries evs.
  Proof.
    induction evs as [|[q|t|e] evs IH]; cbn; auto; [rewrite IH; reflexivity|].
    destruct (negb (mem_str (nid (ts t)) T)); cbn; exact IH.
  Qed.

  Lemma noEX_keep T evs : existsb is_EX (filter (keep_inverse T) evs) = existsb is_EX evs.
  Proof.
    induction evs as [|[q|t|e] evs IH]; cbn; auto.
    destruct (negb (mem_str (nid (ts t)) T)); cbn; exact IH.
  Qed.

  Lemma last_st_skip T st bs : last_st st (map (skip_direct T) bs) = last_st st bs.
  Proof. revert st. induction bs; intros st; cbn; auto. Qed.

  Lemma Permutation_filter' {A} (f : A -> bool) (l l' : list A) :
    Permutation l l' -> Permutation (filter f l) (filter f l').
  Proof.
    induction 1; cbn; auto.
    - destruct (f x); auto.
    - destruct (f x), (f y); auto. apply perm_swap.
    - eapply perm_trans; eauto.
  Qed.

  Lemma filter_filter {A} (f g : A -> bool) (l : list A) :
    filter f (filter g l) = filter (fun x => g x && f x) l.
  Proof. induction l as [|x l IH]; cbn; auto. destruct (g x); cbn; [destruct (f x)|]; rewrite IH; reflexivity. Qed.

  Lemma filter_local_commute (f : triple -> bool) (l : list striple) :
    filter f (map local_of l) = map local_of (filter (fun x => f (local_of x)) l).
  Proof. induction l as [|x l IH]; cbn; auto. destruct (f (local_of x)); cbn; rewrite IH; reflexivity. Qed.

  (** every statement touching a target, once *)
  Lemma touching_perm T : Permutation (out_of T G ++ filter (fun t => negb (subj_in T t)) (into T G)) (touching true T G).
  Proof.
    unfold out_of, into, touching. rewrite filter_filter.
    eapply perm_trans; [apply Permutation_sym; apply filter_or_disjoint|].
    - intros x _ H. rewrite H. rewrite andb_false_r. reflexivity.
    - apply Permutation_refl'. apply filter_ext. intros t. cbn [andb].
      destruct (subj_in T t), (obj_in T t); reflexivity.
  Qed.

  Lemma skipped_into T :
    filter (fun t => negb (mem_str (nid (ts t)) T)) (local_graph (into T G)) =
    local_graph (filter (fun t => negb (subj_in T t)) (into T G)).
  Proof.
    unfold local_graph. rewrite filter_local_commute. f_equal. apply filter_ext_in.
    intros t Ht. unfold into in Ht. apply filter_In in Ht. destruct Ht as [Ht _].
    destruct (dom_facts _ Ht) as [s F]. unfold subj_in. cbn. rewrite (sf_subj _ _ _ F). reflexivity.
  Qed.

  Lemma yielder_blocks_eq c O pass st targets :
    yielder_blocks c G O pass st targets =
    traverse c G O pass false st targets ++
    (if c_inverse c
     then map (skip_direct targets) (traverse c G O pass true (last_st st (traverse c G O pass false st targets)) targets)
     else []).
  Proof. reflexivity. Qed.

  Lemma yielder_spec c O pass st targets :
    c_allow_num c = allow -> ord_ok O -> NoDup targets -> (forall a, In a targets -> plain a = true) -> Inv st ->
    let bs := yielder_blocks c G O pass st targets in
    Permutation (yields (events_of bs)) (local_graph (touching (c_inverse c) targets G)) /\
    existsb is_EX (events_of bs) = false /\
    queries (events_of bs) =
      fetch_log c FPO st targets ++ (if c_inverse c then fetch_log c FSP st targets else []) /\
    Inv (last_st st bs) /\
    Forall (fun b => Inv (k_st b)) bs /\
    (forall k' x, k' <> FTypes ->
       tracked k' (last_st st bs) x =
       tracked k' st x || (c_cache c && (fk_eqb FPO k' || (c_inverse c && fk_eqb FSP k')) && mem_str x targets)).
  Proof.
    intros Hal Hord HT Hpl I. cbv zeta. rewrite yielder_blocks_eq.
    rewrite (traverse_eq c O pass false st targets Hal Hord HT Hpl I).
    assert (Hk1 : FPO <> FTypes) by discriminate. assert (Hk2 : FSP <> FTypes) by discriminate.
    destruct (trav_spec c O pass FPO Hk1 Hal Hord targets [] st HT (fun _ _ H => H) Hpl I)
      as [A1 [A2 [A3 [A4 [A5 [_ A7]]]]]].
    set (d := trav (fetch c G O pass FPO) [] st targets) in *.
    assert (P1 : Permutation (flat_map (fun a => map local_of (matches FPO a)) targets) (local_graph (out_of targets G))).
    { cbn [matches]. rewrite <- map_flat_map. apply Permutation_map. apply out_of_perm. exact HT. }
    destruct (c_inverse c) eqn:Ei.
    - rewrite (traverse_eq c O pass true (last_st st d) targets Hal Hord HT Hpl A4).
      destruct (trav_spec c O pass FSP Hk2 Hal Hord targets [] (last_st st d) HT (fun _ _ H => H) Hpl A4)
        as [B1 [B2 [B3 [B4 [B5 [_ B7]]]]]].
      set (e := trav (fetch c G O pass FSP) [] (last_st st d) targets) in *.
      assert (P2 : Permutation (flat_map (fun a => map local_of (matches FSP a)) targets) (local_graph (into targets G))).
      { cbn [matches]. rewrite <- map_flat_map. apply Permutation_map. apply into_perm. exact HT. }
      rewrite events_of_app, yields_app, queries_app, noEX_app, last_st_app, events_skip, yields_keep, queries_keep,
        noEX_keep, last_st_skip.
      split; [|split; [|split; [|split; [|split]]]].
      + eapply perm_trans; [|unfold local_graph; apply Permutation_map; apply touching_perm].
        rewrite map_app. apply Permutation_app; [eapply perm_trans; eauto|].
        fold (local_graph (filter (fun t => negb (subj_in targets t)) (into targets G))).
        rewrite <- skipped_into. apply Permutation_filter'. eapply perm_trans; eauto.
      + rewrite A2, B2. reflexivity.
      + rewrite A3, B3. unfold fetch_log. f_equal. f_equal. apply filter_ext. intros x.
        rewrite (A7 FSP x Hk2). cbn. rewrite andb_false_r, orb_false_r. reflexivity.
      + exact B4.
      + apply Forall_app. split; [exact A5|]. apply Forall_map. cbn. exact B5.
      + intros k' x Hk'. rewrite (B7 k' x Hk'), (A7 k' x Hk').
        destruct (c_cache c); cbn [andb]; [|rewrite !orb_false_r; reflexivity].
        rewrite <- orb_assoc. f_equal.
        destruct (fk_eqb FPO k'), (fk_eqb FSP k'); cbn; rewrite ?orb_false_r; auto.
        rewrite orb_diag. reflexivity.
    - rewrite !app_nil_r. split; [|split; [|split; [|split; [|split]]]]; auto.
      + eapply perm_trans; [exact A1|]. eapply perm_trans; [exact P1|].
        apply Permutation_refl'. unfold touching, out_of, local_graph. f_equal. apply filter_ext.
        intros t. rewrite orb_false_r. reflexivity.
      + intros k' x Hk'. rewrite (A7 k' x Hk'). rewrite orb_false_r. reflexivity.
  Qed.

  (** *** targets *)
  Lemma str_dedup_NoDup l : NoDup (dedup str_eqb l).
  Proof. apply dedup_NoDup. apply str_eqb_eq. Qed.

  (** the targets are the first occurrences of the selector answers, in answer order *)
  Lemma collect_eq O sp_ pp tau' lim items :
    collect G O sp_ pp tau' lim items = dedup str_eqb (flat_map (sel_answers G O sp_ tau' lim) items).
  Proof. reflexivity. Qed.

  Lemma collect_NoDup O sp_ pp tau' lim items : ord_ok O -> NoDup (collect G O sp_ pp tau' lim items).
  Proof. intros _. rewrite collect_eq. apply str_dedup_NoDup. Qed.

  Lemma collect_In O sp_ pp tau' lim items x : ord_ok O ->
    In x (collect G O sp_ pp tau' lim items) <-> exists it, In it items /\ In x (sel_answers G O sp_ tau' lim it).
  Proof.
    intros _. rewrite collect_eq. split.
    - intros H. apply (proj1 (dedup_In str_eqb str_eqb_eq _ _)) in H. apply in_flat_map in H. exact H.
    - intros H. apply (proj2 (dedup_In str_eqb str_eqb_eq _ _)). apply in_flat_map. exact H.
  Qed.

  Lemma firstn_incl {A} n (l : list A) : incl (firstn n l) l.
  Proof.
    revert l. induction n; intros [|x l]; cbn.
    - intros z [].
    - intros z [].
    - intros z [].
    - intros z [<-|H]; cbn; auto. right. apply IHn. exact H.
  Qed.

  Lemma limit_answers_incl {A} lim (l : list A) : incl (limit_answers lim l) l.
  Proof.
    unfold limit_answers. destruct (lim <? class_selector_limit_from)%Z; [apply incl_refl | apply firstn_incl].
  Qed.

  Lemma class_answers_subj O pass lim cl x : ord_ok O ->
    In x (sel_answers G O pass tau lim (SelClass cl)) -> exists t, In t G /\ ss t = NI x /\ In x (instances_of tau cl G).
  Proof.
    intros [Ho _] H. cbn in H. apply in_map_iff in H. destruct H as [t [E Ht]].
    apply limit_answers_incl in Ht. apply (Permutation_in _ (Ho _ _ _)) in Ht.
    unfold class_match in Ht. apply filter_In in Ht. destruct Ht as [Ht Hc].
    rewrite !andb_true_iff in Hc. destruct Hc as [[Hp Hc] Hs].
    apply sterm_eqb_eq in Hc. destruct (dom_facts _ Ht) as [s F].
    rewrite (sf_subj _ _ _ F) in E. cbn in E. subst s.
    exists t. split; auto. split; [apply (sf_subj _ _ _ F)|].
    unfold instances_of. apply in_flat_map. exists t. split; auto.
    rewrite (sf_subj _ _ _ F), Hc, Hp, str_eqb_refl. cbn. auto.
  Qed.

  Lemma class_targets_plain O pass lim cls x : ord_ok O ->
    In x (collect G O pass pass tau lim (class_items cls)) -> plain x = true.
  Proof.
    intros Ho H. apply (collect_In _ _ _ _ _ _ _ Ho) in H. destruct H as [it [Hit Hx]].
    unfold class_items in Hit. apply in_map_iff in Hit. destruct Hit as [cl [<- _]].
    destruct (class_answers_subj _ _ _ _ _ Ho Hx) as [t [Ht [Hs _]]].
    destruct (dom_facts _ Ht) as [s F]. rewrite (sf_subj _ _ _ F) in Hs. inversion Hs; subst.
    apply (sf_plain _ _ _ F).
  Qed.

  (** without a limit the targets of the class modes are exactly the instances *)
  Lemma class_targets_exact O pass lim cls x : ord_ok O -> (lim < class_selector_limit_from)%Z ->
    (In x (collect G O pass pass tau lim (class_items cls)) <-> exists cl, In cl cls /\ In x (instances_of tau cl G)).
  Proof.
    intros Ho Hl. rewrite (collect_In _ _ _ _ _ _ _ Ho). split.
    - intros [it [Hit Hx]]. unfold class_items in Hit. apply in_map_iff in Hit. destruct Hit as [cl [<- Hcl]].
      exists cl. split; auto. destruct (class_answers_subj _ _ _ _ _ Ho Hx) as [t [_ [_ H]]]. exact H.
    - intros [cl [Hcl Hx]]. exists (SelClass cl). split; [apply in_map; exact Hcl|].
      cbn. unfold limit_answers. apply Z.ltb_lt in Hl. rewrite Hl.
      unfold instances_of in Hx. apply in_flat_map in Hx. destruct Hx as [t [Ht Hx]].
      destruct (ss t) as [i|b] eqn:Es; [|destruct Hx]. destruct (so t) as [[c'|b]|] eqn:Eo; try destruct Hx.
      destruct (str_eqb (sp t) tau && str_eqb c' cl) eqn:E; [|destruct Hx]. destruct Hx as [<-|[]].
      apply andb_true_iff in E. destruct E as [E1 E2]. apply str_eqb_eq in E2. subst c'.
      apply in_map_iff. exists t. split; [rewrite Es; reflexivity|].
      destruct Ho as [Ho _]. apply (Permutation_in _ (Permutation_sym (Ho _ _ _))).
      unfold class_match. apply filter_In. split; auto. rewrite E1, Eo, Es. cbn. rewrite str_eqb_refl. reflexivity.
  Qed.

  (** *** cutting event lists *)
  Lemma cut_at_err_id evs : existsb is_EX evs = false -> cut_at_err evs = evs.
  Proof.
    induction evs as [|e evs IH]; cbn; auto. intros H. apply orb_false_iff in H. destruct H as [H1 H2].
    rewrite H1, IH; auto.
  Qed.

  Lemma yields_cut n evs : yields (cut_after_yields n evs) = firstn n (yields evs).
  Proof.
    revert n. induction evs as [|e evs IH]; intros n.
    - destruct n; reflexivity.
    - destruct n as [|n]; [reflexivity|].
      destruct e; cbn [cut_after_yields is_EY yields]; [apply IH | rewrite IH; reflexivity | apply IH].
  Qed.

  Lemma noEX_cut n evs : existsb is_EX evs = false -> existsb is_EX (cut_after_yields n evs) = false.
  Proof.
    revert n. induction evs as [|e evs IH]; intros [|n]; cbn; auto.
    intros H. apply orb_false_iff in H. destruct H as [H1 H2].
    destruct e; cbn in *; try discriminate; auto.
  Qed.

  Lemma state_after_Inv n st bs : Inv st -> Forall (fun b => Inv (k_st b)) bs -> Inv (state_after n st bs).
  Proof.
    revert n st. induction bs as [|b bs IH]; intros [|n] st I F; cbn [state_after]; auto.
    inversion F; subst. destruct (Nat.leb (S n) (count_yields (k_events b))); auto.
  Qed.

  (** *** the consumer of pass 1 never dies on the domain *)
  Definition obj_ok (x : triple) : Prop := tp x = tau -> exists n, to x = ON n.

  Lemma consume_plain_all m g k : Forall obj_ok g -> consume_plain tau m g k = CAll.
  Proof.
    revert k. induction g as [|t g IH]; intros k F; cbn; auto. inversion F; subst.
    destruct (relevant tau m t) eqn:R; auto.
    unfold relevant in R. apply andb_true_iff in R. destruct R as [R _]. apply str_eqb_eq in R.
    destruct (H1 R) as [n ->]. auto.
  Qed.

  Lemma consume_cap_noerr m cap nt g st k n : Forall obj_ok g -> consume_cap tau m cap nt g st k <> CErr n.
  Proof.
    revert st k. induction g as [|t g IH]; intros st k F; cbn [consume_cap]; [discriminate|]. inversion F; subst.
    destruct (relevant tau m t) eqn:R; [|apply IH; assumption].
    unfold relevant in R. apply andb_true_iff in R. destruct R as [R _]. apply str_eqb_eq in R.
    destruct (H1 R) as [o Eo]. unfold cap_allows. rewrite Eo, R, str_eqb_refl. cbn [negb].
    destruct (dget (cc st) (nid o)) as [c0|]; [destruct (Nat.ltb c0 cap)|]; cbn iota;
      try (apply IH; assumption);
      (destruct nt as [nt'|]; [|apply IH; assumption]);
      match goal with |- context [if ?b then CStop _ else _] => destruct b end;
      try discriminate; apply IH; assumption.
  Qed.

  Lemma consumption_cases m cap g : Forall obj_ok g ->
    consumption tau m cap g = CAll \/ exists n, (0 < cap)%Z /\ consumption tau m cap g = CStop n.
  Proof.
    intros F. unfold consumption. destruct (cap <=? 0)%Z eqn:E.
    - left. apply consume_plain_all. exact F.
    - apply Z.leb_gt in E.
      destruct (consume_cap tau m (Z.to_nat cap) (match m with TClasses l => Some (List.length l) | TAll => None end)
                            g {| cc := []; completed := 0 |} 0) eqn:C; eauto.
      exfalso. eapply consume_cap_noerr; eauto.
  Qed.

  Lemma local_obj_ok t : In t G -> obj_ok (local_of t).
  Proof.
    intros Ht E. cbn in E. destruct (dom_in _ Ht) as [_ Hto]. unfold tau_ok in Hto.
    rewrite E, str_eqb_refl in Hto. destruct (so t) as [[o|b]|] eqn:Eo; try discriminate.
    cbn. rewrite Eo. cbn. eauto.
  Qed.

  (** *** one pass of a class mode *)
  Definition pcls (c : cfg) (O : oracles) (pass : nat) (all_mode : bool) (classes : list str) : list str :=
    if all_mode then all_classes G O pass (c_tau c) else classes.
  Definition ptargets (c : cfg) (O : oracles) (pass : nat) (all_mode : bool) (classes : list str) : list str :=
    collect G O pass pass (c_tau c) (eff_limit c) (class_items (pcls c O pass all_mode classes)).
  Definition phead (c : cfg) (all_mode : bool) : list event :=
    if all_mode then [EQ (classes_query (c_tau c))] else [].
  Definition psel (c : cfg) (O : oracles) (pass : nat) (all_mode : bool) (classes : list str) : list event :=
    sel_events (eff_limit c) (class_items (pcls c O pass all_mode classes)).

  Lemma touching_incl inv T : incl (touching inv T G) G.
  Proof. intros t H. unfold touching in H. apply filter_In in H. tauto. Qed.

  Lemma yielder_blocks_nil c O pass st : yielder_blocks c G O pass st [] = [].
  Proof.
    unfold yielder_blocks, traverse. cbn.
    destruct (c_last_level c); cbn; destruct (c_inverse c); reflexivity.
  Qed.

  Lemma ptargets_ok c O pass all_mode classes : c_tau c = tau -> ord_ok O ->
    NoDup (ptargets c O pass all_mode classes) /\ (forall a, In a (ptargets c O pass all_mode classes) -> plain a = true).
  Proof.
    intros Ht Ho. unfold ptargets. rewrite Ht. split; [apply collect_NoDup; exact Ho|].
    intros a Ha. eapply class_targets_plain; eauto.
  Qed.

  Lemma class_pass_spec c O pass st all_mode classes reader :
    c_allow_num c = allow -> c_tau c = tau -> ord_ok O -> Inv st ->
    (reader = no_reader \/ exists m, reader = consumption tau m (c_cap c)) ->
    let bs := yielder_blocks c G O pass st (ptargets c O pass all_mode classes) in
    let o := class_pass0 c G O pass st all_mode classes reader in
    po_ok o = true /\ Inv (po_st o) /\
    ((po_events o = phead c all_mode ++ psel c O pass all_mode classes ++ events_of bs /\ po_st o = last_st st bs) \/
     (exists n, (0 < c_cap c)%Z /\ reader (yields (events_of bs)) = CStop n /\
        po_events o = phead c all_mode ++ psel c O pass all_mode classes ++ cut_after_yields n (events_of bs) /\
        po_st o = state_after n st bs)).
  Proof.
    intros Hal Ht Ho I Hr bs o.
    destruct (ptargets_ok c O pass all_mode classes Ht Ho) as [HT Hpl].
    destruct (yielder_spec c O pass st _ Hal Ho HT Hpl I) as [Y1 [Y2 [_ [Y4 [Y5 _]]]]]. fold bs in Y1, Y2, Y4, Y5.
    assert (Hobj : Forall obj_ok (yields (events_of bs))).
    { apply Forall_forall. intros x Hx. apply (Permutation_in _ Y1) in Hx. unfold local_graph in Hx.
      apply in_map_iff in Hx. destruct Hx as [t [<- Hin]]. apply local_obj_ok. eapply touching_incl; eauto. }
    subst o. unfold class_pass0. fold (pcls c O pass all_mode classes).
    change (collect G O pass pass (c_tau c) (eff_limit c) (class_items (pcls c O pass all_mode classes)))
      with (ptargets c O pass all_mode classes). fold bs.
    fold (phead c all_mode). fold (psel c O pass all_mode classes).
    assert (Hev : match class_items (pcls c O pass all_mode classes) with
                  | [] => if y_empty_shape_map_guard then [] else [EX XAttr]
                  | _ :: _ => cut_at_err (events_of bs)
                  end = events_of bs).
    { destruct (class_items (pcls c O pass all_mode classes)) as [|it its] eqn:Eit; [|apply cut_at_err_id; exact Y2].
      assert (ET : ptargets c O pass all_mode classes = []).
      { unfold ptargets. rewrite Eit. reflexivity. }
      subst bs. rewrite ET, yielder_blocks_nil. reflexivity. }
    rewrite Hev, Y2. cbn [negb].
    destruct Hr as [-> | [m ->]].
    - unfold no_reader. cbn. split; [reflexivity|]. split; [exact Y4|]. left. split; reflexivity.
    - destruct (consumption_cases m (c_cap c) _ Hobj) as [-> | [n [Hc Ec]]]; [|rewrite Ec]; cbn.
      + split; [reflexivity|]. split; [exact Y4|]. left. split; reflexivity.
      + split; [reflexivity|]. split; [apply state_after_Inv; auto|]. right. exists n.
        split; [exact Hc|]. split; [reflexivity|split; reflexivity].
  Qed.

  (** *** the two passes *)
  Definition run_class (c : cfg) (all_mode : bool) (classes : list str) (O : oracles) : result :=
    let m := if all_mode then TAll else TClasses classes in
    let o1 := class_pass0 c G O 1 lst0 all_mode classes (consumption (c_tau c) m (c_cap c)) in
    if po_ok o1 then
      let o2 := class_pass0 c G O 2 (po_st o1) all_mode classes no_reader in
      {| r_p1 := po_events o1; r_p2 := po_events o2; r_ok := po_ok o2 |}
    else {| r_p1 := po_events o1; r_p2 := []; r_ok := false |}.


  Lemma consume_cap_nostop m cap g st k n : consume_cap tau m cap None g st k <> CStop n.
  Proof.
    revert st k. induction g as [|t g IH]; intros st k; cbn [consume_cap]; [discriminate|].
    destruct (relevant tau m t); auto.
    destruct (cap_allows tau cap st t) as [[|]|]; try discriminate; auto.
    destruct (to t); auto. discriminate.
  Qed.

  Lemma consumption_all_nostop cap g n : consumption tau TAll cap g <> CStop n.
  Proof.
    unfold consumption. destruct (cap <=? 0)%Z.
    - clear. generalize 0 at 1. induction g as [|t g IH]; intros k; cbn; [discriminate|].
      destruct (relevant tau TAll t); auto. destruct (to t); auto. discriminate.
    - apply consume_cap_nostop.
  Qed.

  Lemma run_class_spec c all_mode classes O :
    c_allow_num c = allow -> c_tau c = tau -> ord_ok O ->
    let r := run_class c all_mode classes O in
    let bs1 := yielder_blocks c G O 1 lst0 (ptargets c O 1 all_mode classes) in
    exists st2,
      Inv st2 /\ r_ok r = true /\
      r_p2 r = phead c all_mode ++ psel c O 2 all_mode classes ++
               events_of (yielder_blocks c G O 2 st2 (ptargets c O 2 all_mode classes)) /\
      ((r_p1 r = phead c all_mode ++ psel c O 1 all_mode classes ++ events_of bs1 /\ st2 = last_st lst0 bs1) \/
       (exists n, (0 < c_cap c)%Z /\ all_mode = false /\
          r_p1 r = phead c all_mode ++ psel c O 1 all_mode classes ++ cut_after_yields n (events_of bs1) /\
          st2 = state_after n lst0 bs1)).
  Proof.
    intros Hal Ht Ho r bs1. subst r. unfold run_class. rewrite Ht.
    set (m := if all_mode then TAll else TClasses classes).
    destruct (class_pass_spec c O 1 lst0 all_mode classes (consumption tau m (c_cap c)) Hal Ht Ho Inv0
                (or_intror (ex_intro _ m eq_refl))) as [K1 [K2 K3]].
    rewrite K1.
    destruct (class_pass_spec c O 2 _ all_mode classes no_reader Hal Ht Ho K2 (or_introl eq_refl))
      as [L1 [L2 L3]].
    exists (po_st (class_pass0 c G O 1 lst0 all_mode classes (consumption tau m (c_cap c)))).
    split; [exact K2|]. split; [exact L1|]. cbn [r_p1 r_p2 r_ok]. split.
    - destruct L3 as [[L3 _] | [n [_ [L3 _]]]]; [exact L3 | unfold no_reader in L3; discriminate].
    - destruct K3 as [[K3 K4] | [n [Hc [Hs [K3 K4]]]]]; [left; auto|].
      right. exists n. split; [exact Hc|]. split; [|split; assumption].
      destruct all_mode; [|reflexivity]. exfalso. subst m. eapply consumption_all_nostop. exact Hs.
  Qed.
End Dom.

(** ** statements at the level of [run] *)

Definition dom (c : cfg) (G : sgraph) : Prop :=
  C15_dom (c_allow_num c) (c_tau c) G = true /\ NoDup (local_graph G).

Definition with_cache (b : bool) (c : cfg) : cfg :=
  {| c_tau := c_tau c; c_cache := b; c_inverse := c_inverse c; c_allow_num := c_allow_num c;
     c_last_level := c_last_level c; c_limit := c_limit c; c_cap := c_cap c |}.

Lemma with_cache_id c : with_cache (c_cache c) c = c.
Proof. destruct c; reflexivity. Qed.

Lemma yields_sel lim items : yields (sel_events lim items) = [].
Proof.
  unfold sel_events. induction items as [|s items IH]; cbn; auto.
  rewrite yields_app, IH. destruct (sel_query lim s); reflexivity.
Qed.

Lemma yields_psel G c O pass all_mode classes : yields (psel G c O pass all_mode classes) = [].
Proof. apply yields_sel. Qed.

Lemma yields_phead c all_mode : yields (phead c all_mode) = [].
Proof. destruct all_mode; reflexivity. Qed.

Lemma firstn_length_all {A} (l : list A) : firstn (List.length l) l = l.
Proof. apply firstn_all. Qed.

(** (a) class modes *)
Lemma triples_class c G O all_mode classes :
  ord_ok O -> dom c G ->
  let r := run_class G c all_mode classes O in
  let T1 := ptargets G c O 1 all_mode classes in
  let T2 := ptargets G c O 2 all_mode classes in
  r_ok r = true /\
  Permutation (yields (r_p2 r)) (local_graph (touching (c_inverse c) T2 G)) /\
  exists full1,
    Permutation full1 (local_graph (touching (c_inverse c) T1 G)) /\
    (yields (r_p1 r) = full1 \/
     ((0 < c_cap c)%Z /\ all_mode = false /\ exists n, yields (r_p1 r) = firstn n full1)).
Proof.
  intros Ho [Hd Hn] r T1 T2.
  destruct (run_class_spec (c_allow_num c) (c_tau c) G Hd Hn c all_mode classes O eq_refl eq_refl Ho)
    as [st2 [I2 [Hok [E2 E1]]]].
  fold r in Hok, E2, E1. split; [exact Hok|].
  destruct (ptargets_ok (c_allow_num c) (c_tau c) G Hd c O 2 all_mode classes eq_refl Ho) as [HT2 Hp2].
  destruct (ptargets_ok (c_allow_num c) (c_tau c) G Hd c O 1 all_mode classes eq_refl Ho) as [HT1 Hp1].
  destruct (yielder_spec (c_allow_num c) (c_tau c) G Hd Hn c O 2 st2 _ eq_refl Ho HT2 Hp2 I2) as [Y2 _].
  destruct (yielder_spec (c_allow_num c) (c_tau c) G Hd Hn c O 1 lst0 _ eq_refl Ho HT1 Hp1
              (Inv0 (c_allow_num c) G)) as [Y1 _].
  split.
  - rewrite E2, !yields_app, yields_phead, yields_psel. exact Y2.
  - exists (yields (events_of (yielder_blocks c G O 1 lst0 T1))). split; [exact Y1|].
    destruct E1 as [[E1 _] | [n [Hc [Ha [E1 _]]]]]; rewrite E1, !yields_app, yields_phead, yields_psel; cbn [app].
    + left. reflexivity.
    + right. split; [exact Hc|]. split; [exact Ha|]. exists n. apply yields_cut.
Qed.

(** (b) the cache does not change what is delivered (as multisets) *)
Lemma ptargets_with_cache G b c O pass all_mode classes :
  ptargets G (with_cache b c) O pass all_mode classes = ptargets G c O pass all_mode classes.
Proof. reflexivity. Qed.

Lemma dom_with_cache b c G : dom c G -> dom (with_cache b c) G.
Proof. intros H; exact H. Qed.

Lemma cache_same_class c G O all_mode classes :
  ord_ok O -> dom c G ->
  let rc := run_class G (with_cache true c) all_mode classes O in
  let rn := run_class G (with_cache false c) all_mode classes O in
  Permutation (yields (r_p2 rc)) (yields (r_p2 rn)) /\
  (((c_cap c <= 0)%Z \/ all_mode = true) -> Permutation (yields (r_p1 rc)) (yields (r_p1 rn))).
Proof.
  intros Ho Hd rc rn.
  destruct (triples_class (with_cache true c) G O all_mode classes Ho (dom_with_cache true c G Hd))
    as [_ [A2 [f1 [A1 A1']]]].
  destruct (triples_class (with_cache false c) G O all_mode classes Ho (dom_with_cache false c G Hd))
    as [_ [B2 [g1 [B1 B1']]]].
  fold rc in A2, A1'. fold rn in B2, B1'. cbn [c_inverse with_cache c_cap] in *.
  split.
  - eapply perm_trans; [exact A2|]. apply Permutation_sym. exact B2.
  - intros Hfull.
    assert (Ea : yields (r_p1 rc) = f1).
    { destruct A1' as [E | [Hc [Ha _]]]; [exact E|]. destruct Hfull; [lia | congruence]. }
    assert (Eb : yields (r_p1 rn) = g1).
    { destruct B1' as [E | [Hc [Ha _]]]; [exact E|]. destruct Hfull; [lia | congruence]. }
    rewrite Ea, Eb. eapply perm_trans; [exact A1|]. apply Permutation_sym. exact B1.
Qed.

(** (c) the query log *)
Definition is_fetch (q : query) : bool :=
  match fst q with QPO | QSP | QTypes => true | _ => false end.

Lemma subseq_refl {A} (l : list A) : subseq l l.
Proof. induction l; constructor; auto. Qed.

Lemma subseq_app {A} (a b c d : list A) : subseq a b -> subseq c d -> subseq (a ++ c) (b ++ d).
Proof. induction 1; cbn; intros Hcd; auto; constructor; auto. Qed.

Lemma subseq_length {A} (a b : list A) : subseq a b -> List.length a <= List.length b.
Proof. induction 1; cbn; lia. Qed.

Lemma subseq_map_filter {A B} (f : A -> B) (p : A -> bool) (l : list A) : subseq (map f (filter p l)) (map f l).
Proof. induction l as [|x l IH]; cbn; [constructor|]. destruct (p x); cbn; constructor; auto. Qed.

Lemma queries_sel_nofetch lim items : filter is_fetch (queries (sel_events lim items)) = [].
Proof.
  unfold sel_events. induction items as [|s items IH]; cbn; auto.
  rewrite queries_app, filter_app, IH, app_nil_r.
  destruct s as [n|cl|p [o|]|[s'|] p]; reflexivity.
Qed.

Lemma queries_phead_nofetch c all_mode : filter is_fetch (queries (phead c all_mode)) = [].
Proof. destruct all_mode; reflexivity. Qed.

Lemma filter_true {A} (l : list A) : filter (fun _ => true) l = l.
Proof. induction l; cbn; congruence. Qed.

Lemma fetch_log_nocache c k st T : c_cache c = false -> fetch_log c k st T = map (fun a => (qk k, a)) T.
Proof. intros E. unfold fetch_log. rewrite E. cbn. rewrite filter_true. reflexivity. Qed.

Lemma fetch_log_lst0 c k T : fetch_log c k lst0 T = map (fun a => (qk k, a)) T.
Proof.
  unfold fetch_log. rewrite (filter_all _ T); auto. intros x _.
  destruct k; cbn; rewrite andb_false_r; reflexivity.
Qed.

Lemma fetch_log_fetch c k st T : k <> FTypes -> filter is_fetch (fetch_log c k st T) = fetch_log c k st T.
Proof.
  intros Hk. apply filter_all. intros q Hq. unfold fetch_log in Hq. apply in_map_iff in Hq.
  destruct Hq as [a [<- _]]. destruct k; try congruence; reflexivity.
Qed.

Lemma NoDup_app_intro {A} (l1 l2 : list A) :
  NoDup l1 -> NoDup l2 -> (forall x, In x l1 -> ~ In x l2) -> NoDup (l1 ++ l2).
Proof.
  induction 1 as [|x l1 Hn Hnd IH]; cbn; intros H2 Hd; auto.
  constructor.
  - rewrite in_app_iff. intros [H|H]; [contradiction | apply (Hd x); auto].
  - apply IH; auto.
Qed.

Lemma fetch_log_NoDup c k st T : NoDup T -> NoDup (fetch_log c k st T).
Proof.
  intros H. unfold fetch_log. apply NoDup_map_of_inj; [apply NoDup_filter; exact H|].
  intros x y _ _ E. congruence.
Qed.

Lemma fetch_log_In c k st T q : In q (fetch_log c k st T) ->
  fst q = qk k /\ In (snd q) T /\ (c_cache c && tracked k st (snd q) = false).
Proof.
  unfold fetch_log. intros H. apply in_map_iff in H. destruct H as [a [<- Ha]].
  apply filter_In in Ha. destruct Ha as [Ha Hb]. apply negb_true_iff in Hb. cbn. auto.
Qed.

Lemma cache_log_class c G O all_mode classes :
  ord_ok O -> dom c G ->
  ((c_cap c <= 0)%Z \/ all_mode = true) ->
  let rc := run_class G (with_cache true c) all_mode classes O in
  let rn := run_class G (with_cache false c) all_mode classes O in
  subseq (log_of rc) (log_of rn) /\
  List.length (log_of rc) <= List.length (log_of rn) /\
  NoDup (filter is_fetch (log_of rc)).
Proof.
  intros Ho [Hd Hn] Hfull rc rn.
  set (al := c_allow_num c). set (tau := c_tau c).
  set (T1 := ptargets G c O 1 all_mode classes). set (T2 := ptargets G c O 2 all_mode classes).
  destruct (ptargets_ok al tau G Hd c O 1 all_mode classes eq_refl Ho) as [HT1 Hp1].
  destruct (ptargets_ok al tau G Hd c O 2 all_mode classes eq_refl Ho) as [HT2 Hp2].
  fold T1 in HT1, Hp1. fold T2 in HT2, Hp2.
  (* the run with the cache *)
  destruct (run_class_spec al tau G Hd Hn (with_cache true c) all_mode classes O eq_refl eq_refl Ho)
    as [sc [Ic [_ [C2 C1]]]].
  fold rc in C2, C1. rewrite !ptargets_with_cache in C2, C1. fold T1 in C1. fold T2 in C2.
  destruct C1 as [[C1 Esc] | [n [Hc [Ha _]]]]; [|destruct Hfull; [cbn in Hc; lia | congruence]].
  destruct (yielder_spec al tau G Hd Hn (with_cache true c) O 1 lst0 T1 eq_refl Ho HT1 Hp1 (Inv0 al G))
    as [_ [_ [Qc1 [_ [_ Trc]]]]].
  destruct (yielder_spec al tau G Hd Hn (with_cache true c) O 2 sc T2 eq_refl Ho HT2 Hp2 Ic)
    as [_ [_ [Qc2 _]]].
  (* the run without *)
  destruct (run_class_spec al tau G Hd Hn (with_cache false c) all_mode classes O eq_refl eq_refl Ho)
    as [sn [In_ [_ [N2 N1]]]].
  fold rn in N2, N1. rewrite !ptargets_with_cache in N2, N1. fold T1 in N1. fold T2 in N2.
  destruct N1 as [[N1 _] | [n [Hc [Ha _]]]]; [|destruct Hfull; [cbn in Hc; lia | congruence]].
  destruct (yielder_spec al tau G Hd Hn (with_cache false c) O 1 lst0 T1 eq_refl Ho HT1 Hp1 (Inv0 al G))
    as [_ [_ [Qn1 _]]].
  destruct (yielder_spec al tau G Hd Hn (with_cache false c) O 2 sn T2 eq_refl Ho HT2 Hp2 In_)
    as [_ [_ [Qn2 _]]].
  cbn [c_inverse with_cache] in *.
  assert (Lc : log_of rc =
    (queries (phead (with_cache true c) all_mode) ++ queries (psel G (with_cache true c) O 1 all_mode classes) ++
     (fetch_log (with_cache true c) FPO lst0 T1 ++ (if c_inverse c then fetch_log (with_cache true c) FSP lst0 T1 else []))) ++
    (queries (phead (with_cache true c) all_mode) ++ queries (psel G (with_cache true c) O 2 all_mode classes) ++
     (fetch_log (with_cache true c) FPO sc T2 ++ (if c_inverse c then fetch_log (with_cache true c) FSP sc T2 else [])))).
  { unfold log_of. rewrite C1, C2, !queries_app, Qc1, Qc2. reflexivity. }
  assert (Ln : log_of rn =
    (queries (phead (with_cache false c) all_mode) ++ queries (psel G (with_cache false c) O 1 all_mode classes) ++
     (fetch_log (with_cache false c) FPO lst0 T1 ++ (if c_inverse c then fetch_log (with_cache false c) FSP lst0 T1 else []))) ++
    (queries (phead (with_cache false c) all_mode) ++ queries (psel G (with_cache false c) O 2 all_mode classes) ++
     (fetch_log (with_cache false c) FPO sn T2 ++ (if c_inverse c then fetch_log (with_cache false c) FSP sn T2 else [])))).
  { unfold log_of. rewrite N1, N2, !queries_app, Qn1, Qn2. reflexivity. }
  assert (Hsub : subseq (log_of rc) (log_of rn)).
  { rewrite Lc, Ln. rewrite !fetch_log_lst0, !(fetch_log_nocache (with_cache false c)) by reflexivity.
    apply subseq_app; [apply subseq_refl|].
    apply subseq_app; [apply subseq_refl|]. apply subseq_app; [apply subseq_refl|].
    apply subseq_app; [apply subseq_map_filter|].
    destruct (c_inverse c); [apply subseq_map_filter | constructor]. }
  split; [exact Hsub|]. split; [apply subseq_length; exact Hsub|].
  rewrite Lc, !filter_app, !queries_phead_nofetch.
  unfold psel. rewrite !queries_sel_nofetch. cbn [app].
  assert (Hif : forall st T, filter is_fetch (if c_inverse c then fetch_log (with_cache true c) FSP st T else []) =
                             (if c_inverse c then fetch_log (with_cache true c) FSP st T else [])).
  { intros st T. destruct (c_inverse c); [apply fetch_log_fetch; discriminate | reflexivity]. }
  rewrite !Hif, !fetch_log_fetch by discriminate.
  (* tracked after pass 1 *)
  assert (Htr : forall k x, k <> FTypes -> In x T1 -> (k = FPO \/ c_inverse c = true) -> tracked k sc x = true).
  { intros k x Hk Hx Hki. rewrite Esc, (Trc k x Hk). cbn [c_cache with_cache andb].
    assert (mem_str x T1 = true) by (apply mem_str_In; exact Hx). rewrite H, andb_true_r.
    destruct k; cbn; try congruence; auto. destruct Hki as [Hki|Hki]; [discriminate | rewrite Hki; reflexivity]. }
  rewrite <- app_assoc.
  apply NoDup_app_intro; [apply fetch_log_NoDup; exact HT1 | |].
  - apply NoDup_app_intro; [destruct (c_inverse c); [apply fetch_log_NoDup; exact HT1 | constructor] | |].
    + apply NoDup_app_intro; [apply fetch_log_NoDup; exact HT2 |
                              destruct (c_inverse c); [apply fetch_log_NoDup; exact HT2 | constructor] |].
      intros q H1 H2. destruct (c_inverse c); [|destruct H2].
      apply fetch_log_In in H1, H2. destruct H1 as [H1 _], H2 as [H2 _]. rewrite H1 in H2. discriminate.
    + intros q H1 H2. destruct (c_inverse c) eqn:Ei; [|destruct H1].
      apply fetch_log_In in H1. destruct H1 as [K1 [K2 _]].
      apply in_app_iff in H2. destruct H2 as [H2|H2]; apply fetch_log_In in H2; destruct H2 as [M1 [M2 M3]].
      * rewrite K1 in M1. discriminate.
      * cbn [c_cache with_cache andb] in M3. rewrite (Htr FSP (snd q)) in M3; auto; discriminate.
  - intros q H1 H2. apply fetch_log_In in H1. destruct H1 as [K1 [K2 _]].
    apply in_app_iff in H2. destruct H2 as [H2|H2].
    + destruct (c_inverse c); [|destruct H2]. apply fetch_log_In in H2. destruct H2 as [M1 _].
      rewrite K1 in M1. discriminate.
    + apply in_app_iff in H2. destruct H2 as [H2|H2].
      * apply fetch_log_In in H2. destruct H2 as [M1 [M2 M3]].
        cbn [c_cache with_cache andb] in M3. rewrite (Htr FPO (snd q)) in M3; auto; discriminate.
      * destruct (c_inverse c); [|destruct H2]. apply fetch_log_In in H2. destruct H2 as [M1 _].
        rewrite K1 in M1. discriminate.
Qed.

(** shape-map mode: selectors solved once, one pass over the yielder *)
Definition sel_plain (s : selector) : bool :=
  match s with
  | SelNode n => plain n
  | SelClass _ => true
  | SelFocusS _ _ => true
  | SelFocusO _ _ => false
  end.

Lemma map_targets_plain c G O items x :
  ord_ok O -> dom c G -> forallb sel_plain items = true ->
  In x (collect G O 1 2 (c_tau c) (-1) items) -> plain x = true.
Proof.
  intros Ho [Hd Hn] Hit Hx. apply (collect_In G O 1 2 _ _ items x Ho) in Hx. destruct Hx as [it [Hin Hx]].
  rewrite forallb_forall in Hit. specialize (Hit it Hin).
  assert (Hsub : forall l, incl l G -> In x (map (fun t => value_of_node (ss t)) l) -> plain x = true).
  { intros l Hl H. apply in_map_iff in H. destruct H as [t [E Ht]].
    destruct (dom_facts _ _ G Hd t (Hl t Ht)) as [s F]. rewrite (sf_subj _ _ _ F) in E. cbn in E. subst.
    apply (sf_plain _ _ _ F). }
  destruct Ho as [Ho _].
  destruct it as [n|cl|p [o|]|s' p]; cbn in Hit, Hx; try discriminate.
  - destruct Hx as [<-|[]]. exact Hit.
  - eapply Hsub; [|exact Hx]. intros t Ht. try apply limit_answers_incl in Ht.
    apply (Permutation_in _ (Ho _ _ _)) in Ht. apply filter_In in Ht. tauto.
  - eapply Hsub; [|exact Hx]. intros t Ht. apply (Permutation_in _ (Ho _ _ _)) in Ht. apply filter_In in Ht. tauto.
  - eapply Hsub; [|exact Hx]. intros t Ht. apply (Permutation_in _ (Ho _ _ _)) in Ht. apply filter_In in Ht. tauto.
Qed.

Lemma triples_map c G O items :
  ord_ok O -> dom c G -> forallb sel_plain items = true ->
  let r := run c (MShapeMap items) G O in
  let T := collect G O 1 2 (c_tau c) (-1) items in
  r_ok r = true /\ yields (r_p1 r) = [] /\
  Permutation (yields (r_p2 r)) (local_graph (touching (c_inverse c) T G)) /\
  queries (r_p2 r) = map (fun a => (QPO, a)) T ++ (if c_inverse c then map (fun a => (QSP, a)) T else []).
Proof.
  intros Ho Hdm Hit r T. pose proof Hdm as [Hd Hn].
  assert (HT : NoDup T) by (apply collect_NoDup; exact Ho).
  assert (Hp : forall a, In a T -> plain a = true) by (intros a Ha; eapply map_targets_plain; eauto).
  destruct (yielder_spec (c_allow_num c) (c_tau c) G Hd Hn c O 2 lst0 T eq_refl Ho HT Hp (Inv0 _ G))
    as [Y1 [Y2 [Y3 _]]].
  subst r. cbn [run]. fold T. cbn [r_ok r_p1 r_p2].
  rewrite (cut_at_err_id _ Y2), Y2. split; [reflexivity|]. split; [apply yields_sel|]. split; [exact Y1|].
  rewrite Y3, !fetch_log_lst0. reflexivity.
Qed.

Lemma cache_log_map c G O items :
  ord_ok O -> dom c G -> forallb sel_plain items = true ->
  log_of (run (with_cache true c) (MShapeMap items) G O) = log_of (run (with_cache false c) (MShapeMap items) G O) /\
  Permutation (yields (r_p2 (run (with_cache true c) (MShapeMap items) G O)))
              (yields (r_p2 (run (with_cache false c) (MShapeMap items) G O))).
Proof.
  intros Ho Hd Hit.
  destruct (triples_map (with_cache true c) G O items Ho (dom_with_cache true c G Hd) Hit) as [_ [_ [A B]]].
  destruct (triples_map (with_cache false c) G O items Ho (dom_with_cache false c G Hd) Hit) as [_ [_ [A' B']]].
  cbn [c_tau c_inverse with_cache] in *. split.
  - unfold log_of. rewrite B, B'. reflexivity.
  - eapply perm_trans; [exact A | apply Permutation_sym; exact A'].
Qed.
