(** * Property-level theorems on the shexing stage [shex fa cfg thr P C],
    for an arbitrary class profile [P] and counts [C].

    K1 (C02): one shape per class; the keys of a shape are pairwise distinct
        and a key is present iff some profile entry of the key reaches the
        threshold.
    K3 (C01): every figure of the output is a figure of the profile.
    K2 (C12): raising the threshold only removes keys / shapes.
    K4 (C03): an optional ([?]) constraint stands for "never two values". *)
From Coq Require Import List Ascii String ZArith NArith Bool Lia Permutation.
From Shexer Require Import Lib.PyStr Lib.Dict Gen.Consts Model.Profiler Model.Tokens Model.Freq
  Model.Shexing Proofs.ShexLemmas.
Import ListNotations.

(** ** keys *)
Inductive vclass := VLit (dt : str) | VNonLit | VClass (c : str).

(** the node kinds, shape references and the merged kind *)
Definition nonlit_kind (k : str) : bool := is_nonliteral_type k || str_eqb k c_NONLITERAL_ELEM_TYPE.

(** value class of the type list of a statement of property [p]: for tau the
    class itself, for one type its datatype or "non literal", for an OR of
    shapes "non literal" *)
Definition value_class (tau p : str) (ts : list str) : vclass :=
  if str_eqb p tau then VClass (hd [] ts)
  else match ts with
       | [k] => if nonlit_kind k then VNonLit else VLit k
       | _ => VNonLit
       end.

Definition cnt_of (C : ccounts) (c : str) : N := match dget C c with Some n => n | None => 0%N end.

Lemma NoDup_app_intro {A} (l1 l2 : list A) :
  NoDup l1 -> NoDup l2 -> (forall x, In x l1 -> In x l2 -> False) -> NoDup (l1 ++ l2).
Proof.
  induction l1 as [|a l1 IH]; intros H1 H2 Hd; cbn; [exact H2|].
  inversion H1 as [|? ? Hn Hd1]; subst. constructor.
  - intros Hin. apply in_app_or in Hin. destruct Hin as [Hin|Hin]; [contradiction|].
    apply (Hd a); [left; reflexivity | exact Hin].
  - apply IH; auto. intros x Hx. apply Hd. right; exact Hx.
Qed.

Lemma Forall2_join {A B C} (R : A -> B -> Prop) (S : A -> C -> Prop) l l1 l2 :
  Forall2 R l l1 -> Forall2 S l l2 -> Forall2 (fun b c => exists a, In a l /\ R a b /\ S a c) l1 l2.
Proof.
  intros H1; revert l2; induction H1 as [|a b l l1 Hab _ IH]; intros l2 H2; inversion H2 as [|? c ? l2' Hac H2']; subst.
  - constructor.
  - constructor; [exists a; split; [left; reflexivity | auto]|].
    eapply Forall2_impl_In; [|apply IH; exact H2']. cbn. intros x y _ _ [a' [Ha' Hr]]. exists a'. split; [right; exact Ha' | exact Hr].
Qed.

Lemma max_among {X} (f : X -> N) (Q : X -> Prop) (dec : forall x, {Q x} + {~ Q x}) (l : list X) :
  (forall x, In x l -> ~ Q x) \/
  exists m, In m l /\ Q m /\ forall x, In x l -> Q x -> (f x <= f m)%N.
Proof.
  induction l as [|a l IH]; [left; intros x []|].
  destruct IH as [Hn | [m [Hm [Qm Hmax]]]].
  - destruct (dec a) as [Qa|Na].
    + right. exists a. split; [left; reflexivity|]. split; [exact Qa|].
      intros x [<-|Hx] Qx; [lia | contradiction (Hn x Hx Qx)].
    + left. intros x [<-|Hx]; auto.
  - destruct (dec a) as [Qa|Na].
    + destruct (N.le_ge_cases (f a) (f m)) as [Hle|Hge].
      * right. exists m. split; [right; exact Hm|]. split; [exact Qm|].
        intros x [<-|Hx] Qx; [exact Hle | apply Hmax; assumption].
      * right. exists a. split; [left; reflexivity|]. split; [exact Qa|].
        intros x [<-|Hx] Qx; [lia | specialize (Hmax x Hx Qx); lia].
    + right. exists m. split; [right; exact Hm|]. split; [exact Qm|].
      intros x [<-|Hx] Qx; [contradiction | apply Hmax; assumption].
Qed.

Definition vclass_eq_dec (a b : vclass) : {a = b} + {a <> b}.
Proof. decide equality; apply str_eq_dec. Defined.

(** all entries of a property dictionary *)
Definition pd_list (pd : pdict) : list (str * str * ckey * N) :=
  flat_map (fun pe : str * dict cdict =>
    flat_map (fun ke : str * cdict =>
      map (fun ce : ckey * N => (fst pe, fst ke, fst ce, snd ce)) (snd ke)) (snd pe)) pd.

Lemma pd_list_In pd p k ck n : In (p, k, ck, n) (pd_list pd) <-> pd_entry pd p k ck n.
Proof.
  unfold pd_list, pd_entry. rewrite in_flat_map. split.
  - intros [[p' kd] [Hp H]]. apply in_flat_map in H. destruct H as [[k' cd] [Hk H]].
    apply in_map_iff in H. destruct H as [[ck' n'] [E Hc]]. cbn in E. injection E as -> -> -> ->.
    exists kd, cd. auto.
  - intros (kd & cd & Hp & Hk & Hc). exists (p, kd). split; [exact Hp|]. apply in_flat_map.
    exists (k, cd). split; [exact Hk|]. apply in_map_iff. exists (ck, n). auto.
Qed.

Section Keys.
  Variable fa : FreqAlg.
  Variable cfg : scfg.

  Definition skey (st : stmt) : bool * str * vclass :=
    (s_inv st, s_prop st, value_class (x_tau cfg) (s_prop st) (s_types st)).

  Lemma skey_sig a b : sig a = sig b -> skey a = skey b.
  Proof. unfold sig, skey. intros H; injection H as -> -> -> _ _. reflexivity. Qed.

  Lemma skey_core a b : core_eq a b -> skey a = skey b.
  Proof. unfold skey. intros (-> & -> & -> & _). reflexivity. Qed.

  (** statements as [base_statements] makes them, in direction [d] *)
  Definition plain (d : bool) (s : stmt) : Prop :=
    s_inv s = d /\ s_choice s = false /\ s_types s = [s_type s].

  Lemma plain_core d r s : core_eq r s -> plain d s -> plain d r.
  Proof.
    intros Hc (H1 & H2 & H3). pose proof (core_eq_type _ _ Hc) as Ht.
    destruct Hc as (C1 & _ & C3 & C4 & _). unfold plain. rewrite C1, C4, C3, Ht. auto.
  Qed.

  Lemma plain_base d p k ck n : plain d (base_stmt d p k ck n).
  Proof. repeat split. Qed.

  Lemma node_pass_false s :
    node_pass cfg s = false -> str_eqb (s_prop s) (x_tau cfg) = false /\ is_nonliteral_type (s_type s) = true.
  Proof.
    unfold node_pass. intros H. apply orb_false_iff in H. destruct H as [H1 H2].
    apply negb_false_iff in H2. auto.
  Qed.

  Lemma skey_npass d s : plain d s -> node_pass cfg s = false -> skey s = (d, s_prop s, VNonLit).
  Proof.
    intros (H1 & _ & H3) Hp. apply node_pass_false in Hp. destruct Hp as [Hp1 Hp2].
    unfold skey, value_class. rewrite H1, H3, Hp1. unfold nonlit_kind. rewrite Hp2. reflexivity.
  Qed.

  Lemma nonlit_kind_NONLITERAL : nonlit_kind c_NONLITERAL_ELEM_TYPE = true.
  Proof. reflexivity. Qed.

  Lemma node_group_In l a x :
    In x (node_group cfg l a) <-> In x l /\ node_pass cfg x = false /\ s_prop a = s_prop x.
  Proof.
    unfold node_group. rewrite filter_In, andb_true_iff, negb_true_iff, str_eqb_eq. tauto.
  Qed.

  (** key of the dominant statement of a merge group *)
  Lemma dominant_key d g a d0 :
    (forall x, In x g -> plain d x /\ node_pass cfg x = false /\ s_prop a = s_prop x) ->
    dominant_of g d0 ->
    s_inv d0 = d /\ s_prop d0 = s_prop a /\ s_choice d0 = false /\
    exists k, s_types d0 = [k] /\ nonlit_kind k = true.
  Proof.
    intros Hg Hd. destruct Hd as [d0 Hin | b i Hb Hi Tb Ti].
    - destruct (Hg d0 Hin) as ((H1 & H2 & H3) & Hp & Hpr). apply node_pass_false in Hp.
      repeat split; auto. exists (s_type d0). split; [exact H3|]. unfold nonlit_kind.
      destruct Hp as [_ ->]. reflexivity.
    - destruct (Hg b Hb) as ((H1 & H2 & H3) & Hp & Hpr). cbn. repeat split; auto.
      exists c_NONLITERAL_ELEM_TYPE. split; reflexivity.
  Qed.

  Lemma node_pick_key d cnt l a r :
    Forall (plain d) l -> In a l -> node_pick fa cfg cnt l a r -> skey r = skey a.
  Proof.
    intros Hpl Ha Hp. rewrite Forall_forall in Hpl. unfold node_pick in Hp.
    destruct (node_pass cfg a) eqn:Epa; [subst; reflexivity|].
    rewrite (skey_npass d a (Hpl a Ha) Epa).
    assert (Hg : forall x, In x (node_group cfg l a) -> plain d x /\ node_pass cfg x = false /\ s_prop a = s_prop x).
    { intros x Hx. apply node_group_In in Hx. destruct Hx as (H1 & H2 & H3). auto. }
    destruct (node_group cfg l a) as [|x [|y g]] eqn:Eg; [destruct Hp| |].
    - subst r. destruct (Hg x (or_introl eq_refl)) as (H1 & H2 & H3).
      rewrite (skey_npass d x H1 H2), H3. reflexivity.
    - apply merge_group_spec in Hp. destruct Hp as (d0 & d1 & ks & Hd & Ho & Hc & _).
      destruct (dominant_key d _ a d0 Hg Hd) as (I1 & I2 & I3 & k & I4 & I5).
      rewrite (skey_core _ _ Hc).
      destruct (node_pass_false a Epa) as [Etau _].
      destruct Ho as [|tys Hlen _ _].
      + unfold skey, value_class. rewrite I1, I2, I4, Etau, I5. reflexivity.
      + unfold skey, value_class, choice_of; cbn. rewrite I1, I2, Etau.
        destruct tys as [|t1 [|t2 tys]]; cbn in Hlen; try lia. reflexivity.
  Qed.

  (** a type key that is literally "NONLITERAL" (outside tau) would collide
      with the merged kind; real profiles never have one *)
  Definition no_nl (s : stmt) : Prop :=
    s_prop s <> x_tau cfg -> s_type s <> c_NONLITERAL_ELEM_TYPE.

  Lemma skey_plain d s :
    plain d s ->
    skey s = (d, s_prop s,
              if str_eqb (s_prop s) (x_tau cfg) then VClass (s_type s)
              else if nonlit_kind (s_type s) then VNonLit else VLit (s_type s)).
  Proof. intros (H1 & _ & H3). unfold skey, value_class. rewrite H1, H3. reflexivity. Qed.

  Lemma skey_plain_tok d a b : plain d a -> plain d b -> tok a = tok b -> skey a = skey b.
  Proof.
    intros Ha Hb Ht. rewrite (skey_plain d a Ha), (skey_plain d b Hb).
    unfold tok in Ht. injection Ht as -> ->. reflexivity.
  Qed.

  Lemma nonlit_kind_npass s :
    no_nl s -> str_eqb (s_prop s) (x_tau cfg) = false -> nonlit_kind (s_type s) = true ->
    node_pass cfg s = false.
  Proof.
    intros Hn Ht Hk. unfold node_pass. rewrite Ht. cbn. apply negb_false_iff.
    unfold nonlit_kind in Hk. apply orb_true_iff in Hk. destruct Hk as [Hk|Hk]; [exact Hk|].
    apply str_eqb_eq in Hk. apply str_eqb_neq in Ht. contradiction (Hn Ht Hk).
  Qed.

  Lemma NoDup_skey_heads d h :
    Forall (plain d) h -> Forall no_nl h -> NoDup (map tok h) ->
    NoDup (map s_prop (filter (fun a => negb (node_pass cfg a)) h)) ->
    NoDup (map skey h).
  Proof.
    induction h as [|a h IH]; intros Hpl Hnl Ht Hp; [constructor|].
    inversion Hpl as [|? ? Pa Ph]; subst. inversion Hnl as [|? ? Na Nh]; subst.
    inversion Ht as [|? ? Ta Th]; subst. cbn [map]. constructor.
    - intros Hin. apply in_map_iff in Hin. destruct Hin as [b [Ek Hb]].
      rewrite Forall_forall in Ph, Nh. pose proof (Ph b Hb) as Pb. pose proof (Nh b Hb) as Nb.
      rewrite (skey_plain d a Pa), (skey_plain d b Pb) in Ek.
      injection Ek as Eprop Evc. rewrite Eprop in Evc.
      assert (Htok : tok b = tok a -> False).
      { intros E. apply Ta. rewrite <- E. apply in_map. exact Hb. }
      destruct (str_eqb (s_prop a) (x_tau cfg)) eqn:Etau.
      + injection Evc as Ety. apply Htok. unfold tok. rewrite Eprop, Ety. reflexivity.
      + destruct (nonlit_kind (s_type a)) eqn:Ka, (nonlit_kind (s_type b)) eqn:Kb; try discriminate.
        * pose proof (nonlit_kind_npass a Na Etau Ka) as Hpa.
          assert (Etau' : str_eqb (s_prop b) (x_tau cfg) = false) by (rewrite Eprop; exact Etau).
          pose proof (nonlit_kind_npass b Nb Etau' Kb) as Hpb.
          cbn [filter] in Hp. rewrite Hpa in Hp. cbn in Hp. inversion Hp as [|? ? Hn _]; subst.
          apply Hn. rewrite <- Eprop. apply in_map. apply filter_In. rewrite Hpb. auto.
        * injection Evc as Ety. apply Htok. unfold tok. rewrite Eprop, Ety. reflexivity.
    - apply IH; auto. cbn [filter] in Hp. destruct (negb (node_pass cfg a)); [|exact Hp].
      cbn in Hp. inversion Hp; assumption.
  Qed.

  Lemma no_nl_core r s : core_eq r s -> no_nl s -> no_nl r.
  Proof.
    intros Hc Hn. unfold no_nl. rewrite (core_eq_type _ _ Hc). destruct Hc as (_ & -> & _). exact Hn.
  Qed.

  (** keys through [select_valid] *)
  Theorem select_valid_keys d cnt l out :
    Forall (plain d) l -> select_valid fa cfg cnt l = inl out ->
    (forall r, In r out -> exists s, In s l /\ skey r = skey s) /\
    (forall s, In s l -> exists r, In r out /\ skey r = skey s) /\
    (Forall no_nl l -> NoDup (map skey out)).
  Proof.
    intros Hpl H. rewrite select_valid_eq in H.
    destruct (group_same fa cfg (List.length l) cnt l) as [l1|e] eqn:E1; [|discriminate].
    pose proof (group_nodes_spec fa cfg _ cnt l1 out (le_n _) H) as F.
    assert (P1 : forall r, In r l1 -> exists s, In s l /\ core_eq r s).
    { intros r Hr. destruct (group_same_out fa cfg _ cnt l l1 r (le_n _) E1 Hr) as [s [Hs [Hc _]]].
      apply filter_In in Hs. exists s; tauto. }
    assert (Hpl1 : Forall (plain d) l1).
    { apply Forall_forall. intros r Hr. destruct (P1 r Hr) as [s [Hs Hc]].
      rewrite Forall_forall in Hpl. apply (plain_core d r s Hc), Hpl, Hs. }
    assert (K : Forall2 (fun a r => skey r = skey a) (node_heads cfg l1) out).
    { eapply Forall2_impl_In; [|exact F]. intros a r Ha _ Hp.
      apply (node_pick_key d cnt l1 a r Hpl1); [apply (node_heads_In cfg); exact Ha | exact Hp]. }
    split; [|split].
    - intros r Hr. destruct (Forall2_In_r _ _ _ _ K Hr) as [a [Ha Ek]].
      apply (node_heads_In cfg) in Ha. destruct (P1 a Ha) as [s [Hs Hc]].
      exists s. split; [exact Hs|]. rewrite Ek. apply skey_core; exact Hc.
    - intros s Hs.
      destruct (group_same_cover fa cfg _ cnt l l1 s (le_n _) E1 Hs) as [r1 [Hr1 Et]].
      rewrite Forall_forall in Hpl, Hpl1.
      assert (Ek1 : skey r1 = skey s) by (apply (skey_plain_tok d); auto).
      destruct (node_pass cfg r1) eqn:Ep.
      + destruct (Forall2_In_l _ _ _ _ K (node_heads_pass cfg r1 l1 Hr1 Ep)) as [r [Hr Ek]].
        exists r. split; [exact Hr | congruence].
      + destruct (node_heads_cover cfg r1 l1 Hr1 Ep) as [a [Ha [Epa Epr]]].
        destruct (Forall2_In_l _ _ _ _ K Ha) as [r [Hr Ek]].
        exists r. split; [exact Hr|]. rewrite Ek, <- Ek1.
        rewrite (skey_npass d a (Hpl1 a (node_heads_In cfg a l1 Ha)) Epa), (skey_npass d r1 (Hpl1 r1 Hr1) Ep), Epr.
        reflexivity.
    - intros Hnl.
      rewrite (Forall2_map_eq skey skey out (node_heads cfg l1)).
      2:{ clear -K. induction K; constructor; auto. }
      assert (Hnl1 : Forall no_nl l1).
      { apply Forall_forall. intros r Hr. destruct (P1 r Hr) as [s [Hs Hc]].
        rewrite Forall_forall in Hnl. apply (no_nl_core r s Hc), Hnl, Hs. }
      apply (NoDup_skey_heads d).
      + apply Forall_forall. intros a Ha. rewrite Forall_forall in Hpl1. apply Hpl1, (node_heads_In cfg), Ha.
      + apply Forall_forall. intros a Ha. rewrite Forall_forall in Hnl1. apply Hnl1, (node_heads_In cfg), Ha.
      + apply node_heads_NoDup_map. apply (group_same_NoDup fa cfg _ cnt l l1 (le_n _) E1).
      + apply node_heads_nodup_prop.
  Qed.

  (** ** one class *)

  (** the part of the profile of a class that is read for direction [inv] *)
  Definition class_pd (ce : str * centry) (inv : bool) : pdict :=
    if inv then (if x_inverse cfg then c_inverse (snd ce) else []) else c_direct (snd ce).

  Definition class_base (thr : F fa) (cnt : N) (ce : str * centry) : list stmt :=
    base_statements fa thr cnt false (c_direct (snd ce)) ++
    (if x_inverse cfg then base_statements fa thr cnt true (c_inverse (snd ce)) else []).

  Definition dirl (d : bool) (l : list stmt) : list stmt :=
    filter (fun s => if d then s_inv s else negb (s_inv s)) l.

  Definition class_sorted (thr : F fa) (cnt : N) (ce : str * centry) : list stmt :=
    sort_desc fa cnt (class_base thr cnt ce).

  Lemma pd_entry_nil p k ck n : ~ pd_entry [] p k ck n.
  Proof. intros (kd & cd & H & _). destruct H. Qed.

  Lemma dirl_In d thr cnt ce s :
    In s (dirl d (class_sorted thr cnt ce)) <->
    exists p k ck n, pd_entry (class_pd ce d) p k ck n /\ fle fa thr (ratio fa n cnt) = true /\
                     s = base_stmt d p k ck n.
  Proof.
    unfold dirl, class_sorted, class_base. rewrite filter_In, sort_desc_In, in_app_iff.
    rewrite base_statements_spec. split.
    - intros [[H|H] Hd].
      + destruct H as (p & k & ck & n & He & Hf & ->). cbn in Hd. destruct d; [discriminate|].
        exists p, k, ck, n. auto.
      + destruct (x_inverse cfg) eqn:Ei; [|destruct H]. apply base_statements_spec in H.
        destruct H as (p & k & ck & n & He & Hf & ->). cbn in Hd. destruct d; [|discriminate].
        exists p, k, ck, n. unfold class_pd. rewrite Ei. auto.
    - intros (p & k & ck & n & He & Hf & ->). unfold class_pd in He. destruct d.
      + destruct (x_inverse cfg); [|destruct (pd_entry_nil _ _ _ _ He)].
        split; [|reflexivity]. right. apply base_statements_spec. exists p, k, ck, n. auto.
      + split; [|reflexivity]. left. exists p, k, ck, n. auto.
  Qed.

  Lemma dirl_plain d thr cnt ce : Forall (plain d) (dirl d (class_sorted thr cnt ce)).
  Proof.
    apply Forall_forall. intros s Hs. apply dirl_In in Hs. destruct Hs as (p & k & ck & n & _ & _ & ->).
    apply plain_base.
  Qed.

  Theorem shex_class_unfold thr C ce sh :
    shex_class fa cfg thr C ce = inl sh ->
    let cnt := cnt_of C (fst ce) in
    exists vd vi,
      select_valid fa cfg cnt (dirl false (class_sorted thr cnt ce)) = inl vd /\
      select_valid fa cfg cnt (dirl true (class_sorted thr cnt ce)) = inl vi /\
      tune fa cfg cnt (vd ++ vi) = inl (sh_stmts sh) /\
      sh_name sh = shape_name (x_shapes_ns cfg) (fst ce) /\ sh_class sh = fst ce /\ sh_n sh = cnt.
  Proof.
    intros H. cbv zeta. set (cnt := cnt_of C (fst ce)). unfold shex_class in H. cbv zeta in H.
    change (match dget C (fst ce) with Some n => n | None => 0%N end) with cnt in H.
    change (sort_desc fa cnt (base_statements fa thr cnt false (c_direct (snd ce)) ++
             (if x_inverse cfg then base_statements fa thr cnt true (c_inverse (snd ce)) else [])))
      with (class_sorted thr cnt ce) in H.
    change (filter (fun s => negb (s_inv s)) (class_sorted thr cnt ce)) with (dirl false (class_sorted thr cnt ce)) in H.
    change (filter (fun s => s_inv s) (class_sorted thr cnt ce)) with (dirl true (class_sorted thr cnt ce)) in H.
    destruct (select_valid fa cfg cnt (dirl false (class_sorted thr cnt ce))) as [vd|e] eqn:Ed; [|discriminate].
    destruct (select_valid fa cfg cnt (dirl true (class_sorted thr cnt ce))) as [vi|e] eqn:Ei; [|discriminate].
    destruct (tune fa cfg cnt (vd ++ vi)) as [stmts|e] eqn:Et; [|discriminate].
    injection H as <-. exists vd, vi. cbn. repeat split; auto.
  Qed.

  (** some profile entry of the key reaches the threshold *)
  Definition key_passes (thr : F fa) (cnt : N) (pd : pdict) (p : str) (vc : vclass) : Prop :=
    exists k ck n, pd_entry pd p k ck n /\ value_class (x_tau cfg) p [k] = vc /\
                   fle fa thr (ratio fa n cnt) = true.

  Definition pd_no_nl (pd : pdict) : Prop :=
    forall p k ck n, pd_entry pd p k ck n -> p <> x_tau cfg -> k <> c_NONLITERAL_ELEM_TYPE.

  Definition skey_of_sig (x : bool * str * list str * bool * N) : bool * str * vclass :=
    let '(i, p, ts, _, _) := x in (i, p, value_class (x_tau cfg) p ts).

  Lemma skey_of_sig_eq s : skey s = skey_of_sig (sig s).
  Proof. reflexivity. Qed.

  Lemma tune_skey_perm cnt valid out :
    tune fa cfg cnt valid = inl out -> Permutation (map skey valid) (map skey out).
  Proof.
    intros H. apply tune_sig_perm in H.
    rewrite (map_ext skey (fun s => skey_of_sig (sig s)) skey_of_sig_eq).
    rewrite <- !(map_map sig skey_of_sig). apply Permutation_map. exact H.
  Qed.

  Lemma skey_base d p k ck n : skey (base_stmt d p k ck n) = (d, p, value_class (x_tau cfg) p [k]).
  Proof. reflexivity. Qed.

  Lemma select_valid_inv d cnt l out r :
    Forall (plain d) l -> select_valid fa cfg cnt l = inl out -> In r out -> s_inv r = d.
  Proof.
    intros Hpl H Hr. destruct (select_valid_keys d cnt l out Hpl H) as (A & _ & _).
    destruct (A r Hr) as [s [Hs Ek]]. rewrite Forall_forall in Hpl. destruct (Hpl s Hs) as [Hi _].
    unfold skey in Ek. injection Ek as E1 _ _. congruence.
  Qed.

  (** K1 for one class, presence *)
  Theorem shex_class_keys thr C ce sh :
    shex_class fa cfg thr C ce = inl sh ->
    forall inv p vc,
      In (inv, p, vc) (map skey (sh_stmts sh)) <->
      key_passes thr (cnt_of C (fst ce)) (class_pd ce inv) p vc.
  Proof.
    intros H inv p vc. destruct (shex_class_unfold thr C ce sh H) as (vd & vi & Hd & Hi & Ht & _).
    set (cnt := cnt_of C (fst ce)) in *.
    pose proof (tune_skey_perm cnt _ _ Ht) as Pm.
    destruct (select_valid_keys false cnt _ vd (dirl_plain false thr cnt ce) Hd) as (A0 & B0 & _).
    destruct (select_valid_keys true cnt _ vi (dirl_plain true thr cnt ce) Hi) as (A1 & B1 & _).
    split.
    - intros Hin. apply (Permutation_in _ (Permutation_sym Pm)) in Hin.
      apply in_map_iff in Hin. destruct Hin as [r [Ek Hr]]. apply in_app_or in Hr.
      assert (G : forall d, (exists s, In s (dirl d (class_sorted thr cnt ce)) /\ skey r = skey s) ->
                  key_passes thr cnt (class_pd ce inv) p vc).
      { intros d [s [Hs Es]]. apply dirl_In in Hs. destruct Hs as (p0 & k & ck & n & He & Hf & ->).
        rewrite Ek, skey_base in Es. injection Es as -> -> ->. exists k, ck, n. auto. }
      destruct Hr as [Hr|Hr]; [apply (G false), A0, Hr | apply (G true), A1, Hr].
    - intros (k & ck & n & He & Hv & Hf).
      assert (Hs : In (base_stmt inv p k ck n) (dirl inv (class_sorted thr cnt ce))).
      { apply dirl_In. exists p, k, ck, n. auto. }
      apply (Permutation_in _ Pm). rewrite map_app, in_app_iff.
      destruct inv.
      + right. destruct (B1 _ Hs) as [r [Hr Ek]]. apply in_map_iff. exists r. split; [|exact Hr].
        rewrite Ek, skey_base, Hv. reflexivity.
      + left. destruct (B0 _ Hs) as [r [Hr Ek]]. apply in_map_iff. exists r. split; [|exact Hr].
        rewrite Ek, skey_base, Hv. reflexivity.
  Qed.

  (** K1 for one class, no key twice *)
  Theorem shex_class_NoDup thr C ce sh :
    shex_class fa cfg thr C ce = inl sh ->
    pd_no_nl (class_pd ce false) -> pd_no_nl (class_pd ce true) ->
    NoDup (map skey (sh_stmts sh)).
  Proof.
    intros H N0 N1. destruct (shex_class_unfold thr C ce sh H) as (vd & vi & Hd & Hi & Ht & _).
    set (cnt := cnt_of C (fst ce)) in *.
    apply (Permutation_NoDup (tune_skey_perm cnt _ _ Ht)).
    assert (Hnl : forall d, pd_no_nl (class_pd ce d) -> Forall no_nl (dirl d (class_sorted thr cnt ce))).
    { intros d Nd. apply Forall_forall. intros s Hs. apply dirl_In in Hs.
      destruct Hs as (p & k & ck & n & He & _ & ->). unfold no_nl; cbn. apply (Nd p k ck n He). }
    destruct (select_valid_keys false cnt _ vd (dirl_plain false thr cnt ce) Hd) as (_ & _ & D0).
    destruct (select_valid_keys true cnt _ vi (dirl_plain true thr cnt ce) Hi) as (_ & _ & D1).
    rewrite map_app. apply NoDup_app_intro; [apply D0, Hnl, N0 | apply D1, Hnl, N1 |].
    intros key K0 K1. apply in_map_iff in K0, K1.
    destruct K0 as [r0 [E0 R0]]. destruct K1 as [r1 [E1 R1]].
    pose proof (select_valid_inv false cnt _ vd r0 (dirl_plain false thr cnt ce) Hd R0) as I0.
    pose proof (select_valid_inv true cnt _ vi r1 (dirl_plain true thr cnt ce) Hi R1) as I1.
    rewrite <- E1 in E0. unfold skey in E0. injection E0 as E _ _. congruence.
  Qed.

  (** ** whole runs *)
  Lemma shex_unfold thr P C shapes :
    shex fa cfg thr P C = inl shapes ->
    exists shapes0, Forall2 (fun ce sh => shex_class fa cfg thr C ce = inl sh) P shapes0 /\
                    (if x_remove_empty cfg then clean_shapes (S (List.length shapes0)) shapes0 = inl shapes
                     else shapes = shapes0).
  Proof.
    unfold shex. destruct (map_err (shex_class fa cfg thr C) P) as [shapes0|e] eqn:E; [|discriminate].
    apply map_err_Forall2 in E. intros H. exists shapes0. split; [exact E|].
    destruct (x_remove_empty cfg); [exact H | injection H as <-; reflexivity].
  Qed.

  (** K1 (C02): one shape per class of the profile, in order, named after the
      class and carrying its count; the keys of a shape are exactly the keys
      some entry of which reaches the threshold, and no key occurs twice *)
  Theorem K1 thr P C shapes :
    x_remove_empty cfg = false -> shex fa cfg thr P C = inl shapes ->
    Forall2 (fun ce sh =>
      sh_name sh = shape_name (x_shapes_ns cfg) (fst ce) /\ sh_class sh = fst ce /\
      sh_n sh = cnt_of C (fst ce) /\
      (forall inv p vc, In (inv, p, vc) (map skey (sh_stmts sh)) <->
                        key_passes thr (cnt_of C (fst ce)) (class_pd ce inv) p vc) /\
      (pd_no_nl (class_pd ce false) -> pd_no_nl (class_pd ce true) -> NoDup (map skey (sh_stmts sh))))
      P shapes.
  Proof.
    intros Hre H. destruct (shex_unfold thr P C shapes H) as [shapes0 [F Hc]]. rewrite Hre in Hc. subst shapes0.
    eapply Forall2_impl_In; [|exact F]. intros ce sh _ _ Hs.
    destruct (shex_class_unfold thr C ce sh Hs) as (vd & vi & _ & _ & _ & E1 & E2 & E3).
    repeat split; auto.
    - apply (shex_class_keys thr C ce sh Hs).
    - apply (shex_class_keys thr C ce sh Hs).
    - apply (shex_class_NoDup thr C ce sh Hs).
  Qed.

  (** ** K3: figures *)

  (** where a figure (count, probability, cardinality) of property [p] and
      type [k] comes from: one profile entry, or the IRI and BNode entries
      of the merged kind *)
  Inductive fig_src (pd : pdict) (p : str) : str -> N -> prob -> card -> Prop :=
  | FS_entry k ck n : pd_entry pd p k ck n -> fig_src pd p k n (PRatio n) (card_of_key ck)
  | FS_merge ckb nb cki ni :
      pd_entry pd p c_BNODE_ELEM_TYPE ckb nb -> pd_entry pd p c_IRI_ELEM_TYPE cki ni ->
      fig_src pd p c_NONLITERAL_ELEM_TYPE (nb + ni) (PSum nb ni)
              (most_general_card (card_of_key ckb) (card_of_key cki)).

  Lemma fig_src_entry pd p k n pr c :
    fig_src pd p k n pr c -> k <> c_NONLITERAL_ELEM_TYPE ->
    exists ck, pd_entry pd p k ck n /\ pr = PRatio n /\ c = card_of_key ck.
  Proof. intros H Hk. destruct H; [eauto | contradiction]. Qed.

  Definition comment_ok (pd : pdict) (p : str) (k : comment) : Prop :=
    match k with
    | KStmt ch pr n tk c =>
      exists ty, fig_src pd p ty n pr c /\ (ch = false -> tune_token (x_ns cfg) ty = Some tk)
    | KRaw _ => False
    end.

  (** a statement before tuning *)
  Definition pre_ok (pd : pdict) (s : stmt) : Prop :=
    (exists ty, In ty (s_types s) /\ (s_choice s = false -> s_types s = [ty]) /\
                fig_src pd (s_prop s) ty (s_nocc s) (s_prob s) (s_card s)) /\
    Forall (comment_ok pd (s_prop s)) (s_comments s).

  Lemma pre_ok_base pd d p k ck n : pd_entry pd p k ck n -> pre_ok pd (base_stmt d p k ck n).
  Proof.
    intros He. split; [|constructor]. exists k. cbn. split; [left; reflexivity|]. split; [reflexivity|].
    apply FS_entry; exact He.
  Qed.

  Lemma comment_of_ok pd x k : pre_ok pd x -> comment_of cfg x = inl k -> comment_ok pd (s_prop x) k.
  Proof.
    intros [(ty & Hin & Hsing & Hf) _]. unfold comment_of. destruct (s_choice x) eqn:Ec.
    - intros H; injection H as <-. cbn. exists ty. split; [exact Hf | discriminate].
    - destruct (tune_token (x_ns cfg) (s_type x)) as [tk|] eqn:Et; [|discriminate].
      intros H; injection H as <-. cbn. exists ty. split; [exact Hf|]. intros _.
      unfold s_type in Et. rewrite (Hsing eq_refl) in Et. exact Et.
  Qed.

  Lemma comments_from_ok pd p g ks :
    (forall x, In x g -> pre_ok pd x /\ s_prop x = p) -> comments_from cfg g ks ->
    Forall (comment_ok pd p) ks.
  Proof.
    intros Hg Hk. unfold comments_from in Hk. rewrite Forall_forall in *. intros k Hin.
    destruct (Hk k Hin) as [x [Hx Hc]]. destruct (Hg x Hx) as [Hp <-]. apply (comment_of_ok pd x k Hp Hc).
  Qed.

  Lemma pre_ok_core_comments pd r s ks :
    core_eq r s -> pre_ok pd s -> s_comments r = s_comments s ++ ks ->
    Forall (comment_ok pd (s_prop s)) ks -> pre_ok pd r.
  Proof.
    intros (C1 & C2 & C3 & C4 & C5 & C6 & C7) [Hf Hc] Hk Hks. unfold pre_ok.
    rewrite C2, C3, C4, C5, C6, C7, Hk. split; [exact Hf|]. apply Forall_app. auto.
  Qed.

  Lemma chosen_ok pd p g r :
    (forall x, In x g -> pre_ok pd x /\ s_prop x = p) -> chosen_from cfg g r -> pre_ok pd r /\ s_prop r = p.
  Proof.
    intros Hg (s & Hs & Hc & ks & Hk & Hf). destruct (Hg s Hs) as [Hps Hpr]. split.
    - apply (pre_ok_core_comments pd r s ks Hc Hps Hk). rewrite Hpr. apply (comments_from_ok pd p g ks Hg Hf).
    - destruct Hc as (_ & -> & _). exact Hpr.
  Qed.

  Lemma neq_BNODE_NONLIT : c_BNODE_ELEM_TYPE <> c_NONLITERAL_ELEM_TYPE.
  Proof. intros H; vm_compute in H; discriminate. Qed.

  Lemma neq_IRI_NONLIT : c_IRI_ELEM_TYPE <> c_NONLITERAL_ELEM_TYPE.
  Proof. intros H; vm_compute in H; discriminate. Qed.

  Lemma pre_ok_single pd x :
    pre_ok pd x -> s_choice x = false ->
    s_types x = [s_type x] /\ fig_src pd (s_prop x) (s_type x) (s_nocc x) (s_prob x) (s_card x).
  Proof.
    intros [(ty & _ & Hsing & Hf) _] Hc. specialize (Hsing Hc). unfold s_type. rewrite Hsing. cbn. auto.
  Qed.

  Lemma dominant_ok pd p g d0 :
    (forall x, In x g -> pre_ok pd x /\ s_choice x = false /\ s_prop x = p) ->
    dominant_of g d0 -> pre_ok pd d0 /\ s_choice d0 = false /\ s_prop d0 = p.
  Proof.
    intros Hg Hd. destruct Hd as [d0 Hin | b i Hb Hi Tb Ti]; [apply Hg; exact Hin|].
    destruct (Hg b Hb) as (Pb & Cb & Eb). destruct (Hg i Hi) as (Pi & Ci & Ei).
    destruct (pre_ok_single pd b Pb Cb) as [_ Fb]. destruct (pre_ok_single pd i Pi Ci) as [_ Fi].
    unfold is_bnode in Tb. unfold is_iri in Ti. apply str_eqb_eq in Tb, Ti. rewrite Tb in Fb. rewrite Ti in Fi.
    destruct (fig_src_entry _ _ _ _ _ _ Fb neq_BNODE_NONLIT) as (ckb & Hb1 & Hb2 & Hb3).
    destruct (fig_src_entry _ _ _ _ _ _ Fi neq_IRI_NONLIT) as (cki & Hi1 & Hi2 & Hi3).
    split; [|split; [reflexivity | exact Eb]].
    split; [|constructor]. exists c_NONLITERAL_ELEM_TYPE. cbn.
    split; [left; reflexivity|]. split; [reflexivity|].
    rewrite Hb2, Hi2, Hb3, Hi3. rewrite Ei, <- Eb in Hi1. apply FS_merge; assumption.
  Qed.

  Lemma merge_ok pd p cnt g r :
    (forall x, In x g -> pre_ok pd x /\ s_choice x = false /\ s_prop x = p) ->
    merge_group fa cfg cnt g = inl r -> pre_ok pd r /\ s_prop r = p.
  Proof.
    intros Hg H. apply merge_group_spec in H. destruct H as (d0 & d1 & ks & Hd & Ho & Hc & Hk & Hf).
    destruct (dominant_ok pd p g d0 Hg Hd) as (P0 & C0 & E0).
    assert (P1 : pre_ok pd d1 /\ s_prop d1 = p).
    { destruct Ho as [|tys Hlen Hin _]; [auto|]. split; [|exact E0].
      destruct (pre_ok_single pd d0 P0 C0) as [_ F0].
      split; [|constructor]. exists (s_type d0). cbn. split; [exact Hin|]. split; [discriminate | exact F0]. }
    destruct P1 as [P1 E1]. split.
    - apply (pre_ok_core_comments pd r d1 ks Hc P1 Hk). rewrite E1.
      apply (comments_from_ok pd p g ks); [|exact Hf]. intros x Hx. destruct (Hg x Hx) as (A & _ & B). auto.
    - destruct Hc as (_ & -> & _). exact E1.
  Qed.

  (** figures through [select_valid] *)
  Theorem select_valid_ok pd d cnt l out :
    Forall (plain d) l -> Forall (pre_ok pd) l -> select_valid fa cfg cnt l = inl out ->
    Forall (pre_ok pd) out.
  Proof.
    intros Hpl Hok H. rewrite select_valid_eq in H.
    destruct (group_same fa cfg (List.length l) cnt l) as [l1|e] eqn:E1; [|discriminate].
    pose proof (group_nodes_spec fa cfg _ cnt l1 out (le_n _) H) as F.
    rewrite Forall_forall in Hpl, Hok.
    assert (P1 : forall r, In r l1 -> pre_ok pd r /\ s_choice r = false).
    { intros r Hr. pose proof (group_same_out fa cfg _ cnt l l1 r (le_n _) E1 Hr) as Hch.
      split.
      - refine (proj1 (chosen_ok pd (s_prop r) _ r _ Hch)). intros x Hx. apply filter_In in Hx.
        destruct Hx as [Hx Ht]. split; [apply Hok, Hx|]. apply tok_eqb_eq in Ht. unfold tok in Ht. congruence.
      - destruct Hch as (s & Hs & Hc & _). apply filter_In in Hs. destruct (Hpl s (proj1 Hs)) as (_ & Hcs & _).
        destruct Hc as (_ & _ & _ & -> & _). exact Hcs. }
    apply Forall_forall. intros r Hr. destruct (Forall2_In_r _ _ _ _ F Hr) as [a [Ha Hp]].
    apply (node_heads_In cfg) in Ha. unfold node_pick in Hp.
    destruct (node_pass cfg a); [subst r; apply P1, Ha|].
    assert (Hg : forall x, In x (node_group cfg l1 a) -> pre_ok pd x /\ s_choice x = false /\ s_prop x = s_prop a).
    { intros x Hx. apply node_group_In in Hx. destruct Hx as (H1 & _ & H3). destruct (P1 x H1). auto. }
    destruct (node_group cfg l1 a) as [|x [|y g]] eqn:Eg; [destruct Hp| |].
    - subst r. apply Hg. left; reflexivity.
    - apply (merge_ok pd (s_prop a) cnt _ r Hg Hp).
  Qed.

  (** what [disable_exact_cardinality] may do to the original cardinality *)
  Definition card_tuned (c0 c : card) : Prop :=
    c = c0 \/ (x_disable_exact cfg = true /\ exists k, c0 = CExact k /\ (1 < k)%N /\ c = CPlus).

  (** a statement of an output shape: its count, probability and ORIGINAL
      cardinality [c0] are a figure of the profile for its property and (one
      of) its type(s); the printed cardinality is [c0], or [+] for an exact
      [{k>1}] under [disable_exact]; or the statement was relaxed: then it
      shows probability one and [?]/[*], and its first comment carries the
      original figure.  All comments carry figures of the profile too. *)
  Definition post_ok (pd : pdict) (t : stmt) : Prop :=
    exists ty pr0 c0,
      In ty (s_types t) /\ (s_choice t = false -> s_types t = [ty]) /\
      fig_src pd (s_prop t) ty (s_nocc t) pr0 c0 /\
      Forall (comment_ok pd (s_prop t)) (s_comments t) /\
      ((s_prob t = pr0 /\ card_tuned c0 (s_card t)) \/
       (x_all_compliant cfg = true /\ s_prob t = POne /\ s_card t = relax_card cfg c0 /\
        (x_disable_comments cfg = false ->
         exists tk rest, s_comments t = KStmt (s_choice t) pr0 (s_nocc t) tk c0 :: rest))).

  Lemma comment_of_shape x k :
    comment_of cfg x = inl k -> exists tk, k = KStmt (s_choice x) (s_prob x) (s_nocc x) tk (s_card x).
  Proof.
    unfold comment_of. destruct (s_choice x).
    - intros H; injection H as <-. eexists; reflexivity.
    - destruct (tune_token (x_ns cfg) (s_type x)); [|discriminate]. intros H; injection H as <-. eexists; reflexivity.
  Qed.

  Lemma relax_card_cases c : relax_card cfg c = COpt \/ relax_card cfg c = CStar.
  Proof. unfold relax_card. destruct (x_allow_opt cfg && card_eqb c (CExact 1)); auto. Qed.

  Theorem tune_one_ok pd cnt s t :
    pre_ok pd s -> tune_one fa cfg cnt s = inl t -> post_ok pd t /\ s_inv t = s_inv s.
  Proof.
    intros [(ty & Hin & Hsing & Hf) Hcom] H. apply tune_one_spec in H. destruct H as [s1 [Hr ->]].
    destruct (tune_post_fields cfg s1) as (T1 & T2 & T3 & T4).
    pose proof (relax_step_sig fa cfg cnt s s1 Hr) as S1. rewrite S1 in T1.
    unfold sig in T1. injection T1 as I1 I2 I3 I4 I5.
    split; [|exact I1].
    exists ty, (s_prob s), (s_card s). rewrite I2, I3, I4, I5.
    split; [exact Hin|]. split; [exact Hsing|]. split; [exact Hf|].
    destruct Hr as [Hoff | Hon Hone | k Hon Hne Hk].
    - split; [rewrite T3; destruct (x_disable_comments cfg); [constructor | exact Hcom]|].
      left. split; [exact T2|]. rewrite T4. unfold card_tuned.
      destruct (x_disable_exact cfg); [|left; reflexivity].
      destruct (s_card s) as [k| | |]; try (left; reflexivity).
      destruct (N.ltb 1 k) eqn:El; [|left; reflexivity]. right. split; [reflexivity|].
      exists k. apply N.ltb_lt in El. auto.
    - split; [rewrite T3; destruct (x_disable_comments cfg); [constructor | exact Hcom]|].
      left. split; [exact T2|]. rewrite T4. unfold card_tuned.
      destruct (x_disable_exact cfg); [|left; reflexivity].
      destruct (s_card s) as [k0| | |]; try (left; reflexivity).
      destruct (N.ltb 1 k0) eqn:El; [|left; reflexivity]. right. split; [reflexivity|].
      exists k0. apply N.ltb_lt in El. auto.
    - assert (Hk' : comment_ok pd (s_prop s) k).
      { apply (comment_of_ok pd s k); [|exact Hk]. split; [exists ty; auto | exact Hcom]. }
      split.
      + rewrite T3. destruct (x_disable_comments cfg); [constructor|]. cbn. constructor; assumption.
      + right. split; [exact Hon|]. split; [rewrite T2; reflexivity|]. split.
        * rewrite T4. cbn [relaxed s_card].
          destruct (relax_card_cases (s_card s)) as [->| ->]; destruct (x_disable_exact cfg); reflexivity.
        * intros Hdc. rewrite T3, Hdc. cbn. destruct (comment_of_shape s k Hk) as [tk ->].
          exists tk, (s_comments s). reflexivity.
  Qed.

  (** K3 for one class *)
  Theorem shex_class_figs thr C ce sh :
    shex_class fa cfg thr C ce = inl sh ->
    forall st, In st (sh_stmts sh) -> post_ok (class_pd ce (s_inv st)) st.
  Proof.
    intros H st Hst. destruct (shex_class_unfold thr C ce sh H) as (vd & vi & Hd & Hi & Ht & _).
    set (cnt := cnt_of C (fst ce)) in *.
    apply tune_spec in Ht. destruct (Forall2_In_r _ _ _ _ Ht Hst) as [s [Hs Hone]].
    apply sort_desc_In in Hs.
    assert (Hok : forall d, Forall (pre_ok (class_pd ce d)) (dirl d (class_sorted thr cnt ce))).
    { intros d. apply Forall_forall. intros x Hx. apply dirl_In in Hx.
      destruct Hx as (p & k & ck & n & He & _ & ->). apply pre_ok_base; exact He. }
    assert (G : forall d v, select_valid fa cfg cnt (dirl d (class_sorted thr cnt ce)) = inl v -> In s v ->
                post_ok (class_pd ce (s_inv st)) st).
    { intros d v Hv Hin.
      pose proof (select_valid_ok _ d cnt _ v (dirl_plain d thr cnt ce) (Hok d) Hv) as Hall.
      rewrite Forall_forall in Hall.
      pose proof (select_valid_inv d cnt _ v s (dirl_plain d thr cnt ce) Hv Hin) as Hinv.
      destruct (tune_one_ok _ cnt s st (Hall s Hin) Hone) as [Hp Hi']. rewrite Hi', Hinv. exact Hp. }
    apply in_app_or in Hs. destruct Hs as [Hs|Hs]; [apply (G false vd Hd Hs) | apply (G true vi Hi Hs)].
  Qed.

  (** ** [clean_shapes] only deletes *)
  Lemma prune_shape_sub names s s' :
    prune_shape names s = inl s' ->
    sh_name s' = sh_name s /\ sh_class s' = sh_class s /\ sh_n s' = sh_n s /\
    forall st, In st (sh_stmts s') <-> In st (sh_stmts s) /\ mem_str (s_type st) names = false.
  Proof.
    unfold prune_shape. destruct (existsb (fun st => s_choice st) (sh_stmts s)); [discriminate|].
    intros H; injection H as <-. cbn [sh_name sh_class sh_n sh_stmts].
    split; [reflexivity|]. split; [reflexivity|]. split; [reflexivity|].
    intros st. rewrite in_app_iff, !filter_In, negb_true_iff. split.
    - intros [[[H1 H2] _]|[[H1 H2] _]]; auto.
    - intros [H1 H2]. destruct (s_inv st); cbn; auto.
  Qed.

  Definition shape_sub (s' s : shape) : Prop :=
    sh_name s' = sh_name s /\ sh_class s' = sh_class s /\ sh_n s' = sh_n s /\
    incl (sh_stmts s') (sh_stmts s).

  Theorem clean_shapes_sub fuel l l' :
    clean_shapes fuel l = inl l' -> forall s', In s' l' -> exists s, In s l /\ shape_sub s' s.
  Proof.
    revert l l'; induction fuel as [|f IH]; intros l l' H s' Hs'.
    - cbn in H. injection H as <-. exists s'. split; [exact Hs'|]. repeat split; auto. apply incl_refl.
    - cbn [clean_shapes] in H. destruct (empty_names l) as [|nm names] eqn:En.
      + injection H as <-. exists s'. split; [exact Hs'|]. repeat split; auto. apply incl_refl.
      + destruct (map_err (prune_shape (nm :: names)) (filter (fun s => negb (mem_str (sh_name s) (nm :: names))) l))
          as [l2|e] eqn:Em; [|discriminate].
        destruct (IH l2 l' H s' Hs') as [s2 [Hs2 (A1 & A2 & A3 & A4)]].
        apply map_err_Forall2 in Em. destruct (Forall2_In_r _ _ _ _ Em Hs2) as [s [Hs Hp]].
        apply filter_In in Hs. destruct Hs as [Hs _].
        destruct (prune_shape_sub _ _ _ Hp) as (B1 & B2 & B3 & B4).
        exists s. split; [exact Hs|]. unfold shape_sub. rewrite A1, A2, A3, B1, B2, B3. repeat split; auto.
        intros st Hst. apply A4 in Hst. apply B4 in Hst. tauto.
  Qed.

  (** K3 (C01): every output shape belongs to a class of the profile, carries
      its count, and all its figures are figures of the profile -- whatever
      the threshold and whether or not empty shapes are removed *)
  Theorem K3 thr P C shapes :
    shex fa cfg thr P C = inl shapes ->
    forall sh, In sh shapes ->
    exists ce, In ce P /\ sh_name sh = shape_name (x_shapes_ns cfg) (fst ce) /\ sh_class sh = fst ce /\
               sh_n sh = cnt_of C (fst ce) /\
               forall st, In st (sh_stmts sh) -> post_ok (class_pd ce (s_inv st)) st.
  Proof.
    intros H sh Hsh. destruct (shex_unfold thr P C shapes H) as [shapes0 [F Hc]].
    assert (G : forall sh0, In sh0 shapes0 ->
                exists ce, In ce P /\ sh_name sh0 = shape_name (x_shapes_ns cfg) (fst ce) /\ sh_class sh0 = fst ce /\
                           sh_n sh0 = cnt_of C (fst ce) /\
                           forall st, In st (sh_stmts sh0) -> post_ok (class_pd ce (s_inv st)) st).
    { intros sh0 H0. destruct (Forall2_In_r _ _ _ _ F H0) as [ce [Hce Hs]].
      destruct (shex_class_unfold thr C ce sh0 Hs) as (vd & vi & _ & _ & _ & E1 & E2 & E3).
      exists ce. repeat split; auto. apply (shex_class_figs thr C ce sh0 Hs). }
    destruct (x_remove_empty cfg).
    - destruct (clean_shapes_sub _ _ _ Hc sh Hsh) as [sh0 [H0 (A1 & A2 & A3 & A4)]].
      destruct (G sh0 H0) as (ce & B0 & B1 & B2 & B3 & B4).
      exists ce. rewrite A1, A2, A3. repeat split; auto.
    - subst shapes0. apply G; exact Hsh.
  Qed.

  (** the figure of a (property, type, original cardinality) alternative is a
      function of the profile: no threshold can change it (merged kind apart) *)
  Definition pd_functional (pd : pdict) : Prop :=
    forall p k ck n n', pd_entry pd p k ck n -> pd_entry pd p k ck n' -> n = n'.

  Lemma card_of_key_inj a b : card_of_key a = card_of_key b -> a = b.
  Proof. destruct a, b; cbn; intros H; try discriminate; [injection H as ->|]; reflexivity. Qed.

  Theorem fig_src_functional pd p k n n' pr pr' c :
    pd_functional pd -> k <> c_NONLITERAL_ELEM_TYPE ->
    fig_src pd p k n pr c -> fig_src pd p k n' pr' c -> n = n' /\ pr = pr'.
  Proof.
    intros Hfun Hk H1 H2.
    destruct (fig_src_entry _ _ _ _ _ _ H1 Hk) as (ck & E1 & -> & Ec).
    destruct (fig_src_entry _ _ _ _ _ _ H2 Hk) as (ck' & E2 & -> & Ec').
    rewrite Ec in Ec'. apply card_of_key_inj in Ec'. subst ck'.
    rewrite (Hfun _ _ _ _ _ E1 E2). auto.
  Qed.

  (** ** no error without [remove_empty]: [tune_token] defined on every type
      key of the profile is all that is needed *)
  Lemma shex_class_eq thr C ce :
    shex_class fa cfg thr C ce =
    let cnt := cnt_of C (fst ce) in
    match select_valid fa cfg cnt (dirl false (class_sorted thr cnt ce)) with
    | inr e => inr e
    | inl vd =>
      match select_valid fa cfg cnt (dirl true (class_sorted thr cnt ce)) with
      | inr e => inr e
      | inl vi =>
        match tune fa cfg cnt (vd ++ vi) with
        | inr e => inr e
        | inl stmts => inl {| sh_name := shape_name (x_shapes_ns cfg) (fst ce); sh_class := fst ce;
                              sh_n := cnt; sh_stmts := stmts |}
        end
      end
    end.
  Proof. reflexivity. Qed.

  Definition tokens_ok (ce : str * centry) : Prop :=
    forall d p k ck n, pd_entry (class_pd ce d) p k ck n -> tune_token (x_ns cfg) k <> None.

  Theorem shex_class_total thr C ce : tokens_ok ce -> exists sh, shex_class fa cfg thr C ce = inl sh.
  Proof.
    intros Hok. rewrite shex_class_eq. cbv zeta. set (cnt := cnt_of C (fst ce)).
    assert (Hl : forall d x, In x (dirl d (class_sorted thr cnt ce)) -> cm_ok cfg x).
    { intros d x Hx. apply dirl_In in Hx. destruct Hx as (p & k & ck & n & He & _ & ->).
      right. cbn. apply (Hok d p k ck n He). }
    destruct (select_valid_total_cm fa cfg cnt _ (Hl false)) as [vd [-> Hvd]].
    destruct (select_valid_total_cm fa cfg cnt _ (Hl true)) as [vi [-> Hvi]].
    destruct (tune_total fa cfg cnt (vd ++ vi)) as [stmts ->]; [|eexists; reflexivity].
    intros _ x Hx. apply comment_of_total_iff. apply in_app_or in Hx. destruct Hx; auto.
  Qed.

  Lemma map_err_total {A B E} (f : A -> B + E) l :
    (forall x, In x l -> exists y, f x = inl y) -> exists out, map_err f l = inl out.
  Proof.
    induction l as [|x l IH]; intros H; [eexists; reflexivity|]. cbn.
    destruct (H x (or_introl eq_refl)) as [y ->].
    destruct IH as [ys ->]; [intros z Hz; apply H; right; exact Hz | eexists; reflexivity].
  Qed.

  Theorem shex_total thr P C :
    x_remove_empty cfg = false -> (forall ce, In ce P -> tokens_ok ce) ->
    exists shapes, shex fa cfg thr P C = inl shapes.
  Proof.
    intros Hre Hok. unfold shex.
    destruct (map_err_total (shex_class fa cfg thr C) P) as [shapes ->].
    - intros ce Hce. apply shex_class_total, Hok, Hce.
    - rewrite Hre. eexists; reflexivity.
  Qed.

  (** ** [clean_shapes] in detail *)
  Lemma empty_names_In l nm :
    In nm (empty_names l) <-> exists e, In e l /\ sh_stmts e = [] /\ sh_name e = nm.
  Proof.
    unfold empty_names. rewrite in_map_iff. split.
    - intros [e [En He]]. apply filter_In in He. destruct He as [He Hs]. exists e.
      destruct (sh_stmts e); [auto | discriminate].
    - intros [e [He [Hs En]]]. exists e. split; [exact En|]. apply filter_In. rewrite Hs. auto.
  Qed.

  Lemma empty_names_nil l : (forall s, In s l -> sh_stmts s <> []) -> empty_names l = [].
  Proof.
    intros H. destruct (empty_names l) as [|nm r] eqn:E; [reflexivity|].
    assert (Hin : In nm (empty_names l)) by (rewrite E; left; reflexivity).
    apply empty_names_In in Hin. destruct Hin as [e [He [Hs _]]]. contradiction (H e He Hs).
  Qed.

  Lemma filter_length_lt {A} (f : A -> bool) l x :
    In x l -> f x = false -> (List.length (filter f l) < List.length l)%nat.
  Proof.
    induction l as [|y l IH]; intros Hin Hf; [destruct Hin|]. cbn.
    destruct Hin as [->|Hin].
    - rewrite Hf. pose proof (filter_length_le f l). lia.
    - specialize (IH Hin Hf). destruct (f y); cbn; lia.
  Qed.

  Lemma Forall2_length' {A B} (R : A -> B -> Prop) l l' : Forall2 R l l' -> List.length l = List.length l'.
  Proof. induction 1; cbn; congruence. Qed.

  (** every surviving shape comes from a shape whose name is not that of an
      empty shape *)
  Lemma clean_shapes_origin fuel l l' :
    (0 < fuel)%nat -> clean_shapes fuel l = inl l' ->
    forall s', In s' l' -> exists s, In s l /\ shape_sub s' s /\ ~ In (sh_name s) (empty_names l).
  Proof.
    intros Hf H s' Hs'. destruct fuel as [|f]; [lia|]. cbn [clean_shapes] in H.
    destruct (empty_names l) as [|nm names] eqn:En.
    - injection H as <-. exists s'. split; [exact Hs'|]. split; [repeat split; auto; apply incl_refl | intros []].
    - destruct (map_err (prune_shape (nm :: names)) (filter (fun s => negb (mem_str (sh_name s) (nm :: names))) l))
        as [l2|e] eqn:Em; [|discriminate].
      destruct (clean_shapes_sub f l2 l' H s' Hs') as [s2 [Hs2 (A1 & A2 & A3 & A4)]].
      apply map_err_Forall2 in Em. destruct (Forall2_In_r _ _ _ _ Em Hs2) as [s [Hs Hp]].
      apply filter_In in Hs. destruct Hs as [Hs Hnm]. apply negb_true_iff in Hnm.
      destruct (prune_shape_sub _ _ _ Hp) as (B1 & B2 & B3 & B4).
      exists s. split; [exact Hs|]. split.
      + unfold shape_sub. rewrite A1, A2, A3, B1, B2, B3. repeat split; auto.
        intros st Hst. apply A4 in Hst. apply B4 in Hst. tauto.
      + intros Hin. apply mem_str_In in Hin. congruence.
  Qed.

  (** with the fuel [shex] gives, the loop ends without an empty shape *)
  Lemma clean_shapes_no_empty fuel l l' :
    (List.length l < fuel)%nat -> clean_shapes fuel l = inl l' -> empty_names l' = [].
  Proof.
    revert l l'; induction fuel as [|f IH]; intros l l' Hlen H; [lia|].
    cbn [clean_shapes] in H. destruct (empty_names l) as [|nm names] eqn:En.
    - injection H as <-. exact En.
    - destruct (map_err (prune_shape (nm :: names)) (filter (fun s => negb (mem_str (sh_name s) (nm :: names))) l))
        as [l2|e] eqn:Em; [|discriminate].
      apply (IH l2 l'); [|exact H]. apply map_err_Forall2 in Em. rewrite <- (Forall2_length' _ _ _ Em).
      assert (Hnm : In nm (empty_names l)) by (rewrite En; left; reflexivity).
      apply empty_names_In in Hnm. destruct Hnm as [e [He [_ Hn]]].
      assert (Hlt : (List.length (filter (fun s => negb (mem_str (sh_name s) (nm :: names))) l) < List.length l)%nat).
      { apply (filter_length_lt _ l e He). apply negb_false_iff. apply mem_str_In. rewrite Hn. left; reflexivity. }
      lia.
  Qed.

  (** domain for monotonicity under [remove_empty]: no statement refers to a
      shape that is empty before cleaning *)
  Definition no_ref_to_empty (l : list shape) : Prop :=
    forall sh st e, In sh l -> In st (sh_stmts sh) -> In e l -> sh_stmts e = [] -> s_type st <> sh_name e.

  (** on that domain cleaning is one round: the shapes whose name is the name
      of an empty shape go, the others keep their statements *)
  Lemma clean_shapes_dom fuel l l' :
    no_ref_to_empty l -> (List.length l < fuel)%nat -> clean_shapes fuel l = inl l' ->
    forall s, In s l -> ~ In (sh_name s) (empty_names l) ->
    exists s', In s' l' /\ sh_name s' = sh_name s /\ sh_class s' = sh_class s /\ sh_n s' = sh_n s /\
               forall st, In st (sh_stmts s') <-> In st (sh_stmts s).
  Proof.
    intros Hdom Hlen H s Hs Hnm. destruct fuel as [|f]; [lia|]. cbn [clean_shapes] in H.
    destruct (empty_names l) as [|nm names] eqn:En.
    - injection H as <-. exists s. repeat split; auto.
    - set (nms := nm :: names) in *.
      destruct (map_err (prune_shape nms) (filter (fun s => negb (mem_str (sh_name s) nms)) l)) as [l2|e] eqn:Em; [|discriminate].
      apply map_err_Forall2 in Em.
      assert (Hkeep : forall x x2, In x (filter (fun s => negb (mem_str (sh_name s) nms)) l) -> prune_shape nms x = inl x2 ->
                      sh_name x2 = sh_name x /\ sh_class x2 = sh_class x /\ sh_n x2 = sh_n x /\
                      (forall st, In st (sh_stmts x2) <-> In st (sh_stmts x)) /\ sh_stmts x2 <> []).
      { intros x x2 Hx Hp. apply filter_In in Hx. destruct Hx as [Hx Hxn]. apply negb_true_iff in Hxn.
        destruct (prune_shape_sub _ _ _ Hp) as (B1 & B2 & B3 & B4).
        assert (Hall : forall st, In st (sh_stmts x2) <-> In st (sh_stmts x)).
        { intros st. rewrite B4. split; [tauto|]. intros Hst. split; [exact Hst|].
          destruct (mem_str (s_type st) nms) eqn:Em'; [|reflexivity]. exfalso.
          apply mem_str_In in Em'. rewrite <- En in Em'. apply empty_names_In in Em'.
          destruct Em' as [e0 [He0 [Hse0 Hne0]]]. apply (Hdom x st e0 Hx Hst He0 Hse0). auto. }
        repeat split; auto; try apply Hall.
        intros Hnil. destruct (sh_stmts x) as [|st0 r] eqn:Esx.
        - assert (In (sh_name x) (empty_names l)) by (apply empty_names_In; exists x; auto).
          rewrite En in H0. apply mem_str_In in H0. congruence.
        - assert (In st0 (sh_stmts x2)) by (apply Hall; left; reflexivity). rewrite Hnil in H0. destruct H0. }
      assert (Hl2 : empty_names l2 = []).
      { apply empty_names_nil. intros x2 Hx2. destruct (Forall2_In_r _ _ _ _ Em Hx2) as [x [Hx Hp]].
        destruct (Hkeep x x2 Hx Hp) as (_ & _ & _ & _ & Hne). exact Hne. }
      assert (Hf : (0 < f)%nat).
      { destruct l; [cbn in En; subst nms; discriminate | cbn in Hlen; lia]. }
      destruct f as [|f']; [lia|]. cbn [clean_shapes] in H. rewrite Hl2 in H. injection H as <-.
      assert (Hsf : In s (filter (fun s => negb (mem_str (sh_name s) nms)) l)).
      { apply filter_In. split; [exact Hs|]. apply negb_true_iff.
        destruct (mem_str (sh_name s) nms) eqn:E; [|reflexivity]. apply mem_str_In in E. contradiction. }
      destruct (Forall2_In_l _ _ _ _ Em Hsf) as [s2 [Hs2 Hp]].
      destruct (Hkeep s s2 Hsf Hp) as (K1' & K2' & K3' & K4' & _).
      exists s2. repeat split; auto; apply K4'.
  Qed.

  (** ** K1 with [remove_empty]: cleaning keeps keys distinct *)
  Lemma NoDup_map_inj_In {A B} (g : A -> B) l x y :
    NoDup (map g l) -> In x l -> In y l -> g x = g y -> x = y.
  Proof.
    induction l as [|a l IH]; intros Hn Hx Hy E; [destruct Hx|]. cbn in Hn. inversion Hn as [|? ? Hna Hnl]; subst.
    destruct Hx as [->|Hx], Hy as [->|Hy]; auto.
    - exfalso. apply Hna. rewrite E. apply in_map; exact Hy.
    - exfalso. apply Hna. rewrite <- E. apply in_map; exact Hx.
  Qed.

  Lemma prune_shape_nodup {B} (g : stmt -> B) names s s' :
    prune_shape names s = inl s' -> NoDup (map g (sh_stmts s)) -> NoDup (map g (sh_stmts s')).
  Proof.
    unfold prune_shape. destruct (existsb (fun st => s_choice st) (sh_stmts s)); [discriminate|].
    intros H; injection H as <-. cbn [sh_stmts]. intros Hn.
    set (keep := filter (fun st => negb (mem_str (s_type st) names)) (sh_stmts s)).
    assert (Hk : NoDup (map g keep)) by (apply NoDup_map_filter; exact Hn).
    rewrite map_app. apply NoDup_app_intro; try (apply NoDup_map_filter; exact Hk).
    intros x H1 H2. apply in_map_iff in H1, H2. destruct H1 as [y1 [E1 Y1]]. destruct H2 as [y2 [E2 Y2]].
    apply filter_In in Y1, Y2. destruct Y1 as [Y1 I1]. destruct Y2 as [Y2 I2].
    assert (y1 = y2) by (apply (NoDup_map_inj_In g keep); congruence). subst y2.
    rewrite I2 in I1. discriminate.
  Qed.

  Lemma clean_shapes_nodup {B} (g : stmt -> B) fuel l l' :
    clean_shapes fuel l = inl l' -> forall s', In s' l' ->
    exists s, In s l /\ shape_sub s' s /\ (NoDup (map g (sh_stmts s)) -> NoDup (map g (sh_stmts s'))).
  Proof.
    revert l l'; induction fuel as [|f IH]; intros l l' H s' Hs'.
    - cbn in H. injection H as <-. exists s'. split; [exact Hs'|]. split; [repeat split; auto; apply incl_refl | auto].
    - cbn [clean_shapes] in H. destruct (empty_names l) as [|nm names] eqn:En.
      + injection H as <-. exists s'. split; [exact Hs'|]. split; [repeat split; auto; apply incl_refl | auto].
      + destruct (map_err (prune_shape (nm :: names)) (filter (fun s => negb (mem_str (sh_name s) (nm :: names))) l))
          as [l2|e] eqn:Em; [|discriminate].
        destruct (IH l2 l' H s' Hs') as [s2 [Hs2 [(A1 & A2 & A3 & A4) A5]]].
        apply map_err_Forall2 in Em. destruct (Forall2_In_r _ _ _ _ Em Hs2) as [s [Hs Hp]].
        apply filter_In in Hs. destruct Hs as [Hs _].
        destruct (prune_shape_sub _ _ _ Hp) as (B1 & B2 & B3 & B4).
        exists s. split; [exact Hs|]. split.
        * unfold shape_sub. rewrite A1, A2, A3, B1, B2, B3. repeat split; auto.
          intros st Hst. apply A4 in Hst. apply B4 in Hst. tauto.
        * intros Hn. apply A5. apply (prune_shape_nodup g _ _ _ Hp Hn).
  Qed.

  (** K1 (C02) with [remove_empty]: what is left are shapes of classes of the
      profile; a key present has an entry at or above the threshold (the
      converse fails exactly for references to removed shapes); no key twice *)
  Theorem K1_remove thr P C shapes :
    x_remove_empty cfg = true -> shex fa cfg thr P C = inl shapes ->
    forall sh, In sh shapes ->
    exists ce, In ce P /\ sh_name sh = shape_name (x_shapes_ns cfg) (fst ce) /\ sh_class sh = fst ce /\
      sh_n sh = cnt_of C (fst ce) /\ sh_stmts sh <> [] /\
      (forall inv p vc, In (inv, p, vc) (map skey (sh_stmts sh)) ->
                        key_passes thr (cnt_of C (fst ce)) (class_pd ce inv) p vc) /\
      (pd_no_nl (class_pd ce false) -> pd_no_nl (class_pd ce true) -> NoDup (map skey (sh_stmts sh))).
  Proof.
    intros Hre H sh Hsh. destruct (shex_unfold thr P C shapes H) as [shapes0 [F Hc]]. rewrite Hre in Hc.
    destruct (clean_shapes_nodup skey _ _ _ Hc sh Hsh) as [sh0 [H0 [(A1 & A2 & A3 & A4) A5]]].
    destruct (Forall2_In_r _ _ _ _ F H0) as [ce [Hce Hs]].
    destruct (shex_class_unfold thr C ce sh0 Hs) as (vd & vi & _ & _ & _ & E1 & E2 & E3).
    exists ce. rewrite A1, A2, A3. split; [exact Hce|]. split; [exact E1|]. split; [exact E2|]. split; [exact E3|].
    split; [|split].
    - intros Hnil. pose proof (clean_shapes_no_empty _ shapes0 shapes (Nat.lt_succ_diag_r _) Hc) as Hno.
      assert (In (sh_name sh) (empty_names shapes)) by (apply empty_names_In; exists sh; auto).
      rewrite Hno in H1. destruct H1.
    - intros inv p vc Hin. apply (shex_class_keys thr C ce sh0 Hs).
      apply in_map_iff in Hin. destruct Hin as [st [Ek Hst]]. rewrite <- Ek. apply in_map, A4, Hst.
    - intros N0 N1. apply A5. apply (shex_class_NoDup thr C ce sh0 Hs N0 N1).
  Qed.

  (** ** what needs laws of the frequency algebra

      [okN] singles out the class sizes and [okF] the frequency values on
      which the order laws hold (for the rationals: positive size, positive
      denominator; for binary64 also size < 2^53). *)
  Section Laws.
    Variable okF : F fa -> Prop.
    Variable okN : N -> Prop.
    Hypothesis ratio_ok : forall n N, okN N -> okF (ratio fa n N).
    Hypothesis fle_trans : forall a b c, okF a -> okF b -> okF c ->
      fle fa a b = true -> fle fa b c = true -> fle fa a c = true.
    Hypothesis ratio_mono : forall n1 n2 N, okN N -> (n1 <= n2)%N ->
      fle fa (ratio fa n1 N) (ratio fa n2 N) = true.

    (** K1, corollary: a key is present iff the LARGEST count among the
        entries of the key reaches the threshold *)
    Theorem key_passes_max thr cnt pd p vc :
      okF thr -> okN cnt ->
      (key_passes thr cnt pd p vc <->
       exists k ck n, pd_entry pd p k ck n /\ value_class (x_tau cfg) p [k] = vc /\
                      (forall k' ck' n', pd_entry pd p k' ck' n' -> value_class (x_tau cfg) p [k'] = vc -> (n' <= n)%N) /\
                      fle fa thr (ratio fa n cnt) = true).
    Proof.
      intros Ht Hn. split.
      - intros (k & ck & n & He & Hv & Hf).
        set (Q := fun x : str * str * ckey * N =>
                    fst (fst (fst x)) = p /\ value_class (x_tau cfg) p [snd (fst (fst x))] = vc).
        assert (dec : forall x, {Q x} + {~ Q x}).
        { intros [[[p' k'] ck'] n']. unfold Q; cbn.
          destruct (str_eq_dec p' p) as [->|Hp]; [|right; tauto].
          destruct (vclass_eq_dec (value_class (x_tau cfg) p [k']) vc); [left; auto | right; tauto]. }
        destruct (max_among (fun x => snd x) Q dec (pd_list pd)) as [Hnone | [[[[pm km] ckm] nm] [Hm [[Qm1 Qm2] Hmax]]]].
        + exfalso. apply (Hnone (p, k, ck, n)); [apply pd_list_In; exact He | split; auto].
        + cbn in Qm1, Qm2. subst pm. exists km, ckm, nm. apply pd_list_In in Hm.
          split; [exact Hm|]. split; [exact Qm2|]. split.
          * intros k' ck' n' He' Hv'. apply (Hmax (p, k', ck', n')); [apply pd_list_In; exact He' | split; auto].
          * assert (Hle : (n <= nm)%N) by (apply (Hmax (p, k, ck, n)); [apply pd_list_In; exact He | split; auto]).
            apply (fle_trans thr (ratio fa n cnt)); auto.
      - intros (k & ck & n & He & Hv & _ & Hf). exists k, ck, n. auto.
    Qed.

    (** K2 at the level of keys: raising the threshold only removes keys *)
    Theorem key_passes_mono thr1 thr2 cnt pd p vc :
      okF thr1 -> okF thr2 -> okN cnt -> fle fa thr1 thr2 = true ->
      key_passes thr2 cnt pd p vc -> key_passes thr1 cnt pd p vc.
    Proof.
      intros H1 H2 Hn Hle (k & ck & n & He & Hv & Hf). exists k, ck, n.
      split; [exact He|]. split; [exact Hv|]. apply (fle_trans thr1 thr2); auto.
    Qed.

    (** the sizes of the classes that have at least one entry are in range *)
    Definition counts_ok (P : cprofile) (C : ccounts) : Prop :=
      forall ce inv p k ck n, In ce P -> pd_entry (class_pd ce inv) p k ck n -> okN (cnt_of C (fst ce)).

    Lemma key_passes_entry thr cnt pd p vc :
      key_passes thr cnt pd p vc -> exists k ck n, pd_entry pd p k ck n.
    Proof. intros (k & ck & n & He & _). eauto. Qed.

    (** two runs on the same profile, before empty shapes are removed *)
    Lemma class_mono thr1 thr2 C P ce sh1 sh2 :
      okF thr1 -> okF thr2 -> counts_ok P C -> fle fa thr1 thr2 = true -> In ce P ->
      shex_class fa cfg thr1 C ce = inl sh1 -> shex_class fa cfg thr2 C ce = inl sh2 ->
      sh_name sh1 = sh_name sh2 /\ sh_class sh1 = sh_class sh2 /\ sh_n sh1 = sh_n sh2 /\
      incl (map skey (sh_stmts sh2)) (map skey (sh_stmts sh1)).
    Proof.
      intros H1 H2 Hc Hle Hce S1 S2.
      destruct (shex_class_unfold thr1 C ce sh1 S1) as (_ & _ & _ & _ & _ & A1 & A2 & A3).
      destruct (shex_class_unfold thr2 C ce sh2 S2) as (_ & _ & _ & _ & _ & B1 & B2 & B3).
      rewrite A1, A2, A3, B1, B2, B3. repeat split; auto.
      intros [[inv p] vc] Hin. apply (shex_class_keys thr2 C ce sh2 S2) in Hin.
      apply (shex_class_keys thr1 C ce sh1 S1).
      destruct (key_passes_entry _ _ _ _ _ Hin) as (k & ck & n & He).
      apply (key_passes_mono thr1 thr2); auto. apply (Hc ce inv p k ck n Hce He).
    Qed.

    Lemma pre_mono thr1 thr2 P C l1 l2 :
      okF thr1 -> okF thr2 -> counts_ok P C -> fle fa thr1 thr2 = true ->
      Forall2 (fun ce sh => shex_class fa cfg thr1 C ce = inl sh) P l1 ->
      Forall2 (fun ce sh => shex_class fa cfg thr2 C ce = inl sh) P l2 ->
      Forall2 (fun sh1 sh2 =>
        sh_name sh1 = sh_name sh2 /\ sh_class sh1 = sh_class sh2 /\ sh_n sh1 = sh_n sh2 /\
        incl (map skey (sh_stmts sh2)) (map skey (sh_stmts sh1))) l1 l2.
    Proof.
      intros H1 H2 Hc Hle F1 F2.
      eapply Forall2_impl_In; [|apply (Forall2_join _ _ _ _ _ F1 F2)].
      cbn. intros sh1 sh2 _ _ (ce & Hce & S1 & S2). apply (class_mono thr1 thr2 C P ce); auto.
    Qed.

    (** K2 (C12), empty shapes kept: shape by shape, the keys at the higher
        threshold are keys at the lower one *)
    Theorem K2_keep thr1 thr2 P C s1 s2 :
      x_remove_empty cfg = false -> okF thr1 -> okF thr2 -> counts_ok P C -> fle fa thr1 thr2 = true ->
      shex fa cfg thr1 P C = inl s1 -> shex fa cfg thr2 P C = inl s2 ->
      Forall2 (fun sh1 sh2 =>
        sh_name sh1 = sh_name sh2 /\ sh_class sh1 = sh_class sh2 /\ sh_n sh1 = sh_n sh2 /\
        incl (map skey (sh_stmts sh2)) (map skey (sh_stmts sh1))) s1 s2.
    Proof.
      intros Hre H1 H2 Hc Hle E1 E2.
      destruct (shex_unfold thr1 P C s1 E1) as [l1 [F1 G1]]. destruct (shex_unfold thr2 P C s2 E2) as [l2 [F2 G2]].
      rewrite Hre in G1, G2. subst l1 l2. apply (pre_mono thr1 thr2 P C); auto.
    Qed.

    (** a shape that is empty at the lower threshold is empty at the higher one *)
    Corollary empty_mono sh1 sh2 :
      incl (map skey (sh_stmts sh2)) (map skey (sh_stmts sh1)) -> sh_stmts sh1 = [] -> sh_stmts sh2 = [].
    Proof.
      intros Hi E. rewrite E in Hi. destruct (sh_stmts sh2) as [|st l]; [reflexivity|].
      destruct (Hi (skey st) (or_introl eq_refl)).
    Qed.

    Lemma incl_map_skey (a b : list stmt) : incl a b -> incl (map skey a) (map skey b).
    Proof. intros H x Hx. apply in_map_iff in Hx. destruct Hx as [y [<- Hy]]. apply in_map, H, Hy. Qed.

    (** K2 (C12), empty shapes removed, on the domain where no statement of
        the lower-threshold run refers to an empty shape: every shape of the
        higher-threshold run is a shape of the lower-threshold run, with at
        least its keys *)
    Theorem K2_clean thr1 thr2 P C l1 l2 s1 s2 :
      okF thr1 -> okF thr2 -> counts_ok P C -> fle fa thr1 thr2 = true ->
      Forall2 (fun ce sh => shex_class fa cfg thr1 C ce = inl sh) P l1 ->
      Forall2 (fun ce sh => shex_class fa cfg thr2 C ce = inl sh) P l2 ->
      clean_shapes (S (List.length l1)) l1 = inl s1 -> clean_shapes (S (List.length l2)) l2 = inl s2 ->
      no_ref_to_empty l1 ->
      forall sh2, In sh2 s2 ->
      exists sh1, In sh1 s1 /\ sh_name sh1 = sh_name sh2 /\ sh_class sh1 = sh_class sh2 /\ sh_n sh1 = sh_n sh2 /\
                  incl (map skey (sh_stmts sh2)) (map skey (sh_stmts sh1)).
    Proof.
      intros H1 H2 Hc Hle F1 F2 C1 C2 Hdom sh2' Hsh2'.
      pose proof (pre_mono thr1 thr2 P C l1 l2 H1 H2 Hc Hle F1 F2) as M.
      destruct (clean_shapes_origin _ l2 s2 (Nat.lt_0_succ _) C2 sh2' Hsh2') as [sh2 [Hsh2 [(A1 & A2 & A3 & A4) Hn2]]].
      destruct (Forall2_In_r _ _ _ _ M Hsh2) as [sh1 [Hsh1 (B1 & B2 & B3 & B4)]].
      assert (Hn1 : ~ In (sh_name sh1) (empty_names l1)).
      { intros Hin. apply empty_names_In in Hin. destruct Hin as [e1 [He1 [Hs1 Hne1]]].
        destruct (Forall2_In_l _ _ _ _ M He1) as [e2 [He2 (D1 & _ & _ & D4)]].
        apply Hn2. apply empty_names_In. exists e2. split; [exact He2|]. split; [apply (empty_mono e1 e2 D4 Hs1)|].
        congruence. }
      destruct (clean_shapes_dom _ l1 s1 Hdom (Nat.lt_succ_diag_r _) C1 sh1 Hsh1 Hn1) as [sh1' [Hsh1' (E1 & E2 & E3 & E4)]].
      exists sh1'. split; [exact Hsh1'|]. rewrite E1, E2, E3, A1, A2, A3. repeat split; auto.
      intros key Hk. apply (incl_map_skey _ _ A4) in Hk. apply B4 in Hk.
      apply in_map_iff in Hk. destruct Hk as [st [<- Hst]]. apply in_map. apply E4. exact Hst.
    Qed.

    Theorem K2_remove thr1 thr2 P C s1 s2 :
      x_remove_empty cfg = true -> okF thr1 -> okF thr2 -> counts_ok P C -> fle fa thr1 thr2 = true ->
      shex fa cfg thr1 P C = inl s1 -> shex fa cfg thr2 P C = inl s2 ->
      (forall l1, map_err (shex_class fa cfg thr1 C) P = inl l1 -> no_ref_to_empty l1) ->
      forall sh2, In sh2 s2 ->
      exists sh1, In sh1 s1 /\ sh_name sh1 = sh_name sh2 /\ sh_class sh1 = sh_class sh2 /\ sh_n sh1 = sh_n sh2 /\
                  incl (map skey (sh_stmts sh2)) (map skey (sh_stmts sh1)).
    Proof.
      intros Hre H1 H2 Hc Hle E1 E2 Hdom.
      destruct (shex_unfold thr1 P C s1 E1) as [l1 [F1 G1]]. destruct (shex_unfold thr2 P C s2 E2) as [l2 [F2 G2]].
      rewrite Hre in G1, G2.
      apply (K2_clean thr1 thr2 P C l1 l2 s1 s2); auto. apply Hdom. apply map_err_Forall2. exact F1.
    Qed.

    (** after cleaning no shape is empty *)
    Theorem shex_remove_no_empty thr P C shapes :
      x_remove_empty cfg = true -> shex fa cfg thr P C = inl shapes ->
      forall sh, In sh shapes -> sh_stmts sh <> [].
    Proof.
      intros Hre H sh Hsh Hnil. destruct (shex_unfold thr P C shapes H) as [l [_ G]]. rewrite Hre in G.
      pose proof (clean_shapes_no_empty _ l shapes (Nat.lt_succ_diag_r _) G) as Hno.
      assert (In (sh_name sh) (empty_names shapes)) by (apply empty_names_In; exists sh; auto).
      rewrite Hno in H0. destruct H0.
    Qed.

    (** ** K4: what an optional constraint stands for *)
    Hypothesis feq_inj : forall n1 n2 N, okN N -> (n1 <= N)%N -> (n2 <= N)%N ->
      feqb fa (ratio fa n1 N) (ratio fa n2 N) = true -> n1 = n2.

    (** profile well-formedness used by K4: outside tau every exact-cardinality
        entry comes with a "+" entry that counts at least as many instances,
        and no count exceeds the class size *)
    Definition pd_wf (cnt : N) (pd : pdict) : Prop :=
      (forall p k c n, p <> x_tau cfg -> pd_entry pd p k (CKn c) n ->
                       exists np, pd_entry pd p k CKplus np /\ (n <= np)%N) /\
      (forall p k ck n, pd_entry pd p k ck n -> (n <= cnt)%N).

    (** exactly [n] instances have one value of type [k] for [p], and (outside
        tau) exactly [n] have at least one: none has two *)
    Definition opt_single (pd : pdict) (p k : str) (n : N) : Prop :=
      pd_entry pd p k (CKn 1) n /\ (p <> x_tau cfg -> pd_entry pd p k CKplus n).

    Lemma decide_best_kls cnt g r :
      x_keep_less_specific cfg = true -> decide_best fa cfg cnt g = inl r ->
      (exists s, In s g /\ is_plus (s_card s) = true) ->
      is_plus (s_card r) = true \/ useless_plus_group fa cnt g = true.
    Proof.
      intros Hk H [s [Hs Hp]]. unfold decide_best in H.
      destruct (x_discard_useless cfg && useless_plus_group fa cnt g) eqn:Eu.
      - right. apply andb_true_iff in Eu. tauto.
      - left. rewrite Hk in H. unfold first_such in H.
        destruct (List.find (fun s => is_plus (s_card s)) (sort_desc fa cnt g)) as [res|] eqn:Ef.
        + apply find_some in Ef. apply add_comments_of_spec in H. destruct H as [(_ & _ & _ & _ & -> & _) _]. tauto.
        + exfalso. assert (Hs' : In s (sort_desc fa cnt g)) by (apply sort_desc_In; exact Hs).
          pose proof (find_none _ _ Ef s Hs') as Hn. cbn in Hn. congruence.
    Qed.

    Lemma useless_two cnt g :
      useless_plus_group fa cnt g = true ->
      exists a b, g = [a; b] /\ feqb fa (pv fa cnt a) (pv fa cnt b) = true.
    Proof.
      unfold useless_plus_group. destruct g as [|a [|b [|c g]]]; try discriminate.
      intros H. apply andb_true_iff in H. exists a, b. tauto.
    Qed.

    Lemma mgc_one a b : most_general_card a b = CExact 1 -> a = CExact 1 /\ b = CExact 1.
    Proof.
      unfold most_general_card. destruct (is_plus a || is_plus b || negb (card_eqb a b)) eqn:E; [discriminate|].
      intros ->. apply orb_false_iff in E. destruct E as [_ E]. apply negb_false_iff in E.
      unfold card_eqb in E. destruct b; try discriminate. apply N.eqb_eq in E. subst. auto.
    Qed.

    Lemma card_of_key_one ck : card_of_key ck = CExact 1 -> ck = CKn 1.
    Proof. destruct ck; cbn; intros H; [injection H as ->; reflexivity | discriminate]. Qed.

    Section K4.
      Variable thr : F fa.
      Variable cnt : N.
      Variable ce : str * centry.
      Variable d : bool.
      Hypothesis Hkls : x_keep_less_specific cfg = true.
      Hypothesis Hthr : okF thr.
      Hypothesis Hcnt0 : forall p k ck n, pd_entry (class_pd ce d) p k ck n -> okN cnt.
      Hypothesis Hwf : pd_wf cnt (class_pd ce d).

      Let l := dirl d (class_sorted thr cnt ce).
      Let pd := class_pd ce d.

      Lemma group_same_one_just l1 r :
        group_same fa cfg (List.length l) cnt l = inl l1 -> In r l1 -> s_card r = CExact 1 ->
        opt_single pd (s_prop r) (s_type r) (s_nocc r).
      Proof.
        intros E Hr Hc.
        destruct (Forall2_In_r _ _ _ _ (group_same_spec fa cfg _ cnt l l1 (le_n _) E) Hr) as [t [_ Hpick]].
        pose proof (same_pick_tok fa cfg _ _ _ _ Hpick) as Ht.
        destruct (same_pick_chosen fa cfg _ _ _ _ Hpick) as (s & Hs & Hcore & _).
        pose proof (core_eq_type _ _ Hcore) as Hty.
        destruct Hcore as (_ & C2 & _ & _ & C5 & C6 & _).
        pose proof Hs as Hs0. apply filter_In in Hs0. destruct Hs0 as [Hsl Hst]. apply tok_eqb_eq in Hst.
        pose proof Hsl as Hb. apply dirl_In in Hb. destruct Hb as (p & k & ck & n & He & Hf & Es).
        assert (Eck : ck = CKn 1).
        { apply card_of_key_one. rewrite <- Hc, C5, Es. reflexivity. }
        pose proof (Hcnt0 _ _ _ _ He) as Hcnt.
        subst ck. rewrite C2, Hty, C6, Es. cbn. split; [exact He|]. intros Hp.
        destruct Hwf as [W1 W2]. destruct (W1 p k 1%N n Hp He) as [np [Hep Hle]].
        set (splus := base_stmt d p k CKplus np).
        assert (Hpl : In splus l).
        { apply dirl_In. exists p, k, CKplus, np. split; [exact Hep|]. split; [|reflexivity].
          apply (fle_trans thr (ratio fa n cnt)); auto. }
        assert (Hpg : In splus (filter (fun x => tok_eqb t (tok x)) l)).
        { apply filter_In. split; [exact Hpl|]. apply tok_eqb_eq. rewrite Hst, Es. reflexivity. }
        unfold same_pick in Hpick.
        destruct (filter (fun x => tok_eqb t (tok x)) l) as [|a [|b g]] eqn:Eg; [destruct Hpick| |].
        - subst a. destruct Hpg as [Ha|[]]. rewrite Ha in Hc. discriminate.
        - destruct (decide_best_kls cnt _ r Hkls Hpick) as [Hplus|Hu].
          + exists splus. split; [exact Hpg | reflexivity].
          + rewrite Hc in Hplus. discriminate.
          + destruct (useless_two cnt _ Hu) as (a' & b' & Eab & Hfeq). injection Eab as <- <- ->.
            assert (Hn : n = np).
            { pose proof (W2 p k (CKn 1) n He) as B1. pose proof (W2 p k CKplus np Hep) as B2.
              assert (Hne : s <> splus) by (intros E0; rewrite E0 in Es; discriminate).
              destruct Hs as [Hs|[Hs|[]]]; destruct Hpg as [Hq|[Hq|[]]]; try congruence.
              - rewrite Hs, Hq, Es in Hfeq. apply (feq_inj n np cnt Hcnt B1 B2). exact Hfeq.
              - rewrite Hs, Hq, Es in Hfeq. symmetry. apply (feq_inj np n cnt Hcnt B2 B1). exact Hfeq. }
            rewrite Hn. exact Hep.
      Qed.

      (** K4 on the statements selected for one direction of one class *)
      Theorem select_valid_one_just out r :
        select_valid fa cfg cnt l = inl out -> In r out -> s_card r = CExact 1 -> s_choice r = false ->
        opt_single pd (s_prop r) (s_type r) (s_nocc r) \/
        (s_type r = c_NONLITERAL_ELEM_TYPE /\
         exists nb ni, opt_single pd (s_prop r) c_BNODE_ELEM_TYPE nb /\
                       opt_single pd (s_prop r) c_IRI_ELEM_TYPE ni /\ s_nocc r = (nb + ni)%N).
      Proof.
        intros H Hr Hc Hch. rewrite select_valid_eq in H.
        destruct (group_same fa cfg (List.length l) cnt l) as [l1|e] eqn:E1; [|discriminate].
        pose proof (group_nodes_spec fa cfg _ cnt l1 out (le_n _) H) as F.
        destruct (Forall2_In_r _ _ _ _ F Hr) as [a [Ha Hp]]. apply (node_heads_In cfg) in Ha.
        unfold node_pick in Hp.
        destruct (node_pass cfg a); [subst r; left; apply (group_same_one_just l1 a E1 Ha Hc)|].
        assert (Hg : forall x, In x (node_group cfg l1 a) -> In x l1 /\ s_prop a = s_prop x).
        { intros x Hx. apply node_group_In in Hx. tauto. }
        destruct (node_group cfg l1 a) as [|x [|y g]] eqn:Eg; [destruct Hp| |].
        - subst r. left. apply (group_same_one_just l1 x E1 (proj1 (Hg x (or_introl eq_refl))) Hc).
        - apply merge_group_spec in Hp. destruct Hp as (d0 & d1 & ks & Hd & Ho & Hcore & _).
          pose proof (core_eq_type _ _ Hcore) as Hty.
          destruct Hcore as (_ & C2 & _ & C4 & C5 & C6 & _).
          destruct Ho as [|tys _ _ _]; [|cbn in C4; congruence].
          rewrite C2, Hty, C6. rewrite C5 in Hc.
          destruct Hd as [d0 Hin | b i Hb Hi Tb Ti].
          + left. apply (group_same_one_just l1 d0 E1 (proj1 (Hg d0 Hin)) Hc).
          + right. cbn in Hc. apply mgc_one in Hc. destruct Hc as [Hcb Hci].
            split; [reflexivity|]. exists (s_nocc b), (s_nocc i).
            destruct (Hg b Hb) as [Hb1 Hbp]. destruct (Hg i Hi) as [Hi1 Hip].
            pose proof (group_same_one_just l1 b E1 Hb1 Hcb) as Jb.
            pose proof (group_same_one_just l1 i E1 Hi1 Hci) as Ji.
            unfold is_bnode in Tb. unfold is_iri in Ti. apply str_eqb_eq in Tb, Ti.
            rewrite Tb in Jb. rewrite Ti in Ji. cbn [nonlit_merge s_prop s_nocc].
            rewrite <- Hip, Hbp in Ji. auto.
      Qed.
    End K4.

    Lemma fig_src_not_opt pd p k n pr c : fig_src pd p k n pr c -> c <> COpt.
    Proof.
      intros H. destruct H as [k ck n _ | ckb nb cki ni _ _].
      - destruct ck; discriminate.
      - unfold most_general_card. destruct (_ || _); [discriminate | destruct ckb; discriminate].
    Qed.

    Lemma card_eqb_one c : card_eqb c (CExact 1) = true -> c = CExact 1.
    Proof. unfold card_eqb. destruct c; try discriminate. intros H. apply N.eqb_eq in H. subst; reflexivity. Qed.

    (** only the all-compliant rule makes a [?], and only out of [{1}] *)
    Lemma tune_one_opt pd cnt s st :
      pre_ok pd s -> tune_one fa cfg cnt s = inl st -> s_card st = COpt -> s_card s = CExact 1.
    Proof.
      intros [(ty & _ & _ & Hf) _] H Hc. apply fig_src_not_opt in Hf.
      apply tune_one_spec in H. destruct H as [s1 [Hr ->]].
      destruct (tune_post_fields cfg s1) as (_ & _ & _ & T4). rewrite T4 in Hc.
      assert (Hgen : forall c, (if x_disable_exact cfg
                                then match c with CExact k => if N.ltb 1 k then CPlus else CExact k
                                     | CPlus => CPlus | CStar => CStar | COpt => COpt end
                                else c) = COpt -> c = COpt).
      { intros c. destruct (x_disable_exact cfg); [|auto].
        destruct c as [k| | |]; intros Hx; try discriminate Hx; [destruct (N.ltb 1 k); discriminate Hx | reflexivity]. }
      apply Hgen in Hc. destruct Hr as [_ | _ _ | k _ _ _]; try contradiction.
      cbn in Hc. unfold relax_card in Hc.
      destruct (x_allow_opt cfg && card_eqb (s_card s) (CExact 1)) eqn:E; [|discriminate].
      apply andb_true_iff in E. apply card_eqb_one. tauto.
    Qed.

    (** K4 for one class *)
    Theorem shex_class_opt thr C ce sh :
      x_keep_less_specific cfg = true -> okF thr ->
      (forall d p k ck n, pd_entry (class_pd ce d) p k ck n -> okN (cnt_of C (fst ce))) ->
      (forall d, pd_wf (cnt_of C (fst ce)) (class_pd ce d)) ->
      shex_class fa cfg thr C ce = inl sh ->
      forall st, In st (sh_stmts sh) -> s_card st = COpt -> s_choice st = false ->
      let pd := class_pd ce (s_inv st) in
      opt_single pd (s_prop st) (s_type st) (s_nocc st) \/
      (s_type st = c_NONLITERAL_ELEM_TYPE /\
       exists nb ni, opt_single pd (s_prop st) c_BNODE_ELEM_TYPE nb /\
                     opt_single pd (s_prop st) c_IRI_ELEM_TYPE ni /\ s_nocc st = (nb + ni)%N).
    Proof.
      intros Hk Ht Hn Hwf H st Hst Hc Hch. destruct (shex_class_unfold thr C ce sh H) as (vd & vi & Hd & Hi & Htu & _).
      set (cnt := cnt_of C (fst ce)) in *.
      apply tune_spec in Htu. destruct (Forall2_In_r _ _ _ _ Htu Hst) as [s [Hs Hone]].
      apply sort_desc_In in Hs.
      assert (Hok : forall d, Forall (pre_ok (class_pd ce d)) (dirl d (class_sorted thr cnt ce))).
      { intros d. apply Forall_forall. intros x Hx. apply dirl_In in Hx.
        destruct Hx as (p & k & ck & n & He & _ & ->). apply pre_ok_base; exact He. }
      pose proof (tune_one_sig fa cfg cnt s st Hone) as Hsig. unfold sig in Hsig.
      injection Hsig as I1 I2 I3 I4 I5.
      assert (Hty : s_type st = s_type s) by (unfold s_type; rewrite I3; reflexivity).
      assert (G : forall d v, select_valid fa cfg cnt (dirl d (class_sorted thr cnt ce)) = inl v -> In s v ->
                  let pd := class_pd ce (s_inv st) in
                  opt_single pd (s_prop st) (s_type st) (s_nocc st) \/
                  (s_type st = c_NONLITERAL_ELEM_TYPE /\
                   exists nb ni, opt_single pd (s_prop st) c_BNODE_ELEM_TYPE nb /\
                                 opt_single pd (s_prop st) c_IRI_ELEM_TYPE ni /\ s_nocc st = (nb + ni)%N)).
      { intros d v Hv Hin.
        pose proof (select_valid_ok _ d cnt _ v (dirl_plain d thr cnt ce) (Hok d) Hv) as Hall.
        rewrite Forall_forall in Hall.
        pose proof (select_valid_inv d cnt _ v s (dirl_plain d thr cnt ce) Hv Hin) as Hinv.
        pose proof (tune_one_opt _ cnt s st (Hall s Hin) Hone Hc) as Hc1.
        rewrite I1, Hinv, I2, Hty, I5. cbv zeta.
        apply (select_valid_one_just thr cnt ce d Hk Ht (Hn d) (Hwf d) v s Hv Hin Hc1). congruence. }
      apply in_app_or in Hs. destruct Hs as [Hs|Hs]; [apply (G false vd Hd Hs) | apply (G true vi Hi Hs)].
    Qed.

    (** K4 (C03 part): with [keep_less_specific], an optional constraint that
        is not an OR stands on a profile in which as many instances have
        exactly one value of the type as have at least one -- or it is the
        merged kind, where this holds for IRI and BNode separately (an
        instance may still have one of each) *)
    Theorem K4 thr P C shapes :
      x_keep_less_specific cfg = true -> okF thr -> counts_ok P C ->
      (forall ce d, In ce P -> pd_wf (cnt_of C (fst ce)) (class_pd ce d)) ->
      shex fa cfg thr P C = inl shapes ->
      forall sh, In sh shapes ->
      exists ce, In ce P /\ sh_class sh = fst ce /\ sh_name sh = shape_name (x_shapes_ns cfg) (fst ce) /\
        forall st, In st (sh_stmts sh) -> s_card st = COpt -> s_choice st = false ->
        let pd := class_pd ce (s_inv st) in
        opt_single pd (s_prop st) (s_type st) (s_nocc st) \/
        (s_type st = c_NONLITERAL_ELEM_TYPE /\
         exists nb ni, opt_single pd (s_prop st) c_BNODE_ELEM_TYPE nb /\
                       opt_single pd (s_prop st) c_IRI_ELEM_TYPE ni /\ s_nocc st = (nb + ni)%N).
    Proof.
      intros Hk Ht Hc Hwf H sh Hsh. destruct (shex_unfold thr P C shapes H) as [shapes0 [F Hcl]].
      assert (G : forall sh0, In sh0 shapes0 ->
                exists ce, In ce P /\ sh_class sh0 = fst ce /\ sh_name sh0 = shape_name (x_shapes_ns cfg) (fst ce) /\
                  forall st, In st (sh_stmts sh0) -> s_card st = COpt -> s_choice st = false ->
                  let pd := class_pd ce (s_inv st) in
                  opt_single pd (s_prop st) (s_type st) (s_nocc st) \/
                  (s_type st = c_NONLITERAL_ELEM_TYPE /\
                   exists nb ni, opt_single pd (s_prop st) c_BNODE_ELEM_TYPE nb /\
                                 opt_single pd (s_prop st) c_IRI_ELEM_TYPE ni /\ s_nocc st = (nb + ni)%N)).
      { intros sh0 H0. destruct (Forall2_In_r _ _ _ _ F H0) as [ce [Hce Hs]].
        destruct (shex_class_unfold thr C ce sh0 Hs) as (vd & vi & _ & _ & _ & E1 & E2 & E3).
        exists ce. split; [exact Hce|]. split; [exact E2|]. split; [exact E1|].
        apply (shex_class_opt thr C ce sh0 Hk Ht); auto.
        intros d p k ck n He. apply (Hc ce d p k ck n Hce He). }
      destruct (x_remove_empty cfg).
      - destruct (clean_shapes_sub _ _ _ Hcl sh Hsh) as [sh0 [H0 (A1 & A2 & A3 & A4)]].
        destruct (G sh0 H0) as (ce & B0 & B1 & B2 & B3).
        exists ce. rewrite A1, A2. split; [exact B0|]. split; [exact B1|]. split; [exact B2|].
        intros st Hst. apply B3. apply A4. exact Hst.
      - subst shapes0. apply G; exact Hsh.
    Qed.
  End Laws.
End Keys.
