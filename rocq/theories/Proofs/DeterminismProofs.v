(** * Proofs for property C19 (Model/Determinism.v). *)
From Coq Require Import List Ascii String ZArith Bool Permutation.
From Shexer Require Import Lib.PyStr Lib.Dict Gen.Consts Model.Determinism.
Import ListNotations.

(** ** the shapes-namespace prefix *)

Lemma first_free_Some cands vals p :
  first_free cands vals = Some p -> In p cands /\ ~ In p vals.
Proof.
  induction cands as [|c cs IH]; cbn; [discriminate|].
  destruct (mem_str c vals) eqn:E.
  - intros H. destruct (IH H). auto.
  - intros H. inversion H; subst. split; [auto|].
    intros Hin. apply mem_str_In in Hin. congruence.
Qed.

Lemma first_free_None cands vals :
  first_free cands vals = None -> forall p, In p cands -> In p vals.
Proof.
  induction cands as [|c cs IH]; cbn; [intros _ p []|].
  destruct (mem_str c vals) eqn:E; [|discriminate].
  intros H p [<-|Hin]; [now apply mem_str_In | now apply IH].
Qed.

(** when some priority prefix is free the result is the first free one and the
    random oracle (and the fuel of its loop) is never consulted *)
Lemma prefix_oracle_independent d :
  (exists p, In p c_PRIORITY_PREFIXES_FOR_SHAPES /\ ~ In p (values d)) ->
  forall rand rand' fuel fuel', find_prefix rand fuel d = find_prefix rand' fuel' d.
Proof.
  intros (p & Hp & Hn) rand rand' fuel fuel'. unfold find_prefix.
  destruct (first_free c_PRIORITY_PREFIXES_FOR_SHAPES (values d)) eqn:E; [reflexivity|].
  exfalso. apply Hn. eapply first_free_None; eauto.
Qed.

Lemma prefix_is_first_free d rand fuel q :
  (exists p, In p c_PRIORITY_PREFIXES_FOR_SHAPES /\ ~ In p (values d)) ->
  find_prefix rand fuel d = Some q ->
  In q c_PRIORITY_PREFIXES_FOR_SHAPES /\ ~ In q (values d).
Proof.
  intros (p & Hp & Hn). unfold find_prefix.
  destruct (first_free c_PRIORITY_PREFIXES_FOR_SHAPES (values d)) eqn:E.
  - intros H; inversion H; subst. eapply first_free_Some; eauto.
  - exfalso. apply Hn. eapply first_free_None; eauto.
Qed.

Lemma prio_free_iff d :
  prio_free d = true <-> exists p, In p c_PRIORITY_PREFIXES_FOR_SHAPES /\ ~ In p (values d).
Proof.
  unfold prio_free. destruct (first_free c_PRIORITY_PREFIXES_FOR_SHAPES (values d)) eqn:E.
  - split; [intros _; exists s; eapply first_free_Some; eauto | reflexivity].
  - split; [discriminate | intros (p & Hp & Hn); exfalso; apply Hn; eapply first_free_None; eauto].
Qed.

(** only when all priority prefixes are taken does the result come from the oracle *)
Lemma prefix_random_when_all_taken d :
  (forall p, In p c_PRIORITY_PREFIXES_FOR_SHAPES -> In p (values d)) ->
  forall rand fuel, find_prefix rand fuel d = rand_loop rand fuel 0 (values d).
Proof.
  intros H rand fuel. unfold find_prefix.
  destruct (first_free c_PRIORITY_PREFIXES_FOR_SHAPES (values d)) eqn:E; [|reflexivity].
  apply first_free_Some in E as [Hin Hn]. exfalso. auto.
Qed.

(** ** deletion order *)

Lemma ddel_comm {V} (d : dict V) a b : ddel (ddel d a) b = ddel (ddel d b) a.
Proof.
  induction d as [|[k v] d IH]; cbn; [reflexivity|].
  destruct (str_eqb a k) eqn:Ea, (str_eqb b k) eqn:Eb; cbn; rewrite ?Ea, ?Eb; try reflexivity.
  - apply str_eqb_eq in Ea, Eb. subst. reflexivity.
  - now rewrite IH.
Qed.

Lemma fold_left_perm {A B} (f : A -> B -> A) :
  (forall a x y, f (f a x) y = f (f a y) x) ->
  forall l l', Permutation l l' -> forall a, fold_left f l a = fold_left f l' a.
Proof.
  intros Hc l l' HP. induction HP; intros a; cbn; auto.
  - now rewrite Hc.
  - now rewrite IHHP1.
Qed.

Lemma del_all_perm {W} o o' (d : dict W) : Permutation o o' -> del_all o d = del_all o' d.
Proof.
  intros HP. unfold del_all. apply fold_left_perm; [|exact HP].
  intros a x y. apply ddel_comm.
Qed.

Lemma remove_iteration_perm {V} o o' (p : profile V) :
  Permutation o o' -> remove_iteration o p = remove_iteration o' p.
Proof.
  intros HP. unfold remove_iteration. rewrite (del_all_perm o o') by exact HP. f_equal.
  apply map_ext. intros [c props]. cbn. f_equal.
  apply map_ext. intros [pr types]. cbn. f_equal. now apply del_all_perm.
Qed.

(** ** membership only *)

Lemma mem_str_perm x o o' : Permutation o o' -> mem_str x o = mem_str x o'.
Proof.
  intros HP. destruct (mem_str x o) eqn:E, (mem_str x o') eqn:E'; auto.
  - apply mem_str_In in E. apply (Permutation_in _ HP) in E. apply mem_str_In in E. congruence.
  - apply mem_str_In in E'. apply (Permutation_in _ (Permutation_sym HP)) in E'. apply mem_str_In in E'. congruence.
Qed.

Lemma remove_gone_perm {stmt} (st_type : stmt -> str) o o' shapes :
  Permutation o o' -> remove_gone st_type o shapes = remove_gone st_type o' shapes.
Proof.
  intros HP. unfold remove_gone.
  rewrite (filter_ext _ (fun s : str * list stmt => negb (mem_str (fst s) o'))).
  2:{ intros s. now rewrite (mem_str_perm _ o o'). }
  apply map_ext. intros [n st]. cbn. f_equal. apply filter_ext. intros x. now rewrite (mem_str_perm _ o o').
Qed.

(** ** target nodes *)

Lemma Permutation_filter' {A} (f : A -> bool) l l' : Permutation l l' -> Permutation (filter f l) (filter f l').
Proof.
  intros HP. induction HP; cbn.
  - constructor.
  - destruct (f x); [now constructor | assumption].
  - destruct (f x), (f y); try apply Permutation_refl. apply perm_swap.
  - eapply Permutation_trans; eauto.
Qed.

Lemma Permutation_flat_map' {A B} (f : A -> list B) l l' :
  Permutation l l' -> Permutation (flat_map f l) (flat_map f l').
Proof.
  intros HP. induction HP; cbn.
  - constructor.
  - now apply Permutation_app_head.
  - rewrite !app_assoc. apply Permutation_app_tail. apply Permutation_app_comm.
  - eapply Permutation_trans; eauto.
Qed.

Section TargetsProofs.
  Variable triple : Type.
  Variable po : str -> list triple.
  Variable obj_iri : triple -> option str.
  Variable cls : str -> list triple.

  Lemma yield_triples_perm b o o' :
    Permutation o o' ->
    Permutation (yield_triples triple po obj_iri cls b o) (yield_triples triple po obj_iri cls b o').
  Proof.
    intros HP. unfold yield_triples.
    assert (Hd : Permutation (direct triple po o) (direct triple po o')) by now apply Permutation_flat_map'.
    apply Permutation_app; [exact Hd|].
    destruct b; [|constructor].
    unfold last_level. apply Permutation_flat_map'.
    rewrite (filter_ext _ (fun n => negb (mem_str n o'))).
    2:{ intros n. now rewrite (mem_str_perm _ o o'). }
    apply Permutation_filter'. unfold next_targets. now apply Permutation_flat_map'.
  Qed.
End TargetsProofs.
