(** * C06 ; C08 ; pipeline for the N-Triples reader /repo has NOW.

    [Proofs/ChannelReaders.v] (sections A and C) plugs C06's reader into the
    delivery channels of C08 through [NtReader.run_lines] / [NtReader.process_line]:
    the tokeniser AS IT WAS before the repairs, on its domain [NtDom.C06_dom].
    Here the same composition is made for [NtReader.process_line_cur], the reader
    selected by the generated flags ([Gen.Consts.nt_fixed_tok], [nt_fixed_dlt],
    [nt_tok_end_at_hash], [nt_uri_unclosed_to_eol]), on [NtDomCur.C06_dom_cur]:

    - it is line-compositional and blank-silent for ALL lines, so C08's partition
      theorems hold for it with no hypothesis left;
    - from the TEXT of an N-Triples document to the abstract graph, over the raw
      string and over every partition of the lines into files / archives;
    - once a token also ends at '#' the domain hypothesis disappears (every valid
      statement, every valid layout); once an unclosed '<' reaches the end of the
      line no text whatever makes the channel abort with the hang outcome.

    Never imported by [Model/]. *)
From Coq Require Import List Ascii String ZArith NArith Bool Lia Arith.
From Shexer Require Import Lib.PyStr Lib.Dict Gen.Consts Spec.Rdf Model.Tracker Model.Profiler
     Model.Freq Model.Shexing Model.Run Model.RunCur Model.Channels Spec.ChannelSpec Proofs.ChannelProofs Proofs.ChannelReaders.
From Shexer Require Model.NtReader Spec.NtSyntax Spec.NtDom Spec.NtDomCur Proofs.NtProofs Proofs.NtProofsFx Proofs.NtTotal Proofs.NtDocs.
Import ListNotations.

(** ** the document loop over an arbitrary one-line function *)
Definition nt_reader_g (pl : str -> NtReader.line_result) (ls : list str) : rd :=
  rd_of_doc (NtReader.run_lines_g pl ls [] 0).

Fixpoint nt_fold_g (pl : str -> NtReader.line_result) (ls : list str) : rd :=
  match ls with
  | [] => inl res_nil
  | l :: ls' => rd_app (rd_of_nt_line (pl l)) (nt_fold_g pl ls')
  end.

Lemma run_lines_g_fold pl ls : forall acc errs,
  rd_of_doc (NtReader.run_lines_g pl ls acc errs)
  = rd_app (inl (Res (map nt_mtriple (rev acc)) (List.length acc) errs)) (nt_fold_g pl ls).
Proof.
  induction ls as [|l ls IH]; intros acc errs.
  - cbn [NtReader.run_lines_g rd_of_doc nt_fold_g rd_app]. f_equal.
    apply res_eq; cbn; [rewrite app_nil_r; reflexivity | rewrite rev_length; lia | lia].
  - cbn [NtReader.run_lines_g nt_fold_g]. destruct (pl l) as [s p o| |e|]; cbn [rd_of_nt_line].
    + rewrite IH. destruct (nt_fold_g pl ls) as [y|e]; [|reflexivity].
      cbn [rd_app]. f_equal. apply res_eq; cbn.
      * rewrite map_app, <- app_assoc. reflexivity.
      * lia.
      * lia.
    + rewrite IH. destruct (nt_fold_g pl ls) as [y|e]; [|reflexivity].
      cbn [rd_app]. f_equal. apply res_eq; cbn; [reflexivity | lia | lia].
    + reflexivity.
    + reflexivity.
Qed.

Lemma nt_reader_g_fold pl ls : nt_reader_g pl ls = nt_fold_g pl ls.
Proof. unfold nt_reader_g. rewrite run_lines_g_fold. cbn [rev map List.length]. apply rd_app_nil_l. Qed.

Lemma nt_fold_g_app pl a b : nt_fold_g pl (a ++ b) = rd_app (nt_fold_g pl a) (nt_fold_g pl b).
Proof.
  induction a as [|l a IH]; cbn [app nt_fold_g].
  - rewrite rd_app_nil_l. reflexivity.
  - rewrite IH, rd_app_assoc. reflexivity.
Qed.

(** what the one-line function must satisfy: it looks at the stripped line only, and a blank
    line is a discarded line *)
Definition strip_only (pl : str -> NtReader.line_result) : Prop :=
  forall l l', strip l = strip l' -> pl l = pl l'.
Definition blank_is_error (pl : str -> NtReader.line_result) : Prop :=
  forall l, strip l = [] -> pl l = NtReader.LError.

Theorem nt_reader_g_compositional pl : strip_only pl -> line_compositional (nt_reader_g pl).
Proof.
  intros S. constructor.
  - reflexivity.
  - intros a b. rewrite !nt_reader_g_fold. apply nt_fold_g_app.
  - intros l l' H. rewrite !nt_reader_g_fold. cbn [nt_fold_g]. rewrite (S l l' H). reflexivity.
Qed.

Theorem nt_reader_g_blank_silent pl : blank_is_error pl -> blank_silent (nt_reader_g pl).
Proof. intros B l H. exists 1. rewrite nt_reader_g_fold. cbn [nt_fold_g]. rewrite (B l H). reflexivity. Qed.

(** ** the reader /repo has now: the lines that are not skipped ([nt_skips_comment_lines]:
    blank lines and comment lines), each through [process_line_cur] *)
Definition nt_reader_cur (allow : bool) (ls : list str) : rd :=
  nt_reader_g (NtReader.process_line_cur allow) (NtReader.kept_lines nt_skips_comment_lines ls).

Lemma process_line_cur_strip_only allow : strip_only (NtReader.process_line_cur allow).
Proof.
  intros l l' H. unfold NtReader.process_line_cur, NtReader.process_line_g2, NtReader.process_line_fx,
    NtReader.process_line_g, NtReader.process_line.
  rewrite H. reflexivity.
Qed.

Lemma process_line_cur_blank allow : blank_is_error (NtReader.process_line_cur allow).
Proof.
  intros l H. unfold NtReader.process_line_cur, NtReader.process_line_g2, NtReader.process_line_fx,
    NtReader.process_line_g, NtReader.process_line.
  rewrite H. destruct nt_fixed_tok; [destruct nt_fixed_dlt|]; [destruct nt_tok_end_at_hash, nt_uri_unclosed_to_eol| |]; reflexivity.
Qed.

Lemma kept_lines_app sk a b : NtReader.kept_lines sk (a ++ b) = NtReader.kept_lines sk a ++ NtReader.kept_lines sk b.
Proof. unfold NtReader.kept_lines. destruct sk; [apply filter_app | reflexivity]. Qed.

Lemma skipped_strip_only l l' : strip l = strip l' -> NtReader.is_skipped_line l = NtReader.is_skipped_line l'.
Proof. unfold NtReader.is_skipped_line. intros ->. reflexivity. Qed.

Theorem nt_reader_cur_compositional allow : line_compositional (nt_reader_cur allow).
Proof.
  pose proof (nt_reader_g_compositional _ (process_line_cur_strip_only allow)) as [N A S].
  unfold nt_reader_cur. constructor.
  - destruct nt_skips_comment_lines; exact N.
  - intros a b. rewrite kept_lines_app. apply A.
  - intros l l' H. unfold NtReader.kept_lines. destruct nt_skips_comment_lines; [|apply S; exact H].
    cbn [filter]. rewrite (skipped_strip_only l l' H). destruct (NtReader.is_skipped_line l'); [reflexivity|].
    cbn [negb]. apply S. exact H.
Qed.

(** a blank line yields nothing: skipped, or a discarded line *)
Theorem nt_reader_cur_blank_silent allow : blank_silent (nt_reader_cur allow).
Proof.
  intros l H. unfold nt_reader_cur, NtReader.kept_lines. destruct nt_skips_comment_lines.
  - exists 0. cbn [filter]. unfold NtReader.is_skipped_line. rewrite H. reflexivity.
  - apply (nt_reader_g_blank_silent _ (process_line_cur_blank allow)). exact H.
Qed.

Lemma nt_reader_cur_blanks_harmless allow ls : blanks_harmless (nt_reader_cur allow) ls.
Proof. left. apply nt_reader_cur_blank_silent. Qed.

(** the N-Triples channel over a raw string IS C06's [read_raw_string_cur] *)
Lemma nt_chan_raw_cur pyfloat read_ttl gunzip unxz unzip rdf_parse allow o doc :
  channel pyfloat (nt_reader_cur allow) read_ttl gunzip unxz unzip rdf_parse o (Str "nt") None (SRaw doc)
  = rd_of_doc (NtReader.read_raw_string_cur allow doc).
Proof.
  rewrite (chan_raw pyfloat (nt_reader_cur allow) read_ttl gunzip unxz unzip rdf_parse o _ _ doc
                    (Fam_nt pyfloat (nt_reader_cur allow))).
  rewrite lines_raw_is_raw_string_lines. reflexivity.
Qed.

Definition nt_ok_case_cur (x : NtSyntax.striple * NtSyntax.layout) : Prop :=
  NtSyntax.valid_triple (fst x) = true /\ NtSyntax.valid_layout (snd x) = true /\
  NtDomCur.C06_dom_cur (fst x) (snd x) = true.

Definition nt_valid_case (x : NtSyntax.striple * NtSyntax.layout) : Prop :=
  NtSyntax.valid_triple (fst x) = true /\ NtSyntax.valid_layout (snd x) = true.

(** with every repair in /repo a valid case is in the domain *)
Lemma valid_case_ok_cur :
  nt_fixed_tok = true -> nt_fixed_dlt = true -> nt_tok_end_at_hash = true ->
  forall ts, Forall nt_valid_case ts -> Forall nt_ok_case_cur ts.
Proof.
  intros E1 E2 E3 ts H. eapply Forall_impl; [|exact H]. intros x (A & B). unfold nt_ok_case_cur.
  auto using NtProofsFx.dom_cur_total.
Qed.

(** documents with comment lines and blank lines ([NtSyntax.dline]) *)
Definition nt_graph_of_doc (ds : list NtSyntax.dline) : graph := nt_graph (NtSyntax.statements ds).

Lemma nt_raw_stream_doc pyfloat read_ttl gunzip unxz unzip rdf_parse allow o ds :
  Forall NtDocs.dline_ok_cur ds ->
  exists ms G,
    rd_stream (channel pyfloat (nt_reader_cur allow) read_ttl gunzip unxz unzip rdf_parse o (Str "nt") None
                       (SRaw (NtSyntax.nt_document ds))) = inl ms /\
    graph_of_m ms = Some G /\ map erase_lex G = nt_graph_of_doc ds.
Proof.
  intros H. pose proof (NtDocs.document_lines_partial_cur allow ds H) as K.
  rewrite nt_chan_raw_cur.
  destruct (NtReader.read_raw_string_cur allow (NtSyntax.nt_document ds)) as [ys e|ys e x|ys e]; try discriminate K.
  cbn [NtProofs.kinded_result] in K. injection K as K _.
  destruct (k3_list_commutes ys (NtSyntax.statements ds) K) as (G & HG & HE).
  exists (map nt_mtriple ys), G. split; [reflexivity | split; assumption].
Qed.

Lemma ok_cases_are_doc ts : Forall nt_ok_case_cur ts -> Forall NtDocs.dline_ok_cur (NtSyntax.stmt_lines ts).
Proof.
  intros H. apply Forall_forall. intros d I. apply in_map_iff in I. destruct I as (x & <- & I).
  rewrite Forall_forall in H. destruct (H x I) as (V & VL & D). split; cbn [NtSyntax.valid_dline NtDomCur.dline_dom_cur]; [|exact D].
  rewrite V, VL. reflexivity.
Qed.

Lemma nt_raw_stream_cur pyfloat read_ttl gunzip unxz unzip rdf_parse allow o ts :
  Forall nt_ok_case_cur ts ->
  exists ms G,
    rd_stream (channel pyfloat (nt_reader_cur allow) read_ttl gunzip unxz unzip rdf_parse o (Str "nt") None
                       (SRaw (NtSyntax.nt_doc ts))) = inl ms /\
    graph_of_m ms = Some G /\ map erase_lex G = nt_graph ts.
Proof.
  intros H. rewrite NtDocs.nt_doc_is_document.
  destruct (nt_raw_stream_doc pyfloat read_ttl gunzip unxz unzip rdf_parse allow o _ (ok_cases_are_doc ts H))
    as (ms & G & A & B & C).
  exists ms, G. split; [exact A | split; [exact B|]]. rewrite C. unfold nt_graph_of_doc.
  rewrite NtDocs.statements_stmt_lines. reflexivity.
Qed.

Section NtCur.
  Variable pyfloat : str -> option bool.
  Variable allow : bool.
  Variable read_ttl : list str -> rd.
  Variable gunzip unxz : str -> option str.
  Variable unzip : str -> option (list (str * str)).
  Variable rdf_parse : str -> str -> option (list rtriple).
  Variable fa : FreqAlg.

  Notation chan := (channel pyfloat (nt_reader_cur allow) read_ttl gunzip unxz unzip rdf_parse).
  Notation passes1 := (passes pyfloat (nt_reader_cur allow) read_ttl gunzip unxz unzip rdf_parse).
  Notation FAM := (Fam_nt pyfloat (nt_reader_cur allow)).
  Notation LC := (nt_reader_cur_compositional allow).
  Notation NT := (Str "nt").

  (** *** any lines, any partition: same stream as the single raw string *)
  Theorem partition_invisible_nt_cur o o' :
    (forall cm lss stored,
        cm_plain cm -> Forall (Forall line_ok) lss ->
        Forall2 (stored_as gunzip unxz cm) (map render_lines lss) stored ->
        rd_stream (chan o NT cm (SFiles stored)) = rd_stream (chan o' NT None (SRaw (render_lines (List.concat lss))))) /\
    (forall cm ls st,
        cm_plain cm -> Forall line_ok ls -> stored_as gunzip unxz cm (render_lines ls) st ->
        rd_stream (chan o NT cm (SFile st)) = rd_stream (chan o' NT None (SRaw (render_lines ls)))) /\
    (forall archive lss,
        Forall (Forall line_ok) lss -> archive_holds unzip archive lss ->
        rd_stream (chan o NT (Some c_ZIP) (SFile archive)) = rd_stream (chan o' NT None (SRaw (render_lines (List.concat lss))))) /\
    (forall archives lsss,
        Forall (Forall (Forall line_ok)) lsss -> Forall2 (archive_holds unzip) archives lsss ->
        rd_stream (chan o NT (Some c_ZIP) (SFiles archives))
        = rd_stream (chan o' NT None (SRaw (render_lines (List.concat (List.concat lsss)))))).
  Proof.
    split; [|split; [|split]]; intros.
    - eapply partition_invisible_files; eauto using FAM, LC, nt_reader_cur_blanks_harmless.
    - eapply partition_invisible_file; eauto using FAM, LC, nt_reader_cur_blanks_harmless.
    - eapply partition_invisible_zip; eauto using FAM, LC, nt_reader_cur_blanks_harmless.
    - eapply partition_invisible_zips; eauto using FAM, LC, nt_reader_cur_blanks_harmless.
  Qed.

  (** *** C06 ; C08 ; pipeline *)
  Theorem nt_text_to_graph_cur c thr (o1 o2 : porc) ts :
    Forall nt_ok_case_cur ts ->
    run_over_passes fa c thr (passes1 o1 o2 NT None (SRaw (NtSyntax.nt_doc ts)))
    = Some (run_shapes_cur fa c thr (nt_graph ts)).
  Proof.
    intros H.
    destruct (nt_raw_stream_cur pyfloat read_ttl gunzip unxz unzip rdf_parse allow o1 ts H) as (ms & G & H1 & HG & HE).
    destruct (nt_raw_stream_cur pyfloat read_ttl gunzip unxz unzip rdf_parse allow o2 ts H) as (ms2 & G2 & H2 & HG2 & HE2).
    assert (ms2 = ms) as ->.
    { rewrite !nt_chan_raw_cur in *. rewrite H1 in H2. injection H2 as ->. reflexivity. }
    unfold run_over_passes, graphs_of_passes, passes. cbn [fst snd]. rewrite H1, H2, HG.
    rewrite run_shapes2_same. f_equal. rewrite <- HE. symmetry. apply run_shapes_cur_erase_lex.
  Qed.

  (** the same from a document with comment lines and blank lines *)
  Theorem nt_doc_to_graph_cur c thr (o1 o2 : porc) ds :
    Forall NtDocs.dline_ok_cur ds ->
    run_over_passes fa c thr (passes1 o1 o2 NT None (SRaw (NtSyntax.nt_document ds)))
    = Some (run_shapes_cur fa c thr (nt_graph_of_doc ds)).
  Proof.
    intros H.
    destruct (nt_raw_stream_doc pyfloat read_ttl gunzip unxz unzip rdf_parse allow o1 ds H) as (ms & G & H1 & HG & HE).
    destruct (nt_raw_stream_doc pyfloat read_ttl gunzip unxz unzip rdf_parse allow o2 ds H) as (ms2 & G2 & H2 & HG2 & HE2).
    assert (ms2 = ms) as ->.
    { rewrite !nt_chan_raw_cur in *. rewrite H1 in H2. injection H2 as ->. reflexivity. }
    unfold run_over_passes, graphs_of_passes, passes. cbn [fst snd]. rewrite H1, H2, HG.
    rewrite run_shapes2_same. f_equal. rewrite <- HE. symmetry. apply run_shapes_cur_erase_lex.
  Qed.

  (** every valid document once every repair is in /repo *)
  Theorem nt_doc_to_graph_full c thr (o1 o2 : porc) ds :
    nt_fixed_tok = true -> nt_fixed_dlt = true -> nt_tok_end_at_hash = true -> nt_skips_comment_lines = true ->
    Forall (fun d => NtSyntax.valid_dline d = true) ds ->
    run_over_passes fa c thr (passes1 o1 o2 NT None (SRaw (NtSyntax.nt_document ds)))
    = Some (run_shapes_cur fa c thr (nt_graph_of_doc ds)).
  Proof.
    intros E1 E2 E3 E4 H. apply nt_doc_to_graph_cur. eapply Forall_impl; [|exact H]. intros d V. split; [exact V|].
    apply (NtDocs.dline_dom_cur_total E1 E2 E3 E4 d).
  Qed.

  Lemma nt_raw_lines_same_cur o o' ts :
    Forall nt_ok_case_cur ts -> Forall line_ok (nt_lines ts) ->
    chan o NT None (SRaw (render_lines (nt_lines ts))) = chan o' NT None (SRaw (NtSyntax.nt_doc ts)).
  Proof.
    intros H Hok.
    rewrite !(chan_raw pyfloat (nt_reader_cur allow) read_ttl gunzip unxz unzip rdf_parse _ _ _ _ FAM).
    rewrite lines_raw_render by exact Hok. rewrite nt_lines_nonblank, lines_raw_is_raw_string_lines.
    rewrite NtProofsFx.raw_lines_doc_valid; [reflexivity|].
    eapply Forall_impl; [|exact H]. intros x (A & B & _). auto.
  Qed.

  Theorem nt_text_channel_independent_cur c thr (o1 o2 : porc) ts :
    Forall nt_ok_case_cur ts -> Forall line_ok (nt_lines ts) ->
    (forall cm lss stored,
        List.concat lss = nt_lines ts -> cm_plain cm ->
        Forall2 (stored_as gunzip unxz cm) (map render_lines lss) stored ->
        run_over_passes fa c thr (passes1 o1 o2 NT cm (SFiles stored)) = Some (run_shapes_cur fa c thr (nt_graph ts))) /\
    (forall cm st,
        cm_plain cm -> stored_as gunzip unxz cm (render_lines (nt_lines ts)) st ->
        run_over_passes fa c thr (passes1 o1 o2 NT cm (SFile st)) = Some (run_shapes_cur fa c thr (nt_graph ts))) /\
    (forall archive lss,
        List.concat lss = nt_lines ts -> archive_holds unzip archive lss ->
        run_over_passes fa c thr (passes1 o1 o2 NT (Some c_ZIP) (SFile archive)) = Some (run_shapes_cur fa c thr (nt_graph ts))) /\
    (forall archives lsss,
        List.concat (List.concat lsss) = nt_lines ts -> Forall2 (archive_holds unzip) archives lsss ->
        run_over_passes fa c thr (passes1 o1 o2 NT (Some c_ZIP) (SFiles archives)) = Some (run_shapes_cur fa c thr (nt_graph ts))).
  Proof.
    intros H Hok.
    assert (Hraw : run_over_passes fa c thr (passes1 o1 o2 NT None (SRaw (render_lines (nt_lines ts))))
                   = Some (run_shapes_cur fa c thr (nt_graph ts))).
    { rewrite <- (nt_text_to_graph_cur c thr o1 o2 ts H). unfold passes.
      rewrite (nt_raw_lines_same_cur o1 o1 ts H Hok), (nt_raw_lines_same_cur o2 o2 ts H Hok). reflexivity. }
    destruct (partition_invisible_nt_cur o1 o1) as (A1 & B1 & C1 & D1).
    destruct (partition_invisible_nt_cur o2 o2) as (A2 & B2 & C2 & D2).
    split; [|split; [|split]].
    - intros cm lss stored Hc Hcm Hst. rewrite <- Hraw, <- Hc.
      assert (L : Forall (Forall line_ok) lss) by (apply Forall_concat_inv; rewrite Hc; exact Hok).
      apply run_over_passes_streams; unfold passes; cbn [fst snd]; [apply A1 | apply A2]; assumption.
    - intros cm st Hcm Hst. rewrite <- Hraw.
      apply run_over_passes_streams; unfold passes; cbn [fst snd]; [apply B1 | apply B2]; assumption.
    - intros archive lss Hc Ha. rewrite <- Hraw, <- Hc.
      assert (L : Forall (Forall line_ok) lss) by (apply Forall_concat_inv; rewrite Hc; exact Hok).
      apply run_over_passes_streams; unfold passes; cbn [fst snd]; [apply C1 | apply C2]; assumption.
    - intros archives lsss Hc Ha. rewrite <- Hraw, <- Hc.
      assert (L : Forall (Forall (Forall line_ok)) lsss) by (apply Forall_concat_inv2; rewrite Hc; exact Hok).
      apply run_over_passes_streams; unfold passes; cbn [fst snd]; [apply D1 | apply D2]; assumption.
  Qed.

  (** *** with every repair in /repo: every valid statement, every valid layout *)
  Theorem nt_text_to_graph_full c thr (o1 o2 : porc) ts :
    nt_fixed_tok = true -> nt_fixed_dlt = true -> nt_tok_end_at_hash = true ->
    Forall nt_valid_case ts ->
    run_over_passes fa c thr (passes1 o1 o2 NT None (SRaw (NtSyntax.nt_doc ts)))
    = Some (run_shapes_cur fa c thr (nt_graph ts)).
  Proof. intros E1 E2 E3 H. apply nt_text_to_graph_cur, valid_case_ok_cur; assumption. Qed.

  (** *** ... and no text at all makes the N-Triples channel end in the hang outcome *)
  Theorem nt_reader_cur_never_hangs :
    nt_fixed_tok = true -> nt_fixed_dlt = true -> nt_uri_unclosed_to_eol = true ->
    forall ls, nt_reader_cur allow ls <> inr (nt_abort None).
  Proof.
    intros E1 E2 E3 ls. unfold nt_reader_cur, nt_reader_g.
    pose proof (NtTotal.run_lines_g_total (NtReader.process_line_cur allow)) as T.
    assert (P : forall l, NtReader.process_line_cur allow l <> NtReader.LHang).
    { intros l. destruct (NtDocs.terminates_all_cur E1 E2 E3 allow l [] 0%nat) as (_ & _ & P). exact P. }
    specialize (T P (NtReader.kept_lines nt_skips_comment_lines ls) [] 0%nat).
    destruct (NtReader.run_lines_g (NtReader.process_line_cur allow) (NtReader.kept_lines nt_skips_comment_lines ls) [] 0)
      as [ys n|ys n e|ys n]; cbn [rd_of_doc].
    - discriminate.
    - intros H. injection H as H. apply (nt_abort_inj (Some e) None) in H. discriminate.
    - exfalso. apply (T ys n). reflexivity.
  Qed.
End NtCur.
