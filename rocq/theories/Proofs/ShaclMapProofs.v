(** * SHACL output of shape-map extractions ([Model.RunMapShacl]) and the
    [_produce_output] stage of the SHACL serialiser ([ShaclDoc.shacl_output]).

    1. printability: a tree of arcs whose IRIs rdflib accepts gives printable
       triples ([node_triples_printable]); the arcs of a property shape
       ([shacl_arcs_printable]); a document ([doc_printable])
    2. [shacl_output_total]: on C11's domain, with printable shape IRIs,
       statements and target IRIs, the serialiser returns the graph;
       [shacl_output_cornered_fails]: with the text of [_add_target_class] that
       keeps the class key, one class key in corners and the serialiser never
       returns (finding C04-F2)
    3. the run: [map_shacl_ok_iff], classes of a pure shape-map run are labels
       ([map_pure_classes_labels]), [map_shacl_total] / [map_shacl_fails_old]
    4. S1-S3 for the SHACL graph of a shape-map run ([map_shacl_graph]);
       references resolve ([map_refs_closed], [map_pure_profile_refs_closed]) *)
From Coq Require Import List Ascii String ZArith NArith Bool Lia Permutation.
From Shexer Require Import Lib.PyStr Lib.Dict Gen.Consts Spec.Rdf Model.Tracker Model.Profiler
  Model.Tokens Model.Freq Model.FreqInst Model.Shexing Model.ShexingFix Model.Run Model.RunMap Spec.Counts
  Spec.ConstraintSpec Spec.ShaclGraphSpec Model.SerialShacl Model.ShaclDoc Model.RunMapShacl.
From Shexer Require Import Proofs.DictLemmas Proofs.ProfileChar Proofs.EndToEnd Proofs.EndToEnd2
  Proofs.ClosureLemmas Proofs.ShaclDocProofs Proofs.ShaclDocRun Proofs.RunMapProofs Proofs.ShexingFixProofs.
From Shexer Require Import Proofs.ShaclProofs.
From Shexer Require Model.Selectors.
Import ListNotations.

(** ** 1. printability *)
Fixpoint rnode_printable (r : rnode) : bool :=
  match r with
  | RIri i => iri_printable i
  | RLit _ _ => true
  | RBlank arcs =>
    (fix go (l : list (str * rnode)) : bool :=
       match l with [] => true | (_, v) :: l' => rnode_printable v && go l' end) arcs
  end.

Definition arcs_printable (arcs : list (str * rnode)) : bool :=
  forallb (fun pv : str * rnode => rnode_printable (snd pv)) arcs.

Lemma rnode_printable_blank arcs : rnode_printable (RBlank arcs) = arcs_printable arcs.
Proof.
  unfold arcs_printable. cbn [rnode_printable]. induction arcs as [|[p v] l IH]; [reflexivity|].
  cbn [forallb snd]. rewrite IH. reflexivity.
Qed.

Lemma node_term_printable path v : rnode_printable v = true -> term_printable (node_term path v) = true.
Proof. destruct v; cbn [node_term term_printable rnode_printable]; auto. Qed.

Lemma arcs_triples_printable subj path :
  term_printable subj = true ->
  forall arcs, Forall (fun a : str * rnode => forall pth t, rnode_printable (snd a) = true ->
                                                       In t (node_triples pth (snd a)) -> triple_printable t = true) arcs ->
  arcs_printable arcs = true ->
  forall k t, In t (arcs_triples subj path k arcs) -> triple_printable t = true.
Proof.
  intros Hs. induction arcs as [|[p v] l IH]; intros HF Hp k t Hin; [destruct Hin|].
  inversion HF as [|? ? Hv Hl]; subst. unfold arcs_printable in Hp. cbn [forallb snd] in Hp.
  apply andb_true_iff in Hp. destruct Hp as [Hpv Hpl]. cbn [arcs_triples] in Hin.
  destruct Hin as [<-|Hin].
  - unfold triple_printable. cbn [tr_subj tr_obj fst snd]. rewrite Hs, (node_term_printable _ _ Hpv). reflexivity.
  - apply in_app_or in Hin. destruct Hin as [Hin|Hin].
    + exact (Hv _ _ Hpv Hin).
    + exact (IH Hl Hpl _ _ Hin).
Qed.

Lemma node_triples_printable : forall r path t,
  rnode_printable r = true -> In t (node_triples path r) -> triple_printable t = true.
Proof.
  induction r as [i|l d|arcs IH] using rnode_ind'; intros path t Hp Hin; try destruct Hin.
  rewrite node_triples_blank in Hin. rewrite rnode_printable_blank in Hp.
  apply (arcs_triples_printable (TBlank path) path eq_refl arcs) with (k := 0); [|exact Hp | exact Hin].
  rewrite Forall_forall in *. intros a Ha pth t' Hpa Hin'. exact (IH a Ha pth t' Hpa Hin').
Qed.

Lemma doc_printable : forall d i0,
  forallb (fun n : str * list (str * rnode) => iri_printable (fst n) && arcs_printable (snd n)) d = true ->
  forall t, In t (doc_triples i0 d) -> triple_printable t = true.
Proof.
  induction d as [|[u arcs] d IH]; intros i0 H t Hin; [destruct Hin|].
  cbn [forallb fst snd] in H. apply andb_true_iff in H. destruct H as [Hn Hd].
  apply andb_true_iff in Hn. destruct Hn as [Hu Ha].
  cbn [doc_triples] in Hin. apply in_app_or in Hin. destruct Hin as [Hin|Hin].
  - apply (arcs_triples_printable (TIri u) [i0] Hu arcs) with (k := 0); [|exact Ha | exact Hin].
    apply Forall_forall. intros a _ pth t' Hpa Hin'. exact (node_triples_printable _ _ _ Hpa Hin').
  - exact (IH (S i0) Hd t Hin).
Qed.

(** *** the arcs of one property shape *)
Definition opt_arcs_printable (o : option (list (str * rnode))) : bool :=
  match o with Some a => arcs_printable a | None => true end.

(** the IRIs a statement contributes are acceptable to rdflib: its path and, for each type key, what
    [_add_node_type] and [_add_in_instance] make of it (whichever the serialiser calls) *)
Definition stmt_printable (st : stmt) : bool :=
  opt_arcs_printable (add_path (s_inv st) (s_prop st)) &&
  forallb (fun ty => opt_arcs_printable (add_node_type ty) && opt_arcs_printable (add_in_instance ty)) (s_types st).

Lemma arcs_printable_app a b : arcs_printable (a ++ b) = arcs_printable a && arcs_printable b.
Proof. unfold arcs_printable. apply forallb_app. Qed.

Lemma cardinality_printable v cd : add_cardinality v = Some cd -> arcs_printable cd = true.
Proof.
  unfold add_cardinality, add_occurs, generate_r_literal.
  change (map_rdflib_datatype c_shacl_INTEGER) with (Some rdflib_XSD_integer).
  destruct (min_occurs_from_cardinality v) as [x|], (max_occurs_from_cardinality v) as [y|];
    cbn [opt_app app]; intros H; injection H as <-; reflexivity.
Qed.

Lemma property_shape_type_printable : arcs_printable property_shape_type = true.
Proof. vm_compute. reflexivity. Qed.

Theorem shacl_arcs_printable tau st parcs :
  shacl_arcs tau st = VOk parcs -> stmt_printable st = true -> arcs_printable parcs = true.
Proof.
  destruct (s_choice st) eqn:Ech; [intros H; exfalso; exact (shacl_arcs_choice_not_ok tau st parcs Ech H)|].
  unfold shacl_arcs, stmt_printable. rewrite Ech.
  destruct (s_types st) as [|ty [|ty2 tys]] eqn:Et; try discriminate.
  intros H Hp. apply andb_true_iff in Hp. destruct Hp as [Hpath Hty]. cbn [forallb] in Hty.
  rewrite andb_true_r in Hty. apply andb_true_iff in Hty. destruct Hty as [Hnt Hin].
  destruct (str_eqb (s_prop st) tau).
  - revert H. change shacl_instantiation_steps with
      [Str "_generate_bnode"; Str "_add_bnode_property"; Str "_add_path"; Str "_add_cardinality";
       Str "_add_in_instance"].
    cbn [run_steps]. rewrite step_generate_bnode, step_bnode_property, step_path, step_cardinality, step_in_instance.
    destruct (add_path (s_inv st) (s_prop st)) as [pa|] eqn:Ep; [|discriminate].
    destruct (add_cardinality (card_value (s_card st))) as [cd|] eqn:Ec; [|discriminate].
    destruct (add_in_instance ty) as [ia|] eqn:Ei; [|discriminate].
    intros H. injection H as <-.
    match goal with |- arcs_printable (?x :: ?l) = true => change (arcs_printable ([x] ++ l) = true) end.
    rewrite !arcs_printable_app.
    cbn [opt_arcs_printable] in Hpath, Hin.
    rewrite Hpath, (cardinality_printable _ _ Ec), Hin. reflexivity.
  - revert H. change shacl_regular_steps with
      [Str "_generate_bnode"; Str "_add_bnode_property"; Str "_add_node_type"; Str "_add_cardinality";
       Str "_add_path"].
    cbn [run_steps]. rewrite step_generate_bnode, step_bnode_property, step_node_type, step_cardinality, step_path.
    destruct (add_node_type ty) as [nt|] eqn:En; [|discriminate].
    destruct (add_cardinality (card_value (s_card st))) as [cd|] eqn:Ec; [|discriminate].
    destruct (add_path (s_inv st) (s_prop st)) as [pa|] eqn:Ep; [|discriminate].
    intros H. injection H as <-.
    match goal with |- arcs_printable (?x :: ?l) = true => change (arcs_printable ([x] ++ l) = true) end.
    rewrite !arcs_printable_app.
    cbn [opt_arcs_printable] in Hpath, Hnt.
    rewrite Hpath, (cardinality_printable _ _ Ec), Hnt. reflexivity.
Qed.

(** ** 2. the serialiser *)

(** what rdflib has to print for one shape, apart from the fixed vocabulary: the shape's IRI, the
    target IRI and the IRIs of its statements *)
Definition shape_printable (sh : shape) : bool :=
  match generate_shape_uri (sh_name sh) with Some u => iri_printable u | None => true end &&
  forallb stmt_printable (sh_stmts sh).

Definition target_printable (sh : shape) : bool := iri_printable (target_class_obj (sh_class sh)).

Lemma produce_output_ok g tr : produce_output g = inl tr <-> tr = g /\ forallb triple_printable g = true.
Proof.
  unfold produce_output. destruct (forallb triple_printable g); split.
  - intros H. injection H as <-. auto.
  - intros [-> _]. reflexivity.
  - discriminate.
  - intros [_ H]. discriminate H.
Qed.

Lemma shacl_output_gen_ok z ns tau shapes tr :
  shacl_output_gen z ns tau shapes = inl tr <->
  shacl_graph_gen z ns tau shapes = inl tr /\ forallb triple_printable tr = true.
Proof.
  unfold shacl_output_gen. destruct (shacl_graph_gen z ns tau shapes) as [g|e]; split.
  - intros H. apply produce_output_ok in H. destruct H as [-> H]. auto.
  - intros [H1 H2]. injection H1 as <-. apply produce_output_ok. auto.
  - discriminate.
  - intros [H _]. discriminate H.
Qed.

Lemma shacl_output_gen_err z ns tau shapes e :
  shacl_output_gen z ns tau shapes = inr e <->
  (exists ge, e = OGraph ge /\ shacl_graph_gen z ns tau shapes = inr ge) \/
  (e = OException /\ exists g, shacl_graph_gen z ns tau shapes = inl g /\ forallb triple_printable g = false).
Proof.
  unfold shacl_output_gen, produce_output. destruct (shacl_graph_gen z ns tau shapes) as [g|ge].
  - destruct (forallb triple_printable g) eqn:E.
    + split; [discriminate|].
      intros [[ge [_ H]]|[_ [g' [H1 H2]]]]; [discriminate H|]. injection H1 as <-. rewrite E in H2. discriminate H2.
    + split.
      * intros H. injection H as <-. right. split; [reflexivity|]. exists g. auto.
      * intros [[ge [_ H]]|[-> _]]; [discriminate H | reflexivity].
  - split.
    + intros H. injection H as <-. left. exists ge. auto.
    + intros [[ge' [-> H]]|[_ [g [H _]]]]; [injection H as ->; reflexivity | discriminate H].
Qed.

(** ** 2a. the whole document *)
Lemma cornered_not_printable c : cornered c = true -> iri_printable c = false.
Proof.
  unfold cornered. intros H. apply andb_true_iff in H. destruct H as [H _].
  apply prefixb_spec in H. destruct H as [r ->]. reflexivity.
Qed.

Lemma node_arcs_printable cls pat ps :
  (pat = [] \/ exists stem, pat = [(SH "pattern", literal_iri_pattern stem)]) ->
  arcs_printable (node_arcs cls pat ps) = iri_printable cls && forallb rnode_printable ps.
Proof.
  intros Hpat. unfold node_arcs.
  change ((RDFNS "type", RIri (SH "NodeShape")) :: (SH "targetClass", RIri cls) :: pat ++ map (fun p => (SH "property", p)) ps)
    with ([(RDFNS "type", RIri (SH "NodeShape")); (SH "targetClass", RIri cls)] ++ pat ++ map (fun p => (SH "property", p)) ps).
  rewrite !arcs_printable_app.
  assert (E1 : arcs_printable [(RDFNS "type", RIri (SH "NodeShape")); (SH "targetClass", RIri cls)] = iri_printable cls).
  { unfold arcs_printable. cbn [forallb snd rnode_printable].
    replace (iri_printable (SH "NodeShape")) with true by (vm_compute; reflexivity).
    cbn [andb]. apply andb_true_r. }
  assert (E2 : arcs_printable pat = true).
  { destruct Hpat as [->|[stem ->]]; reflexivity. }
  assert (E3 : arcs_printable (map (fun p => (SH "property", p)) ps) = forallb rnode_printable ps).
  { unfold arcs_printable. induction ps as [|p ps IH]; [reflexivity|]. cbn [map forallb snd]. rewrite IH. reflexivity. }
  rewrite E1, E2, E3. reflexivity.
Qed.

Lemma shape_rel_printable z tau sh n :
  shape_rel z tau sh n -> shape_printable sh = true -> target_printable sh = true ->
  iri_printable (fst n) && arcs_printable (snd n) = true.
Proof.
  intros [Hu [pat [ps [Harcs [Hpat Hps]]]]] Hsp Htp. unfold shape_printable in Hsp. rewrite Hu in Hsp.
  apply andb_true_iff in Hsp. destruct Hsp as [Hiu Hst]. rewrite Hiu, Harcs, (node_arcs_printable _ _ _ Hpat).
  unfold target_printable in Htp. rewrite Htp. cbn [andb].
  rewrite forallb_forall in Hst. clear Harcs. induction Hps as [|st p stmts ps [parcs [Ha ->]] _ IH]; [reflexivity|].
  cbn [forallb]. rewrite rnode_printable_blank.
  rewrite (shacl_arcs_printable tau st parcs Ha (Hst st (or_introl eq_refl))). cbn [andb].
  apply IH. intros x Hx. apply Hst. right. exact Hx.
Qed.

(** whenever the graph is built, printable shapes and targets make rdflib print it *)
Theorem shacl_output_gen_printable z ns tau shapes g :
  shacl_graph_gen z ns tau shapes = inl g ->
  forallb shape_printable shapes = true -> forallb target_printable shapes = true ->
  shacl_output_gen z ns tau shapes = inl g.
Proof.
  intros Hg Hsp Htp. apply shacl_output_gen_ok. split; [exact Hg|].
  revert Hg. unfold shacl_graph_gen. destruct (doc_nodes z tau shapes) as [d|e] eqn:Ed; [|discriminate].
  intros H. injection H as <-. pose proof (doc_nodes_form _ _ _ _ Ed) as HF.
  apply forallb_forall. intros t Hin. apply (doc_printable d 0); [|exact Hin].
  clear Ed Hin. induction HF as [|sh n shapes d Hrel _ IH]; [reflexivity|].
  cbn [forallb] in *. apply andb_true_iff in Hsp. apply andb_true_iff in Htp.
  destruct Hsp as [Hs1 Hs2]. destruct Htp as [Ht1 Ht2].
  rewrite (shape_rel_printable z tau sh n Hrel Hs1 Ht1). exact (IH Hs2 Ht2).
Qed.

(** on C11's domain (the domain on which the serialiser of a class-based run builds its graph) *)
Theorem shacl_output_total ns tau shapes :
  forallb (C11_dom_shape ns tau) shapes = true ->
  forallb shape_printable shapes = true -> forallb target_printable shapes = true ->
  exists g, shacl_output ns tau shapes = inl g /\ shacl_graph ns tau shapes = inl g.
Proof.
  intros Hdom Hsp Htp. destruct (shacl_graph_total ns tau shapes Hdom) as [cs [d [L [_ [_ [_ [Hg _]]]]]]].
  exists (doc_triples 0 d). split; [|exact Hg]. exact (shacl_output_gen_printable no_patterns ns tau shapes _ Hg Hsp Htp).
Qed.

(** the target of a label [<iri>] once [_add_target_class] removes the corners *)
Lemma target_printable_label sh i : c_shacl_target_strips_corners = true ->
  sh_class sh = Str "<" ++ i ++ Str ">" -> iri_printable i = true -> target_printable sh = true.
Proof. intros Hf Hc Hi. unfold target_printable. rewrite Hc, (target_class_obj_new i Hf). exact Hi. Qed.

Lemma target_printable_plain sh : cornered (sh_class sh) = false -> iri_printable (sh_class sh) = true ->
  target_printable sh = true.
Proof. intros Hc Hi. unfold target_printable. rewrite (target_class_obj_plain _ Hc). exact Hi. Qed.

(** *** finding C04-F2: with the text of [_add_target_class] that hands the class key to [URIRef] as
    it is, one class key in corners and the serialiser never returns -- if the graph gets built,
    rdflib's writer raises *)
Lemma target_triple_in z tau shapes d sh :
  doc_nodes z tau shapes = inl d -> In sh shapes ->
  exists u, In (TIri u, SH "targetClass", TIri (target_class_obj (sh_class sh))) (doc_triples 0 d).
Proof.
  intros Ed Hin. pose proof (doc_nodes_form _ _ _ _ Ed) as HF.
  apply In_nth_error in Hin. destruct Hin as [i Hi].
  destruct (Forall2_nth_l _ _ _ HF i sh Hi) as [[u arcs] [Hd [_ [pat [ps [Harcs _]]]]]]. cbn [snd] in Harcs.
  exists u. apply (doc_triples_In _ u arcs d 0 i Hd). subst arcs.
  exact (arcs_triples_In (TIri u) [0 + i] (SH "targetClass") (RIri (target_class_obj (sh_class sh)))
           (node_arcs (target_class_obj (sh_class sh)) pat ps) 0 1 eq_refl).
Qed.

Theorem shacl_output_cornered_fails z ns tau shapes sh g :
  c_shacl_target_strips_corners = false -> In sh shapes -> cornered (sh_class sh) = true ->
  shacl_graph_gen z ns tau shapes = inl g -> shacl_output_gen z ns tau shapes = inr OException.
Proof.
  intros Hf Hin Hc Hg. apply shacl_output_gen_err. right. split; [reflexivity|]. exists g. split; [exact Hg|].
  revert Hg. unfold shacl_graph_gen. destruct (doc_nodes z tau shapes) as [d|e] eqn:Ed; [|discriminate].
  intros H. injection H as <-. destruct (target_triple_in z tau shapes d sh Ed Hin) as [u Hu].
  rewrite (target_class_obj_old _ Hf) in Hu.
  destruct (forallb triple_printable (doc_triples 0 d)) eqn:E; [|reflexivity].
  rewrite forallb_forall in E. specialize (E _ Hu). unfold triple_printable in E.
  cbn [tr_subj tr_obj fst snd term_printable] in E. rewrite (cornered_not_printable _ Hc), andb_false_r in E. discriminate E.
Qed.

Corollary shacl_output_cornered_never z ns tau shapes sh :
  c_shacl_target_strips_corners = false -> In sh shapes -> cornered (sh_class sh) = true ->
  forall g, shacl_output_gen z ns tau shapes <> inl g.
Proof.
  intros Hf Hin Hc g H. pose proof (proj1 (shacl_output_gen_ok _ _ _ _ _) H) as [Hg _].
  rewrite (shacl_output_cornered_fails z ns tau shapes sh g Hf Hin Hc Hg) in H. discriminate H.
Qed.

(** ** 3. the run *)
Theorem map_shacl_ok_iff fa c orc sp thr g tr :
  run_shacl_map fa c orc sp thr g = inl tr <->
  exists ns shapes, run_shapes_map fa c orc sp thr g = inl (ns, shapes) /\
                    shacl_output ns (tau_shaper sp) shapes = inl tr.
Proof.
  unfold run_shacl_map. destruct (run_shapes_map fa c orc sp thr g) as [[ns shapes]|e]; split.
  - destruct (shacl_output ns (tau_shaper sp) shapes) as [t|e] eqn:E; [|discriminate].
    intros H. injection H as <-. exists ns, shapes. auto.
  - intros [ns' [shapes' [H1 H2]]]. injection H1 as <- <-. rewrite H2. reflexivity.
  - discriminate.
  - intros [ns' [shapes' [H1 _]]]. discriminate H1.
Qed.

Theorem map_shacl_err_iff fa c orc sp thr g e :
  run_shacl_map fa c orc sp thr g = inr e <->
  (exists me, e = MSRun me /\ run_shapes_map fa c orc sp thr g = inr me) \/
  (exists ns shapes oe, e = MSShacl oe /\ run_shapes_map fa c orc sp thr g = inl (ns, shapes) /\
                        shacl_output ns (tau_shaper sp) shapes = inr oe).
Proof.
  unfold run_shacl_map. destruct (run_shapes_map fa c orc sp thr g) as [[ns shapes]|me]; split.
  - destruct (shacl_output ns (tau_shaper sp) shapes) as [t|oe] eqn:E; [discriminate|].
    intros H. injection H as <-. right. exists ns, shapes, oe. auto.
  - intros [[me [_ H]]|[ns' [shapes' [oe [-> [H1 H2]]]]]]; [discriminate H|]. injection H1 as <- <-. rewrite H2. reflexivity.
  - intros H. injection H as <-. left. exists me. auto.
  - intros [[me' [-> H]]|[ns' [shapes' [oe [_ [H _]]]]]]; [injection H as ->; reflexivity | discriminate H].
Qed.

(** *** the class keys of a pure shape-map run (no target classes, all_classes_mode off) are labels of
    the shape map *)
Definition classes_all (R : str -> Prop) (d : insts) : Prop :=
  Forall (fun ie : str * list str => forall c, In c (snd ie) -> R c) d.

Lemma add_label_classes (R : str -> Prop) d node label : classes_all R d -> R label -> classes_all R (Selectors.add_label d node label).
Proof.
  intros Hd Hl. unfold Selectors.add_label, classes_all. apply Forall_dupd; [exact Hd | |].
  - intros v _ Hv c Hc. cbn [snd] in *. destruct (c_sm_dedup_labels && mem_str label v); [exact (Hv c Hc)|].
    apply in_app_or in Hc. destruct Hc as [Hc|[<-|[]]]; [exact (Hv c Hc) | exact Hl].
  - intros _ c Hc. cbn [snd] in Hc. destruct (c_sm_dedup_labels && mem_str label []); [destruct Hc|].
    destruct Hc as [<-|[]]. exact Hl.
Qed.

Lemma fold_add_label_classes (R : str -> Prop) label nodes : forall d, classes_all R d -> R label ->
  classes_all R (fold_left (fun acc n => Selectors.add_label acc n label) nodes d).
Proof.
  induction nodes as [|n nodes IH]; intros d Hd Hl; [exact Hd|]. cbn [fold_left].
  apply IH; [apply add_label_classes; assumption | exact Hl].
Qed.

Lemma track_items_classes (R : str -> Prop) orc g items : forall d d',
  (forall it, In it items -> R (Selectors.pi_label it)) -> classes_all R d ->
  Selectors.track_items orc g items d = Selectors.Ok d' -> classes_all R d'.
Proof.
  induction items as [|it items IH]; intros d d' Hl Hd H.
  - cbn in H. injection H as <-. exact Hd.
  - cbn [Selectors.track_items] in H. unfold Selectors.solve_item in H.
    destruct (Selectors.sel_targets orc g (Selectors.pi_sel it)) as [nodes|e]; cbn [Selectors.bind] in H; [|discriminate].
    apply (IH _ _ (fun it' Hi => Hl it' (or_intror Hi))
              (fold_add_label_classes R _ nodes d Hd (Hl it (or_introl eq_refl))) H).
Qed.

Definition pure_map (sp : Selectors.tspec) : Prop :=
  Selectors.sp_classes sp = Selectors.CNone /\ Selectors.sp_all sp = false.

Theorem map_pure_keys_labels orc sp g I : pure_map sp ->
  Selectors.run orc sp g = Selectors.OOk I -> classes_all (fun c => In c (map_labels orc sp)) I.
Proof.
  intros [Hc Ha]. unfold Selectors.run, map_labels, map_items, pd_run.
  destruct (negb (Selectors.check_targets sp)); [discriminate|].
  destruct (Selectors.parse_smap orc _ (Selectors.sp_smap sp)) as [items|e]; [|discriminate].
  unfold Selectors.pure_mode. rewrite Hc, Ha.
  destruct items as [its|]; [|discriminate].
  destruct (Selectors.track_items orc g its []) as [d|e] eqn:E; [|discriminate].
  intros H. injection H as <-.
  apply (track_items_classes _ orc g its [] d); [|constructor | exact E].
  intros it Hit. apply in_map. exact Hit.
Qed.

Theorem map_pure_classes_labels fa c orc sp thr g ns shapes : pure_map sp ->
  run_shapes_map fa c orc sp thr g = inl (ns, shapes) ->
  forall sh, In sh shapes -> In (sh_class sh) (map_labels orc sp).
Proof.
  intros Hp H sh Hsh. destruct (map_figures fa c orc sp thr g ns shapes H) as (I & targets & HR & _ & HT & Hall).
  destruct (Hall sh Hsh) as [Hin _].
  assert (Et : targets = None).
  { unfold prof_targets in HT. destruct Hp as [Hc _]. rewrite Hc in HT. injection HT as <-. reflexivity. }
  subst targets. unfold class_keys, targets_of, pcfg_map in Hin. cbn [p_targets app] in Hin.
  rewrite uniq_first_first_occ in Hin. repeat apply (proj1 (In_first_occ _ _)) in Hin.
  apply in_concat in Hin. destruct Hin as [cs [Hcs Hcl]]. apply in_map_iff in Hcs. destruct Hcs as [[i cs'] [<- Hi]].
  pose proof (map_pure_keys_labels orc sp g I Hp HR) as HA. unfold classes_all in HA. rewrite Forall_forall in HA.
  exact (HA _ Hi _ Hcl).
Qed.

(** "labels are IRIs in corners", with an IRI rdflib accepts *)
Definition labels_cornered (orc : Selectors.oracles) (sp : Selectors.tspec) : Prop :=
  forall l, In l (map_labels orc sp) -> exists i, l = Str "<" ++ i ++ Str ">" /\ iri_printable i = true.

(** (a) with the repaired [_add_target_class] the SHACL output of a pure shape-map run exists on the
    domain on which the serialiser builds its graph for a class-based run ([C11_dom_shape]) with
    printable shape IRIs and statements: no failure is left that comes from the target class *)
Theorem map_shacl_total fa c orc sp thr g ns shapes :
  c_shacl_target_strips_corners = true -> pure_map sp -> labels_cornered orc sp ->
  run_shapes_map fa c orc sp thr g = inl (ns, shapes) ->
  forallb (C11_dom_shape ns (tau_shaper sp)) shapes = true -> forallb shape_printable shapes = true ->
  exists tr, run_shacl_map fa c orc sp thr g = inl tr /\ shacl_graph ns (tau_shaper sp) shapes = inl tr.
Proof.
  intros Hf Hp Hl Hrun Hdom Hsp.
  assert (Htp : forallb target_printable shapes = true).
  { apply forallb_forall. intros sh Hsh.
    destruct (Hl _ (map_pure_classes_labels fa c orc sp thr g ns shapes Hp Hrun sh Hsh)) as [i [Hi Hpi]].
    exact (target_printable_label sh i Hf Hi Hpi). }
  destruct (shacl_output_total ns (tau_shaper sp) shapes Hdom Hsp Htp) as [tr [Ho Hg]].
  exists tr. split; [|exact Hg]. apply map_shacl_ok_iff. exists ns, shapes. auto.
Qed.

(** ... and with the text that keeps the key, every such run that yields a shape fails in rdflib's writer *)
Theorem map_shacl_fails_old fa c orc sp thr g ns shapes :
  c_shacl_target_strips_corners = false -> pure_map sp -> labels_cornered orc sp ->
  run_shapes_map fa c orc sp thr g = inl (ns, shapes) -> shapes <> [] ->
  forallb (C11_dom_shape ns (tau_shaper sp)) shapes = true ->
  run_shacl_map fa c orc sp thr g = inr (MSShacl OException).
Proof.
  intros Hf Hp Hl Hrun Hne Hdom. destruct shapes as [|sh rest]; [contradiction|].
  destruct (Hl _ (map_pure_classes_labels fa c orc sp thr g ns _ Hp Hrun sh (or_introl eq_refl))) as [i [Hi _]].
  destruct (shacl_graph_total ns (tau_shaper sp) _ Hdom) as [cs [d [L [_ [_ [_ [Hg _]]]]]]].
  apply map_shacl_err_iff. right. exists ns, (sh :: rest), OException. split; [reflexivity|]. split; [exact Hrun|].
  apply (shacl_output_cornered_fails no_patterns ns (tau_shaper sp) (sh :: rest) sh (doc_triples 0 d) Hf (or_introl eq_refl)); [|exact Hg].
  rewrite Hi. apply cornered_corners.
Qed.

(** ** 4. S1-S3 for the SHACL graph of a shape-map run *)

(** the references of a closed profile stay resolved when ClassShexer drops the shapes without
    statements before the merges ([ShexingFix.merged_profile]) *)
Lemma drop_names_refs_closed cfg names P :
  x_shapes_ns cfg = c_SHAPES_DEFAULT_NAMESPACE ->
  profile_refs_closed P -> profile_refs_closed (drop_names cfg names P).
Proof.
  intros Hns Hp c e' k Hin Hkey Hty. unfold drop_names in Hin. apply in_map_iff in Hin.
  destruct Hin as [[c0 e] [E Hf]]. cbn [fst snd] in E. injection E as <- <-. apply filter_In in Hf. destruct Hf as [Hce _].
  destruct Hkey as (p & m & cd & Hpm & Hk).
  assert (Hold : entry_key e k /\ ~ In k names).
  { destruct Hpm as [Hpm|Hpm]; cbn [c_direct c_inverse] in Hpm;
      destruct (In_remove_keys_pdict _ _ _ _ _ _ Hpm Hk) as (m1 & A & B & Hn); (split; [|exact Hn]);
      exists p, m1, cd; auto. }
  destruct Hold as [Hek Hn]. destruct (Hp c0 e k Hce Hek Hty) as (c' & Hc' & Ek).
  exists c'. split; [|exact Ek]. rewrite dkeys_drop_names. unfold dkeys in *. apply in_map_iff in Hc'.
  destruct Hc' as [[c1 e1] [E1 H1]]. cbn [fst] in E1. subst c1. apply in_map_iff. exists (c', e1). split; [reflexivity|].
  apply filter_In. split; [exact H1|]. cbn [fst]. rewrite Hns, <- Ek. apply negb_true_iff. apply mem_str_false. exact Hn.
Qed.

Lemma clean_thr_refs_closed fa cfg thr C : x_shapes_ns cfg = c_SHAPES_DEFAULT_NAMESPACE ->
  forall fuel P, profile_refs_closed P -> profile_refs_closed (clean_thr fa cfg fuel thr C P).
Proof.
  intros Hns. induction fuel as [|f IH]; intros P Hp; [exact Hp|]. cbn [clean_thr].
  destruct (gone_names fa cfg thr C P) as [|nm names]; [exact Hp|]. apply IH. apply drop_names_refs_closed; assumption.
Qed.

Theorem shex_cur_refs_closed fa cfg thr P C shapes :
  profile_refs_closed P -> x_shapes_ns cfg = c_SHAPES_DEFAULT_NAMESPACE ->
  shex_cur fa cfg thr P C = inl shapes -> refs_closed shapes.
Proof.
  intros Hp Hns. unfold shex_cur. destruct c_clean_before_merge.
  - unfold shex_f. apply shex_refs_closed; [|exact Hns].
    unfold merged_profile. destruct (x_remove_empty cfg); [apply clean_thr_refs_closed; assumption | exact Hp].
  - apply shex_refs_closed; assumption.
Qed.

(** the references of a shape-map run resolve when those of its class profile do *)
Theorem map_refs_closed fa c orc sp thr g ns shapes :
  run_shapes_map fa c orc sp thr g = inl (ns, shapes) ->
  (forall I targets P C ID, Selectors.run orc sp g = Selectors.OOk I -> prof_targets orc sp = Selectors.Ok targets ->
     profile (pcfg_map c orc sp targets) I g = inl (P, C, ID) -> profile_refs_closed P) ->
  refs_closed shapes.
Proof.
  intros H Hp. apply run_shapes_map_decompose in H. destruct H as (I & targets & P & C & ID & -> & HR & _ & HT & HP & HS).
  exact (shex_cur_refs_closed fa (scfg_map c sp (Selectors.ns_with_shapes orc sp)) thr P C shapes
           (Hp I targets P C ID HR HT HP) eq_refl HS).
Qed.

(** S1-S3: whatever the shape map, the options and the text of [_add_target_class] *)
Theorem map_shacl_graph fa c orc sp thr g ns shapes tr L :
  run_shapes_map fa c orc sp thr g = inl (ns, shapes) ->
  shacl_graph ns (tau_shaper sp) shapes = inl tr -> names_iris_by target_class_obj shapes L ->
  (refs_closed shapes -> node_objects_declared tr (map fst L)) /\ property_shapes_one_path tr /\
  (forall n, node_shape tr n <-> exists u cl, In (u, cl) L /\ n = TIri u) /\
  (NoDup (map fst L) -> node_shapes_exact tr L).
Proof.
  intros _ Hg HL.
  split; [exact (shacl_gen_node_objects_declared_by _ _ _ _ _ _ _ Hg HL)|].
  split; [exact (shacl_gen_one_path _ _ _ _ _ Hg)|].
  split; [exact (shacl_gen_node_shapes_iff_by _ _ _ _ _ _ _ Hg HL)|].
  exact (shacl_gen_node_shapes_exact_by _ _ _ _ _ _ Hg HL).
Qed.

(** *** the pure shape-map run with labels [<iri>]: the node shape of a label is the label's IRI, and
    so is its target once [_add_target_class] removes the corners *)
Definition label_pairs (shapes : list shape) : list (str * str) :=
  map (fun sh => (remove_corners_lenient (sh_class sh), remove_corners_lenient (sh_class sh))) shapes.

Lemma shape_name_label sns i : shape_name sns (Str "<" ++ i ++ Str ">") = Str "%<" ++ i ++ Str ">".
Proof.
  unfold shape_name. replace (prefixb (Str "@") (Str "<" ++ i ++ Str ">")) with false by reflexivity.
  fold (cornered (Str "<" ++ i ++ Str ">")). rewrite cornered_corners. reflexivity.
Qed.

Lemma add_corners_inj a b : Str "<" ++ a ++ Str ">" = Str "<" ++ b ++ Str ">" -> a = b.
Proof. intros H. injection H as H. apply app_inv_tail in H. exact H. Qed.

Theorem map_pure_names fa c orc sp thr g ns shapes :
  c_shacl_target_strips_corners = true -> pure_map sp -> labels_cornered orc sp ->
  run_shapes_map fa c orc sp thr g = inl (ns, shapes) ->
  names_iris_by target_class_obj shapes (label_pairs shapes) /\ NoDup (map fst (label_pairs shapes)).
Proof.
  intros Hf Hp Hl Hrun.
  pose proof (map_pure_classes_labels fa c orc sp thr g ns shapes Hp Hrun) as Hlab.
  destruct (map_figures fa c orc sp thr g ns shapes Hrun) as (I & targets & _ & _ & _ & Hall).
  destruct (map_header fa c orc sp thr g ns shapes Hrun) as (_ & _ & _ & _ & Hnd & _).
  assert (Hform : forall sh, In sh shapes -> exists i, sh_class sh = Str "<" ++ i ++ Str ">" /\
                                                      sh_name sh = Str "%<" ++ i ++ Str ">").
  { intros sh Hsh. destruct (Hl _ (Hlab sh Hsh)) as [i [Hi _]]. exists i. split; [exact Hi|].
    destruct (Hall sh Hsh) as (_ & Hn & _). rewrite Hn, Hi. apply shape_name_label. }
  clear Hall Hlab. unfold label_pairs. split.
  - clear Hnd Hrun. induction shapes as [|sh shapes IH]; [constructor|]. cbn [map]. constructor.
    + destruct (Hform sh (or_introl eq_refl)) as [i [Hc Hn]]. cbn [fst snd].
      rewrite Hc, remove_corners_lenient_corners, (target_class_obj_new i Hf). auto.
    + apply IH. intros sh' Hin. apply Hform. right. exact Hin.
  - rewrite map_map. cbn [fst].
    assert (E : map sh_class shapes = map (fun sh => Str "<" ++ remove_corners_lenient (sh_class sh) ++ Str ">") shapes).
    { apply map_ext_in. intros sh Hsh. destruct (Hform sh Hsh) as [i [Hc _]]. rewrite Hc, remove_corners_lenient_corners. reflexivity. }
    rewrite E in Hnd. rewrite <- (map_map (fun sh => remove_corners_lenient (sh_class sh)) (fun i => Str "<" ++ i ++ Str ">")) in Hnd.
    apply NoDup_map_inv in Hnd. exact Hnd.
Qed.

Theorem map_pure_shacl_wellformed fa c orc sp thr g ns shapes tr :
  c_shacl_target_strips_corners = true -> pure_map sp -> labels_cornered orc sp ->
  run_shapes_map fa c orc sp thr g = inl (ns, shapes) ->
  shacl_graph ns (tau_shaper sp) shapes = inl tr ->
  (refs_closed shapes -> node_objects_declared tr (map fst (label_pairs shapes))) /\
  property_shapes_one_path tr /\ node_shapes_exact tr (label_pairs shapes).
Proof.
  intros Hf Hp Hl Hrun Hg. destruct (map_pure_names fa c orc sp thr g ns shapes Hf Hp Hl Hrun) as [HL Hnd].
  destruct (map_shacl_graph fa c orc sp thr g ns shapes tr _ Hrun Hg HL) as (H1 & H2 & _ & H4). auto.
Qed.

(** *** the references of the class profile resolve when every key of the instance dictionary is one
    of the "original target nodes" the profile cleaning never removes ([Profiler.orig_labels]: the
    labels of the shape map) -- the counterpart of [ShaclDocRun.run_profile_refs_closed] *)
Theorem profile_refs_closed_labels pc ins g P C ID :
  NoDup (dkeys ins) -> forallb (sentinel_free (p_tau pc)) g = true ->
  classes_all (fun c => In c (orig_labels pc)) ins ->
  profile pc ins g = inl (P, C, ID) -> profile_refs_closed P.
Proof.
  intros ND Hfree Hlab Hp.
  rewrite profile_result in Hp.
  destruct (annotate_all (p_tau pc) (p_inverse pc) g (adapt ins)) as [ID'|err] eqn:HA; [|discriminate].
  destruct (raw_profile pc ins ID') as [P1 C0] eqn:HR.
  injection Hp as HP _ _.
  set (ks := if p_remove_empty pc then shapes_to_remove (p_inverse pc) (orig_labels pc) P1 else []).
  assert (EP : P = remove_iteration ks P1).
  { unfold ks. destruct (p_remove_empty pc); [symmetry; exact HP|]. rewrite remove_iteration_nil. symmetry. exact HP. }
  clear HP.
  destruct (profile_counts_char pc ins g ID' P1 C0 ND HA HR) as (KP1 & _ & NDP1 & _ & HB).
  pose proof (profile_entries_char pc ins g ID' P1 C0 ND HA HR) as HE.
  intros c0 e k Hce (p & m & cd & Hpm & Hk) Hty.
  rewrite EP in Hce. apply In_remove_iteration in Hce. destruct Hce as (e1 & Hce1 & -> & Hc0).
  pose proof (In_dget_NoDup P1 c0 e1 NDP1 Hce1) as Hget.
  destruct (HE c0 e1 Hget) as (W & HD & _ & HI).
  destruct W as (_ & W2 & _ & W4).
  assert (Hocc : exists dir card, (0 < occ dir (p_tau pc) ins g c0 p k card)%N).
  { destruct Hpm as [Hpm|Hpm]; cbn [clean_entry c_direct c_inverse] in Hpm;
      destruct (In_remove_keys_pdict _ _ _ _ _ _ Hpm Hk) as (m1 & Hp1 & Hk1 & _).
    - unfold pdict_ne in W2. rewrite Forall_forall in W2. destruct (W2 _ Hp1) as [_ Wm]. cbn [snd] in Wm.
      rewrite Forall_forall in Wm. pose proof (Wm _ Hk1) as Wc. cbn [snd] in Wc.
      destruct cd as [|[card n] cd']; [contradiction|].
      destruct (HD p m1 k _ card n Hp1 Hk1 (or_introl eq_refl)) as [-> Hpos]. exists Direct, card. exact Hpos.
    - destruct (p_inverse pc) eqn:Einv.
      + destruct (HI eq_refl) as [HIa _].
        unfold pdict_ne in W4. rewrite Forall_forall in W4. destruct (W4 _ Hp1) as [_ Wm]. cbn [snd] in Wm.
        rewrite Forall_forall in Wm. pose proof (Wm _ Hk1) as Wc. cbn [snd] in Wc.
        destruct cd as [|[card n] cd']; [contradiction|].
        destruct (HIa p m1 k _ card n Hp1 Hk1 (or_introl eq_refl)) as [-> Hpos]. exists Inverse, card. exact Hpos.
      + destruct (HB c0 e1 Hget) as (_ & _ & RI). rewrite RI in Hp1. destruct Hp1. }
  destruct Hocc as (dir & card & Hpos).
  destruct (proj1 (occ_pos_iff dir (p_tau pc) ins g c0 p k) (ex_intro _ card Hpos)) as (i & cs & _ & _ & Hc).
  unfold cnt in Hc. apply sumN_pos_ex in Hc. destruct Hc as [x [Hx Hx0]].
  apply in_map_iff in Hx. destruct Hx as [t [<- Htg]].
  rewrite count_in_count_str in Hx0. apply count_str_pos in Hx0.
  rewrite forallb_forall in Hfree.
  destruct (contrib_shape_key dir _ ins t i p k (Hfree t Htg) Hx0 Hty) as [id Hl].
  unfold shape_labels in Hl. apply in_map_iff in Hl. destruct Hl as [c' [<- Hc']].
  exists c'. split; [|reflexivity].
  unfold classes_of in Hc'. destruct (dget ins id) as [cs'|] eqn:Eid; [|destruct Hc'].
  apply dget_In in Eid.
  assert (Hconc : In c' (List.concat (map snd ins))).
  { apply in_concat. exists cs'. split; [|exact Hc']. apply in_map_iff. exists (id, cs'). split; [reflexivity | exact Eid]. }
  assert (Hck : In c' (dkeys P1)).
  { rewrite KP1. unfold class_keys. rewrite uniq_first_first_occ. apply In_first_occ. apply in_or_app. right. exact Hconc. }
  rewrite EP, dkeys_remove_iteration. apply filter_In. split; [exact Hck|].
  unfold not_in. apply negb_true_iff. apply mem_str_false. intros Hks.
  unfold ks in Hks. destruct (p_remove_empty pc); [|destruct Hks].
  apply In_shapes_to_remove in Hks. destruct Hks as (e' & _ & Hnl & _). apply Hnl.
  unfold classes_all in Hlab. rewrite Forall_forall in Hlab. exact (Hlab _ Eid _ Hc').
Qed.

Theorem map_pure_profile_refs_closed c orc sp g I targets P C ID :
  pure_map sp -> forallb (sentinel_free (Selectors.tau_of sp)) g = true ->
  Selectors.run orc sp g = Selectors.OOk I -> prof_targets orc sp = Selectors.Ok targets ->
  profile (pcfg_map c orc sp targets) I g = inl (P, C, ID) -> profile_refs_closed P.
Proof.
  intros Hp Hfree HR HT HP.
  apply (profile_refs_closed_labels (pcfg_map c orc sp targets) I g P C ID (run_keys_nodup _ _ _ _ HR) Hfree); [|exact HP].
  pose proof (map_pure_keys_labels orc sp g I Hp HR) as HA. unfold classes_all in *. rewrite Forall_forall in *.
  intros ie Hie cl Hcl. unfold orig_labels, pcfg_map. cbn [p_map_labels]. apply in_or_app. right. exact (HA ie Hie cl Hcl).
Qed.

(** S1 for the pure shape-map run, from the input alone *)
Theorem map_pure_refs_closed fa c orc sp thr g ns shapes :
  pure_map sp -> forallb (sentinel_free (Selectors.tau_of sp)) g = true ->
  run_shapes_map fa c orc sp thr g = inl (ns, shapes) -> refs_closed shapes.
Proof.
  intros Hp Hfree H. apply (map_refs_closed fa c orc sp thr g ns shapes H).
  intros I targets P C ID HR HT HP. exact (map_pure_profile_refs_closed c orc sp g I targets P C ID Hp Hfree HR HT HP).
Qed.

Theorem map_pure_shacl_run fa c orc sp thr g ns shapes tr :
  c_shacl_target_strips_corners = true -> pure_map sp -> labels_cornered orc sp ->
  forallb (sentinel_free (Selectors.tau_of sp)) g = true ->
  run_shapes_map fa c orc sp thr g = inl (ns, shapes) ->
  shacl_graph ns (tau_shaper sp) shapes = inl tr ->
  node_objects_declared tr (map fst (label_pairs shapes)) /\
  property_shapes_one_path tr /\ node_shapes_exact tr (label_pairs shapes).
Proof.
  intros Hf Hp Hl Hfree Hrun Hg.
  destruct (map_pure_shacl_wellformed fa c orc sp thr g ns shapes tr Hf Hp Hl Hrun Hg) as (H1 & H2 & H3).
  split; [exact (H1 (map_pure_refs_closed fa c orc sp thr g ns shapes Hp Hfree Hrun))|]. auto.
Qed.

(** ** 5. disjunctions (finding C04-F3): a shape list holding a choice statement is never serialised --
    [st_type] of a FixedPropChoiceStatement raises TypeError in [_add_node_type] / [_add_in_instance]
    (an earlier statement or helper may raise first) *)
Theorem shacl_graph_choice_fails z ns tau shapes sh st :
  In sh shapes -> In st (sh_stmts sh) -> s_choice st = true ->
  forall g, shacl_graph_gen z ns tau shapes <> inl g.
Proof.
  intros Hsh Hst Hch g. unfold shacl_graph_gen. destruct (doc_nodes z tau shapes) as [d|e] eqn:Ed; [|discriminate].
  intros _. pose proof (doc_nodes_form _ _ _ _ Ed) as HF.
  apply In_nth_error in Hsh. destruct Hsh as [i Hi].
  destruct (Forall2_nth_l _ _ _ HF i sh Hi) as [n [_ [_ [pat [ps [_ [_ Hps]]]]]]].
  apply In_nth_error in Hst. destruct Hst as [j Hj].
  destruct (Forall2_nth_l _ _ _ Hps j st Hj) as [p [_ [parcs [Ha _]]]].
  exact (shacl_arcs_choice_not_ok tau st parcs Hch Ha).
Qed.

(** a shape whose first statement is a disjunction on a property other than the instantiation
    property: the exception is TypeError *)
Theorem shacl_graph_choice_type_error z ns tau sh st rest_st rest :
  generate_shape_uri (sh_name sh) <> None ->
  (d_detect z = true -> exists o, d_pat z (sh_class sh) = Some o) ->
  sh_stmts sh = st :: rest_st -> s_choice st = true -> str_eqb (s_prop st) tau = false ->
  shacl_graph_gen z ns tau (sh :: rest) = inr GTypeError.
Proof.
  intros Hu Hpat Hs Hch Hp. unfold shacl_graph_gen. cbn [doc_nodes]. rewrite shape_node_eq.
  destruct (generate_shape_uri (sh_name sh)) as [u|]; [|contradiction].
  assert (E : of_vres (vres_all (map (shacl_view tau) (sh_stmts sh))) = inr GTypeError).
  { rewrite Hs. cbn [map vres_all]. unfold shacl_view at 1. rewrite (shacl_arcs_choice tau st Hch), Hp. reflexivity. }
  rewrite E. destruct (d_detect z); [|reflexivity].
  destruct (Hpat eq_refl) as [o Ho]. rewrite Ho. destruct o; reflexivity.
Qed.
