(** * The frequency-algebra laws used by Proofs/ShexKeys.v, for the exact
    rationals [QAlg] (so that the examples of Props/ShexStage.v are closed).
    [okF] = positive denominator, [okN] = positive class size. *)
From Coq Require Import ZArith NArith Bool Lia.
From Shexer Require Import Lib.Bin64 Model.Freq Model.FreqInst.
Local Open Scope Z_scope.

Definition q_okF (x : F QAlg) : Prop := 0 < snd x.
Definition q_okN (n : N) : Prop := (0 < n)%N.

Lemma q_ratio_ok n N : q_okN N -> q_okF (ratio QAlg n N).
Proof. unfold q_okN, q_okF; cbn. lia. Qed.

Lemma q_fle_trans (a b c : F QAlg) :
  q_okF a -> q_okF b -> q_okF c -> fle QAlg a b = true -> fle QAlg b c = true -> fle QAlg a c = true.
Proof.
  destruct a as [a1 a2], b as [b1 b2], c as [c1 c2]. unfold q_okF; cbn. rewrite !Z.leb_le. intros Ha Hb Hc H1 H2.
  apply (Z.mul_le_mono_pos_r _ _ b2 Hb).
  assert (a1 * c2 * b2 = a1 * b2 * c2) by ring. assert (c1 * a2 * b2 = c1 * b2 * a2) by ring.
  rewrite H, H0. apply Z.le_trans with (b1 * a2 * c2).
  - apply Z.mul_le_mono_nonneg_r; lia.
  - assert (b1 * a2 * c2 = b1 * c2 * a2) by ring. rewrite H3. apply Z.mul_le_mono_nonneg_r; lia.
Qed.

Lemma q_fle_total (a b : F QAlg) : q_okF a -> q_okF b -> fle QAlg a b = true \/ fle QAlg b a = true.
Proof. destruct a, b; cbn. rewrite !Z.leb_le. lia. Qed.

Lemma q_ratio_mono n1 n2 N : q_okN N -> (n1 <= n2)%N -> fle QAlg (ratio QAlg n1 N) (ratio QAlg n2 N) = true.
Proof. unfold q_okN; cbn. rewrite Z.leb_le. intros. apply Z.mul_le_mono_nonneg_r; lia. Qed.

Lemma q_feq_inj n1 n2 N : q_okN N -> (n1 <= N)%N -> (n2 <= N)%N ->
  feqb QAlg (ratio QAlg n1 N) (ratio QAlg n2 N) = true -> n1 = n2.
Proof.
  unfold q_okN; cbn. rewrite Z.eqb_eq. intros HN _ _ H.
  apply Z.mul_reg_r in H; lia.
Qed.
