(** * The API state machine of [Model/ShaperApi.v] instantiated with the CONCRETE
    extraction pipeline ([Model/Tracker.v], [Model/Profiler.v], [Model/Shexing.v],
    [Model/SerialShexc.v]), and the theorem that every ShExC call of every
    well-formed history computes [Run.run_shexc] of its own arguments.

    Instantiation (what is concrete and what is left abstract):

    - constructor arguments [cargs] = a run configuration [rcfg] (all options of
      [Run.v]; its field [r_ns] is NOT read: the namespaces dictionary is the
      separate [dict_arg] of the constructor call) and the graph (the input is a
      constructor argument of [Shaper]);
    - tracker        := [Tracker.track]            (does not read the dictionary)
    - reader pass    := identity on the dictionary (line readers: the graph is a
                        list of triples; only rdflib inputs add prefixes)
    - profiler       := [Profiler.profile]
    - shexing        := [Shexing.shex fa]  ([fa] arbitrary; [Props/C18.v] takes [BAlg])
    - ShExC lines    := [SerialShexc.render_lines]
    - examples_mode  := off ([a_examples = None], [st_add_examples] = identity)
    - SHACL text, profile text, the random oracle, its fuel and the threshold
      test [thr_eqb] stay ABSTRACT (Section variables, universally quantified
      in the theorems; [thr_eqb] must only answer "equal" for equal thresholds).

    Exceptions.  [ShaperApi]'s stage functions are total and its sink returns a
    text; a stage that raises is represented by an error VALUE carried through
    the later stages and delivered as the one-line text [err_text e] = byte 0
    followed by a tag.  No rendering starts with byte 0 ([render_first_char]),
    so [decode] recovers the [str + rerr] result exactly ([result_of_deliver]). *)
From Coq Require Import List Ascii String ZArith NArith Bool Arith Lia.
From Shexer Require Import Lib.PyStr Lib.Dict Gen.Consts Spec.Rdf Model.Config Model.Determinism
     Model.Tracker Model.Profiler Model.Tokens Model.Freq Model.Shexing Model.SerialShexc Model.Run
     Model.ShaperApi Spec.ApiSpec Proofs.ApiProofs Proofs.ShexBasics Proofs.OptionLemmas.
Import ListNotations.

(** ** constructor arguments and the run configuration they denote *)
Record cargs := mkCargs { ca_cfg : rcfg; ca_graph : graph }.

(** the run configuration of a Shaper built from [a] and the dictionary VALUE [d] *)
Definition cfg_of (a : cargs) (d : nsd) : rcfg := with_rns d (ca_cfg a).

Definition zcfg_of (c : rcfg) (d : nsdict) : sercfg :=
  {| z_ns := d; z_tau := r_tau c; z_disable_comments := r_disable_comments c; z_mode := r_mode c |}.

(** ** errors as texts *)
Definition zero_char : ascii := ascii_of_nat 0.

Definition err_text (e : rerr) : str :=
  zero_char :: match e with
               | REAttr => Str "A" | REType => Str "T" | REValue => Str "V"
               | REZeroDiv => Str "Z" | RERandom => Str "R"
               end.

Definition encode (r : str + rerr) : str :=
  match r with inl t => t | inr e => err_text e end.

Definition decode (s : str) : str + rerr :=
  match s with
  | c :: rest =>
    if Ascii.eqb c zero_char then
      if str_eqb rest (Str "A") then inr REAttr
      else if str_eqb rest (Str "T") then inr REType
      else if str_eqb rest (Str "V") then inr REValue
      else if str_eqb rest (Str "Z") then inr REZeroDiv
      else if str_eqb rest (Str "R") then inr RERandom
      else inl s
    else inl s
  | [] => inl []
  end.

(** what a call hands to its caller: the text on the channel; the random
    fallback of the constructor (excluded from the domain) shows as a hang *)
Definition deliver (k : sink_kind) (r : str + rerr) : outcome :=
  match r with
  | inr RERandom => OHang
  | _ => on_channel k (Some (encode r))
  end.

Definition outcome_text (o : outcome) : option str :=
  match o with OText s | OFile s => Some s | _ => None end.

Definition result_of (o : outcome) : option (str + rerr) :=
  match o with
  | OText s | OFile s => Some (decode s)
  | OHang => Some (inr RERandom)
  | _ => None
  end.

Lemma decode_err e : decode (err_text e) = inr e.
Proof. destruct e; reflexivity. Qed.

Lemma decode_text c s : c <> zero_char -> decode (c :: s) = inl (c :: s).
Proof.
  intros H. unfold decode. destruct (Ascii.eqb c zero_char) eqn:E; [|reflexivity].
  apply Ascii.eqb_eq in E. contradiction.
Qed.

(** a rendering is never empty and never starts with byte 0 *)
Lemma render_first_char z l t :
  render z l = Some t -> exists c s, t = c :: s /\ c <> zero_char.
Proof.
  unfold render, render_lines. destruct (shapes_lines z l) as [ls|]; [|discriminate].
  intros H. inversion H; subst t; clear H. unfold prefix_lines.
  destruct (z_ns z) as [|[n p] ns]; cbn.
  - eexists _, _. split; [reflexivity|]. intros E; discriminate E.
  - eexists _, _. split; [reflexivity|]. intros E; discriminate E.
Qed.

Section Pipeline.
  Variable fa : FreqAlg.

  (** ** the concrete stages, with ShaperApi's signatures *)
  Definition ctcd := (insts + terr)%type.
  Definition cprof := ((cprofile * ccounts) + rerr)%type.
  Definition cshapes := (list shape + rerr)%type.

  Definition a_ns (a : cargs) : str := r_shapes_ns (ca_cfg a).
  Definition a_ex (a : cargs) : option str := None.

  Definition cs_track (a : cargs) (_ : nsd) : ctcd :=
    Tracker.track (r_tau (ca_cfg a))
                  (match r_targets (ca_cfg a) with Some l => TClasses l | None => TAll end)
                  (r_cap (ca_cfg a)) (ca_graph a).

  Definition cs_reader_ns (a : cargs) (d : nsd) : nsd := d.

  Definition cs_profile (a : cargs) (_ : nsd) (tc : ctcd) : cprof :=
    match tc with
    | inr _ => inr REAttr
    | inl ins =>
      match Profiler.profile (pcfg_of (ca_cfg a)) ins (ca_graph a) with
      | inr PEAttr => inr REAttr
      | inr PEType => inr REType
      | inl (P, C, _) => inl (P, C)
      end
    end.

  Definition cs_shex (a : cargs) (d : nsd) (pr : cprof) (t : F fa) : cshapes :=
    match pr with
    | inr e => inr e
    | inl (P, C) =>
      match shex fa (scfg_of (ca_cfg a) d) t P C with
      | inr e => inr (rerr_of_s e)
      | inl l => inl l
      end
    end.

  Definition cs_add_examples (a : cargs) (d : nsd) (s : cshapes) : cshapes := s.

  (** [render_lines] with the error outcomes kept *)
  Definition cs_lines_res (a : cargs) (d : nsd) (s : cshapes) : list str + rerr :=
    match s with
    | inr e => inr e
    | inl l =>
      match render_lines (zcfg_of (ca_cfg a) d) l with
      | Some ls => inl ls
      | None => inr REValue
      end
    end.

  (** ... and as ShaperApi wants it: a list of lines (an error is one reserved line) *)
  Definition cs_lines (a : cargs) (d : nsd) (s : cshapes) : list str :=
    match cs_lines_res a d s with inl ls => ls | inr e => [err_text e] end.

  (** ** [run_shexc] is the composition of exactly these stage functions *)
  Lemma run_shexc_stages a d t :
    run_shexc fa (cfg_of a d) t (ca_graph a) =
    match full_ns (cfg_of a d) with
    | None => inr RERandom
    | Some d1 =>
      map_res (@List.concat ascii)
              (cs_lines_res a d1 (cs_shex a d1 (cs_profile a d1 (cs_track a d1)) t))
    end.
  Proof.
    unfold run_shexc, run_shapes, cs_lines_res, cs_shex, cs_profile, cs_track, render, zcfg_of.
    destruct (full_ns (cfg_of a d)) as [d1|]; [|reflexivity].
    change (r_tau (cfg_of a d)) with (r_tau (ca_cfg a)).
    change (r_targets (cfg_of a d)) with (r_targets (ca_cfg a)).
    change (r_cap (cfg_of a d)) with (r_cap (ca_cfg a)).
    change (pcfg_of (cfg_of a d)) with (pcfg_of (ca_cfg a)).
    change (scfg_of (cfg_of a d) d1) with (scfg_of (ca_cfg a) d1).
    change (r_disable_comments (cfg_of a d)) with (r_disable_comments (ca_cfg a)).
    change (r_mode (cfg_of a d)) with (r_mode (ca_cfg a)).
    destruct (Tracker.track _ _ _ _) as [ins|e]; [|reflexivity].
    destruct (Profiler.profile _ ins _) as [[[P C] I']|[|]]; try reflexivity.
    destruct (shex fa _ t P C) as [l|e]; [|reflexivity].
    destruct (render_lines _ l) as [ls|]; reflexivity.
  Qed.

  (** the random-prefix error is raised by the constructor only *)
  Lemma stages_not_random a d1 t :
    cs_lines_res a d1 (cs_shex a d1 (cs_profile a d1 (cs_track a d1)) t) <> inr RERandom.
  Proof.
    unfold cs_lines_res, cs_shex, cs_profile.
    destruct (cs_track a d1) as [ins|e]; [|discriminate].
    destruct (Profiler.profile _ ins _) as [[[P C] I']|[|]]; try discriminate.
    destruct (shex fa _ t P C) as [l|e]; [|destruct e; discriminate].
    destruct (render_lines _ l); discriminate.
  Qed.

  (** ** glue: the constructor's dictionary is [Run.full_ns] *)
  Lemma first_free_find cands vals :
    first_free cands vals = List.find (fun p => negb (mem_str p vals)) cands.
  Proof.
    induction cands as [|c cs IH]; [reflexivity|]. cbn.
    destruct (mem_str c vals); cbn; auto.
  Qed.

  Lemma shapes_prefix_first_free (d : nsd) :
    shapes_prefix d = first_free c_PRIORITY_PREFIXES_FOR_SHAPES (values d).
  Proof. unfold shapes_prefix, values. now rewrite first_free_find. Qed.

  Lemma full_ns_cfg_of a d :
    full_ns (cfg_of a d) =
    match first_free c_PRIORITY_PREFIXES_FOR_SHAPES (values d) with
    | Some p => Some (dset d (a_ns a) p)
    | None => None
    end.
  Proof.
    unfold full_ns. change (r_ns (cfg_of a d)) with d.
    change (r_shapes_ns (cfg_of a d)) with (a_ns a).
    now rewrite shapes_prefix_first_free.
  Qed.

  Variable st_shacl_text : cargs -> nsd -> cshapes -> str.     (* abstract *)
  Variable st_profile_text : cprof -> str.                      (* abstract *)
  Variable rand : nat -> str.                                   (* abstract *)
  Variable fuel : nat.
  Variable thr_eqb : F fa -> F fa -> bool.
  Hypothesis thr_eqb_eq : forall x y, thr_eqb x y = true -> x = y.

  Lemma ctor_dict_full_ns a d :
    prio_free d = true ->
    ctor_dict cargs a_ns rand fuel a d = full_ns (cfg_of a d).
  Proof.
    unfold prio_free, ctor_dict, find_prefix. rewrite full_ns_cfg_of.
    destruct (first_free _ _) as [p|]; [reflexivity | discriminate].
  Qed.

  Notation opC := (op cargs (F fa)).
  Notation runC := (run cargs ctcd cprof cshapes (F fa) a_ns a_ex cs_track cs_reader_ns cs_profile cs_shex
                        cs_add_examples cs_lines st_shacl_text st_profile_text rand fuel thr_eqb).
  Notation specC := (spec cargs ctcd cprof cshapes (F fa) a_ns a_ex cs_track cs_reader_ns cs_profile cs_shex
                          cs_add_examples cs_lines st_shacl_text st_profile_text rand fuel).
  Notation spec_fromC := (spec_from cargs ctcd cprof cshapes (F fa) a_ns a_ex cs_track cs_reader_ns cs_profile
                                    cs_shex cs_add_examples cs_lines st_shacl_text st_profile_text rand fuel).
  Notation pure_shexC := (pure_shex cargs ctcd cprof cshapes (F fa) a_ns a_ex cs_track cs_reader_ns cs_profile
                                    cs_shex cs_add_examples cs_lines st_shacl_text rand fuel).

  (** the machine, instantiated *)
  Definition run_conc (h : list opC) : list outcome := runC h.

  (** ** one fresh call = [run_shexc] *)
  Lemma pure_shex_is_run_shexc a d t k :
    prio_free d = true ->
    on_channel k (pure_shexC a d t ShExC) = deliver k (run_shexc fa (cfg_of a d) t (ca_graph a)).
  Proof.
    intros Hp. unfold pure_shex, pure_stages. rewrite (ctor_dict_full_ns a d Hp).
    rewrite run_shexc_stages.
    destruct (full_ns (cfg_of a d)) as [d1|]; [|reflexivity].
    unfold cs_reader_ns, a_ex, cs_add_examples.
    replace (mem_opt_str None c18_examples_modes_mutating) with false by reflexivity.
    unfold cs_lines.
    destruct (cs_lines_res a d1 _) as [ls|e] eqn:Hres; cbn [map_res].
    - reflexivity.
    - assert (E : List.concat [err_text e] = err_text e) by (unfold List.concat; apply app_nil_r).
      rewrite E.
      assert (Hne : e <> RERandom) by (intros ->; exact (stages_not_random a d1 t Hres)).
      destruct e; try reflexivity. contradiction.
  Qed.

  (** ** histories *)

  (** the Shapers a history creates, in order: constructor arguments and the VALUE of the
      dictionary argument ([origs] = the caller's dictionary objects so far) *)
  Fixpoint ctors_from (origs : list nsd) (h : list opC) : list (cargs * nsd) :=
    match h with
    | [] => []
    | New a da :: h' =>
      match dict_value origs da with
      | Some d => (a, d) :: ctors_from (match da with DShared _ => origs | _ => origs ++ [d] end) h'
      | None => ctors_from origs h'
      end
    | _ :: h' => ctors_from origs h'
    end.

  Definition shapers_of (h : list opC) : list (cargs * nsd) := ctors_from [] h.

  Lemma length_snoc {A} (l : list A) x : List.length (l ++ [x]) = S (List.length l).
  Proof. rewrite app_length. cbn. lia. Qed.

  Lemma Forall_snoc {A} (P : A -> Prop) l x : Forall P l -> P x -> Forall P (l ++ [x]).
  Proof. intros H1 H2. apply Forall_app. split; [exact H1 | constructor; [exact H2 | constructor]]. Qed.

  Lemma spec_from_shexc h : forall origs ctors,
    wf_from cargs (F fa) origs (List.length ctors) h = true ->
    Forall (fun ad : cargs * nsd => prio_free (snd ad) = true) ctors ->
    forall n i k t, nth_error h n = Some (Shex i ShExC k t) ->
    exists a d, nth_error (ctors ++ ctors_from origs h) i = Some (a, d) /\
                nth_error (spec_fromC origs ctors h) n
                = Some (deliver k (run_shexc fa (cfg_of a d) t (ca_graph a))).
  Proof.
    induction h as [|o h IH]; intros origs ctors Hwf Hall n i k t Hn; [destruct n; discriminate|].
    destruct n as [|n].
    - cbn in Hn. inversion Hn; subst o; clear Hn.
      cbn [wf_from] in Hwf. apply andb_true_iff in Hwf as [Hi _]. apply Nat.ltb_lt in Hi.
      destruct (nth_error ctors i) as [[a d]|] eqn:Hc; [|apply nth_error_None in Hc; lia].
      exists a, d. split; [rewrite nth_error_app1 by lia; exact Hc|].
      cbn [spec_from nth_error]. rewrite Hc. f_equal.
      apply pure_shex_is_run_shexc.
      rewrite Forall_forall in Hall. exact (Hall (a, d) (nth_error_In _ _ Hc)).
    - cbn [nth_error] in Hn.
      destruct o as [a da | j f k' t' | j k']; cbn [wf_from] in Hwf.
      + cbn [spec_from ctors_from].
        destruct da as [|d|j].
        * cbn [dict_value]. apply andb_true_iff in Hwf as [Hp Hwf].
          rewrite <- (length_snoc ctors (a, @nil (str * str))) in Hwf.
          destruct (IH _ _ Hwf (Forall_snoc _ ctors (a, _) Hall Hp) n i k t Hn)
            as (a' & d' & H1 & H2).
          exists a', d'. rewrite <- app_assoc in H1. split; [exact H1 | exact H2].
        * cbn [dict_value]. apply andb_true_iff in Hwf as [Hp Hwf].
          rewrite <- (length_snoc ctors (a, d)) in Hwf.
          destruct (IH _ _ Hwf (Forall_snoc _ ctors (a, _) Hall Hp) n i k t Hn)
            as (a' & d' & H1 & H2).
          exists a', d'. rewrite <- app_assoc in H1. split; [exact H1 | exact H2].
        * cbn [dict_value]. destruct (nth_error origs j) as [d|]; [|discriminate].
          apply andb_true_iff in Hwf as [Hp Hwf].
          rewrite <- (length_snoc ctors (a, d)) in Hwf.
          destruct (IH _ _ Hwf (Forall_snoc _ ctors (a, _) Hall Hp) n i k t Hn)
            as (a' & d' & H1 & H2).
          exists a', d'. rewrite <- app_assoc in H1. split; [exact H1 | exact H2].
      + apply andb_true_iff in Hwf as [_ Hwf]. cbn [spec_from ctors_from nth_error].
        exact (IH _ _ Hwf Hall n i k t Hn).
      + apply andb_true_iff in Hwf as [_ Hwf]. cbn [spec_from ctors_from nth_error].
        exact (IH _ _ Hwf Hall n i k t Hn).
  Qed.

  (** every ShExC call of every well-formed history (any length, any number of Shapers, shared
      dictionaries, SHACL / profile calls in between) returns / writes [run_shexc] of its own
      threshold and of the constructor arguments of its Shaper *)
  Theorem shex_calls_are_run_shexc h :
    C18_dom cargs (F fa) h = true ->
    forall n i k t, nth_error h n = Some (Shex i ShExC k t) ->
    exists a d, nth_error (shapers_of h) i = Some (a, d) /\
                nth_error (run_conc h) n
                = Some (deliver k (run_shexc fa (cfg_of a d) t (ca_graph a))).
  Proof.
    intros Hd n i k t Hn. unfold run_conc.
    rewrite (history_pure cargs ctcd cprof cshapes (F fa) a_ns a_ex cs_track cs_reader_ns cs_profile cs_shex
                          cs_add_examples cs_lines st_shacl_text st_profile_text rand fuel thr_eqb thr_eqb_eq
                          (fun _ _ _ _ => eq_refl) h Hd).
    exact (spec_from_shexc h [] [] Hd (Forall_nil _) n i k t Hn).
  Qed.

  Lemma outcome_text_deliver k1 k2 r : outcome_text (deliver k1 r) = outcome_text (deliver k2 r).
  Proof. destruct r as [s|[]], k1, k2; reflexivity. Qed.

  (** a repeated call (same Shaper, same threshold, either channel) yields the same text *)
  Corollary repeat_call_same_text h :
    C18_dom cargs (F fa) h = true ->
    forall n1 n2 i k1 k2 t,
      nth_error h n1 = Some (Shex i ShExC k1 t) -> nth_error h n2 = Some (Shex i ShExC k2 t) ->
      exists o1 o2, nth_error (run_conc h) n1 = Some o1 /\ nth_error (run_conc h) n2 = Some o2 /\
                    outcome_text o1 = outcome_text o2 /\ result_of o1 = result_of o2.
  Proof.
    intros Hd n1 n2 i k1 k2 t H1 H2.
    destruct (shex_calls_are_run_shexc h Hd n1 i k1 t H1) as (a & d & Ha & Ho1).
    destruct (shex_calls_are_run_shexc h Hd n2 i k2 t H2) as (a' & d' & Ha' & Ho2).
    rewrite Ha in Ha'. inversion Ha'; subst a' d'.
    eexists _, _. split; [exact Ho1|]. split; [exact Ho2|].
    split; [apply outcome_text_deliver|].
    destruct (run_shexc fa (cfg_of a d) t (ca_graph a)) as [s|[]], k1, k2; reflexivity.
  Qed.

  (** the threshold of each call is honoured: two calls on one Shaper with thresholds [t1], [t2]
      return the two [run_shexc] texts of the SAME configuration and graph *)
  Corollary threshold_honoured h :
    C18_dom cargs (F fa) h = true ->
    forall n1 n2 i k1 k2 t1 t2,
      nth_error h n1 = Some (Shex i ShExC k1 t1) -> nth_error h n2 = Some (Shex i ShExC k2 t2) ->
      exists a d, nth_error (shapers_of h) i = Some (a, d) /\
        nth_error (run_conc h) n1 = Some (deliver k1 (run_shexc fa (cfg_of a d) t1 (ca_graph a))) /\
        nth_error (run_conc h) n2 = Some (deliver k2 (run_shexc fa (cfg_of a d) t2 (ca_graph a))).
  Proof.
    intros Hd n1 n2 i k1 k2 t1 t2 H1 H2.
    destruct (shex_calls_are_run_shexc h Hd n1 i k1 t1 H1) as (a & d & Ha & Ho1).
    destruct (shex_calls_are_run_shexc h Hd n2 i k2 t2 H2) as (a' & d' & Ha' & Ho2).
    rewrite Ha in Ha'. inversion Ha'; subst a' d'.
    exists a, d. auto.
  Qed.
End Pipeline.

(** ** the reserved error line is not a rendering: [result_of] reads the result back *)
Lemma result_of_deliver fa c t g k :
  result_of (deliver k (run_shexc fa c t g)) = Some (run_shexc fa c t g).
Proof.
  destruct (run_shexc fa c t g) as [s|e] eqn:E.
  - unfold run_shexc in E. destruct (run_shapes fa c t g) as [[ns shapes]|e]; [|discriminate].
    destruct (render _ shapes) as [txt|] eqn:R; [|discriminate].
    inversion E; subst s; clear E.
    destruct (render_first_char _ _ _ R) as (ch & rest & -> & Hne).
    destruct k; unfold deliver, on_channel, encode, result_of; now rewrite (decode_text ch rest Hne).
  - destruct e, k; reflexivity.
Qed.
