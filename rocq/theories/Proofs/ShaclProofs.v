(** * Proofs for property C11: the ShExC and the SHACL view of a statement
    state the same constraint. *)
From Coq Require Import List Ascii String ZArith NArith Bool Lia Permutation.
From Shexer Require Import Lib.PyStr Lib.Dict Gen.Consts Model.Tokens Model.Freq Model.Shexing
     Spec.ConstraintSpec Model.SerialShacl.
Import ListNotations.

(** ** decimal numerals: [N_of_dec (dec_of_N n) = n] *)
Definition dstep (acc : N) (c : ascii) : N := (acc * 10 + N.of_nat (nat_of_ascii c - 48))%N.

Lemma N_of_dec_unfold s : N_of_dec s = fold_left dstep s 0%N.
Proof. reflexivity. Qed.

Lemma digit_val r : (r < 10)%nat -> (nat_of_ascii (digit_of r) - 48)%nat = r.
Proof.
  intros H. unfold digit_of. rewrite nat_ascii_embedding by lia. lia.
Qed.

Lemma digit_is_digit r : (r < 10)%nat -> is_digit (digit_of r) = true.
Proof.
  intros H. unfold is_digit, digit_of. rewrite nat_ascii_embedding by lia.
  apply andb_true_iff; split; apply Nat.leb_le; lia.
Qed.

Lemma dec_fuel_value f : forall n acc, (n < 10 ^ N.of_nat f)%N ->
  fold_left dstep (dec_fuel f n acc) 0%N = fold_left dstep acc n.
Proof.
  induction f as [|f IH]; intros n acc H.
  - cbn in H. assert (n = 0%N) by lia. subst. reflexivity.
  - cbn [dec_fuel].
    assert (Hr : (N.to_nat (n mod 10) < 10)%nat).
    { pose proof (N.mod_upper_bound n 10). lia. }
    destruct (N.eqb (n / 10) 0) eqn:Eq.
    + apply N.eqb_eq in Eq. cbn [fold_left]. unfold dstep at 2. rewrite digit_val by exact Hr.
      f_equal. rewrite N2Nat.id. pose proof (N.div_mod n 10). lia.
    + rewrite IH.
      * cbn [fold_left]. unfold dstep at 2. rewrite digit_val by exact Hr. f_equal.
        rewrite N2Nat.id. pose proof (N.div_mod n 10). lia.
      * rewrite Nnat.Nat2N.inj_succ, N.pow_succ_r' in H.
        apply N.div_lt_upper_bound; lia.
Qed.

Lemma dec_fuel_bound n : (n < 10 ^ N.of_nat (S (N.to_nat (N.log2 n))))%N.
Proof.
  rewrite Nnat.Nat2N.inj_succ, N2Nat.id.
  destruct (N.eq_dec n 0) as [->|Hn]; [cbn; lia|].
  pose proof (N.log2_spec n ltac:(lia)) as [_ H].
  eapply N.lt_le_trans; [exact H|].
  apply N.pow_le_mono_l. lia.
Qed.

Lemma N_of_dec_of_N n : N_of_dec (dec_of_N n) = n.
Proof.
  rewrite N_of_dec_unfold. unfold dec_of_N. rewrite dec_fuel_value by apply dec_fuel_bound. reflexivity.
Qed.

Lemma dec_fuel_digits f : forall n acc, forallb is_digit acc = true -> forallb is_digit (dec_fuel f n acc) = true.
Proof.
  induction f as [|f IH]; intros n acc H; [exact H|].
  cbn [dec_fuel].
  assert (Hr : (N.to_nat (n mod 10) < 10)%nat).
  { pose proof (N.mod_upper_bound n 10). lia. }
  assert (H' : forallb is_digit (digit_of (N.to_nat (n mod 10)) :: acc) = true).
  { cbn [forallb]. rewrite digit_is_digit by exact Hr. exact H. }
  destruct (N.eqb (n / 10) 0); [exact H' | apply IH; exact H'].
Qed.

Lemma dec_of_N_digits n : forallb is_digit (dec_of_N n) = true.
Proof. apply dec_fuel_digits. reflexivity. Qed.

Lemma dec_fuel_nonempty f : forall n acc, acc <> [] \/ f <> O -> dec_fuel f n acc <> [].
Proof.
  induction f as [|f IH]; intros n acc H.
  - cbn. destruct H; [assumption | contradiction].
  - cbn [dec_fuel]. destruct (N.eqb (n / 10) 0); [discriminate|].
    apply IH. left. discriminate.
Qed.

Lemma dec_of_N_nonempty n : dec_of_N n <> [].
Proof. apply dec_fuel_nonempty. right. discriminate. Qed.

Lemma dec_of_Z_of_N k : dec_of_Z (Z.of_N k) = dec_of_N k.
Proof.
  unfold dec_of_Z. destruct (Z.ltb_spec (Z.of_N k) 0); [lia|]. rewrite N2Z.id. reflexivity.
Qed.

(** ** strings *)
Lemma suffixb_spec p s : suffixb p s = true <-> exists r, s = r ++ p.
Proof.
  unfold suffixb. rewrite prefixb_spec. split.
  - intros [r H]. exists (rev r). rewrite <- (rev_involutive s), H, rev_app_distr, rev_involutive. reflexivity.
  - intros [r ->]. exists (rev r). apply rev_app_distr.
Qed.

Lemma len_app a b : len (a ++ b) = (len a + len b)%Z.
Proof. unfold len. rewrite app_length. lia. Qed.

(** [(a ++ u ++ [c])[len a : -1] = u] *)
Lemma slice_strip a u c : slice (a ++ u ++ [c]) (len a) (-1) = u.
Proof.
  unfold slice. set (n := len (a ++ u ++ [c])).
  assert (Hn : n = (len a + len u + 1)%Z) by (unfold n; rewrite !len_app; cbn; lia).
  assert (Ha : (0 <= len a)%Z) by (unfold len; lia).
  assert (Hu : (0 <= len u)%Z) by (unfold len; lia).
  unfold norm_idx.
  destruct (Z.ltb_spec (len a) 0); [lia|].
  replace (-1 <? 0)%Z with true by reflexivity.
  rewrite Z.min_l by lia. rewrite Z.max_r by lia.
  replace (Z.to_nat (len a)) with (List.length a) by (unfold len; lia).
  rewrite skipn_app, skipn_all, Nat.sub_diag. cbn [skipn app].
  replace (Z.to_nat (n + -1 - len a)) with (List.length u + 0)%nat by (unfold len in *; lia).
  rewrite firstn_app_2. cbn. apply app_nil_r.
Qed.

Lemma slice_corners u : slice (Str "<" ++ u ++ Str ">") 1 (-1) = u.
Proof. apply (slice_strip (Str "<") u ">"%char). Qed.

Lemma slice_shape_name u : slice (Str "%<" ++ u ++ Str ">") 2 (-1) = u.
Proof. apply (slice_strip (Str "%<") u ">"%char). Qed.

Lemma find_nat_single_none c s : find_nat [c] s = None -> ~ In c s.
Proof.
  induction s as [|x s IH]; cbn; [tauto|].
  destruct (Ascii.eqb c x) eqn:E; cbn; [discriminate|].
  destruct (find_nat [c] s); [discriminate|].
  intros _ [H|H]; [subst; rewrite Ascii.eqb_refl in E; discriminate | exact (IH eq_refl H)].
Qed.

Lemma contains_single_false c s : contains [c] s = false -> ~ In c s.
Proof.
  unfold contains. destruct (find_nat [c] s) eqn:E; [discriminate|]. intros _. apply find_nat_single_none, E.
Qed.

Lemma find_nat_single_some c s : In c s -> find_nat [c] s <> None.
Proof.
  induction s as [|x s IH]; cbn; [tauto|].
  destruct (Ascii.eqb c x) eqn:E; cbn; [discriminate|].
  intros [H|H]; [subst; rewrite Ascii.eqb_refl in E; discriminate|].
  destruct (find_nat [c] s); [discriminate | exact (IH H)].
Qed.

Lemma contains_single_true c s : contains [c] s = true -> In c s.
Proof.
  unfold contains. destruct (find_nat [c] s) eqn:E; [|discriminate]. intros _.
  revert n E. induction s as [|x s IH]; cbn; [discriminate|].
  destruct (Ascii.eqb c x) eqn:E; cbn.
  - intros _ _. left. symmetry. apply Ascii.eqb_eq, E.
  - destruct (find_nat [c] s); [|discriminate]. intros _ _. right. eapply IH. reflexivity.
Qed.

Lemma contains_single_in c s : In c s -> contains [c] s = true.
Proof.
  intros H. unfold contains. destruct (find_nat [c] s) eqn:E; [reflexivity|].
  exfalso. exact (find_nat_single_some c s H E).
Qed.

(** a pattern containing a character absent from [s] never matches inside [s] *)
Lemma replace_fuel_absent c a b : In c a -> forall f s, ~ In c s -> replace_all_fuel f a b s = s.
Proof.
  intros Ha. induction f as [|f IH]; intros s Hs; [reflexivity|].
  destruct s as [|x s]; [reflexivity|]. cbn [replace_all_fuel].
  destruct (prefixb a (x :: s)) eqn:E.
  - exfalso. apply prefixb_spec in E as [r E]. apply Hs. rewrite E. apply in_or_app. left. exact Ha.
  - f_equal. apply IH. intros H. apply Hs. right. exact H.
Qed.

Lemma prefixb_app a r : prefixb a (a ++ r) = true.
Proof. apply prefixb_spec. exists r. reflexivity. Qed.

Lemma replace_all_prefix c a b r : a <> [] -> In c a -> ~ In c r -> replace_all a b (a ++ r) = b ++ r.
Proof.
  intros Hne Ha Hr. unfold replace_all. cbn [replace_all_fuel].
  destruct a as [|x a]; [contradiction|]. cbn [app].
  change (x :: a ++ r) with ((x :: a) ++ r). rewrite prefixb_app.
  rewrite skipn_app, skipn_all, Nat.sub_diag. cbn [skipn app].
  f_equal. apply replace_fuel_absent with (c := c); assumption.
Qed.

Lemma cut_at_app c p l : ~ In c p -> cut_at c (p ++ c :: l) = Some (p, l).
Proof.
  induction p as [|x p IH]; intros H; cbn.
  - rewrite Ascii.eqb_refl. reflexivity.
  - destruct (Ascii.eqb x c) eqn:E.
    + exfalso. apply H. left. apply Ascii.eqb_eq, E.
    + rewrite IH; [reflexivity|]. intros H'. apply H. right. exact H'.
Qed.

(** ** the prefix map read from the namespaces dict *)
Lemma lookup_prefix_none pm p : ~ In p (map fst pm) -> lookup_prefix pm p = None.
Proof.
  induction pm as [|[p' n] pm IH]; cbn; [reflexivity|]. intros H.
  rewrite IH by tauto. destruct (str_eqb p p') eqn:E; [|reflexivity].
  apply str_eqb_eq in E. exfalso. apply H. left. symmetry. exact E.
Qed.

Lemma nodup_strb_NoDup l : nodup_strb l = true -> NoDup l.
Proof.
  induction l as [|x l IH]; cbn; [constructor|].
  rewrite andb_true_iff, negb_true_iff. intros [H1 H2]. constructor; [|apply IH, H2].
  intros H. apply mem_str_In in H. congruence.
Qed.

Lemma lookup_prefix_in pm p n : NoDup (map fst pm) -> In (p, n) pm -> lookup_prefix pm p = Some n.
Proof.
  induction pm as [|[p' n'] pm IH]; cbn; [tauto|]. intros Hnd [H|H].
  - inversion H; subst. inversion Hnd; subst. rewrite lookup_prefix_none by assumption.
    rewrite str_eqb_refl. reflexivity.
  - inversion Hnd; subst. rewrite (IH H3 H). reflexivity.
Qed.

Lemma pm_of_ns_fst ns : map fst (pm_of_ns ns) = map snd ns.
Proof. unfold pm_of_ns. rewrite map_map. reflexivity. Qed.

Lemma pm_of_ns_in ns n p : In (n, p) ns -> In (p, n) (pm_of_ns ns).
Proof. intros H. unfold pm_of_ns. apply in_map_iff. exists (n, p). split; [reflexivity | exact H]. Qed.

(** ** [best_ns] *)
Lemma best_ns_spec ns u n p : best_ns ns u = Some (n, p) ->
  In (n, p) ns /\ exists r, u = n ++ r /\ ~ In "/"%char r /\ ~ In "#"%char r.
Proof.
  induction ns as [|[n' p'] ns IH]; cbn [best_ns]; [discriminate|].
  destruct (prefixb n' u && negb (contains (Str "/") (skipn (List.length n') u)) &&
            negb (contains (Str "#") (skipn (List.length n') u))) eqn:E.
  - intros H; inversion H; subst. split; [left; reflexivity|].
    rewrite !andb_true_iff, !negb_true_iff in E. destruct E as [[E1 E2] E3].
    apply prefixb_spec in E1 as [r ->]. exists r. split; [reflexivity|].
    rewrite skipn_app, skipn_all, Nat.sub_diag in E2, E3. cbn [skipn app] in E2, E3.
    split; apply contains_single_false; assumption.
  - intros H. destruct (IH H) as [H1 H2]. split; [right; exact H1 | exact H2].
Qed.

(** ** printing an IRI ([tune_token] on an IRI) and reading it back *)
Definition print_iri (ns : nsdict) (u : str) : str :=
  match prefixize_opt ns u with Some s => s | None => Str "<" ++ u ++ Str ">" end.

Lemma ns_ok_nodup ns : ns_ok ns = true -> NoDup (map snd ns).
Proof.
  unfold ns_ok. rewrite !andb_true_iff. intros [[H _] _]. apply nodup_strb_NoDup, H.
Qed.

Lemma ns_ok_entry ns n p : ns_ok ns = true -> In (n, p) ns ->
  prefix_ok p = true /\ (In "/"%char n \/ In "#"%char n).
Proof.
  unfold ns_ok. rewrite !andb_true_iff. intros [[_ H2] H3] Hin.
  rewrite forallb_forall in H2, H3. split.
  - apply H2. apply in_map_iff. exists (n, p). split; [reflexivity | exact Hin].
  - specialize (H3 n). rewrite orb_true_iff in H3.
    destruct H3 as [H|H].
    + apply in_map_iff. exists (n, p). split; [reflexivity | exact Hin].
    + left. apply contains_single_true, H.
    + right. apply contains_single_true, H.
Qed.

Lemma print_iri_shape ns u : ns_ok ns = true ->
  print_iri ns u = Str "<" ++ u ++ Str ">" \/
  exists p r n, print_iri ns u = p ++ ":"%char :: r /\ prefix_ok p = true /\
                lookup_prefix (pm_of_ns ns) p = Some n /\ u = n ++ r.
Proof.
  intros Hok. unfold print_iri, prefixize_opt.
  destruct (best_ns ns u) as [[n p]|] eqn:E; [|left; reflexivity].
  right. apply best_ns_spec in E as [Hin [r [-> [Hs Hh]]]].
  destruct (ns_ok_entry ns n p Hok Hin) as [Hp Hn].
  exists p, r, n. repeat split; try assumption.
  - unfold py_replace.
    assert (Hne : n <> []) by (destruct Hn as [H|H]; intros ->; exact H).
    destruct Hn as [Hn|Hn].
    + rewrite (replace_all_prefix "/"%char) by assumption. rewrite <- app_assoc. reflexivity.
    + rewrite (replace_all_prefix "#"%char) by assumption. rewrite <- app_assoc. reflexivity.
  - apply lookup_prefix_in.
    + rewrite pm_of_ns_fst. apply ns_ok_nodup, Hok.
    + apply pm_of_ns_in, Hin.
Qed.

Lemma read_iri_cornered pm u : read_iri pm (Str "<" ++ u ++ Str ">") = Some u.
Proof.
  change (Str "<" ++ u ++ Str ">") with ("<"%char :: (u ++ [">"%char])).
  unfold read_iri. rewrite Ascii.eqb_refl.
  destruct (u ++ [">"%char]) eqn:E; [destruct u; discriminate|]. rewrite <- E.
  rewrite last_last, removelast_last. reflexivity.
Qed.

Lemma prefix_ok_colon p : prefix_ok p = true -> ~ In ":"%char p.
Proof.
  unfold prefix_ok. rewrite andb_true_iff, negb_true_iff. intros [H _].
  apply contains_single_false, H.
Qed.

Lemma prefix_ok_head p l : prefix_ok p = true ->
  exists c t, p ++ ":"%char :: l = c :: t /\ Ascii.eqb c "<"%char = false /\
              Ascii.eqb c "["%char = false /\ Ascii.eqb c "@"%char = false.
Proof.
  intros H. destruct p as [|x p].
  - exists ":"%char, l. repeat split.
  - exists x, (p ++ ":"%char :: l). split; [reflexivity|].
    unfold prefix_ok in H. rewrite andb_true_iff, !negb_true_iff, !orb_false_iff in H.
    destruct H as [_ [[H1 H2] H3]]. repeat split; assumption.
Qed.

Lemma read_iri_prefixed pm p l n : prefix_ok p = true -> lookup_prefix pm p = Some n ->
  read_iri pm (p ++ ":"%char :: l) = Some (n ++ l).
Proof.
  intros Hp Hl. destruct (prefix_ok_head p l Hp) as [c [t [E [H1 _]]]].
  unfold read_iri. rewrite E, H1, <- E. rewrite cut_at_app by (apply prefix_ok_colon, Hp).
  rewrite Hl. reflexivity.
Qed.

Lemma read_iri_print ns u : ns_ok ns = true -> read_iri (pm_of_ns ns) (print_iri ns u) = Some u.
Proof.
  intros Hok. destruct (print_iri_shape ns u Hok) as [E|[p [r [n [E [Hp [Hl ->]]]]]]]; rewrite E.
  - apply read_iri_cornered.
  - apply read_iri_prefixed; assumption.
Qed.

Lemma colon_not_keyword tok : In ":"%char tok ->
  str_eqb tok (Str "IRI") = false /\ str_eqb tok (Str "BNode") = false /\
  str_eqb tok (Str "NONLITERAL") = false.
Proof.
  intros H. repeat split; apply str_eqb_neq; intros ->; cbn in H;
    repeat (destruct H as [H|H]; [discriminate H|]); exact H.
Qed.

(** a printed IRI is read as a datatype *)
Lemma read_value_print ns u : ns_ok ns = true ->
  read_value (pm_of_ns ns) (print_iri ns u) = Some (Datatype u).
Proof.
  intros Hok. pose proof (read_iri_print ns u Hok) as Hr.
  destruct (print_iri_shape ns u Hok) as [E|[p [r [n [E [Hp [Hl ->]]]]]]]; rewrite E in *.
  - change (Str "<" ++ u ++ Str ">") with ("<"%char :: (u ++ [">"%char])) in *.
    unfold read_value. cbn [Ascii.eqb]. 
    replace (str_eqb ("<"%char :: u ++ [">"%char]) (Str "IRI")) with false by reflexivity.
    replace (str_eqb ("<"%char :: u ++ [">"%char]) (Str "BNode")) with false by reflexivity.
    replace (str_eqb ("<"%char :: u ++ [">"%char]) (Str "NONLITERAL")) with false by reflexivity.
    cbn. cbn in Hr. rewrite Hr. reflexivity.
  - destruct (prefix_ok_head p r Hp) as [c [t [E' [_ [H2 H3]]]]].
    destruct (colon_not_keyword (p ++ ":"%char :: r)) as [K1 [K2 K3]].
    { apply in_or_app. right. left. reflexivity. }
    unfold read_value. rewrite E' in *. rewrite H2, H3, K1, K2, K3, Hr. reflexivity.
Qed.

(** a value set / a shape reference around a printed IRI *)
Lemma read_value_set ns u : ns_ok ns = true ->
  read_value (pm_of_ns ns) (Str "[" ++ print_iri ns u ++ Str "]") = Some (ClassValue u).
Proof.
  intros Hok. change (Str "[" ++ print_iri ns u ++ Str "]") with ("["%char :: (print_iri ns u ++ ["]"%char])).
  unfold read_value. rewrite Ascii.eqb_refl.
  destruct (print_iri ns u ++ ["]"%char]) eqn:E; [destruct (print_iri ns u); discriminate|]. rewrite <- E.
  rewrite last_last, removelast_last, read_iri_print by exact Hok. reflexivity.
Qed.

Lemma read_value_ref ns u : ns_ok ns = true ->
  read_value (pm_of_ns ns) (Str "@" ++ print_iri ns u) = Some (Ref u).
Proof.
  intros Hok. change (Str "@" ++ print_iri ns u) with ("@"%char :: print_iri ns u).
  unfold read_value. replace (Ascii.eqb "@" "[") with false by reflexivity. rewrite Ascii.eqb_refl.
  rewrite read_iri_print by exact Hok. reflexivity.
Qed.

(** ** [tune_token] on the token classes of the domain *)
Lemma slice_from_1 c s : slice_from (c :: s) 1 = s.
Proof.
  unfold slice_from, norm_idx. replace (1 <? 0)%Z with false by reflexivity.
  assert (H : (1 <= len (c :: s))%Z) by (unfold len; cbn [List.length]; lia).
  rewrite Z.min_l by exact H. reflexivity.
Qed.

Lemma suffixb_close u c : suffixb [c] (u ++ [c]) = true.
Proof. apply suffixb_spec. exists u. reflexivity. Qed.

Lemma tune_plain ns u : plain_iri u = true -> tune_token ns u = Some (print_iri ns u).
Proof.
  unfold plain_iri. rewrite !andb_true_iff, !negb_true_iff. intros [[Hc Hs] Hk].
  cbn [mem_str] in Hk. rewrite !orb_false_iff in Hk. destruct Hk as [K1 [K2 [K3 _]]].
  unfold tune_token. change c_STARTING_CHAR_FOR_SHAPE_NAME with (Str "%"). rewrite Hs.
  change c_IRI_ELEM_TYPE with (Str "IRI"). change c_BNODE_ELEM_TYPE with (Str "BNode").
  change c_NONLITERAL_ELEM_TYPE with (Str "NONLITERAL"). cbn [mem_str]. rewrite K1, K2, K3. cbn [orb].
  rewrite Hc. cbn [negb]. unfold print_iri. destruct (prefixize_opt ns u); reflexivity.
Qed.

Lemma tune_shape ns i : tune_token ns (Str "%<" ++ i ++ Str ">") = Some (Str "@" ++ print_iri ns i).
Proof.
  unfold tune_token. change c_STARTING_CHAR_FOR_SHAPE_NAME with (Str "%").
  replace (prefixb (Str "%") (Str "%<" ++ i ++ Str ">")) with true by reflexivity.
  unfold prefixize_shape_name.
  change (Str "%<" ++ i ++ Str ">") with ("%"%char :: (Str "<" ++ i ++ Str ">")).
  rewrite slice_from_1. unfold prefixize_cornered, remove_corners_strict.
  replace (prefixb (Str "<") (Str "<" ++ i ++ Str ">")) with true by reflexivity.
  change (Str "<" ++ i ++ Str ">") with (("<"%char :: i) ++ [">"%char]) at 1.
  change (Str ">") with [">"%char] at 1. rewrite suffixb_close. cbn [andb].
  rewrite slice_corners. unfold print_iri, prefixize_opt.
  destruct (best_ns ns i) as [[n p]|]; reflexivity.
Qed.

Lemma shape_ref_form s : shape_ref s = true -> exists i, s = Str "%<" ++ i ++ Str ">".
Proof.
  unfold shape_ref. rewrite andb_true_iff. intros [H1 H2].
  apply prefixb_spec in H1 as [r ->]. apply suffixb_spec in H2 as [r' H2].
  destruct r' as [|a [|b r']]; cbn in H2.
  - discriminate H2.
  - exfalso. injection H2 as _ H2. discriminate H2.
  - injection H2 as _ _ H2. subst. exists r'. reflexivity.
Qed.

Lemma http_form s : http_iri s = true -> plain_iri s = true /\ generate_r_uri s = Some s.
Proof.
  unfold http_iri. cbn [existsb]. rewrite !orb_true_iff. intros [H|[H|H]]; [| |discriminate];
    apply prefixb_spec in H as [r ->]; split; reflexivity.
Qed.

(** ** cardinalities: what ShExC prints reads as the range SHACL states *)
Lemma card_views c : card_pos c = true ->
  exists sc, read_card (cardinality_representation true (card_value c)) = Some sc /\
             add_cardinality (card_value c) = Some (enc_counts (fst (card_range sc)) (snd (card_range sc))).
Proof.
  destruct c as [k| | |]; intros Hpos.
  - destruct (N.eq_dec k 1) as [->|Hk1]; [exists SCabsent; split; reflexivity|].
    exists (SCbrace k). cbn in Hpos. apply negb_true_iff, N.eqb_neq in Hpos. split.
    + unfold cardinality_representation, card_value, pyval_eqb, pyval_in.
      replace (Z.of_N k =? shexc_card_omitted)%Z with false
        by (symmetry; apply Z.eqb_neq; change shexc_card_omitted with 1%Z; lia).
      cbn [andb py_str]. rewrite dec_of_Z_of_N.
      change (Str "{" ++ dec_of_N k ++ Str "}") with ("{"%char :: (dec_of_N k ++ ["}"%char])).
      unfold read_card.
      replace (str_eqb ("{"%char :: dec_of_N k ++ ["}"%char]) (Str "+")) with false by reflexivity.
      replace (str_eqb ("{"%char :: dec_of_N k ++ ["}"%char]) (Str "*")) with false by reflexivity.
      replace (str_eqb ("{"%char :: dec_of_N k ++ ["}"%char]) (Str "?")) with false by reflexivity.
      rewrite Ascii.eqb_refl.
      destruct (dec_of_N k ++ ["}"%char]) eqn:E; [destruct (dec_of_N k); discriminate|]. rewrite <- E.
      rewrite last_last, removelast_last, Ascii.eqb_refl, dec_of_N_digits, N_of_dec_of_N.
      pose proof (dec_of_N_nonempty k) as Hne. destruct (dec_of_N k); [contradiction|]. reflexivity.
    + unfold add_cardinality, card_value, min_occurs_from_cardinality, max_occurs_from_cardinality,
        pyval_in, pyval_eqb, add_occurs, generate_r_literal. cbn [py_str]. rewrite dec_of_Z_of_N.
      cbn [card_range fst snd]. unfold enc_counts.
      replace (k =? 0)%N with false by (symmetry; apply N.eqb_neq; exact Hpos). reflexivity.
  - exists SCplus. split; reflexivity.
  - exists SCstar. split; reflexivity.
  - exists SCopt. split; reflexivity.
Qed.

(** ** value restrictions of a regular constraint *)
Lemma dget_macro_none ty :
  mem_str ty [Str "IRI"; Str "BNode"; Str "NONLITERAL"; Str "LITERAL"; Str "."] = false ->
  dget macro_dict ty = None.
Proof.
  cbn [mem_str]. rewrite !orb_false_iff. intros [K1 [K2 [K3 [K4 [K5 _]]]]].
  change macro_dict with
    [(Str "IRI", Some (Str "http://www.w3.org/ns/shacl#IRI"));
     (Str "LITERAL", Some (Str "http://www.w3.org/ns/shacl#Literal"));
     (Str ".", @None str);
     (Str "BNode", Some (Str "http://www.w3.org/ns/shacl#BlankNode"));
     (Str "NONLITERAL", Some (Str "http://www.w3.org/ns/shacl#BlankNodeOrIRI"))].
  cbn [dget]. rewrite K1, K4, K5, K2, K3. reflexivity.
Qed.

Lemma value_views ns ty :
  ns_ok ns = true ->
  (mem_str ty [Str "IRI"; Str "BNode"; Str "NONLITERAL"] || shape_ref ty || plain_iri ty) = true ->
  exists v r, tune_token ns ty = Some v /\ read_value (pm_of_ns ns) v = Some r /\
              add_node_type ty = Some (enc_restr r).
Proof.
  intros Hok. rewrite !orb_true_iff. intros [[H|H]|H].
  - cbn [mem_str] in H. rewrite !orb_true_iff in H. destruct H as [H|[H|[H|H]]]; [| | |discriminate];
      apply str_eqb_eq in H; subst.
    + exists (Str "IRI"), KindIri. repeat split.
    + exists (Str "BNode"), KindBnode. repeat split.
    + exists (Str "NONLITERAL"), KindNonLiteral. repeat split.
  - apply shape_ref_form in H as [i ->]. exists (Str "@" ++ print_iri ns i), (Ref i).
    split; [apply tune_shape|]. split; [apply read_value_ref, Hok|].
    unfold add_node_type.
    replace (dget macro_dict (Str "%<" ++ i ++ Str ">")) with (@None (option str)) by reflexivity.
    change c_STARTING_CHAR_FOR_SHAPE_NAME with (Str "%").
    replace (prefixb (Str "%") (Str "%<" ++ i ++ Str ">")) with true by reflexivity.
    unfold generate_shape_uri. change c_shacl_EXPECTED_SHAPE_BEGINING with (Str "%<").
    change c_shacl_EXPECTED_SHAPE_ENDING with [">"%char].
    replace (prefixb (Str "%<") (Str "%<" ++ i ++ Str ">")) with true by reflexivity.
    change (Str "%<" ++ i ++ Str ">") with ((Str "%<" ++ i) ++ [">"%char]) at 1.
    rewrite suffixb_close. cbn [andb]. rewrite slice_shape_name. reflexivity.
  - exists (print_iri ns ty), (Datatype ty).
    split; [apply tune_plain, H|]. split; [apply read_value_print, Hok|].
    unfold plain_iri in H. rewrite !andb_true_iff, !negb_true_iff in H. destruct H as [[_ Hs] Hk].
    unfold add_node_type. rewrite (dget_macro_none ty Hk).
    change c_STARTING_CHAR_FOR_SHAPE_NAME with (Str "%"). rewrite Hs. reflexivity.
Qed.

Lemma card_eqb_eq a b : card_eqb a b = true -> a = b.
Proof.
  destruct a, b; cbn; try discriminate; try reflexivity.
  intros H. apply N.eqb_eq in H. subst. reflexivity.
Qed.

Lemma perm_ends {A} (x y l : list A) : Permutation (x ++ l ++ y) (y ++ l ++ x).
Proof.
  eapply perm_trans; [apply Permutation_app_comm|].
  pose proof (Permutation_app_tail x (Permutation_app_comm l y)) as H.
  rewrite <- (app_assoc y l x) in H. exact H.
Qed.

Lemma step_generate_bnode st ty : step_arcs st ty (Str "_generate_bnode") = Some (Some []).
Proof. reflexivity. Qed.
Lemma step_bnode_property st ty : step_arcs st ty (Str "_add_bnode_property") = Some (Some property_shape_type).
Proof. reflexivity. Qed.
Lemma step_node_type st ty : step_arcs st ty (Str "_add_node_type") = Some (add_node_type ty).
Proof. reflexivity. Qed.
Lemma step_cardinality st ty :
  step_arcs st ty (Str "_add_cardinality") = Some (add_cardinality (card_value (s_card st))).
Proof. reflexivity. Qed.
Lemma step_path st ty : step_arcs st ty (Str "_add_path") = Some (add_path (s_inv st) (s_prop st)).
Proof. reflexivity. Qed.
Lemma step_in_instance st ty : step_arcs st ty (Str "_add_in_instance") = Some (add_in_instance ty).
Proof. reflexivity. Qed.

(** a disjunction never yields arcs: the regular sequence raises TypeError at [_add_node_type]; the
    instantiation sequence at [_add_in_instance], unless [_add_path] raised ValueError before *)
Lemma shacl_arcs_choice tau st : s_choice st = true ->
  shacl_arcs tau st =
  if str_eqb (s_prop st) tau
  then match add_path (s_inv st) (s_prop st), add_cardinality (card_value (s_card st)) with
       | Some _, Some _ => VTypeError
       | _, _ => VValueError
       end
  else VTypeError.
Proof.
  intros Hc. unfold shacl_arcs. rewrite Hc. destruct (str_eqb (s_prop st) tau).
  - change shacl_instantiation_steps with
      [Str "_generate_bnode"; Str "_add_bnode_property"; Str "_add_path"; Str "_add_cardinality";
       Str "_add_in_instance"].
    change shacl_steps_reading_st_type with [Str "_add_node_type"; Str "_add_in_instance"].
    change c_choice_st_type_raises with (Str "TypeError").
    cbn [run_steps_choice].
    change (mem_str (Str "_generate_bnode") [Str "_add_node_type"; Str "_add_in_instance"]) with false.
    change (mem_str (Str "_add_bnode_property") [Str "_add_node_type"; Str "_add_in_instance"]) with false.
    change (mem_str (Str "_add_path") [Str "_add_node_type"; Str "_add_in_instance"]) with false.
    change (mem_str (Str "_add_cardinality") [Str "_add_node_type"; Str "_add_in_instance"]) with false.
    change (mem_str (Str "_add_in_instance") [Str "_add_node_type"; Str "_add_in_instance"]) with true.
    change (str_eqb (Str "TypeError") (Str "TypeError")) with true. cbn iota.
    rewrite step_generate_bnode, step_bnode_property, step_path, step_cardinality.
    destruct (add_path (s_inv st) (s_prop st)); [|reflexivity].
    destruct (add_cardinality (card_value (s_card st))); reflexivity.
  - change shacl_regular_steps with
      [Str "_generate_bnode"; Str "_add_bnode_property"; Str "_add_node_type"; Str "_add_cardinality";
       Str "_add_path"].
    change shacl_steps_reading_st_type with [Str "_add_node_type"; Str "_add_in_instance"].
    change c_choice_st_type_raises with (Str "TypeError").
    cbn [run_steps_choice].
    change (mem_str (Str "_generate_bnode") [Str "_add_node_type"; Str "_add_in_instance"]) with false.
    change (mem_str (Str "_add_bnode_property") [Str "_add_node_type"; Str "_add_in_instance"]) with false.
    change (mem_str (Str "_add_node_type") [Str "_add_node_type"; Str "_add_in_instance"]) with true.
    change (str_eqb (Str "TypeError") (Str "TypeError")) with true. cbn iota.
    rewrite step_generate_bnode, step_bnode_property. reflexivity.
Qed.

Lemma shacl_arcs_choice_not_ok tau st parcs : s_choice st = true -> shacl_arcs tau st <> VOk parcs.
Proof.
  intros Hc. rewrite (shacl_arcs_choice tau st Hc).
  destruct (str_eqb (s_prop st) tau); [|discriminate].
  destruct (add_path (s_inv st) (s_prop st)); [|discriminate].
  destruct (add_cardinality (card_value (s_card st))); discriminate.
Qed.

(** ** the statement-level theorem *)
Theorem views_agree ns tau st : C11_dom ns tau st = true ->
  exists c arcs, shex_view ns tau st = VOk c /\ shacl_arcs tau st = VOk arcs /\
                 Permutation arcs (enc_arcs c).
Proof.
  unfold C11_dom. rewrite !andb_true_iff. intros [[[[[Hns Htau] Hch] Hcard] Hp] Hty].
  destruct (s_types st) as [|ty [|ty2 tys]] eqn:Et; try discriminate.
  apply negb_true_iff in Hch. apply str_eqb_eq in Htau.
  destruct (http_form _ Hp) as [Hpp Hgp].
  destruct (card_views _ Hcard) as [sc [Hrc Hac]].
  pose proof (tune_plain ns _ Hpp) as Htp.
  assert (Hpath : add_path (s_inv st) (s_prop st) = Some (enc_path (s_inv st) (s_prop st))).
  { unfold add_path, add_direct_path, add_inverse_path. rewrite Hgp. destruct (s_inv st); reflexivity. }
  assert (Hsense : (if str_eqb (if s_inv st then c_INVERSE_SENSE_SHEXC else []) []
                    then Some false
                    else if str_eqb (if s_inv st then c_INVERSE_SENSE_SHEXC else []) (Str "^")
                         then Some true else None) = Some (s_inv st)).
  { destruct (s_inv st); reflexivity. }
  destruct (str_eqb (s_prop st) tau) eqn:Etau.
  - (* instantiation constraint: path, cardinality, sh:in *)
    destruct (http_form _ Hty) as [Hcp Hgc].
    exists {| c_inv := s_inv st; c_pred := s_prop st; c_restr := ClassValue ty;
              c_min := fst (card_range sc); c_max := snd (card_range sc) |}.
    eexists. split; [|split].
    + unfold shex_view, shexc_tokens, str_of_target_element.
      rewrite Hch, Et, Htp, (tune_plain ns _ Hcp), Htau, Etau. cbn [t_sense t_pred t_value t_card].
      unfold read_tc. rewrite read_iri_print, read_value_set by exact Hns. rewrite Hrc, Hsense. reflexivity.
    + unfold shacl_arcs. rewrite Hch, Et, Etau.
      change shacl_instantiation_steps with
        [Str "_generate_bnode"; Str "_add_bnode_property"; Str "_add_path"; Str "_add_cardinality";
         Str "_add_in_instance"].
      cbn [run_steps]. rewrite step_generate_bnode, step_bnode_property, step_path, step_cardinality, step_in_instance.
      rewrite Hpath, Hac. unfold add_in_instance. rewrite Hgc. reflexivity.
    + unfold enc_arcs. cbn [c_inv c_pred c_restr c_min c_max enc_restr rdf_list app property_shape_type].
      apply perm_skip. exact (perm_ends _ [_] _).
  - (* regular constraint: node type, cardinality, path *)
    destruct (value_views ns ty Hns Hty) as [v [r [Htv [Hrv Hnt]]]].
    exists {| c_inv := s_inv st; c_pred := s_prop st; c_restr := r;
              c_min := fst (card_range sc); c_max := snd (card_range sc) |}.
    eexists. split; [|split].
    + unfold shex_view, shexc_tokens, str_of_target_element.
      rewrite Hch, Et, Htp, Htv, Htau, Etau. cbn [t_sense t_pred t_value t_card].
      unfold read_tc. rewrite read_iri_print by exact Hns. rewrite Hrv, Hrc, Hsense. reflexivity.
    + unfold shacl_arcs. rewrite Hch, Et, Etau.
      change shacl_regular_steps with
        [Str "_generate_bnode"; Str "_add_bnode_property"; Str "_add_node_type"; Str "_add_cardinality";
         Str "_add_path"].
      cbn [run_steps]. rewrite step_generate_bnode, step_bnode_property, step_node_type, step_cardinality, step_path.
      rewrite Hnt, Hac, Hpath. reflexivity.
    + unfold enc_arcs. cbn [c_inv c_pred c_restr c_min c_max app property_shape_type].
      rewrite ?app_nil_r. apply Permutation_refl.
Qed.

(** ** lifting to shapes and documents *)
Lemma vres_all_pair {S A B} (f : S -> vres A) (g : S -> vres B) (R : B -> A -> Prop) (l : list S) :
  (forall x, In x l -> exists a b, f x = VOk a /\ g x = VOk b /\ R b a) ->
  exists la lb, vres_all (map f l) = VOk la /\ vres_all (map g l) = VOk lb /\ Forall2 R lb la.
Proof.
  induction l as [|x l IH]; intros H.
  - exists [], []. repeat split. constructor.
  - destruct (H x (or_introl eq_refl)) as [a [b [Hf [Hg Hr]]]].
    destruct IH as [la [lb [Ha [Hb HR]]]]; [intros y Hy; apply H; right; exact Hy|].
    exists (a :: la), (b :: lb). cbn [map vres_all]. rewrite Hf, Hg, Ha, Hb.
    repeat split. constructor; assumption.
Qed.

Lemma shacl_view_arcs tau st arcs : shacl_arcs tau st = VOk arcs -> shacl_view tau st = VOk (RBlank arcs).
Proof. unfold shacl_view. intros ->. reflexivity. Qed.

Lemma shape_label_views ns name : ns_ok ns = true -> shape_ref name = true ->
  exists i, shex_label ns name = VOk i /\ generate_shape_uri name = Some i.
Proof.
  intros Hok H. apply shape_ref_form in H as [i ->]. exists i. split.
  - unfold shex_label, prefixize_shape_name.
    change (Str "%<" ++ i ++ Str ">") with ("%"%char :: (Str "<" ++ i ++ Str ">")).
    rewrite slice_from_1. unfold prefixize_cornered, remove_corners_strict.
    replace (prefixb (Str "<") (Str "<" ++ i ++ Str ">")) with true by reflexivity.
    change (Str "<" ++ i ++ Str ">") with (("<"%char :: i) ++ [">"%char]) at 1.
    change (Str ">") with [">"%char] at 1. rewrite suffixb_close. cbn [andb].
    rewrite slice_corners.
    pose proof (read_iri_print ns i Hok) as Hr. unfold print_iri, prefixize_opt in Hr.
    destruct (best_ns ns i) as [[n p]|]; rewrite Hr; reflexivity.
  - unfold generate_shape_uri. change c_shacl_EXPECTED_SHAPE_BEGINING with (Str "%<").
    change c_shacl_EXPECTED_SHAPE_ENDING with [">"%char].
    replace (prefixb (Str "%<") (Str "%<" ++ i ++ Str ">")) with true by reflexivity.
    change (Str "%<" ++ i ++ Str ">") with ((Str "%<" ++ i) ++ [">"%char]) at 1.
    rewrite suffixb_close. cbn [andb]. rewrite slice_shape_name. reflexivity.
Qed.

(** *** the object of [sh:targetClass] *)
Lemma target_class_obj_old c : c_shacl_target_strips_corners = false -> target_class_obj c = c.
Proof. unfold target_class_obj. intros ->. reflexivity. Qed.

Lemma target_class_obj_plain c : cornered c = false -> target_class_obj c = c.
Proof.
  unfold target_class_obj, remove_corners_lenient. intros ->.
  destruct c_shacl_target_strips_corners; reflexivity.
Qed.

Lemma cornered_corners i : cornered (Str "<" ++ i ++ Str ">") = true.
Proof.
  unfold cornered. replace (prefixb (Str "<") (Str "<" ++ i ++ Str ">")) with true by reflexivity.
  change (Str "<" ++ i ++ Str ">") with (("<"%char :: i) ++ [">"%char]).
  change (Str ">") with [">"%char]. rewrite suffixb_close. reflexivity.
Qed.

Lemma remove_corners_lenient_corners i : remove_corners_lenient (Str "<" ++ i ++ Str ">") = i.
Proof. unfold remove_corners_lenient. rewrite cornered_corners. apply slice_corners. Qed.

Lemma target_class_obj_new i : c_shacl_target_strips_corners = true ->
  target_class_obj (Str "<" ++ i ++ Str ">") = i.
Proof. unfold target_class_obj. intros ->. apply remove_corners_lenient_corners. Qed.

Lemma target_class_obj_kept i : c_shacl_target_strips_corners = false ->
  target_class_obj (Str "<" ++ i ++ Str ">") = Str "<" ++ i ++ Str ">".
Proof. apply target_class_obj_old. Qed.

Lemma retarget_id cs : target_class_obj (cs_class cs) = cs_class cs -> retarget cs = cs.
Proof. destruct cs as [l c k]. unfold retarget. cbn [cs_label cs_class cs_constraints]. intros ->. reflexivity. Qed.

(** [sh:targetClass] names [target_class_obj] of the shape's class key: the key itself for the text of
    [_add_target_class] that does not touch it, the key without its enclosing corners for the repaired text *)
Theorem shapes_agree ns tau sh : C11_dom_shape ns tau sh = true ->
  exists cs d, shex_shape_view ns tau sh = VOk cs /\ shacl_shape tau sh = VOk d /\
               same_nshape d (enc_shape (retarget cs)) /\
               cs_class cs = sh_class sh /\ List.length (cs_constraints cs) = List.length (sh_stmts sh).
Proof.
  unfold C11_dom_shape. rewrite !andb_true_iff. intros [[Hok Hname] Hst].
  rewrite forallb_forall in Hst.
  destruct (shape_label_views ns _ Hok Hname) as [i [Hl Hu]].
  destruct (vres_all_pair (shex_view ns tau) (shacl_view tau) (fun b a => same_pshape b (enc a)) (sh_stmts sh))
    as [cl [pl [Hc [Hp HR]]]].
  { intros st Hin. destruct (views_agree ns tau st (Hst st Hin)) as [c [arcs [H1 [H2 H3]]]].
    exists c, (RBlank arcs). split; [exact H1|]. split; [apply shacl_view_arcs, H2 | exact H3]. }
  exists {| cs_label := i; cs_class := sh_class sh; cs_constraints := cl |}. eexists.
  split; [|split; [|split; [|split]]].
  - unfold shex_shape_view. rewrite Hl, Hc. reflexivity.
  - unfold shacl_shape. rewrite Hu, Hp. reflexivity.
  - split; [reflexivity|]. cbn [snd enc_shape cs_class cs_constraints].
    constructor; [split; reflexivity|]. constructor; [split; reflexivity|].
    clear Hc Hp. induction HR; cbn [map]; constructor; [split; [reflexivity | assumption] | assumption].
  - reflexivity.
  - cbn [cs_constraints]. clear Hp HR. revert cl Hc. generalize (sh_stmts sh) as l.
    induction l as [|x l IH]; cbn [map vres_all]; intros cl Hc.
    + inversion Hc. reflexivity.
    + destruct (shex_view ns tau x); try discriminate.
      destruct (vres_all (map (shex_view ns tau) l)) eqn:E; try discriminate.
      inversion Hc; subst. cbn [List.length]. f_equal. apply IH. reflexivity.
Qed.

(** the statement as it reads when the class key is the IRI of the class (every class of a class-based
    extraction: an IRI of the graph or a target class, without corners) or when [_add_target_class] does
    not touch the key *)
Theorem shapes_agree_class ns tau sh : C11_dom_shape ns tau sh = true ->
  target_class_obj (sh_class sh) = sh_class sh ->
  exists cs d, shex_shape_view ns tau sh = VOk cs /\ shacl_shape tau sh = VOk d /\
               same_nshape d (enc_shape cs) /\
               cs_class cs = sh_class sh /\ List.length (cs_constraints cs) = List.length (sh_stmts sh).
Proof.
  intros H Hc. destruct (shapes_agree ns tau sh H) as [cs [d [H1 [H2 [H3 [H4 H5]]]]]].
  exists cs, d. rewrite retarget_id in H3 by (rewrite H4; exact Hc). auto.
Qed.

Theorem docs_agree ns tau shapes : forallb (C11_dom_shape ns tau) shapes = true ->
  exists cs d, shex_doc_view ns tau shapes = VOk cs /\ shacl_doc tau shapes = VOk d /\
               same_doc d (enc_doc (map retarget cs)).
Proof.
  intros H. rewrite forallb_forall in H.
  destruct (vres_all_pair (shex_shape_view ns tau) (shacl_shape tau) (fun b a => same_nshape b (enc_shape (retarget a))) shapes)
    as [cl [dl [Hc [Hd HR]]]].
  { intros sh Hin. destruct (shapes_agree ns tau sh (H sh Hin)) as [cs [d [H1 [H2 [H3 _]]]]].
    exists cs, d. auto. }
  exists cl, dl. split; [exact Hc|]. split; [exact Hd|].
  unfold same_doc, enc_doc. clear Hc Hd. induction HR; cbn [map]; constructor; assumption.
Qed.

Theorem docs_agree_class ns tau shapes : forallb (C11_dom_shape ns tau) shapes = true ->
  (forall sh, In sh shapes -> target_class_obj (sh_class sh) = sh_class sh) ->
  exists cs d, shex_doc_view ns tau shapes = VOk cs /\ shacl_doc tau shapes = VOk d /\
               same_doc d (enc_doc cs).
Proof.
  intros H Hcl. rewrite forallb_forall in H.
  destruct (vres_all_pair (shex_shape_view ns tau) (shacl_shape tau) (fun b a => same_nshape b (enc_shape a)) shapes)
    as [cl [dl [Hc [Hd HR]]]].
  { intros sh Hin. destruct (shapes_agree_class ns tau sh (H sh Hin) (Hcl sh Hin)) as [cs [d [H1 [H2 [H3 _]]]]].
    exists cs, d. auto. }
  exists cl, dl. split; [exact Hc|]. split; [exact Hd|].
  unfold same_doc, enc_doc. clear Hc Hd. induction HR; cbn [map]; constructor; assumption.
Qed.

(** ** reading the SHACL encoding back: [dec] inverts [enc] and does not
    depend on the order of the arcs *)
Lemma dec_int_rint n : dec_int (rint n) = Some n.
Proof.
  unfold dec_int, rint. rewrite str_eqb_refl, dec_of_N_digits, N_of_dec_of_N.
  pose proof (dec_of_N_nonempty n) as H. destruct (dec_of_N n); [contradiction | reflexivity].
Qed.

Lemma dec_enc c : dec (enc c) = Some c.
Proof.
  destruct c as [inv p r mn mx]. unfold enc, enc_arcs, enc_counts. cbn [c_inv c_pred c_restr c_min c_max].
  assert (Hmn : (if (mn =? 0)%N then Some 0%N else dec_int (rint mn)) = Some mn).
  { destruct (N.eqb_spec mn 0); [subst; reflexivity | apply dec_int_rint]. }
  unfold dec.
  destruct r, inv, mx as [m|], (mn =? 0)%N;
    cbn [enc_restr enc_path app arcs_get dec_path dec_restr rdf_list];
    repeat match goal with |- context [str_eqb ?a ?b] =>
             let v := eval vm_compute in (str_eqb a b) in
             change (str_eqb a b) with v; cbn iota end;
    cbn [arcs_get]; rewrite ?dec_int_rint in *; cbn [option_map]; rewrite ?Hmn; try reflexivity;
    try (inversion Hmn; reflexivity).
Qed.

Lemma arcs_get_perm p a b : Permutation a b -> Permutation (arcs_get p a) (arcs_get p b).
Proof.
  induction 1 as [|[q v] a b _ IH|[q v] [q' v'] a|a b c _ IH1 _ IH2].
  - constructor.
  - cbn. destruct (str_eqb p q); [constructor|]; exact IH.
  - cbn. destruct (str_eqb p q), (str_eqb p q'); try apply Permutation_refl. apply perm_swap.
  - eapply perm_trans; eassumption.
Qed.

Lemma perm_short {A} (l l' : list A) : Permutation l l' -> (List.length l <= 1)%nat -> l = l'.
Proof.
  intros H Hl. destruct l as [|x [|y l]]; cbn in Hl; [| |lia].
  - symmetry. apply Permutation_nil, H.
  - symmetry. apply Permutation_length_1_inv, H.
Qed.

Definition dec_keys : list str :=
  [SH "path"; SH "property"; SH "dataType"; SH "nodeKind"; SH "node"; SH "in"; SH "minCount"; SH "maxCount"].

Lemma enc_arcs_short c k : In k dec_keys -> (List.length (arcs_get k (enc_arcs c)) <= 1)%nat.
Proof.
  destruct c as [inv p r mn mx]. unfold enc_arcs, enc_counts. cbn [c_inv c_pred c_restr c_min c_max].
  intros Hk. cbn in Hk.
  repeat (destruct Hk as [Hk|Hk]; [subst k|]); try contradiction;
    destruct r, inv, mx as [m|], (mn =? 0)%N;
    cbn [enc_restr enc_path app arcs_get rdf_list];
    repeat match goal with |- context [str_eqb ?a ?b] =>
             let v := eval vm_compute in (str_eqb a b) in
             change (str_eqb a b) with v; cbn iota end;
    cbn [arcs_get List.length]; lia.
Qed.

(** reading a property shape whose arcs are those of [enc c] in any order gives [c] *)
Theorem dec_sound arcs c : Permutation arcs (enc_arcs c) -> dec (RBlank arcs) = Some c.
Proof.
  intros HP. rewrite <- (dec_enc c). unfold enc.
  assert (G : forall k, In k dec_keys -> arcs_get k arcs = arcs_get k (enc_arcs c)).
  { intros k Hk. symmetry. apply perm_short; [apply arcs_get_perm, Permutation_sym, HP | apply enc_arcs_short, Hk]. }
  unfold dec, dec_path, dec_restr.
  rewrite (G (SH "path")), (G (SH "property")), (G (SH "dataType")), (G (SH "nodeKind")), (G (SH "node")),
    (G (SH "in")), (G (SH "minCount")), (G (SH "maxCount")) by (cbn; tauto).
  reflexivity.
Qed.

Corollary read_back ns tau st : C11_dom ns tau st = true ->
  exists c r, shex_view ns tau st = VOk c /\ shacl_view tau st = VOk r /\ dec r = Some c.
Proof.
  intros H. destruct (views_agree ns tau st H) as [c [arcs [H1 [H2 H3]]]].
  exists c, (RBlank arcs). split; [exact H1|]. split; [apply shacl_view_arcs, H2 | apply dec_sound, H3].
Qed.
