(** * String lemmas used by the C10 proofs (PyStr operations on concatenations). *)
From Coq Require Import List Ascii String ZArith Bool Lia.
From Shexer Require Import Lib.PyStr Model.SelectorsDom.
Import ListNotations.
Local Open Scope Z_scope.

Lemma nochar_cons c x s : nochar c (x :: s) = negb (Ascii.eqb c x) && nochar c s.
Proof. unfold nochar; cbn. rewrite negb_orb. reflexivity. Qed.

Lemma nochar_app c a b : nochar c (a ++ b) = nochar c a && nochar c b.
Proof. unfold nochar. rewrite existsb_app, negb_orb. reflexivity. Qed.

Lemma nochar_In c s : nochar c s = true <-> ~ In c s.
Proof.
  unfold nochar. rewrite negb_true_iff. split.
  - intros H Hin. assert (existsb (Ascii.eqb c) s = true) by (apply existsb_exists; exists c; split; [assumption | apply Ascii.eqb_refl]).
    congruence.
  - intros H. destruct (existsb (Ascii.eqb c) s) eqn:E; [|reflexivity].
    apply existsb_exists in E. destruct E as [x [Hx Hc]]. apply Ascii.eqb_eq in Hc. subst. contradiction.
Qed.

(** ** prefixb / suffixb *)

Lemma prefixb_app p s : prefixb p (p ++ s) = true.
Proof. induction p; cbn; [reflexivity|]. rewrite Ascii.eqb_refl. assumption. Qed.

Lemma prefixb_refl p : prefixb p p = true.
Proof. rewrite <- (app_nil_r p) at 2. apply prefixb_app. Qed.

(** a keyword without [c] is a prefix of [s ++ [c]] iff it is one of [s] *)
Lemma prefixb_snoc_nochar c kw s : nochar c kw = true -> prefixb kw (s ++ [c]) = prefixb kw s.
Proof.
  revert s; induction kw as [|k kw IH]; intros s H; [reflexivity|].
  rewrite nochar_cons in H. apply andb_true_iff in H. destruct H as [Hk Hkw].
  destruct s as [|x s]; cbn.
  - apply negb_true_iff in Hk. rewrite Ascii.eqb_sym in Hk. rewrite Hk. reflexivity.
  - rewrite IH by assumption. reflexivity.
Qed.

Lemma prefixb_app_nochar c kw s r : nochar c kw = true -> prefixb kw (s ++ c :: r) = prefixb kw s.
Proof.
  revert s; induction kw as [|k kw IH]; intros s H; [reflexivity|].
  rewrite nochar_cons in H. apply andb_true_iff in H. destruct H as [Hk Hkw].
  destruct s as [|x s]; cbn.
  - apply negb_true_iff in Hk. rewrite Ascii.eqb_sym in Hk. rewrite Hk. reflexivity.
  - rewrite IH by assumption. reflexivity.
Qed.

Lemma suffixb_snoc c s : suffixb [c] (s ++ [c]) = true.
Proof. unfold suffixb. rewrite rev_app_distr. cbn. rewrite Ascii.eqb_refl. reflexivity. Qed.

Lemma suffixb_one_app c a b : b <> [] -> suffixb [c] (a ++ b) = suffixb [c] b.
Proof.
  intros Hb. unfold suffixb. rewrite rev_app_distr. cbn.
  destruct (rev b) as [|x rb] eqn:E.
  - exfalso. apply Hb. rewrite <- (rev_involutive b), E. reflexivity.
  - reflexivity.
Qed.

Lemma first_colon_inj q p l :
  nochar ":"%char q = true -> nochar ":"%char p = true ->
  prefixb (q ++ Str ":") (p ++ Str ":" ++ l) = true -> q = p.
Proof.
  change (Str ":") with [":"%char].
  revert p; induction q as [|x q IH]; intros p Hq Hp H.
  - destruct p as [|y p]; [reflexivity|]. cbn [app prefixb] in H. rewrite nochar_cons in Hp.
    apply andb_true_iff in Hp. destruct Hp as [Hy _]. apply negb_true_iff in Hy.
    rewrite Hy in H. discriminate.
  - rewrite nochar_cons in Hq. apply andb_true_iff in Hq. destruct Hq as [Hx Hq].
    destruct p as [|y p]; cbn [app prefixb] in H.
    + apply negb_true_iff in Hx. rewrite Ascii.eqb_sym in Hx. rewrite Hx in H. discriminate.
    + apply andb_true_iff in H. destruct H as [Hxy H]. apply Ascii.eqb_eq in Hxy. subst y.
      rewrite nochar_cons in Hp. apply andb_true_iff in Hp. destruct Hp as [_ Hp].
      f_equal. apply IH; assumption.
Qed.

Lemma prefixb_kw_colon kw p l :
  nochar ":"%char kw = true -> prefixb kw p = false -> prefixb kw (p ++ Str ":" ++ l) = false.
Proof.
  change (Str ":") with [":"%char].
  revert p; induction kw as [|k kw IH]; intros p Hk H; [discriminate|].
  rewrite nochar_cons in Hk. apply andb_true_iff in Hk. destruct Hk as [Hk Hkw].
  destruct p as [|y p]; cbn [app prefixb] in *.
  - apply negb_true_iff in Hk. rewrite Ascii.eqb_sym in Hk. rewrite Hk. reflexivity.
  - destruct (Ascii.eqb k y); [|reflexivity]. cbn [andb] in *. apply IH; assumption.
Qed.

(** ** find / contains *)

Lemma contains_cons p c s :
  contains p (c :: s) = prefixb p (c :: s) || contains p s.
Proof.
  unfold contains. cbn [find_nat]. destruct (prefixb p (c :: s)); [reflexivity|].
  destruct (find_nat p s); reflexivity.
Qed.

Lemma contains_false_prefix p s : contains p s = false -> prefixb p s = false.
Proof.
  unfold contains. destruct s; cbn [find_nat]; destruct (prefixb p _); try reflexivity; discriminate.
Qed.

Lemma contains_cons_nochar kw c s : nochar c kw = true -> kw <> [] -> contains kw (c :: s) = contains kw s.
Proof.
  intros H Hne. rewrite contains_cons. destruct kw as [|k kw]; [contradiction|].
  rewrite nochar_cons in H. apply andb_true_iff in H. destruct H as [Hk _].
  apply negb_true_iff in Hk. cbn. rewrite Ascii.eqb_sym, Hk. reflexivity.
Qed.

Lemma contains_snoc_nochar kw c s : nochar c kw = true -> kw <> [] -> contains kw (s ++ [c]) = contains kw s.
Proof.
  intros H Hne. induction s as [|x s IH].
  - cbn [app]. rewrite contains_cons_nochar by assumption. reflexivity.
  - cbn [app]. rewrite !contains_cons, IH. f_equal.
    change (x :: s ++ [c]) with ((x :: s) ++ [c]). apply prefixb_snoc_nochar. assumption.
Qed.

(** ** replace_all *)

Lemma replace_all_fuel_id f a b s : contains a s = false -> replace_all_fuel f a b s = s.
Proof.
  revert s; induction f as [|f IH]; intros s H; [reflexivity|].
  destruct s as [|c s]; [reflexivity|]. cbn [replace_all_fuel].
  rewrite contains_cons in H. apply orb_false_iff in H. destruct H as [Hp Hc].
  rewrite Hp. rewrite IH by assumption. reflexivity.
Qed.

Lemma skipn_app_length {A} (a b : list A) : skipn (List.length a) (a ++ b) = b.
Proof. induction a; cbn; auto. Qed.

Lemma replace_all_fuel_eq f a b c s :
  replace_all_fuel (S f) a b (c :: s) =
  if prefixb a (c :: s)
  then match a with [] => c :: s | _ => b ++ replace_all_fuel f a b (skipn (List.length a) (c :: s)) end
  else c :: replace_all_fuel f a b s.
Proof. reflexivity. Qed.

Lemma replace_all_prefix a b l : a <> [] -> contains a l = false -> replace_all a b (a ++ l) = b ++ l.
Proof.
  intros Hne Hc. unfold replace_all.
  destruct a as [|x a]; [contradiction|].
  change ((x :: a) ++ l) with (x :: (a ++ l)) at 2. rewrite replace_all_fuel_eq.
  change (x :: (a ++ l)) with ((x :: a) ++ l). rewrite prefixb_app.
  rewrite skipn_app_length. rewrite replace_all_fuel_id by assumption. reflexivity.
Qed.

(** ** len / slice / at_idx *)

Lemma len_app a b : len (a ++ b) = len a + len b.
Proof. unfold len. rewrite app_length. lia. Qed.

Lemma len_cons c s : len (c :: s) = 1 + len s.
Proof. unfold len. cbn [List.length]. lia. Qed.

Lemma len_nonneg s : 0 <= len s.
Proof. unfold len. lia. Qed.

Lemma firstn_app_length {A} (a b : list A) : firstn (List.length a) (a ++ b) = a.
Proof. induction a; cbn; [destruct b; reflexivity|]. f_equal. assumption. Qed.

(** [ (c :: s ++ [d])[1:-1] = s ] *)
Lemma slice_inner c d s : slice (c :: s ++ [d]) 1 (-1) = s.
Proof.
  unfold slice, norm_idx.
  assert (Hl : len (c :: s ++ [d]) = len s + 2).
  { rewrite len_cons, len_app. change (len [d]) with 1. lia. }
  rewrite Hl. pose proof (len_nonneg s).
  destruct (1 <? 0) eqn:E1; [apply Z.ltb_lt in E1; lia|].
  destruct (-1 <? 0) eqn:E2; [|apply Z.ltb_ge in E2; lia].
  replace (Z.min 1 (len s + 2)) with 1 by lia.
  replace (Z.max 0 (len s + 2 + -1)) with (len s + 1) by lia.
  replace (Z.to_nat 1) with 1%nat by reflexivity. cbn [skipn].
  replace (Z.to_nat (len s + 1 - 1)) with (List.length s) by (unfold len; lia).
  apply firstn_app_length.
Qed.

Lemma len_one (c : ascii) : len [c] = 1.
Proof. reflexivity. Qed.

Lemma slice_to_snoc s c : slice_to (s ++ [c]) (-1) = s.
Proof.
  unfold slice_to, norm_idx. rewrite len_app, len_one.
  pose proof (len_nonneg s).
  destruct (-1 <? 0) eqn:E2; [|apply Z.ltb_ge in E2; lia].
  replace (Z.to_nat (Z.max 0 (len s + 1 + -1))) with (List.length s) by (unfold len; lia).
  apply firstn_app_length.
Qed.

Lemma at_idx_last s c : at_idx (s ++ [c]) (-1) = Some c.
Proof.
  unfold at_idx. rewrite len_app, len_one.
  pose proof (len_nonneg s).
  destruct (-1 <? 0) eqn:E2; [|apply Z.ltb_ge in E2; lia].
  destruct (len s + 1 + -1 <? 0) eqn:E3; [apply Z.ltb_lt in E3; lia|].
  destruct (len s + 1 <=? len s + 1 + -1) eqn:E4; [apply Z.leb_le in E4; lia|].
  cbn [orb].
  replace (Z.to_nat (len s + 1 + -1)) with (List.length s) by (unfold len; lia).
  rewrite nth_error_app2 by lia. rewrite Nat.sub_diag. reflexivity.
Qed.

Lemma at_idx_last_nil : at_idx [] (-1) = None.
Proof. reflexivity. Qed.

(** ** strip *)

Definition edge_ok (s : str) : Prop :=
  match s with [] => True | c :: _ => is_space c = false end.

Lemma lstrip_id s : edge_ok s -> lstrip s = s.
Proof. destruct s; cbn; [reflexivity|]. intros ->. reflexivity. Qed.

Lemma strip_id s : edge_ok s -> edge_ok (rev s) -> strip s = s.
Proof.
  intros H1 H2. unfold strip, rstrip. rewrite (lstrip_id s H1), (lstrip_id _ H2). apply rev_involutive.
Qed.

Lemma strip_id_snoc c s d : is_space c = false -> is_space d = false -> strip (c :: s ++ [d]) = c :: s ++ [d].
Proof.
  intros Hc Hd. apply strip_id; [exact Hc|].
  change (c :: s ++ [d]) with ((c :: s) ++ [d]). rewrite rev_app_distr. exact Hd.
Qed.

Lemma strip_blank_cons s : strip (" "%char :: s) = strip s.
Proof. reflexivity. Qed.

Lemma nospace_app a b : nospace (a ++ b) = nospace a && nospace b.
Proof. unfold nospace. rewrite existsb_app, negb_orb. reflexivity. Qed.

Lemma nospace_cons c s : nospace (c :: s) = negb (is_space c) && nospace s.
Proof. unfold nospace; cbn. rewrite negb_orb. reflexivity. Qed.

Lemma nospace_rev s : nospace (rev s) = nospace s.
Proof.
  induction s as [|c s IH]; [reflexivity|]. cbn [rev]. rewrite nospace_app, IH, !nospace_cons.
  cbn. rewrite andb_true_r. apply andb_comm.
Qed.

Lemma nospace_edge s : nospace s = true -> edge_ok s.
Proof. destruct s; cbn; [trivial|]. rewrite nospace_cons. intros H. apply andb_true_iff in H. destruct H as [H _]. apply negb_true_iff in H. exact H. Qed.

Lemma strip_nospace s : nospace s = true -> strip s = s.
Proof. intros H. apply strip_id; apply nospace_edge; [|rewrite nospace_rev]; assumption. Qed.

Lemma nospace_noblank s : nospace s = true -> nochar " "%char s = true.
Proof.
  induction s as [|c s IH]; [reflexivity|]. rewrite nospace_cons, nochar_cons. intros H.
  apply andb_true_iff in H. destruct H as [Hc Hs]. rewrite IH by assumption. rewrite andb_true_r.
  apply negb_true_iff. destruct (Ascii.eqb " " c) eqn:E; [|reflexivity].
  apply Ascii.eqb_eq in E. subst c. discriminate.
Qed.

Lemma nospace_nonl s : nospace s = true -> nochar (ascii_of_nat 10) s = true.
Proof.
  induction s as [|c s IH]; [reflexivity|]. rewrite nospace_cons, nochar_cons. intros H.
  apply andb_true_iff in H. destruct H as [Hc Hs]. rewrite IH by assumption. rewrite andb_true_r.
  apply negb_true_iff. destruct (Ascii.eqb (ascii_of_nat 10) c) eqn:E; [|reflexivity].
  apply Ascii.eqb_eq in E. subst c. discriminate.
Qed.

(** ** split on a one-character separator *)

Lemma split_fuel_nosep f c a acc : nochar c a = true -> split_fuel f [c] a acc = [rev acc ++ a].
Proof.
  revert a acc; induction f as [|f IH]; intros a acc H; [reflexivity|].
  destruct a as [|x a]; cbn [split_fuel].
  - rewrite app_nil_r. reflexivity.
  - rewrite nochar_cons in H. apply andb_true_iff in H. destruct H as [Hx Ha].
    apply negb_true_iff in Hx. cbn [prefixb]. rewrite Hx. cbn [andb].
    rewrite IH by assumption. cbn [rev]. rewrite <- app_assoc. reflexivity.
Qed.

Lemma split_fuel_sep f c a rest acc :
  nochar c a = true -> (List.length a < f)%nat ->
  split_fuel f [c] (a ++ c :: rest) acc = (rev acc ++ a) :: split_fuel (f - List.length a - 1) [c] rest [].
Proof.
  revert a acc; induction f as [|f IH]; intros a acc H Hf; [lia|].
  destruct a as [|x a].
  - cbn [app split_fuel prefixb]. rewrite Ascii.eqb_refl. cbn [andb List.length skipn].
    rewrite app_nil_r. replace (S f - 0 - 1)%nat with f by lia. reflexivity.
  - rewrite nochar_cons in H. apply andb_true_iff in H. destruct H as [Hx Ha].
    apply negb_true_iff in Hx. cbn [app split_fuel prefixb]. rewrite Hx. cbn [andb].
    cbn [List.length] in Hf. rewrite IH by (assumption || lia).
    cbn [rev List.length]. rewrite <- app_assoc. f_equal.
Qed.

Lemma join_cons_cons sep x y l : join sep (x :: y :: l) = x ++ sep ++ join sep (y :: l).
Proof. reflexivity. Qed.

Lemma join_length_one c l :
  List.length (join [c] l) = (fold_right (fun x n => List.length x + 1 + n) 0 l - 1)%nat.
Proof.
  induction l as [|x l IH]; [reflexivity|].
  destruct l as [|y l].
  - cbn. lia.
  - rewrite join_cons_cons, !app_length, IH. cbn [fold_right List.length]. lia.
Qed.

Lemma split_fuel_join c l f :
  l <> [] -> Forall (fun x => nochar c x = true) l ->
  (List.length (join [c] l) < f)%nat ->
  split_fuel f [c] (join [c] l) [] = l.
Proof.
  revert f; induction l as [|x l IH]; intros f Hne Hall Hf; [contradiction|].
  inversion Hall as [|? ? Hx Hl]; subst.
  destruct l as [|y l].
  - cbn [join]. rewrite split_fuel_nosep by assumption. reflexivity.
  - rewrite join_cons_cons in *. cbn [app] in *. rewrite app_length in Hf. cbn [List.length] in Hf.
    rewrite split_fuel_sep by (assumption || lia). cbn [rev app]. f_equal.
    apply IH; [discriminate | assumption | lia].
Qed.

Lemma split_join c l :
  l <> [] -> Forall (fun x => nochar c x = true) l -> split [c] (join [c] l) = l.
Proof. intros. unfold split. apply split_fuel_join; auto. Qed.

Lemma split_two c a b : nochar c a = true -> nochar c b = true -> split [c] (a ++ c :: b) = [a; b].
Proof.
  intros Ha Hb. change (a ++ c :: b) with (a ++ [c] ++ b).
  change (a ++ [c] ++ b) with (join [c] [a; b]). apply split_join; [discriminate|].
  repeat constructor; assumption.
Qed.

(** ** collapse_blanks *)

Lemma collapse_word b w rest :
  nochar " "%char w = true -> w <> [] ->
  collapse_blanks_aux b (w ++ rest) = w ++ collapse_blanks_aux false rest.
Proof.
  revert b; induction w as [|c w IH]; intros b H Hne; [contradiction|].
  rewrite nochar_cons in H. apply andb_true_iff in H. destruct H as [Hc Hw].
  apply negb_true_iff in Hc. rewrite Ascii.eqb_sym in Hc.
  cbn [app collapse_blanks_aux]. rewrite Hc. f_equal.
  destruct w as [|d w]; [reflexivity|]. apply IH; [assumption | discriminate].
Qed.

Lemma collapse_three w1 w2 w3 :
  nochar " "%char w1 = true -> nochar " "%char w2 = true -> nochar " "%char w3 = true ->
  w1 <> [] -> w2 <> [] -> w3 <> [] ->
  collapse_blanks (w1 ++ Str " " ++ w2 ++ Str " " ++ w3) = w1 ++ Str " " ++ w2 ++ Str " " ++ w3.
Proof.
  intros H1 H2 H3 N1 N2 N3. unfold collapse_blanks.
  rewrite collapse_word by assumption. f_equal.
  cbn [Str list_ascii_of_string app collapse_blanks_aux Ascii.eqb]. cbn. f_equal.
  destruct w2 as [|c w2]; [contradiction|].
  pose proof H2 as H2'. rewrite nochar_cons in H2'. apply andb_true_iff in H2'. destruct H2' as [Hc _].
  apply negb_true_iff in Hc. rewrite Ascii.eqb_sym in Hc.
  change ((c :: w2) ++ " "%char :: w3) with (c :: (w2 ++ " "%char :: w3)).
  cbn [collapse_blanks_aux]. rewrite Hc. f_equal.
  destruct w2 as [|d w2].
  - cbn [app collapse_blanks_aux]. cbn. f_equal.
    destruct w3 as [|e w3]; [contradiction|].
    rewrite nochar_cons in H3. apply andb_true_iff in H3. destruct H3 as [He H3].
    apply negb_true_iff in He. rewrite Ascii.eqb_sym in He.
    cbn [collapse_blanks_aux]. rewrite He. f_equal.
    rewrite <- (app_nil_r w3) at 1. destruct w3; [reflexivity|].
    rewrite collapse_word by (assumption || discriminate). rewrite app_nil_r. reflexivity.
  - rewrite nochar_cons in H2. apply andb_true_iff in H2. destruct H2 as [_ H2].
    rewrite collapse_word by (assumption || discriminate). f_equal.
    cbn [collapse_blanks_aux]. cbn. f_equal.
    destruct w3 as [|e w3]; [contradiction|].
    rewrite <- (app_nil_r (e :: w3)) at 1.
    rewrite collapse_word by (assumption || discriminate). rewrite app_nil_r. reflexivity.
Qed.

(** ** lower *)

Lemma lower_keeps_colon s : In ":"%char s -> In ":"%char (lower s).
Proof. intros H. unfold lower. apply in_map_iff. exists ":"%char. split; [reflexivity | assumption]. Qed.

Lemma str_eqb_false_In c a b : In c a -> ~ In c b -> str_eqb a b = false.
Proof. intros Ha Hb. apply str_eqb_neq. intros ->. contradiction. Qed.

Lemma str_eqb_sym_aux a b : str_eqb a b = str_eqb b a.
Proof.
  destruct (str_eqb a b) eqn:E.
  - apply str_eqb_eq in E. subst. symmetry. apply str_eqb_refl.
  - symmetry. apply str_eqb_neq. apply str_eqb_neq in E. congruence.
Qed.

(** ** rfind / find of a one-character pattern, slices at a concatenation point *)

Lemma rfind_aux_nochar c s : forall i best, nochar c s = true -> rfind_nat_aux [c] s i best = best.
Proof.
  induction s as [|x s IH]; intros i best H; [reflexivity|].
  rewrite nochar_cons in H. apply andb_true_iff in H. destruct H as [Hx Hs]. apply negb_true_iff in Hx.
  cbn [rfind_nat_aux prefixb]. rewrite Hx. cbn [andb]. apply IH. assumption.
Qed.

Lemma rfind_aux_last c a b : forall i best,
  nochar c b = true -> rfind_nat_aux [c] (a ++ c :: b) i best = Some (i + List.length a)%nat.
Proof.
  induction a as [|x a IH]; intros i best H.
  - cbn [app rfind_nat_aux prefixb]. rewrite Ascii.eqb_refl. cbn [andb].
    rewrite rfind_aux_nochar by assumption. cbn [List.length]. f_equal. lia.
  - cbn [app rfind_nat_aux]. rewrite IH by assumption. cbn [List.length]. f_equal. lia.
Qed.

Lemma rfind_last c a b : nochar c b = true -> rfind [c] (a ++ c :: b) = len a.
Proof. intros H. unfold rfind, rfind_nat. rewrite rfind_aux_last by assumption. reflexivity. Qed.

Lemma find_first c p l : nochar c p = true -> find [c] (p ++ c :: l) = len p.
Proof.
  intros H. unfold find, len.
  assert (E : find_nat [c] (p ++ c :: l) = Some (List.length p)).
  { induction p as [|x p IH].
    - cbn [app find_nat prefixb]. rewrite Ascii.eqb_refl. reflexivity.
    - rewrite nochar_cons in H. apply andb_true_iff in H. destruct H as [Hx Hp]. apply negb_true_iff in Hx.
      cbn [app find_nat prefixb]. rewrite Hx. cbn [andb]. rewrite IH by assumption. reflexivity. }
  rewrite E. reflexivity.
Qed.

Lemma slice_to_app a b : slice_to (a ++ b) (len a) = a.
Proof.
  unfold slice_to, norm_idx. rewrite len_app. pose proof (len_nonneg a). pose proof (len_nonneg b).
  destruct (len a <? 0) eqn:E; [apply Z.ltb_lt in E; lia|].
  replace (Z.to_nat (Z.min (len a) (len a + len b))) with (List.length a) by (unfold len in *; lia).
  apply firstn_app_length.
Qed.

Lemma slice_from_app a b : slice_from (a ++ b) (len a) = b.
Proof.
  unfold slice_from, norm_idx. rewrite len_app. pose proof (len_nonneg a). pose proof (len_nonneg b).
  destruct (len a <? 0) eqn:E; [apply Z.ltb_lt in E; lia|].
  replace (Z.to_nat (Z.min (len a) (len a + len b))) with (List.length a) by (unfold len in *; lia).
  apply skipn_app_length.
Qed.
