(** * C14 (shexing half) — inverse paths leave the direct part untouched.
    The frequency laws used (totality and transitivity of [fle] on the
    probabilities of a class with [cnt] instances: [order_at fa cnt]) are
    premises; Proofs/FreqOrder.v proves them for the two algebras and
    Props/C14shex.v instantiates. *)
From Coq Require Import List Ascii String ZArith NArith Bool Lia Permutation Sorted.
From Shexer Require Import Lib.PyStr Lib.Dict Gen.Consts Model.Profiler Model.Tokens Model.Freq Model.Shexing.
From Shexer Require Import Proofs.ShexBasics Proofs.SelectRel.
Import ListNotations.

Definition is_direct (s : stmt) : bool := negb (s_inv s).
Definition is_inverse (s : stmt) : bool := s_inv s.

(** [fle] is a total preorder on the values a statement's probability can
    take for a class with [cnt] instances *)
Definition order_at (fa : FreqAlg) (cnt : N) : Prop :=
  (forall p q : prob, fle fa (pval fa cnt p) (pval fa cnt q) = false ->
                      fle fa (pval fa cnt q) (pval fa cnt p) = true) /\
  (forall p q r : prob, fle fa (pval fa cnt p) (pval fa cnt q) = true ->
                        fle fa (pval fa cnt q) (pval fa cnt r) = true ->
                        fle fa (pval fa cnt p) (pval fa cnt r) = true).

(** ** filtering commutes with the stable insertion sort *)
Section SortFilter.
  Variable fa : FreqAlg.
  Variable cnt : N.
  Hypothesis Hord : order_at fa cnt.

  Lemma fle_total (x y : stmt) :
    fle fa (pv fa cnt x) (pv fa cnt y) = false -> fle fa (pv fa cnt y) (pv fa cnt x) = true.
  Proof. unfold pv. apply (proj1 Hord). Qed.

  Lemma fle_trans (x y z : stmt) :
    fle fa (pv fa cnt x) (pv fa cnt y) = true -> fle fa (pv fa cnt y) (pv fa cnt z) = true ->
    fle fa (pv fa cnt x) (pv fa cnt z) = true.
  Proof. unfold pv. apply (proj2 Hord). Qed.

  (** [a] may stand before [b] in a descending list *)
  Definition ge_stmt (a b : stmt) : Prop := fle fa (pv fa cnt b) (pv fa cnt a) = true.

  Definition sorted_desc (l : list stmt) : Prop := StronglySorted ge_stmt l.

  Lemma insert_desc_In x y l : In y (insert_desc fa cnt x l) -> y = x \/ In y l.
  Proof.
    intros H. apply (Permutation_in y (Permutation_sym (insert_desc_perm fa cnt x l))) in H.
    destruct H as [H|H]; [left; symmetry; exact H | right; exact H].
  Qed.

  Lemma insert_desc_sorted x l : sorted_desc l -> sorted_desc (insert_desc fa cnt x l).
  Proof.
    intros Hs. induction Hs as [|y l Hl IH Hy]; simpl.
    - constructor; [constructor | constructor].
    - destruct (fle fa (pv fa cnt x) (pv fa cnt y)) eqn:E.
      + constructor; [exact IH|]. rewrite Forall_forall. intros z Hz.
        apply insert_desc_In in Hz. destruct Hz as [->|Hz]; [exact E|].
        rewrite Forall_forall in Hy. apply Hy, Hz.
      + constructor; [constructor; assumption|].
        pose proof (fle_total _ _ E) as Eyx.
        constructor; [exact Eyx|]. rewrite Forall_forall in *. intros z Hz.
        unfold ge_stmt. eapply fle_trans; [apply Hy, Hz | exact Eyx].
  Qed.

  Lemma insert_desc_head x l :
    Forall (fun z => fle fa (pv fa cnt x) (pv fa cnt z) = false) l -> insert_desc fa cnt x l = x :: l.
  Proof.
    intros H. destruct l as [|z l]; simpl; [reflexivity|]. inversion H as [|? ? Hz _]; subst.
    rewrite Hz. reflexivity.
  Qed.

  Lemma filter_insert_true (p : stmt -> bool) x l :
    sorted_desc l -> p x = true ->
    filter p (insert_desc fa cnt x l) = insert_desc fa cnt x (filter p l).
  Proof.
    intros Hs Hp. induction Hs as [|y l Hl IH Hy]; simpl.
    - rewrite Hp. reflexivity.
    - destruct (fle fa (pv fa cnt x) (pv fa cnt y)) eqn:E; simpl.
      + destruct (p y); simpl; rewrite ?E, IH; reflexivity.
      + rewrite Hp. symmetry.
        change (if p y then y :: filter p l else filter p l) with (filter p (y :: l)).
        apply insert_desc_head. rewrite Forall_forall. intros z Hz.
        apply filter_In in Hz. destruct Hz as [Hz _]. destruct Hz as [<-|Hz]; [exact E|].
        destruct (fle fa (pv fa cnt x) (pv fa cnt z)) eqn:Ez; [|reflexivity].
        rewrite Forall_forall in Hy. rewrite <- E. symmetry.
        eapply fle_trans; [exact Ez | apply Hy, Hz].
  Qed.

  Lemma filter_insert_false (p : stmt -> bool) x l :
    p x = false -> filter p (insert_desc fa cnt x l) = filter p l.
  Proof.
    intros Hp. induction l as [|y l IH]; simpl; [rewrite Hp; reflexivity|].
    destruct (fle fa (pv fa cnt x) (pv fa cnt y)); simpl.
    - rewrite IH. reflexivity.
    - rewrite Hp. reflexivity.
  Qed.

  Lemma filter_fold_insert (p : stmt -> bool) l : forall acc,
    sorted_desc acc ->
    filter p (fold_left (fun a x => insert_desc fa cnt x a) l acc) =
    fold_left (fun a x => insert_desc fa cnt x a) (filter p l) (filter p acc).
  Proof.
    induction l as [|x l IH]; simpl; intros acc Hs; [reflexivity|].
    rewrite IH by (apply insert_desc_sorted; exact Hs).
    destruct (p x) eqn:Hp; simpl.
    - rewrite filter_insert_true by assumption. reflexivity.
    - rewrite filter_insert_false by assumption. reflexivity.
  Qed.

  Lemma filter_sort_desc (p : stmt -> bool) l :
    filter p (sort_desc fa cnt l) = sort_desc fa cnt (filter p l).
  Proof. unfold sort_desc. apply (filter_fold_insert p l []). constructor. Qed.

  Lemma sort_desc_sorted l : sorted_desc (sort_desc fa cnt l).
  Proof.
    unfold sort_desc.
    assert (H : forall acc, sorted_desc acc ->
                            sorted_desc (fold_left (fun a x => insert_desc fa cnt x a) l acc)).
    { induction l as [|x l IH]; simpl; intros acc Hs; [exact Hs|].
      apply IH, insert_desc_sorted, Hs. }
    apply H. constructor.
  Qed.
End SortFilter.

(** ** list facts *)
Lemma filter_all_true {A} (p : A -> bool) l : Forall (fun x => p x = true) l -> filter p l = l.
Proof.
  intros F. induction F as [|x l Hx F IH]; simpl; [reflexivity|]. rewrite Hx, IH. reflexivity.
Qed.

Lemma filter_all_false {A} (p : A -> bool) l : Forall (fun x => p x = false) l -> filter p l = [].
Proof.
  intros F. induction F as [|x l Hx F IH]; simpl; [reflexivity|]. rewrite Hx, IH. reflexivity.
Qed.

Lemma map_err_filter {A E} (f : A -> A + E) (p : A -> bool) l r :
  (forall x y, f x = inl y -> p y = p x) ->
  map_err f l = inl r -> map_err f (filter p l) = inl (filter p r).
Proof.
  intros Hp. revert r. induction l as [|x l IH]; simpl; intros r H.
  - inversion H; subst. reflexivity.
  - destruct (f x) as [y|e] eqn:Ef; [|discriminate].
    destruct (map_err f l) as [ys|e]; [|discriminate]. inversion H; subst. simpl.
    rewrite (Hp x y Ef). destruct (p x); simpl; rewrite ?Ef, (IH ys eq_refl); reflexivity.
Qed.

(** ** the direction flag through selection and tuning *)
Lemma select_valid_dir fa cfg cnt b l r :
  Forall (fun s => s_inv s = b) l -> select_valid fa cfg cnt l = inl r -> Forall (fun s => s_inv s = b) r.
Proof.
  intros Hl H. eapply select_valid_inv; [| | |exact Hl|exact H].
  - intros s k Hs. exact Hs.
  - intros x i Hx _. exact Hx.
  - intros d tys g Hd _ _. exact Hd.
Qed.

Lemma base_statements_dir fa thr cnt b pd :
  Forall (fun s => s_inv s = b) (base_statements fa thr cnt b pd).
Proof. apply base_statements_Forall. intros. reflexivity. Qed.

Lemma relax_dir fa cfg cnt x y : relax fa cfg cnt x = inl y -> s_inv y = s_inv x.
Proof.
  unfold relax. destruct (negb _).
  - destruct (comment_of cfg x); [|discriminate]. intros H; inversion H; subst. reflexivity.
  - intros H; inversion H; subst. reflexivity.
Qed.

Lemma post1_dir cfg s : s_inv (post1 cfg s) = s_inv s.
Proof.
  unfold post1, generalize_exact, drop_comments.
  destruct (x_disable_exact cfg), (x_disable_comments cfg); simpl; try reflexivity;
    destruct (s_card s) as [k| | |]; simpl; try reflexivity; destruct (N.ltb 1 k); reflexivity.
Qed.

Lemma dir_direct l : Forall (fun s => s_inv s = false) l -> Forall (fun s => is_direct s = true) l.
Proof. apply Forall_impl. intros s H. unfold is_direct. rewrite H. reflexivity. Qed.

Lemma inv_not_direct l : Forall (fun s => s_inv s = true) l -> Forall (fun s => is_direct s = false) l.
Proof. apply Forall_impl. intros s H. unfold is_direct. rewrite H. reflexivity. Qed.

Lemma filter_direct_app d i :
  Forall (fun s => s_inv s = false) d -> Forall (fun s => s_inv s = true) i ->
  filter is_direct (d ++ i) = d.
Proof.
  intros Hd Hi. rewrite filter_app, (filter_all_true _ d (dir_direct d Hd)),
    (filter_all_false _ i (inv_not_direct i Hi)). apply app_nil_r.
Qed.

Lemma filter_inverse_app d i :
  Forall (fun s => s_inv s = false) d -> Forall (fun s => s_inv s = true) i ->
  filter is_inverse (d ++ i) = i.
Proof.
  intros Hd Hi. rewrite filter_app.
  rewrite (filter_all_false is_inverse d), (filter_all_true is_inverse i); [reflexivity| |].
  - revert Hi. apply Forall_impl. intros s H. exact H.
  - revert Hd. apply Forall_impl. intros s H. exact H.
Qed.

Section Inverse.
  Variable fa : FreqAlg.

  (** the direct (resp. inverse) part of a tuned list is the tuned direct
      (resp. inverse) part *)
  Lemma tune_filter cfg cnt (p : stmt -> bool) v st :
    order_at fa cnt ->
    (forall s, p (post1 cfg s) = p s) ->
    (forall x y, relax fa cfg cnt x = inl y -> p y = p x) ->
    tune fa cfg cnt v = inl st -> tune fa cfg cnt (filter p v) = inl (filter p st).
  Proof.
    intros Hord Hpost Hrel. rewrite !tune_eq.
    rewrite <- (filter_sort_desc fa cnt Hord p v).
    generalize (sort_desc fa cnt v). intros l.
    destruct (relax_phase fa cfg cnt l) as [l1|e] eqn:E; simpl; [|discriminate].
    intros H; inversion H; subst.
    assert (E' : relax_phase fa cfg cnt (filter p l) = inl (filter p l1)).
    { unfold relax_phase in *. destruct (x_all_compliant cfg).
      - apply map_err_filter; assumption.
      - inversion E; subst. reflexivity. }
    rewrite E'. simpl. rewrite (filter_map_comm (post1 cfg) p p l1 Hpost). reflexivity.
  Qed.

  Variable cfg : scfg.
  Variable thr : F fa.
  Variable counts : ccounts.
  Variable ce : str * centry.

  Let cnt := class_cnt counts ce.
  Hypothesis Hord : order_at fa cnt.
  Let D := base_statements fa thr cnt false (c_direct (snd ce)).
  Let I := base_statements fa thr cnt true (c_inverse (snd ce)).

  Lemma sorted_true_direct :
    filter is_direct (class_sorted fa (with_inverse true cfg) thr counts ce) = sort_desc fa cnt D.
  Proof.
    unfold class_sorted; simpl. rewrite (filter_sort_desc fa _ Hord).
    fold cnt D I. rewrite filter_direct_app; [reflexivity | apply base_statements_dir | apply base_statements_dir].
  Qed.

  Lemma sorted_true_inverse :
    filter is_inverse (class_sorted fa (with_inverse true cfg) thr counts ce) = sort_desc fa cnt I.
  Proof.
    unfold class_sorted; simpl. rewrite (filter_sort_desc fa _ Hord).
    fold cnt D I. rewrite filter_inverse_app; [reflexivity | apply base_statements_dir | apply base_statements_dir].
  Qed.

  Lemma sorted_false_direct :
    filter is_direct (class_sorted fa (with_inverse false cfg) thr counts ce) = sort_desc fa cnt D.
  Proof.
    unfold class_sorted; simpl. rewrite (filter_sort_desc fa _ Hord).
    fold cnt D. rewrite filter_direct_app; [reflexivity | apply base_statements_dir | constructor].
  Qed.

  Lemma sorted_false_inverse :
    filter is_inverse (class_sorted fa (with_inverse false cfg) thr counts ce) = [].
  Proof.
    unfold class_sorted; simpl. rewrite (filter_sort_desc fa _ Hord).
    fold cnt D. rewrite filter_inverse_app; [reflexivity | apply base_statements_dir | constructor].
  Qed.

  (** [shex_class] with and without inverse paths, in terms of the sorted
      direct / inverse base statements *)
  Lemma shex_class_inverse_true :
    shex_class fa (with_inverse true cfg) thr counts ce =
    bind_res (select_valid fa cfg cnt (sort_desc fa cnt D))
      (fun vd => bind_res (select_valid fa cfg cnt (sort_desc fa cnt I))
         (fun vi => map_res (mk_shape cfg counts ce) (tune fa cfg cnt (vd ++ vi)))).
  Proof.
    rewrite shex_class_eq.
    change (fun s => negb (s_inv s)) with is_direct. change (fun s => s_inv s) with is_inverse.
    rewrite sorted_true_direct, sorted_true_inverse. reflexivity.
  Qed.

  Lemma shex_class_inverse_false :
    shex_class fa (with_inverse false cfg) thr counts ce =
    bind_res (select_valid fa cfg cnt (sort_desc fa cnt D))
      (fun vd => map_res (mk_shape cfg counts ce) (tune fa cfg cnt vd)).
  Proof.
    rewrite shex_class_eq.
    change (fun s => negb (s_inv s)) with is_direct. change (fun s => s_inv s) with is_inverse.
    rewrite sorted_false_direct, sorted_false_inverse.
    change (select_valid fa (with_inverse false cfg)) with (select_valid fa cfg).
    destruct (select_valid fa cfg _ (sort_desc fa cnt D)) as [vd|e]; simpl; [|reflexivity].
    rewrite app_nil_r. reflexivity.
  Qed.

  (** I1 *)
  Theorem I1_direct_untouched sh_t :
    shex_class fa (with_inverse true cfg) thr counts ce = inl sh_t ->
    exists sh_f,
      shex_class fa (with_inverse false cfg) thr counts ce = inl sh_f /\
      filter is_direct (sh_stmts sh_t) = sh_stmts sh_f /\
      sh_n sh_t = sh_n sh_f /\ sh_name sh_t = sh_name sh_f /\ sh_class sh_t = sh_class sh_f.
  Proof.
    rewrite shex_class_inverse_true, shex_class_inverse_false.
    destruct (select_valid fa cfg cnt (sort_desc fa cnt D)) as [vd|e] eqn:Ed; simpl; [|discriminate].
    destruct (select_valid fa cfg cnt (sort_desc fa cnt I)) as [vi|e] eqn:Ei; simpl; [|discriminate].
    destruct (tune fa cfg cnt (vd ++ vi)) as [st|e] eqn:Et; simpl; [|discriminate].
    intros H; inversion H; subst; clear H.
    assert (Hvd : Forall (fun s => s_inv s = false) vd).
    { eapply select_valid_dir; [|exact Ed]. apply sort_desc_Forall, base_statements_dir. }
    assert (Hvi : Forall (fun s => s_inv s = true) vi).
    { eapply select_valid_dir; [|exact Ei]. apply sort_desc_Forall, base_statements_dir. }
    pose proof (tune_filter cfg cnt is_direct (vd ++ vi) st) as Hf.
    rewrite (filter_direct_app vd vi Hvd Hvi) in Hf. rewrite Hf; [|exact Hord| | |exact Et].
    - eexists. split; [reflexivity|]. simpl. repeat split.
    - intros s. unfold is_direct. rewrite post1_dir. reflexivity.
    - intros x y Hxy. unfold is_direct. rewrite (relax_dir _ _ _ _ _ Hxy). reflexivity.
  Qed.

  (** the inverse part, as the tuned inverse selection (first half of I2) *)
  Lemma inverse_part sh_t :
    shex_class fa (with_inverse true cfg) thr counts ce = inl sh_t ->
    exists vi, select_valid fa cfg cnt (sort_desc fa cnt I) = inl vi /\
               tune fa cfg cnt vi = inl (filter is_inverse (sh_stmts sh_t)).
  Proof.
    rewrite shex_class_inverse_true.
    destruct (select_valid fa cfg cnt (sort_desc fa cnt D)) as [vd|e] eqn:Ed; simpl; [|discriminate].
    destruct (select_valid fa cfg cnt (sort_desc fa cnt I)) as [vi|e] eqn:Ei; simpl; [|discriminate].
    destruct (tune fa cfg cnt (vd ++ vi)) as [st|e] eqn:Et; simpl; [|discriminate].
    intros H; inversion H; subst; clear H. exists vi. split; [reflexivity|].
    assert (Hvd : Forall (fun s => s_inv s = false) vd).
    { eapply select_valid_dir; [|exact Ed]. apply sort_desc_Forall, base_statements_dir. }
    assert (Hvi : Forall (fun s => s_inv s = true) vi).
    { eapply select_valid_dir; [|exact Ei]. apply sort_desc_Forall, base_statements_dir. }
    pose proof (tune_filter cfg cnt is_inverse (vd ++ vi) st) as Hf.
    rewrite (filter_inverse_app vd vi Hvd Hvi) in Hf. simpl. apply Hf; [exact Hord| | |exact Et].
    - intros s. unfold is_inverse. apply post1_dir.
    - intros x y Hxy. unfold is_inverse. apply (relax_dir _ _ _ _ _ Hxy).
  Qed.

  (** a failure without inverse paths is a failure with them *)
  Corollary I1_failure e :
    shex_class fa (with_inverse false cfg) thr counts ce = inr e ->
    exists e', shex_class fa (with_inverse true cfg) thr counts ce = inr e'.
  Proof.
    intros Hf. destruct (shex_class fa (with_inverse true cfg) thr counts ce) as [sh_t|e'] eqn:Et.
    - destruct (I1_direct_untouched sh_t Et) as (sh_f & H & _). rewrite H in Hf. discriminate.
    - exists e'. reflexivity.
  Qed.
End Inverse.

(** ** I2 — the inverse statements are what the direct strategy computes from
    the inverse features, with the direction flag set *)
Definition set_inv (s : stmt) : stmt :=
  {| s_inv := true; s_prop := s_prop s; s_types := s_types s; s_choice := s_choice s;
     s_card := s_card s; s_nocc := s_nocc s; s_prob := s_prob s; s_comments := s_comments s |}.

(** the class entry whose direct features are the original inverse features *)
Definition swap_entry (ce : str * centry) : str * centry :=
  (fst ce, {| c_direct := c_inverse (snd ce); c_inverse := [] |}).

Definition flipped : stmt -> stmt -> Prop :=
  stmt_rel (fun x _ => x = true) (fun k1 k2 : comment => k1 = k2).

Lemma Forall2_eq {A} (l1 l2 : list A) : Forall2 eq l1 l2 -> l1 = l2.
Proof. intros F. induction F; [reflexivity | subst; reflexivity]. Qed.

Lemma flipped_set_inv a b : flipped a b -> a = set_inv b.
Proof.
  intros [Hi Hp Ht Hc Hk Hn Hpr Hcm]. apply Forall2_eq in Hcm.
  destruct a, b; unfold set_inv; simpl in *. subst. reflexivity.
Qed.

Lemma flipped_list l1 l2 : Forall2 flipped l1 l2 -> l1 = map set_inv l2.
Proof.
  intros F. induction F as [|a b l1 l2 Hab F IH]; simpl; [reflexivity|].
  rewrite (flipped_set_inv a b Hab), IH. reflexivity.
Qed.

Lemma flipped_comment cfg a b :
  flipped a b -> res_rel (fun k1 k2 : comment => k1 = k2) (comment_of cfg a) (comment_of cfg b).
Proof.
  intros [Hi Hp Ht Hc Hk Hn Hpr Hcm]. unfold comment_of, s_type. rewrite Hc, Hpr, Hn, Hk, Ht.
  destruct (s_choice b); simpl; [reflexivity|].
  destruct (tune_token (x_ns cfg) (hd [] (s_types b))); simpl; reflexivity.
Qed.

Lemma cfg_agree_refl cfg : cfg_agree cfg cfg.
Proof. unfold cfg_agree. repeat split. Qed.

Lemma Forall2_flat_map {A B C} (R : B -> C -> Prop) (f : A -> list B) (g : A -> list C) l :
  (forall x, In x l -> Forall2 R (f x) (g x)) -> Forall2 R (flat_map f l) (flat_map g l).
Proof.
  induction l as [|x l IH]; simpl; intros H; [constructor|].
  apply Forall2_app; [apply H; left; reflexivity | apply IH; intros y Hy; apply H; right; exact Hy].
Qed.

Lemma base_statements_flipped fa thr cnt pd :
  Forall2 flipped (base_statements fa thr cnt true pd) (base_statements fa thr cnt false pd).
Proof.
  unfold base_statements.
  apply Forall2_flat_map. intros pe _. apply Forall2_flat_map. intros ke _.
  apply Forall2_flat_map. intros ce _.
  destruct (fle fa thr (ratio fa (snd ce) cnt)); [|constructor].
  constructor; [|constructor]. constructor; simpl; try reflexivity. constructor.
Qed.

Section Inverse2.
  Variable fa : FreqAlg.

  Theorem I2_inverse_part cfg thr counts ce sh_t :
    order_at fa (class_cnt counts ce) ->
    shex_class fa (with_inverse true cfg) thr counts ce = inl sh_t ->
    exists sh', shex_class fa (with_inverse false cfg) thr counts (swap_entry ce) = inl sh' /\
                filter is_inverse (sh_stmts sh_t) = map set_inv (sh_stmts sh').
  Proof.
    intros Hord H.
    destruct (inverse_part fa cfg thr counts ce Hord sh_t H) as (vi & Evi & Et).
    rewrite (shex_class_inverse_false fa cfg thr counts (swap_entry ce) Hord).
    change (class_cnt counts (swap_entry ce)) with (class_cnt counts ce).
    change (c_direct (snd (swap_entry ce))) with (c_inverse (snd ce)).
    set (cnt := class_cnt counts ce) in *.
    pose proof (base_statements_flipped fa thr cnt (c_inverse (snd ce))) as Fb.
    pose proof (sort_desc_rel fa _ _ cnt _ _ Fb) as Fs.
    pose proof (select_valid_rel fa cfg cfg _ _ (cfg_agree_refl cfg) (flipped_comment cfg) cnt _ _ Fs) as Hs.
    rewrite Evi in Hs.
    destruct (select_valid fa cfg cnt (sort_desc fa cnt (base_statements fa thr cnt false _))) as [vi'|e];
      simpl in Hs; [|contradiction].
    pose proof (tune_rel fa cfg cfg _ _ (cfg_agree_refl cfg) (flipped_comment cfg) cnt _ _ Hs) as Ht.
    rewrite Et in Ht. simpl.
    destruct (tune fa cfg cnt vi') as [st'|e]; simpl in Ht; [|contradiction].
    simpl. eexists. split; [reflexivity|]. simpl. apply flipped_list. exact Ht.
  Qed.
End Inverse2.
