(** * The decorated run with the stage in the order the code has
    ([Model/RunDecorCur.v]) is the modelled one ([Model/RunDecor.v],
    [Model/DecorDom.v]) where the order of ClassShexer's stages is irrelevant
    ([OrderIrrelevant.order_dom]). *)
From Coq Require Import List Ascii String ZArith NArith Bool.
From Shexer Require Import Lib.PyStr Lib.Dict Gen.Consts Spec.Rdf Model.Tracker Model.Profiler
     Model.Tokens Model.Freq Model.Shexing Model.SerialShexc Model.Run Model.RunCur
     Model.RunDecor Model.DecorDom Model.RunDecorCur Proofs.OrderIrrelevant.
Import ListNotations.

Section OrderDecor.
  Variable fa : FreqAlg.

  Theorem run_shexc_decor_lines_cur_eq c dmi mode thr g :
    order_dom fa c thr g = true ->
    run_shexc_decor_lines_cur fa c dmi mode thr g = run_shexc_decor_lines fa c dmi mode thr g.
  Proof.
    intros H. unfold run_shexc_decor_lines_cur, run_shexc_decor_lines.
    rewrite (run_shapes_cur_eq fa c thr g H). reflexivity.
  Qed.

  Theorem run_shexc_decor_cur_eq c dmi mode thr g :
    order_dom fa c thr g = true ->
    run_shexc_decor_cur fa c dmi mode thr g = run_shexc_decor fa c dmi mode thr g.
  Proof.
    intros H. unfold run_shexc_decor_cur, run_shexc_decor.
    rewrite (run_shexc_decor_lines_cur_eq c dmi mode thr g H). reflexivity.
  Qed.

  Theorem run_shexc_lines_cur_eq c thr g :
    order_dom fa c thr g = true -> run_shexc_lines_cur fa c thr g = run_shexc_lines fa c thr g.
  Proof.
    intros H. unfold run_shexc_lines_cur, run_shexc_lines. rewrite (run_shapes_cur_eq fa c thr g H). reflexivity.
  Qed.

  Theorem run_decor_domb_cur_eq c dmi mode thr g :
    order_dom fa c thr g = true ->
    run_decor_domb_cur fa c dmi mode thr g = run_decor_domb fa c dmi mode thr g.
  Proof.
    intros H. unfold run_decor_domb_cur, run_decor_domb. rewrite (run_shapes_cur_eq fa c thr g H). reflexivity.
  Qed.
End OrderDecor.
