(** * Literal typing (repaired [decide_literal_type]: the kind is read from what
    follows the last quote), objects, and T1 + T4 (C07) *)
From Coq Require Import List Ascii String ZArith Bool Lia.
From Shexer Require Import Lib.PyStr Lib.Dict Gen.Consts Spec.Rdf Spec.TtlSyntax Spec.TtlDomain Model.TtlReader
  Proofs.TtlProofs Proofs.TtlExpand Proofs.TtlLiteral Proofs.TtlClean Proofs.TtlTokens.
Import ListNotations.
Local Open Scope Z_scope.

Lemma solid_strip S : all_solid S = true -> strip S = S.
Proof.
  intros H. apply strip_id. eapply forallb_impl; [|exact H]. intros c Hc. rewrite (solid_not_space c Hc). reflexivity.
Qed.

(** what [decide_literal_type] sees of a string-literal token: the last quote and the suffix after it *)
Section Suffix.
  Variables (lex S : str).
  Hypothesis HS : all_solid S = true.
  Definition ltok : str := qc :: lex ++ qc :: S.

  Lemma S_quote_free : Forall (fun c => Ascii.eqb qc c = false) S.
  Proof.
    apply Forall_forall. intros c Hin. unfold all_solid in HS. rewrite forallb_forall in HS.
    apply (solid_not_quote c (HS c Hin)).
  Qed.

  Lemma ltok_rfind_nat : rfind_nat s_quote ltok = Some (List.length (qc :: lex)).
  Proof. apply (rfind_single_app qc (qc :: lex) S S_quote_free). Qed.

  Lemma ltok_rfind : rfind s_quote ltok = len (qc :: lex).
  Proof. rewrite rfind_unfold, ltok_rfind_nat. reflexivity. Qed.

  Lemma ltok_suffix : strip (slice_from ltok (len (qc :: lex) + 1)) = S.
  Proof.
    assert (E : ltok = ((qc :: lex) ++ [qc]) ++ S) by (unfold ltok; rewrite <- app_assoc; reflexivity).
    rewrite E. replace (len (qc :: lex) + 1) with (len ((qc :: lex) ++ [qc])) by (rewrite len_app; reflexivity).
    rewrite slice_from_app. apply solid_strip. exact HS.
  Qed.

  (** the head of the repaired function: the suffix it computes is [S] *)
  Lemma dlt_sfx_head b :
    decide_literal_type ltok b =
    (if prefixb ttl_lang_suffix S then Ok c_LANG_STRING_TYPE
     else if negb (prefixb ttl_dt_suffix_marker S) then
       (if arroba_after_last_quotes ltok then Ok c_LANG_STRING_TYPE else Ok c_STRING_TYPE)
     else
       let t := slice_from S 2 in
       match dt_by_start ttl_dt_prefix_table t with
       | Some d => Ok d
       | None =>
         if prefixb s_lt t && suffixb s_gt t then
           let cand := slice t 1 (-1) in
           match b with
           | Some bs => if negb (is_absolute ttl_scheme_test_datatypes ttl_dt_abs_start cand)
                        then Ok (bs ++ cand) else Ok cand
           | None => Ok cand
           end
         else Err TERuntime
       end).
  Proof.
    unfold decide_literal_type. change ttl_dlt_from_suffix with true. cbv iota.
    unfold decide_literal_type_sfx. rewrite ltok_rfind.
    assert (E : (0 <=? len (qc :: lex)) = true) by (apply Z.leb_le; apply len_nonneg).
    rewrite E, ltok_suffix. reflexivity.
  Qed.

  Lemma ltok_arroba : Forall (fun c => Ascii.eqb (chr "@") c = false) S -> arroba_after_last_quotes ltok = false.
  Proof.
    intros Ha. apply (arroba_false _ _ ltok_rfind_nat). intros j Hj.
    unfold ltok in Hj. change c_lang_marker with [chr "@"] in Hj.
    change (qc :: lex ++ qc :: S) with ((qc :: lex) ++ qc :: S) in Hj.
    rewrite (rfind_single_app_absent (chr "@") (qc :: lex) (qc :: S)) in Hj by (constructor; [reflexivity | exact Ha]).
    apply rfind_single_bound in Hj. lia.
  Qed.
End Suffix.

Lemma slice_from_pfx (A B : str) n : len A = n -> slice_from (A ++ B) n = B.
Proof. intros <-. apply slice_from_app. Qed.

(** the wired prefixes of the model's table are the spec's [wired] *)
Lemma dt_start_link p l : colon_free p ->
  dt_by_start ttl_dt_prefix_table (p ++ Str ":" ++ l) = option_map (fun ns => ns ++ l) (lookup p wired).
Proof.
  intros Hp. unfold ttl_dt_prefix_table, wired. cbn [dt_by_start lookup].
  change (Str "xsd:") with (Str "xsd" ++ Str ":"). change (Str "rdf:") with (Str "rdf" ++ Str ":").
  change (Str "dt:") with (Str "dt" ++ Str ":"). change (Str "geo:") with (Str "geo" ++ Str ":").
  rewrite !prefix_colon by first [exact Hp | repeat constructor].
  destruct (str_eqb p (Str "xsd")) eqn:E1; [apply str_eqb_eq in E1; subst p; cbn [option_map]; do 2 f_equal; apply (slice_from_pfx (Str "xsd:") l); reflexivity|].
  destruct (str_eqb p (Str "rdf")) eqn:E2; [apply str_eqb_eq in E2; subst p; cbn [option_map]; do 2 f_equal; apply (slice_from_pfx (Str "rdf:") l); reflexivity|].
  destruct (str_eqb p (Str "dt")) eqn:E3; [apply str_eqb_eq in E3; subst p; cbn [option_map]; do 2 f_equal; apply (slice_from_pfx (Str "dt:") l); reflexivity|].
  destruct (str_eqb p (Str "geo")) eqn:E4; [apply str_eqb_eq in E4; subst p; cbn [option_map]; do 2 f_equal; apply (slice_from_pfx (Str "geo:") l); reflexivity|].
  reflexivity.
Qed.

Lemma dt_start_corner body : dt_by_start ttl_dt_prefix_table (s_lt ++ body) = None.
Proof. reflexivity. Qed.

(** ** string literals *)

Definition okL (e : env) (lex : str) (sfx : lit_suffix) : bool :=
  obj_wf (OLit lex sfx) && rc_free (rc_lit e lex sfx).

Lemma rc_lit_tail e lex sfx : rc_free (rc_lit e lex sfx) = true ->
  rc_free (match sfx with
           | LPlain | LLang _ => []
           | LTyped (IAbs _) => []
           | LTyped (IRel x) =>
             match e_base e with
             | None => []
             | Some b => when (match resolve b x with Some u => negb (str_eqb u (b ++ x)) | None => false end) RC_concat
             end
           | LTyped (IPre p _) => when (negb (wired_as_declared e p)) RC_dt_custom_prefix
           end) = true.
Proof.
  unfold rc_lit. destruct (contains [ascii_of_nat 9] lex || contains (Str "  ") lex); [discriminate|]. intros H. exact H.
Qed.

Theorem literal_type e s lex sfx o :
  env_match e s -> okL e lex sfx = true -> sem_obj e (OLit lex sfx) = Some o ->
  exists dt, decide_literal_type (render_obj (OLit lex sfx)) (base s) = Ok dt /\ erase_obj o = OL [] dt.
Proof.
  intros (Hb & _ & _) Hok Hsem. unfold okL in Hok. apply andb_true_iff in Hok. destruct Hok as (Hwf & Hrc).
  apply rc_lit_tail in Hrc. destruct (sfx_solid lex sfx Hwf) as (HS & _).
  rewrite render_lit. fold (ltok lex (sfx_text sfx)). rewrite (dlt_sfx_head lex _ HS).
  destruct sfx as [|t|r]; cbn [sem_obj sfx_text obj_wf] in *.
  - (* plain *)
    inversion Hsem; subst o. exists xsd_string. split; [|reflexivity].
    change (prefixb ttl_lang_suffix []) with false. change (prefixb ttl_dt_suffix_marker []) with false. cbv iota. cbn [negb].
    rewrite (ltok_arroba lex [] HS) by constructor. reflexivity.
  - (* language tag *)
    inversion Hsem; subst o. exists rdf_langString. split; reflexivity.
  - (* datatype *)
    apply andb_true_iff in Hwf. destruct Hwf as (_ & Hr).
    destruct (resolve_ref e r) as [u|] eqn:Eu; [|discriminate]. cbn in Hsem. inversion Hsem; subst o.
    exists u. split; [|reflexivity].
    change (prefixb ttl_lang_suffix (cc ++ render_ref r)) with false.
    change (prefixb ttl_dt_suffix_marker (cc ++ render_ref r)) with true. cbv iota. cbn [negb].
    replace (slice_from (cc ++ render_ref r) 2) with (render_ref r) by (symmetry; apply (slice_from_app cc (render_ref r))).
    cbv zeta. destruct r as [i|x|p l]; cbn [render_ref resolve_ref] in *.
    + (* <absolute> *)
      inversion Eu; subst u. change (Str "<" ++ i ++ Str ">") with (s_lt ++ i ++ s_gt).
      rewrite dt_start_corner. change (prefixb s_lt (s_lt ++ i ++ s_gt)) with true.
      rewrite suffixb_corners, slice_corners. cbn [andb].
      destruct (base s) as [bs|]; [|reflexivity].
      cbn [ref_wf] in Hr. apply andb_true_iff in Hr. destruct Hr as (_ & Hsch).
      unfold is_absolute. change ttl_scheme_test_datatypes with true. cbv iota.
      rewrite <- (app_nil_r i) at 1. rewrite (has_scheme_model i [] Hsch). reflexivity.
    + (* <relative> *)
      destruct (e_base e) as [bs|] eqn:Eb; [|discriminate]. rewrite Eu in Hrc.
      destruct (str_eqb u (bs ++ x)) eqn:E; [|cbn in Hrc; discriminate]. apply str_eqb_eq in E. subst u.
      change (Str "<" ++ x ++ Str ">") with (s_lt ++ x ++ s_gt).
      rewrite dt_start_corner. change (prefixb s_lt (s_lt ++ x ++ s_gt)) with true.
      rewrite suffixb_corners, slice_corners. cbn [andb]. rewrite Hb.
      unfold is_absolute. change ttl_scheme_test_datatypes with true. cbv iota.
      assert (Eh : starts_with_scheme x = false).
      { apply no_scheme_no_colon. apply contains_colon_false. cbn [ref_wf] in Hr. apply andb_true_iff in Hr.
        destruct Hr as (_ & Hnc). apply negb_true_iff in Hnc. exact Hnc. }
      rewrite Eh. reflexivity.
    + (* pfx:local *)
      assert (Hcf : colon_free p).
      { cbn [ref_wf] in Hr. rewrite !andb_true_iff in Hr. destruct Hr as ((((W1 & _) & _) & _) & _).
        apply (forallb_colon_free _ _ W1). reflexivity. }
      rewrite (dt_start_link p l Hcf).
      unfold wired_as_declared in Hrc.
      destruct (lookup p wired) as [ns|]; [|cbn in Hrc; discriminate].
      destruct (lookup p (e_prefixes e)) as [ns'|]; [|discriminate Eu].
      destruct (str_eqb ns ns') eqn:E; [|cbn in Hrc; discriminate]. apply str_eqb_eq in E. subst ns'.
      inversion Eu; subst u. reflexivity.
Qed.

(** ** objects *)

Definition okO (e : env) (x : object) : bool := obj_wf x && rc_free (rc_obj e x).

Lemma lit_tok_head lex sfx : exists t, render_obj (OLit lex sfx) = qc :: t.
Proof. destruct sfx; eexists; reflexivity. Qed.

Theorem obj_correct e s0 x o s :
  env_match e s0 -> same_env s s0 -> okO e x = true -> sem_obj e x = Some o ->
  closure_state (tokO s0 x) = None /\
  exists raw o', parse_elem s (tokO s0 x) = Ok (Some raw) /\
                 tune_token (Some raw) (base s) ttl_dflt_allow_untyped_numbers = Ok o' /\
                 erase_obj o' = erase_obj o.
Proof.
  intros Hm Hs Hok Hsem. pose proof (env_match_same _ _ _ Hm Hs) as Hm'.
  unfold tokO. destruct Hs as (_ & Hbase). rewrite <- Hbase.
  unfold okO in Hok. apply andb_true_iff in Hok. destruct Hok as (Hwf & Hrc).
  destruct x as [r|l|lex sfx|d].
  - (* IRI *)
    cbn [sem_obj obj_wf rc_obj render_obj] in *.
    destruct (resolve_ref e r) as [u|] eqn:Eu; [|discriminate]. cbn in Hsem. inversion Hsem; subst o.
    destruct (expansion_correct e s r u Hm' (okR_of e r Hwf Hrc) Eu) as (A & B).
    split; [exact A|]. eexists _, _. split; [exact B|]. split; [apply tune_token_iri | reflexivity].
  - (* blank node *)
    cbn [sem_obj obj_wf render_obj] in *. inversion Hsem; subst o.
    destruct (bnode_parse s l (label_nonempty l Hwf)) as (A & B & C).
    fold (bn_tok l). rewrite A. split; [exact B|]. eexists _, _. split; [exact C|]. split; reflexivity.
  - (* string literal *)
    destruct (literal_type e s lex sfx o Hm') as (dt & Hdt & Her); [unfold okL; rewrite Hwf; exact Hrc | exact Hsem |].
    destruct (lit_tok_head lex sfx) as (t & Et).
    set (tok := render_obj (OLit lex sfx)) in *.
    assert (Hv : vtok (base s) tok = tok) by (apply (vtok_not_lt _ _ qc t Et); reflexivity).
    rewrite Hv. split; [rewrite Et; apply closure_state_first; reflexivity|].
    exists tok. eexists. split; [|split].
    + unfold parse_elem. rewrite Et. rewrite (at_idx_at_pos (qc :: t) 0 qc t) by (exists []; split; reflexivity).
      change (chr_eqb qc ttl_iri_open) with false. cbv iota.
      assert (E : mem_str (qc :: t) ttl_RDF_TYPE_CONTRACTED = false) by reflexivity. rewrite E. reflexivity.
    + unfold tune_token.
      assert (E1 : prefixb s_lt tok = false) by (rewrite Et; reflexivity).
      assert (E2 : prefixb s_quote tok = true) by (rewrite Et; reflexivity).
      rewrite E1, E2. unfold parse_literal. rewrite Hdt. cbn [bind fst snd]. reflexivity.
    + cbn [erase_obj]. symmetry. exact Her.
  - (* untyped integer *)
    cbn [sem_obj obj_wf rc_obj render_obj] in *. inversion Hsem; subst o.
    assert (Hlen : (List.length d <= 300)%nat).
    { destruct (Nat.ltb 300 (List.length d)) eqn:E; [cbn in Hrc; discriminate|]. apply Nat.ltb_ge in E. exact E. }
    destruct (int_correct s (base s) d Hwf Hlen) as (A & B & C & o' & D & F).
    rewrite B. split; [exact A|]. exists d, o'. split; [exact C|]. split; [exact D | exact F].
Qed.

(** ** T1 + T4: statement groups in a fixed environment, any split into lines *)

Definition group_dom (e : env) (g : group) : bool := group_ok (okS e) (okP e) (okO e) g.

Theorem groups_any_split e s0 gs (ls : list (list atok)) tss s :
  env_match e s0 -> same_env s s0 -> state s = WS ->
  forallb (group_dom e) gs = true ->
  seq_opt (map (sem_group e) gs) = Some tss ->
  List.concat ls = flat_map group_tokens gs ->
  exists s' ts', machine_lines (map (map (tok_str s0)) ls) s = (ts', Ok s') /\
                 map erase_lex ts' = map erase_lex (List.concat tss) /\ same_env s' s0 /\ state s' = WS.
Proof.
  intros Hm. apply (state_machine_any_split e s0 (okS e) (okP e) (okO e)).
  - intros x n s1 H1 H2 H3. apply (subj_correct e s0 x n s1 Hm H1 H2 H3).
  - intros x p s1 H1 H2 H3. apply (pred_correct e s0 x p s1 Hm H1 H2 H3).
  - intros x o s1 H1 H2 H3. apply (obj_correct e s0 x o s1 Hm H1 H2 H3).
Qed.
