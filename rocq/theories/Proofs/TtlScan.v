(** * T3, comment removal: the single-pass scan of the repaired reader (C07) *)
From Coq Require Import List Ascii String ZArith Bool Lia.
From Shexer Require Import Lib.PyStr Lib.Dict Gen.Consts Spec.Rdf Spec.TtlSyntax Spec.TtlDomain Model.TtlReader
  Proofs.TtlProofs Proofs.TtlExpand Proofs.TtlLiteral Proofs.TtlClean Proofs.TtlTokens.
Import ListNotations.
Local Open Scope Z_scope.

Definition hashc : ascii := chr "#".

Definition is_blank_prev (p : option ascii) : bool := match p with Some c => chr_eqb c ttl_blank | None => false end.

(** one step outside a string, on a character that is not a quote *)
Lemma scan_out_step c rest i p :
  chr_eqb c ttl_quote = false ->
  chr_eqb c hashc && (0 <? i) && is_blank_prev p = false ->
  comment_scan (c :: rest) i p false false = comment_scan rest (i + 1) (Some c) false false.
Proof. intros Hq Hh. cbn [comment_scan]. rewrite Hq. change comment_hash with hashc. fold (is_blank_prev p). rewrite Hh. reflexivity. Qed.

Definition last_or (w : str) (p : option ascii) : option ascii :=
  match rev w with c :: _ => Some c | [] => p end.

Lemma last_or_cons c w p : last_or (c :: w) p = last_or w (Some c).
Proof. unfold last_or. cbn [rev]. destruct (rev w) as [|d r]; reflexivity. Qed.

(** a run of solid characters (neither white space nor quote): no cut, unless it
    starts with '#' right after a blank *)
Lemma scan_solid : forall w rest i p,
  all_solid w = true ->
  (match w with c :: _ => chr_eqb c hashc && is_blank_prev p = false | [] => True end) ->
  comment_scan (w ++ rest) i p false false = comment_scan rest (i + len w) (last_or w p) false false.
Proof.
  induction w as [|c w IH]; intros rest i p Hs Hf.
  - cbn [app]. change (len []) with 0. rewrite Z.add_0_r. reflexivity.
  - unfold all_solid in Hs. cbn [forallb] in Hs. apply andb_true_iff in Hs. destruct Hs as (Hc & Hw).
    cbn [app]. rewrite scan_out_step.
    + rewrite (IH rest (i + 1) (Some c) Hw).
      * rewrite last_or_cons, len_cons. f_equal. lia.
      * destruct w as [|d w']; [exact I|]. cbn [is_blank_prev]. rewrite (solid_not_blank c Hc). apply andb_false_r.
    + pose proof (solid_not_quote c Hc) as H. unfold chr_eqb. rewrite Ascii.eqb_sym. exact H.
    + apply andb_false_iff in Hf. destruct Hf as [Hf|Hf]; [rewrite Hf; reflexivity | rewrite Hf; apply andb_false_r].
Qed.

(** inside a string: the body, then the closing quote *)
Lemma scan_lex lex : Lex lex -> forall rest i p,
  comment_scan (lex ++ ttl_quote :: rest) i p true false =
  comment_scan rest (i + len lex + 1) (Some ttl_quote) false false.
Proof.
  induction 1 as [|c s Hq Hb Hs IH|e s Hs IH]; intros rest i p.
  - cbn [app comment_scan]. change (mem_chr ttl_quote ttl_quote_not_after) with false. rewrite chr_eqb_refl.
    change (len []) with 0. f_equal. lia.
  - cbn [app comment_scan].
    assert (E : mem_chr c ttl_quote_not_after = false).
    { change ttl_quote_not_after with [chr_backslash]. cbn [mem_chr]. rewrite Hb. reflexivity. }
    rewrite E, Hq. rewrite IH, len_cons. f_equal. lia.
  - cbn [app comment_scan]. change (mem_chr chr_backslash ttl_quote_not_after) with true. cbv iota.
    rewrite IH, !len_cons. f_equal. lia.
Qed.

(** a token the scan passes over without cutting, ending outside a string *)
Definition transparent (w : str) : Prop :=
  w <> [] /\
  forall rest i p, comment_scan (w ++ rest) i p false false =
                   comment_scan rest (i + len w) (last_or w p) false false.

Lemma solid_transparent w : solid_tok w -> transparent w.
Proof.
  intros (Hs & Hne & Hf & _). split; [exact Hne|]. intros rest i p. apply scan_solid; [exact Hs|].
  destruct w as [|c t]; [exact I|]. unfold nohash_first in Hf. cbn [first_ok] in Hf. apply negb_true_iff in Hf.
  unfold chr_eqb, hashc. rewrite Hf. reflexivity.
Qed.

Lemma lit_transparent lex sfx : obj_wf (OLit lex sfx) = true -> transparent (render_obj (OLit lex sfx)).
Proof.
  intros Hwf. rewrite render_lit. split; [discriminate|]. intros rest i p.
  destruct (sfx_solid lex sfx Hwf) as (Hss & _).
  destruct (lex_wf_facts lex (lex_of_wf lex sfx Hwf)) as (HLex & _).
  change ((qc :: lex ++ qc :: sfx_text sfx) ++ rest) with (qc :: (lex ++ qc :: sfx_text sfx) ++ rest).
  cbn [comment_scan]. change (chr_eqb qc ttl_quote) with true. cbv iota.
  rewrite <- app_assoc. change ((qc :: sfx_text sfx) ++ rest) with (ttl_quote :: sfx_text sfx ++ rest).
  rewrite (scan_lex lex HLex).
  rewrite scan_solid; [|exact Hss|].
  - f_equal.
    + rewrite len_cons, len_app, len_cons. lia.
    + unfold last_or. cbn [rev]. rewrite rev_app_distr. cbn [rev]. rewrite <- app_assoc. cbn [app].
      destruct (rev (sfx_text sfx)) as [|c r]; reflexivity.
  - destruct (sfx_text sfx) as [|c t]; [exact I|]. cbn [is_blank_prev]. change (chr_eqb ttl_quote ttl_blank) with false. apply andb_false_r.
Qed.

Lemma scan_blank rest i p :
  comment_scan (ttl_blank :: rest) i p false false = comment_scan rest (i + 1) (Some ttl_blank) false false.
Proof. apply scan_out_step; reflexivity. Qed.

(** words joined by single blanks *)
Lemma scan_joined : forall ws, ws <> [] -> Forall transparent ws -> forall rest i p,
  comment_scan (joined ws ++ rest) i p false false =
  comment_scan rest (i + len (joined ws)) (last_or (joined ws) p) false false.
Proof.
  induction ws as [|w ws IH]; intros Hne Hall rest i p; [contradiction|].
  inversion Hall as [|? ? (Hwne & Hw) Hrest]; subst. rewrite joined_cons.
  destruct ws as [|w2 ws'].
  - cbn [rest_of]. rewrite app_nil_r. apply Hw.
  - unfold rest_of. rewrite <- app_assoc, Hw.
    change ((ttl_blank :: joined (w2 :: ws')) ++ rest) with (ttl_blank :: joined (w2 :: ws') ++ rest).
    rewrite scan_blank, (IH ltac:(discriminate) Hrest). f_equal.
    + rewrite len_app, len_cons. lia.
    + unfold last_or. rewrite rev_app_distr. cbn [rev]. rewrite <- app_assoc.
      assert (Hj : joined (w2 :: ws') <> []).
      { rewrite joined_cons. inversion Hrest as [|? ? (H2 & _) _]; subst. destruct w2; [contradiction | discriminate]. }
      destruct (rev (joined (w2 :: ws'))) as [|c r] eqn:E; [|reflexivity].
      exfalso. apply Hj. rewrite <- (rev_involutive (joined (w2 :: ws'))), E. reflexivity.
Qed.

(** T3, comment removal: whatever the words (string literals included, with
    blank-# inside) and whatever the comment, exactly the comment is removed *)
Lemma clean_joined_plain raw ws :
  ws <> [] -> Forall transparent ws -> norm raw = joined ws -> clean_line raw = Ok (joined ws).
Proof.
  intros Hne Hall Hn. unfold clean_line. fold (norm raw). rewrite Hn.
  destruct (contains ttl_inline_comment (joined ws)); cbn [negb]; [|reflexivity].
  unfold remove_comments. change ttl_comment_single_pass with true. cbv iota.
  rewrite <- (app_nil_r (joined ws)) at 1. rewrite (scan_joined ws Hne Hall). reflexivity.
Qed.

Lemma clean_joined_comment raw ws Z :
  ws <> [] -> Forall transparent ws -> norm raw = joined ws ++ hash_pat ++ Z -> clean_line raw = Ok (joined ws).
Proof.
  intros Hne Hall Hn. unfold clean_line. fold (norm raw). rewrite Hn.
  change ttl_inline_comment with hash_pat. rewrite (contains_app hash_pat (joined ws) Z). cbn [negb].
  unfold remove_comments. change ttl_comment_single_pass with true. cbv iota.
  rewrite (scan_joined ws Hne Hall).
  change (hash_pat ++ Z) with (ttl_blank :: hashc :: Z). rewrite scan_blank.
  cbn [comment_scan]. change (chr_eqb hashc ttl_quote) with false. cbv iota.
  change (chr_eqb hashc comment_hash) with true. change (chr_eqb ttl_blank ttl_blank) with true.
  pose proof (len_nonneg (joined ws)).
  replace (0 <? 0 + len (joined ws) + 1) with true by (symmetry; apply Z.ltb_lt; lia). cbn [andb].
  replace (0 + len (joined ws) + 1 - 1) with (len (joined ws)) by lia.
  rewrite slice_to_app. reflexivity.
Qed.

(** a cut never falls before the position it is found from *)
Lemma scan_lower : forall s i p ins e k, comment_scan s i p ins e = Some k -> i - 1 <= k.
Proof.
  induction s as [|c s IH]; intros i p ins e k H; [discriminate H|]. cbn [comment_scan] in H.
  destruct ins.
  - destruct e; [apply IH in H; lia|]. destruct (mem_chr c ttl_quote_not_after); [apply IH in H; lia|].
    destruct (chr_eqb c ttl_quote); apply IH in H; lia.
  - destruct (chr_eqb c ttl_quote); [apply IH in H; lia|].
    destruct (chr_eqb c comment_hash && (0 <? i) && match p with Some p0 => chr_eqb p0 ttl_blank | None => false end).
    + inversion H. lia.
    + apply IH in H. lia.
Qed.

(** a whole-line comment stays a line that starts with '#', whatever it contains *)
Lemma clean_comment_line raw Z : norm raw = hashc :: Z -> exists r, clean_line raw = Ok (hashc :: r).
Proof.
  intros Hn. unfold clean_line. fold (norm raw). rewrite Hn.
  destruct (contains ttl_inline_comment (hashc :: Z)); cbn [negb]; [|eauto].
  unfold remove_comments. change ttl_comment_single_pass with true. cbv iota.
  cbn [comment_scan]. change (chr_eqb hashc ttl_quote) with false. cbv iota. change (0 <? 0) with false.
  rewrite andb_false_r. cbn [andb].
  destruct (comment_scan Z (0 + 1) (Some hashc) false false) as [k|] eqn:E; [|eauto].
  assert (Hk : 1 <= k).
  { destruct Z as [|c Z']; [discriminate E|]. cbn [comment_scan] in E.
    destruct (chr_eqb c ttl_quote); [apply scan_lower in E; lia|].
    change (chr_eqb hashc ttl_blank) with false in E. rewrite andb_false_r in E. apply scan_lower in E. lia. }
  unfold slice_to, norm_idx. destruct (k <? 0) eqn:Ek; [apply Z.ltb_lt in Ek; lia|].
  rewrite len_cons. pose proof (len_nonneg Z).
  assert (Hpos : exists m, Z.to_nat (Z.min k (1 + len Z)) = S m) by (exists (Z.to_nat (Z.min k (1 + len Z)) - 1)%nat; lia).
  destruct Hpos as (m & ->). cbn [firstn]. eauto.
Qed.

Lemma solid3_transparent w : all_solid w = true -> w <> [] -> nohash_first w = true -> transparent w.
Proof.
  intros Hs Hne Hf. split; [exact Hne|]. intros rest i p. apply scan_solid; [exact Hs|].
  destruct w as [|c t]; [exact I|]. unfold nohash_first in Hf. cbn [first_ok] in Hf. apply negb_true_iff in Hf.
  unfold chr_eqb, hashc. rewrite Hf. reflexivity.
Qed.
