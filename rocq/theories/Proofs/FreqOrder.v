(** * [fle] is a total preorder on the probabilities of a class, for the two
    frequency algebras (Model/FreqInst.v): [order_at] of Proofs/InverseLemmas.v.

    Both algebras compare fractions by cross-multiplication ([fle64]), which is
    a total preorder on fractions with positive denominators.  The binary64
    algebra only ever produces such fractions ([round64]); the exact algebra
    does whenever the class has at least one instance (a class without
    instances divides by zero: ZeroDivisionError in Python). *)
From Coq Require Import ZArith NArith Bool Lia.
From Shexer Require Import Lib.Bin64 Model.Freq Model.FreqInst Proofs.InverseLemmas.
Local Open Scope Z_scope.

Definition pos_den (x : frac) : Prop := 0 < snd x.

Lemma fle64_total x y : fle64 x y = false -> fle64 y x = true.
Proof.
  destruct x as [a b], y as [c d]. unfold fle64. intros H.
  apply Z.leb_gt in H. apply Z.leb_le. lia.
Qed.

Lemma fle64_trans x y z :
  pos_den x -> pos_den y -> pos_den z -> fle64 x y = true -> fle64 y z = true -> fle64 x z = true.
Proof.
  destruct x as [a b], y as [c d], z as [e f]. unfold pos_den, fle64; simpl.
  intros Hb Hd Hf H1 H2. apply Z.leb_le in H1. apply Z.leb_le in H2. apply Z.leb_le.
  apply (Z.mul_le_mono_pos_r _ _ d Hd).
  assert (E1 : a * d * f <= c * b * f) by (apply Z.mul_le_mono_nonneg_r; lia).
  assert (E2 : c * f * b <= e * d * b) by (apply Z.mul_le_mono_nonneg_r; lia).
  lia.
Qed.

Lemma pow_frac_pos (m e : Z) : pos_den (if 0 <=? e then (m * 2 ^ e, 1) else (m, 2 ^ (- e))).
Proof.
  unfold pos_den. destruct (0 <=? e) eqn:Ee; cbn [snd]; [lia|].
  apply Z.leb_gt in Ee. apply Z.pow_pos_nonneg; lia.
Qed.

Lemma round64_pos x : pos_den (round64 x).
Proof.
  destruct x as [n d]. unfold round64.
  destruct (n <=? 0); [unfold pos_den; cbn [snd]; lia|].
  match goal with |- pos_den (let (a, b) := ?s in _) => destruct s as [a b] end.
  apply pow_frac_pos.
Qed.

Lemma pval_B_pos cnt p : pos_den (pval BAlg cnt p).
Proof.
  destruct p as [n|a b|]; simpl.
  - apply round64_pos.
  - unfold add64. destruct (b_ratio a cnt), (b_ratio b cnt). apply round64_pos.
  - unfold pos_den; simpl; lia.
Qed.

Lemma pval_Q_pos cnt p : cnt <> 0%N -> pos_den (pval QAlg cnt p).
Proof.
  intros Hc. assert (0 < Z.of_N cnt) by lia.
  destruct p as [n|a b|]; unfold pos_den; simpl; lia.
Qed.

Theorem order_at_BAlg cnt : order_at BAlg cnt.
Proof.
  split.
  - intros p q. apply fle64_total.
  - intros p q r. apply fle64_trans; apply pval_B_pos.
Qed.

Theorem order_at_QAlg cnt : cnt <> 0%N -> order_at QAlg cnt.
Proof.
  intros Hc. split.
  - intros p q. apply fle64_total.
  - intros p q r. apply fle64_trans; apply pval_Q_pos; exact Hc.
Qed.

(** without the restriction the exact algebra is not an order: with no
    instance every ratio has denominator zero *)
Lemma order_at_QAlg_zero_refuted : ~ order_at QAlg 0.
Proof.
  intros [_ Ht]. specialize (Ht (PRatio 5) (PRatio 0) POne eq_refl eq_refl). discriminate.
Qed.
