(** * End-to-end theorems on [Run.run_shapes fa c thr g]: the whole extraction
    (tracker -> profiler -> shexing), by composition of the two halves

    - P1 (Proofs/ProfileChar.v): the class profile holds exactly the
      declarative counts [occ] / [class_count] of Spec/Counts.v, where [I] is
      the tracker's instance dictionary;
    - the shexing-stage theorems K1 / K3 (Proofs/ShexKeys.v), for an arbitrary
      profile.

    Index
    1. [run_shapes_unfold], [run_shapes_ok_iff], [run_shapes_decompose],
       [run_failure] / [run_shapes_err_iff], [run_profile_err]
    2. [fig_occ] (+ [fig_occ_cases], [fig_occ_single], [fig_occ_single_le]),
       [post_okR] / [comment_okR], [pd_entry_occ] / [occ_pd_entry] (profile
       entry <-> positive [occ]), [composed_shape], [e2e_figures],
       [e2e_header], [class_count_as_length], [e2e_ratio_le_one],
       [e2e_line_exact], [e2e_comment_exact]
    3. [key_passes_occ], [no_nonliteral_datatype], [occ_not_nonliteral],
       [e2e_keys_iff_occ], [e2e_keys_remove], [key_passes_occ_max],
       [e2e_keys_max] (any algebra with [FreqLaws]), [e2e_keys_max_B/_Q]
    4. [insts_equiv], [class_count_insts_equiv], [cnt_insts_equiv],
       [occ_insts_equiv], [occ_perm_equiv], [track_plain_char],
       [track_plain_ok_iff], [track_perm], [e2e_keys_perm],
       [e2e_profile_perm], [counts_track_perm]
    5. complements to C01: [e2e_line_ratio_le_one], [track_classes_nodup],
       [e2e_header_instances] *)
From Coq Require Import List Ascii String ZArith NArith Bool Lia Permutation.
From Shexer Require Import Lib.PyStr Lib.Dict Lib.Bin64 Gen.Consts Spec.Rdf Model.Tracker Model.Profiler
  Model.Tokens Model.Freq Model.FreqInst Model.Shexing Model.Run Spec.Counts
  Proofs.DictLemmas Proofs.ProfileChar Proofs.ShexLemmas Proofs.ShexKeys Proofs.Bin64Round Proofs.FreqLaws.
Import ListNotations.
Local Open Scope N_scope.

(** ** 1. the run is the composition of the three stages *)

Definition mode_of (c : rcfg) : tmode :=
  match r_targets c with Some l => TClasses l | None => TAll end.

Definition rerr_of_p (e : perr) : rerr := match e with PEAttr => REAttr | PEType => REType end.

Lemma run_shapes_unfold fa c thr g :
  run_shapes fa c thr g =
  match full_ns c with
  | None => inr RERandom
  | Some ns =>
    match track (r_tau c) (mode_of c) (r_cap c) g with
    | inr _ => inr REAttr
    | inl ins =>
      match profile (pcfg_of c) ins g with
      | inr e => inr (rerr_of_p e)
      | inl (P, C, _) =>
        match shex fa (scfg_of c ns) thr P C with
        | inr e => inr (rerr_of_s e)
        | inl shapes => inl (ns, shapes)
        end
      end
    end
  end.
Proof.
  unfold run_shapes, mode_of. destruct (full_ns c) as [ns|]; [|reflexivity].
  destruct (track _ _ _ g) as [I|e]; [|reflexivity].
  destruct (profile (pcfg_of c) I g) as [[[P C] ID]|[|]]; reflexivity.
Qed.

Theorem run_shapes_ok_iff fa c thr g ns shapes :
  run_shapes fa c thr g = inl (ns, shapes) <->
  exists I P C ID,
    full_ns c = Some ns /\
    track (r_tau c) (mode_of c) (r_cap c) g = inl I /\
    profile (pcfg_of c) I g = inl (P, C, ID) /\
    shex fa (scfg_of c ns) thr P C = inl shapes.
Proof.
  rewrite run_shapes_unfold. split.
  - destruct (full_ns c) as [ns'|]; [|discriminate].
    destruct (track _ _ _ g) as [I|e]; [|discriminate].
    destruct (profile (pcfg_of c) I g) as [[[P C] ID]|e] eqn:EP; [|discriminate].
    destruct (shex fa (scfg_of c ns') thr P C) as [sh|e] eqn:ES; [|discriminate].
    intros H. injection H as -> ->. exists I, P, C, ID. auto.
  - intros (I & P & C & ID & -> & -> & -> & ->). reflexivity.
Qed.

Theorem run_shapes_decompose fa c thr g ns shapes :
  run_shapes fa c thr g = inl (ns, shapes) ->
  exists I P C ID,
    full_ns c = Some ns /\
    track (r_tau c) (mode_of c) (r_cap c) g = inl I /\
    profile (pcfg_of c) I g = inl (P, C, ID) /\
    shex fa (scfg_of c ns) thr P C = inl shapes.
Proof. apply run_shapes_ok_iff. Qed.

(** which stage failed *)
Inductive run_failure (fa : FreqAlg) (c : rcfg) (thr : F fa) (g : graph) : rerr -> Prop :=
| RF_prefix : full_ns c = None -> run_failure fa c thr g RERandom
| RF_track ns e :
    full_ns c = Some ns -> track (r_tau c) (mode_of c) (r_cap c) g = inr e ->
    run_failure fa c thr g REAttr
| RF_profile ns I e :
    full_ns c = Some ns -> track (r_tau c) (mode_of c) (r_cap c) g = inl I ->
    profile (pcfg_of c) I g = inr e -> run_failure fa c thr g (rerr_of_p e)
| RF_shex ns I P C ID e :
    full_ns c = Some ns -> track (r_tau c) (mode_of c) (r_cap c) g = inl I ->
    profile (pcfg_of c) I g = inl (P, C, ID) -> shex fa (scfg_of c ns) thr P C = inr e ->
    run_failure fa c thr g (rerr_of_s e).

Theorem run_shapes_err_iff fa c thr g e :
  run_shapes fa c thr g = inr e <-> run_failure fa c thr g e.
Proof.
  rewrite run_shapes_unfold. split.
  - destruct (full_ns c) as [ns|] eqn:EN; [|intros H; injection H as <-; apply RF_prefix; exact EN].
    destruct (track _ _ _ g) as [I|te] eqn:ET; [|intros H; injection H as <-; apply (RF_track _ _ _ _ ns te); auto].
    destruct (profile (pcfg_of c) I g) as [[[P C] ID]|pe] eqn:EP;
      [|intros H; injection H as <-; apply (RF_profile _ _ _ _ ns I pe); auto].
    destruct (shex fa (scfg_of c ns) thr P C) as [sh|se] eqn:ES; [discriminate|].
    intros H; injection H as <-. apply (RF_shex _ _ _ _ ns I P C ID se); auto.
  - intros H. destruct H as [H | ns te H1 H2 | ns I pe H1 H2 H3 | ns I P C ID se H1 H2 H3 H4].
    + rewrite H. reflexivity.
    + rewrite H1, H2. reflexivity.
    + rewrite H1, H2, H3. reflexivity.
    + rewrite H1, H2, H3, H4. reflexivity.
Qed.

(** the profiler fails only with AttributeError, and exactly on a typing
    triple with a literal object whose subject is an instance *)
Lemma run_profile_err c (I : insts) g e :
  profile (pcfg_of c) I g = inr e <->
  e = PEAttr /\ exists t, In t g /\ bad_triple (r_tau c) I t.
Proof.
  rewrite profile_result. change (p_tau (pcfg_of c)) with (r_tau c). change (p_inverse (pcfg_of c)) with (r_inverse c).
  destruct (annotate_all (r_tau c) (r_inverse c) g (adapt I)) as [ID|e'] eqn:EA.
  - split.
    + destruct (raw_profile (pcfg_of c) I ID). discriminate.
    + intros [_ Hb]. exfalso.
      assert (HA : exists ID, annotate_all (r_tau c) (r_inverse c) g (adapt I) = inl ID) by (eexists; exact EA).
      pose proof (proj1 (annotate_all_ok_iff _ _ _ _) HA) as HA'. destruct Hb as [t [Ht Hb]]. apply (HA' t Ht Hb).
  - apply annotate_all_err in EA. destruct EA as [-> Hb]. split.
    + intros H. injection H as <-. auto.
    + intros [-> _]. reflexivity.
Qed.

(** ** 2. figures *)

Definition dir_of (inv : bool) : direction := if inv then Inverse else Direct.

(** where a figure (count, probability, ORIGINAL cardinality) of type key [k]
    comes from, in terms of the data: one declarative count, or -- the merged
    kind NONLITERAL -- the SUM of the BNode count and the IRI count (each for
    its own cardinality key) *)
Inductive fig_occ (tau : str) (I : insts) (g : graph) (dir : direction) (cls p : str)
  : str -> N -> prob -> card -> Prop :=
| FO_entry k ck :
    0 < occ dir tau I g cls p k ck ->
    fig_occ tau I g dir cls p k (occ dir tau I g cls p k ck) (PRatio (occ dir tau I g cls p k ck)) (card_of_key ck)
| FO_merge ckb cki :
    0 < occ dir tau I g cls p c_BNODE_ELEM_TYPE ckb ->
    0 < occ dir tau I g cls p c_IRI_ELEM_TYPE cki ->
    fig_occ tau I g dir cls p c_NONLITERAL_ELEM_TYPE
            (occ dir tau I g cls p c_BNODE_ELEM_TYPE ckb + occ dir tau I g cls p c_IRI_ELEM_TYPE cki)
            (PSum (occ dir tau I g cls p c_BNODE_ELEM_TYPE ckb) (occ dir tau I g cls p c_IRI_ELEM_TYPE cki))
            (most_general_card (card_of_key ckb) (card_of_key cki)).

(** reading a [fig_occ] *)
Lemma fig_occ_cases tau I g dir cls p ty n pr c0 :
  fig_occ tau I g dir cls p ty n pr c0 ->
  (exists ck, c0 = card_of_key ck /\ n = occ dir tau I g cls p ty ck /\ pr = PRatio n /\ 0 < n) \/
  (ty = c_NONLITERAL_ELEM_TYPE /\
   exists ckb cki,
     n = occ dir tau I g cls p c_BNODE_ELEM_TYPE ckb + occ dir tau I g cls p c_IRI_ELEM_TYPE cki /\
     pr = PSum (occ dir tau I g cls p c_BNODE_ELEM_TYPE ckb) (occ dir tau I g cls p c_IRI_ELEM_TYPE cki) /\
     c0 = most_general_card (card_of_key ckb) (card_of_key cki) /\
     0 < occ dir tau I g cls p c_BNODE_ELEM_TYPE ckb /\ 0 < occ dir tau I g cls p c_IRI_ELEM_TYPE cki).
Proof.
  intros H. destruct H as [k ck Hp | ckb cki Hb Hi].
  - left. exists ck. auto.
  - right. split; [reflexivity|]. exists ckb, cki. auto.
Qed.

(** a type key "NONLITERAL" with a positive count can only come from a
    literal whose datatype is that very string *)
Definition no_nonliteral_datatype (g : graph) : Prop :=
  forall t l dt, In t g -> to t = OL l dt -> dt <> c_NONLITERAL_ELEM_TYPE.

Lemma fig_occ_single tau I g dir cls p ty n pr c0 :
  fig_occ tau I g dir cls p ty n pr c0 -> ty <> c_NONLITERAL_ELEM_TYPE ->
  exists ck, c0 = card_of_key ck /\ n = occ dir tau I g cls p ty ck /\ pr = PRatio n /\ 0 < n.
Proof. intros H Hty. destruct (fig_occ_cases _ _ _ _ _ _ _ _ _ _ H) as [H1|[H1 _]]; [exact H1 | contradiction]. Qed.

(** a single-entry figure never exceeds the class size *)
Lemma fig_occ_single_le tau I g dir cls p ty n pr c0 :
  fig_occ tau I g dir cls p ty n pr c0 -> ty <> c_NONLITERAL_ELEM_TYPE ->
  n <= class_count I cls /\ 0 < class_count I cls.
Proof.
  intros H Hty. destruct (fig_occ_single _ _ _ _ _ _ _ _ _ _ H Hty) as (ck & _ & -> & _ & Hp).
  pose proof (occ_le_class_count dir tau I g cls p ty ck). split; lia.
Qed.

(** [post_ok] / [comment_ok] of Proofs/ShexKeys.v with the figure source as
    a parameter [R ty n pr c0] ("type key [ty] has count [n], probability
    [pr] and original cardinality [c0]") *)
Section FigRel.
  Variable cfg : scfg.
  Variable R : str -> N -> prob -> card -> Prop.

  Definition comment_okR (k : comment) : Prop :=
    match k with
    | KStmt ch pr n tk c0 => exists ty, R ty n pr c0 /\ (ch = false -> tune_token (x_ns cfg) ty = Some tk)
    | KRaw _ => False
    end.

  Definition post_okR (t : stmt) : Prop :=
    exists ty pr0 c0,
      In ty (s_types t) /\ (s_choice t = false -> s_types t = [ty]) /\
      R ty (s_nocc t) pr0 c0 /\
      Forall comment_okR (s_comments t) /\
      ((s_prob t = pr0 /\ card_tuned cfg c0 (s_card t)) \/
       (x_all_compliant cfg = true /\ s_prob t = POne /\ s_card t = relax_card cfg c0 /\
        (x_disable_comments cfg = false ->
         exists tk rest, s_comments t = KStmt (s_choice t) pr0 (s_nocc t) tk c0 :: rest))).
End FigRel.

Lemma comment_ok_R cfg pd p (R : str -> N -> prob -> card -> Prop) k :
  (forall ty n pr c0, fig_src pd p ty n pr c0 -> R ty n pr c0) ->
  comment_ok cfg pd p k -> comment_okR cfg R k.
Proof.
  intros HR. destruct k as [ch pr n tk c0|]; cbn; [|auto].
  intros (ty & Hf & Ht). exists ty. auto.
Qed.

Lemma post_ok_R cfg pd (R : str -> N -> prob -> card -> Prop) t :
  (forall ty n pr c0, fig_src pd (s_prop t) ty n pr c0 -> R ty n pr c0) ->
  post_ok cfg pd t -> post_okR cfg R t.
Proof.
  intros HR (ty & pr0 & c0 & H1 & H2 & H3 & H4 & H5). exists ty, pr0, c0.
  split; [exact H1|]. split; [exact H2|]. split; [apply HR; exact H3|]. split; [|exact H5].
  eapply Forall_impl; [|exact H4]. intros k. apply comment_ok_R. exact HR.
Qed.

Section Composed.
  Variable fa : FreqAlg.
  Variable c : rcfg.
  Variable g : graph.
  Variable ns : nsdict.
  Variable I : insts.
  Variable P : cprofile.
  Variable C : ccounts.
  Variable ID : idict.
  Hypothesis Htrack : track (r_tau c) (mode_of c) (r_cap c) g = inl I.
  Hypothesis Hprof : profile (pcfg_of c) I g = inl (P, C, ID).

  Let cfg := scfg_of c ns.
  Let tau := r_tau c.
  Let targets := targets_of (pcfg_of c).

  Lemma I_nodup : NoDup (dkeys I).
  Proof. exact (proj1 (track_insts_ok _ _ _ _ _ Htrack)). Qed.

  (** the classes the run knows: requested targets, then the classes of the
      tracked instances in first-occurrence order *)
  Lemma P_keys_sub ce : In ce P -> In (fst ce) (class_keys targets I).
  Proof.
    intros Hce. destruct (profile_final_char _ _ _ _ _ _ I_nodup Hprof) as (_ & _ & (ks & Hk & _) & _).
    assert (H : In (fst ce) (dkeys P)) by (apply in_map; exact Hce).
    rewrite Hk in H. apply filter_In in H. apply H.
  Qed.

  Lemma cnt_of_class_count cls : In cls (class_keys targets I) -> cnt_of C cls = class_count I cls.
  Proof.
    intros H. destruct (profile_final_char _ _ _ _ _ _ I_nodup Hprof) as (_ & _ & _ & _ & HC & _).
    unfold cnt_of. rewrite (HC cls H). reflexivity.
  Qed.

  Lemma P_keys_all : r_remove_empty c = false -> dkeys P = class_keys targets I.
  Proof.
    intros Hre. destruct (profile_final_char _ _ _ _ _ _ I_nodup Hprof) as (_ & _ & (ks & Hk & Hnil) & _).
    rewrite (Hnil Hre) in Hk. rewrite Hk. apply filter_all_true. intros x _. reflexivity.
  Qed.

  Lemma P_nodup : NoDup (dkeys P).
  Proof. exact (proj1 (proj2 (profile_final_char _ _ _ _ _ _ I_nodup Hprof))). Qed.

  (** every entry of the (final) profile that the shexing stage reads is the
      declarative count, and is positive *)
  Lemma pd_entry_occ ce inv p k ck n :
    In ce P -> pd_entry (class_pd cfg ce inv) p k ck n ->
    n = occ (dir_of inv) tau I g (fst ce) p k ck /\ 0 < n /\ (inv = true -> r_inverse c = true).
  Proof.
    intros Hce He. destruct ce as [cls e].
    destruct (profile_final_char _ _ _ _ _ _ I_nodup Hprof) as (_ & _ & _ & _ & _ & HE).
    destruct (HE cls e Hce) as (_ & HD & HI & HN).
    destruct He as (kd & cd & H1 & H2 & H3). unfold class_pd in H1. cbn [snd fst] in *.
    destruct inv; cbn [dir_of].
    - change (x_inverse cfg) with (r_inverse c) in H1. destruct (r_inverse c) eqn:Ei; [|destruct H1].
      destruct (HI Ei p kd k cd ck n H1 H2 H3) as [A B]. auto.
    - destruct (HD p kd k cd ck n H1 H2 H3) as [A B]. split; [exact A|]. split; [exact B | discriminate].
  Qed.

  (** conversely every positive declarative count is an entry, provided the
      type key is not a class key removed by the cleaning *)
  Lemma occ_pd_entry ce inv p k ck :
    In ce P -> (inv = true -> r_inverse c = true) ->
    (In k (class_keys targets I) -> In k (dkeys P)) ->
    0 < occ (dir_of inv) tau I g (fst ce) p k ck ->
    pd_entry (class_pd cfg ce inv) p k ck (occ (dir_of inv) tau I g (fst ce) p k ck).
  Proof.
    intros Hce Hinv Hk Hpos. destruct ce as [cls e].
    destruct (profile_final_complete _ _ _ _ _ _ I_nodup Hprof cls e Hce p k Hk) as [HD HI].
    unfold class_pd. cbn [fst snd] in *. destruct inv; cbn [dir_of] in *.
    - change (x_inverse cfg) with (r_inverse c). rewrite (Hinv eq_refl).
      destruct (HI (Hinv eq_refl) ck Hpos) as (m & cd & A & B & D). exists m, cd. auto.
    - destruct (HD ck Hpos) as (m & cd & A & B & D). exists m, cd. auto.
  Qed.

  Lemma fig_src_occ ce inv p ty n pr c0 :
    In ce P -> fig_src (class_pd cfg ce inv) p ty n pr c0 -> fig_occ tau I g (dir_of inv) (fst ce) p ty n pr c0.
  Proof.
    intros Hce H. destruct H as [k ck n He | ckb nb cki ni Hb Hi].
    - destruct (pd_entry_occ ce inv p k ck n Hce He) as (-> & Hp & _). apply FO_entry. exact Hp.
    - destruct (pd_entry_occ ce inv p _ ckb nb Hce Hb) as (-> & Hpb & _).
      destruct (pd_entry_occ ce inv p _ cki ni Hce Hi) as (-> & Hpi & _).
      apply FO_merge; assumption.
  Qed.

  (** a statement of direction [inv = true] exists only with inverse paths *)
  Lemma post_ok_inv ce t :
    In ce P -> post_ok cfg (class_pd cfg ce (s_inv t)) t -> s_inv t = true -> r_inverse c = true.
  Proof.
    intros Hce (ty & pr0 & c0 & _ & _ & Hf & _) Hi.
    assert (He : exists k ck n, pd_entry (class_pd cfg ce (s_inv t)) (s_prop t) k ck n).
    { destruct Hf as [k ck n He | ckb nb cki ni Hb _]; eauto. }
    destruct He as (k & ck & n & He). destruct (pd_entry_occ ce _ _ _ _ _ Hce He) as (_ & _ & H). auto.
  Qed.

  Variable thr : F fa.
  Variable shapes : list shape.
  Hypothesis Hshex : shex fa cfg thr P C = inl shapes.

  (** C01, header and figures, for one output shape *)
  Lemma composed_shape sh :
    In sh shapes ->
    In (sh_class sh) (class_keys targets I) /\
    sh_name sh = shape_name (r_shapes_ns c) (sh_class sh) /\
    sh_n sh = class_count I (sh_class sh) /\
    forall st, In st (sh_stmts sh) ->
      (s_inv st = true -> r_inverse c = true) /\
      post_okR cfg (fig_occ tau I g (dir_of (s_inv st)) (sh_class sh) (s_prop st)) st.
  Proof.
    intros Hsh. destruct (K3 fa cfg thr P C shapes Hshex sh Hsh) as (ce & Hce & E1 & E2 & E3 & Hst).
    pose proof (P_keys_sub ce Hce) as Hk. rewrite E2.
    split; [exact Hk|]. split; [exact E1|]. split; [rewrite E3; apply cnt_of_class_count; exact Hk|].
    intros st Hin. specialize (Hst st Hin). split; [apply (post_ok_inv ce st Hce Hst)|].
    apply (post_ok_R cfg (class_pd cfg ce (s_inv st)) _ st); [|exact Hst]. intros ty n pr c0. apply fig_src_occ. exact Hce.
  Qed.
End Composed.

(** ** C01 end to end *)

Theorem e2e_figures fa c thr g ns shapes :
  run_shapes fa c thr g = inl (ns, shapes) ->
  exists I, track (r_tau c) (mode_of c) (r_cap c) g = inl I /\
    forall sh, In sh shapes ->
      In (sh_class sh) (class_keys (targets_of (pcfg_of c)) I) /\
      sh_name sh = shape_name (r_shapes_ns c) (sh_class sh) /\
      sh_n sh = class_count I (sh_class sh) /\
      forall st, In st (sh_stmts sh) ->
        (s_inv st = true -> r_inverse c = true) /\
        post_okR (scfg_of c ns) (fig_occ (r_tau c) I g (dir_of (s_inv st)) (sh_class sh) (s_prop st)) st.
Proof.
  intros H. apply run_shapes_decompose in H. destruct H as (I & P & C & ID & _ & HT & HP & HS).
  exists I. split; [exact HT|]. intros sh Hsh.
  apply (composed_shape fa c g ns I P C ID HT HP thr shapes HS sh Hsh).
Qed.

(** the classes of the output shapes: those of the profile, in order, some
    deleted by [remove_empty] *)
Lemma clean_shapes_classes fuel l l' :
  clean_shapes fuel l = inl l' ->
  NoDup (map sh_class l) -> NoDup (map sh_class l').
Proof.
  revert l l'; induction fuel as [|f IH]; intros l l' H Hn.
  - cbn in H. injection H as <-. exact Hn.
  - cbn [clean_shapes] in H. destruct (empty_names l) as [|nm names] eqn:En.
    + injection H as <-. exact Hn.
    + destruct (map_err (prune_shape (nm :: names)) (filter (fun s => negb (mem_str (sh_name s) (nm :: names))) l))
        as [l2|e] eqn:Em; [|discriminate].
      apply (IH l2 l' H). apply map_err_Forall2 in Em.
      rewrite <- (Forall2_map_eq sh_class sh_class (filter (fun s => negb (mem_str (sh_name s) (nm :: names))) l) l2).
      * apply NoDup_map_filter. exact Hn.
      * eapply Forall2_impl_In; [|exact Em]. cbn. intros a b _ _ Hp.
        destruct (prune_shape_sub _ _ _ Hp) as (_ & B2 & _). symmetry. exact B2.
Qed.

Lemma shex_classes fa cfg thr P C shapes :
  shex fa cfg thr P C = inl shapes ->
  (NoDup (dkeys P) -> NoDup (map sh_class shapes)) /\
  (x_remove_empty cfg = false -> map sh_class shapes = dkeys P).
Proof.
  intros H. destruct (shex_unfold fa cfg thr P C shapes H) as [shapes0 [F Hc]].
  assert (E0 : map sh_class shapes0 = dkeys P).
  { symmetry. unfold dkeys. apply Forall2_map_eq. eapply Forall2_impl_In; [|exact F]. cbn. intros ce sh _ _ Hs.
    destruct (shex_class_unfold fa cfg thr C ce sh Hs) as (_ & _ & _ & _ & _ & _ & E2 & _). symmetry. exact E2. }
  destruct (x_remove_empty cfg).
  - split; [|discriminate]. intros Hn. apply (clean_shapes_classes _ _ _ Hc). rewrite E0. exact Hn.
  - subst shapes0. split; [rewrite E0; auto | intros _; exact E0].
Qed.

(** header counts only; without [remove_empty] the shapes are exactly the
    class keys, in order *)
Theorem e2e_header fa c thr g ns shapes :
  run_shapes fa c thr g = inl (ns, shapes) ->
  exists I, track (r_tau c) (mode_of c) (r_cap c) g = inl I /\
    (forall sh, In sh shapes ->
       In (sh_class sh) (class_keys (targets_of (pcfg_of c)) I) /\
       sh_n sh = class_count I (sh_class sh)) /\
    NoDup (map sh_class shapes) /\
    (r_remove_empty c = false -> map sh_class shapes = class_keys (targets_of (pcfg_of c)) I).
Proof.
  intros H. apply run_shapes_decompose in H. destruct H as (I & P & C & ID & _ & HT & HP & HS).
  exists I. split; [exact HT|]. split; [|split].
  - intros sh Hsh. destruct (composed_shape fa c g ns I P C ID HT HP thr shapes HS sh Hsh) as (A & _ & B & _). auto.
  - apply (proj1 (shex_classes _ _ _ _ _ _ HS)). apply (P_nodup c g I P C ID HT HP).
  - intros Hre. rewrite (proj2 (shex_classes _ _ _ _ _ _ HS) Hre). apply (P_keys_all c g I P C ID HT HP Hre).
Qed.

(** [class_count] as a number of instances: when no instance lists a class
    twice it is the number of instances that list it *)
Lemma count_in_nodup cls cs : NoDup cs -> count_in cls cs = if mem_str cls cs then 1 else 0.
Proof.
  induction cs as [|x cs IH]; intros Hn; [reflexivity|]. inversion Hn as [|? ? Hx Hn']; subst.
  cbn [count_in mem_str]. rewrite (IH Hn').
  destruct (str_eqb cls x) eqn:E.
  - apply str_eqb_eq in E. subst x. cbn.
    destruct (mem_str cls cs) eqn:M; [apply mem_str_In in M; contradiction | reflexivity].
  - cbn. reflexivity.
Qed.

Lemma class_count_as_length (I : insts) cls :
  (forall i cs, In (i, cs) I -> NoDup cs) ->
  class_count I cls = N.of_nat (List.length (filter (fun ie : str * list str => mem_str cls (snd ie)) I)).
Proof.
  unfold class_count. induction I as [|[i cs] I IH]; intros H; [reflexivity|].
  cbn [map sumN filter snd]. rewrite IH by (intros i' cs' Hin; apply (H i' cs'); right; exact Hin).
  rewrite (count_in_nodup cls cs) by (apply (H i cs); left; reflexivity).
  destruct (mem_str cls cs); cbn [List.length]; lia.
Qed.

(** a single-entry figure is at most the header count, hence its ratio is at
    most one in binary64 *)
Lemma e2e_ratio_le_one tau I g dir cls p ty n pr c0 :
  fig_occ tau I g dir cls p ty n pr c0 -> ty <> c_NONLITERAL_ELEM_TYPE ->
  class_count I cls < 2 ^ 53 ->
  n <= class_count I cls /\
  fle BAlg (ratio BAlg n (class_count I cls)) (fone BAlg) = true.
Proof.
  intros H Hty Hlt. destruct (fig_occ_single_le _ _ _ _ _ _ _ _ _ _ H Hty) as [Hle Hpos].
  split; [exact Hle|]. apply (ratio_le_one _ _ _ BAlg_laws); [split; assumption | exact Hle].
Qed.

(** the same, spelled out for a constraint line that is not an OR and not the
    merged kind: its count is ONE declarative count, for the line's own
    direction, property and type key and for the ORIGINAL cardinality key
    [ck] (the printed cardinality is [ck]'s, or [+] for [{k>1}] under
    [disable_exact], or [?]/[*] when the line was relaxed) *)
Theorem e2e_line_exact fa c thr g ns shapes :
  run_shapes fa c thr g = inl (ns, shapes) ->
  exists I, track (r_tau c) (mode_of c) (r_cap c) g = inl I /\
    forall sh st, In sh shapes -> In st (sh_stmts sh) ->
      s_choice st = false -> s_type st <> c_NONLITERAL_ELEM_TYPE ->
      exists ck,
        s_nocc st = occ (dir_of (s_inv st)) (r_tau c) I g (sh_class sh) (s_prop st) (s_type st) ck /\
        0 < s_nocc st /\ s_nocc st <= sh_n sh /\ sh_n sh = class_count I (sh_class sh) /\
        ((s_prob st = PRatio (s_nocc st) /\ card_tuned (scfg_of c ns) (card_of_key ck) (s_card st)) \/
         (r_all_compliant c = true /\ s_prob st = POne /\
          s_card st = relax_card (scfg_of c ns) (card_of_key ck))).
Proof.
  intros H. destruct (e2e_figures fa c thr g ns shapes H) as (I & HT & HS). exists I. split; [exact HT|].
  intros sh st Hsh Hst Hch Hty. destruct (HS sh Hsh) as (_ & _ & En & Hall).
  destruct (Hall st Hst) as [_ (ty & pr0 & c0 & H1 & H2 & H3 & _ & H5)].
  assert (Ety : s_type st = ty) by (unfold s_type; rewrite (H2 Hch); reflexivity).
  rewrite Ety in *. destruct (fig_occ_single _ _ _ _ _ _ _ _ _ _ H3 Hty) as (ck & -> & En' & -> & Hp).
  destruct (fig_occ_single_le _ _ _ _ _ _ _ _ _ _ H3 Hty) as [Hle _].
  exists ck. split; [exact En'|]. split; [exact Hp|]. split; [rewrite En; exact Hle|]. split; [exact En|].
  destruct H5 as [[A B]|(A & B & D & _)]; [left; auto | right; auto].
Qed.

(** and for the comments: a [KStmt] comment carries a figure of the same
    class, direction and property; for a type key other than the merged kind
    it is one declarative count, for the merged kind the sum of two *)
Theorem e2e_comment_exact fa c thr g ns shapes :
  run_shapes fa c thr g = inl (ns, shapes) ->
  exists I, track (r_tau c) (mode_of c) (r_cap c) g = inl I /\
    forall sh st ch pr n tk c0, In sh shapes -> In st (sh_stmts sh) ->
      In (KStmt ch pr n tk c0) (s_comments st) ->
      let o := occ (dir_of (s_inv st)) (r_tau c) I g (sh_class sh) (s_prop st) in
      exists ty, (ch = false -> tune_token ns ty = Some tk) /\
        ((exists ck, c0 = card_of_key ck /\ n = o ty ck /\ pr = PRatio n /\ 0 < n /\
                     (ty <> c_NONLITERAL_ELEM_TYPE -> n <= sh_n sh)) \/
         (ty = c_NONLITERAL_ELEM_TYPE /\
          exists ckb cki, n = o c_BNODE_ELEM_TYPE ckb + o c_IRI_ELEM_TYPE cki /\
                          pr = PSum (o c_BNODE_ELEM_TYPE ckb) (o c_IRI_ELEM_TYPE cki) /\
                          c0 = most_general_card (card_of_key ckb) (card_of_key cki))).
Proof.
  intros H. destruct (e2e_figures fa c thr g ns shapes H) as (I & HT & HS). exists I. split; [exact HT|].
  intros sh st ch pr n tk c0 Hsh Hst Hk o. destruct (HS sh Hsh) as (_ & _ & En & Hall).
  destruct (Hall st Hst) as [_ (_ & _ & _ & _ & _ & _ & H4 & _)].
  rewrite Forall_forall in H4. specialize (H4 _ Hk). cbn in H4. destruct H4 as (ty & Hf & Htk).
  exists ty. split; [exact Htk|].
  destruct (fig_occ_cases _ _ _ _ _ _ _ _ _ _ Hf) as [(ck & A1 & A2 & A3 & A4)|(A1 & ckb & cki & B1 & B2 & B3 & _)].
  - left. exists ck. repeat split; auto. intros Hty.
    rewrite En. apply (fig_occ_single_le _ _ _ _ _ _ _ _ _ _ Hf Hty).
  - right. split; [exact A1|]. exists ckb, cki. auto.
Qed.

(** ** 3. C02: the keys of a shape, in terms of the data *)

(** key [(inv, p, vc)] passes: some type key [k] of value class [vc] and some
    cardinality key [ck] have a positive count whose ratio to the class size
    reaches the threshold (inverse keys only with inverse paths) *)
Definition key_passes_occ (fa : FreqAlg) (c : rcfg) (thr : F fa) (I : insts) (g : graph)
           (cls : str) (inv : bool) (p : str) (vc : vclass) : Prop :=
  (inv = true -> r_inverse c = true) /\
  exists k ck, value_class (r_tau c) p [k] = vc /\
    0 < occ (dir_of inv) (r_tau c) I g cls p k ck /\
    fle fa thr (ratio fa (occ (dir_of inv) (r_tau c) I g cls p k ck) (class_count I cls)) = true.

(** no shape label and no node kind is the string "NONLITERAL" *)
Lemma shape_name_not_nonliteral ns u : shape_name ns u <> c_NONLITERAL_ELEM_TYPE.
Proof.
  unfold shape_name. destruct (prefixb (Str "@") u) eqn:E1.
  - intros ->. vm_compute in E1. discriminate E1.
  - destruct (prefixb (Str "<") u && suffixb (Str ">") u); intros H;
      match type of H with _ ++ ?X = _ => remember X as X' eqn:EX; clear EX end;
      vm_compute in H; discriminate H.
Qed.

Lemma In_count_in k l : 0 < count_in k l -> In k l.
Proof. rewrite count_in_count_str. apply count_str_pos. Qed.

(** outside the typing property, a key contributed by a triple is a node
    kind, a shape label or a literal's datatype *)
Lemma contrib_not_nonliteral dir tau (I : insts) g t i p :
  no_nonliteral_datatype g -> In t g -> p <> tau ->
  ~ In c_NONLITERAL_ELEM_TYPE (contrib dir tau I t i p).
Proof.
  intros Hg Ht Hp Hin.
  assert (Hlab : forall id, ~ In c_NONLITERAL_ELEM_TYPE (shape_labels I id)).
  { intros id H. unfold shape_labels in H. apply in_map_iff in H. destruct H as [u [Hu _]].
    apply (shape_name_not_nonliteral _ _ Hu). }
  assert (Hel : forall n, elem_type n <> c_NONLITERAL_ELEM_TYPE).
  { intros n. unfold elem_type. destruct (nk n); intros H; vm_compute in H; discriminate H. }
  unfold contrib in Hin. destruct dir.
  - destruct (str_eqb (nid (ts t)) i && str_eqb (tp t) p) eqn:E; [|destruct Hin].
    apply andb_true_iff in E. destruct E as [_ E]. apply str_eqb_eq in E.
    assert (Et : str_eqb (tp t) tau = false) by (apply str_eqb_neq; congruence).
    unfold keys_direct in Hin. rewrite Et in Hin. destruct (to t) as [o|l dt] eqn:Eo.
    + destruct Hin as [Hin|Hin]; [apply (Hel o); exact Hin | apply (Hlab _ Hin)].
    + destruct Hin as [Hin|[]]. apply (Hg t l dt Ht Eo). exact Hin.
  - destruct (to t) as [o|l dt]; [|destruct Hin].
    destruct (str_eqb (nid o) i && str_eqb (tp t) p) eqn:E; [|destruct Hin].
    apply andb_true_iff in E. destruct E as [_ E]. apply str_eqb_eq in E.
    assert (Et : str_eqb (tp t) tau = false) by (apply str_eqb_neq; congruence).
    unfold keys_inverse in Hin. rewrite Et in Hin.
    destruct Hin as [Hin|Hin]; [apply (Hel (ts t)); exact Hin|].
    destruct (nk (ts t)); [apply (Hlab _ Hin) | destruct Hin].
Qed.

Lemma occ_not_nonliteral dir tau (I : insts) g cls p ck :
  no_nonliteral_datatype g -> p <> tau -> occ dir tau I g cls p c_NONLITERAL_ELEM_TYPE ck = 0.
Proof.
  intros Hg Hp. destruct (N.eq_0_gt_0_cases (occ dir tau I g cls p c_NONLITERAL_ELEM_TYPE ck)) as [E|E]; [exact E|].
  exfalso. assert (H : exists card, 0 < occ dir tau I g cls p c_NONLITERAL_ELEM_TYPE card) by (exists ck; exact E).
  apply occ_pos_iff in H. destruct H as (i & cs & _ & _ & Hc).
  unfold cnt in Hc. apply sumN_pos_ex in Hc. destruct Hc as [x [Hx Hpos]].
  apply in_map_iff in Hx. destruct Hx as [t [<- Ht]]. apply In_count_in in Hpos.
  apply (contrib_not_nonliteral dir tau I g t i p Hg Ht Hp Hpos).
Qed.

Section ComposedKeys.
  Variable fa : FreqAlg.
  Variable c : rcfg.
  Variable g : graph.
  Variable ns : nsdict.
  Variable I : insts.
  Variable P : cprofile.
  Variable C : ccounts.
  Variable ID : idict.
  Hypothesis Htrack : track (r_tau c) (mode_of c) (r_cap c) g = inl I.
  Hypothesis Hprof : profile (pcfg_of c) I g = inl (P, C, ID).
  Variable thr : F fa.

  Let cfg := scfg_of c ns.
  Let tau := r_tau c.

  (** soundness: whatever [remove_empty] *)
  Lemma key_passes_to_occ ce inv p vc :
    In ce P -> key_passes fa cfg thr (cnt_of C (fst ce)) (class_pd cfg ce inv) p vc ->
    key_passes_occ fa c thr I g (fst ce) inv p vc.
  Proof.
    intros Hce (k & ck & n & He & Hv & Hf).
    destruct (pd_entry_occ c g ns I P C ID Htrack Hprof ce inv p k ck n Hce He) as (En & Hp & Hi).
    rewrite (cnt_of_class_count c g I P C ID Htrack Hprof _ (P_keys_sub c g I P C ID Htrack Hprof ce Hce)) in Hf.
    split; [exact Hi|]. exists k, ck. subst n. auto.
  Qed.

  (** completeness: when no class key was removed by the cleaning *)
  Lemma occ_to_key_passes ce inv p vc :
    In ce P -> r_remove_empty c = false ->
    key_passes_occ fa c thr I g (fst ce) inv p vc ->
    key_passes fa cfg thr (cnt_of C (fst ce)) (class_pd cfg ce inv) p vc.
  Proof.
    intros Hce Hre (Hi & k & ck & Hv & Hp & Hf).
    exists k, ck, (occ (dir_of inv) (r_tau c) I g (fst ce) p k ck). split; [|split; [exact Hv|]].
    - apply (occ_pd_entry c g ns I P C ID Htrack Hprof ce inv p k ck Hce Hi); [|exact Hp].
      rewrite (P_keys_all c g I P C ID Htrack Hprof Hre). auto.
    - rewrite (cnt_of_class_count c g I P C ID Htrack Hprof _ (P_keys_sub c g I P C ID Htrack Hprof ce Hce)). exact Hf.
  Qed.

  Lemma pd_no_nl_of_graph ce inv :
    In ce P -> no_nonliteral_datatype g -> pd_no_nl cfg (class_pd cfg ce inv).
  Proof.
    intros Hce Hg p k ck n He Hp Hk. subst k.
    destruct (pd_entry_occ c g ns I P C ID Htrack Hprof ce inv p _ ck n Hce He) as (En & Hpos & _).
    rewrite (occ_not_nonliteral _ _ _ _ _ _ _ Hg Hp) in En. lia.
  Qed.
End ComposedKeys.

Theorem e2e_keys_iff_occ fa c thr g ns shapes :
  r_remove_empty c = false -> run_shapes fa c thr g = inl (ns, shapes) ->
  exists I, track (r_tau c) (mode_of c) (r_cap c) g = inl I /\
    map sh_class shapes = class_keys (targets_of (pcfg_of c)) I /\
    forall sh, In sh shapes ->
      sh_n sh = class_count I (sh_class sh) /\
      (forall inv p vc, In (inv, p, vc) (map (skey (scfg_of c ns)) (sh_stmts sh)) <->
                        key_passes_occ fa c thr I g (sh_class sh) inv p vc) /\
      (no_nonliteral_datatype g -> NoDup (map (skey (scfg_of c ns)) (sh_stmts sh))).
Proof.
  intros Hre H. destruct (e2e_header fa c thr g ns shapes H) as (I0 & HT0 & _).
  apply run_shapes_decompose in H. destruct H as (I & P & C & ID & _ & HT & HP & HS).
  exists I. split; [exact HT|]. split.
  - rewrite (proj2 (shex_classes _ _ _ _ _ _ HS) Hre). apply (P_keys_all c g I P C ID HT HP Hre).
  - intros sh Hsh. pose proof (K1 fa (scfg_of c ns) thr P C shapes Hre HS) as F.
    destruct (Forall2_In_r _ _ _ _ F Hsh) as (ce & Hce & _ & E2 & E3 & Hk & Hn). rewrite E2. split; [|split].
    + rewrite E3. apply (cnt_of_class_count c g I P C ID HT HP). apply (P_keys_sub c g I P C ID HT HP ce Hce).
    + intros inv p vc. rewrite Hk. split.
      * apply (key_passes_to_occ fa c g ns I P C ID HT HP thr ce inv p vc Hce).
      * apply (occ_to_key_passes fa c g ns I P C ID HT HP thr ce inv p vc Hce Hre).
    + intros Hg. apply Hn; apply (pd_no_nl_of_graph c g ns I P C ID HT HP ce _ Hce Hg).
Qed.

(** with [remove_empty]: soundness only (a key whose only passing entries
    refer to removed shapes is deleted: [ShexStage_K2_remove_key_refuted]) *)
Theorem e2e_keys_remove fa c thr g ns shapes :
  r_remove_empty c = true -> run_shapes fa c thr g = inl (ns, shapes) ->
  exists I, track (r_tau c) (mode_of c) (r_cap c) g = inl I /\
    forall sh, In sh shapes ->
      In (sh_class sh) (class_keys (targets_of (pcfg_of c)) I) /\
      sh_n sh = class_count I (sh_class sh) /\ sh_stmts sh <> [] /\
      (forall inv p vc, In (inv, p, vc) (map (skey (scfg_of c ns)) (sh_stmts sh)) ->
                        key_passes_occ fa c thr I g (sh_class sh) inv p vc) /\
      (no_nonliteral_datatype g -> NoDup (map (skey (scfg_of c ns)) (sh_stmts sh))).
Proof.
  intros Hre H. apply run_shapes_decompose in H. destruct H as (I & P & C & ID & _ & HT & HP & HS).
  exists I. split; [exact HT|]. intros sh Hsh.
  destruct (K1_remove fa (scfg_of c ns) thr P C shapes Hre HS sh Hsh) as (ce & Hce & _ & E2 & E3 & Hne & Hk & Hn).
  pose proof (P_keys_sub c g I P C ID HT HP ce Hce) as Hck. rewrite E2.
  split; [exact Hck|]. split; [rewrite E3; apply (cnt_of_class_count c g I P C ID HT HP _ Hck)|].
  split; [exact Hne|]. split.
  - intros inv p vc Hin. apply (key_passes_to_occ fa c g ns I P C ID HT HP thr ce inv p vc Hce). apply Hk. exact Hin.
  - intros Hg. apply Hn; apply (pd_no_nl_of_graph c g ns I P C ID HT HP ce _ Hce Hg).
Qed.

(** the [_max] form: a key passes iff the LARGEST count among the (type key,
    cardinality key) pairs of its value class does *)
Definition key_passes_occ_max (fa : FreqAlg) (c : rcfg) (thr : F fa) (I : insts) (g : graph)
           (cls : str) (inv : bool) (p : str) (vc : vclass) : Prop :=
  (inv = true -> r_inverse c = true) /\
  exists k ck, value_class (r_tau c) p [k] = vc /\
    0 < occ (dir_of inv) (r_tau c) I g cls p k ck /\
    (forall k' ck', value_class (r_tau c) p [k'] = vc ->
                    occ (dir_of inv) (r_tau c) I g cls p k' ck' <= occ (dir_of inv) (r_tau c) I g cls p k ck) /\
    fle fa thr (ratio fa (occ (dir_of inv) (r_tau c) I g cls p k ck) (class_count I cls)) = true.

Lemma key_passes_occ_max_sound fa c thr I g cls inv p vc :
  key_passes_occ_max fa c thr I g cls inv p vc -> key_passes_occ fa c thr I g cls inv p vc.
Proof. intros (Hi & k & ck & A & B & _ & D). split; [exact Hi|]. exists k, ck. auto. Qed.

Section KeysMax.
  Variable fa : FreqAlg.
  Variable okN : N -> Prop.
  Variable okF : F fa -> Prop.
  Hypothesis L : FreqLaws fa okN okF.

  Theorem e2e_keys_max c thr g ns shapes :
    r_remove_empty c = false -> okF thr -> run_shapes fa c thr g = inl (ns, shapes) ->
    exists I, track (r_tau c) (mode_of c) (r_cap c) g = inl I /\
      forall sh, In sh shapes ->
        (0 < class_count I (sh_class sh) -> okN (class_count I (sh_class sh))) ->
        forall inv p vc, In (inv, p, vc) (map (skey (scfg_of c ns)) (sh_stmts sh)) <->
                         key_passes_occ_max fa c thr I g (sh_class sh) inv p vc.
  Proof.
    intros Hre Hthr H. destruct (e2e_keys_iff_occ fa c thr g ns shapes Hre H) as (I0 & HT0 & _ & HK0).
    apply run_shapes_decompose in H. destruct H as (I & P & C & ID & _ & HT & HP & HS).
    assert (EI : I0 = I) by congruence. subst I0.
    exists I. split; [exact HT|]. intros sh Hsh HokN inv p vc.
    destruct (HK0 sh Hsh) as (_ & HK & _). split; [|intros Hm; apply HK, key_passes_occ_max_sound, Hm].
    intros Hin. pose proof (proj1 (HK inv p vc) Hin) as Hocc.
    pose proof (K1 fa (scfg_of c ns) thr P C shapes Hre HS) as F.
    destruct (Forall2_In_r _ _ _ _ F Hsh) as (ce & Hce & _ & E2 & _ & Hk & _).
    pose proof (proj1 (Hk inv p vc) Hin) as Hkp. rewrite E2 in *.
    pose proof (cnt_of_class_count c g I P C ID HT HP _ (P_keys_sub c g I P C ID HT HP ce Hce)) as Ecc.
    rewrite Ecc in Hkp.
    assert (Hpos : 0 < class_count I (fst ce)).
    { destruct Hocc as (_ & k & ck & _ & Hp & _).
      pose proof (occ_le_class_count (dir_of inv) (r_tau c) I g (fst ce) p k ck). lia. }
    apply (key_passes_max fa (scfg_of c ns) okF okN (ratio_wf _ _ _ L) (fle_trans _ _ _ L) (ratio_mono _ _ _ L)
             thr _ _ p vc Hthr (HokN Hpos)) in Hkp.
    destruct Hkp as (k & ck & n & He & Hv & Hmax & Hf).
    destruct (pd_entry_occ c g ns I P C ID HT HP ce inv p k ck n Hce He) as (En & Hp & Hi).
    split; [exact Hi|]. exists k, ck. subst n. split; [exact Hv|]. split; [exact Hp|]. split; [|exact Hf].
    intros k' ck' Hv'.
    destruct (N.eq_0_gt_0_cases (occ (dir_of inv) (r_tau c) I g (fst ce) p k' ck')) as [E|E]; [rewrite E; lia|].
    apply (Hmax k' ck' _); [|exact Hv'].
    apply (occ_pd_entry c g ns I P C ID HT HP ce inv p k' ck' Hce Hi); [|exact E].
    rewrite (P_keys_all c g I P C ID HT HP Hre). auto.
  Qed.
End KeysMax.

(** the two algebras *)
Theorem e2e_keys_max_B c thr g ns shapes :
  r_remove_empty c = false -> wf_frac thr -> run_shapes BAlg c thr g = inl (ns, shapes) ->
  exists I, track (r_tau c) (mode_of c) (r_cap c) g = inl I /\
    forall sh, In sh shapes -> class_count I (sh_class sh) < 2 ^ 53 ->
      forall inv p vc, In (inv, p, vc) (map (skey (scfg_of c ns)) (sh_stmts sh)) <->
                       key_passes_occ_max BAlg c thr I g (sh_class sh) inv p vc.
Proof.
  intros Hre Hthr H. destruct (e2e_keys_max BAlg okN53 wf_frac BAlg_laws c thr g ns shapes Hre Hthr H) as (I & HT & HK).
  exists I. split; [exact HT|]. intros sh Hsh Hlt. apply (HK sh Hsh). intros Hpos. split; assumption.
Qed.

Theorem e2e_keys_max_Q c thr g ns shapes :
  r_remove_empty c = false -> wf_frac thr -> run_shapes QAlg c thr g = inl (ns, shapes) ->
  exists I, track (r_tau c) (mode_of c) (r_cap c) g = inl I /\
    forall sh, In sh shapes ->
      forall inv p vc, In (inv, p, vc) (map (skey (scfg_of c ns)) (sh_stmts sh)) <->
                       key_passes_occ_max QAlg c thr I g (sh_class sh) inv p vc.
Proof.
  intros Hre Hthr H.
  destruct (e2e_keys_max QAlg (fun d => 0 < d) wf_frac QAlg_laws c thr g ns shapes Hre Hthr H) as (I & HT & HK).
  exists I. split; [exact HT|]. intros sh Hsh. apply (HK sh Hsh). auto.
Qed.

(** ** 4. C09: statement order *)

(** *** the counts depend on the instance dictionary only through, for each
    node, the multiset of its classes *)
Definition insts_equiv (I I' : insts) : Prop :=
  NoDup (dkeys I) /\ NoDup (dkeys I') /\
  (forall i, dmem I i = dmem I' i) /\
  (forall i, Permutation (classes_of I i) (classes_of I' i)).

Lemma insts_equiv_refl I : NoDup (dkeys I) -> insts_equiv I I.
Proof. intros H. repeat split; auto. Qed.

Lemma insts_equiv_sym I I' : insts_equiv I I' -> insts_equiv I' I.
Proof.
  intros (A & B & D & E). repeat split; auto. intros i. apply Permutation_sym, E.
Qed.

Lemma count_in_perm k l l' : Permutation l l' -> count_in k l = count_in k l'.
Proof. induction 1; cbn; lia. Qed.

Lemma insts_as_map (I : insts) :
  NoDup (dkeys I) -> I = map (fun i => (i, classes_of I i)) (dkeys I).
Proof.
  intros Hn. unfold dkeys. rewrite map_map.
  rewrite <- (map_id I) at 1. apply map_ext_in. intros [i cs] Hin. cbn [fst].
  unfold classes_of. rewrite (In_dget_NoDup I i cs Hn Hin). reflexivity.
Qed.

Lemma dkeys_perm (I I' : insts) : insts_equiv I I' -> Permutation (dkeys I) (dkeys I').
Proof.
  intros (A & B & D & _). apply NoDup_Permutation; auto.
  intros i. rewrite <- !dmem_In, D. tauto.
Qed.

(** a sum over the dictionary, as a sum over its keys *)
Lemma sum_over_insts (F : str -> list str -> N) (I : insts) :
  NoDup (dkeys I) ->
  sumN (map (fun ie : str * list str => F (fst ie) (snd ie)) I) =
  sumN (map (fun i => F i (classes_of I i)) (dkeys I)).
Proof.
  intros Hn. rewrite (insts_as_map I Hn) at 1. rewrite map_map. reflexivity.
Qed.

Lemma sum_insts_equiv (F F' : str -> list str -> N) (I I' : insts) :
  insts_equiv I I' ->
  (forall i, F i (classes_of I i) = F' i (classes_of I' i)) ->
  sumN (map (fun ie : str * list str => F (fst ie) (snd ie)) I) =
  sumN (map (fun ie : str * list str => F' (fst ie) (snd ie)) I').
Proof.
  intros He HF. pose proof (dkeys_perm I I' He) as HP. destruct He as (A & B & _ & _).
  rewrite (sum_over_insts F I A), (sum_over_insts F' I' B).
  rewrite (sumN_perm _ _ (Permutation_map (fun i => F i (classes_of I i)) HP)).
  apply sumN_map_ext. intros i _. apply HF.
Qed.

Theorem class_count_insts_equiv I I' cls :
  insts_equiv I I' -> class_count I cls = class_count I' cls.
Proof.
  intros He. unfold class_count.
  apply (sum_insts_equiv (fun _ cs => count_in cls cs) (fun _ cs => count_in cls cs) I I' He).
  intros i. apply count_in_perm. destruct He as (_ & _ & _ & E). apply E.
Qed.

Lemma shape_labels_perm I I' id :
  insts_equiv I I' -> Permutation (shape_labels I id) (shape_labels I' id).
Proof. intros (_ & _ & _ & E). unfold shape_labels. apply Permutation_map, E. Qed.

Lemma contrib_perm dir tau I I' t i p :
  insts_equiv I I' -> Permutation (contrib dir tau I t i p) (contrib dir tau I' t i p).
Proof.
  intros He. pose proof (shape_labels_perm I I') as HL. unfold contrib. destruct dir.
  - destruct (str_eqb (nid (ts t)) i && str_eqb (tp t) p); [|apply Permutation_refl].
    unfold keys_direct. destruct (to t) as [o|l dt]; [|apply Permutation_refl].
    destruct (str_eqb (tp t) tau).
    + apply perm_skip. destruct (str_eqb (nid o) c_IRI_ELEM_TYPE || str_eqb (nid o) c_BNODE_ELEM_TYPE);
        [apply HL; exact He | apply Permutation_refl].
    + apply perm_skip. apply HL; exact He.
  - destruct (to t) as [o|l dt]; [|apply Permutation_refl].
    destruct (str_eqb (nid o) i && str_eqb (tp t) p); [|apply Permutation_refl].
    unfold keys_inverse. destruct (str_eqb (tp t) tau).
    + apply perm_skip. destruct (str_eqb (nid (ts t)) c_IRI_ELEM_TYPE); [apply HL; exact He | apply Permutation_refl].
    + apply perm_skip. destruct (nk (ts t)); [apply HL; exact He | apply Permutation_refl].
Qed.

Theorem cnt_insts_equiv dir tau I I' G i p k :
  insts_equiv I I' -> cnt dir tau I G i p k = cnt dir tau I' G i p k.
Proof.
  intros He. unfold cnt. apply sumN_map_ext. intros t _. apply count_in_perm, contrib_perm, He.
Qed.

Theorem occ_insts_equiv dir tau I I' G cls p k card :
  insts_equiv I I' -> occ dir tau I G cls p k card = occ dir tau I' G cls p k card.
Proof.
  intros He. unfold occ.
  apply (sum_insts_equiv
           (fun i cs => if card_ok tau p card (cnt dir tau I G i p k) then count_in cls cs else 0)
           (fun i cs => if card_ok tau p card (cnt dir tau I' G i p k) then count_in cls cs else 0) I I' He).
  intros i. rewrite (cnt_insts_equiv dir tau I I' G i p k He).
  destruct (card_ok tau p card _); [|reflexivity].
  apply count_in_perm. destruct He as (_ & _ & _ & E). apply E.
Qed.

(** both at once: another order of the statements, an equivalent dictionary *)
Theorem occ_perm_equiv dir tau I I' G G' cls p k card :
  insts_equiv I I' -> Permutation G G' ->
  occ dir tau I G cls p k card = occ dir tau I' G' cls p k card.
Proof. intros He HP. rewrite (occ_insts_equiv dir tau I I' G cls p k card He). apply occ_perm, HP. Qed.

Lemma class_keys_In targets (I : insts) cls :
  In cls (class_keys targets I) <-> In cls targets \/ 0 < class_count I cls.
Proof.
  unfold class_keys. rewrite uniq_first_first_occ, In_first_occ, in_app_iff, class_count_concat, count_str_pos. tauto.
Qed.

Lemma class_keys_insts_equiv targets I I' cls :
  insts_equiv I I' -> (In cls (class_keys targets I) <-> In cls (class_keys targets I')).
Proof. intros He. rewrite !class_keys_In, (class_count_insts_equiv I I' cls He). tauto. Qed.

(** *** the tracker without cap: a set characterisation *)
Definition objid (t : triple) : str := match to t with ON o => nid o | OL _ _ => [] end.

Definition about (tau : str) (m : tmode) (i : str) (t : triple) : bool :=
  relevant tau m t && str_eqb (nid (ts t)) i.

Lemma classes_of_dupd (d : insts) k x i :
  classes_of (dupd d k [] (fun cs => cs ++ [x])) i =
  if str_eqb k i then classes_of d i ++ [x] else classes_of d i.
Proof.
  unfold classes_of. rewrite dget_dupd. destruct (str_eqb k i) eqn:E; [|reflexivity].
  apply str_eqb_eq in E. subst i. unfold dupd_val. destruct (dget d k); reflexivity.
Qed.

(** instance [i] ends up with the objects of the relevant triples about it,
    in order, after what it had; it is a key iff it was one or there is such
    a triple *)
Lemma track_plain_char tau m g : forall d I,
  track_plain tau m g d = inl I ->
  (forall i, classes_of I i = classes_of d i ++ map objid (filter (about tau m i) g)) /\
  (forall i, dmem I i = dmem d i || existsb (about tau m i) g).
Proof.
  induction g as [|t g IH]; intros d I H; cbn [track_plain] in H.
  - injection H as <-. split; intros i; cbn; [rewrite app_nil_r | rewrite orb_false_r]; reflexivity.
  - destruct (relevant tau m t) eqn:Hr.
    + unfold annotate in H. destruct (to t) as [o|l dt] eqn:Eo; [|discriminate].
      destruct (IH _ _ H) as [A B]. split; intros i.
      * rewrite A, classes_of_dupd. cbn [filter]. unfold about at 2. rewrite Hr. cbn [andb].
        destruct (str_eqb (nid (ts t)) i); [|reflexivity].
        cbn [map]. unfold objid at 2. rewrite Eo. rewrite <- app_assoc. reflexivity.
      * rewrite B, dmem_dupd. cbn [existsb]. unfold about at 2. rewrite Hr. cbn [andb].
        destruct (str_eqb (nid (ts t)) i), (dmem d i); reflexivity.
    + destruct (IH _ _ H) as [A B]. split; intros i.
      * rewrite A. cbn [filter]. unfold about at 2. rewrite Hr. reflexivity.
      * rewrite B. cbn [existsb]. unfold about at 2. rewrite Hr. reflexivity.
Qed.

(** it fails exactly on a relevant triple with a literal object (all-classes
    mode only: with target classes a relevant object is an IRI) *)
Lemma track_plain_ok_iff tau m g : forall d,
  (exists I, track_plain tau m g d = inl I) <->
  (forall t, In t g -> relevant tau m t = true -> is_node (to t) = true).
Proof.
  induction g as [|t g IH]; intros d; cbn [track_plain].
  - split; [intros _ t [] | intros _; eexists; reflexivity].
  - destruct (relevant tau m t) eqn:Hr.
    + unfold annotate. destruct (to t) as [o|l dt] eqn:Eo.
      * rewrite IH. split.
        -- intros H t' [<-|Ht'] Hr'; [rewrite Eo; reflexivity | apply H; assumption].
        -- intros H t' Ht'. apply H. right; exact Ht'.
      * split; [intros [I H]; discriminate H|].
        intros H. specialize (H t (or_introl eq_refl) Hr). rewrite Eo in H. discriminate H.
    + rewrite IH. split.
      * intros H t' [<-|Ht'] Hr'; [congruence | apply H; assumption].
      * intros H t' Ht'. apply H. right; exact Ht'.
Qed.

Lemma perm_filter {A} (f : A -> bool) l l' : Permutation l l' -> Permutation (filter f l) (filter f l').
Proof.
  induction 1 as [|x l l' _ IH|x y l|l l' l'' _ IH1 _ IH2]; cbn.
  - constructor.
  - destruct (f x); [apply perm_skip|]; exact IH.
  - destruct (f x), (f y); try apply Permutation_refl. apply perm_swap.
  - eapply Permutation_trans; eassumption.
Qed.

Lemma existsb_perm {A} (f : A -> bool) l l' : Permutation l l' -> existsb f l = existsb f l'.
Proof. induction 1; cbn; try congruence. destruct (f x), (f y); reflexivity. Qed.

(** C09 (b): without cap, permuting the statements gives a dictionary with the
    same instances and, per instance, the same classes up to order *)
Theorem track_perm tau m cap g g' I :
  (cap <= 0)%Z -> Permutation g g' -> track tau m cap g = inl I ->
  exists I', track tau m cap g' = inl I' /\ insts_equiv I I'.
Proof.
  intros Hcap HP H.
  assert (Ok' : exists I', track tau m cap g' = inl I').
  { unfold track in *. apply Z.leb_le in Hcap. rewrite Hcap in *.
    apply track_plain_ok_iff. intros t Ht.
    apply (proj1 (track_plain_ok_iff tau m g []) (ex_intro _ I H)).
    apply (Permutation_in _ (Permutation_sym HP)). exact Ht. }
  destruct Ok' as [I' H']. exists I'. split; [exact H'|].
  pose proof (proj1 (track_insts_ok tau m cap g I H)) as N1.
  pose proof (proj1 (track_insts_ok tau m cap g' I' H')) as N2.
  unfold track in H, H'. apply Z.leb_le in Hcap. rewrite Hcap in H, H'.
  destruct (track_plain_char tau m g [] I H) as [A B].
  destruct (track_plain_char tau m g' [] I' H') as [A' B'].
  split; [exact N1|]. split; [exact N2|]. split; intros i.
  - rewrite B, B'. cbn. apply existsb_perm, HP.
  - rewrite A, A'. cbn. apply Permutation_map, perm_filter, HP.
Qed.

(** *** C09 (c): the numbers of the profile and the key sets of the shapes *)

Lemma key_passes_occ_perm fa c thr I I' g g' cls inv p vc :
  insts_equiv I I' -> Permutation g g' ->
  key_passes_occ fa c thr I g cls inv p vc -> key_passes_occ fa c thr I' g' cls inv p vc.
Proof.
  intros He HP (Hi & k & ck & Hv & Hp & Hf). split; [exact Hi|]. exists k, ck.
  rewrite <- (occ_perm_equiv (dir_of inv) (r_tau c) I I' g g' cls p k ck He HP).
  rewrite <- (class_count_insts_equiv I I' cls He). auto.
Qed.

(** two runs on two orders of the same statements (no cap, empty shapes kept)
    that both succeed: same shape classes, and class by class the same name,
    the same header count and the same set of keys *)
Theorem e2e_keys_perm fa c thr g g' ns shapes ns' shapes' :
  (r_cap c <= 0)%Z -> r_remove_empty c = false -> Permutation g g' ->
  run_shapes fa c thr g = inl (ns, shapes) -> run_shapes fa c thr g' = inl (ns', shapes') ->
  ns' = ns /\
  (forall cls, In cls (map sh_class shapes) <-> In cls (map sh_class shapes')) /\
  forall sh sh', In sh shapes -> In sh' shapes' -> sh_class sh = sh_class sh' ->
    sh_name sh = sh_name sh' /\ sh_n sh = sh_n sh' /\
    forall key, In key (map (skey (scfg_of c ns)) (sh_stmts sh)) <->
                In key (map (skey (scfg_of c ns)) (sh_stmts sh')).
Proof.
  intros Hcap Hre HP H H'.
  assert (Ens : ns' = ns).
  { apply run_shapes_decompose in H, H'. destruct H as (_ & _ & _ & _ & A & _). destruct H' as (_ & _ & _ & _ & A' & _).
    congruence. }
  subst ns'. split; [reflexivity|].
  destruct (e2e_figures fa c thr g ns shapes H) as (J & HTJ & HF).
  destruct (e2e_figures fa c thr g' ns shapes' H') as (J' & HTJ' & HF').
  destruct (e2e_keys_iff_occ fa c thr g ns shapes Hre H) as (I & HT & HC & HK).
  destruct (e2e_keys_iff_occ fa c thr g' ns shapes' Hre H') as (I' & HT' & HC' & HK').
  assert (J = I) by congruence. assert (J' = I') by congruence. subst J J'.
  destruct (track_perm _ _ _ g g' I Hcap HP HT) as (I'' & HT'' & He).
  assert (I'' = I') by congruence. subst I''.
  split.
  - intros cls. rewrite HC, HC'. apply class_keys_insts_equiv, He.
  - intros sh sh' Hsh Hsh' Ecls.
    destruct (HK sh Hsh) as (En & Hk & _). destruct (HK' sh' Hsh') as (En' & Hk' & _).
    destruct (HF sh Hsh) as (_ & Enm & _). destruct (HF' sh' Hsh') as (_ & Enm' & _).
    split; [rewrite Enm, Enm', Ecls; reflexivity|].
    split; [rewrite En, En', Ecls; apply class_count_insts_equiv, He|].
    intros [[inv p] vc]. rewrite Hk, Hk', Ecls. split.
    + apply key_passes_occ_perm; assumption.
    + apply key_passes_occ_perm; [apply insts_equiv_sym, He | apply Permutation_sym, HP].
Qed.

(** the tracker and the profiler stages: if they succeed on one order they
    succeed on the other, with the same class keys (as a set), the same
    class counts and the same number under every lookup *)
Theorem e2e_profile_perm c g g' I P C ID :
  (r_cap c <= 0)%Z -> r_remove_empty c = false -> Permutation g g' ->
  track (r_tau c) (mode_of c) (r_cap c) g = inl I ->
  profile (pcfg_of c) I g = inl (P, C, ID) ->
  exists I' P' C' ID',
    track (r_tau c) (mode_of c) (r_cap c) g' = inl I' /\ insts_equiv I I' /\
    profile (pcfg_of c) I' g' = inl (P', C', ID') /\
    (forall cls, In cls (dkeys P) <-> In cls (dkeys P')) /\
    (forall cls, cnt_of C cls = cnt_of C' cls) /\
    forall cls e e', dget P cls = Some e -> dget P' cls = Some e' ->
      forall p k card,
        plook (c_direct e) p k card = plook (c_direct e') p k card /\
        plook (c_inverse e) p k card = plook (c_inverse e') p k card.
Proof.
  intros Hcap Hre HP HT HPr.
  destruct (track_perm _ _ _ g g' I Hcap HP HT) as (I' & HT' & He).
  pose proof (proj1 (track_insts_ok _ _ _ _ _ HT)) as N1.
  pose proof (proj1 (track_insts_ok _ _ _ _ _ HT')) as N2.
  (* the feature pass succeeds on the other order *)
  destruct (profile (pcfg_of c) I' g') as [[[P' C'] ID']|e] eqn:HPr'.
  2:{ exfalso. apply run_profile_err in HPr'. destruct HPr' as [_ (t & Ht & Hd & Hp & Hn)].
      assert (Hbad : profile (pcfg_of c) I g = inr PEAttr).
      { apply run_profile_err. split; [reflexivity|]. exists t.
        split; [apply (Permutation_in _ (Permutation_sym HP)); exact Ht|].
        destruct He as (_ & _ & D & _). repeat split; auto. rewrite D. exact Hd. }
      congruence. }
  exists I', P', C', ID'. split; [exact HT'|]. split; [exact He|]. split; [exact HPr'|].
  (* both profiles are raw profiles *)
  rewrite profile_result in HPr, HPr'.
  change (p_remove_empty (pcfg_of c)) with (r_remove_empty c) in HPr, HPr'. rewrite Hre in HPr, HPr'.
  destruct (annotate_all (p_tau (pcfg_of c)) (p_inverse (pcfg_of c)) g (adapt I)) as [ID0|] eqn:HA; [|discriminate].
  destruct (annotate_all (p_tau (pcfg_of c)) (p_inverse (pcfg_of c)) g' (adapt I')) as [ID0'|] eqn:HA'; [|discriminate].
  destruct (raw_profile (pcfg_of c) I ID0) as [P1 C1] eqn:HR.
  destruct (raw_profile (pcfg_of c) I' ID0') as [P1' C1'] eqn:HR'.
  injection HPr as <- <- <-. injection HPr' as <- <- <-.
  destruct (profile_counts_char _ _ _ _ _ _ N1 HA HR) as (K1 & K2 & _ & K4 & K5).
  destruct (profile_counts_char _ _ _ _ _ _ N2 HA' HR') as (K1' & K2' & _ & K4' & K5').
  assert (Hkeys : forall cls, In cls (dkeys P1) <-> In cls (dkeys P1')).
  { intros cls. rewrite K1, K1'. apply class_keys_insts_equiv, He. }
  split; [exact Hkeys|]. split.
  - intros cls. unfold cnt_of. destruct (dget C1 cls) as [n|] eqn:E.
    + assert (Hin : In cls (dkeys P1)).
      { rewrite <- K2. apply dmem_In. unfold dmem. rewrite E. reflexivity. }
      rewrite (K4 cls Hin) in E. injection E as <-.
      rewrite (K4' cls (proj1 (Hkeys cls) Hin)). apply class_count_insts_equiv, He.
    + destruct (dget C1' cls) as [n'|] eqn:E'; [|reflexivity]. exfalso.
      assert (Hin : In cls (dkeys P1')).
      { rewrite <- K2'. apply dmem_In. unfold dmem. rewrite E'. reflexivity. }
      apply Hkeys in Hin. rewrite <- K2 in Hin. apply dget_None in E. contradiction.
  - intros cls e e' Hg Hg' p k card.
    destruct (K5 cls e Hg) as (D1 & _ & D3). destruct (K5' cls e' Hg') as (D1' & _ & D3').
    split.
    + rewrite D1, D1'. apply occ_perm_equiv; assumption.
    + destruct (p_inverse (pcfg_of c)).
      * rewrite (proj1 D3), (proj1 D3'). apply occ_perm_equiv; assumption.
      * rewrite D3, D3'. reflexivity.
Qed.

(** C09 (b), summary: the counts of the spec do not depend on the order of
    the statements, the tracker's dictionary included *)
Theorem counts_track_perm tau m cap g g' I :
  (cap <= 0)%Z -> Permutation g g' -> track tau m cap g = inl I ->
  exists I', track tau m cap g' = inl I' /\ insts_equiv I I' /\
    (forall cls, class_count I' cls = class_count I cls) /\
    (forall dir cls p k card, occ dir tau I' g' cls p k card = occ dir tau I g cls p k card).
Proof.
  intros Hcap HP HT. destruct (track_perm tau m cap g g' I Hcap HP HT) as (I' & HT' & He).
  exists I'. split; [exact HT'|]. split; [exact He|]. split.
  - intros cls. symmetry. apply class_count_insts_equiv, He.
  - intros dir cls p k card. symmetry. apply occ_perm_equiv; assumption.
Qed.

(** a configuration switch used by the examples of the Props files *)
Definition with_remove_empty (b : bool) (c : rcfg) : rcfg :=
  {| r_tau := r_tau c; r_targets := r_targets c; r_ns := r_ns c; r_shapes_ns := r_shapes_ns c; r_cap := r_cap c;
     r_inverse := r_inverse c; r_remove_empty := b; r_discard_useless := r_discard_useless c;
     r_keep_less_specific := r_keep_less_specific c; r_all_compliant := r_all_compliant c; r_disable_or := r_disable_or c;
     r_allow_redundant_or := r_allow_redundant_or c; r_allow_opt := r_allow_opt c;
     r_disable_exact := r_disable_exact c; r_disable_comments := r_disable_comments c; r_mode := r_mode c |}.

(** classes, header counts and keys of a run, for the examples *)
Definition keys_of_run (fa : FreqAlg) (c : rcfg) (thr : F fa) (g : graph) :=
  match run_shapes fa c thr g with
  | inl (ns, l) => Some (map (fun sh => (sh_class sh, sh_n sh, map (skey (scfg_of c ns)) (sh_stmts sh))) l)
  | inr _ => None
  end.

(** ** complements to C01 *)

(** the reported ratio of a plain line is at most one (binary64 run) *)
Theorem e2e_line_ratio_le_one c thr g ns shapes :
  run_shapes BAlg c thr g = inl (ns, shapes) ->
  forall sh st, In sh shapes -> In st (sh_stmts sh) ->
    s_choice st = false -> s_type st <> c_NONLITERAL_ELEM_TYPE -> sh_n sh < 2 ^ 53 ->
    (s_nocc st <= sh_n sh) /\ fle BAlg (ratio BAlg (s_nocc st) (sh_n sh)) (fone BAlg) = true.
Proof.
  intros H sh st Hsh Hst Hch Hty Hlt. destruct (e2e_line_exact BAlg c thr g ns shapes H) as (I & _ & HL).
  destruct (HL sh st Hsh Hst Hch Hty) as (ck & _ & Hp & Hle & _). split; [exact Hle|].
  apply (ratio_le_one _ _ _ BAlg_laws); [split; lia | exact Hle].
Qed.

(** the header count as a number of instances, for the uncapped tracker on a
    graph in which no typing statement occurs twice (two occurrences of
    [i tau cls] make the tracker list [cls] twice for [i]: QUIRK Q7) *)
Definition typing_pair (t : triple) : str * str := (nid (ts t), objid t).

Lemma about_filter tau m i g :
  filter (about tau m i) g = filter (fun t => str_eqb (nid (ts t)) i) (filter (relevant tau m) g).
Proof.
  induction g as [|t g IH]; [reflexivity|]. cbn [filter]. unfold about at 1.
  destruct (relevant tau m t); cbn [andb filter]; [|exact IH].
  destruct (str_eqb (nid (ts t)) i); rewrite IH; reflexivity.
Qed.

Lemma nodup_pairs_snd {A} (f h : A -> str) i l :
  NoDup (map (fun t => (f t, h t)) l) -> NoDup (map h (filter (fun t => str_eqb (f t) i) l)).
Proof.
  induction l as [|t l IH]; intros Hn; [constructor|]. cbn [map] in Hn. inversion Hn as [|? ? Hx Hn']; subst.
  cbn [filter]. destruct (str_eqb (f t) i) eqn:E; [|apply IH; exact Hn'].
  cbn [map]. constructor; [|apply IH; exact Hn'].
  intros Hin. apply in_map_iff in Hin. destruct Hin as [t' [Eh Ht']]. apply filter_In in Ht'. destruct Ht' as [Ht' E'].
  apply Hx. apply in_map_iff. exists t'. split; [|exact Ht'].
  apply str_eqb_eq in E, E'. rewrite Eh. congruence.
Qed.

Theorem track_classes_nodup tau m cap g I :
  (cap <= 0)%Z -> NoDup (map typing_pair (filter (relevant tau m) g)) ->
  track tau m cap g = inl I -> forall i cs, In (i, cs) I -> NoDup cs.
Proof.
  intros Hcap Hg H i cs Hin.
  pose proof (proj1 (track_insts_ok tau m cap g I H)) as N1.
  unfold track in H. apply Z.leb_le in Hcap. rewrite Hcap in H.
  destruct (track_plain_char tau m g [] I H) as [A _].
  assert (E : cs = classes_of I i) by (unfold classes_of; rewrite (In_dget_NoDup I i cs N1 Hin); reflexivity).
  rewrite E, A. cbn [classes_of dget app]. rewrite about_filter.
  apply (nodup_pairs_snd (fun t => nid (ts t)) objid i). exact Hg.
Qed.

Theorem e2e_header_instances fa c thr g ns shapes :
  (r_cap c <= 0)%Z -> NoDup (map typing_pair (filter (relevant (r_tau c) (mode_of c)) g)) ->
  run_shapes fa c thr g = inl (ns, shapes) ->
  exists I, track (r_tau c) (mode_of c) (r_cap c) g = inl I /\
    forall sh, In sh shapes ->
      sh_n sh = N.of_nat (List.length (filter (fun ie : str * list str => mem_str (sh_class sh) (snd ie)) I)).
Proof.
  intros Hcap Hg H. destruct (e2e_header fa c thr g ns shapes H) as (I & HT & HS & _).
  exists I. split; [exact HT|]. intros sh Hsh. destruct (HS sh Hsh) as [_ ->].
  apply class_count_as_length. apply (track_classes_nodup _ _ _ _ _ Hcap Hg HT).
Qed.
